import NetqasmVerif.Model.Basic
import NetqasmVerif.Model.Codec
import NetqasmVerif.Model.Sdk
