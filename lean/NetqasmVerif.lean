import NetqasmVerif.Model.Basic
import NetqasmVerif.Model.Codec
import NetqasmVerif.Props.C15
import NetqasmVerif.Props.C16
import NetqasmVerif.Props.C17
