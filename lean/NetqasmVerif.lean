import NetqasmVerif.Model.Basic
import NetqasmVerif.Model.Codec
import NetqasmVerif.Model.Asm
import NetqasmVerif.Model.AsmText
