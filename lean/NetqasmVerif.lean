import NetqasmVerif.Model.Basic
import NetqasmVerif.Model.Codec
