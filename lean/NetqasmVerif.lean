import NetqasmVerif.Model.Basic
import NetqasmVerif.Model.Codec
import NetqasmVerif.Model.Cyc
import NetqasmVerif.Model.Gates
import NetqasmVerif.Model.NvDecomp
import NetqasmVerif.Model.Pauli
import NetqasmVerif.Model.Toolbox
import NetqasmVerif.Props.C10
