import NetqasmVerif.Model.Basic
import NetqasmVerif.Model.Codec
import NetqasmVerif.Props.C10
