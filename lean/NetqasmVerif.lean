import NetqasmVerif.Model.Basic
import NetqasmVerif.Model.Codec
import NetqasmVerif.Model.Cyc
import NetqasmVerif.Model.Gates
