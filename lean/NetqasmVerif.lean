import NetqasmVerif.Model.Basic
import NetqasmVerif.Model.Codec
import NetqasmVerif.Model.Epr
import NetqasmVerif.Model.EprReq
import NetqasmVerif.Props.C11
import NetqasmVerif.Props.C12
