import NetqasmVerif.Model.Basic
import NetqasmVerif.Model.Codec
import NetqasmVerif.Model.Transpile
import NetqasmVerif.Props.C08
