/-
Lemmas (C10): the concrete code templates satisfy the slot hypotheses of
`Lemmas/BellLoop.lean`; execution of the whole wait-all correction loop for an
arbitrary number of pairs, and of the per-pair correction block.
-/
import NetqasmVerif.Lemmas.BellLoop
namespace NQ.Bell
set_option linter.unusedSimpArgs false

/-- the five registers of the correction code are pairwise different -/
structure RegsDistinct (q b L I J : Nat) : Prop where
  qb : q ≠ b
  qL : q ≠ L
  qI : q ≠ I
  qJ : q ≠ J
  bL : b ≠ L
  bI : b ≠ I
  bJ : b ≠ J
  LI : L ≠ I
  LJ : L ≠ J
  IJ : I ≠ J

def LoopLabels.toList (lb : LoopLabels) : List String := [lb.l1, lb.l2, lb.x1, lb.x2, lb.x3, lb.l3, lb.l4]

/-- which qubit id a correction is addressed to -/
def Target.pick (t : Target) (id : Int) : Int := match t with | .loaded => id | .setZero => 0

/-- events of the pairs `(Bell value, qubit id)` in order -/
def pairEvents (sp : SinglePair) (t : Target) : List (Int × Int) → List Ev
  | [] => []
  | (bv, id) :: rest => corrEvents sp bv (t.pick id) ++ pairEvents sp t rest

/-- position of the single-pair block in `corrLoopCode` -/
def spOff (t : Target) : Nat := match t with | .loaded => 13 | .setZero => 14

section loop
variable {t : Target} {ly : Layout} {sp : SinglePair} {q b L I J : Nat} {lb : LoopLabels}
  {n : Nat} {ids res : Int}

theorem loop_labels (hl : lb.toList.Nodup) :
    let code := corrLoopCode t ly sp q b L I J lb n ids res
    findLabel code lb.l3 = some 1 ∧ findLabel code lb.l1 = some 6 ∧ findLabel code lb.l2 = some 11 ∧
    findLabel code lb.x1 = some (spOff t + 2) ∧ findLabel code lb.x2 = some (spOff t + 5) ∧
    findLabel code lb.x3 = some (spOff t + 9) ∧ findLabel code lb.l4 = some (spOff t + 12) := by
  simp only [LoopLabels.toList, List.nodup_cons, List.mem_cons, List.not_mem_nil, not_or, or_false] at hl
  obtain ⟨⟨h12, h1x1, h1x2, h1x3, h13, h14⟩, ⟨h2x1, h2x2, h2x3, h23, h24⟩, ⟨hx12, hx13, hx1l3, hx1l4⟩,
    ⟨hx23, hx2l3, hx2l4⟩, ⟨hx3l3, hx3l4⟩, ⟨h34, _⟩⟩ := hl
  cases t <;>
    simp [corrLoopCode, rawBellCode, singlePairCode, findLabel, findLabelFrom, spOff,
      h12, h1x1, h1x2, h1x3, h13, h14, h2x1, h2x2, h2x3, h23, h24, hx12, hx13, hx1l3, hx1l4,
      hx23, hx2l3, hx2l4, hx3l3, hx3l4, h34,
      Ne.symm h12, Ne.symm h1x1, Ne.symm h1x2, Ne.symm h1x3, Ne.symm h13, Ne.symm h14,
      Ne.symm h2x1, Ne.symm h2x2, Ne.symm h2x3, Ne.symm h23, Ne.symm h24, Ne.symm hx12,
      Ne.symm hx13, Ne.symm hx1l3, Ne.symm hx1l4, Ne.symm hx23, Ne.symm hx2l3, Ne.symm hx2l4,
      Ne.symm hx3l3, Ne.symm hx3l4, Ne.symm h34]

theorem loop_rawBellAt (hl : lb.toList.Nodup) :
    RawBellAt (corrLoopCode t ly sp q b L I J lb n ids res) 4 ly b L I J lb.l1 lb.l2 res := by
  obtain ⟨_, h1, h2, _⟩ := loop_labels (t := t) (ly := ly) (sp := sp) (q := q) (b := b) (L := L)
    (I := I) (J := J) (n := n) (ids := ids) (res := res) hl
  constructor
  all_goals first
    | exact h1
    | exact h2
    | (cases t <;> rfl)

theorem loop_singleAt (hl : lb.toList.Nodup) :
    SingleAt (corrLoopCode t ly sp q b L I J lb n ids res) (spOff t) sp b q lb.x1 lb.x2 lb.x3 := by
  obtain ⟨_, _, _, h1, h2, h3, _⟩ := loop_labels (t := t) (ly := ly) (sp := sp) (q := q) (b := b)
    (L := L) (I := I) (J := J) (n := n) (ids := ids) (res := res) hl
  constructor
  all_goals first
    | exact h1
    | exact h2
    | exact h3
    | (cases t <;> rfl)

end loop

/-- the body of the wait-all loop for one pair: from the `beq` of the outer loop with `L = i < n`
back to the same `beq` with `L = i + 1`, having applied the corrections of pair `i` -/
theorem loop_iteration {t : Target} {ly : Layout} {sp : SinglePair} {q b L I J : Nat} {lb : LoopLabels}
    {n : Nat} {ids res : Int} {mem : Mem}
    (hd : RegsDistinct q b L I J) (hl : lb.toList.Nodup)
    (idv resv : List Int) (hmi : mem ids = some idv) (hmr : mem res = some resv)
    (i : Nat) (hi : i < n) (id bv : Int) (k : Nat)
    (hid : idv[i]? = some id) (hk : ly.idxBell + ly.len * (i : Int) = (k : Int)) (hbv : resv[k]? = some bv)
    (regs : Nat → Int) (tr : List Ev) (hL : regs L = (i : Int)) :
    ∃ regs', Reaches (corrLoopCode t ly sp q b L I J lb n ids res) mem ⟨2, regs, tr⟩
        ⟨2, regs', tr ++ corrEvents sp bv (t.pick id)⟩ ∧ regs' L = ((i + 1 : Nat) : Int) := by
  obtain ⟨hl3, _, _, _, _, _, _⟩ := loop_labels (t := t) (ly := ly) (sp := sp) (q := q) (b := b)
    (L := L) (I := I) (J := J) (n := n) (ids := ids) (res := res) hl
  have hraw := loop_rawBellAt (t := t) (ly := ly) (sp := sp) (q := q) (b := b) (L := L) (I := I) (J := J)
    (n := n) (ids := ids) (res := res) hl
  have hsing := loop_singleAt (t := t) (ly := ly) (sp := sp) (q := q) (b := b) (L := L) (I := I) (J := J)
    (n := n) (ids := ids) (res := res) hl
  -- beq not taken
  have hv : (Opd.r L).val regs ≠ (Opd.imm (n : Int)).val regs := by
    simp only [Opd.val, hL]; omega
  have c2 : (corrLoopCode t ly sp q b L I J lb n ids res)[2]? = some (.beq (.r L) (.imm n) lb.l4) := by
    cases t <;> rfl
  have c3 : (corrLoopCode t ly sp q b L I J lb n ids res)[2 + 1]? = some (.load q ids L) := by
    cases t <;> rfl
  -- load q
  let r1 := upd regs q id
  have hL1 : r1 L = (i : Int) := by simp [r1, upd_other, Ne.symm hd.qL, hL]
  obtain ⟨r2, hr2, hb2, hL2, hfr2⟩ := rawBell_spec (mem := mem) hraw hd.IJ (Ne.symm hd.LI) (Ne.symm hd.LJ) hd.bL
    i resv k bv r1 tr hL1 hmr hk hbv
  have hq2 : r2 q = id := by
    rw [hfr2 q hd.qI hd.qJ hd.qb]; simp [r1, upd_same]
  have hstart : Reaches (corrLoopCode t ly sp q b L I J lb n ids res) mem ⟨2, regs, tr⟩ ⟨4 + 9, r2, tr⟩ :=
    Reaches.head (step_beq_not c2 hv) (Reaches.head (step_load c3 hmi hL hid) hr2)
  -- tail of the iteration, generic in the registers at the start of the single-pair block
  have tailR : ∀ (r3 : Nat → Int), r3 L = (i : Int) →
      ∃ regs', Reaches (corrLoopCode t ly sp q b L I J lb n ids res) mem
          ⟨spOff t, r3, tr⟩ ⟨2, regs', tr ++ corrEvents sp (r3 b) (r3 q)⟩ ∧
        regs' L = ((i + 1 : Nat) : Int) := by
    intro r3 hL3
    have ca : (corrLoopCode t ly sp q b L I J lb n ids res)[spOff t + 10]? = some (.add L L (.imm 1)) := by
      cases t <;> rfl
    have cj : (corrLoopCode t ly sp q b L I J lb n ids res)[spOff t + 10 + 1]? = some (.jmp lb.l3) := by
      cases t <;> rfl
    have cl : (corrLoopCode t ly sp q b L I J lb n ids res)[1]? = some (.label lb.l3) := by
      cases t <;> rfl
    refine ⟨upd r3 L (r3 L + (Opd.imm 1).val r3), ?_, ?_⟩
    · refine Reaches.trans (single_spec (mem := mem) hsing r3 tr) ?_
      refine Reaches.head (step_add ca) ?_
      refine Reaches.head (step_jmp cj hl3) ?_
      exact Reaches.head (step_label cl) (Reaches.refl _)
    · simp [upd_same, hL3, Opd.val]
  cases t with
  | loaded =>
    obtain ⟨regs', hr, hL'⟩ := tailR r2 hL2
    refine ⟨regs', ?_, hL'⟩
    rw [hb2, hq2] at hr
    exact Reaches.trans hstart hr
  | setZero =>
    have cs : (corrLoopCode .setZero ly sp q b L I J lb n ids res)[4 + 9]? = some (.set q 0) := rfl
    obtain ⟨regs', hr, hL'⟩ := tailR (upd r2 q 0) (by simp [upd_other, Ne.symm hd.qL, hL2])
    refine ⟨regs', ?_, hL'⟩
    have hb3 : (upd r2 q 0) b = bv := by simp [upd_other, Ne.symm hd.qb, hb2]
    rw [hb3, upd_same] at hr
    exact Reaches.trans hstart (Reaches.head (step_set cs) hr)

/-- the whole wait-all loop, for every number of pairs: started at the `beq` with `L = i`, it ends
behind the exit label having applied, in order, the corrections of the pairs `i, i+1, …, n−1` -/
theorem loop_from {t : Target} {ly : Layout} {sp : SinglePair} {q b L I J : Nat} {lb : LoopLabels}
    {ids res : Int} {mem : Mem}
    (hd : RegsDistinct q b L I J) (hl : lb.toList.Nodup)
    (idv resv bvs : List Int) (hmi : mem ids = some idv) (hmr : mem res = some resv)
    (hlen : idv.length = bvs.length)
    (hres : ∀ i (h : i < bvs.length), ∃ k : Nat, ly.idxBell + ly.len * (i : Int) = (k : Int) ∧
      resv[k]? = some bvs[i]) :
    ∀ (d i : Nat), i + d = bvs.length → ∀ (regs : Nat → Int) (tr : List Ev), regs L = (i : Int) →
      ∃ regs', Reaches (corrLoopCode t ly sp q b L I J lb bvs.length ids res) mem ⟨2, regs, tr⟩
        ⟨spOff t + 13, regs', tr ++ pairEvents sp t ((bvs.zip idv).drop i)⟩ := by
  obtain ⟨_, _, _, _, _, _, hl4⟩ := loop_labels (t := t) (ly := ly) (sp := sp) (q := q) (b := b)
    (L := L) (I := I) (J := J) (n := bvs.length) (ids := ids) (res := res) hl
  intro d
  induction d with
  | zero =>
    intro i hi regs tr hL
    have hv : (Opd.r L).val regs = (Opd.imm (bvs.length : Int)).val regs := by
      simp only [Opd.val, hL]; omega
    have c2 : (corrLoopCode t ly sp q b L I J lb bvs.length ids res)[2]? =
        some (.beq (.r L) (.imm bvs.length) lb.l4) := by cases t <;> rfl
    have c4 : (corrLoopCode t ly sp q b L I J lb bvs.length ids res)[spOff t + 12]? =
        some (.label lb.l4) := by cases t <;> rfl
    refine ⟨regs, ?_⟩
    have hdrop : (bvs.zip idv).drop i = [] := by
      apply List.drop_eq_nil_of_le
      simp [List.length_zip, hlen]; omega
    rw [hdrop]
    simp only [pairEvents, List.append_nil]
    exact Reaches.head (step_beq_taken c2 hv hl4) (Reaches.head (step_label c4) (Reaches.refl _))
  | succ d ih =>
    intro i hi regs tr hL
    have hib : i < bvs.length := by omega
    have hii : i < idv.length := by omega
    obtain ⟨k, hk, hbv⟩ := hres i hib
    have hid : idv[i]? = some idv[i] := List.getElem?_eq_getElem hii
    obtain ⟨r1, hr1, hL1⟩ := loop_iteration (t := t) (sp := sp) (n := bvs.length) (mem := mem) hd hl idv resv
      hmi hmr i hib idv[i] bvs[i] k hid hk hbv regs tr hL
    obtain ⟨r2, hr2⟩ := ih (i + 1) (by omega) r1 (tr ++ corrEvents sp bvs[i] (t.pick idv[i])) hL1
    refine ⟨r2, ?_⟩
    have hz : i < (bvs.zip idv).length := by simp [List.length_zip, hlen]; omega
    have hdrop : (bvs.zip idv).drop i = (bvs[i], idv[i]) :: (bvs.zip idv).drop (i + 1) := by
      rw [List.drop_eq_getElem_cons hz]; simp
    rw [hdrop]
    simp only [pairEvents]
    rw [← List.append_assoc]
    exact Reaches.trans hr1 hr2

/-! ### the per-pair correction block of the post-routine / move-to-memory paths -/

theorem block_labels {t : Target} {ly : Layout} {sp : SinglePair} {q b L I J : Nat}
    {l1 l2 x1 x2 x3 : String} {ids res : Int} (hl : [l1, l2, x1, x2, x3].Nodup) :
    let code := corrBlockCode t ly sp q b L I J l1 l2 x1 x2 x3 ids res
    findLabel code l1 = some 2 ∧ findLabel code l2 = some 7 ∧
    findLabel code x1 = some 12 ∧ findLabel code x2 = some 15 ∧ findLabel code x3 = some 19 := by
  simp only [List.nodup_cons, List.mem_cons, List.not_mem_nil, not_or, or_false] at hl
  obtain ⟨⟨h12, h1x1, h1x2, h1x3⟩, ⟨h2x1, h2x2, h2x3⟩, ⟨hx12, hx13⟩, ⟨hx23, _⟩⟩ := hl
  cases t <;>
    simp [corrBlockCode, rawBellCode, singlePairCode, findLabel, findLabelFrom,
      h12, h1x1, h1x2, h1x3, h2x1, h2x2, h2x3, hx12, hx13, hx23,
      Ne.symm h12, Ne.symm h1x1, Ne.symm h1x2, Ne.symm h1x3, Ne.symm h2x1, Ne.symm h2x2, Ne.symm h2x3,
      Ne.symm hx12, Ne.symm hx13, Ne.symm hx23]

/-- executed in iteration `i` (pair register `L = i`), the block applies the corrections selected by
pair `i`'s Bell value to the qubit it addresses, leaves `L` unchanged and falls through at its end -/
theorem block_spec {t : Target} {ly : Layout} {sp : SinglePair} {q b L I J : Nat}
    {l1 l2 x1 x2 x3 : String} {ids res : Int} {mem : Mem}
    (hd : RegsDistinct q b L I J) (hl : [l1, l2, x1, x2, x3].Nodup)
    (idv resv : List Int) (hmi : mem ids = some idv) (hmr : mem res = some resv)
    (i : Nat) (id bv : Int) (k : Nat)
    (hid : idv[i]? = some id) (hk : ly.idxBell + ly.len * (i : Int) = (k : Int)) (hbv : resv[k]? = some bv)
    (regs : Nat → Int) (tr : List Ev) (hL : regs L = (i : Int)) :
    ∃ regs', Reaches (corrBlockCode t ly sp q b L I J l1 l2 x1 x2 x3 ids res) mem ⟨0, regs, tr⟩
        ⟨20, regs', tr ++ corrEvents sp bv (t.pick id)⟩ ∧ regs' L = (i : Int) := by
  obtain ⟨t1, t2, tx1, tx2, tx3⟩ := block_labels (t := t) (ly := ly) (sp := sp) (q := q) (b := b)
    (L := L) (I := I) (J := J) (ids := ids) (res := res) hl
  have hraw : RawBellAt (corrBlockCode t ly sp q b L I J l1 l2 x1 x2 x3 ids res) 0 ly b L I J l1 l2 res := by
    constructor
    all_goals first
      | exact t1
      | exact t2
      | (cases t <;> rfl)
  have hsing : SingleAt (corrBlockCode t ly sp q b L I J l1 l2 x1 x2 x3 ids res) 10 sp b q x1 x2 x3 := by
    constructor
    all_goals first
      | exact tx1
      | exact tx2
      | exact tx3
      | (cases t <;> rfl)
  obtain ⟨r2, hr2, hb2, hL2, hfr2⟩ := rawBell_spec (mem := mem) hraw hd.IJ (Ne.symm hd.LI) (Ne.symm hd.LJ) hd.bL
    i resv k bv regs tr hL hmr hk hbv
  cases t with
  | loaded =>
    have cs : (corrBlockCode .loaded ly sp q b L I J l1 l2 x1 x2 x3 ids res)[0 + 9]? = some (.load q ids L) := rfl
    refine ⟨upd r2 q id, ?_, by simp [upd_other, Ne.symm hd.qL, hL2]⟩
    have hs := single_spec (mem := mem) hsing (upd r2 q id) tr
    have hb3 : (upd r2 q id) b = bv := by simp [upd_other, Ne.symm hd.qb, hb2]
    rw [hb3, upd_same] at hs
    exact Reaches.trans hr2 (Reaches.head (step_load cs hmi hL2 hid) hs)
  | setZero =>
    have cs : (corrBlockCode .setZero ly sp q b L I J l1 l2 x1 x2 x3 ids res)[0 + 9]? = some (.set q 0) := rfl
    refine ⟨upd r2 q 0, ?_, by simp [upd_other, Ne.symm hd.qL, hL2]⟩
    have hs := single_spec (mem := mem) hsing (upd r2 q 0) tr
    have hb3 : (upd r2 q 0) b = bv := by simp [upd_other, Ne.symm hd.qb, hb2]
    rw [hb3, upd_same] at hs
    exact Reaches.trans hr2 (Reaches.head (step_set cs) hs)

end NQ.Bell
