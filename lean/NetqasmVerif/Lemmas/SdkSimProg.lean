/-
Compiler correctness of the SDK builder model (C05), part 8: whole programs — any number of flush
segments; the flush that sends nothing; connection with `Sdk.run` / `hrun`.
-/
import NetqasmVerif.Lemmas.SdkSimFlush
set_option linter.unusedSimpArgs false
set_option linter.unusedVariables false
namespace NQ.Sdk

theorem Rel.extH {H H' : List (Reg × Bool)} {L MH : List Nat} {act mu : List Bool} {hs : HSt} {ts : St}
    (h : Rel H L MH act mu hs ts) (he : Ext H H') : Rel H' L MH act mu hs ts := by
  have look : ∀ hh v r b, hs.hregs hh = some v → H'[hh]? = some (r, b) → H[hh]? = some (r, b) := by
    intro hh v r b hv hH'
    obtain ⟨r0, b0, e1, _, _⟩ := h.regs hh v hv
    have := he _ _ e1
    rw [hH'] at this; cases this; exact e1
  exact ⟨h.arrs, h.trace, h.outs,
    fun hh v hv => by
      obtain ⟨r, b, e1, e2, e3⟩ := h.regs hh v hv
      exact ⟨r, b, he _ _ e1, e2, e3⟩,
    fun h1 h2 v1 v2 r b1 b2 hv1 hv2 hH1 hH2 =>
      h.inj h1 h2 v1 v2 r b1 b2 hv1 hv2 (look h1 v1 r b1 hv1 hH1) (look h2 v2 r b2 hv2 hH2),
    h.lens,
    fun hh v r b hv hH hb => h.mh hh v r b hv (look hh v r b hv hH) hb⟩

theorem steps_nil {c c' : St × Nat} (h : Steps [] c c') : c' = c := by
  cases h with
  | refl => rfl
  | next hs _ => simp [step] at hs

/-- the flush that has nothing to send (`subrt_pop_pending_subroutine` returns `None`) -/
theorem segment_sim_none {m0 m1 m2 : Mem} {ops : List Host} {pend : List PCmd} {fuel : Nat}
    {hs0 hs1 : HSt} {ts0 : St} {nh1 na1 : Nat}
    (hinv : SegInv m0 hs0 ts0) (htop : ∀ op ∈ ops, TopOK op)
    (he : emitOps m0 ops = .ok (m1, pend)) (hf : flush m1 pend = .ok (m2, none))
    (hh : runSegment fuel m0.handles.length m0.arrLens.length ops hs0 = some (hs1, nh1, na1)) :
    SegInv m2 (clearAll hs1 (segMHandles m0.handles.length ops)) ts0 ∧
      nh1 = m2.handles.length ∧ na1 = m2.arrLens.length := by
  unfold flush at hf
  split at hf
  · cases hf
  · rename_i m1' ini hini
    simp only at hf
    split at hf
    · rename_i hemp
      cases hf
      have sL := initArrays_sameL _ _ _ _ _ hini
      have hcs : ini ++ pend ++ List.map (fun d => PCmd.instr Mn.retArr [POp.addr d.addr]) m2.arraysToReturn ++
          List.map (fun r => PCmd.instr Mn.retReg [POp.reg r]) m2.regsToReturn = [] := by
        simpa using hemp
      simp only [List.append_eq_nil_iff, List.map_eq_nil_iff] at hcs
      obtain ⟨⟨⟨hini0, hpend0⟩, haret2⟩, hrret2⟩ := hcs
      subst hpend0
      obtain ⟨⟨t, ht⟩, _, haret0⟩ := emitOps_tables ops m0 m1 [] he
      have haret1 : m1.arraysToReturn = [] := by rw [← sL.aret]; exact haret2
      have hdecl : segDecls m0.arrLens.length ops = [] := by
        rw [hinv.aret] at haret0; simpa [haret1] using haret0.symm
      have hlens : m1.arrLens = m0.arrLens := by
        have := emitOps_lens ops m0 m1 [] he; rw [hdecl] at this; simpa using this
      have hact := emitOps_active ops m0 m1 [] htop he
      unfold runSegment at hh
      rw [hdecl] at hh
      have hrel0 : Rel m1.handles m1.arrLens [] m0.active m0.measUsed (initDecls hs0 []) ts0 := by
        rw [hlens]; exact hinv.rel.extH (by rw [ht]; exact Ext.append _ _)
      obtain ⟨ts', hr, hrel', en, ea⟩ := ops_sim ops fuel m0 m1 [] htop he m1.handles m1.arrLens [] [] 0
        _ hs1 ts0 nh1 na1 (Ext.refl _) (fun _ _ h => h) (Placed.nil _ _) hrel0 hh
      have hts : ts' = ts0 := by
        have := steps_nil hr; exact (Prod.mk.inj this).1
      subst hts
      simp only [List.nil_append] at hrel'
      have fp := emitOps_fresh ops m0 m1 [] hinv.lbl he
      have fi := initArrays_fresh _ m1 m1 m2 [] ini (Fresh.nolabel fp.len rfl rfl) hini
      refine ⟨⟨?_, fi.len, haret2, hrret2⟩, by rw [sL.handles]; exact en, by rw [sL.lens]; exact ea⟩
      rw [sL.handles, sL.lens, initArrays_active _ _ _ _ _ hini, sL.meas]
      exact hrel'.flushClear
    · cases hf

/-! ## programs as lists of flush segments -/

/-- the builder on a program given as its flush segments (each list of operations is followed by a flush) -/
def compileSegs (m : Mem) : List (List Host) → Except BuildError (Mem × List (Option (List PCmd)))
  | [] => .ok (m, [])
  | ops :: rest =>
    match emitOps m ops with
    | .error e => .error e
    | .ok (m1, pend) =>
      match flush m1 pend with
      | .error e => .error e
      | .ok (m2, sub) =>
        match compileSegs m2 rest with
        | .error e => .error e
        | .ok (m3, subs) => .ok (m3, sub :: subs)

/-- `HostSem` on a segmented program; the state at each flush (before measurement handles die) -/
def hrunSegs (fuel : Nat) : Nat → Nat → HSt → List (List Host) → Option (HSt × List HSt)
  | _, _, s, [] => some (s, [])
  | nh, na, s, ops :: rest =>
    match runSegment fuel nh na ops s with
    | none => none
    | some (s1, nh1, na1) =>
      match hrunSegs fuel nh1 na1 (clearAll s1 (segMHandles nh ops)) rest with
      | none => none
      | some (s2, views) => some (s2, s1 :: views)

/-- executing the subroutines of the successive flushes; after each one the controller state `ts_k` -/
def RunSubs : List (Option (List PCmd)) → St → List St → St → Prop
  | [], ts, mids, tsEnd => mids = [] ∧ tsEnd = ts
  | none :: rest, ts, mids, tsEnd => ∃ ms, mids = ts :: ms ∧ RunSubs rest ts ms tsEnd
  | some sub :: rest, ts, mids, tsEnd =>
    ∃ ts1 ms, Runs sub 0 sub.length ts ts1 ∧ mids = ts1 :: ms ∧ RunSubs rest ts1 ms tsEnd

/-- per flush: the host view of shared memory (`ViewOK`) for the memory manager at that flush -/
def ViewsOK (fuel : Nat) : Mem → Nat → Nat → HSt → List (List Host) → List St → Prop
  | _, _, _, _, [], _ => True
  | m, nh, na, s, ops :: rest, mids =>
    match emitOps m ops, runSegment fuel nh na ops s, mids with
    | .ok (m1, pend), some (s1, nh1, na1), ts1 :: ms =>
      match flush m1 pend with
      | .ok (m2, some _) => ViewOK m1 s1 ts1 ∧ ViewsOK fuel m2 nh1 na1 (clearAll s1 (segMHandles nh ops)) rest ms
      | .ok (m2, none) => ViewsOK fuel m2 nh1 na1 (clearAll s1 (segMHandles nh ops)) rest ms
      | .error _ => True
    | _, _, _ => True

/-- **the main induction over the flush segments** -/
theorem segs_sim : ∀ (segs : List (List Host)) (fuel : Nat) (m m' : Mem) (subs : List (Option (List PCmd)))
    (hs hsEnd : HSt) (views : List HSt) (ts : St),
    (∀ ops ∈ segs, ∀ op ∈ ops, TopOK op) → compileSegs m segs = .ok (m', subs) →
    hrunSegs fuel m.handles.length m.arrLens.length hs segs = some (hsEnd, views) → SegInv m hs ts →
    ∃ mids tsEnd, RunSubs subs ts mids tsEnd ∧ SegInv m' hsEnd tsEnd ∧
      ViewsOK fuel m m.handles.length m.arrLens.length hs segs mids
  | [], fuel, m, m', subs, hs, hsEnd, views, ts, _, hc, hh, hinv => by
    simp [compileSegs] at hc; obtain ⟨rfl, rfl⟩ := hc
    simp [hrunSegs] at hh; obtain ⟨rfl, _⟩ := hh
    exact ⟨[], ts, ⟨rfl, rfl⟩, hinv, trivial⟩
  | ops :: rest, fuel, m, m', subs, hs, hsEnd, views, ts, hwf, hc, hh, hinv => by
    simp only [compileSegs] at hc
    split at hc
    · cases hc
    · rename_i m1 pend he
      split at hc
      · cases hc
      · rename_i m2 sub hf
        split at hc
        · cases hc
        · rename_i m3 subs' hc'
          cases hc
          simp only [hrunSegs] at hh
          split at hh
          · cases hh
          · rename_i s1 nh1 na1 hseg
            split at hh
            · cases hh
            · rename_i s2 views' hrest
              cases hh
              have htop : ∀ op ∈ ops, TopOK op := hwf ops (by simp)
              cases sub with
              | none =>
                obtain ⟨hinv2, en, ea⟩ := segment_sim_none hinv htop he hf hseg
                rw [en, ea] at hrest
                obtain ⟨ms, tsEnd, hrun, hinvE, hv⟩ := segs_sim rest fuel m2 _ subs' _ hsEnd views' ts
                  (fun o ho => hwf o (by simp [ho])) hc' hrest hinv2
                refine ⟨ts :: ms, tsEnd, ⟨ms, rfl, hrun⟩, hinvE, ?_⟩
                simp only [ViewsOK, he, hseg, hf]
                rw [en, ea]; exact hv
              | some sb =>
                obtain ⟨ts1, hr1, hinv2, en, ea, hview⟩ := segment_sim hinv htop he hf hseg
                rw [en, ea] at hrest
                obtain ⟨ms, tsEnd, hrun, hinvE, hv⟩ := segs_sim rest fuel m2 _ subs' _ hsEnd views' ts1
                  (fun o ho => hwf o (by simp [ho])) hc' hrest hinv2
                refine ⟨ts1 :: ms, tsEnd, ⟨ts1, ms, hr1, rfl, hrun⟩, hinvE, ?_⟩
                simp only [ViewsOK, he, hseg, hf]
                rw [en, ea]; exact ⟨hview, hv⟩

/-- the fresh connection and the empty controller are related -/
def St.init (outs : List Int) : St :=
  { regs := fun _ => none, arrs := fun _ => none, shmRegs := fun _ => none, shmArrs := fun _ => none,
    trace := [], outcomes := outs }

theorem segInv_init (outs : List Int) : SegInv Mem.init (HSt.init outs) (St.init outs) :=
  ⟨⟨rfl, rfl, rfl, fun h v hv => by simp [HSt.init] at hv,
    fun h1 h2 v1 v2 r b1 b2 hv1 => by simp [HSt.init] at hv1,
    fun a n hn => by simp [Mem.init] at hn,
    fun h v r b hv => by simp [HSt.init] at hv⟩, rfl, rfl, rfl⟩

end NQ.Sdk
