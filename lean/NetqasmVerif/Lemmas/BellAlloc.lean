/-
Lemmas (C10): the registers and labels the builder model allocates are fresh,
hence pairwise different — for EVERY set of active registers and EVERY set of
labels already handed out. This discharges the distinctness hypotheses of the
loop/block execution theorems for everything `emit` can produce.
-/
import NetqasmVerif.Lemmas.BellLoopSpec
namespace NQ.Bell

theorem getInactive_not_mem {act : List Nat} {r : Nat} (h : getInactive act = some r) : r ∉ act := by
  unfold getInactive at h
  have := List.find?_some h
  simpa using this

theorem newLabel_fresh {used : List String} {p : String} {r : String × List String}
    (h : newLabel used p = some r) : r.1 ∉ used ∧ r.2 = r.1 :: used := by
  unfold newLabel at h
  split at h
  · rename_i hc
    simp only [Option.some.injEq] at h
    subst h
    exact ⟨by simpa using hc, rfl⟩
  · split at h
    · rename_i s hs
      simp only [Option.some.injEq] at h
      subst h
      have := List.find?_some hs
      exact ⟨by simpa using this, rfl⟩
    · simp at h

/-- the wait-all allocation yields five different registers and seven different labels -/
theorem allocWaitAll_distinct {act : List Nat} {used : List String} {q b L I J : Nat} {lb : LoopLabels}
    (h : allocWaitAll act used = some (q, b, L, I, J, lb)) :
    RegsDistinct q b L I J ∧ lb.toList.Nodup := by
  simp only [allocWaitAll, Option.bind_eq_some_iff] at h
  obtain ⟨q', hq, b', hb, L', hL, I', hI, J', hJ, p1, h1, p2, h2, p3, h3, p4, h4, p5, h5, p6, h6, p7, h7, he⟩ := h
  simp only [Option.some.injEq, Prod.mk.injEq] at he
  obtain ⟨rfl, rfl, rfl, rfl, rfl, rfl⟩ := he
  have nb := getInactive_not_mem hb
  have nL := getInactive_not_mem hL
  have nI := getInactive_not_mem hI
  have nJ := getInactive_not_mem hJ
  simp only [List.mem_cons, not_or] at nb nL nI nJ
  obtain ⟨f1, e1⟩ := newLabel_fresh h1
  obtain ⟨f2, e2⟩ := newLabel_fresh h2
  obtain ⟨f3, e3⟩ := newLabel_fresh h3
  obtain ⟨f4, e4⟩ := newLabel_fresh h4
  obtain ⟨f5, e5⟩ := newLabel_fresh h5
  obtain ⟨f6, e6⟩ := newLabel_fresh h6
  obtain ⟨f7, e7⟩ := newLabel_fresh h7
  rw [e6] at f7; rw [e5] at f6 f7; rw [e4] at f5 f6 f7; rw [e3] at f4 f5 f6 f7
  rw [e2] at f3 f4 f5 f6 f7; rw [e1] at f2 f3 f4 f5 f6 f7
  simp only [List.mem_cons, not_or] at f2 f3 f4 f5 f6 f7
  refine ⟨⟨Ne.symm nb.1, Ne.symm nL.2.1, Ne.symm nI.2.2.1, Ne.symm nJ.2.2.2.1, Ne.symm nL.1,
    Ne.symm nI.2.1, Ne.symm nJ.2.2.1, Ne.symm nI.1, Ne.symm nJ.2.1, Ne.symm nJ.1⟩, ?_⟩
  show [p1.1, p2.1, p3.1, p4.1, p5.1, p6.1, p7.1].Nodup
  simp only [List.nodup_cons, List.mem_cons, List.not_mem_nil, or_false, not_or, List.nodup_nil, and_true,
    not_false_eq_true]
  exact ⟨⟨Ne.symm f2.1, Ne.symm f3.2.1, Ne.symm f4.2.2.1, Ne.symm f5.2.2.2.1, Ne.symm f6.2.2.2.2.1,
      Ne.symm f7.2.2.2.2.2.1⟩,
    ⟨Ne.symm f3.1, Ne.symm f4.2.1, Ne.symm f5.2.2.1, Ne.symm f6.2.2.2.1, Ne.symm f7.2.2.2.2.1⟩,
    ⟨Ne.symm f4.1, Ne.symm f5.2.1, Ne.symm f6.2.2.1, Ne.symm f7.2.2.2.1⟩,
    ⟨Ne.symm f5.1, Ne.symm f6.2.1, Ne.symm f7.2.2.1⟩, ⟨Ne.symm f6.1, Ne.symm f7.2.1⟩, Ne.symm f7.1⟩

/-- what `emitWaitAll` produces when corrections are expected: the receive command, the wait, and
the correction loop over freshly allocated, pairwise different registers and labels -/
theorem emitWaitAll_shape {d : Data} {c : Config} {code : List Cmd} (he : c.expect = true)
    (h : emitWaitAll d c = some code) :
    ∃ q b L I J lb, RegsDistinct q b L I J ∧ lb.toList.Nodup ∧
      code = [ .recvEpr c.remote c.sock (some c.ids) c.res, .waitAllImm c.res 0 (d.ly.len * c.n) ] ++
        corrLoopCode d.tWaitAll d.ly d.sp q b L I J lb c.n c.ids c.res := by
  simp only [emitWaitAll, he, Bool.not_true, Bool.false_eq_true, if_false] at h
  cases ha : allocWaitAll c.act c.labels with
  | none => simp [ha] at h
  | some r =>
    obtain ⟨q, b, L, I, J, lb⟩ := r
    simp only [ha, Option.some.injEq] at h
    obtain ⟨hd, hl⟩ := allocWaitAll_distinct ha
    exact ⟨q, b, L, I, J, lb, hd, hl, h.symm⟩

/-- the correction block inside the per-pair loop of the post-routine / move paths uses pairwise
different registers and labels -/
theorem seqCorr_shape {d : Data} {c : Config} {mv : Bool} {a : SeqAlloc} {u4 u9 : List String}
    {cmds : List Cmd} {act : List Nat} {used : List String}
    (ha : allocSeq act used = some (a, u4)) (hact : act = c.act) (he : c.expect = true)
    (h : seqCorr d c mv a u4 = some (cmds, u9)) :
    ∃ I J l1 l2 x1 x2 x3, RegsDistinct a.q a.b a.L I J ∧ [l1, l2, x1, x2, x3].Nodup ∧
      cmds = corrBlockCode (if mv then d.tMove else d.tPost) d.ly d.sp a.q a.b a.L I J l1 l2 x1 x2 x3
        c.ids c.res := by
  subst hact
  simp only [seqCorr, he, Bool.not_true, Bool.false_eq_true, if_false, Option.bind_eq_some_iff] at h
  obtain ⟨I, hI, J, hJ, p1, h1, p2, h2, p3, h3, p4, h4, p5, h5, heq⟩ := h
  simp only [Option.some.injEq, Prod.mk.injEq] at heq
  obtain ⟨hcmds, _⟩ := heq
  simp only [allocSeq, Option.bind_eq_some_iff] at ha
  obtain ⟨L', hL, q', hq, b', hb, s, _, t, _, e, _, J0, _, r1, _, r2, _, r3, _, r4, _, hae⟩ := ha
  simp only [Option.some.injEq, Prod.mk.injEq] at hae
  obtain ⟨rfl, _⟩ := hae
  have nq := getInactive_not_mem hq
  have nb := getInactive_not_mem hb
  have nI := getInactive_not_mem hI
  have nJ := getInactive_not_mem hJ
  simp only [List.mem_cons, not_or] at nq nb nI nJ
  obtain ⟨f1, e1⟩ := newLabel_fresh h1
  obtain ⟨f2, e2⟩ := newLabel_fresh h2
  obtain ⟨f3, e3⟩ := newLabel_fresh h3
  obtain ⟨f4, e4⟩ := newLabel_fresh h4
  obtain ⟨f5, e5⟩ := newLabel_fresh h5
  rw [e4] at f5; rw [e3] at f4 f5; rw [e2] at f3 f4 f5; rw [e1] at f2 f3 f4 f5
  simp only [List.mem_cons, not_or] at f2 f3 f4 f5
  refine ⟨I, J, p1.1, p2.1, p3.1, p4.1, p5.1, ?_, ?_, hcmds.symm⟩
  · exact ⟨Ne.symm nb.1, nq.1, Ne.symm nI.2.1, Ne.symm nJ.2.2.1, nb.2.1, Ne.symm nI.1,
      Ne.symm nJ.2.1, Ne.symm nI.2.2.1, Ne.symm nJ.2.2.2.1, Ne.symm nJ.1⟩
  · simp only [List.nodup_cons, List.mem_cons, List.not_mem_nil, or_false, not_or, List.nodup_nil, and_true,
      not_false_eq_true]
    exact ⟨⟨Ne.symm f2.1, Ne.symm f3.2.1, Ne.symm f4.2.2.1, Ne.symm f5.2.2.2.1⟩,
      ⟨Ne.symm f3.1, Ne.symm f4.2.1, Ne.symm f5.2.2.1⟩, ⟨Ne.symm f4.1, Ne.symm f5.2.1⟩, Ne.symm f5.1⟩

end NQ.Bell
