/-
The complex instance: in ℂ, with `w = e^{iθ}`, the matrix `rot2P ax w` of Model/Gates IS
`2·e^{iθ/2}·R_ax(θ)` with `R_ax(θ) = exp(−i·θ/2·σ_ax) = cos(θ/2)·1 − i·sin(θ/2)·σ_ax` in closed form —
for EVERY angle; and `ζ_D = e^{iπ/2^D}` is a root with `ζ_D^(2^D) = −1`, so every encodable angle
`n·π/2^d` is `wOf ζ_D D n d`.
-/
import Mathlib.Analysis.SpecialFunctions.Trigonometric.Basic
import NetqasmVerif.Lemmas.RotPoly
namespace NQ.Rot
open Complex

/-- `R_ax(θ) = cos(θ/2)·1 − i·sin(θ/2)·σ_ax` (the closed form of `exp(−i·θ/2·σ_ax)`,
`netqasm.util.quantum_gates.get_rotation_matrix`) -/
noncomputable def Rmat (ax : Axis) (θ : ℂ) : M2 ℂ :=
  match ax with
  | .X => ⟨cos (θ / 2), -I * sin (θ / 2), -I * sin (θ / 2), cos (θ / 2)⟩
  | .Y => ⟨cos (θ / 2), -sin (θ / 2), sin (θ / 2), cos (θ / 2)⟩
  | .Z => ⟨cos (θ / 2) - I * sin (θ / 2), 0, 0, cos (θ / 2) + I * sin (θ / 2)⟩

/-- `Rmat` really is `cos(θ/2)·1 − i·sin(θ/2)·σ` -/
theorem Rmat_eq (ax : Axis) (θ : ℂ) :
    Rmat ax θ = ⟨cos (θ / 2) - I * sin (θ / 2) * (pauli I ax).a, -I * sin (θ / 2) * (pauli I ax).b,
      -I * sin (θ / 2) * (pauli I ax).c, cos (θ / 2) - I * sin (θ / 2) * (pauli I ax).d⟩ := by
  have hI : I * I = -1 := I_mul_I
  cases ax <;> simp only [Rmat, pauli, M2.mk.injEq] <;> refine ⟨?_, ?_, ?_, ?_⟩ <;>
    first | ring1 | linear_combination (sin (θ / 2)) * hI | linear_combination (-sin (θ / 2)) * hI

/-- **the Lean denotation is the textbook rotation, for every angle**:
`rot2P ax e^{iθ} = 2·e^{iθ/2}·R_ax(θ)` -/
theorem rot2P_complex (ax : Axis) (θ : ℂ) :
    P I ax (exp (θ * I)) = smul2 (2 * exp (θ / 2 * I)) (Rmat ax θ) := by
  have hI : I * I = -1 := I_mul_I
  have hcs : cos (θ / 2) ^ 2 + sin (θ / 2) ^ 2 = 1 := cos_sq_add_sin_sq (θ / 2)
  have he : exp (θ / 2 * I) = cos (θ / 2) + sin (θ / 2) * I := exp_mul_I (θ / 2)
  have hw : exp (θ * I) = exp (θ / 2 * I) * exp (θ / 2 * I) := by
    rw [← exp_add]; congr 1; ring
  cases ax
  · simp only [P_X, Rmat, smul2, M2.mk.injEq]
    rw [hw, he]
    generalize cos (θ / 2) = c at *
    generalize sin (θ / 2) = s at *
    refine ⟨?_, ?_, ?_, ?_⟩ <;> linear_combination (-1 : ℂ) * hcs + s ^ 2 * hI
  · simp only [P_Y, Rmat, smul2, M2.mk.injEq]
    rw [hw, he]
    generalize cos (θ / 2) = c at *
    generalize sin (θ / 2) = s at *
    refine ⟨?_, ?_, ?_, ?_⟩
    · linear_combination (-1 : ℂ) * hcs + s ^ 2 * hI
    · linear_combination I * hcs + (2 * c * s + s ^ 2 * I) * hI
    · linear_combination (-I) * hcs - (2 * c * s + s ^ 2 * I) * hI
    · linear_combination (-1 : ℂ) * hcs + s ^ 2 * hI
  · simp only [P_Z, Rmat, smul2, M2.mk.injEq]
    rw [hw, he]
    generalize cos (θ / 2) = c at *
    generalize sin (θ / 2) = s at *
    refine ⟨?_, ?_, ?_, ?_⟩
    · linear_combination (-2 : ℂ) * hcs + 2 * s ^ 2 * hI
    · ring
    · ring
    · ring

/-- the controlled rotation's control-|1⟩ block in ℂ: `rot2PNeg ax e^{iθ} = 2·e^{iθ/2}·R_ax(−θ)` -/
theorem rot2PNeg_complex (ax : Axis) (θ : ℂ) :
    PNeg I ax (exp (θ * I)) = smul2 (2 * exp (θ / 2 * I)) (Rmat ax (-θ)) := by
  have h : exp (θ * I) * exp (-θ * I) = 1 := by rw [← exp_add]; simp
  rw [crot_block I ax _ _ h, rot2P_complex ax (-θ)]
  have hh : exp (θ * I) * (2 * exp (-θ / 2 * I)) = 2 * exp (θ / 2 * I) := by
    have : exp (θ * I) * exp (-θ / 2 * I) = exp (θ / 2 * I) := by rw [← exp_add]; congr 1; ring
    linear_combination 2 * this
  simp only [smul2, M2.mk.injEq]
  refine ⟨?_, ?_, ?_, ?_⟩ <;> (rw [← mul_assoc, hh])

/-- `ζ_D = e^{iπ/2^D}` -/
noncomputable def zetaC (D : ℕ) : ℂ := exp (Real.pi / 2 ^ D * I)

theorem zetaC_pow (D : ℕ) : zetaC D ^ 2 ^ D = -1 := by
  unfold zetaC
  rw [← exp_nat_mul]
  have : ((2 ^ D : ℕ) : ℂ) * (Real.pi / 2 ^ D * I) = Real.pi * I := by
    push_cast; field_simp
  rw [this, exp_pi_mul_I]

/-- the angle of `(n, d)`: `wOf ζ_D D n d = e^{i·nπ/2^d}` for every `D ≥ d` -/
theorem wOf_zetaC (D n d : ℕ) (hd : d ≤ D) :
    wOf (zetaC D) D n d = exp ((n : ℂ) * Real.pi / 2 ^ d * I) := by
  unfold wOf zetaC
  rw [← exp_nat_mul]
  congr 1
  have h2 : (2 : ℂ) ^ D = 2 ^ (D - d) * 2 ^ d := by rw [← pow_add]; congr 1; omega
  push_cast
  rw [h2]
  field_simp

end NQ.Rot
