/-
C08 × C07: a concrete quantum semantics for gate instructions ("apply the operator the mnemonic
denotes to the named qubits", as an abstract action `QAction` whose only assumed facts are the
standard lifting of exact operator identities and angle equality), the role reading of the
expansion templates of Gen/NvExpand, and the tie of those templates to the sequences of
Gen/NvDecomp about which C07 proves the operator identities.
-/
import NetqasmVerif.Lemmas.TranspileSim
import NetqasmVerif.Model.NvDecomp
import NetqasmVerif.Gen.NvExpand
import NetqasmVerif.Gen.NvDecomp
namespace NQ.Tr
open NQ NQ.NV

/-- the gate a class denotes (vanilla and NV gate classes; everything else: none) -/
def gnameOf (cls : String) : Option GName :=
  if cls == "vanilla.GateXInstruction" then some .x
  else if cls == "vanilla.GateYInstruction" then some .y
  else if cls == "vanilla.GateZInstruction" then some .z
  else if cls == "vanilla.GateHInstruction" then some .h
  else if cls == "vanilla.GateKInstruction" then some .k
  else if cls == "vanilla.GateSInstruction" then some .s
  else if cls == "vanilla.GateTInstruction" then some .t
  else if cls == "vanilla.RotXInstruction" || cls == "nv.RotXInstruction" then some .rotX
  else if cls == "vanilla.RotYInstruction" || cls == "nv.RotYInstruction" then some .rotY
  else if cls == "vanilla.RotZInstruction" || cls == "nv.RotZInstruction" then some .rotZ
  else if cls == "nv.ControlledRotXInstruction" then some .crotX
  else if cls == "nv.ControlledRotYInstruction" then some .crotY
  else if cls == "vanilla.CnotInstruction" then some .cnot
  else if cls == "vanilla.CphaseInstruction" then some .cphase
  else none

def movCls : String := "vanilla.MovInstruction"

def natOf (v : Int) : Option Nat := if 0 ≤ v then some v.toNat else none

/-- the virtual qubit id a register holds -/
def readQ (regs : Reg → Option Int) (r : Reg) : Option Nat := (regs r).bind natOf

/-- operand shape of a gate: 1 = fixed one-qubit, 2 = one-qubit rotation, 3 = fixed two-qubit,
4 = controlled rotation -/
def gkind : GName → Nat
  | .x | .y | .z | .h | .k | .s | .t => 1
  | .rotX | .rotY | .rotZ => 2
  | .cnot | .cphase => 3
  | .crotX | .crotY => 4

/-- the gate instruction as data over the virtual ids its registers hold right now -/
def giOf (regs : Reg → Option Int) (i : Instr) : Option GI :=
  match gnameOf i.cls, i.ops with
  | some g, [.reg r] =>
    if gkind g = 1 then (readQ regs r).map fun q => ⟨g, [q], 0, 0⟩ else none
  | some g, [.reg r, .imm n, .imm d] =>
    if gkind g = 2 then
      match readQ regs r, natOf n, natOf d with
      | some q, some n, some d => some ⟨g, [q], n, d⟩
      | _, _, _ => none
    else none
  | some g, [.reg r0, .reg r1] =>
    if gkind g = 3 then
      match readQ regs r0, readQ regs r1 with
      | some a, some b => if a = b then none else some ⟨g, [a, b], 0, 0⟩
      | _, _ => none
    else none
  | some g, [.reg r0, .reg r1, .imm n, .imm d] =>
    if gkind g = 4 then
      match readQ regs r0, readQ regs r1, natOf n, natOf d with
      | some a, some b, some n, some d => if a = b then none else some ⟨g, [a, b], n, d⟩
      | _, _, _, _ => none
    else none
  | _, _ => none

/-- the quantum part of the machine: gate instructions act on a state space `Q` (states up to
global phase) -/
structure QAction (Q : Type) where
  act : GI → Q → Q
  /-- `transfer φ src tgt q`: the state transfer of the MOV specification, a PARTIAL operation:
  defined when `src ≠ tgt` and `tgt` is in |0⟩ in `q` (freshly initialised; it may not be entangled
  with anything); then `tgt` carries what `src` carried — entanglement with the rest included — and
  `src` is left in the (normalised) one-qubit state `φ` -/
  transfer : Cyc × Cyc → Nat → Nat → Q → Option Q

def QAction.run {Q : Type} (A : QAction Q) : List GI → Q → Q
  | [], q => q
  | g :: gs, q => A.run gs (A.act g q)

/-- rename the qubits of a gate instruction -/
def ren (ρ : Nat → Nat) (g : GI) : GI := { g with qs := g.qs.map ρ }

/-- `(φ₀, φ₁)`: what the operator `U` leaves on the source when it moves `ψ` onto a |0⟩ target
(the `phi0`, `phi1` of C07's `isTransfer`) -/
def phiOf (src tgt : Nat) (U : Mat) : Cyc × Cyc :=
  let idx (s t : Nat) : Nat := s * 2 ^ (1 - src) + t * 2 ^ (1 - tgt)
  let u0 := U.getD (idx 0 0) []
  (u0.getD (idx 0 0) 0, u0.getD (idx 1 0) 0)

/-- the NV move circuit of Gen/NvDecomp for a direction (`true`: electron → carbon) -/
def movRep (ec : Bool) : Option (List GI) :=
  (Gen.nvMov.find? (fun e => if ec then e.1 == 0 else e.2.1 == 0)).map (·.2.2)

/-- roles (source, target) of a direction: role 0 = electron, role 1 = carbon -/
def movDir (ec : Bool) : Nat × Nat := if ec then (0, 1) else (1, 0)

/-- the state in which the device's move leaves its SOURCE qubit (the MOV specification fixes the
target only; the source is to be freed) -/
def movPhi (ec : Bool) : Cyc × Cyc :=
  match (movRep ec).bind (circuit 2) with
  | some U => phiOf (movDir ec).1 (movDir ec).2 U
  | none => (0, 0)

/-- The only facts about the quantum action that are used (standard mathematics, not re-proved):
* `lift`: two gate lists on `n` roles whose exact operators are both a non-zero scalar multiple of
  one operator `T` act identically on any register when the roles are mapped injectively to
  qubits (operator identities tensor with the identity; a scalar is a global phase);
* `angle`: a rotation depends on `(n, d)` only through the angle `n·π/2^d`. -/
structure QLawful {Q : Type} (A : QAction Q) : Prop where
  lift : ∀ (n : Nat) (a b : List GI) (T : Mat) (ρ : Nat → Nat) (q : Q),
    (∀ i j, i < n → j < n → ρ i = ρ j → i = j) →
    equivUpToScalar? (circuit n a) (some T) = true → equivUpToScalar? (circuit n b) (some T) = true →
    A.run (a.map (ren ρ)) q = A.run (b.map (ren ρ)) q
  angle : ∀ (g : GName) (x n d n' d' : Nat) (q : Q), GName.isRot g = true → n' * 2 ^ d = n * 2 ^ d' →
    A.act ⟨g, [x], n', d'⟩ q = A.act ⟨g, [x], n, d⟩ q
  /-- a two-qubit circuit whose exact operator satisfies C07's `isTransfer` (`U(ψ ⊗ |0⟩) = φ ⊗ ψ` on
  two basis columns, hence for every ψ and — by linearity — for a source entangled with anything)
  IS the transfer leaving `φ`, wherever the transfer is defined -/
  transferLaw : ∀ (a : List GI) (U : Mat) (s t : Nat) (ρ : Nat → Nat) (q q' : Q),
    (∀ i j, i < 2 → j < 2 → ρ i = ρ j → i = j) → circuit 2 a = some U → isTransfer s t U = true →
    A.transfer (phiOf s t U) (ρ s) (ρ t) q = some q' → A.run (a.map (ren ρ)) q = q'

/-- vanilla `mov src tgt`: the state transfer of the property statement, onto a target that is in
|0⟩ (undefined otherwise), between the electron (id 0) and a carbon; the source is left in the state
the device's move leaves it in. Registers are untouched. -/
def movExec {C Q : Type} (A : QAction Q) (i : Instr) (s : St (C × Q)) : Option (St (C × Q)) :=
  match i.ops with
  | [.reg r0, .reg r1] =>
    match readQ s.regs r0, readQ s.regs r1 with
    | some a, some b =>
      if a = b then none
      else if a = 0 then (A.transfer (movPhi true) a b s.mem.2).map fun q' => ⟨s.regs, (s.mem.1, q')⟩
      else if b = 0 then (A.transfer (movPhi false) a b s.mem.2).map fun q' => ⟨s.regs, (s.mem.1, q')⟩
      else none
    | _, _ => none
  | _ => none

/-- **The concrete semantics**: classical instructions as `Mc` says; a gate instruction (vanilla
or NV) applies its operator to the qubits its registers name (fault if a register is undefined,
negative, or both name the same qubit) and touches nothing else; `mov` is the partial state transfer
`movExec` (NOT the SWAP its `to_matrix()` publishes: the property asks for "the same state transfer
onto a freshly initialised target"). -/
def MQ {C Q : Type} (A : QAction Q) (Mc : Sem (C × Q)) : Sem (C × Q) where
  exec i s :=
    if i.cls == movCls then movExec A i s
    else match gnameOf i.cls with
      | some _ => (giOf s.regs i).map fun gi => ⟨s.regs, (s.mem.1, A.act gi s.mem.2)⟩
      | none => Mc.exec i s
  cond := Mc.cond

/-! ### role reading of templates -/

/-- a template instruction as a gate over ROLES (`rm` maps the register operands `a`, `b`, `s`
to roles); only literal angles -/
def tGI (rm : TOp → Option Nat) (t : TInstr) : Option GI :=
  match gnameOf t.cls, t.ops with
  | some g, [r, .lit n, .lit d] =>
    if gkind g = 2 then
      match rm r, natOf n, natOf d with
      | some q, some n, some d => some ⟨g, [q], n, d⟩
      | _, _, _ => none
    else none
  | some g, [r0, r1, .lit n, .lit d] =>
    if gkind g = 4 then
      match rm r0, rm r1, natOf n, natOf d with
      | some a, some b, some n, some d => if a = b then none else some ⟨g, [a, b], n, d⟩
      | _, _, _, _ => none
    else none
  | _, _ => none

def isDebugCls (c : String) : Bool := debugPrefix.isPrefixOf c

/-- role reading of a template body: debug markers dropped; `none` if some instruction is not a
literal-angle NV gate over mapped registers -/
def roleSeq (rm : TOp → Option Nat) : List TInstr → Option (List GI)
  | [] => some []
  | t :: ts =>
    if isDebugCls t.cls then roleSeq rm ts
    else match tGI rm t, roleSeq rm ts with
      | some g, some gs => some (g :: gs)
      | _, _ => none

def rmEC : TOp → Option Nat
  | .a => some 0 | .b => some 1 | _ => none
def rmCE : TOp → Option Nat
  | .a => some 1 | .b => some 0 | _ => none
def rmCC : TOp → Option Nat
  | .s => some 0 | .a => some 1 | .b => some 2 | _ => none
def rm1 : TOp → Option Nat
  | .a => some 0 | _ => none

def setS0 : TInstr := ⟨"core.SetInstruction", [.s, .lit 0]⟩

/-- tie, two-qubit: the template under `key` (minus the leading `set s 0` for carbon–carbon), read
over roles, IS the representative sequence of Gen/NvDecomp for that gate and placement -/
def twoTie (cfg : Cfg) (key : String) (g : GName) (p : Placement) (rm : TOp → Option Nat) : Bool :=
  match expOf cfg key with
  | none => false
  | some body =>
    match p with
    | .cc => (body.head? == some setS0) && (roleSeq rm body.tail).isSome
              && (roleSeq rm body.tail == repOf Gen.nvTwo g p)
    | _ => (roleSeq rm body).isSome && (roleSeq rm body == repOf Gen.nvTwo g p)

/-- tie, fixed single-qubit gates: the template of class `cls`, read on role 0, is a sequence of
Gen/NvDecomp for that gate -/
def singleTie (cfg : Cfg) (key : String) (g : GName) : Bool :=
  match expOf cfg key with
  | none => false
  | some body => match roleSeq rm1 body with
    | some seq => Gen.nvSingle.any (fun e => e.1 == g && e.2.2 == seq)
    | none => false

/-- rotation templates: one NV rotation of the same axis on `a`, angle copied (simulation) or
hardware-normalised -/
def rotTie (cfg : Cfg) (cls : String) (g : GName) : Bool :=
  (match expOf cfg cls with
    | some [⟨c, [.a, .inp 1, .inp 2]⟩] => gnameOf c == some g && !isDebugCls c
    | _ => false) &&
  (match expOf cfg (cls ++ "@hw") with
    | some [⟨c, [.a, .hwNum, .lit 4]⟩] => gnameOf c == some g && !isDebugCls c
    | _ => false)

def fixedSingles : List (String × GName) :=
  [("vanilla.GateXInstruction", .x), ("vanilla.GateYInstruction", .y), ("vanilla.GateZInstruction", .z),
   ("vanilla.GateHInstruction", .h), ("vanilla.GateKInstruction", .k), ("vanilla.GateSInstruction", .s),
   ("vanilla.GateTInstruction", .t)]
def rotSingles : List (String × GName) :=
  [("vanilla.RotXInstruction", .rotX), ("vanilla.RotYInstruction", .rotY), ("vanilla.RotZInstruction", .rotZ)]

/-- tie, MOV: the template under `key`, read over roles, is the Gen/NvDecomp move circuit of that
direction -/
def movTie (cfg : Cfg) (key : String) (ec : Bool) (rm : TOp → Option Nat) : Bool :=
  match expOf cfg key with
  | none => false
  | some body => (roleSeq rm body).isSome && (roleSeq rm body == movRep ec)

/-- all ties at once, for one configuration -/
def AllTies (cfg : Cfg) : Bool :=
  fixedSingles.all (fun e => singleTie cfg e.1 e.2 && singleTie cfg (e.1 ++ "@hw") e.2)
  && rotSingles.all (fun e => rotTie cfg e.1 e.2)
  && twoTie cfg ("cnot_ec" ++ sfx cfg) .cnot .ec rmEC
  && twoTie cfg ("cnot_ce" ++ sfx cfg) .cnot .ce rmCE
  && twoTie cfg ("cnot_cc" ++ sfx cfg) .cnot .cc rmCC
  && twoTie cfg ("cphase_ec" ++ sfx cfg) .cphase .ec rmEC
  && twoTie cfg ("cphase_ec" ++ sfx cfg) .cphase .ce rmEC
  && twoTie cfg ("cphase_cc" ++ sfx cfg) .cphase .cc rmCC
  && movTie cfg ("mov_ec" ++ sfx cfg) true rmEC
  && movTie cfg ("mov_ce" ++ sfx cfg) false rmCE

/-- class facts used to recognise instructions: gate classes of the table are exactly the classes
`gnameOf`/`movCls` know, with the tags the dispatch uses; `set` is the one `isSet` class -/
def ClsTie (cfg : Cfg) : Bool :=
  cfg.infos.all (fun r =>
    (!r.isSet || r.cls == "core.SetInstruction")
    && (!(r.gate1 || r.gate2) || (r.cls == movCls) || (gnameOf r.cls).isSome)
    && ((r.gate1 || r.gate2 || r.cls == movCls) || (gnameOf r.cls).isNone)
    && (!r.gate1 || fixedSingles.any (fun e => e.1 == r.cls) || rotSingles.any (fun e => e.1 == r.cls))
    && (!r.gate2 || (r.tag == "cnot" && gnameOf r.cls == some .cnot)
                 || (r.tag == "cphase" && gnameOf r.cls == some .cphase)
                 || (r.tag == "mov" && r.cls == movCls)))
  && (match infoOf cfg "core.SetInstruction" with | some r => r.isSet | none => false)

/-- the vanilla gates themselves, as one-instruction circuits, are (up to a scalar) the targets
C07 compares against; each target is proportional to itself (it is non-zero) -/
theorem targets_self :
    ([GName.x, .y, .z, .h, .k, .s, .t].all fun g =>
      equivUpToScalar? (circuit 1 [⟨g, [0], 0, 0⟩]) ((target1 g).map (embed1 1 0))) = true ∧
    ([GName.cnot, .cphase].all fun g => [(Placement.ec), .ce, .cc].all fun p =>
      equivUpToScalar? (circuit p.nq [⟨g, [p.roles.1, p.roles.2], 0, 0⟩]) (target2 g p)) = true := by
  decide +kernel

theorem fixedSingles_gname :
    (fixedSingles.all fun e => gnameOf e.1 == some e.2 && gkind e.2 == 1 && e.1 != movCls) = true ∧
    (rotSingles.all fun e => gnameOf e.1 == some e.2 && gkind e.2 == 2 && e.1 != movCls) = true ∧
    gnameOf movCls = none ∧ gnameOf "core.SetInstruction" = none := by decide +kernel

theorem all_ties_gen : ∀ d h : Bool, AllTies (Gen.cfg d h) = true ∧ ClsTie (Gen.cfg d h) = true := by
  decide +kernel

end NQ.Tr
