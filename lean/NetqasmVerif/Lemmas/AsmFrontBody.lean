/-
C03 text level: `_create_subroutine` reads every rendered command back.
`renderCmd` writes a proto command as one line: `L:` for a label, `mn(a₁,…,aₖ) op₁ … opₙ` for an
instruction (no brackets when there are no arguments).
-/
import NetqasmVerif.Model.AsmFront
import NetqasmVerif.Lemmas.TextSourceLine
namespace NQ.AsmFront
open NQ NQ.AsmText NQ.Text

variable {S : Syms}

/-! ### labels and operands back from tokens -/

theorem ofTok_tokOfP (o : Asm.POperand) (ho : pOpOk S o) : ofTok (tokOfP o) = o := by
  cases o with
  | tmpl n => exact absurd ho (by simp [pOpOk])
  | lab l => simp [tokOfP, ofTok]
  | entry a i => cases i <;> rfl
  | slice a s e => cases s <;> cases e <;> rfl
  | _ => rfl

theorem map_ofTok_tokOfP (ops : List Asm.POperand) (ho : ∀ o ∈ ops, pOpOk S o) :
    (ops.map tokOfP).map ofTok = ops := by
  induction ops with
  | nil => rfl
  | cons o os ih =>
    simp only [List.map_cons, ofTok_tokOfP o (ho o (by simp)), ih (fun o' h => ho o' (by simp [h]))]

/-! ### label lines -/

/-- a label name the code accepts: a variable name (so it contains no `:`) -/
def labelOk (l : String) : Prop := isVarName l.toList = true

theorem varName_no_branch (hX : srcSymsOk S = true) (hS : SOk S) {l : List Char} (h : isVarName l = true) :
    S.branchEnd ∉ l := by
  intro hin
  have hc := isVarName_chars h _ hin
  simp only [srcSymsOk, Bool.and_eq_true, Bool.not_eq_true', Bool.or_eq_false_iff,
    decide_eq_false_iff_not] at hX
  obtain ⟨⟨⟨⟨_, _⟩, hXb⟩, _⟩, _⟩ := hX
  simp only [Bool.or_eq_true, decide_eq_true_eq] at hc
  rcases hc with (hc | hc) | hc
  · rw [hXb.1] at hc; cases hc
  · rw [hS.branch.1] at hc; cases hc
  · exact hXb.2 hc

theorem dropWhile_rev_label {l : List Char} {b : Char} (h : b ∉ l) :
    ((l ++ [b]).reverse.dropWhile (· = b)).reverse = l := by
  simp only [List.reverse_append, List.reverse_cons, List.reverse_nil, List.nil_append, List.singleton_append,
    List.dropWhile_cons, decide_true, if_true]
  have : l.reverse.dropWhile (fun x => decide (x = b)) = l.reverse := by
    cases hl : l.reverse with
    | nil => rfl
    | cons c cs =>
      have hc : c ≠ b := fun e => h (by
        have : c ∈ l.reverse := by rw [hl]; exact List.mem_cons_self
        rw [← e]; exact List.mem_reverse.1 this)
      simp [List.dropWhile_cons, hc]
  rw [this, List.reverse_reverse]

theorem parseBodyLine_label (hS : SOk S) (hX : srcSymsOk S = true) (generic : List String) (l : String)
    (hl : labelOk l) : parseBodyLine S generic (l.toList ++ [S.branchEnd]) = .ok (.label l) := by
  have hne : l.toList ≠ [] := by
    intro e; simp [labelOk, e, isVarName] at hl
  have hnb := varName_no_branch hX hS hl
  simp only [parseBodyLine, List.getLast?_concat, if_true, dropWhile_rev_label hnb]
  cases hll : l.toList with
  | nil => exact absurd hll hne
  | cons c cs =>
    have : isVarName (c :: cs) = true := by rw [← hll]; exact hl
    simp only [isVariableName, this]
    rw [← hll, String.ofList_toList]

/-! ### instruction lines without argument brackets -/

/-- instruction head the code accepts -/
structure HeadOk (generic : List String) (mn : String) : Prop where
  ne : mn.toList ≠ []
  chars : ∀ c ∈ mn.toList, mnCharOk c = true
  known : generic.contains mn = true

theorem argOpen_notin_mn (hS : SOk S) {mn : String} (hm : ∀ c ∈ mn.toList, mnCharOk c = true) :
    S.argOpen ∉ mn.toList := by
  intro h
  have := mnChar_lineChar (S := S) (hm _ h)
  rw [hS.argOpen] at this; cases this

theorem parseBodyLine_noargs (hS : SOk S) (hX : srcSymsOk S = true) (generic : List String) (mn : String)
    (hh : HeadOk generic mn) (ops : List Asm.POperand) (ho : ∀ o ∈ ops, pOpOk S o) :
    parseBodyLine S generic (mn.toList ++ showSrcOps S ops) = .ok (.instr mn [] ops) := by
  obtain ⟨h1, h2⟩ := parseLine_source hS hX generic mn hh.ne hh.chars hh.known ops ho ')'
  -- the line is not a label line: `parseLine` would have answered `unsupported`
  have hbr : (mn.toList ++ showSrcOps S ops).getLast? ≠ some S.branchEnd := by
    intro hc
    unfold parseLine at h1
    rw [if_pos (by simp [hc])] at h1
    cases h1
  simp only [parseBodyLine, hbr, if_false, h2,
    AsmText.splitOfBracket_none _ _ _ (argOpen_notin_mn hS hh.chars), String.ofList_toList, hh.known, if_true,
    parseArgs, List.isEmpty_nil, parseOperandsF, parseOperands_src hS ops ho, map_ofTok_tokOfP ops ho]

end NQ.AsmFront
