/-
C05 → C03: the bridge between sdkflow's label-level semantics `Sdk.step` (ProtoExec, quantum
back end abstracted to a trace, no unit module) and the source semantics of the assembler proofs
instantiated with the executor (`Asm.step (qMachine a)`), on the translated proto program.

`Rel a s t`: the ProtoExec state `s` and the machine state `t` carry the same registers, arrays,
returned registers, outcome oracle and (names of the) quantum hook calls; the unit module and
the used-qubit set of `t` are unconstrained — ProtoExec has none.
-/
import NetqasmVerif.Lemmas.AsmExecQ
import NetqasmVerif.Lemmas.SdkSem
namespace NQ.Bridge
open NQ NQ.Asm

/-! ### translation of the builder's proto commands into the assembler's -/

def cvReg (r : Sdk.Reg) : Reg := ⟨r.bank, (r.idx : Int)⟩

def trOp : Sdk.POp → POperand
  | .reg r => .reg (cvReg r)
  | .lit v => .lit v
  | .lab l => .lab l.name
  | .addr a => .addr (a : Int)
  | .entryL a i => .entry (a : Int) (.lit (i : Int))
  | .entryR a r => .entry (a : Int) (.reg (cvReg r))

def trCmd : Sdk.PCmd → PCmd
  | .label l => .label l.name
  | .instr mn ops => .instr mn.name [] (ops.map trOp)

/-- the proto-subroutine as `assemble_subroutine` receives it -/
def tr (P : List Sdk.PCmd) : List PCmd := P.map trCmd

theorem cvReg_inj {r r' : Sdk.Reg} (h : cvReg r = cvReg r') : r = r' := by
  obtain ⟨b, i⟩ := r; obtain ⟨b', i'⟩ := r'
  simp only [cvReg, Reg.mk.injEq] at h
  obtain ⟨h1, h2⟩ := h
  have : i = i' := by omega
  subst h1; subst this; rfl

theorem tr_get (P : List Sdk.PCmd) (n : Nat) : (tr P)[n]? = (P[n]?).map trCmd := by
  simp [tr]

/-! ### hypotheses on the program (decidable on any given program) -/

/-- label names separate the labels of the program (true for the builder's `LabelManager` names:
prefix of the kind + counter; not proved here — it is a statement about `toString`) -/
def NameInj (P : List Sdk.PCmd) : Prop :=
  ∀ l' l mn ops, Sdk.PCmd.label l' ∈ P → Sdk.PCmd.instr mn ops ∈ P → Sdk.POp.lab l ∈ ops →
    l'.name = l.name → l' = l

/-- registers are in the 4 × 16 register file (the builder only hands out such registers) -/
def RegsInRange (P : List Sdk.PCmd) : Prop :=
  ∀ mn ops r, Sdk.PCmd.instr mn ops ∈ P → (Sdk.POp.reg r ∈ ops ∨ ∃ a, Sdk.POp.entryR a r ∈ ops) →
    r.bank < 4 ∧ r.idx < 16

theorem findLabel_tr {Q : List Sdk.PCmd} {l : Sdk.Lbl}
    (h : ∀ l', Sdk.PCmd.label l' ∈ Q → l'.name = l.name → l' = l) :
    labelIdx (tr Q) l.name = Sdk.findLabel Q l := by
  induction Q with
  | nil => rfl
  | cons c cs ih =>
    have ih' := ih (fun l' hl' => h l' (List.mem_cons_of_mem _ hl'))
    cases c with
    | label l' =>
      simp only [tr, List.map_cons, trCmd, labelIdx, Sdk.findLabel] at ih' ⊢
      by_cases e : l' = l
      · simp [e]
      · have : l'.name ≠ l.name := fun hn => e (h l' (by simp) hn)
        simp only [this, e, if_false]
        rw [← ih']
    | instr mn ops =>
      simp only [tr, List.map_cons, trCmd, labelIdx, Sdk.findLabel] at ih' ⊢
      rw [← ih']

/-! ### the relation -/

def evName : Sdk.Ev → Option String
  | .qalloc => none
  | .qfree => none
  | .init => some "init"
  | .gate g => some (Sdk.Mn.gate g).name
  | .meas _ => some "meas"

structure Rel (s : Sdk.St) (t : State XMem) : Prop where
  regs : ∀ r, s.regs r = t.regs (cvReg r)
  arrs : ∀ n : Nat, s.arrs n = t.mem.arrays (n : Int)
  shmRegs : ∀ x : Exec.XReg, s.shmRegs ⟨x.bank.val, x.idx.val⟩ = t.mem.shmRegs x
  outs : s.outcomes = t.mem.oracle
  trace : s.trace.filterMap evName = t.mem.trace.map (·.name)

/-! ### helper lemmas -/

theorem rel_setReg {s : Sdk.St} {t : State XMem} (h : Rel s t) (r : Sdk.Reg) (v : Int) (m : XMem)
    (hm : m = t.mem) : Rel (s.setReg r v) ⟨upd t.regs (cvReg r) (some v), m⟩ := by
  subst hm
  refine ⟨fun r' => ?_, h.arrs, h.shmRegs, h.outs, h.trace⟩
  simp only [Sdk.St.setReg, upd]
  by_cases e : r' = r
  · simp [e]
  · have : cvReg r' ≠ cvReg r := fun hc => e (cvReg_inj hc)
    simp [e, this, h.regs r']

theorem rel_setArr {s : Sdk.St} {t : State XMem} (h : Rel s t) (a : Nat) (l : List (Option Int)) (m : XMem)
    (h1 : m.arrays = Exec.upd t.mem.arrays (a : Int) (some l)) (h2 : m.shmRegs = t.mem.shmRegs)
    (h3 : m.oracle = t.mem.oracle) (h4 : m.trace = t.mem.trace) : Rel (s.setArr a l) ⟨t.regs, m⟩ := by
  refine ⟨h.regs, fun n => ?_, fun x => by simpa [Sdk.St.setArr, h2] using h.shmRegs x,
    by simpa [Sdk.St.setArr, h3] using h.outs, by simpa [Sdk.St.setArr, h4] using h.trace⟩
  simp only [Sdk.St.setArr, h1, Exec.upd]
  by_cases e : n = a
  · simp [e]
  · have : (n : Int) ≠ (a : Int) := by omega
    simp [e, this, h.arrs n]

theorem pyIdx_nat (len i : Nat) : Exec.pyIdx len (i : Int) = if i < len then some i else none := by
  simp only [Exec.pyIdx]
  have : (0 : Int) ≤ (i : Int) := by omega
  simp only [this, if_true]
  by_cases h : i < len
  · have : (i : Int) < (len : Int) := by omega
    simp [h, this]
  · have : ¬ (i : Int) < (len : Int) := by omega
    simp [h, this]

/-- a value operand of ProtoExec is a `use` operand of the machine with the same value -/
theorem use_of_opVal {s : Sdk.St} {t : State XMem} (h : Rel s t) {o : Sdk.POp} {x : Int}
    (ho : Sdk.opVal s o = some x) : evalOp t.regs .use (trOp o) = some (.use (some x)) := by
  cases o with
  | reg r => simp only [Sdk.opVal] at ho; simp [trOp, evalOp, ← h.regs r, ho]
  | lit v => simp only [Sdk.opVal, Option.some.injEq] at ho; simp [trOp, evalOp, ho]
  | lab l => simp [Sdk.opVal] at ho
  | addr a => simp [Sdk.opVal] at ho
  | entryL a i => simp [Sdk.opVal] at ho
  | entryR a r => simp [Sdk.opVal] at ho

/-- an entry operand of ProtoExec is an `entry` operand of the machine with the same index -/
theorem entry_of_entryLoc {s : Sdk.St} {t : State XMem} (h : Rel s t) {e : Sdk.POp} {a i : Nat}
    (he : Sdk.entryLoc s e = some (a, i)) :
    evalOp t.regs .entry (trOp e) = some (.entry (a : Int) (some (i : Int))) := by
  cases e with
  | entryL a' i' =>
    simp only [Sdk.entryLoc, Option.some.injEq, Prod.mk.injEq] at he
    obtain ⟨rfl, rfl⟩ := he
    simp [trOp, evalOp, evalRI]
  | entryR a' r =>
    simp only [Sdk.entryLoc] at he
    cases hr : s.regs r with
    | none => simp [hr] at he
    | some v =>
      simp only [hr] at he
      by_cases h0 : 0 ≤ v
      · simp only [h0, if_true, Option.some.injEq, Prod.mk.injEq] at he
        obtain ⟨rfl, rfl⟩ := he
        have : ((v.toNat : Nat) : Int) = v := Int.toNat_of_nonneg h0
        simp [trOp, evalOp, evalRI, ← h.regs r, hr, this]
      · simp [h0] at he
  | reg r => simp [Sdk.entryLoc] at he
  | lit v => simp [Sdk.entryLoc] at he
  | lab l => simp [Sdk.entryLoc] at he
  | addr a => simp [Sdk.entryLoc] at he

theorem evalOp_dst (ρ : Regs) (r : Reg) : evalOp ρ .dst (.reg r) = some .dst := rfl

/-- the step of a classical instruction of `qMachine`, computed -/
theorem qstep_classical (a : Nat) {Q : List PCmd} {t : State XMem} {n : Nat} {mn : String}
    {ops : List POperand} {rs : List Role} {vals : List Val}
    (hg : Q[n]? = some (.instr mn [] ops)) (h1 : mn ≠ "meas") (h2 : mn ∉ q1Names)
    (hr : stdRoles mn = some rs) (he : evalOps t.regs rs ops = some vals) :
    step (qMachine a) Q t n =
      match xExec mn vals t.mem with
      | .fault k => .fault k
      | .ok out m jump =>
        if jump then
          match jumpTarget Q rs ops with
          | some tg => .next ⟨writeBack t.regs out (dstOf rs ops), m⟩ tg
          | none => .stuck
        else .next ⟨writeBack t.regs out (dstOf rs ops), m⟩ (n + 1) := by
  rw [step_q_eq_x a hg h1 h2]
  have := step_instr (mc := xMachine) (s := t) hg (rs := rs) hr (vals := vals) (by simpa [allOps] using he)
  simp only [allOps, List.map_nil, List.nil_append] at this
  rw [this]
  simp only [xMachine]
  cases xExec mn vals t.mem with
  | fault k => rfl
  | ok out m jump =>
    cases jump
    · simp
    · simp only [if_true]; cases jumpTarget Q rs ops <;> rfl


/-! ### classical instructions: ProtoExec steps ⇒ the machine steps to a related state -/

section
variable (a : Nat) {P : List Sdk.PCmd} {s s' : Sdk.St} {n n' : Nat} {t : State XMem}

/-- conclusion of every case -/
abbrev Goal (a : Nat) (P : List Sdk.PCmd) (s' : Sdk.St) (n n' : Nat) (t : State XMem) : Prop :=
  ∃ t', Asm.step (qMachine a) (tr P) t n = .next t' n' ∧ Rel s' t'

theorem br_set (r : Sdk.Reg) (v : Int) (hP : P[n]? = some (.instr .set [.reg r, .lit v]))
    (hs : Sdk.exec P s n .set [.reg r, .lit v] = some (s', n')) (hrel : Rel s t) : Goal a P s' n n' t := by
  have hg : (tr P)[n]? = some (.instr "set" [] [.reg (cvReg r), .lit v]) := by rw [tr_get, hP]; rfl
  have h := qstep_classical a (t := t) hg (by decide) (by decide) (rs := [.dst, .imm]) (by decide)
    (vals := [.dst, .imm v]) rfl
  simp [xExec, dstOf, writeBack] at h
  simp only [Sdk.exec, Option.some.injEq, Prod.mk.injEq] at hs
  obtain ⟨rfl, rfl⟩ := hs
  exact ⟨_, h, rel_setReg hrel r v _ rfl⟩

theorem br_add (r : Sdk.Reg) (x y : Sdk.POp) (hP : P[n]? = some (.instr .add [.reg r, x, y]))
    (hs : Sdk.exec P s n .add [.reg r, x, y] = some (s', n')) (hrel : Rel s t) : Goal a P s' n n' t := by
  simp only [Sdk.exec] at hs
  cases hx : Sdk.opVal s x with
  | none => simp [hx] at hs
  | some vx =>
    cases hy : Sdk.opVal s y with
    | none => simp [hx, hy] at hs
    | some vy =>
      simp only [hx, hy, Option.some.injEq, Prod.mk.injEq] at hs
      obtain ⟨rfl, rfl⟩ := hs
      have hg : (tr P)[n]? = some (.instr "add" [] [.reg (cvReg r), trOp x, trOp y]) := by rw [tr_get, hP]; rfl
      have h := qstep_classical a (t := t) hg (by decide) (by decide) (rs := [.dst, .use, .use]) (by decide)
        (vals := [.dst, .use (some vx), .use (some vy)])
        (by simp only [evalOps, evalOp_dst, use_of_opVal hrel hx, use_of_opVal hrel hy])
      simp [xExec, xArith, dstOf, writeBack] at h
      exact ⟨_, h, rel_setReg hrel r _ _ rfl⟩

theorem br_addm (r : Sdk.Reg) (x y : Sdk.POp) (m : Int)
    (hP : P[n]? = some (.instr .addm [.reg r, x, y, .lit m]))
    (hs : Sdk.exec P s n .addm [.reg r, x, y, .lit m] = some (s', n')) (hrel : Rel s t) : Goal a P s' n n' t := by
  simp only [Sdk.exec] at hs
  cases hx : Sdk.opVal s x with
  | none => simp [hx] at hs
  | some vx =>
    cases hy : Sdk.opVal s y with
    | none => simp [hx, hy] at hs
    | some vy =>
      simp only [hx, hy] at hs
      by_cases hm : m < 1
      · simp [hm] at hs
      · simp only [hm, if_false, Option.some.injEq, Prod.mk.injEq] at hs
        obtain ⟨rfl, rfl⟩ := hs
        have hg : (tr P)[n]? = some (.instr "addm" [] [.reg (cvReg r), trOp x, trOp y, .lit m]) := by
          rw [tr_get, hP]; rfl
        have h := qstep_classical a (t := t) hg (by decide) (by decide) (rs := [.dst, .use, .use, .use])
          (by decide) (vals := [.dst, .use (some vx), .use (some vy), .use (some m)])
          (by simp only [evalOps, evalOp_dst, use_of_opVal hrel hx, use_of_opVal hrel hy]; rfl)
        simp [xExec, xArithm, hm, dstOf, writeBack] at h
        exact ⟨_, h, rel_setReg hrel r _ _ rfl⟩

theorem br_load (r : Sdk.Reg) (e : Sdk.POp) (hP : P[n]? = some (.instr .load [.reg r, e]))
    (hs : Sdk.exec P s n .load [.reg r, e] = some (s', n')) (hrel : Rel s t) : Goal a P s' n n' t := by
  simp only [Sdk.exec, Sdk.readEntry] at hs
  cases he : Sdk.entryLoc s e with
  | none => simp [he] at hs
  | some ai =>
    obtain ⟨ad, i⟩ := ai
    simp only [he] at hs
    cases ha : s.arrs ad with
    | none => simp [ha] at hs
    | some l =>
      simp only [ha] at hs
      cases hl : l[i]? with
      | none => simp [hl] at hs
      | some ov =>
        cases ov with
        | none => simp [hl] at hs
        | some v =>
          simp only [hl, Option.some.injEq, Prod.mk.injEq] at hs
          obtain ⟨rfl, rfl⟩ := hs
          have hlt : i < l.length := by
            have := List.getElem?_eq_some_iff.1 hl; exact this.1
          have hg : (tr P)[n]? = some (.instr "load" [] [.reg (cvReg r), trOp e]) := by rw [tr_get, hP]; rfl
          have h := qstep_classical a (t := t) hg (by decide) (by decide) (rs := [.dst, .entry]) (by decide)
            (vals := [.dst, .entry (ad : Int) (some (i : Int))])
            (by simp only [evalOps, evalOp_dst, entry_of_entryLoc hrel he])
          have hj : l[i]?.join = some v := by simp [hl]
          have hx : xLoad (ad : Int) (some (i : Int)) t.mem = .ok (some v) t.mem false := by
            simp only [xLoad, ← hrel.arrs ad, ha, pyIdx_nat, hlt, if_true, hj]
          simp [xExec, hx, dstOf, writeBack] at h
          exact ⟨_, h, rel_setReg hrel r _ _ rfl⟩

theorem br_store (src e : Sdk.POp) (hP : P[n]? = some (.instr .store [src, e]))
    (hs : Sdk.exec P s n .store [src, e] = some (s', n')) (hrel : Rel s t) : Goal a P s' n n' t := by
  simp only [Sdk.exec, Sdk.writeEntry] at hs
  cases hv : Sdk.opVal s src with
  | none => simp [hv] at hs
  | some v =>
    simp only [hv] at hs
    cases he : Sdk.entryLoc s e with
    | none => simp [he] at hs
    | some ai =>
      obtain ⟨ad, i⟩ := ai
      simp only [he] at hs
      cases ha : s.arrs ad with
      | none => simp [ha] at hs
      | some l =>
        simp only [ha] at hs
        by_cases hlt : i < l.length
        · simp only [hlt, if_true, Option.some.injEq, Prod.mk.injEq] at hs
          obtain ⟨rfl, rfl⟩ := hs
          have hg : (tr P)[n]? = some (.instr "store" [] [trOp src, trOp e]) := by rw [tr_get, hP]; rfl
          have h := qstep_classical a (t := t) hg (by decide) (by decide) (rs := [.use, .entry]) (by decide)
            (vals := [.use (some v), .entry (ad : Int) (some (i : Int))])
            (by simp only [evalOps, use_of_opVal hrel hv, entry_of_entryLoc hrel he])
          simp [xExec, xStore, ← hrel.arrs ad, ha, pyIdx_nat, hlt, dstOf, writeBack] at h
          refine ⟨_, h, rel_setArr hrel ad _ _ ?_ rfl rfl rfl⟩
          simp [← hrel.arrs ad, ha]
        · simp [hlt] at hs

theorem br_array (len : Int) (ad : Nat) (hP : P[n]? = some (.instr .array [.lit len, .addr ad]))
    (hs : Sdk.exec P s n .array [.lit len, .addr ad] = some (s', n')) (hrel : Rel s t) : Goal a P s' n n' t := by
  simp only [Sdk.exec] at hs
  by_cases h0 : 0 ≤ len
  · simp only [h0, if_true, Option.some.injEq, Prod.mk.injEq] at hs
    obtain ⟨rfl, rfl⟩ := hs
    have hg : (tr P)[n]? = some (.instr "array" [] [.lit len, .addr (ad : Int)]) := by rw [tr_get, hP]; rfl
    have h := qstep_classical a (t := t) hg (by decide) (by decide) (rs := [.use, .addr]) (by decide)
      (vals := [.use (some len), .addr (ad : Int)]) rfl
    simp [xExec, xArray, dstOf, writeBack] at h
    exact ⟨_, h, rel_setArr hrel ad _ _ rfl rfl rfl rfl⟩
  · simp [h0] at hs

theorem br_retReg (hR : RegsInRange P) (r : Sdk.Reg) (hP : P[n]? = some (.instr .retReg [.reg r]))
    (hs : Sdk.exec P s n .retReg [.reg r] = some (s', n')) (hrel : Rel s t) : Goal a P s' n n' t := by
  simp only [Sdk.exec] at hs
  cases hv : s.regs r with
  | none => simp [hv] at hs
  | some v =>
    simp only [hv, Option.some.injEq, Prod.mk.injEq] at hs
    obtain ⟨rfl, rfl⟩ := hs
    obtain ⟨hb, hi⟩ := hR _ _ r (List.mem_of_getElem? hP) (Or.inl (by simp))
    have hx : toX? (cvReg r) = some ⟨⟨r.bank, hb⟩, ⟨r.idx, hi⟩⟩ := by
      have h2 : (0 : Int) ≤ (r.idx : Int) ∧ (r.idx : Int) < 16 := by omega
      simp [toX?, cvReg, hb, h2]
    have hg : (tr P)[n]? = some (.instr "ret_reg" [] [.reg (cvReg r)]) := by rw [tr_get, hP]; rfl
    have h := qstep_classical a (t := t) hg (by decide) (by decide) (rs := [.named]) (by decide)
      (vals := [.named (cvReg r) (some v)]) (by simp [evalOps, evalOp, ← hrel.regs r, hv])
    simp [xExec, xRetReg, hx, dstOf, writeBack] at h
    refine ⟨_, h, ⟨hrel.regs, hrel.arrs, fun x => ?_, hrel.outs, hrel.trace⟩⟩
    simp only [Exec.upd]
    by_cases e : x = ⟨⟨r.bank, hb⟩, ⟨r.idx, hi⟩⟩
    · subst e; simp
    · have : (⟨x.bank.val, x.idx.val⟩ : Sdk.Reg) ≠ r := by
        intro hc; apply e
        obtain ⟨⟨b, hb'⟩, ⟨i, hi'⟩⟩ := x
        cases r; simp_all
      simp [e, this, hrel.shmRegs x]

theorem br_retArr (ad : Nat) (hP : P[n]? = some (.instr .retArr [.addr ad]))
    (hs : Sdk.exec P s n .retArr [.addr ad] = some (s', n')) (hrel : Rel s t) : Goal a P s' n n' t := by
  simp only [Sdk.exec] at hs
  cases ha : s.arrs ad with
  | none => simp [ha] at hs
  | some l =>
    simp only [ha, Option.some.injEq, Prod.mk.injEq] at hs
    obtain ⟨rfl, rfl⟩ := hs
    have hg : (tr P)[n]? = some (.instr "ret_arr" [] [.addr (ad : Int)]) := by rw [tr_get, hP]; rfl
    have h := qstep_classical a (t := t) hg (by decide) (by decide) (rs := [.addr]) (by decide)
      (vals := [.addr (ad : Int)]) rfl
    simp [xExec, xRetArr, ← hrel.arrs ad, ha, dstOf, writeBack] at h
    exact ⟨_, h, ⟨hrel.regs, hrel.arrs, hrel.shmRegs, hrel.outs, hrel.trace⟩⟩

end

/-! ### branches -/

theorem beq_dec (x y : Int) : (x == y) = decide (x = y) := by
  by_cases h : x = y <;> simp [h]

theorem bne_dec (x y : Int) : (some x != some y) = !decide (x = y) := by
  by_cases h : x = y <;> simp [h, bne]

theorem br1_facts {mn : Sdk.Mn} {x : Int} {b : Bool} (h : Sdk.brTaken1 mn x = some b) (m : XMem) :
    xExec mn.name [.use (some x), .tgt] m = .ok none m b ∧ stdRoles mn.name = some [.use, .tgt] ∧
      mn.name ≠ "meas" ∧ mn.name ∉ q1Names := by
  cases mn with
  | bez => simp only [Sdk.brTaken1, Option.some.injEq] at h; subst h
           exact ⟨by simp [Sdk.Mn.name, xExec, beq_dec, bne_dec], by decide, by decide, by decide⟩
  | bnz => simp only [Sdk.brTaken1, Option.some.injEq] at h; subst h
           exact ⟨by simp [Sdk.Mn.name, xExec, beq_dec, bne_dec], by decide, by decide, by decide⟩
  | _ => simp [Sdk.brTaken1] at h

theorem br2_facts {mn : Sdk.Mn} {x y : Int} {b : Bool} (h : Sdk.brTaken2 mn x y = some b) (m : XMem) :
    xExec mn.name [.use (some x), .use (some y), .tgt] m = .ok none m b ∧
      stdRoles mn.name = some [.use, .use, .tgt] ∧ mn.name ≠ "meas" ∧ mn.name ∉ q1Names := by
  cases mn with
  | beq => simp only [Sdk.brTaken2, Option.some.injEq] at h; subst h
           exact ⟨by simp [Sdk.Mn.name, xExec, beq_dec, bne_dec], by decide, by decide, by decide⟩
  | bne => simp only [Sdk.brTaken2, Option.some.injEq] at h; subst h
           exact ⟨by simp [Sdk.Mn.name, xExec, beq_dec, bne_dec], by decide, by decide, by decide⟩
  | blt => simp only [Sdk.brTaken2, Option.some.injEq] at h; subst h
           exact ⟨by simp [Sdk.Mn.name, xExec, xBrCmp], by decide, by decide, by decide⟩
  | bge => simp only [Sdk.brTaken2, Option.some.injEq] at h; subst h
           exact ⟨by simp [Sdk.Mn.name, xExec, xBrCmp], by decide, by decide, by decide⟩
  | _ => simp [Sdk.brTaken2] at h

section
variable (a : Nat) {P : List Sdk.PCmd} {s s' : Sdk.St} {n n' : Nat} {t : State XMem}

theorem label_target (hN : NameInj P) {mn : Sdk.Mn} {ops : List Sdk.POp} {l : Sdk.Lbl}
    (hP : P[n]? = some (.instr mn ops)) (hl : Sdk.POp.lab l ∈ ops) :
    labelIdx (tr P) l.name = Sdk.findLabel P l :=
  findLabel_tr (fun l' hl' hn => hN l' l mn ops hl' (List.mem_of_getElem? hP) hl hn)

theorem br_jmp (hN : NameInj P) (l : Sdk.Lbl) (hP : P[n]? = some (.instr .jmp [.lab l]))
    (hs : Sdk.exec P s n .jmp [.lab l] = some (s', n')) (hrel : Rel s t) : Goal a P s' n n' t := by
  simp only [Sdk.exec, Sdk.goto] at hs
  cases hf : Sdk.findLabel P l with
  | none => simp [hf] at hs
  | some k =>
    simp only [hf, Option.some.injEq, Prod.mk.injEq] at hs
    obtain ⟨rfl, rfl⟩ := hs
    have hg : (tr P)[n]? = some (.instr "jmp" [] [.lab l.name]) := by rw [tr_get, hP]; rfl
    have h := qstep_classical a (t := t) hg (by decide) (by decide) (rs := [.tgt]) (by decide)
      (vals := [.tgt]) rfl
    simp [xExec, jumpTarget, tgtOf, label_target (l := l) hN hP (by simp), hf, dstOf, writeBack] at h
    exact ⟨_, h, ⟨hrel.regs, hrel.arrs, hrel.shmRegs, hrel.outs, hrel.trace⟩⟩

theorem br_branch1 (hN : NameInj P) (mn : Sdk.Mn) (x : Sdk.POp) (l : Sdk.Lbl) (vx : Int) (b : Bool)
    (hP : P[n]? = some (.instr mn [x, .lab l])) (hx : Sdk.opVal s x = some vx)
    (hb : Sdk.brTaken1 mn vx = some b)
    (hs : (if b then Sdk.goto P s l else some (s, n + 1)) = some (s', n')) (hrel : Rel s t) :
    Goal a P s' n n' t := by
  obtain ⟨hex, hro, h1, h2⟩ := br1_facts hb t.mem
  have hg : (tr P)[n]? = some (.instr mn.name [] [trOp x, .lab l.name]) := by rw [tr_get, hP]; rfl
  have h := qstep_classical a (t := t) hg h1 h2 (rs := [.use, .tgt]) hro
    (vals := [.use (some vx), .tgt]) (by simp only [evalOps, use_of_opVal hrel hx]; rfl)
  rw [hex] at h
  cases b with
  | false =>
    simp only [Bool.false_eq_true, if_false, Option.some.injEq, Prod.mk.injEq] at hs
    obtain ⟨rfl, rfl⟩ := hs
    simp [dstOf, writeBack] at h
    exact ⟨_, h, ⟨hrel.regs, hrel.arrs, hrel.shmRegs, hrel.outs, hrel.trace⟩⟩
  | true =>
    simp only [if_true, Sdk.goto] at hs
    cases hf : Sdk.findLabel P l with
    | none => simp [hf] at hs
    | some k =>
      simp only [hf, Option.some.injEq, Prod.mk.injEq] at hs
      obtain ⟨rfl, rfl⟩ := hs
      simp [jumpTarget, tgtOf, label_target (l := l) hN hP (by simp), hf, dstOf, writeBack] at h
      exact ⟨_, h, ⟨hrel.regs, hrel.arrs, hrel.shmRegs, hrel.outs, hrel.trace⟩⟩

theorem br_branch2 (hN : NameInj P) (mn : Sdk.Mn) (x y : Sdk.POp) (l : Sdk.Lbl) (vx vy : Int) (b : Bool)
    (hP : P[n]? = some (.instr mn [x, y, .lab l])) (hx : Sdk.opVal s x = some vx)
    (hy : Sdk.opVal s y = some vy) (hb : Sdk.brTaken2 mn vx vy = some b)
    (hs : (if b then Sdk.goto P s l else some (s, n + 1)) = some (s', n')) (hrel : Rel s t) :
    Goal a P s' n n' t := by
  obtain ⟨hex, hro, h1, h2⟩ := br2_facts hb t.mem
  have hg : (tr P)[n]? = some (.instr mn.name [] [trOp x, trOp y, .lab l.name]) := by rw [tr_get, hP]; rfl
  have h := qstep_classical a (t := t) hg h1 h2 (rs := [.use, .use, .tgt]) hro
    (vals := [.use (some vx), .use (some vy), .tgt])
    (by simp only [evalOps, use_of_opVal hrel hx, use_of_opVal hrel hy]; rfl)
  rw [hex] at h
  cases b with
  | false =>
    simp only [Bool.false_eq_true, if_false, Option.some.injEq, Prod.mk.injEq] at hs
    obtain ⟨rfl, rfl⟩ := hs
    simp [dstOf, writeBack] at h
    exact ⟨_, h, ⟨hrel.regs, hrel.arrs, hrel.shmRegs, hrel.outs, hrel.trace⟩⟩
  | true =>
    simp only [if_true, Sdk.goto] at hs
    cases hf : Sdk.findLabel P l with
    | none => simp [hf] at hs
    | some k =>
      simp only [hf, Option.some.injEq, Prod.mk.injEq] at hs
      obtain ⟨rfl, rfl⟩ := hs
      simp [jumpTarget, tgtOf, label_target (l := l) hN hP (by simp), hf, dstOf, writeBack] at h
      exact ⟨_, h, ⟨hrel.regs, hrel.arrs, hrel.shmRegs, hrel.outs, hrel.trace⟩⟩

end

/-! ### quantum and allocation instructions

ProtoExec performs them unconditionally (it has no unit module and ignores their operands); the
executor reads the qubit register and, for `qalloc`/`qfree`, checks the unit module.  The bridge
therefore assumes that the machine does step (`hq`) — the content of C09/C13 — and shows that
then the successor states are related. -/

/-- an `exec` that only touches the unit module / used set / trace -/
def TraceOnly (a : Nat) (name : String) (ev : Sdk.Ev) : Prop :=
  ∀ vals m out m' j, (qMachine a).exec name vals m = .ok out m' j →
    out = none ∧ j = false ∧ m'.arrays = m.arrays ∧ m'.shmRegs = m.shmRegs ∧ m'.oracle = m.oracle ∧
      m'.trace.map (·.name) = m.trace.map (·.name) ++ (evName ev).toList

theorem dstOf_use (ops : List POperand) : dstOf [.use] ops = none := by
  cases ops with
  | nil => rfl
  | cons o os => cases o <;> cases os <;> rfl

section
variable (a : Nat) {P : List Sdk.PCmd} {s s' : Sdk.St} {n n' : Nat} {t : State XMem}

theorem br_quantum (mn : Sdk.Mn) (ops : List Sdk.POp) (ev : Sdk.Ev)
    (hP : P[n]? = some (.instr mn ops)) (hs : s' = s.emitEv ev ∧ n' = n + 1) (hrel : Rel s t)
    (hroles : (qMachine a).roles mn.name = some [.use]) (hex : TraceOnly a mn.name ev)
    (hq : ∃ t' k, Asm.step (qMachine a) (tr P) t n = .next t' k) : Goal a P s' n n' t := by
  obtain ⟨rfl, rfl⟩ := hs
  obtain ⟨t', k, hst⟩ := hq
  have hg : (tr P)[n]? = some (.instr mn.name [] (ops.map trOp)) := by rw [tr_get, hP]; rfl
  rcases step_next_inv hst with ⟨l, hl, _, _⟩ | ⟨mn', args, ops', hg', ⟨rs, vals, out, m, jump, hr, he, hx, rfl, hj⟩⟩
  · rw [hg] at hl; cases hl
  · rw [hg] at hg'
    simp only [Option.some.injEq, PCmd.instr.injEq] at hg'
    obtain ⟨rfl, rfl, rfl⟩ := hg'
    rw [hroles] at hr; cases hr
    obtain ⟨rfl, rfl, h1, h2, h3, h4⟩ := hex vals t.mem out m jump hx
    rcases hj with ⟨hc, _⟩ | ⟨_, rfl⟩
    · cases hc
    · refine ⟨_, hst, ⟨?_, ?_, ?_, ?_, ?_⟩⟩
      · intro r; simp [Sdk.St.emitEv, writeBack, hrel.regs r]
      · intro k; simp [Sdk.St.emitEv, h1, hrel.arrs k]
      · intro x; simp [Sdk.St.emitEv, h2, hrel.shmRegs x]
      · simp [Sdk.St.emitEv, h3, hrel.outs]
      · simp only [Sdk.St.emitEv, List.filterMap_append, h4, hrel.trace]
        cases ev <;> simp [evName]

end

theorem xQalloc_ok {q : Option Int} {m m' : XMem} {out : Option Int} {j : Bool}
    (h : xQalloc q m = .ok out m' j) :
    out = none ∧ j = false ∧ m'.arrays = m.arrays ∧ m'.shmRegs = m.shmRegs ∧ m'.oracle = m.oracle ∧
      m'.trace = m.trace := by
  unfold xQalloc at h
  cases q with
  | none => simp [xf] at h
  | some v =>
    simp only at h
    split at h
    · simp [xf] at h
    · split at h
      · simp [xf] at h
      · split at h
        · simp [xf] at h
        · simp only [Res.ok.injEq] at h
          obtain ⟨rfl, rfl, rfl⟩ := h
          simp

theorem xQfree_ok {q : Option Int} {m m' : XMem} {out : Option Int} {j : Bool}
    (h : xQfree q m = .ok out m' j) :
    out = none ∧ j = false ∧ m'.arrays = m.arrays ∧ m'.shmRegs = m.shmRegs ∧ m'.oracle = m.oracle ∧
      m'.trace = m.trace := by
  unfold xQfree at h
  cases q with
  | none => simp [xf] at h
  | some v =>
    simp only at h
    split at h
    · simp [xf] at h
    · split at h
      · simp [xf] at h
      · split at h
        · simp only [Res.ok.injEq] at h
          obtain ⟨rfl, rfl, rfl⟩ := h
          simp
        · simp [xf] at h

/-- shape of the `exec` of the one-operand instructions: a function of the single value, a fault
on any other operand list -/
theorem one_use {M : Type} (f : Option Int → Res M) (g : Res M) (vals : List Val)
    (F : List Val → Res M) (h1 : ∀ q, F [.use q] = f q) (h2 : ∀ v, (∀ q, v ≠ [.use q]) → F v = g)
    {out : Option Int} {m' : M} {j : Bool} (hg : ∀ o m j, g ≠ .ok o m j) (h : F vals = .ok out m' j) :
    ∃ q, f q = .ok out m' j := by
  by_cases hv : ∃ q, vals = [.use q]
  · obtain ⟨q, rfl⟩ := hv; exact ⟨q, by rw [← h1]; exact h⟩
  · rw [h2 vals (fun q e => hv ⟨q, e⟩)] at h; exact absurd h (hg _ _ _)

theorem exec_qalloc_one (a : Nat) (q : Option Int) (m : XMem) :
    (qMachine a).exec "qalloc" [.use q] m = xQalloc q m := by simp [qMachine, qExec, q1Names, xExec]

theorem exec_qalloc_other (a : Nat) (m : XMem) (v : List Val) (h : ∀ q, v ≠ [.use q]) :
    (qMachine a).exec "qalloc" v m = xf .fetch := by
  simp only [qMachine, qExec, q1Names, xExec]
  simp
  first
    | done
    | (split
       · rename_i q; exact absurd rfl (h q)
       · rfl)

theorem exec_qfree_one (a : Nat) (q : Option Int) (m : XMem) :
    (qMachine a).exec "qfree" [.use q] m = xQfree q m := by simp [qMachine, qExec, q1Names, xExec]

theorem exec_qfree_other (a : Nat) (m : XMem) (v : List Val) (h : ∀ q, v ≠ [.use q]) :
    (qMachine a).exec "qfree" v m = xf .fetch := by
  simp only [qMachine, qExec, q1Names, xExec]
  simp
  first
    | done
    | (split
       · rename_i q; exact absurd rfl (h q)
       · rfl)

theorem exec_gate_one (a : Nat) (name : String) (hn : name ∈ q1Names) (q : Option Int) (m : XMem) :
    (qMachine a).exec name [.use q] m = qGate a name q m := by
  have hne : name ≠ "meas" := by intro e; subst e; simp [q1Names] at hn
  show qExec a name [.use q] m = _
  unfold qExec
  rw [if_neg hne, if_pos hn]

theorem exec_gate_other (a : Nat) (name : String) (hn : name ∈ q1Names) (m : XMem) (v : List Val)
    (h : ∀ q, v ≠ [.use q]) : (qMachine a).exec name v m = xf .fetch := by
  have hne : name ≠ "meas" := by intro e; subst e; simp [q1Names] at hn
  show qExec a name v m = _
  unfold qExec
  rw [if_neg hne, if_pos hn]
  split
  · rename_i q; exact absurd rfl (h q)
  · rfl

theorem xf_ne_ok {M : Type} (f : Exec.Fault) (o : Option Int) (m : M) (j : Bool) : (xf f : Res M) ≠ .ok o m j := by
  simp [xf]

theorem traceOnly_qalloc (a : Nat) : TraceOnly a "qalloc" .qalloc := by
  intro vals m out m' j h
  obtain ⟨q, hq⟩ := one_use (fun q => xQalloc q m) (xf .fetch) vals (fun v => (qMachine a).exec "qalloc" v m)
    (fun q => exec_qalloc_one a q m) (fun v hv => exec_qalloc_other a m v hv) (xf_ne_ok _) h
  obtain ⟨h1, h2, h3, h4, h5, h6⟩ := xQalloc_ok hq
  exact ⟨h1, h2, h3, h4, h5, by simp [h6, evName]⟩

theorem traceOnly_qfree (a : Nat) : TraceOnly a "qfree" .qfree := by
  intro vals m out m' j h
  obtain ⟨q, hq⟩ := one_use (fun q => xQfree q m) (xf .fetch) vals (fun v => (qMachine a).exec "qfree" v m)
    (fun q => exec_qfree_one a q m) (fun v hv => exec_qfree_other a m v hv) (xf_ne_ok _) h
  obtain ⟨h1, h2, h3, h4, h5, h6⟩ := xQfree_ok hq
  exact ⟨h1, h2, h3, h4, h5, by simp [h6, evName]⟩

theorem traceOnly_gate (a : Nat) (name : String) (ev : Sdk.Ev) (hn : name ∈ q1Names)
    (hev : evName ev = some name) : TraceOnly a name ev := by
  intro vals m out m' j h
  obtain ⟨q, hq⟩ := one_use (fun q => qGate a name q m) (xf .fetch) vals (fun v => (qMachine a).exec name v m)
    (fun q => exec_gate_one a name hn q m) (fun v hv => exec_gate_other a name hn m v hv) (xf_ne_ok _) h
  cases q with
  | none => simp [qGate, xf] at hq
  | some v =>
    simp only [qGate, Res.ok.injEq] at hq
    obtain ⟨rfl, rfl, rfl⟩ := hq
    simp [hev]

/-! ### `meas` -/

section
variable (a : Nat) {P : List Sdk.PCmd} {s s' : Sdk.St} {n n' : Nat} {t : State XMem}

theorem br_meas (q mr : Sdk.Reg) (hP : P[n]? = some (.instr .meas [.reg q, .reg mr]))
    (hs : Sdk.exec P s n .meas [.reg q, .reg mr] = some (s', n')) (hrel : Rel s t)
    (hq : ∃ t' k, Asm.step (qMachine a) (tr P) t n = .next t' k) : Goal a P s' n n' t := by
  simp only [Sdk.exec, Option.some.injEq, Prod.mk.injEq] at hs
  obtain ⟨rfl, rfl⟩ := hs
  obtain ⟨t', k, hst⟩ := hq
  have hg : (tr P)[n]? = some (.instr "meas" [] [.reg (cvReg q), .reg (cvReg mr)]) := by rw [tr_get, hP]; rfl
  have hr : (qMachine a).roles "meas" = some [.use, .dst] := by show qRoles "meas" = _; decide
  have hstep := step_instr (mc := qMachine a) (s := t) hg hr (vals := [.use (t.regs (cvReg q)), .dst]) rfl
  have he : (qMachine a).exec "meas" [.use (t.regs (cvReg q)), .dst] t.mem = qMeas a (t.regs (cvReg q)) t.mem := by
    simp [qMachine, qExec]
  rw [he] at hstep
  cases hv : t.regs (cvReg q) with
  | none => rw [hv] at hstep; simp [qMeas, xf] at hstep; rw [hstep] at hst; cases hst
  | some v =>
    rw [hv] at hstep
    simp [qMeas, allOps, dstOf, writeBack] at hstep
    refine ⟨_, hstep, ⟨?_, ?_, ?_, ?_, ?_⟩⟩
    · intro r
      have := (rel_setReg hrel mr (s.outcomes.headD 0) t.mem rfl).regs r
      simpa [Sdk.St.emitEv, Sdk.St.setReg, hrel.outs] using this
    · intro k; simpa [Sdk.St.emitEv, Sdk.St.setReg] using hrel.arrs k
    · intro x; simpa [Sdk.St.emitEv, Sdk.St.setReg] using hrel.shmRegs x
    · simp [Sdk.St.emitEv, Sdk.St.setReg, hrel.outs]
    · simp [Sdk.St.emitEv, Sdk.St.setReg, List.filterMap_append, evName, hrel.trace]

end

/-! ### the bridge -/

/-- the quantum / allocation instructions of the builder -/
def Sdk.Mn.isQ : Sdk.Mn → Bool
  | .qalloc | .init | .meas | .qfree | .gate _ => true
  | _ => false

/-- **what the bridge assumes of the quantum back end**: at a quantum or allocation instruction the
executor does take a step (the qubit register is defined; `qalloc` finds the virtual address free
and inside the unit module; `qfree` finds it allocated).  ProtoExec cannot express this — it has no
unit module — and C09/C13 (SDK and controller agree on the virtual qubits) are what provide it. -/
def QStepOk (a : Nat) (P : List Sdk.PCmd) (t : State XMem) (n : Nat) : Prop :=
  ∀ mn ops, P[n]? = some (.instr mn ops) → Sdk.Mn.isQ mn = true →
    ∃ t' k, Asm.step (qMachine a) (tr P) t n = .next t' k

theorem gate_name_mem (g : Nat) : (Sdk.Mn.gate g).name ∈ q1Names := by
  match g with
  | 0 | 1 | 2 | 3 | 4 | 5 => simp [Sdk.Mn.name, q1Names]
  | n + 6 => simp [Sdk.Mn.name, q1Names]

/-- **`SemBridge`, relational form.**  Every ProtoExec step of a proto-subroutine is a step of the
executor machine `qMachine a` on the translated subroutine, from any related state to a related
state, to the same position. -/
theorem bridge_step (a : Nat) {P : List Sdk.PCmd} (hN : NameInj P) (hR : RegsInRange P)
    {s s' : Sdk.St} {n n' : Nat} {t : State XMem}
    (hs : Sdk.step P (s, n) = some (s', n')) (hrel : Rel s t) (hq : QStepOk a P t n) :
    ∃ t', Asm.step (qMachine a) (tr P) t n = .next t' n' ∧ Rel s' t' := by
  simp only [Sdk.step] at hs
  cases hP : P[n]? with
  | none => simp [hP] at hs
  | some c =>
    cases c with
    | label l =>
      simp only [hP, Option.some.injEq, Prod.mk.injEq] at hs
      obtain ⟨rfl, rfl⟩ := hs
      have hg : (tr P)[n]? = some (.label l.name) := by rw [tr_get, hP]; rfl
      exact ⟨t, step_label hg, hrel⟩
    | instr mn ops =>
      simp only [hP] at hs
      cases mn with
      | set =>
        have hs' := hs
        simp only [Sdk.exec] at hs'
        split at hs'
        · exact br_set a _ _ hP hs hrel
        · cases hs'
      | load =>
        have hs' := hs
        simp only [Sdk.exec] at hs'
        split at hs'
        · exact br_load a _ _ hP hs hrel
        · cases hs'
      | store =>
        have hs' := hs
        simp only [Sdk.exec] at hs'
        split at hs'
        · exact br_store a _ _ hP hs hrel
        · cases hs'
      | array =>
        have hs' := hs
        simp only [Sdk.exec] at hs'
        split at hs'
        · exact br_array a _ _ hP hs hrel
        · cases hs'
      | add =>
        have hs' := hs
        simp only [Sdk.exec] at hs'
        split at hs'
        · exact br_add a _ _ _ hP hs hrel
        · cases hs'
      | addm =>
        have hs' := hs
        simp only [Sdk.exec] at hs'
        split at hs'
        · exact br_addm a _ _ _ _ hP hs hrel
        · cases hs'
      | jmp =>
        have hs' := hs
        simp only [Sdk.exec] at hs'
        split at hs'
        · exact br_jmp a hN _ hP hs hrel
        · cases hs'
      | retReg =>
        have hs' := hs
        simp only [Sdk.exec] at hs'
        split at hs'
        · exact br_retReg a hR _ hP hs hrel
        · cases hs'
      | retArr =>
        have hs' := hs
        simp only [Sdk.exec] at hs'
        split at hs'
        · exact br_retArr a _ hP hs hrel
        · cases hs'
      | qalloc =>
        simp only [Sdk.exec, Option.some.injEq, Prod.mk.injEq] at hs
        exact br_quantum a .qalloc ops .qalloc hP ⟨hs.1.symm, hs.2.symm⟩ hrel
          (by show qRoles "qalloc" = _; decide) (traceOnly_qalloc a) (hq _ _ hP rfl)
      | qfree =>
        simp only [Sdk.exec, Option.some.injEq, Prod.mk.injEq] at hs
        exact br_quantum a .qfree ops .qfree hP ⟨hs.1.symm, hs.2.symm⟩ hrel
          (by show qRoles "qfree" = _; decide) (traceOnly_qfree a) (hq _ _ hP rfl)
      | init =>
        simp only [Sdk.exec, Option.some.injEq, Prod.mk.injEq] at hs
        exact br_quantum a .init ops .init hP ⟨hs.1.symm, hs.2.symm⟩ hrel
          (by show qRoles "init" = _; decide) (traceOnly_gate a "init" .init (by decide) rfl) (hq _ _ hP rfl)
      | gate g =>
        simp only [Sdk.exec, Option.some.injEq, Prod.mk.injEq] at hs
        exact br_quantum a (.gate g) ops (.gate g) hP ⟨hs.1.symm, hs.2.symm⟩ hrel
          (roles_q1 a (gate_name_mem g)) (traceOnly_gate a _ (.gate g) (gate_name_mem g) rfl) (hq _ _ hP rfl)
      | meas =>
        have hs' := hs
        simp only [Sdk.exec] at hs'
        split at hs'
        · exact br_meas a _ _ hP hs hrel (hq _ _ hP rfl)
        · cases hs'
      | beq =>
        simp only [Sdk.exec] at hs
        split at hs
        · rename_i x l
          cases hx : Sdk.opVal s x with
          | none => simp [hx] at hs
          | some vx =>
            cases hb : Sdk.brTaken1 .beq vx with
            | none => simp [hx, hb] at hs
            | some b =>
              refine br_branch1 a hN .beq x l vx b hP hx hb ?_ hrel
              cases b <;> simpa [hx, hb] using hs
        · rename_i x y l
          cases hx : Sdk.opVal s x with
          | none => simp [hx] at hs
          | some vx =>
            cases hy : Sdk.opVal s y with
            | none => simp [hx, hy] at hs
            | some vy =>
              cases hb : Sdk.brTaken2 .beq vx vy with
              | none => simp [hx, hy, hb] at hs
              | some b =>
                refine br_branch2 a hN .beq x y l vx vy b hP hx hy hb ?_ hrel
                cases b <;> simpa [hx, hy, hb] using hs
        · cases hs
      | bne =>
        simp only [Sdk.exec] at hs
        split at hs
        · rename_i x l
          cases hx : Sdk.opVal s x with
          | none => simp [hx] at hs
          | some vx =>
            cases hb : Sdk.brTaken1 .bne vx with
            | none => simp [hx, hb] at hs
            | some b =>
              refine br_branch1 a hN .bne x l vx b hP hx hb ?_ hrel
              cases b <;> simpa [hx, hb] using hs
        · rename_i x y l
          cases hx : Sdk.opVal s x with
          | none => simp [hx] at hs
          | some vx =>
            cases hy : Sdk.opVal s y with
            | none => simp [hx, hy] at hs
            | some vy =>
              cases hb : Sdk.brTaken2 .bne vx vy with
              | none => simp [hx, hy, hb] at hs
              | some b =>
                refine br_branch2 a hN .bne x y l vx vy b hP hx hy hb ?_ hrel
                cases b <;> simpa [hx, hy, hb] using hs
        · cases hs
      | blt =>
        simp only [Sdk.exec] at hs
        split at hs
        · rename_i x l
          cases hx : Sdk.opVal s x with
          | none => simp [hx] at hs
          | some vx =>
            cases hb : Sdk.brTaken1 .blt vx with
            | none => simp [hx, hb] at hs
            | some b =>
              refine br_branch1 a hN .blt x l vx b hP hx hb ?_ hrel
              cases b <;> simpa [hx, hb] using hs
        · rename_i x y l
          cases hx : Sdk.opVal s x with
          | none => simp [hx] at hs
          | some vx =>
            cases hy : Sdk.opVal s y with
            | none => simp [hx, hy] at hs
            | some vy =>
              cases hb : Sdk.brTaken2 .blt vx vy with
              | none => simp [hx, hy, hb] at hs
              | some b =>
                refine br_branch2 a hN .blt x y l vx vy b hP hx hy hb ?_ hrel
                cases b <;> simpa [hx, hy, hb] using hs
        · cases hs
      | bge =>
        simp only [Sdk.exec] at hs
        split at hs
        · rename_i x l
          cases hx : Sdk.opVal s x with
          | none => simp [hx] at hs
          | some vx =>
            cases hb : Sdk.brTaken1 .bge vx with
            | none => simp [hx, hb] at hs
            | some b =>
              refine br_branch1 a hN .bge x l vx b hP hx hb ?_ hrel
              cases b <;> simpa [hx, hb] using hs
        · rename_i x y l
          cases hx : Sdk.opVal s x with
          | none => simp [hx] at hs
          | some vx =>
            cases hy : Sdk.opVal s y with
            | none => simp [hx, hy] at hs
            | some vy =>
              cases hb : Sdk.brTaken2 .bge vx vy with
              | none => simp [hx, hy, hb] at hs
              | some b =>
                refine br_branch2 a hN .bge x y l vx vy b hP hx hy hb ?_ hrel
                cases b <;> simpa [hx, hy, hb] using hs
        · cases hs
      | bez =>
        simp only [Sdk.exec] at hs
        split at hs
        · rename_i x l
          cases hx : Sdk.opVal s x with
          | none => simp [hx] at hs
          | some vx =>
            cases hb : Sdk.brTaken1 .bez vx with
            | none => simp [hx, hb] at hs
            | some b =>
              refine br_branch1 a hN .bez x l vx b hP hx hb ?_ hrel
              cases b <;> simpa [hx, hb] using hs
        · rename_i x y l
          cases hx : Sdk.opVal s x with
          | none => simp [hx] at hs
          | some vx =>
            cases hy : Sdk.opVal s y with
            | none => simp [hx, hy] at hs
            | some vy =>
              cases hb : Sdk.brTaken2 .bez vx vy with
              | none => simp [hx, hy, hb] at hs
              | some b =>
                refine br_branch2 a hN .bez x y l vx vy b hP hx hy hb ?_ hrel
                cases b <;> simpa [hx, hy, hb] using hs
        · cases hs
      | bnz =>
        simp only [Sdk.exec] at hs
        split at hs
        · rename_i x l
          cases hx : Sdk.opVal s x with
          | none => simp [hx] at hs
          | some vx =>
            cases hb : Sdk.brTaken1 .bnz vx with
            | none => simp [hx, hb] at hs
            | some b =>
              refine br_branch1 a hN .bnz x l vx b hP hx hb ?_ hrel
              cases b <;> simpa [hx, hb] using hs
        · rename_i x y l
          cases hx : Sdk.opVal s x with
          | none => simp [hx] at hs
          | some vx =>
            cases hy : Sdk.opVal s y with
            | none => simp [hx, hy] at hs
            | some vy =>
              cases hb : Sdk.brTaken2 .bnz vx vy with
              | none => simp [hx, hy, hb] at hs
              | some b =>
                refine br_branch2 a hN .bnz x y l vx vy b hP hx hy hb ?_ hrel
                cases b <;> simpa [hx, hy, hb] using hs
        · cases hs

/-- the run-level hypothesis: every machine state reachable from `(t, n)` passes its quantum /
allocation instructions -/
def QSafe (a : Nat) (P : List Sdk.PCmd) (t : State XMem) (n : Nat) : Prop :=
  ∀ t1 n1, Asm.Steps (qMachine a) (tr P) (t, n) (t1, n1) → QStepOk a P t1 n1

theorem Steps.snoc {M : Type} {mc : Machine M} {Q : List PCmd} {c1 c2 : State M × Nat} {s3 : State M} {n3 : Nat}
    (h : Asm.Steps mc Q c1 c2) (hs : Asm.step mc Q c2.1 c2.2 = .next s3 n3) : Asm.Steps mc Q c1 (s3, n3) :=
  Asm.Steps.trans h (Asm.Steps.single hs)

/-- **the bridge for runs**: a ProtoExec run of a proto-subroutine is a run of `qMachine a` on the
translated subroutine between related states -/
theorem bridge_run (a : Nat) {P : List Sdk.PCmd} (hN : NameInj P) (hR : RegsInRange P)
    {c c' : Sdk.St × Nat} (h : Sdk.Steps P c c') :
    ∀ t, Rel c.1 t → QSafe a P t c.2 →
      ∃ t', Asm.Steps (qMachine a) (tr P) (t, c.2) (t', c'.2) ∧ Rel c'.1 t' := by
  induction h with
  | refl c => intro t hrel _; exact ⟨t, .refl _, hrel⟩
  | @next c1 c2 c3 hs _ ih =>
    intro t hrel hsafe
    obtain ⟨s1, n1⟩ := c1
    obtain ⟨s2, n2⟩ := c2
    obtain ⟨t2, hst, hrel2⟩ := bridge_step a hN hR hs hrel (hsafe t n1 (.refl _))
    have hsafe2 : QSafe a P t2 n2 := fun t1 k1 hr => hsafe t1 k1 (Asm.Steps.step hst hr)
    obtain ⟨t3, hst3, hrel3⟩ := ih t2 hrel2 hsafe2
    exact ⟨t3, Asm.Steps.step hst hst3, hrel3⟩

end NQ.Bridge
