/-
Lemmas about one instruction (`stepLoc`/`step`): atomic faults, footprints (frame), isolation.
-/
import NetqasmVerif.Lemmas.Exec
namespace NQ.Exec

/-! ### footprints: what an instruction may write -/

/-- the register an instruction may write -/
def Instr.wreg : Instr → Option XReg
  | .set r _ | .load r _ _ | .lea r _ => some r
  | .add d _ _ | .sub d _ _ | .addm d _ _ _ | .subm d _ _ _ => some d
  | .meas _ c => some c
  | _ => none

/-- the array (address) an instruction may write -/
def Instr.warr : Instr → Option Int
  | .store _ a _ | .undef a _ | .array _ a => some a
  | _ => none

/-- the shared-memory register an instruction may write -/
def Instr.wshmReg : Instr → Option XReg
  | .retReg r => some r
  | _ => none

/-- the shared-memory array slot an instruction may rebind -/
def Instr.wshmArr : Instr → Option Int
  | .retArr a | .array _ a => some a
  | _ => none

def Instr.isAlloc : Instr → Bool
  | .qalloc _ | .qfree _ => true
  | _ => false

def Instr.isBranch : Instr → Bool
  | .jmp _ | .bez _ _ | .bnz _ _ | .beq _ _ _ | .bne _ _ _ | .blt _ _ _ | .bge _ _ _ => true
  | _ => false

def Instr.isQuantum : Instr → Bool
  | .meas _ _ | .q1 _ _ | .rot _ _ _ _ | .q2 _ _ _ | .crot _ _ _ _ _ => true
  | _ => false

/-! ### small-step building blocks -/

theorem wr_fault {hw l pc r v l' f} (h : wr hw l pc r v = .fault l' f) : l' = l ∧ f = .overflow := by
  unfold wr at h; split at h
  · cases h
  · cases h; exact ⟨rfl, rfl⟩

theorem wr_ok {hw l pc r v l' pc'} (h : wr hw l pc r v = .ok l' pc') :
    l' = { l with ap := l.ap.setReg r v } ∧ pc' = pc + 1 ∧ fits hw v = true := by
  unfold wr at h; split at h
  · cases h; exact ⟨rfl, rfl, by assumption⟩
  · cases h

theorem arith_fault {hw l pc d x y g l' f} (h : arith hw l pc d x y g = .fault l' f) : l' = l := by
  unfold arith at h; split at h
  · exact (wr_fault h).1
  · cases h; rfl

theorem arithm_fault {hw l pc d x y m g l' f} (h : arithm hw l pc d x y m g = .fault l' f) : l' = l := by
  unfold arithm at h; split at h
  · split at h
    · cases h; rfl
    · split at h
      · exact (wr_fault h).1
      · cases h; rfl
  · cases h; rfl

theorem arith_ok {hw l pc d x y g l' pc'} (h : arith hw l pc d x y g = .ok l' pc') :
    ∃ a b, x = some a ∧ y = some b ∧ l' = { l with ap := l.ap.setReg d (g a b) } ∧ pc' = pc + 1 := by
  unfold arith at h; split at h
  · rename_i a b; exact ⟨a, b, rfl, rfl, (wr_ok h).1, (wr_ok h).2.1⟩
  · cases h

theorem arithm_ok {hw l pc d x y m g l' pc'} (h : arithm hw l pc d x y m g = .ok l' pc') :
    ∃ a b mv, x = some a ∧ y = some b ∧ m = some mv ∧ 1 ≤ mv ∧
      l' = { l with ap := l.ap.setReg d (g a b % mv) } ∧ pc' = pc + 1 := by
  unfold arithm at h; split at h
  · rename_i mv
    split at h
    · cases h
    · split at h
      · rename_i a b; exact ⟨a, b, mv, rfl, rfl, rfl, by omega, (wr_ok h).1, (wr_ok h).2.1⟩
      · cases h
  · cases h


theorem arith_ok_pc {hw l pc d x y g l' pc'} (h : arith hw l pc d x y g = .ok l' pc') : pc' = pc + 1 := by
  obtain ⟨_, _, _, _, _, h1⟩ := arith_ok h; exact h1

theorem arithm_ok_pc {hw l pc d x y m g l' pc'} (h : arithm hw l pc d x y m g = .ok l' pc') :
    pc' = pc + 1 := by
  obtain ⟨_, _, _, _, _, _, _, _, h1⟩ := arithm_ok h; exact h1

theorem br_ok {l pc c t} : br l pc c t = .ok l (if c then t else pc + 1) := rfl

theorem stepLoc_fault_atomic {hw a i l pc l' f} (h : stepLoc hw a i l pc = .fault l' f)
    (hk : f ≠ .usedKey) : l'.ap = l.ap ∧ l'.used = l.used := by
  cases i <;> simp only [stepLoc] at h
  all_goals first
    | (have := (wr_fault h).1; subst this; exact ⟨rfl, rfl⟩)
    | (have := arith_fault h; subst this; exact ⟨rfl, rfl⟩)
    | (have := arithm_fault h; subst this; exact ⟨rfl, rfl⟩)
    | skip
  all_goals
    repeat' split at h
  all_goals first
    | (cases h <;> (first | exact ⟨rfl, rfl⟩ | (exfalso; exact hk rfl)))
    | (have := (wr_fault h).1; subst this; exact ⟨rfl, rfl⟩)
    | (simp only [br_ok] at h; cases h)
    | skip

structure Frame (i : Instr) (l l' : Loc) : Prop where
  regs : ∀ r, i.wreg ≠ some r → l'.ap.regs r = l.ap.regs r
  arrays : ∀ ad, i.warr ≠ some ad → l'.ap.arrays ad = l.ap.arrays ad
  shmRegs : ∀ r, i.wshmReg ≠ some r → l'.ap.shmRegs r = l.ap.shmRegs r
  shmArrs : ∀ ad, i.wshmArr ≠ some ad → l'.ap.shmArrs ad = l.ap.shmArrs ad
  qubits : i.isAlloc = false → l'.ap.unit = l.ap.unit ∧ l'.used = l.used
  quantum : i.isQuantum = false → l'.trace = l.trace ∧ l'.oracle = l.oracle

theorem frame_setReg (i : Instr) (l : Loc) (d : XReg) (v : Int) (hd : i.wreg = some d)
    (_hq : i.isQuantum = false) :
    Frame i l { l with ap := l.ap.setReg d v } := by
  refine ⟨?_, fun _ _ => rfl, fun _ _ => rfl, fun _ _ => rfl, fun _ => ⟨rfl, rfl⟩, fun _ => ⟨rfl, rfl⟩⟩
  intro r hr
  have : r ≠ d := by intro h; subst h; exact hr hd
  simp [App.setReg, upd_other _ _ _ _ this]

theorem frame_refl (i : Instr) (l : Loc) : Frame i l l :=
  ⟨fun _ _ => rfl, fun _ _ => rfl, fun _ _ => rfl, fun _ _ => rfl, fun _ => ⟨rfl, rfl⟩, fun _ => ⟨rfl, rfl⟩⟩

theorem stepLoc_frame {hw a i l pc l' pc'} (h : stepLoc hw a i l pc = .ok l' pc') : Frame i l l' := by
  cases i <;> simp only [stepLoc] at h
  all_goals first
    | (have := (wr_ok h).1; subst this; exact frame_setReg _ _ _ _ rfl rfl)
    | (obtain ⟨_, _, _, _, h1, _⟩ := arith_ok h; subst h1; exact frame_setReg _ _ _ _ rfl rfl)
    | (obtain ⟨_, _, _, _, _, _, _, h1, _⟩ := arithm_ok h; subst h1; exact frame_setReg _ _ _ _ rfl rfl)
    | skip
  all_goals
    repeat' split at h
  all_goals first
    | (cases h; done)
    | (have := (wr_ok h).1; subst this; exact frame_setReg _ _ _ _ rfl rfl)
    | (simp only [br_ok] at h; cases h; exact frame_refl _ _)
    | (cases h; exact frame_refl _ _)
    | skip
  all_goals
    cases h
    refine ⟨?_, ?_, ?_, ?_, ?_, ?_⟩ <;> intros <;>
      simp_all [Instr.warr, Instr.wreg, Instr.wshmReg, Instr.wshmArr, Instr.isAlloc, Instr.isQuantum, ev,
        App.setReg, upd]
  all_goals first
    | (intro hh; exact absurd hh.symm (by assumption))
    | (intro hh; exact absurd hh (by assumption))
    | skip

end NQ.Exec
