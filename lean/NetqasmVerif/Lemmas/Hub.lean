/-
Invariants of the socket-hub transition system (C18), each proved by induction over ALL reachable
states, i.e. for every number of threads, every program and every interleaving.
-/
import NetqasmVerif.Model.Hub
namespace NQ.Hub

/-- the key a program counter refers to -/
def pcKey : Pc → Option Key
  | .fin => none
  | .cCbRecv k | .cCbLost k | .cOpen k _ | .cRemote k | .cWaitOpen k | .cWaitRemote k => some k
  | .sCheck k _ | .sCb k _ | .sCall k _ | .sLock k _ | .sAppend k _ => some k
  | .rLock k _ | .rRead k _ | .rLen k _ | .rLock2 k | .rPop k => some k
  | .dLock k | .dLostGet k | .dLostCall k | .dOpenChk k | .dOpenRm k | .dRemChk k | .dRemRm k
  | .dPopRecv k | .dPopLost k => some k

theorem upd_same {α : Type} (f : Key → α) (k : Key) (v : α) : upd f k v k = v := by simp [upd]
theorem upd_other {α : Type} (f : Key → α) (k x : Key) (v : α) (h : x ≠ k) : upd f k v x = f x := by
  simp [upd, h]

/-- case analysis of one step `h : step s tid = some s'`: one goal per program counter and branch,
in which `s'` is an explicit record update of `s` and `hpc` names the program counter -/
macro "step_cases " h:ident s:ident tid:ident hpc:ident : tactic => `(tactic|
  (unfold step at $h:ident
   cases $hpc:ident : (State.threads $s $tid).pc <;> simp only [$hpc:ident] at $h:ident <;>
   (try split at $h:ident) <;> (try split at $h:ident) <;>
   simp only [Option.some.injEq, reduceCtorEq] at $h:ident <;> subst $h:ident))

/-- `sent = delivered ++ queue` for a channel nobody registers a callback for -/
def NoCbProg (tid : Nat) (k : Key) (ops : List Op) : Prop :=
  ∀ rn id, Op.connect rn id true ∈ ops → (tid, rn, id) ≠ k

end NQ.Hub

namespace NQ.Hub

@[simp] theorem threads_setThread (s : State) (tid : Nat) (th : Thread) (t : Nat) :
    (setThread s tid th).threads t = if t = tid then th else s.threads t := rfl
@[simp] theorem open__setThread (s : State) (tid : Nat) (th : Thread) : (setThread s tid th).open_ = s.open_ := rfl
@[simp] theorem remote_setThread (s : State) (tid : Nat) (th : Thread) : (setThread s tid th).remote = s.remote := rfl
@[simp] theorem msgs_setThread (s : State) (tid : Nat) (th : Thread) : (setThread s tid th).msgs = s.msgs := rfl
@[simp] theorem recvCbs_setThread (s : State) (tid : Nat) (th : Thread) : (setThread s tid th).recvCbs = s.recvCbs := rfl
@[simp] theorem lostCbs_setThread (s : State) (tid : Nat) (th : Thread) : (setThread s tid th).lostCbs = s.lostCbs := rfl
@[simp] theorem lock_setThread (s : State) (tid : Nat) (th : Thread) : (setThread s tid th).lock = s.lock := rfl
@[simp] theorem cbStore_setThread (s : State) (tid : Nat) (th : Thread) : (setThread s tid th).cbStore = s.cbStore := rfl
@[simp] theorem lostLog_setThread (s : State) (tid : Nat) (th : Thread) : (setThread s tid th).lostLog = s.lostLog := rfl
@[simp] theorem sent_setThread (s : State) (tid : Nat) (th : Thread) : (setThread s tid th).sent = s.sent := rfl
@[simp] theorem delivered_setThread (s : State) (tid : Nat) (th : Thread) : (setThread s tid th).delivered = s.delivered := rfl
@[simp] theorem everOpen_setThread (s : State) (tid : Nat) (th : Thread) : (setThread s tid th).everOpen = s.everOpen := rfl
@[simp] theorem remRemoved_setThread (s : State) (tid : Nat) (th : Thread) : (setThread s tid th).remRemoved = s.remRemoved := rfl
@[simp] theorem cbMode_setThread (s : State) (tid : Nat) (th : Thread) : (setThread s tid th).cbMode = s.cbMode := rfl
@[simp] theorem unreg_setThread (s : State) (tid : Nat) (th : Thread) : (setThread s tid th).unreg = s.unreg := rfl
@[simp] theorem goto_pc (th : Thread) (pc : Pc) : (goto th pc).pc = pc := rfl
@[simp] theorem goto_rest (th : Thread) (pc : Pc) : (goto th pc).rest = th.rest := rfl
@[simp] theorem goto_res (th : Thread) (pc : Pc) : (goto th pc).res = th.res := rfl
@[simp] theorem advance_res (tid : Nat) (th : Thread) (r : Res) : (advance tid th r).res = th.res ++ [r] := by
  unfold advance; split <;> rfl

theorem advance_spec (tid : Nat) (th : Thread) (r : Res) :
    ((advance tid th r).pc = .fin ∧ (advance tid th r).rest = [] ∧ th.rest = []) ∨
    (∃ op ops, th.rest = op :: ops ∧ (advance tid th r).pc = entry tid op ∧ (advance tid th r).rest = ops) := by
  unfold advance
  split
  · left; simp_all
  · right; rename_i op ops h; exact ⟨op, ops, h, rfl, rfl⟩

theorem entry_cases (tid : Nat) (op : Op) :
    (∃ rn id, op = .connect rn id true ∧ entry tid op = .cCbRecv (tid, rn, id)) ∨
    (∃ rn id, op = .connect rn id false ∧ entry tid op = .cOpen (tid, rn, id) false) ∨
    (∃ rn id m, op = .send rn id m ∧ entry tid op = .sCheck (tid, rn, id) m) ∨
    (∃ rn id b, op = .recv rn id b ∧ entry tid op = .rLock (tid, rn, id) b) ∨
    (∃ rn id, op = .disconnect rn id ∧ entry tid op = .dLock (tid, rn, id)) := by
  cases op with
  | connect rn id cb => cases cb <;> simp [entry]
  | send rn id m => simp [entry]
  | recv rn id b => simp [entry]
  | disconnect rn id => simp [entry]

theorem NoCbProg_tail {t : Nat} {k : Key} {op : Op} {ops : List Op} (h : NoCbProg t k (op :: ops)) :
    NoCbProg t k ops := fun rn id hm => h rn id (List.mem_cons_of_mem _ hm)

theorem entry_plain {t : Nat} {k : Key} {op : Op} {ops : List Op} (h : NoCbProg t k (op :: ops)) :
    entry t op ≠ .cCbRecv k ∧ ∀ k0 m, entry t op = .sCall k0 m → rkey k0 ≠ k := by
  rcases entry_cases t op with ⟨rn, id, rfl, e⟩ | ⟨rn, id, rfl, e⟩ | ⟨rn, id, m, rfl, e⟩ |
    ⟨rn, id, b, rfl, e⟩ | ⟨rn, id, rfl, e⟩ <;> rw [e] <;> simp
  exact fun hk => h rn id (List.mem_cons_self) hk

end NQ.Hub

namespace NQ.Hub

/-- program counters at which the thread holds `_lock` -/
def holding : Pc → Bool
  | .sAppend _ _ | .rRead _ _ | .rPop _ => true
  | .dLostGet _ | .dLostCall _ | .dOpenChk _ | .dOpenRm _ | .dRemChk _ | .dRemRm _ | .dPopRecv _ | .dPopLost _ => true
  | _ => false

/-- per-thread part of the base invariant -/
def OwnPc (t : Nat) (pc : Pc) : Prop := ∀ k, pcKey pc = some k → k.1 = t

structure BaseInv (s : State) : Prop where
  own : ∀ t, OwnPc t (s.threads t).pc
  lock : ∀ t, holding (s.threads t).pc = true ↔ s.lock = some t
  pop : ∀ t k, ((s.threads t).pc = .rLock2 k ∨ (s.threads t).pc = .rPop k) → s.msgs k ≠ []
  nocrash : ∀ t k, Res.crash k ∉ (s.threads t).res
  pub1 : ∀ t k, (s.threads t).pc = .cRemote k → s.open_ k = true
  pub2 : ∀ k, s.everOpen k = true → (∃ t, (s.threads t).pc = .cRemote k) ∨ s.remote k = true ∨ s.remRemoved k = true

theorem entry_own (t : Nat) (op : Op) : OwnPc t (entry t op) ∧ holding (entry t op) = false ∧
    (∀ k, entry t op ≠ .rLock2 k ∧ entry t op ≠ .rPop k ∧ entry t op ≠ .cRemote k) := by
  rcases entry_cases t op with ⟨rn, id, rfl, e⟩ | ⟨rn, id, rfl, e⟩ | ⟨rn, id, m, rfl, e⟩ |
    ⟨rn, id, b, rfl, e⟩ | ⟨rn, id, rfl, e⟩ <;> rw [e] <;> simp [OwnPc, pcKey, holding] <;> intro k hk <;> rw [← hk]

theorem advance_base (t : Nat) (th : Thread) (r : Res) :
    OwnPc t (advance t th r).pc ∧ holding (advance t th r).pc = false ∧
    (∀ k, (advance t th r).pc ≠ .rLock2 k ∧ (advance t th r).pc ≠ .rPop k ∧ (advance t th r).pc ≠ .cRemote k) := by
  rcases advance_spec t th r with ⟨h1, _, _⟩ | ⟨op, ops, _, h1, _⟩
  · rw [h1]; simp [OwnPc, pcKey, holding]
  · rw [h1]; exact entry_own t op

theorem baseInv_init (progs : List (List Op)) : BaseInv (init progs) := by
  have hst : ∀ t, OwnPc t (startThread t (progs.getD t [])).pc ∧ holding (startThread t (progs.getD t [])).pc = false ∧
      (∀ k, (startThread t (progs.getD t [])).pc ≠ .rLock2 k ∧ (startThread t (progs.getD t [])).pc ≠ .rPop k ∧
        (startThread t (progs.getD t [])).pc ≠ .cRemote k) ∧ (startThread t (progs.getD t [])).res = [] := by
    intro t
    unfold startThread
    split
    · simp [OwnPc, pcKey, holding]
    · rename_i op ops _
      have := entry_own t op
      exact ⟨this.1, this.2.1, this.2.2, rfl⟩
  refine ⟨fun t => (hst t).1, ?_, ?_, ?_, ?_, ?_⟩
  · intro t
    show (holding (startThread t (progs.getD t [])).pc = true ↔ (none : Option Nat) = some t)
    rw [(hst t).2.1]; simp
  · intro t k h; rcases h with h | h
    · exact absurd h ((hst t).2.2.1 k).1
    · exact absurd h ((hst t).2.2.1 k).2.1
  · intro t k
    show Res.crash k ∉ (startThread t (progs.getD t [])).res
    rw [(hst t).2.2.2]; simp
  · intro t k h; exact absurd h ((hst t).2.2.1 k).2.2
  · intro k h; simp [init] at h


theorem own_step (s s' : State) (tid : Nat) (own : ∀ t, OwnPc t (s.threads t).pc)
    (h : step s tid = some s') : ∀ t, OwnPc t (s'.threads t).pc := by
  have hme := own tid
  step_cases h s tid hpc
  all_goals
    intro t
    by_cases ht : t = tid
    · subst ht
      simp only [threads_setThread, if_true]
      first
        | exact (advance_base t _ _).1
        | (rw [hpc] at hme; simpa [OwnPc, pcKey] using hme)
    · simp only [threads_setThread, if_neg ht]; exact own t


theorem lock_step (s s' : State) (tid : Nat)
    (lock : ∀ t, holding (s.threads t).pc = true ↔ s.lock = some t)
    (h : step s tid = some s') : ∀ t, holding (s'.threads t).pc = true ↔ s'.lock = some t := by
  have hme := lock tid
  step_cases h s tid hpc
  all_goals
    intro t
    have hlt := lock t
    by_cases ht : t = tid
    · subst ht
      simp only [threads_setThread, if_true]
      first
        | (rw [(advance_base t _ _).2.1]; rw [hpc] at hme; simp_all [holding]; done)
        | (rw [hpc] at hme; simp_all [holding]; done)
    · simp only [threads_setThread, if_neg ht]
      rw [hpc] at hme
      first
        | exact hlt
        | (simp_all [holding]; done)
        | (simp [holding] at hme; simp_all [holding]; omega)


theorem advance_not_pop (t : Nat) (th : Thread) (r : Res) (k : Key) :
    ¬ ((advance t th r).pc = .rLock2 k ∨ (advance t th r).pc = .rPop k) := by
  have := (advance_base t th r).2.2 k
  intro h; rcases h with h | h
  · exact this.1 h
  · exact this.2.1 h

theorem pop_step (s s' : State) (tid : Nat) (own : ∀ t, OwnPc t (s.threads t).pc)
    (pop : ∀ t k, ((s.threads t).pc = .rLock2 k ∨ (s.threads t).pc = .rPop k) → s.msgs k ≠ [])
    (h : step s tid = some s') :
    ∀ t k, ((s'.threads t).pc = .rLock2 k ∨ (s'.threads t).pc = .rPop k) → s'.msgs k ≠ [] := by
  have hme := pop tid
  have hown := own tid
  step_cases h s tid hpc
  all_goals
    intro t k hk
    have hpt := pop t k
    have hot := own t
    clear own pop
    by_cases ht : t = tid
    · subst ht
      simp only [threads_setThread, if_true] at hk
      first
        | exact absurd hk (advance_not_pop _ _ _ _)
        | (simp_all [upd]; done)
    · simp only [threads_setThread, if_neg ht] at hk
      first
        | (simp_all [upd]; done)
        | (simp only [msgs_setThread, upd]
           split
           · first
             | (simp; done)
             | (rename_i heq; exfalso
                rw [hpc] at hown
                rcases hk with hk | hk <;>
                  (rw [hk] at hot; simp [OwnPc, pcKey] at hot hown; subst heq; exact ht (hot.symm.trans hown)))
           · exact hpt hk)


theorem nocrash_step (s s' : State) (tid : Nat)
    (pop : ∀ t k, ((s.threads t).pc = .rLock2 k ∨ (s.threads t).pc = .rPop k) → s.msgs k ≠ [])
    (nc : ∀ t k, Res.crash k ∉ (s.threads t).res)
    (h : step s tid = some s') : ∀ t k, Res.crash k ∉ (s'.threads t).res := by
  have hme := pop tid
  have hnc := nc tid
  step_cases h s tid hpc
  all_goals
    intro t k
    have hnt := nc t k
    clear nc pop
    by_cases ht : t = tid
    · subst ht
      simp only [threads_setThread, if_true, advance_res, goto_res]
      first
        | exact hnt
        | (simp only [List.mem_append, List.mem_singleton, reduceCtorEq, or_false]; exact hnt)
        | (exfalso; exact hme _ (Or.inr hpc) (by assumption))
    · simp only [threads_setThread, if_neg ht]; exact hnt

theorem pub1_step (s s' : State) (tid : Nat) (own : ∀ t, OwnPc t (s.threads t).pc)
    (p1 : ∀ t k, (s.threads t).pc = .cRemote k → s.open_ k = true)
    (h : step s tid = some s') : ∀ t k, (s'.threads t).pc = .cRemote k → s'.open_ k = true := by
  have hown := own tid
  step_cases h s tid hpc
  all_goals
    intro t k hk
    have hpt := p1 t k
    have hot := own t
    clear own p1
    by_cases ht : t = tid
    · subst ht
      simp only [threads_setThread, if_true] at hk
      first
        | exact absurd hk ((advance_base _ _ _).2.2 k).2.2
        | (simp_all [upd]; done)
    · simp only [threads_setThread, if_neg ht] at hk
      first
        | exact hpt hk
        | (simp only [open__setThread, upd]
           split
           · first
             | rfl
             | (rename_i heq; exfalso
                rw [hpc] at hown; rw [hk] at hot
                simp [OwnPc, pcKey] at hot hown; subst heq; exact ht (hot.symm.trans hown))
           · exact hpt hk)


theorem pub2_step (s s' : State) (tid : Nat)
    (p2 : ∀ k, s.everOpen k = true → (∃ t, (s.threads t).pc = .cRemote k) ∨ s.remote k = true ∨ s.remRemoved k = true)
    (h : step s tid = some s') :
    ∀ k, s'.everOpen k = true → (∃ t, (s'.threads t).pc = .cRemote k) ∨ s'.remote k = true ∨ s'.remRemoved k = true := by
  step_cases h s tid hpc
  case cOpen k0 cb =>
    intro k hk
    simp only [everOpen_setThread, remote_setThread, remRemoved_setThread, threads_setThread] at hk ⊢
    by_cases hkk : k = k0
    · subst hkk; left; exact ⟨tid, by simp⟩
    · simp only [upd, if_neg hkk] at hk
      rcases p2 k hk with ⟨t, ht⟩ | hr | hrr
      · left; refine ⟨t, ?_⟩
        have : t ≠ tid := by intro e; subst e; rw [hpc] at ht; cases ht
        simp only [if_neg this]; exact ht
      · right; left; exact hr
      · right; right; exact hrr
  case cRemote k0 =>
    intro k hk
    simp only [everOpen_setThread, remote_setThread, remRemoved_setThread, threads_setThread] at hk ⊢
    by_cases hkk : k = k0
    · subst hkk; right; left; simp [upd]
    · rcases p2 k hk with ⟨t, ht⟩ | hr | hrr
      · left; refine ⟨t, ?_⟩
        have : t ≠ tid := by
          intro e; subst e; rw [hpc] at ht; injection ht with e; exact hkk e.symm
        simp only [if_neg this]; exact ht
      · right; left; simp only [upd, if_neg hkk]; exact hr
      · right; right; exact hrr
  case dRemRm k0 =>
    intro k hk
    simp only [everOpen_setThread, remote_setThread, remRemoved_setThread, threads_setThread] at hk ⊢
    by_cases hkk : k = rkey k0
    · subst hkk; right; right; simp [upd]
    · rcases p2 k hk with ⟨t, ht⟩ | hr | hrr
      · left; refine ⟨t, ?_⟩
        have : t ≠ tid := by intro e; subst e; rw [hpc] at ht; cases ht
        simp only [if_neg this]; exact ht
      · right; left; simp only [upd, if_neg hkk]; exact hr
      · right; right; simp only [upd, if_neg hkk]; exact hrr
  all_goals
    intro k hk
    simp only [everOpen_setThread, remote_setThread, remRemoved_setThread, threads_setThread] at hk ⊢
    rcases p2 k hk with ⟨t, ht⟩ | hr | hrr
    · left; refine ⟨t, ?_⟩
      have : t ≠ tid := by intro e; subst e; rw [hpc] at ht; cases ht
      simp only [if_neg this]; exact ht
    · right; left; exact hr
    · right; right; exact hrr

theorem baseInv_step (s s' : State) (tid : Nat) (inv : BaseInv s) (h : step s tid = some s') : BaseInv s' :=
  ⟨own_step s s' tid inv.own h, lock_step s s' tid inv.lock h, pop_step s s' tid inv.own inv.pop h,
   nocrash_step s s' tid inv.pop inv.nocrash h, pub1_step s s' tid inv.own inv.pub1 h,
   pub2_step s s' tid inv.pub2 h⟩

theorem baseInv_reachable (progs : List (List Op)) (s : State) (h : Reachable progs s) : BaseInv s := by
  induction h with
  | init => exact baseInv_init progs
  | step s s' tid _ hs ih => exact baseInv_step s s' tid ih hs

end NQ.Hub
