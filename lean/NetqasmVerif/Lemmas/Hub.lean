/-
Invariants of the socket-hub transition system (C18), each proved by induction over ALL reachable
states, i.e. for every number of threads, every program and every interleaving.
-/
import NetqasmVerif.Model.Hub
namespace NQ.Hub

/-- the key a program counter refers to -/
def pcKey : Pc → Option Key
  | .fin => none
  | .cCbRecv k | .cCbLost k | .cOpen k _ | .cRemote k | .cWaitOpen k | .cWaitRemote k => some k
  | .sCheck k _ _ | .sCb k _ _ | .sCall k _ _ | .sLock k _ _ | .sAppend k _ _ => some k
  | .rLock k _ _ | .rRead k _ _ | .rLen k _ _ | .rLock2 k _ | .rPop k _ => some k
  | .wCheck k => some k
  | .dLock k | .dLostGet k | .dLostCall k | .dOpenChk k | .dOpenRm k | .dRemChk k | .dRemRm k
  | .dPopRecv k | .dPopLost k => some k

theorem upd_same {α : Type} (f : Key → α) (k : Key) (v : α) : upd f k v k = v := by simp [upd]
theorem upd_other {α : Type} (f : Key → α) (k x : Key) (v : α) (h : x ≠ k) : upd f k v x = f x := by
  simp [upd, h]

/-- case analysis of one step `h : step s tid = some s'`: one goal per program counter and branch,
in which `s'` is an explicit record update of `s` and `hpc` names the program counter -/
macro "step_cases " h:ident s:ident tid:ident hpc:ident : tactic => `(tactic|
  (unfold step at $h:ident
   cases $hpc:ident : (State.threads $s $tid).pc <;> simp only [$hpc:ident] at $h:ident <;>
   (try split at $h:ident) <;> (try split at $h:ident) <;> (try split at $h:ident) <;>
   simp only [Option.some.injEq, reduceCtorEq] at $h:ident <;> subst $h:ident))

/-- `sent = delivered ++ queue` for a channel nobody registers a callback for -/
def NoCbProg (tid : Nat) (k : Key) (ops : List Op) : Prop :=
  ∀ rn id, Op.connect rn id true ∈ ops → (tid, rn, id) ≠ k

end NQ.Hub

namespace NQ.Hub

@[simp] theorem threads_setThread (s : State) (tid : Nat) (th : Thread) (t : Nat) :
    (setThread s tid th).threads t = if t = tid then th else s.threads t := rfl
@[simp] theorem open__setThread (s : State) (tid : Nat) (th : Thread) : (setThread s tid th).open_ = s.open_ := rfl
@[simp] theorem remote_setThread (s : State) (tid : Nat) (th : Thread) : (setThread s tid th).remote = s.remote := rfl
@[simp] theorem msgs_setThread (s : State) (tid : Nat) (th : Thread) : (setThread s tid th).msgs = s.msgs := rfl
@[simp] theorem recvCbs_setThread (s : State) (tid : Nat) (th : Thread) : (setThread s tid th).recvCbs = s.recvCbs := rfl
@[simp] theorem lostCbs_setThread (s : State) (tid : Nat) (th : Thread) : (setThread s tid th).lostCbs = s.lostCbs := rfl
@[simp] theorem lock_setThread (s : State) (tid : Nat) (th : Thread) : (setThread s tid th).lock = s.lock := rfl
@[simp] theorem cbStore_setThread (s : State) (tid : Nat) (th : Thread) : (setThread s tid th).cbStore = s.cbStore := rfl
@[simp] theorem lostLog_setThread (s : State) (tid : Nat) (th : Thread) : (setThread s tid th).lostLog = s.lostLog := rfl
@[simp] theorem sent_setThread (s : State) (tid : Nat) (th : Thread) : (setThread s tid th).sent = s.sent := rfl
@[simp] theorem delivered_setThread (s : State) (tid : Nat) (th : Thread) : (setThread s tid th).delivered = s.delivered := rfl
@[simp] theorem everOpen_setThread (s : State) (tid : Nat) (th : Thread) : (setThread s tid th).everOpen = s.everOpen := rfl
@[simp] theorem remRemoved_setThread (s : State) (tid : Nat) (th : Thread) : (setThread s tid th).remRemoved = s.remRemoved := rfl
@[simp] theorem live_setThread (s : State) (tid : Nat) (th : Thread) : (setThread s tid th).live = s.live := rfl
@[simp] theorem cbMode_setThread (s : State) (tid : Nat) (th : Thread) : (setThread s tid th).cbMode = s.cbMode := rfl
@[simp] theorem queued_setThread (s : State) (tid : Nat) (th : Thread) : (setThread s tid th).queued = s.queued := rfl
@[simp] theorem popped_setThread (s : State) (tid : Nat) (th : Thread) : (setThread s tid th).popped = s.popped := rfl
@[simp] theorem goto_pc (th : Thread) (pc : Pc) : (goto th pc).pc = pc := rfl
@[simp] theorem goto_rest (th : Thread) (pc : Pc) : (goto th pc).rest = th.rest := rfl
@[simp] theorem goto_res (th : Thread) (pc : Pc) : (goto th pc).res = th.res := rfl
@[simp] theorem gotoR_pc (th : Thread) (pc : Pc) (r : Res) : (gotoR th pc r).pc = pc := rfl
@[simp] theorem gotoR_rest (th : Thread) (pc : Pc) (r : Res) : (gotoR th pc r).rest = th.rest := rfl
@[simp] theorem gotoR_res (th : Thread) (pc : Pc) (r : Res) : (gotoR th pc r).res = th.res ++ [r] := rfl
@[simp] theorem advance_res (tid : Nat) (th : Thread) (r : Res) : (advance tid th r).res = th.res ++ [r] := by
  unfold advance; split <;> rfl

theorem advance_spec (tid : Nat) (th : Thread) (r : Res) :
    ((advance tid th r).pc = .fin ∧ (advance tid th r).rest = [] ∧ th.rest = []) ∨
    (∃ op ops, th.rest = op :: ops ∧ (advance tid th r).pc = entry tid op ∧ (advance tid th r).rest = ops) := by
  unfold advance
  split
  · left; simp_all
  · right; rename_i op ops h; exact ⟨op, ops, h, rfl, rfl⟩

theorem entry_cases (tid : Nat) (op : Op) :
    (∃ rn id, op = .connect rn id true ∧ entry tid op = .cCbRecv (tid, rn, id)) ∨
    (∃ rn id, op = .connect rn id false ∧ entry tid op = .cOpen (tid, rn, id) false) ∨
    (∃ rn id m more, op = .send rn id m more ∧ entry tid op = .sCheck (tid, rn, id) m more) ∨
    (∃ rn id b tag, op = .recv rn id b tag ∧ entry tid op = .rLock (tid, rn, id) b tag) ∨
    (∃ rn id, op = .wait rn id ∧ entry tid op = .wCheck (tid, rn, id)) ∨
    (∃ rn id, op = .disconnect rn id ∧ entry tid op = .dLock (tid, rn, id)) := by
  cases op with
  | connect rn id cb => cases cb <;> simp [entry]
  | send rn id m more => exact Or.inr (Or.inr (Or.inl ⟨rn, id, m, more, rfl, rfl⟩))
  | recv rn id b tag => exact Or.inr (Or.inr (Or.inr (Or.inl ⟨rn, id, b, tag, rfl, rfl⟩)))
  | disconnect rn id => exact Or.inr (Or.inr (Or.inr (Or.inr (Or.inr ⟨rn, id, rfl, rfl⟩))))
  | wait rn id => exact Or.inr (Or.inr (Or.inr (Or.inr (Or.inl ⟨rn, id, rfl, rfl⟩))))

theorem NoCbProg_tail {t : Nat} {k : Key} {op : Op} {ops : List Op} (h : NoCbProg t k (op :: ops)) :
    NoCbProg t k ops := fun rn id hm => h rn id (List.mem_cons_of_mem _ hm)

theorem entry_plain {t : Nat} {k : Key} {op : Op} {ops : List Op} (h : NoCbProg t k (op :: ops)) :
    entry t op ≠ .cCbRecv k ∧ ∀ k0 m more, entry t op = .sCall k0 m more → rkey k0 ≠ k := by
  rcases entry_cases t op with ⟨rn, id, rfl, e⟩ | ⟨rn, id, rfl, e⟩ | ⟨rn, id, m, more, rfl, e⟩ |
    ⟨rn, id, b, tag, rfl, e⟩ | ⟨rn, id, rfl, e⟩ | ⟨rn, id, rfl, e⟩ <;> rw [e] <;> simp
  exact fun hk => h rn id (List.mem_cons_self) hk

end NQ.Hub

namespace NQ.Hub

/-- program counters at which the thread holds `_lock` -/
def holding : Pc → Bool
  | .sAppend _ _ _ | .rRead _ _ _ | .rPop _ _ => true
  | .dLostGet _ | .dLostCall _ | .dOpenChk _ | .dOpenRm _ | .dRemChk _ | .dRemRm _ | .dPopRecv _ | .dPopLost _ => true
  | _ => false

/-- per-thread part of the base invariant -/
def OwnPc (t : Nat) (pc : Pc) : Prop := ∀ k, pcKey pc = some k → k.1 = t

structure BaseInv (s : State) : Prop where
  own : ∀ t, OwnPc t (s.threads t).pc
  lock : ∀ t, holding (s.threads t).pc = true ↔ s.lock = some t
  pop : ∀ t k tg, ((s.threads t).pc = .rLock2 k tg ∨ (s.threads t).pc = .rPop k tg) → s.msgs k ≠ []
  nocrash : ∀ t k, Res.crash k ∉ (s.threads t).res
  pub1 : ∀ t k, (s.threads t).pc = .cRemote k → s.open_ k = true
  pub2 : ∀ k, s.everOpen k = true → (∃ t, (s.threads t).pc = .cRemote k) ∨ s.remote k = true ∨ s.remRemoved k = true

theorem entry_own (t : Nat) (op : Op) : OwnPc t (entry t op) ∧ holding (entry t op) = false ∧
    (∀ k tg, entry t op ≠ .rLock2 k tg ∧ entry t op ≠ .rPop k tg ∧ entry t op ≠ .cRemote k) := by
  rcases entry_cases t op with ⟨rn, id, rfl, e⟩ | ⟨rn, id, rfl, e⟩ | ⟨rn, id, m, more, rfl, e⟩ |
    ⟨rn, id, b, tag, rfl, e⟩ | ⟨rn, id, rfl, e⟩ | ⟨rn, id, rfl, e⟩ <;> rw [e] <;>
    simp [OwnPc, pcKey, holding] <;> intro k hk <;> rw [← hk]

theorem advance_base (t : Nat) (th : Thread) (r : Res) :
    OwnPc t (advance t th r).pc ∧ holding (advance t th r).pc = false ∧
    (∀ k tg, (advance t th r).pc ≠ .rLock2 k tg ∧ (advance t th r).pc ≠ .rPop k tg ∧ (advance t th r).pc ≠ .cRemote k) := by
  rcases advance_spec t th r with ⟨h1, _, _⟩ | ⟨op, ops, _, h1, _⟩
  · rw [h1]; simp [OwnPc, pcKey, holding]
  · rw [h1]; exact entry_own t op

theorem baseInv_init (progs : List (List Op)) : BaseInv (init progs) := by
  have hst : ∀ t, OwnPc t (startThread t (progs.getD t [])).pc ∧ holding (startThread t (progs.getD t [])).pc = false ∧
      (∀ k tg, (startThread t (progs.getD t [])).pc ≠ .rLock2 k tg ∧ (startThread t (progs.getD t [])).pc ≠ .rPop k tg ∧
        (startThread t (progs.getD t [])).pc ≠ .cRemote k) ∧ (startThread t (progs.getD t [])).res = [] := by
    intro t
    unfold startThread
    split
    · simp [OwnPc, pcKey, holding]
    · rename_i op ops _
      have := entry_own t op
      exact ⟨this.1, this.2.1, this.2.2, rfl⟩
  refine ⟨fun t => (hst t).1, ?_, ?_, ?_, ?_, ?_⟩
  · intro t
    show (holding (startThread t (progs.getD t [])).pc = true ↔ (none : Option Nat) = some t)
    rw [(hst t).2.1]; simp
  · intro t k tg h; rcases h with h | h
    · exact absurd h ((hst t).2.2.1 k tg).1
    · exact absurd h ((hst t).2.2.1 k tg).2.1
  · intro t k
    show Res.crash k ∉ (startThread t (progs.getD t [])).res
    rw [(hst t).2.2.2]; simp
  · intro t k h; exact absurd h ((hst t).2.2.1 k 0).2.2
  · intro k h; simp [init] at h


theorem own_step (s s' : State) (tid : Nat) (own : ∀ t, OwnPc t (s.threads t).pc)
    (h : step s tid = some s') : ∀ t, OwnPc t (s'.threads t).pc := by
  have hme := own tid
  step_cases h s tid hpc
  all_goals
    intro t
    by_cases ht : t = tid
    · subst ht
      simp only [threads_setThread, if_true]
      first
        | exact (advance_base t _ _).1
        | exact hme
        | (rw [hpc] at hme; simpa [OwnPc, pcKey] using hme)
        | (rw [hpc] at hme; simp only [OwnPc, pcKey, gotoR_pc, goto_pc] at hme ⊢
           intro k hk; rw [← Option.some.inj hk]; exact hme _ rfl)
    · simp only [threads_setThread, if_neg ht]; exact own t


theorem lock_step (s s' : State) (tid : Nat)
    (lock : ∀ t, holding (s.threads t).pc = true ↔ s.lock = some t)
    (h : step s tid = some s') : ∀ t, holding (s'.threads t).pc = true ↔ s'.lock = some t := by
  have hme := lock tid
  step_cases h s tid hpc
  all_goals
    intro t
    have hlt := lock t
    by_cases ht : t = tid
    · subst ht
      simp only [threads_setThread, if_true]
      first
        | (rw [(advance_base t _ _).2.1]; rw [hpc] at hme; simp_all [holding]; done)
        | (rw [hpc] at hme; simp_all [holding]; done)
    · simp only [threads_setThread, if_neg ht]
      rw [hpc] at hme
      first
        | exact hlt
        | (simp_all [holding]; done)
        | (simp [holding] at hme; simp_all [holding]; omega)


theorem advance_not_pop (t : Nat) (th : Thread) (r : Res) (k : Key) (tg : Nat) :
    ¬ ((advance t th r).pc = .rLock2 k tg ∨ (advance t th r).pc = .rPop k tg) := by
  have := (advance_base t th r).2.2 k tg
  intro h; rcases h with h | h
  · exact this.1 h
  · exact this.2.1 h

theorem pop_step (s s' : State) (tid : Nat) (own : ∀ t, OwnPc t (s.threads t).pc)
    (pop : ∀ t k tg, ((s.threads t).pc = .rLock2 k tg ∨ (s.threads t).pc = .rPop k tg) → s.msgs k ≠ [])
    (h : step s tid = some s') :
    ∀ t k tg, ((s'.threads t).pc = .rLock2 k tg ∨ (s'.threads t).pc = .rPop k tg) → s'.msgs k ≠ [] := by
  have hme := pop tid
  have hown := own tid
  step_cases h s tid hpc
  all_goals
    intro t k tg hk
    have hpt := pop t k tg
    have hot := own t
    clear own pop
    by_cases ht : t = tid
    · subst ht
      simp only [threads_setThread, if_true] at hk
      first
        | exact absurd hk (advance_not_pop _ _ _ _ _)
        | exact hpt hk
        | (simp_all [upd]; done)
    · simp only [threads_setThread, if_neg ht] at hk
      first
        | (simp_all [upd]; done)
        | (simp only [msgs_setThread, upd]
           split
           · first
             | (simp; done)
             | (rename_i heq; exfalso
                rw [hpc] at hown
                rcases hk with hk | hk <;>
                  (rw [hk] at hot; simp [OwnPc, pcKey] at hot hown; subst heq; exact ht (hot.symm.trans hown)))
           · exact hpt hk)


theorem nocrash_step (s s' : State) (tid : Nat)
    (pop : ∀ t k tg, ((s.threads t).pc = .rLock2 k tg ∨ (s.threads t).pc = .rPop k tg) → s.msgs k ≠ [])
    (nc : ∀ t k, Res.crash k ∉ (s.threads t).res)
    (h : step s tid = some s') : ∀ t k, Res.crash k ∉ (s'.threads t).res := by
  have hme := pop tid
  have hnc := nc tid
  step_cases h s tid hpc
  all_goals
    intro t k
    have hnt := nc t k
    clear nc pop
    by_cases ht : t = tid
    · subst ht
      simp only [threads_setThread, if_true, advance_res, goto_res, gotoR_res]
      first
        | exact hnt
        | (simp only [List.mem_append, List.mem_singleton, reduceCtorEq, or_false]; exact hnt)
        | (exfalso; exact hme _ _ (Or.inr hpc) (by assumption))
    · simp only [threads_setThread, if_neg ht]; exact hnt

theorem pub1_step (s s' : State) (tid : Nat) (own : ∀ t, OwnPc t (s.threads t).pc)
    (p1 : ∀ t k, (s.threads t).pc = .cRemote k → s.open_ k = true)
    (h : step s tid = some s') : ∀ t k, (s'.threads t).pc = .cRemote k → s'.open_ k = true := by
  have hown := own tid
  step_cases h s tid hpc
  all_goals
    intro t k hk
    have hpt := p1 t k
    have hot := own t
    clear own p1
    by_cases ht : t = tid
    · subst ht
      simp only [threads_setThread, if_true] at hk
      first
        | exact absurd hk ((advance_base _ _ _).2.2 k 0).2.2
        | (simp_all [upd]; done)
    · simp only [threads_setThread, if_neg ht] at hk
      first
        | exact hpt hk
        | (simp only [open__setThread, upd]
           split
           · first
             | rfl
             | (rename_i heq; exfalso
                rw [hpc] at hown; rw [hk] at hot
                simp [OwnPc, pcKey] at hot hown; subst heq; exact ht (hot.symm.trans hown))
           · exact hpt hk)


theorem pub2_step (s s' : State) (tid : Nat)
    (p2 : ∀ k, s.everOpen k = true → (∃ t, (s.threads t).pc = .cRemote k) ∨ s.remote k = true ∨ s.remRemoved k = true)
    (h : step s tid = some s') :
    ∀ k, s'.everOpen k = true → (∃ t, (s'.threads t).pc = .cRemote k) ∨ s'.remote k = true ∨ s'.remRemoved k = true := by
  step_cases h s tid hpc
  case cOpen k0 cb =>
    intro k hk
    simp only [everOpen_setThread, remote_setThread, remRemoved_setThread, threads_setThread] at hk ⊢
    by_cases hkk : k = k0
    · subst hkk; left; exact ⟨tid, by simp⟩
    · simp only [upd, if_neg hkk] at hk
      rcases p2 k hk with ⟨t, ht⟩ | hr | hrr
      · left; refine ⟨t, ?_⟩
        have : t ≠ tid := by intro e; subst e; rw [hpc] at ht; cases ht
        simp only [if_neg this]; exact ht
      · right; left; exact hr
      · right; right; exact hrr
  case cRemote k0 =>
    intro k hk
    simp only [everOpen_setThread, remote_setThread, remRemoved_setThread, threads_setThread] at hk ⊢
    by_cases hkk : k = k0
    · subst hkk; right; left; simp [upd]
    · rcases p2 k hk with ⟨t, ht⟩ | hr | hrr
      · left; refine ⟨t, ?_⟩
        have : t ≠ tid := by
          intro e; subst e; rw [hpc] at ht; injection ht with e; exact hkk e.symm
        simp only [if_neg this]; exact ht
      · right; left; simp only [upd, if_neg hkk]; exact hr
      · right; right; exact hrr
  case dRemRm k0 =>
    intro k hk
    simp only [everOpen_setThread, remote_setThread, remRemoved_setThread, threads_setThread] at hk ⊢
    by_cases hkk : k = rkey k0
    · subst hkk; right; right; simp [upd]
    · rcases p2 k hk with ⟨t, ht⟩ | hr | hrr
      · left; refine ⟨t, ?_⟩
        have : t ≠ tid := by intro e; subst e; rw [hpc] at ht; cases ht
        simp only [if_neg this]; exact ht
      · right; left; simp only [upd, if_neg hkk]; exact hr
      · right; right; simp only [upd, if_neg hkk]; exact hrr
  all_goals
    intro k hk
    simp only [everOpen_setThread, remote_setThread, remRemoved_setThread, threads_setThread] at hk ⊢
    rcases p2 k hk with ⟨t, ht⟩ | hr | hrr
    · left; refine ⟨t, ?_⟩
      have : t ≠ tid := by intro e; subst e; rw [hpc] at ht; cases ht
      simp only [if_neg this]; exact ht
    · right; left; exact hr
    · right; right; exact hrr

theorem baseInv_step (s s' : State) (tid : Nat) (inv : BaseInv s) (h : step s tid = some s') : BaseInv s' :=
  ⟨own_step s s' tid inv.own h, lock_step s s' tid inv.lock h, pop_step s s' tid inv.own inv.pop h,
   nocrash_step s s' tid inv.pop inv.nocrash h, pub1_step s s' tid inv.own inv.pub1 h,
   pub2_step s s' tid inv.pub2 h⟩

theorem baseInv_reachable (progs : List (List Op)) (s : State) (h : Reachable progs s) : BaseInv s := by
  induction h with
  | init => exact baseInv_init progs
  | step s s' tid _ hs ih => exact baseInv_step s s' tid ih hs

end NQ.Hub

namespace NQ.Hub

/-- the messages thread results report as received on key `k`, oldest first -/
def gotSel (k : Key) : Res → Option Msg
  | .got k' m _ => if k' = k then some m else none
  | _ => none
def gotOf (k : Key) (rs : List Res) : List Msg := rs.filterMap (gotSel k)

theorem gotOf_snoc (k : Key) (rs : List Res) (r : Res) :
    gotOf k (rs ++ [r]) = gotOf k rs ++ (match gotSel k r with | some m => [m] | none => []) := by
  unfold gotOf; rw [List.filterMap_append]; congr 1
  simp only [List.filterMap_cons, List.filterMap_nil]
  cases gotSel k r <;> rfl

def PlainThread (k : Key) (tid : Nat) (th : Thread) : Prop :=
  (th.pc ≠ .cCbRecv k ∧ ∀ k0 m more, th.pc = .sCall k0 m more → rkey k0 ≠ k) ∧ NoCbProg tid k th.rest

/-- Invariant for a channel `k` whose owner never registers a callback. -/
structure PlainInv (k : Key) (s : State) : Prop where
  chan : s.sent k = s.delivered k ++ s.msgs k
  nocb : s.recvCbs k = false
  thr : ∀ t, PlainThread k t (s.threads t)

theorem plain_advance (k : Key) (tid : Nat) (th : Thread) (r : Res) (hr : PlainThread k tid th) :
    PlainThread k tid (advance tid th r) := by
  rcases advance_spec tid th r with ⟨h1, h2, _⟩ | ⟨op, ops, h0, h1, h2⟩
  · unfold PlainThread; rw [h1, h2]; simp [NoCbProg]
  · unfold PlainThread; rw [h1, h2]; have := hr.2; rw [h0] at this
    exact ⟨entry_plain this, NoCbProg_tail this⟩

theorem plainInv_set (k : Key) (s S : State) (tid : Nat) (th' : Thread)
    (hthreads : S.threads = s.threads)
    (hall : ∀ t, PlainThread k t (s.threads t))
    (hth : PlainThread k tid th')
    (chan : S.sent k = S.delivered k ++ S.msgs k) (nocb : S.recvCbs k = false) :
    PlainInv k (setThread S tid th') := by
  refine ⟨chan, nocb, ?_⟩
  intro t; by_cases h : t = tid
  · subst h; simpa using hth
  · simpa [h, hthreads] using hall t

theorem plainInv_step (k : Key) (s s' : State) (tid : Nat) (hinv : PlainInv k s)
    (h : step s tid = some s') : PlainInv k s' := by
  obtain ⟨hc, hn, hall⟩ := hinv
  have hme := hall tid
  step_cases h s tid hpc
  all_goals
    refine plainInv_set k s _ tid _ rfl hall ?_ ?_ ?_
  all_goals first
    | exact plain_advance k tid _ _ hme
    | exact hme
    | exact hc
    | exact hn
    | (unfold PlainThread at hme ⊢; rw [hpc] at hme; simp_all [goto, gotoR]; done)
    | (unfold PlainThread at hme; rw [hpc] at hme; simp_all [upd]; done)
    | (unfold PlainThread at hme; rw [hpc] at hme; simp only [upd]; split <;> simp_all; done)
    | (rename_i kk mm mo hx
       refine ⟨⟨by simp [goto], ?_⟩, by simpa using hme.2⟩
       intro k0 m more hk heq
       simp only [goto_pc, Pc.sCall.injEq] at hk
       rw [← hk.1] at heq
       rw [heq, hn] at hx; cases hx)
    | (have hne := hme.1.2 _ _ _ hpc
       simp only [upd, if_neg (Ne.symm hne)]; first | exact hc | exact hn)

theorem plainInv_init (k : Key) (progs : List (List Op))
    (hk : ∀ t, NoCbProg t k (progs.getD t [])) : PlainInv k (init progs) := by
  refine ⟨rfl, rfl, ?_⟩
  intro t
  show PlainThread k t (startThread t (progs.getD t []))
  have := hk t
  unfold startThread
  split
  · simp [PlainThread, NoCbProg]
  · rename_i op ops heq
    rw [heq] at this
    exact ⟨entry_plain this, NoCbProg_tail this⟩

/-- the receiving thread's results on a plain channel are exactly the delivered sequence -/
theorem got_step (k : Key) (s s' : State) (tid : Nat) (own : ∀ t, OwnPc t (s.threads t).pc)
    (plain : PlainInv k s) (hg : gotOf k (s.threads k.1).res = s.delivered k)
    (h : step s tid = some s') : gotOf k (s'.threads k.1).res = s'.delivered k := by
  have hkey : ∀ kk, pcKey (s.threads tid).pc = some kk → kk.1 = tid := own tid
  have hme := (plain.thr tid).1
  clear own plain
  step_cases h s tid hpc
  all_goals
    simp only [threads_setThread, delivered_setThread]
    rw [hpc] at hme
    have h1 := hkey _ (by rw [hpc]; rfl)
    by_cases ht : k.1 = tid
    · simp only [if_pos ht, goto_res, gotoR_res, advance_res, gotOf_snoc, gotSel]
      subst ht
      first
        | exact hg
        | (simp only [List.append_nil]; exact hg)
        | (have hne := hme.2 _ _ _ rfl
           simp only [List.append_nil, upd, if_neg (Ne.symm hne)]; exact hg)
        | (obtain ⟨kk, hkk⟩ : ∃ kk, pcKey (s.threads k.1).pc = some kk := by rw [hpc]; exact ⟨_, rfl⟩
           rw [hpc] at hkk
           simp only [pcKey, Option.some.injEq] at hkk
           by_cases e : kk = k
           · subst hkk; subst e; simp [upd, hg]
           · subst hkk; simp [upd, e, Ne.symm e, hg])
    · simp only [if_neg ht]
      first
        | exact hg
        | (have hne := hme.2 _ _ _ rfl
           simp only [upd, if_neg (Ne.symm hne)]; exact hg)
        | (simp only [upd]; split
           · rename_i e; exact absurd (by rw [e]; exact h1) ht
           · exact hg)

end NQ.Hub

namespace NQ.Hub

/-- programs in which key `k` is only ever connected WITH callbacks and never disconnected -/
def CbOnlyProg (t : Nat) (k : Key) (ops : List Op) : Prop :=
  (∀ rn id, Op.connect rn id false ∈ ops → (t, rn, id) ≠ k) ∧
  (∀ rn id, Op.disconnect rn id ∈ ops → (t, rn, id) ≠ k)

/-- program counters that must not occur for such a key: a plain publish, any step of its disconnect,
and the queue path of a send towards it -/
def badPc (k : Key) : Pc → Prop
  | .cOpen k' false => k' = k
  | .dLock k' | .dLostGet k' | .dLostCall k' | .dOpenChk k' | .dOpenRm k' | .dRemChk k' | .dRemRm k'
  | .dPopRecv k' | .dPopLost k' => k' = k
  | .sLock k0 _ _ | .sAppend k0 _ _ => rkey k0 = k
  | _ => False

/-- program counters at which the callback of `k` must already be registered -/
def needsReg (k : Key) : Pc → Prop
  | .cCbLost k' | .cOpen k' true => k' = k
  | .sCb k0 _ _ => rkey k0 = k
  | _ => False

def CbThread (k : Key) (t : Nat) (th : Thread) : Prop := ¬ badPc k th.pc ∧ CbOnlyProg t k th.rest

structure CbInv (k : Key) (s : State) : Prop where
  thr : ∀ t, CbThread k t (s.threads t)
  reg : ∀ t, needsReg k (s.threads t).pc → s.recvCbs k = true
  opn : s.open_ k = true → s.recvCbs k = true
  emp : s.msgs k = []
  seq : s.sent k = s.cbStore k ∧ s.delivered k = s.cbStore k

theorem CbOnlyProg_tail {t : Nat} {k : Key} {op : Op} {ops : List Op} (h : CbOnlyProg t k (op :: ops)) :
    CbOnlyProg t k ops :=
  ⟨fun rn id hm => h.1 rn id (List.mem_cons_of_mem _ hm), fun rn id hm => h.2 rn id (List.mem_cons_of_mem _ hm)⟩

theorem entry_cb {t : Nat} {k : Key} {op : Op} {ops : List Op} (h : CbOnlyProg t k (op :: ops)) :
    ¬ badPc k (entry t op) ∧ ¬ needsReg k (entry t op) := by
  rcases entry_cases t op with ⟨rn, id, rfl, e⟩ | ⟨rn, id, rfl, e⟩ | ⟨rn, id, m, more, rfl, e⟩ |
    ⟨rn, id, b, tag, rfl, e⟩ | ⟨rn, id, rfl, e⟩ | ⟨rn, id, rfl, e⟩ <;> rw [e] <;> simp [badPc, needsReg]
  · exact h.1 rn id List.mem_cons_self
  · exact h.2 rn id List.mem_cons_self

theorem cb_advance (k : Key) (tid : Nat) (th : Thread) (r : Res) (hr : CbThread k tid th) :
    CbThread k tid (advance tid th r) ∧ ¬ needsReg k (advance tid th r).pc := by
  rcases advance_spec tid th r with ⟨h1, h2, _⟩ | ⟨op, ops, h0, h1, h2⟩
  · unfold CbThread; rw [h1, h2]; simp [badPc, needsReg, CbOnlyProg]
  · unfold CbThread; rw [h1, h2]; have := hr.2; rw [h0] at this
    exact ⟨⟨(entry_cb this).1, CbOnlyProg_tail this⟩, (entry_cb this).2⟩

theorem cbInv_init (k : Key) (progs : List (List Op))
    (hk : ∀ t, CbOnlyProg t k (progs.getD t [])) : CbInv k (init progs) := by
  have hst : ∀ t, CbThread k t (startThread t (progs.getD t [])) ∧
      ¬ needsReg k (startThread t (progs.getD t [])).pc := by
    intro t
    have := hk t
    unfold startThread
    split
    · simp [CbThread, badPc, needsReg, CbOnlyProg]
    · rename_i op ops heq
      rw [heq] at this
      exact ⟨⟨(entry_cb this).1, CbOnlyProg_tail this⟩, (entry_cb this).2⟩
  refine ⟨fun t => (hst t).1, fun t h => absurd h (hst t).2, ?_, rfl, rfl, rfl⟩
  intro h; simp [init] at h

theorem cb_thr_step (k : Key) (s s' : State) (tid : Nat) (hinv : CbInv k s)
    (h : step s tid = some s') : ∀ t, CbThread k t (s'.threads t) := by
  obtain ⟨thr, reg, opn, emp, seq⟩ := hinv
  have hme := thr tid
  have hreg := reg tid
  clear reg
  step_cases h s tid hpc
  all_goals
    rw [hpc] at hreg
    have hbad := hme.1
    rw [hpc] at hbad
    intro t
    by_cases ht : t = tid
    · subst ht
      simp only [threads_setThread, if_true]
      first
        | exact (cb_advance k t _ _ hme).1
        | exact hme
        | (refine ⟨?_, by simpa using hme.2⟩
           simp only [goto_pc, gotoR_pc]
           simp_all [badPc, needsReg]; done)
        | (rename_i hx
           refine ⟨?_, by simpa using hme.2⟩
           simp only [goto_pc, badPc]
           intro e
           exact hx (by rw [e]; exact hreg e))
    · simp only [threads_setThread, if_neg ht]; exact thr t

theorem cb_reg_step (k : Key) (s s' : State) (tid : Nat) (hinv : CbInv k s)
    (h : step s tid = some s') : ∀ t, needsReg k (s'.threads t).pc → s'.recvCbs k = true := by
  obtain ⟨thr, reg, opn, emp, seq⟩ := hinv
  have hme := thr tid
  have hreg := reg tid
  step_cases h s tid hpc
  all_goals
    rw [hpc] at hreg
    have hbad := hme.1
    rw [hpc] at hbad
    intro t hneed
    have hrt := reg t
    clear reg thr
    simp only [recvCbs_setThread]
    by_cases ht : t = tid
    · subst ht
      simp only [threads_setThread, if_true] at hneed
      first
        | exact absurd hneed (cb_advance k t _ _ hme).2
        | (rw [hpc] at hneed; exact hreg hneed)
        | (simp only [goto_pc, gotoR_pc] at hneed; simp_all [badPc, needsReg, upd]; done)
    · simp only [threads_setThread, if_neg ht] at hneed
      first
        | exact hrt hneed
        | (simp_all [badPc, needsReg, upd]; done)
        | (simp only [upd]; split <;> simp_all [badPc])

theorem cb_shared_step (k : Key) (s s' : State) (tid : Nat) (hinv : CbInv k s)
    (h : step s tid = some s') :
    (s'.open_ k = true → s'.recvCbs k = true) ∧ s'.msgs k = [] ∧
    (s'.sent k = s'.cbStore k ∧ s'.delivered k = s'.cbStore k) := by
  obtain ⟨thr, reg, opn, emp, seq⟩ := hinv
  have hme := thr tid
  have hreg := reg tid
  clear reg thr
  step_cases h s tid hpc
  all_goals
    rw [hpc] at hreg
    have hbad := hme.1
    rw [hpc] at hbad
    simp only [recvCbs_setThread, open__setThread, msgs_setThread, sent_setThread, delivered_setThread,
      cbStore_setThread]
    first
      | exact ⟨opn, emp, seq⟩
      | (refine ⟨?_, ?_, ?_, ?_⟩ <;> first
          | assumption
          | exact seq.1
          | exact seq.2
          | (simp only [upd]; split <;> simp_all [badPc, needsReg] <;> done)
          | (rename_i kk cb
             intro ho; simp only [upd] at ho
             split at ho
             · rename_i e; subst e
               cases cb
               · exact absurd rfl hbad
               · exact hreg rfl
             · exact opn ho))

theorem cbInv_step (k : Key) (s s' : State) (tid : Nat) (hinv : CbInv k s)
    (h : step s tid = some s') : CbInv k s' :=
  have hs := cb_shared_step k s s' tid hinv h
  ⟨cb_thr_step k s s' tid hinv h, cb_reg_step k s s' tid hinv h, hs.1, hs.2.1, hs.2.2⟩

end NQ.Hub

namespace NQ.Hub

/-! ### The queue path is FIFO and exactly-once for EVERY key and EVERY program -/

theorem queue_step (k : Key) (s s' : State) (tid : Nat) (own : ∀ t, OwnPc t (s.threads t).pc)
    (hq : s.queued k = s.popped k ++ s.msgs k) (hg : gotOf k (s.threads k.1).res = s.popped k)
    (h : step s tid = some s') :
    s'.queued k = s'.popped k ++ s'.msgs k ∧ gotOf k (s'.threads k.1).res = s'.popped k := by
  have hkey : ∀ kk, pcKey (s.threads tid).pc = some kk → kk.1 = tid := own tid
  clear own
  step_cases h s tid hpc
  all_goals
    simp only [threads_setThread, queued_setThread, popped_setThread, msgs_setThread]
    have h1 := hkey _ (by rw [hpc]; rfl)
    obtain ⟨kk, hkk⟩ : ∃ kk, pcKey (s.threads tid).pc = some kk := by rw [hpc]; exact ⟨_, rfl⟩
    rw [hpc] at hkk
    simp only [pcKey, Option.some.injEq] at hkk
    by_cases ht : k.1 = tid
    · simp only [if_pos ht, goto_res, gotoR_res, advance_res, gotOf_snoc, gotSel]
      subst ht
      first
        | exact ⟨hq, hg⟩
        | (simp only [List.append_nil]; exact ⟨hq, hg⟩)
        | (refine ⟨?_, by simpa using hg⟩          -- sAppend
           by_cases e : k = rkey kk
           · subst hkk; subst e; simp [upd, hq]
           · subst hkk; simp [upd, e, hq])
        | (by_cases e : kk = k                     -- rPop
           · subst hkk; subst e; simp_all [upd]
           · subst hkk; simp [upd, e, Ne.symm e, hg, hq])
    · simp only [if_neg ht]
      first
        | exact ⟨hq, hg⟩
        | (refine ⟨?_, hg⟩
           by_cases e : k = rkey kk
           · subst hkk; subst e; simp [upd, hq]
           · subst hkk; simp [upd, e, hq])
        | (have hne : k ≠ kk := by
             intro e; subst e; subst hkk; exact ht h1
           subst hkk
           simp only [upd, if_neg hne]; exact ⟨hq, hg⟩)

end NQ.Hub

namespace NQ.Hub

/-! ### Keys that alternate between callback and plain incarnations

Program hypothesis `LifeOk`: the owner never starts a `connect` of `k` while an earlier incarnation of `k`
is still live (connect … disconnect … connect …; a disconnect is allowed at any time). -/

def LifeOk (t : Nat) (k : Key) : Bool → List Op → Prop
  | _, [] => True
  | live, .connect rn id _ :: ops =>
      if (t, rn, id) = k then live = false ∧ LifeOk t k true ops else LifeOk t k live ops
  | live, .disconnect rn id :: ops =>
      if (t, rn, id) = k then LifeOk t k false ops else LifeOk t k live ops
  | live, .send _ _ _ _ :: ops => LifeOk t k live ops
  | live, .recv _ _ _ _ :: ops => LifeOk t k live ops
  | live, .wait _ _ :: ops => LifeOk t k live ops

/-- value of `live k` when the operation the owner is executing completes -/
def liveAfter (k : Key) (live : Bool) : Pc → Bool
  | .cCbRecv k' | .cCbLost k' | .cOpen k' _ | .cRemote k' | .cWaitOpen k' | .cWaitRemote k' =>
      if k' = k then true else live
  | .dLock k' | .dLostGet k' | .dLostCall k' | .dOpenChk k' | .dOpenRm k' | .dRemChk k' | .dRemRm k'
  | .dPopRecv k' | .dPopLost k' => if k' = k then false else live
  | _ => live

/-- what the owner's position implies about the registration state of `k` -/
def pcFacts (k : Key) (live recv opn : Bool) : Pc → Prop
  | .cCbRecv k' => k' = k → live = false
  | .cCbLost k' => k' = k → live = true ∧ recv = true
  | .cOpen k' true => k' = k → live = true ∧ recv = true
  | .cOpen k' false => k' = k → live = false
  | .cRemote k' | .cWaitOpen k' | .cWaitRemote k' => k' = k → live = true
  | .dRemChk k' | .dRemRm k' | .dPopRecv k' => k' = k → opn = false
  | .dPopLost k' => k' = k → opn = false ∧ recv = false
  | _ => True

structure ModeInv (k : Key) (s : State) : Prop where
  life : LifeOk k.1 k (liveAfter k (s.live k) (s.threads k.1).pc) (s.threads k.1).rest
  pcf : pcFacts k (s.live k) (s.recvCbs k) (s.open_ k) (s.threads k.1).pc
  dead : s.live k = false → s.recvCbs k = false ∧ s.open_ k = false
  mode : s.open_ k = true → s.recvCbs k = s.cbMode k

theorem modeInv_init (k : Key) (progs : List (List Op)) (hk : LifeOk k.1 k false (progs.getD k.1 [])) :
    ModeInv k (init progs) := by
  refine ⟨?_, ?_, fun _ => ⟨rfl, rfl⟩, fun h => by simp [init] at h⟩
  · show LifeOk k.1 k (liveAfter k false (startThread k.1 (progs.getD k.1 [])).pc)
      (startThread k.1 (progs.getD k.1 [])).rest
    unfold startThread
    split
    · simp [LifeOk]
    · rename_i op ops heq
      rw [heq] at hk
      cases op with
      | connect rn id cb =>
        simp only [LifeOk] at hk
        cases cb <;> simp only [entry, liveAfter, Bool.false_eq_true, if_false, if_true] <;>
          split <;> simp_all
      | send rn id m more => simpa [LifeOk, entry, liveAfter] using hk
      | recv rn id b tag => simpa [LifeOk, entry, liveAfter] using hk
      | wait rn id => simpa [LifeOk, entry, liveAfter] using hk
      | disconnect rn id =>
        simp only [LifeOk] at hk
        simp only [entry, liveAfter]
        split <;> simp_all
  · show pcFacts k false false false (startThread k.1 (progs.getD k.1 [])).pc
    unfold startThread
    split
    · simp [pcFacts]
    · rename_i op ops heq
      cases op with
      | connect rn id cb => cases cb <;> simp [entry, pcFacts]
      | send rn id m more => simp [entry, pcFacts]
      | recv rn id b tag => simp [entry, pcFacts]
      | wait rn id => simp [entry, pcFacts]
      | disconnect rn id => simp [entry, pcFacts]


theorem advance_mode (o : Nat) (k : Key) (L recv opn : Bool) (th : Thread) (r : Res)
    (hl : LifeOk o k L th.rest) :
    LifeOk o k (liveAfter k L (advance o th r).pc) (advance o th r).rest ∧
    pcFacts k L recv opn (advance o th r).pc := by
  rcases advance_spec o th r with ⟨h1, h2, _⟩ | ⟨op, ops, h0, h1, h2⟩
  · rw [h1, h2]; simp [LifeOk, pcFacts]
  · rw [h1, h2]; rw [h0] at hl
    cases op with
    | connect rn id cb =>
      simp only [LifeOk] at hl
      cases cb <;> simp only [entry, liveAfter, pcFacts, Bool.false_eq_true, if_false, if_true] <;>
        split at hl <;> simp_all
    | send rn id m more => simpa [LifeOk, entry, liveAfter, pcFacts] using hl
    | recv rn id b tag => simpa [LifeOk, entry, liveAfter, pcFacts] using hl
    | wait rn id => simpa [LifeOk, entry, liveAfter, pcFacts] using hl
    | disconnect rn id =>
      simp only [LifeOk] at hl
      simp only [entry, liveAfter, pcFacts]
      split at hl <;> simp_all

/-- a step of another thread than the owner of `k` leaves everything `ModeInv k` talks about unchanged -/
theorem mode_frame (k : Key) (s s' : State) (tid : Nat) (own : ∀ t, OwnPc t (s.threads t).pc)
    (ht : tid ≠ k.1) (h : step s tid = some s') :
    s'.threads k.1 = s.threads k.1 ∧ s'.live k = s.live k ∧ s'.recvCbs k = s.recvCbs k ∧
    s'.open_ k = s.open_ k ∧ s'.cbMode k = s.cbMode k := by
  have hk : ∀ kk, pcKey (s.threads tid).pc = some kk → k ≠ kk :=
    fun kk hkk e => ht (by subst e; exact (own tid k hkk).symm)
  clear own
  step_cases h s tid hpc
  all_goals
    have hk' := hk _ (by rw [hpc]; rfl)
    simp only [threads_setThread, live_setThread, recvCbs_setThread, open__setThread, cbMode_setThread,
      if_neg (Ne.symm ht)]
    first
      | exact ⟨rfl, rfl, rfl, rfl, rfl⟩
      | (simp [upd, hk']; done)


theorem mode_owner_step (k : Key) (s s' : State) (inv : ModeInv k s)
    (h : step s k.1 = some s') : ModeInv k s' := by
  obtain ⟨hlife, hpcf, hdead, hmode⟩ := inv
  generalize ho : k.1 = o at h
  step_cases h s o hpc
  all_goals
    subst ho
    rw [hpc] at hlife hpcf
    obtain ⟨kk, hkk⟩ : ∃ kk, pcKey (s.threads k.1).pc = some kk := by rw [hpc]; exact ⟨_, rfl⟩
    rw [hpc] at hkk
    simp only [pcKey, Option.some.injEq] at hkk
    by_cases hk : kk = k
  all_goals
    have hsym : (k = kk) = (kk = k) := propext eq_comm
    subst hkk
    refine ⟨?_, ?_, ?_, ?_⟩
  all_goals
    simp only [threads_setThread, if_true, live_setThread, recvCbs_setThread, open__setThread, cbMode_setThread,
      goto_pc, goto_rest]
  all_goals first
    | exact hlife
    | exact hpcf
    | exact hdead
    | exact hmode
    | (subst hk; simp_all [liveAfter, pcFacts, upd]; done)
    | (simp_all [liveAfter, pcFacts, upd]; done)
    | (refine (advance_mode k.1 k _ false false _ _ ?_).1
       first
         | (subst hk; simp_all [liveAfter, pcFacts, upd]; done)
         | (simp_all [liveAfter, pcFacts, upd]; done))
    | (refine (advance_mode _ _ _ _ _ _ _ ?_).2
       first
         | (subst hk; simp_all [liveAfter, pcFacts, upd]; done)
         | (simp_all [liveAfter, pcFacts, upd]; done))
    | (subst hk; rename_i cb; cases cb <;> simp_all [pcFacts, upd] <;> done)

end NQ.Hub

namespace NQ.Hub

theorem modeInv_step (k : Key) (s s' : State) (tid : Nat) (own : ∀ t, OwnPc t (s.threads t).pc)
    (inv : ModeInv k s) (h : step s tid = some s') : ModeInv k s' := by
  by_cases ht : tid = k.1
  · subst ht; exact mode_owner_step k s s' inv h
  · obtain ⟨e1, e2, e3, e4, e5⟩ := mode_frame k s s' tid own ht h
    obtain ⟨hl, hp, hd, hm⟩ := inv
    exact ⟨by rw [e1, e2]; exact hl, by rw [e1, e2, e3, e4]; exact hp, by rw [e2, e3, e4]; exact hd,
      by rw [e3, e4, e5]; exact hm⟩

/-- `t` is an interleaving of `a` and `b` (built from the right, as the histories grow) -/
inductive Shuffle : List Msg → List Msg → List Msg → Prop
  | nil : Shuffle [] [] []
  | left (a b t : List Msg) (m : Msg) (h : Shuffle a b t) : Shuffle (a ++ [m]) b (t ++ [m])
  | right (a b t : List Msg) (m : Msg) (h : Shuffle a b t) : Shuffle a (b ++ [m]) (t ++ [m])

/-- every sent message is either queued or handed to a callback, exactly once, order kept on each path -/
theorem shuffle_step (k : Key) (s s' : State) (tid : Nat)
    (hs : Shuffle (s.queued k) (s.cbStore k) (s.sent k)) (h : step s tid = some s') :
    Shuffle (s'.queued k) (s'.cbStore k) (s'.sent k) := by
  step_cases h s tid hpc
  all_goals
    simp only [queued_setThread, cbStore_setThread, sent_setThread]
    first
      | exact hs
      | (simp only [upd]; split
         · rename_i e; subst e; exact Shuffle.right _ _ _ _ hs
         · exact hs)
      | (simp only [upd]; split
         · rename_i e; subst e; exact Shuffle.left _ _ _ _ hs
         · exact hs)

end NQ.Hub

namespace NQ.Hub

/-! ### What a sender's results say is what the channel history says -/

/-- the wires thread results report as sent on (the sender's) key `k`, oldest first -/
def sentSel (k : Key) : Res → Option Msg
  | .sent k' m => if k' = k then some m else none
  | _ => none
def sentOf (k : Key) (rs : List Res) : List Msg := rs.filterMap (sentSel k)

theorem sentOf_snoc (k : Key) (rs : List Res) (r : Res) :
    sentOf k (rs ++ [r]) = sentOf k rs ++ (match sentSel k r with | some m => [m] | none => []) := by
  unfold sentOf; rw [List.filterMap_append]; congr 1
  simp only [List.filterMap_cons, List.filterMap_nil]
  cases sentSel k r <;> rfl

theorem rkey_inj {a b : Key} (h : rkey a = rkey b) : a = b := by
  obtain ⟨a1, a2, a3⟩ := a
  obtain ⟨b1, b2, b3⟩ := b
  simp only [rkey, Prod.mk.injEq] at h
  simp only [Prod.mk.injEq]
  exact ⟨h.2.1, h.1, h.2.2⟩

/-- for EVERY key and program: the channel towards `rkey k` holds exactly the `.sent k _` results of the
owner of `k` (each completed hand-over appends exactly one message, to exactly that channel) -/
theorem sentres_step (k : Key) (s s' : State) (tid : Nat) (own : ∀ t, OwnPc t (s.threads t).pc)
    (hs : s.sent (rkey k) = sentOf k (s.threads k.1).res) (h : step s tid = some s') :
    s'.sent (rkey k) = sentOf k (s'.threads k.1).res := by
  have hkey : ∀ kk, pcKey (s.threads tid).pc = some kk → kk.1 = tid := own tid
  clear own
  step_cases h s tid hpc
  all_goals
    simp only [threads_setThread, sent_setThread]
    have h1 := hkey _ (by rw [hpc]; rfl)
    obtain ⟨kk, hkk⟩ : ∃ kk, pcKey (s.threads tid).pc = some kk := by rw [hpc]; exact ⟨_, rfl⟩
    rw [hpc] at hkk
    simp only [pcKey, Option.some.injEq] at hkk
    by_cases ht : k.1 = tid
    · simp only [if_pos ht, goto_res, gotoR_res, advance_res, sentOf_snoc, sentSel]
      subst ht
      first
        | exact hs
        | (simp only [List.append_nil]; exact hs)
        | (by_cases e : kk = k
           · subst hkk; subst e; simp [upd, hs]
           · have e2 : rkey k ≠ rkey kk := fun h2 => e (rkey_inj h2).symm
             subst hkk
             simp [upd, e, e2, hs])
    · simp only [if_neg ht]
      first
        | exact hs
        | (have e2 : rkey k ≠ rkey kk := by
             intro h2
             have h3 : k = kk := rkey_inj h2
             subst hkk
             exact ht (by rw [h3]; exact h1)
           subst hkk
           simp only [upd, if_neg e2]; exact hs)

end NQ.Hub

namespace NQ.Hub

/-! ### Value-snapshot semantics: a queued / delivered value is never rewritten

In the model a message is a VALUE fixed by the send operation (`Op.send … m`): what `send_structured` hands to the
hub is `json.dumps(msg.__dict__)` evaluated at the time of the call (an immutable `str`).  No step rewrites an
element of a queue, of a callback store or of the histories: a queue only grows at the tail (by the value carried
by the sending operation) and shrinks at the head. -/
theorem msgs_step_shape (k : Key) (s s' : State) (tid : Nat) (h : step s tid = some s') :
    s'.msgs k = s.msgs k ∨ (∃ m more k0, (s.threads tid).pc = .sAppend k0 m more ∧ s'.msgs k = s.msgs k ++ [m]) ∨
    (∃ m, s.msgs k = m :: s'.msgs k) := by
  step_cases h s tid hpc
  all_goals
    first
      | exact Or.inl rfl
      | (simp only [msgs_setThread, upd]; split
         · rename_i e; subst e; right; left; exact ⟨_, _, _, rfl, rfl⟩
         · exact Or.inl rfl)
      | (simp only [msgs_setThread, upd]; split
         · rename_i e; subst e; right; right; exact ⟨_, by assumption⟩
         · exact Or.inl rfl)

theorem cbStore_step_shape (k : Key) (s s' : State) (tid : Nat) (h : step s tid = some s') :
    s'.cbStore k = s.cbStore k ∨
    (∃ m more k0, (s.threads tid).pc = .sCall k0 m more ∧ s'.cbStore k = s.cbStore k ++ [m]) := by
  step_cases h s tid hpc
  all_goals
    first
      | exact Or.inl rfl
      | (simp only [cbStore_setThread, upd]; split
         · rename_i e; subst e; right; exact ⟨_, _, _, rfl, rfl⟩
         · exact Or.inl rfl)

end NQ.Hub

