/-
Bridge between the EPR bookkeeping model (`Model/Epr.lean`, C12) and the controller model of C04/C13
(`Model/Exec.lean`) on the part they share: unit modules and the set of used physical qubits.
A keep-response consumed by C12's handler is exactly a successful (not deferred, not faulting)
`Exec.keepResp`, so C13's invariant is preserved by real response handling with a hypothesis on the
link layer's physical id only.
-/
import NetqasmVerif.Lemmas.EprInv
import NetqasmVerif.Lemmas.ExecInvStep
namespace NQ.Bridge
open NQ

/-- exec's unit module (physical ids as `Nat`) seen with Python ints -/
def liftU (u : List (Option Nat)) : List (Option Int) := u.map (Option.map Int.ofNat)

/-- the two models agree on the shared state: every application the EPR model knows exists in the
controller model with the same unit module, and the same physical qubits are marked used. -/
structure UnitRel (e : Epr.State) (x : Exec.State) : Prop where
  apps : ∀ a m, Epr.getApp e.apps a = some m → ∃ ap, x.apps a = some ap ∧ m.unit = liftU ap.unit
  used : ∀ q : Nat, (q : Int) ∈ e.used ↔ q ∈ x.used

theorem liftU_length (u : List (Option Nat)) : (liftU u).length = u.length := by simp [liftU]

theorem liftU_getD (u : List (Option Nat)) (k : Nat) :
    ((liftU u).getD k none).isSome = (u[k]?.join).isSome := by
  simp only [liftU, List.getD_eq_getElem?_getD, List.getElem?_map]
  cases h : u[k]? with
  | none => simp
  | some o => cases o <;> simp

theorem liftU_set (u : List (Option Nat)) (i p : Nat) :
    (liftU u).set i (some (p : Int)) = liftU (u.set i (some p)) := by
  simp [liftU, List.map_set]

theorem pyIdx_eq (n : Nat) (v : Int) : Epr.pyIdx n v = Exec.pyIdx n v := by
  unfold Epr.pyIdx Exec.pyIdx
  split
  · rfl
  · split
    · congr 2; omega
    · rfl

theorem mem_addUsed (l : List Int) (p q : Int) : q ∈ Epr.addUsed l p ↔ q = p ∨ q ∈ l := by
  unfold Epr.addUsed
  split
  · rename_i h
    have : p ∈ l := by simpa using h
    constructor
    · exact Or.inr
    · rintro (rfl | h) <;> assumption
  · simp [or_comm]

theorem mem_sadd' (l : List Nat) (p q : Nat) : q ∈ Exec.sadd p l ↔ q = p ∨ q ∈ l := by
  unfold Exec.sadd
  split
  · rename_i h
    constructor
    · exact Or.inr
    · rintro (rfl | h') <;> assumption
  · simp

/-- A keep-response consumed by the handler of the EPR model is a successful `Exec.keepResp` on the
related controller state, for the virtual address the handler read from the request's qubit array;
the states stay related. -/
theorem keep_consumption_simulated {okf : Nat} {e e' : Epr.State} {r : Epr.Resp} {x : Exec.State} {p : Nat}
    (hR : UnitRel e x) (hc : Epr.Consumed okf e r e') (hK : r.ty = .K) (hp : r.phys = (p : Int)) :
    ∃ (app : Nat) (v : Int) (i : Nat),
      (Exec.keepResp x app v p).2 = none ∧
      UnitRel e' (Exec.keepResp x app v p).1 ∧
      Epr.mapped e app i = none ∧ Epr.mapped e' app i = some (p : Int) := by
  obtain ⟨hd, rest, app, m, m1, used1, vq, prev, arr, arr', _, _, _, happ, _, hKK, _, _, _, hs⟩ := hc.ex
  obtain ⟨qa, qarr, v, i, _, _, _, hhv, hi, hm1, hu1, _, _⟩ := hKK hK
  obtain ⟨ap, hxa, hmu⟩ := hR.apps app m happ
  have hlen : m.unit.length = ap.unit.length := by rw [hmu, liftU_length]
  obtain ⟨hfree, hilt⟩ := Epr.allocPos_free hi
  -- facts extracted from `allocPos`
  have hvn : ¬ v ≥ (ap.unit.length : Int) := by
    intro h
    unfold Epr.allocPos at hi
    rw [if_pos (by rw [hlen]; exact h)] at hi
    cases hi
  have hpy : Exec.pyIdx ap.unit.length v = some i := by
    rw [← pyIdx_eq, ← hlen]
    unfold Epr.allocPos at hi
    rw [if_neg (by rw [hlen]; exact hvn)] at hi
    split at hi
    · cases hi
    · rename_i j hj
      split at hi
      · cases hi
      · injection hi with hi; subst hi; exact hj
  have hfree' : ap.unit[i]?.join = none := by
    have := liftU_getD ap.unit i
    rw [← hmu, hfree] at this
    cases h : ap.unit[i]?.join with
    | none => rfl
    | some q => rw [h] at this; cases this
  have hnotdef : ¬ (0 ≤ v ∧ v < (ap.unit.length : Int) ∧ (ap.unit[v.toNat]?.join).isSome = true) := by
    rintro ⟨h0, hlt, hs'⟩
    unfold Epr.hasVirtual at hhv
    rw [if_neg (by rw [hlen]; omega)] at hhv
    rw [hmu, liftU_getD] at hhv
    rw [hhv] at hs'; cases hs'
  have hres : Exec.keepResp x app v p =
      ({ x with used := Exec.sadd p x.used,
                apps := Exec.upd x.apps app (some { ap with unit := ap.unit.set i (some p) }),
                reserved := x.reserved.filter (fun q => q != p) }, none) := by
    unfold Exec.keepResp
    simp only [hxa]
    rw [if_neg hnotdef, if_neg hvn]
    simp only [hpy, hfree']
  refine ⟨app, v, i, by rw [hres], ?_, ?_, ?_⟩
  · rw [hres]
    subst hs
    constructor
    · intro a m' hm'
      by_cases ha : a = app
      · subst ha
        simp only [Epr.getApp_setApp_same, Option.some.injEq] at hm'
        subst hm'
        refine ⟨{ ap with unit := ap.unit.set i (some p) }, by simp [Exec.upd], ?_⟩
        simp only [hm1, hmu, hp, liftU_set]
      · simp only [Epr.getApp_setApp_ne _ _ _ _ ha] at hm'
        obtain ⟨ap', h1, h2⟩ := hR.apps a m' hm'
        exact ⟨ap', by simp [Exec.upd, ha, h1], h2⟩
    · intro q
      simp only [hu1, hp, mem_addUsed, mem_sadd']
      rw [hR.used q]
      constructor
      · rintro (h | h)
        · left; exact Int.ofNat_inj.mp h
        · right; exact h
      · rintro (h | h)
        · left; rw [h]
        · right; exact h
  · unfold Epr.mapped; rw [happ]; exact hfree
  · subst hs
    unfold Epr.mapped
    simp only [Epr.getApp_setApp_same, hm1, hp]
    exact Epr.getD_set_self hilt

end NQ.Bridge

namespace NQ.Bridge
open NQ

/-- a measure response consumed by the handler leaves the shared state as it is -/
theorem measure_consumption_keeps_rel {okf : Nat} {e e' : Epr.State} {r : Epr.Resp} {x : Exec.State}
    (hR : UnitRel e x) (hc : Epr.Consumed okf e r e') (hM : r.ty = .M) : UnitRel e' x := by
  obtain ⟨hd, rest, app, m, m1, used1, vq, prev, arr, arr', _, _, _, happ, hMM, _, _, _, _, hs⟩ := hc.ex
  obtain ⟨hm1, hu1, _, _⟩ := hMM hM
  subst hs
  constructor
  · intro a m' hm'
    by_cases ha : a = app
    · subst ha
      simp only [Epr.getApp_setApp_same, Option.some.injEq] at hm'
      subst hm'
      obtain ⟨ap, h1, h2⟩ := hR.apps a m happ
      exact ⟨ap, h1, by simp only [hm1, h2]⟩
    · simp only [Epr.getApp_setApp_ne _ _ _ _ ha] at hm'
      exact hR.apps a m' hm'
  · intro q; simp only [hu1]; exact hR.used q

/-- the controller operations (all `keep`) that a sequence of consumptions amounts to -/
def KeepOps (pend : List Epr.Resp) (ops : List Exec.Op) : Prop :=
  ∀ op ∈ ops, ∃ a v p, op = Exec.Op.keep a v p ∧ ∃ r ∈ pend, r.ty = .K ∧ r.phys = (p : Int)

/-- one consumption, either type, as zero or one controller operation -/
theorem micro_simulated {okf : Nat} {e e' : Epr.State} {x : Exec.State}
    (hm : Epr.Micro okf e e') (hR : UnitRel e x)
    (hnn : ∀ r ∈ e.pending, r.ty = .K → ∃ p : Nat, r.phys = (p : Int)) :
    ∃ ops : List Exec.Op, KeepOps e.pending ops ∧ UnitRel e' (ops.foldl Exec.apply x) ∧
      (∀ r ∈ e'.pending, r ∈ e.pending) := by
  obtain ⟨pre, r, rest, s2, hpend, hc, _, hs⟩ := hm
  have hrmem : r ∈ e.pending := by rw [hpend]; simp
  have hsub : ∀ y ∈ e'.pending, y ∈ e.pending := by
    subst hs
    intro y hy
    rw [hpend]
    simp only [List.mem_append, List.mem_cons] at hy ⊢
    rcases hy with h | h
    · exact Or.inl h
    · exact Or.inr (Or.inr h)
  have hrel_pend : ∀ {xx}, UnitRel s2 xx → UnitRel e' xx := by
    intro xx h; subst hs; exact ⟨h.apps, h.used⟩
  have hO : r.ty ≠ .other := by
    obtain ⟨_, _, _, _, _, _, _, _, _, _, _, _, _, _, _, _, hO, _⟩ := hc.ex
    exact hO
  cases hK : r.ty with
  | other => exact absurd hK hO
  | M =>
    refine ⟨[], ?_, hrel_pend (measure_consumption_keeps_rel hR hc hK), hsub⟩
    intro op hop; cases hop
  | K =>
    obtain ⟨p, hp⟩ := hnn r hrmem hK
    obtain ⟨app, v, i, _, hrel, _, _⟩ := keep_consumption_simulated hR hc hK hp
    refine ⟨[.keep app v p], ?_, by simpa [Exec.apply] using hrel_pend hrel, hsub⟩
    intro op hop
    simp only [List.mem_singleton] at hop
    exact ⟨app, v, p, hop, r, hrmem, hK, hp⟩

/-- a whole delivery / poll (any number of consumptions) as a list of controller `keep` operations -/
theorem micros_simulated {okf : Nat} {e e' : Epr.State} (hm : Epr.Micros okf e e') :
    ∀ {x : Exec.State}, UnitRel e x →
    (∀ r ∈ e.pending, r.ty = .K → ∃ p : Nat, r.phys = (p : Int)) →
    ∃ ops : List Exec.Op, KeepOps e.pending ops ∧ UnitRel e' (ops.foldl Exec.apply x) := by
  induction hm with
  | refl s => intro x hR _; exact ⟨[], (fun op hop => by cases hop), hR⟩
  | cons h1 _ ih =>
    intro x hR hnn
    obtain ⟨ops1, hk1, hR1, hsub⟩ := micro_simulated h1 hR hnn
    obtain ⟨ops2, hk2, hR2⟩ := ih hR1 (fun r hr => hnn r (hsub r hr))
    refine ⟨ops1 ++ ops2, ?_, by rw [List.foldl_append]; exact hR2⟩
    intro op hop
    rcases List.mem_append.mp hop with h | h
    · exact hk1 op h
    · obtain ⟨a, v, p, h1', r, hr, h2⟩ := hk2 op h
      exact ⟨a, v, p, h1', r, hsub r hr, h2⟩

end NQ.Bridge
