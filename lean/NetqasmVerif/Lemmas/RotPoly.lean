/-
The rotation matrices of Model/Gates as POLYNOMIAL identities in `w = e^{iθ}`, valid in every
commutative ring `R` with a chosen `i`, `i·i = −1` — hence for every angle, in particular for every
encodable `(n, d)` (take `R = ℂ`, `w = e^{i·nπ/2^d}`, Lemmas/RotComplex; or `R = ℤ[ζ₈]`, Lemmas/CycRing).

`P i ax w` is literally `rot2P ax w` of Model/Gates, instantiated at the scalar structure of `R`.
-/
import Mathlib.Tactic.Ring
import Mathlib.Tactic.LinearCombination
import NetqasmVerif.Model.Gates
namespace NQ.Rot
open NQ

variable {R : Type} [CommRing R]

/-- the scalar structure (`GScalar`) of a commutative ring with a chosen square root of −1 -/
@[reducible] def gs (i : R) : GScalar R := ⟨0, 1, i, (· + ·), (· - ·), (· * ·)⟩

/-- `2·e^{iθ/2}·R_ax(θ)` at `w = e^{iθ}`: the definition of Model/Gates over `R` -/
def P (i : R) (ax : Axis) (w : R) : M2 R := @rot2P R (gs i) ax w
/-- `2·e^{iθ/2}·R_ax(−θ)`: the control-|1⟩ block of a controlled rotation -/
def PNeg (i : R) (ax : Axis) (w : R) : M2 R := @rot2PNeg R (gs i) ax w

def mul2 (p q : M2 R) : M2 R :=
  ⟨p.a * q.a + p.b * q.c, p.a * q.b + p.b * q.d, p.c * q.a + p.d * q.c, p.c * q.b + p.d * q.d⟩
def smul2 (s : R) (p : M2 R) : M2 R := ⟨s * p.a, s * p.b, s * p.c, s * p.d⟩
def one2 : M2 R := ⟨1, 0, 0, 1⟩
/-- the Pauli matrix of an axis -/
def pauli (i : R) : Axis → M2 R
  | .X => ⟨0, 1, 1, 0⟩
  | .Y => ⟨0, -i, i, 0⟩
  | .Z => ⟨1, 0, 0, -1⟩

theorem P_X (i w : R) : P i .X w = ⟨1 + w, 1 - w, 1 - w, 1 + w⟩ := rfl
theorem P_Y (i w : R) : P i .Y w = ⟨1 + w, i * (w - 1), i * (1 - w), 1 + w⟩ := rfl
theorem P_Z (i w : R) : P i .Z w = ⟨1 + 1, 0, 0, (1 + 1) * w⟩ := rfl
theorem PNeg_X (i w : R) : PNeg i .X w = ⟨w + 1, w - 1, w - 1, w + 1⟩ := rfl
theorem PNeg_Y (i w : R) : PNeg i .Y w = ⟨w + 1, i * (1 - w), i * (w - 1), w + 1⟩ := rfl
theorem PNeg_Z (i w : R) : PNeg i .Z w = ⟨(1 + 1) * w, 0, 0, 1 + 1⟩ := rfl

/-- (a) consecutive rotations about one axis compose to the rotation by the SUM of the angles:
`(2e^{iθ₁/2}R(θ₁))·(2e^{iθ₂/2}R(θ₂)) = 2·(2e^{i(θ₁+θ₂)/2}R(θ₁+θ₂))`, for all `w₁ = e^{iθ₁}`, `w₂ = e^{iθ₂}` -/
theorem rot_compose (i : R) (hi : i * i = -1) (ax : Axis) (w₁ w₂ : R) :
    mul2 (P i ax w₁) (P i ax w₂) = smul2 2 (P i ax (w₁ * w₂)) := by
  cases ax
  · simp only [P_X, mul2, smul2, M2.mk.injEq]; refine ⟨?_, ?_, ?_, ?_⟩ <;> ring
  · simp only [P_Y, mul2, smul2, M2.mk.injEq]
    refine ⟨?_, ?_, ?_, ?_⟩
    · linear_combination ((w₁ - 1) * (1 - w₂)) * hi
    · ring
    · ring
    · linear_combination ((1 - w₁) * (w₂ - 1)) * hi
  · simp only [P_Z, mul2, smul2, M2.mk.injEq]; refine ⟨?_, ?_, ?_, ?_⟩ <;> ring

/-- (b) the zero rotation is (twice) the identity -/
theorem rot_zero (i : R) (ax : Axis) : P i ax 1 = smul2 2 one2 := by
  cases ax
  · simp only [P_X, smul2, one2, M2.mk.injEq]; refine ⟨?_, ?_, ?_, ?_⟩ <;> ring
  · simp only [P_Y, smul2, one2, M2.mk.injEq]; refine ⟨?_, ?_, ?_, ?_⟩ <;> ring
  · simp only [P_Z, smul2, one2, M2.mk.injEq]; refine ⟨?_, ?_, ?_, ?_⟩ <;> ring

/-- (b) the rotation by π (`w = −1`) is (twice) the Pauli matrix of the axis -/
theorem rot_half_turn (i : R) (ax : Axis) : P i ax (-1) = smul2 2 (pauli i ax) := by
  cases ax
  · simp only [P_X, smul2, pauli, M2.mk.injEq]; refine ⟨?_, ?_, ?_, ?_⟩ <;> ring
  · simp only [P_Y, smul2, pauli, M2.mk.injEq]; refine ⟨?_, ?_, ?_, ?_⟩ <;> ring
  · simp only [P_Z, smul2, pauli, M2.mk.injEq]; refine ⟨?_, ?_, ?_, ?_⟩ <;> ring

/-- the opposite rotation is the inverse: `P(θ)·P(−θ) = 4·1` whenever `w·v = 1` -/
theorem rot_inverse (i : R) (hi : i * i = -1) (ax : Axis) (w v : R) (h : w * v = 1) :
    mul2 (P i ax w) (P i ax v) = smul2 4 one2 := by
  rw [rot_compose i hi, h, rot_zero]
  simp only [smul2, one2, M2.mk.injEq]; refine ⟨?_, ?_, ?_, ?_⟩ <;> ring

/-- (d) the control-|1⟩ block of a controlled rotation, in the common normalisation, is
`w·(2e^{−iθ/2}R(−θ))`: `PNeg ax w = w • P ax w⁻¹`, generically in `w` -/
theorem crot_block (i : R) (ax : Axis) (w v : R) (h : w * v = 1) :
    PNeg i ax w = smul2 w (P i ax v) := by
  cases ax
  · simp only [PNeg_X, P_X, smul2, M2.mk.injEq]
    refine ⟨?_, ?_, ?_, ?_⟩
    · linear_combination (-1 : R) * h
    · linear_combination (1 : R) * h
    · linear_combination (1 : R) * h
    · linear_combination (-1 : R) * h
  · simp only [PNeg_Y, P_Y, smul2, M2.mk.injEq]
    refine ⟨?_, ?_, ?_, ?_⟩
    · linear_combination (-1 : R) * h
    · linear_combination (-i) * h
    · linear_combination i * h
    · linear_combination (-1 : R) * h
  · simp only [PNeg_Z, P_Z, smul2, M2.mk.injEq]
    refine ⟨?_, ?_, ?_, ?_⟩
    · ring
    · ring
    · ring
    · linear_combination (-(1 + 1) : R) * h

/-- controlled rotations compose block-wise: the control-|1⟩ blocks too add their angles -/
theorem crot_compose (i : R) (hi : i * i = -1) (ax : Axis) (w₁ w₂ : R) :
    mul2 (PNeg i ax w₁) (PNeg i ax w₂) = smul2 2 (PNeg i ax (w₁ * w₂)) := by
  cases ax
  · simp only [PNeg_X, mul2, smul2, M2.mk.injEq]; refine ⟨?_, ?_, ?_, ?_⟩ <;> ring
  · simp only [PNeg_Y, mul2, smul2, M2.mk.injEq]
    refine ⟨?_, ?_, ?_, ?_⟩
    · linear_combination ((1 - w₁) * (w₂ - 1)) * hi
    · ring
    · ring
    · linear_combination ((w₁ - 1) * (1 - w₂)) * hi
  · simp only [PNeg_Z, mul2, smul2, M2.mk.injEq]; refine ⟨?_, ?_, ?_, ?_⟩ <;> ring

/-! ### Angles `n·π/2^d` as powers of a root of unity -/

/-- `e^{i·nπ/2^d}` as a power of `ζ`, where `ζ^(2^D) = −1` (a primitive `2^(D+1)`-th root of unity,
`ζ = e^{iπ/2^D}` in ℂ) and `d ≤ D` -/
def wOf (ζ : R) (D n d : Nat) : R := ζ ^ (n * 2 ^ (D - d))

theorem wOf_add (ζ : R) (D n₁ n₂ d : Nat) : wOf ζ D (n₁ + n₂) d = wOf ζ D n₁ d * wOf ζ D n₂ d := by
  unfold wOf; rw [← pow_add, Nat.add_mul]

theorem zeta_full (ζ : R) (D : Nat) (hζ : ζ ^ 2 ^ D = -1) : ζ ^ 2 ^ (D + 1) = 1 := by
  rw [pow_succ, pow_mul, hζ]; ring

/-- the angle is read modulo 2π: adding `2^(d+1)` to the numerator changes nothing -/
theorem wOf_period (ζ : R) (D n d : Nat) (hζ : ζ ^ 2 ^ D = -1) (hd : d ≤ D) :
    wOf ζ D (n + 2 ^ (d + 1)) d = wOf ζ D n d := by
  rw [wOf_add]
  have : wOf ζ D (2 ^ (d + 1)) d = 1 := by
    unfold wOf
    rw [← pow_add, show d + 1 + (D - d) = D + 1 by omega]
    exact zeta_full ζ D hζ
  rw [this, mul_one]

/-- numerator `2^d` is the angle π -/
theorem wOf_pi (ζ : R) (D d : Nat) (hζ : ζ ^ 2 ^ D = -1) (hd : d ≤ D) : wOf ζ D (2 ^ d) d = -1 := by
  unfold wOf
  rw [← pow_add, show d + (D - d) = D by omega]
  exact hζ

/-- equal rational angles have equal `w`: `n/2^d = n'/2^d'` (cross-multiplied) -/
theorem wOf_eq_of_same_angle (ζ : R) (D n d n' d' : Nat) (hd : d ≤ D) (hd' : d' ≤ D)
    (h : n * 2 ^ d' = n' * 2 ^ d) : wOf ζ D n d = wOf ζ D n' d' := by
  unfold wOf
  congr 1
  have e1 : 2 ^ D = 2 ^ (D - d) * 2 ^ d := by rw [← pow_add]; congr 1; omega
  have e2 : 2 ^ D = 2 ^ (D - d') * 2 ^ d' := by rw [← pow_add]; congr 1; omega
  have hpos : 0 < 2 ^ d * 2 ^ d' := Nat.mul_pos (Nat.two_pow_pos _) (Nat.two_pow_pos _)
  apply Nat.eq_of_mul_eq_mul_right hpos
  calc n * 2 ^ (D - d) * (2 ^ d * 2 ^ d') = (n * 2 ^ d') * (2 ^ (D - d) * 2 ^ d) := by ring
    _ = (n' * 2 ^ d) * 2 ^ D := by rw [h, ← e1]
    _ = (n' * 2 ^ d) * (2 ^ (D - d') * 2 ^ d') := by rw [← e2]
    _ = n' * 2 ^ (D - d') * (2 ^ d * 2 ^ d') := by ring

end NQ.Rot
