/-
Helper lemmas for C19 (angle expansion).  Values are read in an arbitrary linearly ordered field
`K` (ℚ, ℝ …): `rest = r / 2^E`, a step `(n, d)` is worth `n / 2^d` (in units of π).
-/
import NetqasmVerif.Model.Angle
import Mathlib.Tactic.Ring
import Mathlib.Tactic.FieldSimp
import Mathlib.Tactic.Linarith
import Mathlib.Tactic.Positivity
import Mathlib.Tactic.LinearCombination
import Mathlib.Algebra.Order.Field.Basic
import Mathlib.Algebra.Order.BigOperators.Group.List
namespace NQ.Angle

/-! ### Natural-number facts about one step -/

theorem numer_mul_le (E r d : Nat) : numer E r d * 2 ^ E ≤ r * 2 ^ d :=
  Nat.div_mul_le_self _ _

theorem lt_numer_succ_mul (E r d : Nat) : r * 2 ^ d < (numer E r d + 1) * 2 ^ E := by
  unfold numer
  have h := Nat.lt_succ_iff.mpr (Nat.le_refl (r * 2 ^ d / 2 ^ E))
  exact (Nat.div_lt_iff_lt_mul (Nat.two_pow_pos E)).mp h

/-- the exact subtraction: `rest·2^d = n·2^E/… ` i.e. `rest = n/2^d + rest'` cross-multiplied -/
theorem step_identity (E r d : Nat) :
    r * 2 ^ d = numer E r d * 2 ^ E + restAfter E r d * 2 ^ d := by
  unfold numer restAfter
  by_cases hd : d ≤ E
  · have hsplit : 2 ^ E = 2 ^ (E - d) * 2 ^ d := by
      rw [← Nat.pow_add]; congr 1; omega
    have hn : r * 2 ^ d / 2 ^ E = r / 2 ^ (E - d) := by
      rw [hsplit]; exact Nat.mul_div_mul_right _ _ (Nat.two_pow_pos d)
    rw [hn]
    have hdm := Nat.div_add_mod r (2 ^ (E - d))
    calc r * 2 ^ d = (2 ^ (E - d) * (r / 2 ^ (E - d)) + r % 2 ^ (E - d)) * 2 ^ d := by rw [hdm]
      _ = r / 2 ^ (E - d) * 2 ^ E + r % 2 ^ (E - d) * 2 ^ d := by rw [hsplit]; ring
  · have h0 : E - d = 0 := by omega
    have hsplit : 2 ^ d = 2 ^ (d - E) * 2 ^ E := by
      rw [← Nat.pow_add]; congr 1; omega
    rw [h0]
    simp only [Nat.pow_zero, Nat.mod_one, Nat.zero_mul, Nat.add_zero]
    rw [hsplit, ← Nat.mul_assoc, Nat.mul_div_cancel _ (Nat.two_pow_pos E)]

theorem restAfter_mul_lt (E r d : Nat) : restAfter E r d * 2 ^ d < 2 ^ E := by
  have h1 := step_identity E r d
  have h2 := lt_numer_succ_mul E r d
  have : (numer E r d + 1) * 2 ^ E = numer E r d * 2 ^ E + 2 ^ E := by ring
  omega

/-- the exact choice is allowed whenever `0 < rest ≤ 255` -/
theorem dChoice_allowed (E r : Nat) (h0 : 0 < r) (h255 : r ≤ 255 * 2 ^ E) :
    Allowed E r (dChoice E r) := by
  have hq : 255 * 2 ^ E / r ≠ 0 := by
    have : 1 ≤ 255 * 2 ^ E / r := (Nat.le_div_iff_mul_le h0).mpr (by omega)
    omega
  have hlo : 2 ^ dChoice E r ≤ 255 * 2 ^ E / r := Nat.log2_self_le hq
  have hhi : 255 * 2 ^ E / r < 2 ^ (dChoice E r + 1) := Nat.lt_log2_self
  have hlo' : 2 ^ dChoice E r * r ≤ 255 * 2 ^ E := (Nat.le_div_iff_mul_le h0).mp hlo
  have hhi' : 255 * 2 ^ E < 2 ^ (dChoice E r + 1) * r := (Nat.div_lt_iff_lt_mul h0).mp hhi
  have hE : 0 < 2 ^ E := Nat.two_pow_pos E
  constructor
  · -- 127·2^E ≤ r·2^d
    unfold numer
    apply (Nat.le_div_iff_mul_le hE).mpr
    rw [Nat.pow_succ] at hhi'
    have : 2 ^ dChoice E r * 2 * r = 2 * (r * 2 ^ dChoice E r) := by ring
    omega
  · unfold numer
    have : r * 2 ^ dChoice E r < 256 * 2 ^ E := by
      have : 2 ^ dChoice E r * r = r * 2 ^ dChoice E r := by ring
      omega
    have := (Nat.div_lt_iff_lt_mul hE).mpr this
    omega

/-- with `rest ≤ 2` an allowed exponent is at least 6 -/
theorem allowed_d_ge (E r d : Nat) (h2 : r ≤ 2 * 2 ^ E) (ha : Allowed E r d) : 6 ≤ d := by
  have h1 : 127 * 2 ^ E ≤ r * 2 ^ d :=
    Nat.le_trans (Nat.mul_le_mul_right _ ha.1) (numer_mul_le E r d)
  have h3 : r * 2 ^ d ≤ 2 * 2 ^ E * 2 ^ d := Nat.mul_le_mul_right _ h2
  have h4 : 127 * 2 ^ E ≤ (2 * 2 ^ d) * 2 ^ E := by
    have : 2 * 2 ^ E * 2 ^ d = (2 * 2 ^ d) * 2 ^ E := by ring
    omega
  have h5 : 127 ≤ 2 * 2 ^ d := Nat.le_of_mul_le_mul_right h4 (Nat.two_pow_pos E)
  by_contra hlt
  have hd : d ≤ 5 := by omega
  have : 2 ^ d ≤ 2 ^ 5 := Nat.pow_le_pow_right (by decide) hd
  omega

/-- with `tol_pi ≥ 2^-247` an allowed exponent fits the 8-bit field -/
theorem allowed_d_le (E t r d : Nat) (ht : 2 ^ E ≤ t * 2 ^ 247) (hr : t < r) (ha : Allowed E r d) :
    d ≤ 254 := by
  have h1 : r * 2 ^ d < 256 * 2 ^ E := by
    have := numer_mul_le E r d
    have h2 := lt_numer_succ_mul E r d
    have : (numer E r d + 1) * 2 ^ E ≤ 256 * 2 ^ E := Nat.mul_le_mul_right _ (by have := ha.2; omega)
    omega
  have h2 : t * 2 ^ d < r * 2 ^ d := Nat.mul_lt_mul_of_pos_right hr (Nat.two_pow_pos d)
  have h3 : 2 ^ E * 2 ^ d ≤ t * 2 ^ 247 * 2 ^ d := Nat.mul_le_mul_right _ ht
  have h4 : 2 ^ E * 2 ^ d < 2 ^ E * 2 ^ 255 := by
    have e1 : t * 2 ^ 247 * 2 ^ d = (t * 2 ^ d) * 2 ^ 247 := by ring
    have e2 : (256 * 2 ^ E) * 2 ^ 247 = 2 ^ E * 2 ^ 255 := by
      have : (256 : Nat) = 2 ^ 8 := by norm_num
      rw [this]; ring
    have h5 : (t * 2 ^ d) * 2 ^ 247 < (256 * 2 ^ E) * 2 ^ 247 :=
      Nat.mul_lt_mul_of_pos_right (by omega) (Nat.two_pow_pos 247)
    omega
  have h6 : 2 ^ d < 2 ^ 255 := Nat.lt_of_mul_lt_mul_left h4
  have := (Nat.pow_lt_pow_iff_right (by decide : 1 < 2)).mp h6
  omega

/-! ### Values in an ordered field -/

section Field
variable {K : Type} [Field K] [LinearOrder K] [IsStrictOrderedRing K]

/-- value of a remainder / tolerance numerator over the scale `2^E` -/
def val (E r : Nat) : K := (r : K) / 2 ^ E
/-- value of a step `(n, d)`: `n / 2^d` (units of π) -/
def stepVal (p : Nat × Nat) : K := (p.1 : K) / 2 ^ p.2
/-- value of a list of steps -/
def sumVal (l : List (Nat × Nat)) : K := (l.map (stepVal (K := K))).sum

theorem two_pow_pos' (e : Nat) : (0 : K) < 2 ^ e := by positivity

theorem val_le_val (E a b : Nat) (h : a ≤ b) : (val E a : K) ≤ val E b := by
  unfold val
  have : (a : K) ≤ b := by exact_mod_cast h
  exact div_le_div_of_nonneg_right this (le_of_lt (two_pow_pos' E))

theorem val_nonneg (E a : Nat) : (0 : K) ≤ val E a := by
  unfold val; positivity

theorem sumVal_nonneg (l : List (Nat × Nat)) : (0 : K) ≤ sumVal l := by
  unfold sumVal
  apply List.sum_nonneg
  intro x hx
  rcases List.mem_map.mp hx with ⟨p, _, rfl⟩
  unfold stepVal; positivity

theorem sumVal_cons (p : Nat × Nat) (l : List (Nat × Nat)) :
    (sumVal (p :: l) : K) = stepVal p + sumVal l := by
  simp [sumVal]

theorem numer_val_le (E r d : Nat) : (stepVal (numer E r d, d) : K) ≤ val E r := by
  unfold stepVal val
  rw [div_le_div_iff₀ (two_pow_pos' d) (two_pow_pos' E)]
  have := numer_mul_le E r d
  exact_mod_cast this

theorem val_lt_numer_succ (E r d : Nat) : (val E r : K) < ((numer E r d : K) + 1) / 2 ^ d := by
  unfold val
  rw [div_lt_div_iff₀ (two_pow_pos' E) (two_pow_pos' d)]
  have := lt_numer_succ_mul E r d
  exact_mod_cast this

theorem step_val (E r d : Nat) :
    (val E r : K) = stepVal (numer E r d, d) + val E (restAfter E r d) := by
  unfold val stepVal
  have h := step_identity E r d
  have hK : (r : K) * 2 ^ d = (numer E r d : K) * 2 ^ E + (restAfter E r d : K) * 2 ^ d := by
    exact_mod_cast h
  have hd := two_pow_pos' (K := K) d
  have hE := two_pow_pos' (K := K) E
  field_simp
  linear_combination hK

theorem restAfter_val_lt (E r d : Nat) : (val E (restAfter E r d) : K) < 1 / 2 ^ d := by
  unfold val
  rw [div_lt_div_iff₀ (two_pow_pos' E) (two_pow_pos' d)]
  have := restAfter_mul_lt E r d
  have h : ((restAfter E r d * 2 ^ d : Nat) : K) < ((2 ^ E : Nat) : K) := by exact_mod_cast this
  push_cast at h
  linarith

end Field

/-! ### Simplification -/

theorem simplify_fst_le : ∀ d n, (simplify n d).1 ≤ n
  | 0, n => by simp [simplify]
  | d + 1, n => by
    unfold simplify
    split
    · exact Nat.le_trans (simplify_fst_le d (n / 2)) (Nat.div_le_self n 2)
    · exact Nat.le_refl n

theorem simplify_snd_le : ∀ d n, (simplify n d).2 ≤ d
  | 0, n => by simp [simplify]
  | d + 1, n => by
    unfold simplify
    split
    · exact Nat.le_trans (simplify_snd_le d (n / 2)) (Nat.le_succ d)
    · exact Nat.le_refl _

theorem simplify_pos : ∀ d n, 0 < n → 0 < (simplify n d).1
  | 0, n, h => by simpa [simplify] using h
  | d + 1, n, h => by
    unfold simplify
    split
    · apply simplify_pos d (n / 2); omega
    · exact h

/-- on exit the numerator is odd or the exponent reached 0 (the guard of the fixed code) -/
theorem simplify_normal : ∀ d n, (simplify n d).1 % 2 = 1 ∨ (simplify n d).2 = 0
  | 0, n => by simp [simplify]
  | d + 1, n => by
    unfold simplify
    split
    · exact simplify_normal d (n / 2)
    · left; simp only; omega

theorem simplify_val {K : Type} [Field K] [LinearOrder K] [IsStrictOrderedRing K] :
    ∀ d n, (stepVal (simplify n d) : K) = stepVal (n, d)
  | 0, n => by simp [simplify]
  | d + 1, n => by
    unfold simplify
    split
    · rename_i h
      rw [simplify_val d (n / 2)]
      unfold stepVal
      have hn : n = 2 * (n / 2) := by omega
      have : (n : K) = 2 * ((n / 2 : Nat) : K) := by exact_mod_cast hn
      simp only
      rw [this, pow_succ]
      have hd := two_pow_pos' (K := K) d
      field_simp
    · rfl

end NQ.Angle
