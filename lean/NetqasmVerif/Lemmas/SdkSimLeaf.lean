/-
Compiler correctness of the SDK builder model (C05), part 2: the code of the leaf operations
(array-entry access incl. future-indexed futures, condition operands and branches, `add`, measurement).
-/
import NetqasmVerif.Lemmas.SdkSim
set_option linter.unusedSimpArgs false
set_option linter.unusedVariables false
namespace NQ.Sdk

/-! ## instruction helpers -/

theorem idxOf_some {v : Int} {i : Nat} (h : idxOf v = some i) : 0 ≤ v ∧ i = v.toNat := by
  unfold idxOf at h
  split at h
  · rename_i h0; cases h; exact ⟨h0, rfl⟩
  · cases h

theorem entryLoc_L (s : St) (a i : Nat) : entryLoc s (.entryL a i) = some (a, i) := rfl

theorem entryLoc_R {s : St} {a : Nat} {ir : Reg} {x : Int} {i : Nat} (hr : s.regs ir = some x)
    (hx : idxOf x = some i) : entryLoc s (.entryR a ir) = some (a, i) := by
  obtain ⟨h0, rfl⟩ := idxOf_some hx
  simp [entryLoc, hr, h0]

theorem readEntry_of {s : St} {e : POp} {a i : Nat} {v : Int} (he : entryLoc s e = some (a, i))
    (hv : readCell s.arrs a i = some v) : readEntry s e = some v := by
  unfold readCell at hv
  unfold readEntry
  rw [he]
  simp only
  split at hv
  · rename_i l hl
    rw [hl]; simp only
    split at hv
    · rename_i v' hv'; cases hv; rw [hv']
    · cases hv
  · cases hv

theorem exec_load {p : List PCmd} {s : St} {n : Nat} {r : Reg} {e : POp} {a i : Nat} {v : Int}
    (he : entryLoc s e = some (a, i)) (hv : readCell s.arrs a i = some v) :
    exec p s n .load [.reg r, e] = some (s.setReg r v, n + 1) := by
  simp [exec, readEntry_of he hv]

theorem exec_store {p : List PCmd} {s : St} {n : Nat} {src : POp} {e : POp} {a i : Nat} {v : Int}
    {l : List (Option Int)} (hs : opVal s src = some v) (he : entryLoc s e = some (a, i))
    (ha : s.arrs a = some l) (hi : i < l.length) :
    exec p s n .store [src, e] = some (s.setArr a (l.set i (some v)), n + 1) := by
  simp [exec, hs, writeEntry, he, ha, hi]

/-- table lookups survive extension of the handle table -/
def Ext (h H : List (Reg × Bool)) : Prop := ∀ (k : Nat) (v : Reg × Bool), h[k]? = some v → H[k]? = some v

theorem Ext.refl (h : List (Reg × Bool)) : Ext h h := fun _ _ x => x
theorem Ext.trans {a b c : List (Reg × Bool)} (h1 : Ext a b) (h2 : Ext b c) : Ext a c :=
  fun k v x => h2 k v (h1 k v x)
theorem Ext.of_append {a t H : List (Reg × Bool)} (h : Ext (a ++ t) H) : Ext a H :=
  fun k v x => h k v (prefix_get x)
theorem Ext.append (a t : List (Reg × Bool)) : Ext a (a ++ t) := fun k v x => prefix_get x

theorem handle_get {m : Mem} {h : Nat} {x : Reg × Bool} (hh : handle m h = .ok x) : m.handles[h]? = some x := by
  unfold handle at hh
  split at hh
  · rename_i y hy; cases hh; exact hy
  · cases hh

/-! ## array entries: `Future._get_access_commands` -/

theorem access_sim : ∀ (f : Fut) (m : Mem) (st : Bool) (r : Reg) (m' : Mem) (cs : List PCmd),
    accessCmds m st r f = .ok (m', cs) →
    ∀ (H : List (Reg × Bool)) (L : List Nat) (act mu : List Bool) (hs : HSt) (ts : St) (p : List PCmd) (n : Nat),
    Ext m.handles H → Rel H L act mu hs ts → Sub act m.active → m.active.length = act.length →
    Placed p n cs → ∀ a i, evalFut hs f = some (a, i) →
    (st = false → ∀ v, readCell hs.arrs a i = some v →
      ∃ ts1, TmpEq m.active ts ts1 ∧ Runs p n cs.length ts (ts1.setReg r v)) ∧
    (st = true → ∀ v l, ts.regs r = some v → ¬ TmpIn m.active r → hs.arrs a = some l → i < l.length →
      ∃ ts1, TmpEq m.active ts ts1 ∧ Runs p n cs.length ts (ts1.setArr a (l.set i (some v))))
  | .lit a0 i0, m, st, r, m', cs, h => by
    intro H L act mu hs ts p n hext hrel hsub hlen hpl a i hev
    simp [accessCmds] at h
    obtain ⟨_, rfl⟩ := h
    simp [evalFut] at hev
    obtain ⟨rfl, rfl⟩ := hev
    constructor
    · intro hst v hv
      subst hst
      refine ⟨ts, TmpEq.refl _ _, ?_⟩
      exact runs_instr hpl.head (exec_load (entryLoc_L _ _ _) (by rw [hrel.arrs]; exact hv))
    · intro hst v l hr _ ha hi
      subst hst
      refine ⟨ts, TmpEq.refl _ _, ?_⟩
      exact runs_instr hpl.head (exec_store (by simpa using hr) (entryLoc_L _ _ _)
        (by rw [hrel.arrs]; exact ha) hi)
  | .reg a0 hh, m, st, r, m', cs, h => by
    intro H L act mu hs ts p n hext hrel hsub hlen hpl a i hev
    unfold accessCmds at h
    split at h
    · cases h
    · rename_i ir b hh1
      cases h
      simp only [evalFut] at hev
      split at hev
      · rename_i x hx
        split at hev
        · rename_i i' hi'
          cases hev
          have hval := (hrel.reg_val hx (hext _ _ (handle_get hh1))).1
          constructor
          · intro hst v hv
            subst hst
            refine ⟨ts, TmpEq.refl _ _, ?_⟩
            exact runs_instr hpl.head (exec_load (entryLoc_R hval hi') (by rw [hrel.arrs]; exact hv))
          · intro hst v l hr _ ha hi
            subst hst
            refine ⟨ts, TmpEq.refl _ _, ?_⟩
            exact runs_instr hpl.head (exec_store (by simpa using hr) (entryLoc_R hval hi')
              (by rw [hrel.arrs]; exact ha) hi)
        · cases hev
      · cases hev
  | .fut a0 f, m, st, r, m', cs, h => by
    intro H L act mu hs ts p n hext hrel hsub hlen hpl a i hev
    unfold accessCmds at h
    split at h
    · cases h
    · rename_i t ht
      split at h
      · cases h
      · rename_i m1 h1
        split at h
        · cases h
        · rename_i m2 cs2 h2
          split at h
          · cases h
          · rename_i m3 h3
            cases h
            have a1 := activate_spec h1
            have htmp : TmpIn m.active (R t) := ⟨rfl, a1.1⟩
            simp only [evalFut] at hev
            split at hev
            · rename_i b j hbj
              split at hev
              · rename_i vi hvi
                split at hev
                · rename_i i' hi'
                  cases hev
                  have ih := (access_sim f m1 false (R t) m2 cs2 h2 H L act mu hs ts p n
                    (by rw [a1.2.2.2.2.2.2.2]; exact hext) hrel
                    (by rw [a1.2.1]; exact hsub.trans (Sub.set _ _))
                    (by rw [a1.2.1]; simpa using hlen) hpl.left b j hbj).1 rfl vi hvi
                  obtain ⟨ts1, hte, hrun⟩ := ih
                  rw [a1.2.1] at hte
                  have hte2 : TmpEq m.active ts (ts1.setReg (R t) vi) := (hte.of_set).setReg htmp vi
                  have hpc := hpl.right.head
                  constructor
                  · intro hst v hv
                    subst hst
                    refine ⟨ts1.setReg (R t) vi, hte2, ?_⟩
                    have hlast : Runs p (n + cs2.length) 1 (ts1.setReg (R t) vi)
                        ((ts1.setReg (R t) vi).setReg r v) :=
                      runs_instr hpc (exec_load (entryLoc_R (by simp) hi')
                        (by simp [hte.arrs, hrel.arrs]; exact hv))
                    have := runs_seq hrun hlast
                    simpa using this
                  · intro hst v l hr hnt ha hi
                    subst hst
                    refine ⟨ts1.setReg (R t) vi, hte2, ?_⟩
                    have hne : r ≠ R t := by intro e; subst e; exact hnt htmp
                    have hrv : (ts1.setReg (R t) vi).regs r = some v := by
                      rw [St.setReg_regs_ne _ _ hne, hte.of_set.regs r hnt]; exact hr
                    have hlast : Runs p (n + cs2.length) 1 (ts1.setReg (R t) vi)
                        ((ts1.setReg (R t) vi).setArr a0 (l.set i (some v))) :=
                      runs_instr hpc (exec_store (by rw [opVal_reg]; exact hrv) (entryLoc_R (by simp) hi')
                        (by simp [hte.arrs, hrel.arrs]; exact ha) hi)
                    have := runs_seq hrun hlast
                    simpa using this
                · cases hev
              · cases hev
            · cases hev

/-- loading the value of a Future into a register -/
theorem load_fut_sim {f : Fut} {m m' : Mem} {r : Reg} {cs : List PCmd}
    (h : accessCmds m false r f = .ok (m', cs))
    {H : List (Reg × Bool)} {L : List Nat} {act mu : List Bool} {hs : HSt} {ts : St} {p : List PCmd} {n : Nat}
    (hext : Ext m.handles H) (hrel : Rel H L act mu hs ts) (hsub : Sub act m.active)
    (hlen : m.active.length = act.length) (hpl : Placed p n cs) {v : Int} (hv : readFut hs f = some v) :
    ∃ ts1, TmpEq m.active ts ts1 ∧ Runs p n cs.length ts (ts1.setReg r v) := by
  unfold readFut at hv
  split at hv
  · rename_i a i hai
    exact (access_sim f m false r m' cs h H L act mu hs ts p n hext hrel hsub hlen hpl a i hai).1 rfl v hv
  · cases hv

theorem TmpEq.to_act {act a : List Bool} {s1 s2 : St} (h : TmpEq a s1 s2) (hs : Sub act a)
    (hl : a.length = act.length) : TmpEq act s1 s2 :=
  h.mono (fun _ hx => hx.sub hs hl)

theorem addressEntry_loc {m : Mem} {f : Fut} {ent : POp} (h : addressEntry m f = .ok ent)
    {H : List (Reg × Bool)} {L : List Nat} {act mu : List Bool} {hs : HSt} {ts : St}
    (hext : Ext m.handles H) (hrel : Rel H L act mu hs ts) {a i : Nat} (hev : evalFut hs f = some (a, i)) :
    entryLoc ts ent = some (a, i) := by
  cases f with
  | lit a0 i0 =>
    simp [addressEntry] at h; subst h
    simp [evalFut] at hev; obtain ⟨rfl, rfl⟩ := hev; rfl
  | reg a0 hh =>
    simp only [addressEntry] at h
    split at h
    · cases h
    · rename_i ir b hh1
      cases h
      simp only [evalFut] at hev
      split at hev
      · rename_i x hx
        split at hev
        · rename_i i' hi'
          cases hev
          exact entryLoc_R (hrel.reg_val hx (hext _ _ (handle_get hh1))).1 hi'
        · cases hev
      · cases hev
  | fut a0 f => simp [addressEntry] at h

/-- `_get_condition_operand`: after its commands the operand evaluates to the host value, and keeps
doing so whatever later temporaries are loaded -/
theorem condOperand_sim {m m1 : Mem} {v : Val} {cs : List PCmd} {o : POp} {t : Option Nat}
    (h : condOperand m v = .ok (m1, cs, o, t))
    {H : List (Reg × Bool)} {L : List Nat} {act mu : List Bool} {hs : HSt} {ts : St} {p : List PCmd} {n : Nat}
    (hext : Ext m.handles H) (hrel : Rel H L act mu hs ts) (hsub : Sub act m.active)
    (hlen : m.active.length = act.length) (hpl : Placed p n cs) {x : Int} (hv : evalVal hs v = some x) :
    ∃ ts1, TmpEq m.active ts ts1 ∧ Runs p n cs.length ts ts1 ∧
      ∀ ts2, TmpEq m1.active ts1 ts2 → opVal ts2 o = some x := by
  cases v with
  | lit y =>
    simp [condOperand] at h
    obtain ⟨rfl, rfl, rfl, rfl⟩ := h
    simp [evalVal] at hv; subst hv
    exact ⟨ts, TmpEq.refl _ _, Runs.refl _ _ _, fun _ _ => rfl⟩
  | reg hh =>
    simp only [condOperand] at h
    split at h
    · cases h
    · rename_i r isRF hh1
      split at h
      · cases h
        simp [evalVal] at hv
        have hr := hrel.reg_val hv (hext _ _ (handle_get hh1))
        refine ⟨ts, TmpEq.refl _ _, Runs.refl _ _ _, ?_⟩
        intro ts2 h2
        rw [opVal_reg, h2.regs r (fun hc => hr.2.not_tmp (hc.sub hsub hlen))]
        exact hr.1
      · cases h
  | fut f =>
    simp only [condOperand] at h
    split at h
    · cases h
    · rename_i m' t' h1
      split at h
      · cases h
      · rename_i ent hent
        cases h
        have s1 := takeReg_spec h1
        have htmp : TmpIn m.active (R t') := ⟨rfl, s1.1⟩
        simp only [evalVal, readFut] at hv
        split at hv
        · rename_i a i hai
          have hloc := addressEntry_loc hent (by rw [s1.2.2.1]; exact hext) hrel hai
          refine ⟨ts.setReg (R t') x, (TmpEq.refl _ ts).setReg htmp x, ?_, ?_⟩
          · exact runs_instr hpl.head (exec_load hloc (by rw [hrel.arrs]; exact hv))
          · intro ts2 h2
            rw [opVal_reg, h2.regs (R t') ?_]
            · simp
            · intro hc
              rw [s1.2.1] at hc
              have := hc.2
              have e : (R t').idx = t' := rfl
              rw [e, getD_set_self (getD_true_false_lt s1.1)] at this
              cases this
        · cases hv

theorem condB_iff (c : Cond) (a b : Int) : condB c a b = true ↔ condHolds c a b := by
  cases c <;> simp [condB, condHolds]

/-- the code in front of an `if` body (`_get_branch_commands*`): loads, then the negated branch -/
theorem branch_sim {m m' : Mem} {c : Cond} {a b : Val} {st : List PCmd} {l : Lbl}
    (h : branchCmds m c a b = .ok (m', st, l))
    {H : List (Reg × Bool)} {L : List Nat} {act mu : List Bool} {hs : HSt} {ts : St} {p : List PCmd} {n tpos : Nat}
    (hext : Ext m.handles H) (hrel : Rel H L act mu hs ts) (hsub : Sub act m.active)
    (hlen : m.active.length = act.length) (hpl : Placed p n st) (hl : findLabel p l = some tpos)
    {va vb : Int} (hva : evalVal hs a = some va) (hvb : c.unary = false → evalVal hs b = some vb) :
    ∃ ts1, TmpEq m.active ts ts1 ∧
      Steps p (ts, n) (ts1, if condB c va vb then n + st.length else tpos + 1) := by
  unfold branchCmds at h
  simp only at h
  split at h
  · rename_i hu
    split at h
    · cases h
    · rename_i m1 cs1 oa ta h1
      split at h
      · cases h
      · rename_i m2 h2
        cases h
        obtain ⟨ts1, hte, hrun, hop⟩ := condOperand_sim h1 hext hrel hsub hlen hpl.left hva
        refine ⟨ts1, hte, ?_⟩
        have hbr := hpl.right.head
        have hex := branch_taken_iff p ts1 (n + cs1.length) tpos c oa (.lit 0) (newLabel m 0).2 va vb
          (hop ts1 (TmpEq.refl _ _)) (by intro hc; rw [hu] at hc; cases hc) hl
        simp only [branchOps, hu, if_true] at hex
        have hstep : step p (ts1, n + cs1.length) =
            some (ts1, if condHolds c va vb then n + cs1.length + 1 else tpos + 1) := by
          rw [step_instr ts1 hbr]; exact hex
        unfold Runs at hrun
        refine Steps.trans hrun (Steps.one ?_)
        rw [hstep]
        by_cases hc : condHolds c va vb
        · simp [hc, (condB_iff c va vb).mpr hc]; omega
        · have : condB c va vb = false := by
            cases hb : condB c va vb with
            | false => rfl
            | true => exact absurd ((condB_iff c va vb).mp hb) hc
          simp [hc, this]
  · rename_i hu
    have hu' : c.unary = false := by cases hcu : c.unary <;> simp_all
    split at h
    · cases h
    · rename_i m1 ca oa ta h1
      split at h
      · cases h
      · rename_i m2 cb ob tb h2
        split at h
        · cases h
        · rename_i m3 h3
          split at h
          · cases h
          · rename_i m4 h4
            cases h
            have hplA : Placed p n ca := hpl.left.left
            have hplB : Placed p (n + ca.length) cb := hpl.left.right
            obtain ⟨ts1, hte1, hrun1, hop1⟩ := condOperand_sim h1 hext hrel hsub hlen hplA hva
            have t1 : Took m m1 ta := (condOperand_took h1 : Took (newLabel m 0).1 m1 ta)
            have sm1 := condOperand_same h1
            have hsub1 : Sub m.active m1.active := by
              cases ta with
              | none => have e : m1.active = m.active := t1; rw [e]; exact Sub.refl _
              | some t => rw [t1.2]; exact Sub.set _ _
            have hlen1 : m1.active.length = m.active.length := by
              cases ta with
              | none => have e : m1.active = m.active := t1; rw [e]
              | some t => rw [t1.2]; simp
            have hrel1 : Rel H L act mu hs ts1 := hrel.tmp (hte1.to_act hsub hlen)
            obtain ⟨ts2, hte2, hrun2, hop2⟩ := condOperand_sim h2 (by rw [sm1.handles]; exact hext) hrel1
              (hsub.trans hsub1) (by rw [hlen1]; exact hlen) hplB (hvb hu')
            have hte2' : TmpEq m.active ts1 ts2 := hte2.mono (fun _ hx => hx.sub hsub1 hlen1)
            refine ⟨ts2, hte1.trans hte2', ?_⟩
            have hbr := hpl.right.head
            have hex := branch_taken_iff p ts2 (n + (ca ++ cb).length) tpos c oa ob (newLabel m 0).2 va vb
              (hop1 ts2 hte2) (fun _ => hop2 ts2 (TmpEq.refl _ _)) hl
            simp only [branchOps, hu', Bool.false_eq_true, if_false] at hex
            have hstep : step p (ts2, n + (ca ++ cb).length) =
                some (ts2, if condHolds c va vb then n + (ca ++ cb).length + 1 else tpos + 1) := by
              rw [step_instr ts2 hbr]; exact hex
            unfold Runs at hrun1 hrun2
            have e12 : n + ca.length + cb.length = n + (ca ++ cb).length := by simp; omega
            rw [e12] at hrun2
            refine Steps.trans hrun1 (Steps.trans hrun2 (Steps.one ?_))
            rw [hstep]
            by_cases hc : condHolds c va vb
            · simp [hc, (condB_iff c va vb).mpr hc]; omega
            · have : condB c va vb = false := by
                cases hb : condB c va vb with
                | false => rfl
                | true => exact absurd ((condB_iff c va vb).mp hb) hc
              simp [hc, this]


end NQ.Sdk
