/-
Compiler correctness of the SDK builder model (C05), part 2: the code of the leaf operations
(array-entry access incl. future-indexed futures, condition operands and branches, `add`, measurement).
-/
import NetqasmVerif.Lemmas.SdkSim
set_option linter.unusedSimpArgs false
set_option linter.unusedVariables false
namespace NQ.Sdk

/-- arithmetic on code lengths -/
macro "len_omega" : tactic =>
  `(tactic| first | omega | (simp only [List.length_append, List.length_cons, List.length_nil] <;> omega))

/-! ## instruction helpers -/

theorem runs_seq' {p : List PCmd} {n n2 l1 l2 : Nat} {s s1 s2 : St}
    (h1 : Runs p n l1 s s1) (h2 : Runs p n2 l2 s1 s2) (e : n2 = n + l1) : Runs p n (l1 + l2) s s2 := by
  subst e; exact runs_seq h1 h2


theorem idxOf_some {v : Int} {i : Nat} (h : idxOf v = some i) : 0 ≤ v ∧ i = v.toNat := by
  unfold idxOf at h
  split at h
  · rename_i h0; cases h; exact ⟨h0, rfl⟩
  · cases h

theorem entryLoc_L (s : St) (a i : Nat) : entryLoc s (.entryL a i) = some (a, i) := rfl

theorem entryLoc_R {s : St} {a : Nat} {ir : Reg} {x : Int} {i : Nat} (hr : s.regs ir = some x)
    (hx : idxOf x = some i) : entryLoc s (.entryR a ir) = some (a, i) := by
  obtain ⟨h0, rfl⟩ := idxOf_some hx
  simp [entryLoc, hr, h0]

theorem readEntry_of {s : St} {e : POp} {a i : Nat} {v : Int} (he : entryLoc s e = some (a, i))
    (hv : readCell s.arrs a i = some v) : readEntry s e = some v := by
  unfold readCell at hv
  unfold readEntry
  rw [he]
  simp only
  split at hv
  · rename_i l hl
    rw [hl]; simp only
    split at hv
    · rename_i v' hv'; cases hv; rw [hv']
    · cases hv
  · cases hv

theorem exec_load {p : List PCmd} {s : St} {n : Nat} {r : Reg} {e : POp} {a i : Nat} {v : Int}
    (he : entryLoc s e = some (a, i)) (hv : readCell s.arrs a i = some v) :
    exec p s n .load [.reg r, e] = some (s.setReg r v, n + 1) := by
  simp [exec, readEntry_of he hv]

theorem exec_store {p : List PCmd} {s : St} {n : Nat} {src : POp} {e : POp} {a i : Nat} {v : Int}
    {l : List (Option Int)} (hs : opVal s src = some v) (he : entryLoc s e = some (a, i))
    (ha : s.arrs a = some l) (hi : i < l.length) :
    exec p s n .store [src, e] = some (s.setArr a (l.set i (some v)), n + 1) := by
  simp [exec, hs, writeEntry, he, ha, hi]

/-- table lookups survive extension of the handle table -/
def Ext (h H : List (Reg × Bool)) : Prop := ∀ (k : Nat) (v : Reg × Bool), h[k]? = some v → H[k]? = some v

theorem Ext.refl (h : List (Reg × Bool)) : Ext h h := fun _ _ x => x
theorem Ext.trans {a b c : List (Reg × Bool)} (h1 : Ext a b) (h2 : Ext b c) : Ext a c :=
  fun k v x => h2 k v (h1 k v x)
theorem Ext.of_append {a t H : List (Reg × Bool)} (h : Ext (a ++ t) H) : Ext a H :=
  fun k v x => h k v (prefix_get x)
theorem Ext.append (a t : List (Reg × Bool)) : Ext a (a ++ t) := fun k v x => prefix_get x

theorem handle_get {m : Mem} {h : Nat} {x : Reg × Bool} (hh : handle m h = .ok x) : m.handles[h]? = some x := by
  unfold handle at hh
  split at hh
  · rename_i y hy; cases hh; exact hy
  · cases hh

/-! ## array entries: `Future._get_access_commands` -/

theorem access_sim : ∀ (f : Fut) (m : Mem) (st : Bool) (r : Reg) (m' : Mem) (cs : List PCmd),
    accessCmds m st r f = .ok (m', cs) →
    ∀ (H : List (Reg × Bool)) (L MH : List Nat) (act mu : List Bool) (hs : HSt) (ts : St) (p : List PCmd) (n : Nat),
    Ext m.handles H → Rel H L MH act mu hs ts → Sub act m.active → m.active.length = act.length →
    Placed p n cs → ∀ a i, evalFut hs f = some (a, i) →
    (st = false → ∀ v, readCell hs.arrs a i = some v →
      ∃ ts1, TmpEq m.active ts ts1 ∧ Runs p n cs.length ts (ts1.setReg r v)) ∧
    (st = true → ∀ v l, ts.regs r = some v → ¬ TmpIn m.active r → hs.arrs a = some l → i < l.length →
      ∃ ts1, TmpEq m.active ts ts1 ∧ Runs p n cs.length ts (ts1.setArr a (l.set i (some v))))
  | .lit a0 i0, m, st, r, m', cs, h => by
    intro H L MH act mu hs ts p n hext hrel hsub hlen hpl a i hev
    simp [accessCmds] at h
    obtain ⟨_, rfl⟩ := h
    simp [evalFut] at hev
    obtain ⟨rfl, rfl⟩ := hev
    constructor
    · intro hst v hv
      subst hst
      refine ⟨ts, TmpEq.refl _ _, ?_⟩
      exact runs_instr hpl.head (exec_load (entryLoc_L _ _ _) (by rw [hrel.arrs]; exact hv))
    · intro hst v l hr _ ha hi
      subst hst
      refine ⟨ts, TmpEq.refl _ _, ?_⟩
      exact runs_instr hpl.head (exec_store (by simpa using hr) (entryLoc_L _ _ _)
        (by rw [hrel.arrs]; exact ha) hi)
  | .reg a0 hh, m, st, r, m', cs, h => by
    intro H L MH act mu hs ts p n hext hrel hsub hlen hpl a i hev
    unfold accessCmds at h
    split at h
    · cases h
    · rename_i ir b hh1
      cases h
      simp only [evalFut] at hev
      split at hev
      · rename_i x hx
        split at hev
        · rename_i i' hi'
          cases hev
          have hval := (hrel.reg_val hx (hext _ _ (handle_get hh1))).1
          constructor
          · intro hst v hv
            subst hst
            refine ⟨ts, TmpEq.refl _ _, ?_⟩
            exact runs_instr hpl.head (exec_load (entryLoc_R hval hi') (by rw [hrel.arrs]; exact hv))
          · intro hst v l hr _ ha hi
            subst hst
            refine ⟨ts, TmpEq.refl _ _, ?_⟩
            exact runs_instr hpl.head (exec_store (by simpa using hr) (entryLoc_R hval hi')
              (by rw [hrel.arrs]; exact ha) hi)
        · cases hev
      · cases hev
  | .fut a0 f, m, st, r, m', cs, h => by
    intro H L MH act mu hs ts p n hext hrel hsub hlen hpl a i hev
    unfold accessCmds at h
    split at h
    · cases h
    · rename_i t ht
      split at h
      · cases h
      · rename_i m1 h1
        split at h
        · cases h
        · rename_i m2 cs2 h2
          split at h
          · cases h
          · rename_i m3 h3
            cases h
            have a1 := activate_spec h1
            have htmp : TmpIn m.active (R t) := ⟨rfl, a1.1⟩
            simp only [evalFut] at hev
            split at hev
            · rename_i b j hbj
              split at hev
              · rename_i vi hvi
                split at hev
                · rename_i i' hi'
                  cases hev
                  have ih := (access_sim f m1 false (R t) m2 cs2 h2 H L MH act mu hs ts p n
                    (by rw [a1.2.2.2.2.2.2.2]; exact hext) hrel
                    (by rw [a1.2.1]; exact hsub.trans (Sub.set _ _))
                    (by rw [a1.2.1]; simpa using hlen) hpl.left b j hbj).1 rfl vi hvi
                  obtain ⟨ts1, hte, hrun⟩ := ih
                  rw [a1.2.1] at hte
                  have hte2 : TmpEq m.active ts (ts1.setReg (R t) vi) := (hte.of_set).setReg htmp vi
                  have hpc := hpl.right.head
                  constructor
                  · intro hst v hv
                    subst hst
                    refine ⟨ts1.setReg (R t) vi, hte2, ?_⟩
                    have hlast : Runs p (n + cs2.length) 1 (ts1.setReg (R t) vi)
                        ((ts1.setReg (R t) vi).setReg r v) :=
                      runs_instr hpc (exec_load (entryLoc_R (by simp) hi')
                        (by simp [hte.arrs, hrel.arrs]; exact hv))
                    have := runs_seq hrun hlast
                    simpa using this
                  · intro hst v l hr hnt ha hi
                    subst hst
                    refine ⟨ts1.setReg (R t) vi, hte2, ?_⟩
                    have hne : r ≠ R t := by intro e; subst e; exact hnt htmp
                    have hrv : (ts1.setReg (R t) vi).regs r = some v := by
                      rw [St.setReg_regs_ne _ _ hne, hte.of_set.regs r hnt]; exact hr
                    have hlast : Runs p (n + cs2.length) 1 (ts1.setReg (R t) vi)
                        ((ts1.setReg (R t) vi).setArr a0 (l.set i (some v))) :=
                      runs_instr hpc (exec_store (by rw [opVal_reg]; exact hrv) (entryLoc_R (by simp) hi')
                        (by simp [hte.arrs, hrel.arrs]; exact ha) hi)
                    have := runs_seq hrun hlast
                    simpa using this
                · cases hev
              · cases hev
            · cases hev

/-- loading the value of a Future into a register -/
theorem load_fut_sim {f : Fut} {m m' : Mem} {r : Reg} {cs : List PCmd}
    (h : accessCmds m false r f = .ok (m', cs))
    {H : List (Reg × Bool)} {L MH : List Nat} {act mu : List Bool} {hs : HSt} {ts : St} {p : List PCmd} {n : Nat}
    (hext : Ext m.handles H) (hrel : Rel H L MH act mu hs ts) (hsub : Sub act m.active)
    (hlen : m.active.length = act.length) (hpl : Placed p n cs) {v : Int} (hv : readFut hs f = some v) :
    ∃ ts1, TmpEq m.active ts ts1 ∧ Runs p n cs.length ts (ts1.setReg r v) := by
  unfold readFut at hv
  split at hv
  · rename_i a i hai
    exact (access_sim f m false r m' cs h H L MH act mu hs ts p n hext hrel hsub hlen hpl a i hai).1 rfl v hv
  · cases hv

theorem TmpEq.to_act {act a : List Bool} {s1 s2 : St} (h : TmpEq a s1 s2) (hs : Sub act a)
    (hl : a.length = act.length) : TmpEq act s1 s2 :=
  h.mono (fun _ hx => hx.sub hs hl)

theorem addressEntry_loc {m : Mem} {f : Fut} {ent : POp} (h : addressEntry m f = .ok ent)
    {H : List (Reg × Bool)} {L MH : List Nat} {act mu : List Bool} {hs : HSt} {ts : St}
    (hext : Ext m.handles H) (hrel : Rel H L MH act mu hs ts) {a i : Nat} (hev : evalFut hs f = some (a, i)) :
    entryLoc ts ent = some (a, i) := by
  cases f with
  | lit a0 i0 =>
    simp [addressEntry] at h; subst h
    simp [evalFut] at hev; obtain ⟨rfl, rfl⟩ := hev; rfl
  | reg a0 hh =>
    simp only [addressEntry] at h
    split at h
    · cases h
    · rename_i ir b hh1
      cases h
      simp only [evalFut] at hev
      split at hev
      · rename_i x hx
        split at hev
        · rename_i i' hi'
          cases hev
          exact entryLoc_R (hrel.reg_val hx (hext _ _ (handle_get hh1))).1 hi'
        · cases hev
      · cases hev
  | fut a0 f => simp [addressEntry] at h

/-- `_get_condition_operand`: after its commands the operand evaluates to the host value, and keeps
doing so whatever later temporaries are loaded -/
theorem condOperand_sim {m m1 : Mem} {v : Val} {cs : List PCmd} {o : POp} {t : Option Nat}
    (h : condOperand m v = .ok (m1, cs, o, t))
    {H : List (Reg × Bool)} {L MH : List Nat} {act mu : List Bool} {hs : HSt} {ts : St} {p : List PCmd} {n : Nat}
    (hext : Ext m.handles H) (hrel : Rel H L MH act mu hs ts) (hsub : Sub act m.active)
    (hlen : m.active.length = act.length) (hpl : Placed p n cs) {x : Int} (hv : evalVal hs v = some x) :
    ∃ ts1, TmpEq m.active ts ts1 ∧ Runs p n cs.length ts ts1 ∧
      ∀ ts2, TmpEq m1.active ts1 ts2 → opVal ts2 o = some x := by
  cases v with
  | lit y =>
    simp [condOperand] at h
    obtain ⟨rfl, rfl, rfl, rfl⟩ := h
    simp [evalVal] at hv; subst hv
    exact ⟨ts, TmpEq.refl _ _, Runs.refl _ _ _, fun _ _ => rfl⟩
  | reg hh =>
    simp only [condOperand] at h
    split at h
    · cases h
    · rename_i r isRF hh1
      split at h
      · cases h
        simp [evalVal] at hv
        have hr := hrel.reg_val hv (hext _ _ (handle_get hh1))
        refine ⟨ts, TmpEq.refl _ _, Runs.refl _ _ _, ?_⟩
        intro ts2 h2
        rw [opVal_reg, h2.regs r (fun hc => hr.2.not_tmp (hc.sub hsub hlen))]
        exact hr.1
      · cases h
  | fut f =>
    simp only [condOperand] at h
    split at h
    · cases h
    · rename_i m' t' h1
      split at h
      · cases h
      · rename_i ent hent
        cases h
        have s1 := takeReg_spec h1
        have htmp : TmpIn m.active (R t') := ⟨rfl, s1.1⟩
        simp only [evalVal, readFut] at hv
        split at hv
        · rename_i a i hai
          have hloc := addressEntry_loc hent (by rw [s1.2.2.1]; exact hext) hrel hai
          refine ⟨ts.setReg (R t') x, (TmpEq.refl _ ts).setReg htmp x, ?_, ?_⟩
          · exact runs_instr hpl.head (exec_load hloc (by rw [hrel.arrs]; exact hv))
          · intro ts2 h2
            rw [opVal_reg, h2.regs (R t') ?_]
            · simp
            · intro hc
              rw [s1.2.1] at hc
              have := hc.2
              have e : (R t').idx = t' := rfl
              rw [e, getD_set_self (getD_true_false_lt s1.1)] at this
              cases this
        · cases hv

theorem condB_iff (c : Cond) (a b : Int) : condB c a b = true ↔ condHolds c a b := by
  cases c <;> simp [condB, condHolds]

/-- the code in front of an `if` body (`_get_branch_commands*`): loads, then the negated branch -/
theorem branch_sim {m m' : Mem} {c : Cond} {a b : Val} {st : List PCmd} {l : Lbl}
    (h : branchCmds m c a b = .ok (m', st, l))
    {H : List (Reg × Bool)} {L MH : List Nat} {act mu : List Bool} {hs : HSt} {ts : St} {p : List PCmd} {n tpos : Nat}
    (hext : Ext m.handles H) (hrel : Rel H L MH act mu hs ts) (hsub : Sub act m.active)
    (hlen : m.active.length = act.length) (hpl : Placed p n st) (hl : findLabel p l = some tpos)
    {va vb : Int} (hva : evalVal hs a = some va) (hvb : c.unary = false → evalVal hs b = some vb) :
    ∃ ts1, TmpEq m.active ts ts1 ∧
      Steps p (ts, n) (ts1, if condB c va vb then n + st.length else tpos + 1) := by
  unfold branchCmds at h
  simp only at h
  split at h
  · rename_i hu
    split at h
    · cases h
    · rename_i m1 cs1 oa ta h1
      split at h
      · cases h
      · rename_i m2 h2
        cases h
        obtain ⟨ts1, hte, hrun, hop⟩ := condOperand_sim h1 hext hrel hsub hlen hpl.left hva
        refine ⟨ts1, hte, ?_⟩
        have hbr := hpl.right.head
        have hex := branch_taken_iff p ts1 (n + cs1.length) tpos c oa (.lit 0) (newLabel m 0).2 va vb
          (hop ts1 (TmpEq.refl _ _)) (by intro hc; rw [hu] at hc; cases hc) hl
        simp only [branchOps, hu, if_true] at hex
        have hstep : step p (ts1, n + cs1.length) =
            some (ts1, if condHolds c va vb then n + cs1.length + 1 else tpos + 1) := by
          rw [step_instr ts1 hbr]; exact hex
        unfold Runs at hrun
        refine Steps.trans hrun (Steps.one ?_)
        rw [hstep]
        by_cases hc : condHolds c va vb
        · simp [hc, (condB_iff c va vb).mpr hc]; omega
        · have : condB c va vb = false := by
            cases hb : condB c va vb with
            | false => rfl
            | true => exact absurd ((condB_iff c va vb).mp hb) hc
          simp [hc, this]
  · rename_i hu
    have hu' : c.unary = false := by cases hcu : c.unary <;> simp_all
    split at h
    · cases h
    · rename_i m1 ca oa ta h1
      split at h
      · cases h
      · rename_i m2 cb ob tb h2
        split at h
        · cases h
        · rename_i m3 h3
          split at h
          · cases h
          · rename_i m4 h4
            cases h
            have hplA : Placed p n ca := hpl.left.left
            have hplB : Placed p (n + ca.length) cb := hpl.left.right
            obtain ⟨ts1, hte1, hrun1, hop1⟩ := condOperand_sim h1 hext hrel hsub hlen hplA hva
            have t1 : Took m m1 ta := (condOperand_took h1 : Took (newLabel m 0).1 m1 ta)
            have sm1 := condOperand_same h1
            have hsub1 : Sub m.active m1.active := by
              cases ta with
              | none => have e : m1.active = m.active := t1; rw [e]; exact Sub.refl _
              | some t => rw [t1.2]; exact Sub.set _ _
            have hlen1 : m1.active.length = m.active.length := by
              cases ta with
              | none => have e : m1.active = m.active := t1; rw [e]
              | some t => rw [t1.2]; simp
            have hrel1 : Rel H L MH act mu hs ts1 := hrel.tmp (hte1.to_act hsub hlen)
            obtain ⟨ts2, hte2, hrun2, hop2⟩ := condOperand_sim h2 (by rw [sm1.handles]; exact hext) hrel1
              (hsub.trans hsub1) (by rw [hlen1]; exact hlen) hplB (hvb hu')
            have hte2' : TmpEq m.active ts1 ts2 := hte2.mono (fun _ hx => hx.sub hsub1 hlen1)
            refine ⟨ts2, hte1.trans hte2', ?_⟩
            have hbr := hpl.right.head
            have hex := branch_taken_iff p ts2 (n + (ca ++ cb).length) tpos c oa ob (newLabel m 0).2 va vb
              (hop1 ts2 hte2) (fun _ => hop2 ts2 (TmpEq.refl _ _)) hl
            simp only [branchOps, hu', Bool.false_eq_true, if_false] at hex
            have hstep : step p (ts2, n + (ca ++ cb).length) =
                some (ts2, if condHolds c va vb then n + (ca ++ cb).length + 1 else tpos + 1) := by
              rw [step_instr ts2 hbr]; exact hex
            unfold Runs at hrun1 hrun2
            have e12 : n + ca.length + cb.length = n + (ca ++ cb).length := by simp; omega
            rw [e12] at hrun2
            refine Steps.trans hrun1 (Steps.trans hrun2 (Steps.one ?_))
            rw [hstep]
            by_cases hc : condHolds c va vb
            · simp [hc, (condB_iff c va vb).mpr hc]; omega
            · have : condB c va vb = false := by
                cases hb : condB c va vb with
                | false => rfl
                | true => exact absurd ((condB_iff c va vb).mp hb) hc
              simp [hc, this]


/-! ## `add` -/

theorem addOther_sim {m m1 : Mem} {v : Val} {cs : List PCmd} {o : POp} {t : Option Nat}
    (h : addOther m v = .ok (m1, cs, o, t))
    {H : List (Reg × Bool)} {L MH : List Nat} {act mu : List Bool} {hs : HSt} {ts : St} {p : List PCmd} {n : Nat}
    (hext : Ext m.handles H) (hrel : Rel H L MH act mu hs ts) (hsub : Sub act m.active)
    (hlen : m.active.length = act.length) (hpl : Placed p n cs) {x : Int} (hv : evalVal hs v = some x) :
    ∃ ts1, TmpEq m.active ts ts1 ∧ Runs p n cs.length ts ts1 ∧
      ∀ ts2, TmpEq m1.active ts1 ts2 → opVal ts2 o = some x := by
  cases v with
  | lit y =>
    simp [addOther] at h
    obtain ⟨rfl, rfl, rfl, rfl⟩ := h
    simp [evalVal] at hv; subst hv
    exact ⟨ts, TmpEq.refl _ _, Runs.refl _ _ _, fun _ _ => rfl⟩
  | reg hh =>
    simp only [addOther] at h
    split at h
    · cases h
    · rename_i r isRF hh1
      split at h
      · cases h
      · cases h
        simp [evalVal] at hv
        have hr := hrel.reg_val hv (hext _ _ (handle_get hh1))
        refine ⟨ts, TmpEq.refl _ _, Runs.refl _ _ _, ?_⟩
        intro ts2 h2
        rw [opVal_reg, h2.regs r (fun hc => hr.2.not_tmp (hc.sub hsub hlen))]
        exact hr.1
  | fut g =>
    simp only [addOther] at h
    split at h
    · cases h
    · rename_i m' u h1
      split at h
      · cases h
      · rename_i m2 ld h2
        cases h
        have s1 := takeReg_spec h1
        have htmp : TmpIn m.active (R u) := ⟨rfl, s1.1⟩
        simp only [evalVal] at hv
        obtain ⟨tsA, hte, hrun⟩ := load_fut_sim h2 (by rw [s1.2.2.1]; exact hext) hrel
          (by rw [s1.2.1]; exact hsub.trans (Sub.set _ _)) (by rw [s1.2.1]; simpa using hlen) hpl hv
        rw [s1.2.1] at hte
        refine ⟨tsA.setReg (R u) x, hte.of_set.setReg htmp x, hrun, ?_⟩
        intro ts2 h2'
        rw [accessCmds_active _ _ _ _ _ _ h2, s1.2.1] at h2'
        rw [opVal_reg, h2'.regs (R u) ?_]
        · simp
        · intro hc
          have := hc.2
          have e : (R u).idx = u := rfl
          rw [e, getD_set_self (getD_true_false_lt s1.1)] at this
          cases this

theorem addResH_some {x y r : Int} {md : Option Int} (h : addResH x y md = some r) :
    (∀ m, md = some m → 1 ≤ m) ∧ addRes x y md = r := by
  cases md with
  | none =>
    simp [addResH] at h
    exact ⟨fun _ hm => (by cases hm), (by simp [addRes, h])⟩
  | some m =>
    simp only [addResH] at h
    split at h
    · cases h
    · rename_i hm
      cases h
      exact ⟨fun m' hm' => by cases hm'; omega, rfl⟩

theorem readCell_some {arrs : Nat → Option (List (Option Int))} {a i : Nat} {v : Int}
    (h : readCell arrs a i = some v) : ∃ l, arrs a = some l ∧ i < l.length ∧ l[i]? = some (some v) := by
  unfold readCell at h
  split at h
  · rename_i l hl
    split at h
    · rename_i v' hv'
      cases h
      refine ⟨l, hl, ?_, hv'⟩
      by_cases hi : i < l.length
      · exact hi
      · simp [List.getElem?_eq_none (Nat.le_of_not_lt hi)] at hv'
    · cases h
  · cases h

theorem not_tmp_of_set_self {a : List Bool} {t : Nat} (ht : a.getD t true = false) :
    ¬ TmpIn (a.set t true) (R t) := by
  intro hc
  have := hc.2
  have e : (R t).idx = t := rfl
  rw [e, getD_set_self (getD_true_false_lt ht)] at this
  cases this

/-- `Future.add(other, mod)` -/
theorem addF_sim {m m' : Mem} {f : Fut} {o : Val} {md : Option Int} {cs : List PCmd}
    (h : emitAddF m f o md = .ok (m', cs))
    {H : List (Reg × Bool)} {L MH : List Nat} {mu : List Bool} {hs hs' : HSt} {ts : St} {p : List PCmd} {n : Nat}
    (hext : Ext m.handles H) (hrel : Rel H L MH m.active mu hs ts) (hpl : Placed p n cs)
    {a i : Nat} {x y r : Int} (hev : evalFut hs f = some (a, i)) (hx : readCell hs.arrs a i = some x)
    (hy : evalVal hs o = some y) (hr : addResH x y md = some r) (hw : writeCell hs a i r = some hs') :
    ∃ ts', Runs p n cs.length ts ts' ∧ Rel H L MH m.active mu hs' ts' := by
  unfold emitAddF at h
  split at h
  · cases h
  · rename_i m1 t h1
    split at h
    · cases h
    · rename_i m2 ld h2
      split at h
      · cases h
      · rename_i m3 st h3
        split at h
        · cases h
        · rename_i m4 ld2 oo tmp2 h4
          split at h
          · cases h
          · rename_i m5 h5
            split at h
            · cases h
            · rename_i m6 h6
              cases h
              have s1 := takeReg_spec h1
              have htmp : TmpIn m.active (R t) := ⟨rfl, s1.1⟩
              have a2 := accessCmds_active _ _ _ _ _ _ h2
              have a3 := accessCmds_active _ _ _ _ _ _ h3
              have sm2 := accessCmds_same _ _ _ _ _ _ h2
              have sm3 := accessCmds_same _ _ _ _ _ _ h3
              have e2 : m2.active = m.active.set t true := by rw [a2, s1.2.1]
              have e3 : m3.active = m.active.set t true := by rw [a3, e2]
              have hsub1 : Sub m.active (m.active.set t true) := Sub.set _ _
              have hl1 : (m.active.set t true).length = m.active.length := by simp
              have hnt := not_tmp_of_set_self s1.1
              obtain ⟨rres, hres⟩ := addResH_some hr
              obtain ⟨l, hl, hil, _⟩ := readCell_some hx
              -- 1. load self
              have hplLd : Placed p n ld := hpl.left.left.left
              obtain ⟨tsA, hteA, hrunA⟩ := (access_sim f m1 false (R t) m2 ld h2 H L MH m.active mu hs ts p n
                (by rw [s1.2.2.1]; exact hext) hrel (by rw [s1.2.1]; exact hsub1) (by rw [s1.2.1]; exact hl1)
                hplLd a i hev).1 rfl x hx
              rw [s1.2.1] at hteA
              have hte1 : TmpEq m.active ts (tsA.setReg (R t) x) := hteA.of_set.setReg htmp x
              have hrel1 := hrel.tmp hte1
              -- 2. other operand
              have hplLd2 : Placed p (n + ld.length) ld2 := hpl.left.left.right
              obtain ⟨ts2, hte2, hrun2, hop2⟩ := addOther_sim h4
                (by rw [sm3.handles, sm2.handles, s1.2.2.1]; exact hext) hrel1
                (by rw [e3]; exact hsub1) (by rw [e3]; exact hl1) hplLd2 hy
              rw [e3] at hte2
              have hreg2 : ts2.regs (R t) = some x := by
                rw [hte2.regs (R t) hnt]; simp
              -- 3. add
              have hplAdd := hpl.left.right.head
              have hstep := step_addInstr ts2 (R t) oo md x y hplAdd hreg2 (hop2 ts2 (TmpEq.refl _ _)) rres
              rw [hres] at hstep
              have hte3 : TmpEq m.active ts ((ts2.setReg (R t) r)) :=
                (hte1.trans hte2.of_set).setReg htmp r
              have hrel3 := hrel.tmp hte3
              -- 4. store self
              have hplSt := hpl.right
              obtain ⟨tsD, hteD, hrunD⟩ := (access_sim f m2 true (R t) m3 st h3 H L MH m.active mu hs
                (ts2.setReg (R t) r) p _
                (by rw [sm2.handles, s1.2.2.1]; exact hext) hrel3 (by rw [e2]; exact hsub1) (by rw [e2]; exact hl1)
                hplSt a i hev).2 rfl r l (by simp) (by rw [e2]; exact hnt) hl hil
              rw [e2] at hteD
              have hrelD := hrel3.tmp hteD.of_set
              have hw' : hs' = hs.setArr a (l.set i (some r)) := by
                unfold writeCell at hw
                rw [hl] at hw
                simp [hil] at hw
                exact hw.symm
              refine ⟨tsD.setArr a (l.set i (some r)), ?_, ?_⟩
              · have r12 := runs_seq hrunA hrun2
                have r3 : Runs p (n + (ld ++ ld2).length) 1 ts2 (ts2.setReg (R t) r) := runs_one hstep
                have r123 := runs_seq' r12 r3 (by len_omega)
                have r4 := runs_seq' r123 hrunD (by len_omega)
                exact runs_cast r4 (by len_omega)
              · rw [hw']
                exact hrelD.setArr hl (by simp)

/-- `RegFuture.add(other, mod)` -/
theorem addR_sim {m m' : Mem} {hh : Nat} {o : Val} {md : Option Int} {cs : List PCmd}
    (h : emitAddR m hh o md = .ok (m', cs))
    {H : List (Reg × Bool)} {L MH : List Nat} {mu : List Bool} {hs : HSt} {ts : St} {p : List PCmd} {n : Nat}
    (hext : Ext m.handles H) (hrel : Rel H L MH m.active mu hs ts) (hpl : Placed p n cs)
    {x y r : Int} (hx : hs.hregs hh = some x) (hy : evalVal hs o = some y) (hr : addResH x y md = some r) :
    ∃ ts', Runs p n cs.length ts ts' ∧ Rel H L MH m.active mu (hs.setH hh r) ts' := by
  unfold emitAddR at h
  split at h
  · cases h
  · rename_i rg isRF hh1
    split at h
    · cases h
    · split at h
      · cases h
      · rename_i m1 ld2 oo tmp2 h1
        split at h
        · cases h
        · rename_i m2 h2
          cases h
          obtain ⟨rres, hres⟩ := addResH_some hr
          have hH := hext _ _ (handle_get hh1)
          have hrv := hrel.reg_val hx hH
          obtain ⟨ts1, hte1, hrun1, hop1⟩ := addOther_sim h1 hext hrel (Sub.refl _) rfl hpl.left hy
          have hreg : ts1.regs rg = some x := by
            rw [hte1.regs rg hrv.2.not_tmp]; exact hrv.1
          have hstep := step_addInstr ts1 rg oo md x y hpl.right.head hreg (hop1 ts1 (TmpEq.refl _ _)) rres
          rw [hres] at hstep
          refine ⟨ts1.setReg rg r, ?_, ?_⟩
          · have := runs_seq hrun1 (runs_one hstep)
            exact runs_cast this (by simp)
          · exact (hrel.tmp hte1).setBoth hx hH r


/-! ## measurement -/

/-- `ts'` differs from `ts` at most on Q0, on `M k`, on the trace and on the outcome oracle -/
structure QEq (k : Nat) (ts ts' : St) : Prop where
  arrs : ts'.arrs = ts.arrs
  shmR : ts'.shmRegs = ts.shmRegs
  shmA : ts'.shmArrs = ts.shmArrs
  regs : ∀ x, x ≠ Q0 → x ≠ M k → ts'.regs x = ts.regs x

theorem QEq.refl (k : Nat) (ts : St) : QEq k ts ts := ⟨rfl, rfl, rfl, fun _ _ _ => rfl⟩
theorem QEq.trans {k : Nat} {a b c : St} (h1 : QEq k a b) (h2 : QEq k b c) : QEq k a c :=
  ⟨h2.arrs.trans h1.arrs, h2.shmR.trans h1.shmR, h2.shmA.trans h1.shmA,
   fun x h h' => (h2.regs x h h').trans (h1.regs x h h')⟩

theorem QEq.setQ0 {k : Nat} {a b : St} (h : QEq k a b) (v : Int) : QEq k a (b.setReg Q0 v) :=
  ⟨h.arrs, h.shmR, h.shmA, fun x hx hx' => by rw [St.setReg_regs_ne _ _ hx]; exact h.regs x hx hx'⟩

theorem QEq.emitEv {k : Nat} {a b : St} (h : QEq k a b) (e : Ev) : QEq k a (b.emitEv e) :=
  ⟨h.arrs, h.shmR, h.shmA, h.regs⟩

theorem gates_sim : ∀ (gs : List Nat) (k : Nat) (p : List PCmd) (n : Nat) (ts : St),
    Placed p n (gateCmds gs) →
    ∃ ts', Runs p n (gateCmds gs).length ts ts' ∧ QEq k ts ts' ∧ ts'.trace = ts.trace ++ gateEvs gs ∧
      ts'.outcomes = ts.outcomes
  | [], k, p, n, ts, _ => ⟨ts, Runs.refl _ _ _, QEq.refl _ _, by simp [gateEvs], rfl⟩
  | g :: gs, k, p, n, ts, hpl => by
    simp only [gateCmds] at hpl
    have h0 := hpl.left.head
    have h1 := hpl.left.tail.head
    have r0 : Runs p n 1 ts (ts.setReg Q0 0) := runs_instr h0 (by simp [exec])
    have r1 : Runs p (n + 1) 1 (ts.setReg Q0 0) ((ts.setReg Q0 0).emitEv (.gate g)) :=
      runs_instr h1 (by simp [exec])
    obtain ⟨ts', hr, hq, ht, ho⟩ := gates_sim gs k p (n + 2) ((ts.setReg Q0 0).emitEv (.gate g)) (by
      have := hpl.right; simpa using this)
    refine ⟨ts', ?_, (((QEq.refl k ts).setQ0 0).emitEv _).trans hq, ?_, ?_⟩
    · have r01 := runs_seq r0 r1
      have := runs_seq' r01 hr (by omega)
      exact runs_cast this (by simp [gateCmds]; omega)
    · rw [ht]; simp [St.emitEv, St.setReg, gateEvs]
    · rw [ho]; rfl

theorem evalFut_congr {s1 s2 : HSt} (hr : s1.hregs = s2.hregs) (ha : s1.arrs = s2.arrs) :
    ∀ f, evalFut s1 f = evalFut s2 f
  | .lit a i => rfl
  | .reg a h => by simp [evalFut, hr]
  | .fut a f => by simp [evalFut, evalFut_congr hr ha f, ha]

/-- the commands in front of the store of a measurement outcome -/
def qopHead (g : List Nat) (k : Nat) : List PCmd :=
  [PCmd.instr .set [.reg Q0, .lit 0], PCmd.instr .qalloc [.reg Q0], PCmd.instr .init [.reg Q0]]
    ++ gateCmds g ++ [PCmd.instr .set [.reg Q0, .lit 0], PCmd.instr .meas [.reg Q0, .reg (M k)],
      PCmd.instr .qfree [.reg Q0]]

/-- `Qubit(conn)`, gates, `measure(future=…)` / `measure()` -/
theorem qop_sim {m m' : Mem} {g : List Nat} {tgt : MTgt} {cs : List PCmd}
    (h : emitQop m g tgt = .ok (m', cs)) (htgt : tgt ≠ .newReg)
    {H : List (Reg × Bool)} {L MH : List Nat} {hs hs' : HSt} {ts : St} {p : List PCmd} {n : Nat}
    (hext : Ext m.handles H) (hrel : Rel H L MH m.active m.measUsed hs ts) (hpl : Placed p n cs)
    (hsem : ∃ a i,
      evalFut hs (match tgt with | .fut f => f | _ => .lit m.arrLens.length 0) = some (a, i) ∧
      writeCell { hs with trace := hs.trace ++ ([Ev.qalloc, Ev.init] ++ gateEvs g ++
          [Ev.meas (hs.outcomes.headD 0), Ev.qfree]), outcomes := hs.outcomes.tail } a i
        (hs.outcomes.headD 0) = some hs') :
    ∃ ts', Runs p n cs.length ts ts' ∧ Rel H L MH m.active m.measUsed hs' ts' := by
  obtain ⟨a, i, hev, hw⟩ := hsem
  -- common shape of the two targets
  have key : ∀ (m0 m1 m2 : Mem) (k : Nat) (f : Fut) (st : List PCmd),
      firstUnusedMeas m0 = .ok (m1, k) → m0.active = m.active → m0.measUsed = m.measUsed →
      m0.handles = m.handles →
      accessCmds m1 true (M k) f = .ok (m2, st) →
      evalFut hs f = some (a, i) →
      Placed p n (qopHead g k ++ st) →
      ∃ ts', Runs p n (qopHead g k ++ st).length ts ts' ∧ Rel H L MH m.active m.measUsed hs' ts' := by
    intro m0 m1 m2 k f st h1 hact hmu hhd h2 hevf hpl'
    unfold qopHead at hpl' ⊢
    obtain ⟨hk, hm1⟩ := firstUnusedMeas_spec h1
    subst hm1
    rw [hmu] at hk
    have hMk : ¬ Prot m.active m.measUsed (M k) := by
      intro hp
      rcases hp with hp | hp
      · simp [M] at hp
      · have hl := getD_true_false_lt hk
        have h2' := hp.2
        simp [M, List.getD, List.getElem?_eq_getElem hl] at h2' hk
        rw [h2'] at hk; cases hk
    have hQ0 : ∀ mu, ¬ Prot m.active mu Q0 := by
      intro mu hp; rcases hp with hp | hp <;> simp [Q0] at hp
    -- head: new qubit
    have pA := hpl'.left.left.left
    have pG := hpl'.left.left.right
    have pM := hpl'.left.right
    have pS := hpl'.right
    let o := hs.outcomes.headD 0
    have r0 : Runs p n 1 ts (ts.setReg Q0 0) := runs_instr pA.head (by simp [exec])
    have r1 : Runs p (n + 1) 1 (ts.setReg Q0 0) ((ts.setReg Q0 0).emitEv .qalloc) :=
      runs_instr pA.tail.head (by simp [exec])
    have r2 : Runs p (n + 1 + 1) 1 ((ts.setReg Q0 0).emitEv .qalloc)
        (((ts.setReg Q0 0).emitEv .qalloc).emitEv .init) :=
      runs_instr pA.tail.tail.head (by simp [exec])
    let tsA := ((ts.setReg Q0 0).emitEv .qalloc).emitEv .init
    obtain ⟨tsG, rG, qG, tG, oG⟩ := gates_sim g k p (n + 3) tsA (by simpa using pG)
    have m0' := pM.head
    have m1' := pM.tail.head
    have m2' := pM.tail.tail.head
    let base := n + (([PCmd.instr .set [.reg Q0, .lit 0], PCmd.instr .qalloc [.reg Q0],
        PCmd.instr .init [.reg Q0]] : List PCmd) ++ gateCmds g).length
    have r3 : Runs p base 1 tsG (tsG.setReg Q0 0) := runs_instr m0' (by simp [exec])
    let tsM : St := { ((tsG.setReg Q0 0).setReg (M k) o).emitEv (.meas o) with outcomes := tsG.outcomes.tail }
    have r4 : Runs p (base + 1) 1 (tsG.setReg Q0 0) tsM :=
      runs_instr m1' (by simp [exec, tsM, St.setReg, o, oG, tsA, St.emitEv, hrel.outs])
    have r5 : Runs p (base + 1 + 1) 1 tsM (tsM.emitEv .qfree) := runs_instr m2' (by simp [exec])
    let tsH := tsM.emitEv .qfree
    let hs1 : HSt := { hs with trace := hs.trace ++ ([Ev.qalloc, Ev.init] ++ gateEvs g ++ [Ev.meas o, Ev.qfree]),
                               outcomes := hs.outcomes.tail }
    have qH : QEq k ts tsH := by
      have q1 : QEq k ts tsA := (((QEq.refl k ts).setQ0 0).emitEv _).emitEv _
      have q2 : QEq k ts (tsG.setReg Q0 0) := (q1.trans qG).setQ0 0
      exact ⟨q2.arrs, q2.shmR, q2.shmA, fun x hx hx' => by
        show (((tsG.setReg Q0 0).setReg (M k) o)).regs x = ts.regs x
        rw [St.setReg_regs_ne _ _ hx']; exact q2.regs x hx hx'⟩
    have hrelH : Rel H L MH m.active m.measUsed hs1 tsH := by
      refine ⟨?_, ?_, ?_, ?_, hrel.inj, hrel.lens, hrel.mh⟩
      · show tsH.arrs = hs.arrs
        rw [qH.arrs]; exact hrel.arrs
      · show (((tsG.trace) ++ [Ev.meas o]) ++ [Ev.qfree]) = hs.trace ++ ([Ev.qalloc, Ev.init] ++ gateEvs g ++ [Ev.meas o, Ev.qfree])
        rw [tG]
        show ((((ts.trace ++ [Ev.qalloc]) ++ [Ev.init]) ++ gateEvs g) ++ [Ev.meas o]) ++ [Ev.qfree] = _
        rw [hrel.trace]
        simp [List.append_assoc]
      · show tsG.outcomes.tail = hs.outcomes.tail
        rw [oG]; simp [tsA, St.emitEv, St.setReg, hrel.outs]
      · intro hh v hv
        obtain ⟨r, b, e1, e2, e3⟩ := hrel.regs hh v hv
        refine ⟨r, b, e1, ?_, e3⟩
        rw [qH.regs r (fun e => hQ0 _ (e ▸ e3)) (fun e => hMk (e ▸ e3))]; exact e2
    have hMv : tsH.regs (M k) = some o := by
      show ((tsG.setReg Q0 0).setReg (M k) o).regs (M k) = some o
      simp
    obtain ⟨l, hl, hil⟩ : ∃ l, hs.arrs a = some l ∧ i < l.length := by
      unfold writeCell at hw
      split at hw
      · rename_i l hl
        split at hw
        · rename_i hil; exact ⟨l, hl, hil⟩
        · cases hw
      · cases hw
    have hev1 : evalFut hs1 f = some (a, i) := by
      rw [evalFut_congr (s1 := hs1) (s2 := hs) rfl rfl f]; exact hevf
    obtain ⟨tsD, hteD, hrunD⟩ := (access_sim f _ true (M k) m2 st h2 H L MH m.active m.measUsed hs1 tsH p _
      (by show Ext m0.handles H; rw [hhd]; exact hext) hrelH
      (by show Sub m.active m0.active; rw [hact]; exact Sub.refl _)
      (by show m0.active.length = m.active.length; rw [hact]) pS a i hev1).2 rfl o l hMv
      (by intro hc; have := hc.1; simp [M] at this) hl hil
    have hteD' : TmpEq m.active tsH tsD := by
      have : TmpEq m0.active tsH tsD := hteD
      rwa [hact] at this
    have hw' : hs' = hs1.setArr a (l.set i (some o)) := by
      unfold writeCell at hw
      have hl1 : ({ hs with trace := hs.trace ++ ([Ev.qalloc, Ev.init] ++ gateEvs g ++
          [Ev.meas (hs.outcomes.headD 0), Ev.qfree]), outcomes := hs.outcomes.tail } : HSt).arrs a = some l := hl
      rw [hl1] at hw
      simp only at hw
      rw [if_pos hil] at hw
      exact (Option.some.inj hw).symm
    refine ⟨tsD.setArr a (l.set i (some o)), ?_, ?_⟩
    · have r01 := runs_seq r0 r1
      have r012 := runs_seq' r01 r2 (by omega)
      have rG' := runs_seq' r012 rG (by omega)
      have r3' := runs_seq' rG' r3 (by simp [base]; omega)
      have r4' := runs_seq' r3' r4 (by simp [base]; omega)
      have r5' := runs_seq' r4' r5 (by simp [base]; omega)
      have r6 := runs_seq' r5' hrunD (by simp [base]; omega)
      exact runs_cast r6 (by simp; omega)
    · rw [hw']
      exact (hrelH.tmp hteD').setArr hl (by simp)
  unfold emitQop at h
  cases tgt with
  | newFut =>
    simp only at h
    split at h
    · cases h
    · rename_i m1 k h1
      split at h
      · cases h
      · rename_i m2 st h2
        cases h
        exact key _ m1 m2 k _ st h1 rfl rfl rfl h2 hev hpl
  | fut f =>
    simp only at h
    split at h
    · cases h
    · rename_i m1 k h1
      split at h
      · cases h
      · rename_i m2 st h2
        cases h
        exact key _ m1 m2 k _ st h1 rfl rfl rfl h2 hev hpl
  | newReg => exact absurd rfl htgt


end NQ.Sdk
