/-
Invariant preservation for the model's operations (instruction, subroutine, life cycle, environment).
-/
import NetqasmVerif.Lemmas.ExecInv
namespace NQ.Exec

/-- how one instruction can change the qubit bookkeeping (success or fault) -/
inductive QChange (l l' : Loc) : Prop
  | same (hu : l'.ap.unit = l.ap.unit) (hused : l'.used = l.used)
  | alloc (p : Nat) (hp : p < l.ap.unit.length) (hn : l.ap.unit[p]?.join = none)
      (hu : l'.ap.unit = l.ap.unit.set p (some (firstUnused l.used)))
      (hused : l'.used = sadd (firstUnused l.used) l.used)
  | free (p q : Nat) (hq : l.ap.unit[p]?.join = some q) (hu : l'.ap.unit = l.ap.unit.set p none)
      (hmem : q ∈ l.used) (hused : l'.used = srem q l.used)
  | freeBad (p q : Nat) (hq : l.ap.unit[p]?.join = some q) (hmem : q ∉ l.used)

theorem stepLoc_qchange (hw : Bool) (a : Nat) (i : Instr) (l : Loc) (pc : Int) :
    QChange l (stepLoc hw a i l pc).loc := by
  by_cases hi : i.isAlloc = true
  · cases i <;> simp [Instr.isAlloc] at hi
    · -- qalloc
      simp only [stepLoc]
      repeat' split
      all_goals first
        | exact .same rfl rfl
        | skip
      rename_i p hp _ hn
      exact .alloc p (pyIdx_lt hp) hn rfl rfl
    · -- qfree
      simp only [stepLoc]
      repeat' split
      all_goals first
        | exact .same rfl rfl
        | skip
      · rename_i p hp _ q hq hmem
        exact .free p q hq rfl hmem rfl
      · rename_i p hp _ q hq hmem
        exact .freeBad p q hq hmem
  · have hi' : i.isAlloc = false := by simpa using hi
    rcases h : stepLoc hw a i l pc with ⟨l', pc'⟩ | ⟨l', f⟩
    · have := (stepLoc_frame h).qubits hi'
      exact .same this.1 this.2
    · have hk : f ≠ .usedKey := by
        intro e; subst e
        cases i <;> simp only [stepLoc, Instr.isAlloc] at h hi'
        all_goals first
          | (have := (wr_fault h).2; cases this; done)
          | (cases hi'; done)
          | skip
        all_goals (try (unfold arith at h)); (try (unfold arithm at h))
        all_goals
          repeat' split at h
        all_goals first
          | (cases h; done)
          | (have := (wr_fault h).2; cases this; done)
          | (simp only [br_ok] at h; cases h; done)
      have := stepLoc_fault_atomic h hk
      exact .same (by rw [LRes.loc, this.1]) this.2

theorem unitOf_put (s : State) (a : Nat) (l : Loc) :
    unitOf (s.put a l) = upd (unitOf s) a (some l.ap.unit) := by
  funext b
  simp only [unitOf, State.put, upd]
  split <;> simp

theorem step_st_put {hw a i s pc ap} (h : s.apps a = some ap) :
    (step hw a i s pc).st = s.put a (stepLoc hw a i (s.loc ap) pc).loc := by
  rcases hl : stepLoc hw a i (s.loc ap) pc with ⟨l, pc'⟩ | ⟨l, f⟩
  · rw [step_ok_of_loc h hl]; rfl
  · rw [step_fault_of_loc h hl]; rfl

theorem step_st_none {hw a i s pc} (h : s.apps a = none) : (step hw a i s pc).st = s := by
  unfold step
  simp only [h]
  split <;> rfl

/-- every instruction preserves the invariant, whether it succeeds or faults -/
theorem inv_step (hw : Bool) (a : Nat) (i : Instr) (s : State) (pc : Int) (hI : Inv s) :
    Inv (step hw a i s pc).st := by
  rcases hap : s.apps a with _ | ap
  · rw [step_st_none hap]; exact hI
  · have hu : unitOf s a = some ap.unit := by simp [unitOf, hap]
    have hq := stepLoc_qchange hw a i (s.loc ap) pc
    rw [step_st_put hap]
    generalize (stepLoc hw a i (s.loc ap) pc).loc = l' at hq
    cases hq with
    | same h1 h2 =>
      refine inv_same hI ?_ (by simp [State.put, h2, State.loc]) rfl rfl
      rw [unitOf_put, h1]
      simp only [State.loc]
      rw [← hu, upd_eq_self]
    | alloc p hp hn h1 h2 =>
      refine inv_alloc hI hu hp hn (firstUnused_not_mem s.used) ?_ ?_ rfl rfl
      · rw [unitOf_put, h1]; rfl
      · intro x; simp [State.put, h2, State.loc, mem_sadd]
    | free p q hq h1 hm h2 =>
      refine inv_free hI hu hq ?_ ?_ rfl rfl
      · rw [unitOf_put, h1]; rfl
      · intro x; simp [State.put, h2, State.loc, mem_srem]
    | freeBad p q hq hm =>
      exfalso
      apply hm
      simp only [State.loc]
      exact (hI.used_iff q).2 (Or.inl ⟨a, p, by simp [phys, hu, physU]; exact hq⟩)

theorem inv_run (hw : Bool) (a : Nat) (prog : List Instr) (fuel : Nat) (s : State) (pc : Int)
    (hI : Inv s) : Inv (run hw a prog fuel s pc).s := by
  induction fuel generalizing s pc with
  | zero => rw [run_zero]; split <;> exact hI
  | succ n ih =>
    unfold run
    split
    · exact hI
    · split
      · exact hI
      · split
        · exact hI
        · rename_i i _
          have := inv_step hw a i s pc hI
          split
          · rename_i s' pc' hs
            rw [hs] at this
            exact ih s' pc' this
          · rename_i s' f hs
            rw [hs] at this
            exact this

theorem inv_init0 : Inv init0 := by
  constructor <;> simp [init0, phys, unitOf, physU]

theorem unitOf_upd_apps (s : State) (a : Nat) (o : Option App) (f g h k) :
    unitOf { s with apps := upd s.apps a o, used := f, reserved := g, registry := h, oracle := k } =
      upd (unitOf s) a (o.map (·.unit)) := by
  funext b
  simp only [unitOf, upd]
  split <;> simp

theorem inv_initApp' (s : State) (a n : Nat) (hI : Inv s) : Inv (initApp s a n).1 := by
  unfold initApp
  split
  · exact hI
  · rename_i ha
    refine inv_initApp (n := n) hI ha ?_ rfl rfl (by intro b; simp)
    funext b
    simp only [unitOf, upd, freshApp]
    split <;> simp

theorem inv_stopApp' (s : State) (a : Nat) (hI : Inv s) : Inv (stopApp s a).1 := by
  unfold stopApp
  split
  · exact hI
  · rename_i ap hap
    have hu : unitOf s a = some ap.unit := by simp [unitOf, hap]
    refine inv_stopApp hI hu ?_ ?_ rfl ?_
    · funext b
      simp only [unitOf, upd]
      split <;> simp
    · intro x; simp [List.mem_filter]
    · intro b; simp [List.mem_filter]

theorem inv_reserveQ (s : State) (hI : Inv s) : Inv (reserveQ s) := by
  unfold reserveQ
  refine inv_reserve hI (firstUnused_not_mem s.used) rfl ?_ ?_ rfl
  · intro x; simp [mem_sadd]
  · intro x; simp

/-- keep-response under the environment hypothesis: the delivered physical qubit is one the link
layer holds (`p ∈ reserved`) -/
theorem inv_keepResp (s : State) (a : Nat) (v : Int) (p : Nat) (hI : Inv s) (hp : p ∈ s.reserved) :
    Inv (keepResp s a v p).1 := by
  have hpu : p ∈ s.used := (hI.used_iff p).2 (Or.inr hp)
  have hsame : Inv { s with used := sadd p s.used } :=
    inv_same hI rfl (by intro x; simp [mem_sadd]; intro e; subst e; exact hpu) rfl rfl
  unfold keepResp
  split
  · exact hI
  · rename_i ap hap
    have hu : unitOf s a = some ap.unit := by simp [unitOf, hap]
    simp only []
    split
    · exact hI
    · split
      · exact hsame
      · split
        · exact hsame
        · rename_i k hk
          split
          · exact hsame
          · rename_i hn
            refine inv_deliver hI hu (pyIdx_lt hk) hn hp ?_ ?_ ?_ rfl
            · funext b
              simp only [unitOf, upd]
              split <;> simp
            · intro x; simp [mem_sadd]
            · intro x; simp [List.mem_filter]

theorem inv_keepAt (s : State) (a : Nat) (qa : Int) (p : Nat) (hI : Inv s) (hp : p ∈ s.reserved) :
    Inv (keepAt s a qa p).1 := by
  unfold keepAt
  repeat' split
  all_goals first | exact hI | exact inv_keepResp s a _ p hI hp

/-- under the invariant `qfree` never hits the `set.remove` KeyError -/
theorem no_usedKey (hw : Bool) (a : Nat) (i : Instr) (s s' : State) (pc : Int) (hI : Inv s) :
    step hw a i s pc ≠ .fault s' .usedKey := by
  intro h
  rcases hap : s.apps a with _ | ap
  · unfold step at h; simp only [hap] at h; split at h <;> cases h
  · rcases hl : stepLoc hw a i (s.loc ap) pc with ⟨l, pc'⟩ | ⟨l, f⟩
    · rw [step_ok_of_loc hap hl] at h; cases h
    · rw [step_fault_of_loc hap hl] at h
      cases h
      have hq := stepLoc_qchange hw a i (s.loc ap) pc
      cases i <;> simp only [stepLoc] at hl
      all_goals first
        | (have := (wr_fault hl).2; cases this; done)
        | skip
      all_goals (try (unfold arith at hl)); (try (unfold arithm at hl))
      all_goals
        repeat' split at hl
      all_goals first
        | (cases hl; done)
        | (have := (wr_fault hl).2; cases this; done)
        | (simp only [br_ok] at hl; cases hl; done)
        | skip
      -- the only remaining case: qfree of a mapped qubit that is not marked used
      rename_i p _ _ q hq' hmem
      apply hmem
      have hu : unitOf s a = some ap.unit := by simp [unitOf, hap]
      exact (hI.used_iff q).2 (Or.inl ⟨a, p, by simp [phys, hu, physU]; exact hq'⟩)

end NQ.Exec
