/-
Helper lemmas about the executor model (C04, C13).
-/
import NetqasmVerif.Model.Exec
namespace NQ.Exec

/-! ### Python helpers -/

theorem pyIdx_lt {n : Nat} {i : Int} {k : Nat} (h : pyIdx n i = some k) : k < n := by
  unfold pyIdx at h
  split at h
  · split at h
    · simp at h; omega
    · simp at h
  · split at h
    · simp at h; omega
    · simp at h

theorem pyIdx_nonneg {n : Nat} {i : Int} (h0 : 0 ≤ i) (h1 : i < n) : pyIdx n i = some i.toNat := by
  simp [pyIdx, h0, h1]

theorem pyIdx_past_end {n : Nat} {i : Int} (h : (n : Int) ≤ i) : pyIdx n i = none := by
  unfold pyIdx
  have : 0 ≤ i := by omega
  simp [this]; omega

theorem pyIdx_neg {n : Nat} {i : Int} (h0 : i < 0) (h1 : -(n : Int) ≤ i) :
    pyIdx n i = some (i + n).toNat := by
  unfold pyIdx
  have : ¬ 0 ≤ i := by omega
  simp [this, h1]

theorem pyIdx_before_start {n : Nat} {i : Int} (h : i < -(n : Int)) : pyIdx n i = none := by
  unfold pyIdx
  have : ¬ 0 ≤ i := by omega
  have : ¬ -(n : Int) ≤ i := by omega
  simp [*]

@[simp] theorem upd_same {α β} [DecidableEq α] (f : α → β) (k : α) (v : β) : upd f k v k = v := by
  simp [upd]

theorem upd_other {α β} [DecidableEq α] (f : α → β) (k k' : α) (v : β) (h : k' ≠ k) :
    upd f k v k' = f k' := by simp [upd, h]

theorem upd_eq_self {α β} [DecidableEq α] (f : α → β) (k : α) : upd f k (f k) = f := by
  funext k'; unfold upd; split <;> simp_all

theorem mem_sadd {p q : Nat} {l : List Nat} : q ∈ sadd p l ↔ q = p ∨ q ∈ l := by
  unfold sadd; split
  · constructor
    · intro h; exact Or.inr h
    · rintro (h | h)
      · subst h; assumption
      · exact h
  · simp

theorem mem_srem {p q : Nat} {l : List Nat} : q ∈ srem p l ↔ q ∈ l ∧ q ≠ p := by
  simp [srem]

theorem firstUnusedFrom_spec (f : Nat) (l : List Nat) (p : Nat) (hf : l.length ≤ f) :
    firstUnusedFrom f l p ∉ l ∧ p ≤ firstUnusedFrom f l p := by
  induction f generalizing l p with
  | zero =>
    have : l = [] := List.eq_nil_of_length_eq_zero (by omega)
    subst this
    simp [firstUnusedFrom]
  | succ f ih =>
    unfold firstUnusedFrom
    split
    · rename_i h
      have hlen : (l.erase p).length ≤ f := by
        rw [List.length_erase_of_mem h]; omega
      have := ih (l.erase p) (p + 1) hlen
      refine ⟨?_, by omega⟩
      intro hm
      have hne : firstUnusedFrom f (l.erase p) (p + 1) ≠ p := by omega
      exact this.1 ((List.mem_erase_of_ne hne).2 hm)
    · rename_i h
      exact ⟨h, Nat.le_refl _⟩

/-- every candidate skipped by the search is in use: the result is the *smallest* free id ≥ p -/
theorem firstUnusedFrom_min (f : Nat) (l : List Nat) (p q : Nat) (h1 : p ≤ q)
    (h2 : q < firstUnusedFrom f l p) : q ∈ l := by
  induction f generalizing l p with
  | zero => simp [firstUnusedFrom] at h2; omega
  | succ f ih =>
    unfold firstUnusedFrom at h2
    split at h2
    · rename_i h
      by_cases hq : q = p
      · subst hq; exact h
      · exact List.mem_of_mem_erase (ih (l.erase p) (p + 1) (by omega) h2)
    · omega

theorem firstUnused_not_mem (l : List Nat) : firstUnused l ∉ l :=
  (firstUnusedFrom_spec l.length l 0 (Nat.le_refl _)).1

end NQ.Exec
