import NetqasmVerif.Model.Codec
namespace NQ

theorem unle32_le32 (v : Int) (h : inI32 v = true) :
    ∀ b0 b1 b2 b3, le32 v = [b0, b1, b2, b3] → unle32 b0 b1 b2 b3 = v := by
  intro b0 b1 b2 b3 hb
  simp [inI32] at h
  simp only [le32, List.cons.injEq, and_true] at hb
  obtain ⟨h0, h1, h2, h3⟩ := hb
  subst h0 h1 h2 h3
  unfold unle32
  have hu : ((v % 4294967296).toNat : Int) = v % 4294967296 := by
    apply Int.toNat_of_nonneg; omega
  generalize hU : (v % 4294967296).toNat = u at *
  have hlt : u < 4294967296 := by omega
  have hsum : u % 256 + 256 * (u / 256 % 256) + 65536 * (u / 65536 % 256)
      + 16777216 * (u / 16777216 % 256) = u := by omega
  simp only [hsum]
  split <;> omega

theorem le32_length (v : Int) : (le32 v).length = 4 := by simp [le32]

theorem unregByte_regByte (r : Reg) (h : okReg r = true) : unregByte (regByte r) = r := by
  obtain ⟨b, i⟩ := r
  simp [okReg] at h
  simp only [unregByte, regByte]
  have hi : ((i.toNat : Nat) : Int) = i := Int.toNat_of_nonneg (by omega)
  have : i.toNat < 16 := by omega
  congr 1
  · omega
  · have : (b + 4 * i.toNat) / 4 % 16 = i.toNat := by omega
    rw [this]; exact hi

theorem regByte_lt (r : Reg) (h : okReg r = true) : regByte r < 64 := by
  obtain ⟨b, i⟩ := r
  simp [okReg] at h
  simp only [regByte]; omega

theorem encodeOp_length (k : FieldKind) (o : Operand) (bs : List Nat)
    (h : encodeOp k o = some bs) : bs.length = kindSize k := by
  unfold encodeOp at h
  split at h
  · rename_i hr
    cases k <;> cases o <;> simp [InRangeOp] at hr <;> simp [le32, kindSize] at h ⊢ <;>
      (subst h; simp)
  · simp at h

theorem decodeOp_encodeOp (k : FieldKind) (o : Operand) (bs rest : List Nat)
    (h : encodeOp k o = some bs) : decodeOp k (bs ++ rest) = some (o, rest) := by
  unfold encodeOp at h
  split at h
  · rename_i hr
    cases k <;> cases o <;> simp [InRangeOp] at hr
    · -- reg
      simp at h; subst h
      simp [decodeOp, unregByte_regByte _ hr]
    · -- imm8
      rename_i v
      simp at h; subst h
      simp [inU8] at hr
      simp [decodeOp]; omega
    · -- int32
      rename_i v
      simp at h; subst h
      have := unle32_le32 v hr
      simp only [le32] at this ⊢
      simp [decodeOp]
      exact this _ _ _ _ rfl
    · rename_i a
      simp at h; subst h
      have := unle32_le32 a hr
      simp only [le32] at this ⊢
      simp [decodeOp]
      exact this _ _ _ _ rfl
    · rename_i a i
      simp at h; subst h
      have := unle32_le32 a hr.1
      simp only [le32] at this ⊢
      simp [decodeOp, unregByte_regByte _ hr.2]
      exact this _ _ _ _ rfl
    · rename_i a s e
      simp at h; subst h
      have := unle32_le32 a hr.1.1
      simp only [le32] at this ⊢
      simp [decodeOp, unregByte_regByte _ hr.1.2, unregByte_regByte _ hr.2]
      exact this _ _ _ _ rfl
  · simp at h

theorem encodeOps_cons_some {k ks o os bs} (h : encodeOps (k :: ks) (o :: os) = some bs) :
    ∃ b bs', encodeOp k o = some b ∧ encodeOps ks os = some bs' ∧ bs = b ++ bs' := by
  simp only [encodeOps] at h
  split at h
  · rename_i b bs' hb hbs'
    simp at h
    exact ⟨b, bs', hb, hbs', h.symm⟩
  · simp at h

theorem decodeOps_encodeOps (ks : List FieldKind) (os : List Operand) (bs rest : List Nat)
    (h : encodeOps ks os = some bs) : decodeOps ks (bs ++ rest) = some os := by
  induction ks generalizing os bs with
  | nil => cases os <;> simp [encodeOps] at h; simp [decodeOps]
  | cons k ks ih =>
    cases os with
    | nil => simp [encodeOps] at h
    | cons o os =>
      obtain ⟨b, bs', hb, hbs', rfl⟩ := encodeOps_cons_some h
      simp only [decodeOps, List.append_assoc, decodeOp_encodeOp k o b _ hb]
      rw [ih os bs' hbs']

theorem encodeOps_length (ks : List FieldKind) (os : List Operand) (bs : List Nat)
    (h : encodeOps ks os = some bs) : bs.length = shapeSize ks := by
  induction ks generalizing os bs with
  | nil => cases os <;> simp [encodeOps] at h; simp [h, shapeSize]
  | cons k ks ih =>
    cases os with
    | nil => simp [encodeOps] at h
    | cons o os =>
      obtain ⟨b, bs', hb, hbs', rfl⟩ := encodeOps_cons_some h
      have := ih os bs' hbs'
      simp [shapeSize] at this ⊢
      rw [encodeOp_length k o b hb, this]

theorem encodeOp_isSome (k : FieldKind) (o : Operand) :
    (encodeOp k o).isSome = InRangeOp k o := by
  unfold encodeOp
  by_cases hr : InRangeOp k o = true
  · simp only [hr, if_true]; cases o <;> simp only [] <;> (try split) <;> rfl
  · simp at hr; simp [hr]

theorem encodeOps_isSome (ks : List FieldKind) (os : List Operand) :
    (encodeOps ks os).isSome = InRangeOps ks os := by
  induction ks generalizing os with
  | nil => cases os <;> simp [encodeOps, InRangeOps]
  | cons k ks ih =>
    cases os with
    | nil => simp [encodeOps, InRangeOps]
    | cons o os =>
      simp only [encodeOps, InRangeOps]
      rw [← ih os, ← encodeOp_isSome]
      cases encodeOp k o <;> cases encodeOps ks os <;> simp

theorem encodeRow_some {row ops bs} (h : encodeRow row ops = some bs) :
    ∃ body, encodeOps row.shape ops = some body ∧ row.opcode < 256 ∧ body.length ≤ 6 ∧
      bs = row.opcode :: (body ++ List.replicate (6 - body.length) 0) := by
  unfold encodeRow at h
  split at h
  · rename_i body hb
    split at h
    · rename_i hc
      simp at h
      exact ⟨body, hb, hc.1, hc.2, h.symm⟩
    · simp at h
  · simp at h

theorem encodeRow_length (row : Row) (ops : List Operand) (bs : List Nat)
    (h : encodeRow row ops = some bs) : bs.length = 7 := by
  obtain ⟨body, _, _, hl, rfl⟩ := encodeRow_some h
  simp; omega

end NQ
