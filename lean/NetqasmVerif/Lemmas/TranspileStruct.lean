/-
Structure of the transpiler output: expansions contain no branch, non-gates are copied,
the final command list is the patched chunks plus the padding.
-/
import NetqasmVerif.Lemmas.Transpile
namespace NQ.Tr
open NQ

/-- class `cls` is not a branch class (or unknown) -/
def lineFree (cfg : Cfg) (cls : String) : Bool :=
  match infoOf cfg cls with
  | some info => !info.branch
  | none => true

/-- no expansion template emits a branch/jump class (decided on the generated tables) -/
def TemplatesNoBranch (cfg : Cfg) : Bool :=
  cfg.exps.all (fun r => r.body.all (fun t => lineFree cfg t.cls))

/-- class facts are consistent: a branch class is not a gate class, `set` is neither -/
def InfosWF (cfg : Cfg) : Bool :=
  cfg.infos.all (fun r => (!r.branch || (!r.gate1 && !r.gate2)) && (!r.isSet || (!r.gate1 && !r.gate2 && !r.branch))
    && !(debugPrefix.isPrefixOf r.cls) && (!(r.gate1 || r.gate2) || r.writes.isEmpty))

theorem infoOf_cls {cfg : Cfg} {c : String} {info : ClsInfo} (h : infoOf cfg c = some info) :
    info ∈ cfg.infos ∧ info.cls = c := by
  unfold infoOf at h
  exact ⟨List.mem_of_find?_eq_some h, by simpa using List.find?_some h⟩

/-- instructions of known classes are not debug markers -/
theorem not_debug_of_info {cfg : Cfg} (hW : InfosWF cfg = true) {i : Instr} {info : ClsInfo}
    (h : infoOf cfg i.cls = some info) : isDebug i = false := by
  obtain ⟨hm, hc⟩ := infoOf_cls h
  have hw := (List.all_eq_true.1 hW) info hm
  simp only [Bool.and_eq_true, Bool.not_eq_eq_eq_not, Bool.not_true] at hw
  unfold isDebug; rw [← hc]; exact hw.1.2

theorem lineOf_none_of_lineFree {cfg : Cfg} {i : Instr} (h : lineFree cfg i.cls = true) :
    lineOf cfg i = none := by
  unfold lineFree at h
  unfold lineOf
  cases hi : infoOf cfg i.cls with
  | none => rfl
  | some info => rw [hi] at h; simp at h; simp [h]

theorem instBody_cls {g : Instr} {a b s : Reg} : ∀ {body : List TInstr} {l : List Instr},
    instBody g a b s body = some l → ∀ x ∈ l, ∃ t ∈ body, x.cls = t.cls := by
  intro body
  induction body with
  | nil => intro l h x hx; simp [instBody] at h; subst h; cases hx
  | cons t ts ih =>
    intro l h x hx
    unfold instBody at h
    cases h1 : instOps g a b s t.ops with
    | none => rw [h1] at h; simp at h
    | some os =>
      cases h2 : instBody g a b s ts with
      | none => rw [h1, h2] at h; simp at h
      | some is =>
        rw [h1, h2] at h
        simp only [Option.some.injEq] at h
        subst h
        rcases List.mem_cons.1 hx with rfl | hm
        · exact ⟨t, List.mem_cons_self, rfl⟩
        · obtain ⟨t', ht', hc⟩ := ih h2 x hm
          exact ⟨t', List.mem_cons_of_mem _ ht', hc⟩

theorem useTemplate_noLine {cfg : Cfg} (hT : TemplatesNoBranch cfg = true) {key g a b s l}
    (h : useTemplate cfg key g a b s = .ok l) : ∀ x ∈ l, lineOf cfg x = none := by
  intro x hx
  unfold useTemplate at h
  cases he : expOf cfg key with
  | none => rw [he] at h; cases h
  | some body =>
    rw [he] at h
    simp only at h
    cases hb : instBody g a b s body with
    | none => rw [hb] at h; cases h
    | some l' =>
      rw [hb] at h
      simp only [Except.ok.injEq] at h
      subst h
      obtain ⟨t, ht, hc⟩ := instBody_cls hb x hx
      unfold expOf at he
      cases hf : cfg.exps.find? (fun r => r.key == key) with
      | none => rw [hf] at he; cases he
      | some r =>
        rw [hf] at he
        simp only [Option.map_some, Option.some.injEq] at he
        have hr : r ∈ cfg.exps := List.mem_of_find?_eq_some hf
        unfold TemplatesNoBranch at hT
        have h1 := (List.all_eq_true.1 hT) r hr
        rw [he] at h1
        have h2 := (List.all_eq_true.1 h1) t ht
        exact lineOf_none_of_lineFree (by rw [hc]; exact h2)

theorem expandGate1_noLine {cfg : Cfg} (hT : TemplatesNoBranch cfg = true) {g l}
    (h : expandGate1 cfg g = .ok l) : ∀ x ∈ l, lineOf cfg x = none := by
  unfold expandGate1 at h
  split at h
  · exact useTemplate_noLine hT h
  · cases h

theorem expandGate2_noLine {cfg : Cfg} (hT : TemplatesNoBranch cfg = true) {info rv used g l}
    (h : expandGate2 cfg info rv used g = .ok l) : ∀ x ∈ l, lineOf cfg x = none := by
  unfold expandGate2 at h
  repeat' split at h
  all_goals first
    | exact useTemplate_noLine hT h
    | cases h

/-- `isinstance` gate test of the pass -/
def infoGate (info : ClsInfo) : Bool := info.gate1 || info.gate2

theorem expandInstr_gate_noLine {cfg : Cfg} (hT : TemplatesNoBranch cfg = true) {info rv used i l}
    (hg : infoGate info = true) (h : expandInstr cfg info rv used i = .ok l) :
    ∀ x ∈ l, lineOf cfg x = none := by
  unfold expandInstr at h
  unfold infoGate at hg
  split at h
  · exact expandGate1_noLine hT h
  · split at h
    · exact expandGate2_noLine hT h
    · simp_all

theorem expandInstr_nongate {cfg : Cfg} {info rv used i l}
    (hg : infoGate info = false) (h : expandInstr cfg info rv used i = .ok l) : l = [i] := by
  unfold expandInstr at h
  unfold infoGate at hg
  simp only [Bool.or_eq_false_iff] at hg
  simp [hg.1, hg.2] at h
  exact h.symm

theorem isGate_eq {cfg : Cfg} {i : Instr} {info} (hi : infoOf cfg i.cls = some info) :
    isGate cfg i = infoGate info := by simp [isGate, hi, infoGate]

/-- chunk `p` is the expansion of `S[p]` under the pass's flow-insensitive knowledge after
scanning `S[0..p]` -/
theorem Chunks.at {cfg : Cfg} {rv used S cs} (h : Chunks cfg rv used S cs) (p : Nat) (hp : p < S.length) :
    ∃ info, infoOf cfg S[p].cls = some info ∧ ∃ hp' : p < cs.length,
      expandInstr cfg info (rvAfter cfg rv (S.take (p + 1))) (used ++ (S.take (p + 1)).flatMap topRegs) S[p]
        = .ok cs[p] := by
  have hS : S = S.take p ++ S[p] :: S.drop (p + 1) := by simp
  rw [hS] at h
  obtain ⟨ca, ex, cb, info, hcs, hlen, _, hi, hex, _⟩ := Chunks.split h
  have hl : (S.take p).length = p := by simp; omega
  rw [List.take_append_getElem hp] at hex
  refine ⟨info, hi, by rw [hcs]; simp; omega, ?_⟩
  have : cs[p]? = some ex := by
    rw [hcs, List.getElem?_append_right (by omega)]
    simp [hlen, hl]
  have hp' : p < cs.length := by rw [hcs]; simp; omega
  rw [List.getElem?_eq_getElem hp'] at this
  simp only [Option.some.injEq] at this
  rw [this]; exact hex

/-- in every chunk, only a copied non-gate instruction can carry a branch target -/
theorem Chunks.chunk_cases {cfg : Cfg} (hT : TemplatesNoBranch cfg = true) {rv used S cs}
    (h : Chunks cfg rv used S cs) (p : Nat) (hp : p < S.length) (hp' : p < cs.length) :
    (isGate cfg S[p] = true ∧ ∀ x ∈ cs[p], lineOf cfg x = none)
      ∨ (isGate cfg S[p] = false ∧ cs[p] = [S[p]]) := by
  obtain ⟨info, hi, _, hex⟩ := h.at p hp
  cases hg : infoGate info with
  | true => exact Or.inl ⟨by rw [isGate_eq hi, hg], expandInstr_gate_noLine hT hg hex⟩
  | false => exact Or.inr ⟨by rw [isGate_eq hi, hg], expandInstr_nongate hg hex⟩

/-- a branch instruction is not a gate -/
theorem not_gate_of_line {cfg : Cfg} (hW : InfosWF cfg = true) {i : Instr} {t : Int}
    (h : lineOf cfg i = some t) : isGate cfg i = false := by
  unfold lineOf at h
  unfold isGate
  cases hi : infoOf cfg i.cls with
  | none => rfl
  | some info =>
    rw [hi] at h
    simp only at h ⊢
    have hm : info ∈ cfg.infos := by
      unfold infoOf at hi; exact List.mem_of_find?_eq_some hi
    have hw := (List.all_eq_true.1 hW) info hm
    by_cases hb : info.branch = true
    · simp [hb] at hw; simp [hw.1.1.1]
    · simp [hb] at h

theorem setLine_cls (cfg : Cfg) (i : Instr) (w : Int) : (setLine cfg i w).cls = i.cls := by
  unfold setLine; cases infoOf cfg i.cls <;> rfl

theorem patchOne_cls (cfg : Cfg) (n idx e) (i : Instr) : (patchOne cfg n idx e i).cls = i.cls := by
  unfold patchOne
  cases h : retargetOne cfg n idx e i with
  | error _ => rfl
  | ok p =>
    simp only
    unfold retargetOne at h
    split at h
    · simp only [Except.ok.injEq] at h; rw [← h]
    · split at h
      · simp only [Except.ok.injEq] at h; rw [← h]; exact setLine_cls _ _ _
      · split at h
        · cases h
        · split at h
          · simp only [Except.ok.injEq] at h; rw [← h]; exact setLine_cls _ _ _
          · cases h

theorem serialise_map_patch (cfg : Cfg) (n idx e) (l : List Instr) :
    serialise (l.map (patchOne cfg n idx e)) = (serialise l).map (patchOne cfg n idx e) := by
  induction l with
  | nil => rfl
  | cons x xs ih =>
    have hx : isDebug (patchOne cfg n idx e x) = isDebug x := by
      simp [isDebug, patchOne_cls]
    unfold serialise at *
    by_cases h : isDebug x <;> simp [hx, h, ih]

theorem slen_map_patch (cfg : Cfg) (n idx e) (l : List Instr) :
    slen (l.map (patchOne cfg n idx e)) = slen l := by
  simp [slen, serialise_map_patch]

/-- splitting a flattened list at chunk `i` -/
theorem flatten_code_at {α} (cs : List (List α)) (i : Nat) (h : i < cs.length) :
    cs.flatten = (cs.take i).flatten ++ cs[i] ++ (cs.drop (i + 1)).flatten := by
  have h1 : cs = cs.take i ++ cs[i] :: cs.drop (i + 1) := by simp
  have h2 := congrArg List.flatten h1
  rw [List.flatten_append, List.flatten_cons, ← List.append_assoc] at h2
  exact h2

end NQ.Tr

namespace NQ.Tr
open NQ

/-- the retargeting function of a successful run: `patchOne` with the run's index map -/
def patchOf (cfg : Cfg) (S : List Instr) (cs : List (List Instr)) : Instr → Instr :=
  patchOne cfg S.length (starts 0 cs) (slen cs.flatten)

/-- a branch to the original end exists among the emitted commands -/
def endTargeted (cfg : Cfg) (S : List Instr) (cs : List (List Instr)) : Bool :=
  cs.flatten.any (fun i => lineOf cfg i == some (S.length : Int))

/-- **Structure of a successful run.** -/
theorem transpile_structure {cfg : Cfg} {S out : List Instr} (h : transpile cfg S = .ok out) :
    ∃ cs, Chunks cfg [] [] S cs ∧ indexChanges cfg S = some (starts 0 cs) ∧
      out = cs.flatten.map (patchOf cfg S cs) ++ (if endTargeted cfg S cs then [cfg.pad] else []) ∧
      (∀ i ∈ cs.flatten, ∃ i' fl, retargetOne cfg S.length (starts 0 cs) (slen cs.flatten) i = .ok (i', fl)) := by
  unfold transpile at h
  cases hp : passLoop cfg PState.init S with
  | error e => rw [hp] at h; cases h
  | ok st =>
    rw [hp] at h
    simp only at h
    obtain ⟨cs, hc, hout, hidx, hnd⟩ := passLoop_chunks cfg S PState.init st hp rfl
    simp only [PState.init, List.nil_append, slen_nil] at hout hidx hc
    have hlen : st.out.length - st.nDebug = slen cs.flatten := by
      have := slen_add_debug st.out
      rw [← hout]; omega
    rw [hlen, hout, hidx] at h
    cases hr : retargetAll cfg S.length (starts 0 cs) (slen cs.flatten) cs.flatten with
    | error e => rw [hr] at h; cases h
    | ok q =>
      obtain ⟨out', f⟩ := q
      rw [hr] at h
      simp only [Except.ok.injEq] at h
      obtain ⟨h1, h2⟩ := retargetAll_spec hr
      refine ⟨cs, hc, ?_, ?_, retargetAll_ok_of_mem hr⟩
      · simp [indexChanges, hp, hidx]
      · rw [← h, h1, h2]; unfold patchOf endTargeted; split <;> simp

theorem serialise_out_eq {cfg : Cfg} {S : List Instr} {cs : List (List Instr)} (hpad : isDebug cfg.pad = false) :
    serialise (cs.flatten.map (patchOf cfg S cs) ++ (if endTargeted cfg S cs then [cfg.pad] else []))
      = (serialise cs.flatten).map (patchOf cfg S cs) ++ (if endTargeted cfg S cs then [cfg.pad] else []) := by
  rw [serialise_append]
  unfold patchOf
  rw [serialise_map_patch]
  congr 1
  split
  · simp [serialise, hpad]
  · rfl

end NQ.Tr

namespace NQ.Tr
open NQ

/-- `code_at`: the serialised output splits at the serialised start of chunk `i` -/
theorem code_at {cfg : Cfg} {S : List Instr} {cs : List (List Instr)} (hpad : isDebug cfg.pad = false)
    (i : Nat) (hi : i < cs.length) :
    ∃ pre post, serialise (cs.flatten.map (patchOf cfg S cs) ++ (if endTargeted cfg S cs then [cfg.pad] else []))
        = pre ++ serialise (cs[i].map (patchOf cfg S cs)) ++ post ∧ pre.length = tposS cs i := by
  rw [serialise_out_eq hpad]
  refine ⟨(serialise (cs.take i).flatten).map (patchOf cfg S cs),
    (serialise (cs.drop (i + 1)).flatten).map (patchOf cfg S cs) ++ (if endTargeted cfg S cs then [cfg.pad] else []),
    ?_, by simp [tposS, slen]⟩
  conv => lhs; rw [flatten_code_at cs i hi]
  unfold patchOf
  rw [serialise_map_patch]
  simp [serialise_append, List.append_assoc]

/-- with the padding, the serialised output ends in the padding instruction at position `tposS cs n` -/
theorem pad_at {cfg : Cfg} {S : List Instr} {cs : List (List Instr)} (hpad : isDebug cfg.pad = false)
    (he : endTargeted cfg S cs = true) :
    ∃ pre, serialise (cs.flatten.map (patchOf cfg S cs) ++ (if endTargeted cfg S cs then [cfg.pad] else []))
        = pre ++ [cfg.pad] ∧ pre.length = tposS cs cs.length := by
  rw [serialise_out_eq hpad, he]
  exact ⟨_, rfl, by simp [tposS, slen]⟩

/-- what the retargeting loop makes of a branch with original target `t` -/
theorem patch_branch {cfg : Cfg} {S : List Instr} {cs : List (List Instr)} (hlen : cs.length = S.length)
    {x : Instr} {t : Int} (hl : lineOf cfg x = some t)
    (hok : ∃ i' fl, retargetOne cfg S.length (starts 0 cs) (slen cs.flatten) x = .ok (i', fl)) :
    0 ≤ t ∧ t.toNat ≤ S.length ∧ patchOf cfg S cs x = setLine cfg x (tposS cs t.toNat) := by
  obtain ⟨i', fl, h⟩ := hok
  have hp : patchOf cfg S cs x = i' := by simp [patchOf, patchOne, h]
  unfold retargetOne at h
  rw [hl] at h
  simp only at h
  by_cases hv : t = (S.length : Int)
  · simp [hv] at h
    refine ⟨by omega, by omega, ?_⟩
    rw [hp, ← h.1, hv]
    simp [← hlen, tposS_all]
  · have : (t == (S.length : Int)) = false := by simp [hv]
    rw [this] at h
    simp only [Bool.false_eq_true, ↓reduceIte] at h
    split at h
    · cases h
    · rename_i hneg
      split at h
      · rename_i k hk
        simp only [Except.ok.injEq, Prod.mk.injEq] at h
        have hlt : t.toNat < cs.length := by
          have := (List.getElem?_eq_some_iff.1 hk).1
          simpa [starts_length] using this
        rw [starts_getElem? 0 cs _ hlt] at hk
        simp only [Nat.zero_add, Option.some.injEq] at hk
        refine ⟨by omega, by omega, ?_⟩
        rw [hp, ← h.1, hk]
      · cases h

end NQ.Tr

namespace NQ.Tr
open NQ

/-- chunks whose source instruction is not a gate are that instruction, alone -/
theorem Chunks.nongate {cfg : Cfg} {rv used S cs} (h : Chunks cfg rv used S cs) :
    ((S.zip cs).filter (fun q => !isGate cfg q.1)).map (·.2)
      = (S.filter (fun i => !isGate cfg i)).map (fun i => [i]) := by
  induction h with
  | nil => rfl
  | @cons rv used i rest ex cs info hi hex _ ih =>
    cases hg : infoGate info with
    | true =>
      have hgi : isGate cfg i = true := by rw [isGate_eq hi, hg]
      simp [List.zip_cons_cons, hgi, ih]
    | false =>
      have hgi : isGate cfg i = false := by rw [isGate_eq hi, hg]
      have := expandInstr_nongate hg hex
      simp [List.zip_cons_cons, hgi, ih, this]

/-- `get_unused_register` returns a Q register named by no instruction scanned so far -/
theorem getUnused_fresh {used : List Reg} {s : Reg} (h : getUnused used = .ok s) :
    s ∉ used ∧ s.bank = bankQ := by
  unfold getUnused at h
  split at h
  · rename_i k hk
    have := List.find?_some hk
    simp only [Except.ok.injEq] at h
    subst h
    simp at this
    exact ⟨this, rfl⟩
  · cases h

end NQ.Tr
