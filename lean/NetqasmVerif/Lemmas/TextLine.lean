import NetqasmVerif.Lemmas.TextOperand
namespace NQ.Text
open NQ

variable {S : Syms}

/-- characters of a printed operand -/
def wordChar (S : Syms) (c : Char) : Bool :=
  opChar S c || c = S.addrStart || c = S.idxOpen || c = S.idxClose || c = S.sliceDelim

theorem wordChar_not_space (hS : SOk S) {c : Char} (h : wordChar S c = true) : isSpace c = false := by
  simp only [wordChar, Bool.or_eq_true, decide_eq_true_eq] at h
  rcases h with (((h | h) | h) | h) | h
  · exact opChar_not_space hS h
  · subst h; exact hS.symA.2
  · subst h; exact hS.symO.2
  · subst h; exact hS.symC.2
  · subst h; exact hS.symD.2

theorem wordChar_lineChar {c : Char} (h : wordChar S c = true) : lineChar S c = true := by
  simp only [wordChar, Bool.or_eq_true, decide_eq_true_eq] at h
  simp only [lineChar, Bool.or_eq_true, decide_eq_true_eq]
  rcases h with (((h | h) | h) | h) | h
  · exact Or.inl (Or.inl (Or.inl (Or.inl (Or.inl (Or.inr h)))))
  · exact Or.inl (Or.inl (Or.inl (Or.inr h)))
  · exact Or.inl (Or.inl (Or.inr h))
  · exact Or.inl (Or.inr h)
  · exact Or.inr h

theorem op_word {c : Char} (h : opChar S c = true) : wordChar S c = true := by simp [wordChar, h]

theorem showOperand_chars (hS : SOk S) (o : Operand) (hb : banksOk S.banks.length o = true) :
    ∀ c ∈ showOperand S o, wordChar S c = true := by
  intro c hc
  cases o with
  | reg r =>
    simp only [banksOk, decide_eq_true_eq] at hb
    exact op_word (showReg_chars hS r hb c hc)
  | imm v => exact op_word (showInt_opChars v c hc)
  | addr a =>
    rcases List.mem_cons.1 hc with rfl | hc
    · simp [wordChar]
    · exact op_word (showInt_opChars a c hc)
  | entry a i =>
    simp only [banksOk, decide_eq_true_eq] at hb
    have hform : showOperand S (.entry a i)
        = [S.addrStart] ++ showInt a ++ [S.idxOpen] ++ showReg S i ++ [S.idxClose] := by
      simp [showOperand]
    rw [hform] at hc
    simp only [List.mem_append, List.mem_singleton] at hc
    rcases hc with (((h | h) | h) | h) | h
    · subst h; simp [wordChar]
    · exact op_word (showInt_opChars a c h)
    · subst h; simp [wordChar]
    · exact op_word (showReg_chars hS i hb c h)
    · subst h; simp [wordChar]
  | slice a s e =>
    simp only [banksOk, Bool.and_eq_true, decide_eq_true_eq] at hb
    have hform : showOperand S (.slice a s e)
        = [S.addrStart] ++ showInt a ++ [S.idxOpen] ++ showReg S s ++ [S.sliceDelim]
          ++ showReg S e ++ [S.idxClose] := by
      simp [showOperand]
    rw [hform] at hc
    simp only [List.mem_append, List.mem_singleton] at hc
    rcases hc with (((((h | h) | h) | h) | h) | h) | h
    · subst h; simp [wordChar]
    · exact op_word (showInt_opChars a c h)
    · subst h; simp [wordChar]
    · exact op_word (showReg_chars hS s hb.1 c h)
    · subst h; simp [wordChar]
    · exact op_word (showReg_chars hS e hb.2 c h)
    · subst h; simp [wordChar]

theorem strip_of_all {l : List Char} (h : ∀ c ∈ l, isSpace c = false) : strip l = l := by
  unfold strip
  rw [dropWhile_all_false h, dropWhileEnd_all_false h]

theorem space_notin_operand (hS : SOk S) (o : Operand) (hb : banksOk S.banks.length o = true) :
    ' ' ∉ showOperand S o := fun h => by
  have := wordChar_not_space hS (showOperand_chars hS o hb _ h)
  simp [isSpace] at this

theorem splitOn_words (hS : SOk S) (w : List Char) (hw : ' ' ∉ w) (ops : List Operand)
    (hb : ∀ o ∈ ops, banksOk S.banks.length o = true) :
    splitOn ' ' (w ++ showOperands S ops) = w :: ops.map (showOperand S) := by
  induction ops generalizing w with
  | nil => simp [showOperands, splitOn_notin hw]
  | cons o os ih =>
    simp only [showOperands, List.map_cons, List.cons_append]
    rw [splitOn_append hw, ih _ (space_notin_operand hS o (hb o List.mem_cons_self))
      (fun o' ho' => hb o' (List.mem_cons_of_mem _ ho'))]

theorem parseOperands_show (hS : SOk S) (ops : List Operand)
    (hb : ∀ o ∈ ops, banksOk S.banks.length o = true) :
    parseOperands S (ops.map (showOperand S)) = .ok (ops.map opTok) := by
  induction ops with
  | nil => rfl
  | cons o os ih =>
    have hbo := hb o List.mem_cons_self
    simp only [List.map_cons, parseOperands]
    rw [strip_of_all (fun c hc => wordChar_not_space hS (showOperand_chars hS o hbo c hc)),
      parseOperand_show hS o hbo, ih (fun o' ho' => hb o' (List.mem_cons_of_mem _ ho'))]

/-- the last character of a printed operand is a digit or the closing bracket -/
theorem showOperand_last (o : Operand) :
    ∃ l c, showOperand S o = l ++ [c] ∧ (isDigit c = true ∨ c = S.idxClose) := by
  cases o with
  | reg r =>
    obtain ⟨l, c, hl, hc⟩ := showInt_last r.idx
    exact ⟨bankChar S r.bank :: l, c, by simp [showOperand, showReg, hl], Or.inl hc⟩
  | imm v =>
    obtain ⟨l, c, hl, hc⟩ := showInt_last v
    exact ⟨l, c, by simp [showOperand, hl], Or.inl hc⟩
  | addr a =>
    obtain ⟨l, c, hl, hc⟩ := showInt_last a
    exact ⟨S.addrStart :: l, c, by simp [showOperand, hl], Or.inl hc⟩
  | entry a i => exact ⟨_, S.idxClose, rfl, Or.inr rfl⟩
  | slice a s e =>
    exact ⟨S.addrStart :: showInt a ++ S.idxOpen :: showReg S s ++ S.sliceDelim :: showReg S e,
      S.idxClose, by simp [showOperand], Or.inr rfl⟩

theorem showOperands_last (o : Operand) (os : List Operand) :
    ∃ l c, showOperands S (o :: os) = l ++ [c] ∧ (isDigit c = true ∨ c = S.idxClose) := by
  induction os generalizing o with
  | nil =>
    obtain ⟨l, c, hl, hc⟩ := showOperand_last (S := S) o
    exact ⟨' ' :: l, c, by simp [showOperands, hl], hc⟩
  | cons o' os ih =>
    obtain ⟨l, c, hl, hc⟩ := ih o'
    refine ⟨' ' :: showOperand S o ++ l, c, ?_, hc⟩
    have : showOperands S (o :: o' :: os) = ' ' :: showOperand S o ++ showOperands S (o' :: os) := rfl
    rw [this, hl]; simp

theorem showOperands_chars (hS : SOk S) (ops : List Operand)
    (hb : ∀ o ∈ ops, banksOk S.banks.length o = true) :
    ∀ c ∈ showOperands S ops, lineChar S c = true := by
  induction ops with
  | nil => intro c hc; simp [showOperands] at hc
  | cons o os ih =>
    intro c hc
    simp only [showOperands, List.cons_append, List.mem_cons, List.mem_append] at hc
    rcases hc with rfl | hc | hc
    · simp [lineChar]
    · exact wordChar_lineChar (showOperand_chars hS o (hb o List.mem_cons_self) c hc)
    · exact ih (fun o' ho' => hb o' (List.mem_cons_of_mem _ ho')) c hc

theorem mnChar_lineChar {c : Char} (h : mnCharOk c = true) : lineChar S c = true := by
  simp [lineChar, h]

theorem mnChar_not_space {c : Char} (h : mnCharOk c = true) : isSpace c = false := by
  cases hc : isSpace c
  · rfl
  · simp only [isSpace, Bool.or_eq_true, decide_eq_true_eq] at hc
    rcases hc with ((rfl | rfl) | rfl) | rfl <;> simp [mnCharOk, isDigit] at h

/-- facts about a whole printed line -/
theorem line_facts (hS : SOk S) (mn : List Char) (hne : mn ≠ []) (hmn : ∀ c ∈ mn, mnCharOk c = true)
    (ops : List Operand) (hb : ∀ o ∈ ops, banksOk S.banks.length o = true) :
    (∀ c ∈ mn ++ showOperands S ops, lineChar S c = true) ∧
    (∃ c cs, mn ++ showOperands S ops = c :: cs ∧ mnCharOk c = true) ∧
    (∃ l d, mn ++ showOperands S ops = l ++ [d] ∧
      (isDigit d = true ∨ d = S.idxClose ∨ mnCharOk d = true)) := by
  refine ⟨?_, ?_, ?_⟩
  · intro c hc
    rcases List.mem_append.1 hc with hc | hc
    · exact mnChar_lineChar (hmn c hc)
    · exact showOperands_chars hS ops hb c hc
  · cases mn with
    | nil => exact absurd rfl hne
    | cons c cs => exact ⟨c, cs ++ showOperands S ops, rfl, hmn c List.mem_cons_self⟩
  · cases ops with
    | nil =>
      rcases List.eq_nil_or_concat mn with h | ⟨l, d, h⟩
      · exact absurd h hne
      · refine ⟨l, d, by simp [showOperands, h], Or.inr (Or.inr (hmn d (by simp [h])))⟩
    | cons o os =>
      obtain ⟨l, d, hl, hd⟩ := showOperands_last (S := S) o os
      refine ⟨mn ++ l, d, by rw [hl]; simp, ?_⟩
      rcases hd with hd | hd
      · exact Or.inl hd
      · exact Or.inr (Or.inl hd)

theorem lastOk_not_space (hS : SOk S) {d : Char}
    (h : isDigit d = true ∨ d = S.idxClose ∨ mnCharOk d = true) : isSpace d = false := by
  rcases h with h | h | h
  · exact opChar_not_space hS (numChar_opChar (by simp [numChar, h]))
  · subst h; exact hS.symC.2
  · exact mnChar_not_space h

/-- **line level**: lexing the printed line gives the tokens of the instruction -/
theorem parseLine_show (hS : SOk S) (generic : List String) (mn : String)
    (hne : mn.toList ≠ []) (hmn : ∀ c ∈ mn.toList, mnCharOk c = true)
    (hg : generic.contains mn = true)
    (ops : List Operand) (hb : ∀ o ∈ ops, banksOk S.banks.length o = true) :
    parseLine S generic (showInstr S mn ops) = .ok (printToks mn ops) := by
  obtain ⟨hall, _, ⟨l, d, hl, hd⟩⟩ := line_facts hS mn.toList hne hmn ops hb
  have hnotin : ∀ x, lineChar S x = false → x ∉ mn.toList ++ showOperands S ops :=
    fun x hx h => by simp [hall x h] at hx
  have hlast : (mn.toList ++ showOperands S ops).getLast? ≠ some S.branchEnd := by
    rw [hl, List.getLast?_concat]
    intro h
    have h := Option.some.inj h
    rcases hd with hd | hd | hd
    · rw [h, hS.branch.1] at hd; cases hd
    · exact hS.branch.2.1 (h ▸ hd)
    · rw [h, hS.branch.2.2] at hd; cases hd
  have ha : (mn.toList ++ showOperands S ops).contains S.argOpen = false := by
    simpa using hnotin _ hS.argOpen
  have hm : (mn.toList ++ showOperands S ops).contains S.macroStart = false := by
    simpa using hnotin _ hS.macroS
  have hsp : ' ' ∉ mn.toList := fun h => by
    have := mnChar_not_space (hmn _ h); simp [isSpace] at this
  unfold parseLine showInstr
  rw [if_neg (by simp only [Bool.or_eq_true, beq_iff_eq, ha, hm, Bool.false_eq_true, or_false]; exact hlast)]
  rw [splitOn_words hS _ hsp ops hb]
  simp only [String.ofList_toList, hg, if_true, parseOperands_show hS ops hb, printToks]

end NQ.Text
