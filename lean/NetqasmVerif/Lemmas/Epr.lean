/-
Lemmas about the EPR bookkeeping model (`Model/Epr.lean`): structure of a step, the micro-step
(one consumption) induction principle, and the invariants behind C12.
-/
import NetqasmVerif.Model.Epr
namespace NQ.Epr

/-! ### association lists -/

theorem getQ_setQ_same (qs : List (Key × List Req)) (κ : Key) (q : List Req) :
    getQ (setQ qs κ q) κ = q := by
  induction qs with
  | nil => simp [setQ, getQ]
  | cons p rest ih =>
    obtain ⟨κ', q'⟩ := p
    by_cases h : κ' = κ
    · simp [setQ, getQ, h]
    · simp [setQ, getQ, h, ih]

theorem getQ_setQ_ne (qs : List (Key × List Req)) (κ κ₂ : Key) (q : List Req) (h : κ₂ ≠ κ) :
    getQ (setQ qs κ q) κ₂ = getQ qs κ₂ := by
  induction qs with
  | nil => simp [setQ, getQ, Ne.symm h]
  | cons p rest ih =>
    obtain ⟨κ', q'⟩ := p
    by_cases h' : κ' = κ
    · subst h'
      simp [setQ, getQ, Ne.symm h]
    · by_cases h'' : κ' = κ₂
      · subst h''
        simp [setQ, getQ, h', h]
      · simp [setQ, getQ, h', h'', ih]

theorem getApp_setApp_same (apps : List (Nat × AppMem)) (a : Nat) (m : AppMem) :
    getApp (setApp apps a m) a = some m := by
  induction apps with
  | nil => simp [setApp, getApp]
  | cons p rest ih =>
    obtain ⟨a', m'⟩ := p
    by_cases h : a' = a
    · simp [setApp, getApp, h]
    · simp [setApp, getApp, h, ih]

theorem getApp_setApp_ne (apps : List (Nat × AppMem)) (a b : Nat) (m : AppMem) (h : b ≠ a) :
    getApp (setApp apps a m) b = getApp apps b := by
  induction apps with
  | nil => simp [setApp, getApp, Ne.symm h]
  | cons p rest ih =>
    obtain ⟨a', m'⟩ := p
    by_cases h' : a' = a
    · subst h'
      simp [setApp, getApp, Ne.symm h]
    · by_cases h'' : a' = b
      · subst h''
        simp [setApp, getApp, h', h]
      · simp [setApp, getApp, h', h'', ih]

theorem getApp_filter_same (apps : List (Nat × AppMem)) (a : Nat) : getApp (delApp apps a) a = none := by
  induction apps with
  | nil => simp [delApp, getApp]
  | cons p rest ih =>
    obtain ⟨a', m'⟩ := p
    by_cases h : a' = a
    · simp [delApp, h, ih]
    · simp [delApp, h, getApp, ih]

theorem getApp_filter_ne (apps : List (Nat × AppMem)) (a b : Nat) (h : b ≠ a) :
    getApp (delApp apps a) b = getApp apps b := by
  induction apps with
  | nil => simp [delApp, getApp]
  | cons p rest ih =>
    obtain ⟨a', m'⟩ := p
    by_cases h' : a' = a
    · subst h'
      simp [delApp, getApp, ih, Ne.symm h]
    · by_cases h'' : a' = b
      · subst h''
        simp [delApp, h, getApp]
      · simp [delApp, h', getApp, h'', ih]

theorem getArr_setArr_same (arrs : List (Int × Arr)) (a : Int) (v : Arr) :
    getArr (setArr arrs a v) a = some v := by
  induction arrs with
  | nil => simp [setArr, getArr]
  | cons p rest ih =>
    obtain ⟨a', v'⟩ := p
    by_cases h : a' = a
    · simp [setArr, getArr, h]
    · simp [setArr, getArr, h, ih]

theorem getArr_setArr_ne (arrs : List (Int × Arr)) (a b : Int) (v : Arr) (h : b ≠ a) :
    getArr (setArr arrs a v) b = getArr arrs b := by
  induction arrs with
  | nil => simp [setArr, getArr, Ne.symm h]
  | cons p rest ih =>
    obtain ⟨a', v'⟩ := p
    by_cases h' : a' = a
    · subst h'
      simp [setArr, getArr, Ne.symm h]
    · by_cases h'' : a' = b
      · subst h''
        simp [setArr, getArr, h', h]
      · simp [setArr, getArr, h', h'', ih]

/-! ### the shape of one consumption -/

/-- everything `tryHandle … = .yes s'` tells: the head request of the response's queue consumed it. -/
structure Consumed (okf : Nat) (s : State) (r : Resp) (s' : State) : Prop where
  ex : ∃ (h : Req) (rest : List Req) (app : Nat) (m m1 : AppMem) (used1 : List Int)
      (vq : Option Nat) (prev : Option Int) (arr arr' : Arr),
    getQ s.queues (keyOf s.nodeId r) = h :: rest ∧
    0 ≤ h.tot - h.left ∧
    getSub s.subs h.sub = some app ∧
    getApp s.apps app = some m ∧
    (r.ty = .M → m1 = m ∧ used1 = s.used ∧ vq = none ∧ prev = none) ∧
    (r.ty = .K → ∃ qa qarr v i, h.qAddr = some qa ∧ getArr m.arrays qa = some qarr ∧
        qarr[(h.tot - h.left).toNat]? = some (some v) ∧ hasVirtual m v = false ∧ allocPos m v = some i ∧
        m1 = { m with unit := m.unit.set i (some r.phys) } ∧ used1 = addUsed s.used r.phys ∧
        vq = some i ∧ prev = m.unit.getD i none) ∧
    r.ty ≠ .other ∧
    getArr m1.arrays h.resAddr = some arr ∧
    storeSlice okf arr (h.tot - h.left).toNat r.fields = some arr' ∧
    s' = { s with
      apps := setApp s.apps app { m1 with arrays := setArr m1.arrays h.resAddr arr' },
      used := used1,
      queues := setQ s.queues (keyOf s.nodeId r)
        (if h.left - 1 = 0 then rest else { h with left := h.left - 1 } :: rest),
      log := s.log ++ [⟨r, keyOf s.nodeId r, h.id, (h.tot - h.left).toNat, app, h.resAddr, vq, prev⟩] }

theorem tryHandle_yes {okf : Nat} {s s' : State} {r : Resp} (h : tryHandle okf s r = .yes s') :
    Consumed okf s r s' := by
  unfold tryHandle at h
  simp only at h
  split at h
  · cases h
  · rename_i hd rest hq
    split at h
    · cases h
    · rename_i hk
      split at h
      · cases h
      · rename_i app hsub
        split at h
        · cases h
        · rename_i m happ
          -- the handler
          split at h
          · cases h
          · cases h
          · rename_i m1 used1 vq prev hh
            split at h
            · cases h
            · rename_i arr harr
              split at h
              · cases h
              · rename_i arr' hst
                injection h with h
                refine ⟨hd, rest, app, m, m1, used1, vq, prev, arr, arr', hq, by omega, hsub, happ, ?_, ?_, ?_,
                  harr, hst, h.symm⟩
                · intro hty
                  rw [hty] at hh
                  simp only at hh
                  injection hh with hh
                  injection hh with hh
                  simp only [Prod.mk.injEq] at hh
                  obtain ⟨h1, h2, h3, h4⟩ := hh
                  exact ⟨h1.symm, h2.symm, h3.symm, h4.symm⟩
                · intro hty
                  rw [hty] at hh
                  simp only at hh
                  split at hh
                  · cases hh
                  · rename_i qa hqa
                    split at hh
                    · cases hh
                    · rename_i qarr hqarr
                      split at hh
                      · cases hh
                      · cases hh
                      · rename_i v hv
                        split at hh
                        · cases hh
                        · rename_i hhv
                          split at hh
                          · cases hh
                          · rename_i i hi
                            injection hh with hh
                            injection hh with hh
                            simp only [Prod.mk.injEq] at hh
                            obtain ⟨h1, h2, h3, h4⟩ := hh
                            exact ⟨qa, qarr, v, i, hqa, hqarr, hv, by simpa using hhv, hi, h1.symm, h2.symm,
                              h3.symm, h4.symm⟩
                · intro hty
                  rw [hty] at hh
                  simp at hh

/-- a successful `scan`: some response of the list was handled and popped -/
theorem scan_did {okf : Nat} {s s'' : State} : ∀ (l pre : List Resp), scan okf s pre l = .did s'' →
    ∃ pre' r rest s', l = pre' ++ r :: rest ∧ tryHandle okf s r = .yes s' ∧
      (∀ x ∈ pre', tryHandle okf s x = .no) ∧
      s'' = { s' with pending := pre ++ pre' ++ rest } := by
  intro l
  induction l with
  | nil => intro pre h; simp [scan] at h
  | cons r rest ih =>
    intro pre h
    unfold scan at h
    split at h
    · cases h
    · rename_i hno
      obtain ⟨pre', r', rest', s', hl, hy, hn, hs⟩ := ih (pre ++ [r]) h
      refine ⟨r :: pre', r', rest', s', by simp [hl], hy, ?_, by simpa using hs⟩
      intro x hx
      cases hx with
      | head => exact hno
      | tail _ hx => exact hn x hx
    · rename_i s' hy
      injection h with h
      exact ⟨[], r, rest, s', rfl, hy, by simp, by simpa using h.symm⟩

theorem scan_idle {okf : Nat} {s : State} : ∀ (l pre : List Resp), scan okf s pre l = .idle →
    ∀ x ∈ l, tryHandle okf s x = .no := by
  intro l
  induction l with
  | nil => intro pre _ x hx; cases hx
  | cons r rest ih =>
    intro pre h x hx
    unfold scan at h
    split at h
    · cases h
    · rename_i hno
      cases hx with
      | head => exact hno
      | tail _ hx => exact ih _ h x hx
    · cases h

/-- one consumption as a relation on states -/
def Micro (okf : Nat) (s s'' : State) : Prop :=
  ∃ pre r rest s', s.pending = pre ++ r :: rest ∧ Consumed okf s r s' ∧
    (∀ x ∈ pre, tryHandle okf s x = .no) ∧ s'' = { s' with pending := pre ++ rest }

theorem handleOne_did {okf : Nat} {s s'' : State} (h : handleOne okf s = .did s'') : Micro okf s s'' := by
  obtain ⟨pre', r, rest, s', hl, hy, hn, hs⟩ := scan_did _ _ h
  exact ⟨pre', r, rest, s', hl, tryHandle_yes hy, hn, by simpa using hs⟩

theorem Micro.pending_length {okf : Nat} {s s'' : State} (h : Micro okf s s'') :
    s''.pending.length + 1 = s.pending.length := by
  obtain ⟨pre, r, rest, s', hp, _, _, hs⟩ := h
  subst hs
  simp [hp]
  omega

/-- reflexive-transitive closure of `Micro` -/
inductive Micros (okf : Nat) : State → State → Prop
  | refl (s) : Micros okf s s
  | cons {s s' s''} : Micro okf s s' → Micros okf s' s'' → Micros okf s s''

theorem handlePendingFuel_micros {okf : Nat} : ∀ (n : Nat) (s s' : State),
    handlePendingFuel okf n s = some s' → Micros okf s s' := by
  intro n
  induction n with
  | zero => intro s s' h; simp [handlePendingFuel] at h; subst h; exact .refl _
  | succ n ih =>
    intro s s' h
    unfold handlePendingFuel at h
    split at h
    · cases h
    · injection h with h; subst h; exact .refl _
    · rename_i s1 h1
      exact .cons (handleOne_did h1) (ih _ _ h)

/-- with enough fuel the loop ends because nothing is handleable any more -/
theorem handlePendingFuel_idle {okf : Nat} : ∀ (n : Nat) (s s' : State), s.pending.length < n →
    handlePendingFuel okf n s = some s' → handleOne okf s' = .idle := by
  intro n
  induction n with
  | zero => intro s s' hl; omega
  | succ n ih =>
    intro s s' hl h
    unfold handlePendingFuel at h
    split at h
    · cases h
    · rename_i hidle
      injection h with h; subst h; exact hidle
    · rename_i s1 h1
      have := (handleOne_did h1).pending_length
      exact ih _ _ (by omega) h

/-! ### the shape of a step -/

/-- fields that only EPR actions touch -/
def SameEpr (s s' : State) : Prop :=
  s'.nodeId = s.nodeId ∧ s'.queues = s.queues ∧ s'.pending = s.pending ∧ s'.nextReq = s.nextReq ∧
  s'.nextResp = s.nextResp ∧ s'.issued = s.issued ∧ s'.delivered = s.delivered ∧ s'.log = s.log

theorem withApp_some {s : State} {sub : Nat} {f : Nat → AppMem → Option State} {s' : State}
    (h : withApp s sub f = some s') : ∃ app m, getSub s.subs sub = some app ∧ getApp s.apps app = some m ∧
      f app m = some s' := by
  unfold withApp at h
  split at h
  · cases h
  · rename_i app hs
    split at h
    · cases h
    · rename_i m hm
      exact ⟨app, m, hs, hm, h⟩

inductive StepShape (okf : Nat) (s s' : State) : Prop
  | mem (h : SameEpr s s')
  | enq (κ : Key) (sub : Nat) (res : Int) (q : Option Int) (n : Int) (h : s' = enqueue s κ sub res q n)
  | deliver (r : Resp) (hid : r.id = s.nextResp)
      (h : Micros okf { s with pending := s.pending ++ [r], nextResp := s.nextResp + 1,
                               delivered := s.delivered ++ [r] } s')
  | poll (h : Micros okf s s')

theorem step_shape {okf : Nat} {s s' : State} {a : Action} (h : step okf s a = some s') :
    StepShape okf s s' := by
  cases a with
  | initApp app n => simp [step] at h; subst h; exact .mem (by simp [SameEpr])
  | startSub sub app => simp [step] at h; subst h; exact .mem (by simp [SameEpr])
  | endSub sub => simp [step] at h; subst h; exact .mem (by simp [SameEpr])
  | nop => simp [step] at h; subst h; exact .mem (by simp [SameEpr])
  | array sub addr len =>
    simp only [step] at h
    obtain ⟨app, m, _, _, hf⟩ := withApp_some h
    injection hf with hf; subst hf; exact .mem (by simp [SameEpr])
  | store sub addr idx val =>
    simp only [step] at h
    obtain ⟨app, m, _, _, hf⟩ := withApp_some h
    split at hf
    · cases hf
    · split at hf
      · injection hf with hf; subst hf; exact .mem (by simp [SameEpr])
      · cases hf
  | qalloc sub v =>
    simp only [step] at h
    obtain ⟨app, m, _, _, hf⟩ := withApp_some h
    split at hf
    · cases hf
    · split at hf
      · cases hf
      · injection hf with hf; subst hf; exact .mem (by simp [SameEpr])
  | qfree sub v =>
    simp only [step] at h
    obtain ⟨app, m, _, _, hf⟩ := withApp_some h
    split at hf
    · cases hf
    · split at hf
      · cases hf
      · split at hf
        · injection hf with hf; subst hf; exact .mem (by simp [SameEpr])
        · cases hf
  | create sub remote purpose isK number qAddr resAddr =>
    simp only [step] at h
    obtain ⟨app, m, _, _, hf⟩ := withApp_some h
    split at hf
    · simp only [Option.some.injEq] at hf; exact .enq _ _ _ _ _ hf.symm
    · cases hf
  | recv sub remote purpose qAddr resAddr =>
    simp only [step] at h
    obtain ⟨app, m, _, _, hf⟩ := withApp_some h
    split at hf
    · cases hf
    · injection hf with hf; exact .enq _ _ _ _ _ hf.symm
  | deliver ty remote purpose dir phys fields =>
    simp only [step, handlePending] at h
    exact .deliver ⟨s.nextResp, ty, remote, purpose, dir, phys, fields⟩ rfl (handlePendingFuel_micros _ _ _ h)
  | poll =>
    simp only [step, handlePending] at h
    exact .poll (handlePendingFuel_micros _ _ _ h)
  | wait sub kind addr lo hi =>
    simp only [step] at h
    split at h
    · cases h
    · injection h with h; subst h; exact .mem (by simp [SameEpr])
  | rejected sub =>
    simp only [step] at h
    obtain ⟨app, m, _, _, hf⟩ := withApp_some h
    injection hf with hf; subst hf; exact .mem (by simp [SameEpr])
  | stopApp app =>
    simp only [step] at h
    split at h
    · cases h
    · split at h
      · injection h with h; subst h; exact .mem (by simp [SameEpr])
      · cases h

/-- reachable states -/
inductive Reach (okf : Nat) (node : Int) : State → Prop
  | init : Reach okf node (Epr.init node)
  | step {s s' : State} {a : Action} : Reach okf node s → step okf s a = some s' → Reach okf node s'

/-- Induction principle at the granularity of single consumptions. -/
theorem Reach.micro_induct {okf : Nat} {node : Int} (I : State → Prop)
    (h0 : I (Epr.init node))
    (hmem : ∀ s s', I s → SameEpr s s' → I s')
    (henq : ∀ s κ sub res q n, I s → I (enqueue s κ sub res q n))
    (hdel : ∀ s r, I s → r.id = s.nextResp →
      I { s with pending := s.pending ++ [r], nextResp := s.nextResp + 1, delivered := s.delivered ++ [r] })
    (hmic : ∀ s s', I s → Micro okf s s' → I s') :
    ∀ s, Reach okf node s → I s := by
  have hmics : ∀ s s', Micros okf s s' → I s → I s' := by
    intro s s' h
    induction h with
    | refl => exact id
    | cons hm _ ih => exact fun hi => ih (hmic _ _ hi hm)
  intro s hr
  induction hr with
  | init => exact h0
  | step _ hs ih =>
    cases step_shape hs with
    | mem h => exact hmem _ _ ih h
    | enq κ sub res q n h => subst h; exact henq _ _ _ _ _ _ ih
    | deliver r hid h => exact hmics _ _ h (hdel _ _ ih hid)
    | poll h => exact hmics _ _ h ih

end NQ.Epr
