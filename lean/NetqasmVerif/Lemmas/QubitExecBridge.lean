/-
Bridge between C09's event abstraction (`Model/QubitMgr.lean`: `QM.step`, `QM.run` on the set of
allocated virtual ids) and the executor model (`Model/Exec.lean`: `Exec.step` on `qalloc`/`qfree`/
gates, `Exec.keepResp` for an OK-K delivery; unit module, `used`, C13's `Exec.Inv`).

An event is executed on the executor as the instructions the SDK emits for it
(`set Q0 v; qalloc Q0`, `set Q0 v; qfree Q0`, `set Q0 v; <gate> Q0`, `set Q0 a; set Q1 b; <gate> Q0 Q1`)
or, for a delivery, as the environment actions `reserve; keep a v p`.  The base executor's gate
hooks only record the call; every real back end first calls `_get_position` (`position` below),
which is where "instruction on an unallocated qubit" faults — so `use` is executed as that check
followed by the instruction.
-/
import NetqasmVerif.Model.QubitExec
import NetqasmVerif.Lemmas.ExecInvStep
import NetqasmVerif.Lemmas.QubitMgr
namespace NQ.Bridge9
open NQ NQ.Exec

/-- the abstraction: `u` is the set of allocated virtual ids of a unit module of size `m` -/
def AbsU (um : List (Option Nat)) (m : Nat) (u : List Nat) : Prop :=
  um.length = m ∧ ∀ v, v ∈ u ↔ (um[v]?.join).isSome = true

def Abs (s : State) (a m : Nat) (u : List Nat) : Prop :=
  ∃ ap, s.apps a = some ap ∧ AbsU ap.unit m u

/-! ### abstraction lemmas -/

theorem absU_set_some {um : List (Option Nat)} {m : Nat} {u : List Nat} {v q : Nat}
    (h : AbsU um m u) (hv : v < m) : AbsU (um.set v (some q)) m (v :: u) := by
  obtain ⟨hl, hm⟩ := h
  refine ⟨by simp [hl], fun w => ?_⟩
  rw [set_join um v w (some q) (by omega), List.mem_cons, hm w]
  by_cases hw : w = v <;> simp [hw]

theorem absU_set_none {um : List (Option Nat)} {m : Nat} {u : List Nat} {v : Nat}
    (h : AbsU um m u) (hv : v < m) : AbsU (um.set v none) m (u.filter (· != v)) := by
  obtain ⟨hl, hm⟩ := h
  refine ⟨by simp [hl], fun w => ?_⟩
  rw [set_join um v w none (by omega)]
  simp only [List.mem_filter, bne_iff_ne, ne_eq, decide_not, Bool.not_eq_true', decide_eq_false_iff_not, hm w]
  by_cases hw : w = v <;> simp [hw]

theorem absU_not_mem {um : List (Option Nat)} {m : Nat} {u : List Nat} {v : Nat}
    (h : AbsU um m u) (hv : v ∉ u) : um[v]?.join = none := by
  cases hj : um[v]?.join with
  | none => rfl
  | some q => exact absurd ((h.2 v).mpr (by simp [hj])) hv

theorem absU_mem {um : List (Option Nat)} {m : Nat} {u : List Nat} {v : Nat}
    (h : AbsU um m u) (hv : v ∈ u) : ∃ q, um[v]?.join = some q := by
  have := (h.2 v).mp hv
  cases hj : um[v]?.join with
  | none => simp [hj] at this
  | some q => exact ⟨q, rfl⟩

/-! ### the instructions -/

theorem put_apps (s : State) (a : Nat) (l : Loc) : (s.put a l).apps a = some l.ap := by
  simp [State.put, upd]

theorem stepF_set {s : State} {a : Nat} {ap : App} (r : XReg) (v : Nat) (h : s.apps a = some ap) :
    stepF a (.set r v) s = (s.put a ⟨ap.setReg r v, s.used, s.oracle, s.trace⟩, none) := by
  have hl : stepLoc false a (.set r v) (s.loc ap) 0 = .ok ⟨ap.setReg r v, s.used, s.oracle, s.trace⟩ (0 + 1) := by
    simp [stepLoc, wr, fits, State.loc]
  simp [stepF, step_ok_of_loc h hl]

theorem inv_stepF {s : State} (a : Nat) (i : Instr) (hI : Inv s) : Inv (stepF a i s).1 := by
  have := Exec.inv_step false a i s 0 hI
  unfold stepF
  cases hs : step false a i s 0 <;> simpa [hs, Res.st] using this

theorem stepF_loc {s : State} {a : Nat} {ap : App} (i : Instr) (h : s.apps a = some ap) :
    stepF a i s = match stepLoc false a i (s.loc ap) 0 with
      | .ok l _ => (s.put a l, none)
      | .fault l f => (s.put a l, some (.exec f)) := by
  unfold stepF
  cases hl : stepLoc false a i (s.loc ap) 0 with
  | ok l pc => simp [step_ok_of_loc h hl]
  | fault l f => simp [step_fault_of_loc h hl]

theorem setReg_get (ap : App) (r : XReg) (v : Int) : (ap.setReg r v).regs r = some v := by
  simp [App.setReg, upd]

theorem setReg_unit (ap : App) (r : XReg) (v : Int) : (ap.setReg r v).unit = ap.unit := rfl

theorem pyIdx_nat {n v : Nat} (h : v < n) : pyIdx n (v : Int) = some v := by
  have := pyIdx_nonneg (n := n) (i := (v : Int)) (by omega) (by omega)
  simpa using this

/-- the Result type of one refinement statement -/
def Refines (a m : Nat) (u : List Nat) (e : QM.Ev) (r : State × Option XFault) : Prop :=
  (∀ u', QM.step m u e = .ok u' → r.2 = none ∧ Abs r.1 a m u') ∧
  (∀ f, QM.step m u e = .error f → ∃ x, r.2 = some x ∧ kind x = some f)

theorem ev_alloc {s : State} {a m : Nat} {u : List Nat} (hA : Abs s a m u) (v : Nat) :
    Refines a m u (.alloc v) (execEv a s (.alloc v)) := by
  obtain ⟨ap, hap, hU⟩ := hA
  have hl := hU.1
  simp only [execEv, stepF_set Q0 v hap, andThen]
  rw [stepF_loc (.qalloc Q0) (put_apps _ _ _)]
  simp only [State.loc, stepLoc, setReg_get, setReg_unit, hl]
  by_cases hv : m ≤ v
  · have hge : ((v : Nat) : Int) ≥ (m : Nat) := by omega
    simp only [hge, if_true]
    constructor
    · intro u' h; simp [QM.step, hv] at h
    · intro f h; simp [QM.step, hv] at h; subst h; exact ⟨_, rfl, rfl⟩
  · have hge : ¬ ((v : Nat) : Int) ≥ (m : Nat) := by omega
    simp only [hge, if_false, pyIdx_nat (show v < m by omega)]
    by_cases hm : v ∈ u
    · obtain ⟨q, hq⟩ := absU_mem hU hm
      simp only [hq]
      constructor
      · intro u' h; simp [QM.step, hv, hm] at h
      · intro f h; simp [QM.step, hv, hm] at h; subst h; exact ⟨_, rfl, rfl⟩
    · simp only [absU_not_mem hU hm]
      constructor
      · intro u' h
        simp [QM.step, hv, hm] at h
        subst h
        exact ⟨rfl, _, put_apps _ _ _, absU_set_some hU (by omega)⟩
      · intro f h; simp [QM.step, hv, hm] at h

theorem ev_free {s : State} {a m : Nat} {u : List Nat} (hI : Inv s) (hA : Abs s a m u) (v : Nat) :
    Refines a m u (.free v) (execEv a s (.free v)) := by
  obtain ⟨ap, hap, hU⟩ := hA
  have hl := hU.1
  simp only [execEv, stepF_set Q0 v hap, andThen]
  rw [stepF_loc (.qfree Q0) (put_apps _ _ _)]
  simp only [State.loc, stepLoc, setReg_get, setReg_unit, hl]
  by_cases hv : m ≤ v
  · simp only [pyIdx_past_end (show ((m : Nat) : Int) ≤ (v : Int) by omega)]
    constructor
    · intro u' h; simp [QM.step, QM.need, hv] at h
    · intro f h; simp [QM.step, QM.need, hv] at h; subst h; exact ⟨_, rfl, rfl⟩
  · simp only [pyIdx_nat (show v < m by omega)]
    by_cases hm : v ∈ u
    · obtain ⟨q, hq⟩ := absU_mem hU hm
      -- the physical qubit is marked used (C13's invariant)
      have hqu : q ∈ s.used := (hI.used_iff q).2 (Or.inl ⟨a, v, by simp [phys, unitOf, hap, physU, hq]⟩)
      simp only [hq, State.put, hqu, if_true]
      constructor
      · intro u' h
        simp [QM.step, QM.need, hv, hm] at h
        subst h
        exact ⟨rfl, { (ap.setReg Q0 (v : Int)) with unit := ap.unit.set v none }, by simp [upd],
          absU_set_none hU (by omega)⟩
      · intro f h; simp [QM.step, QM.need, hv, hm] at h
    · simp only [absU_not_mem hU hm]
      constructor
      · intro u' h; simp [QM.step, QM.need, hv, hm] at h
      · intro f h; simp [QM.step, QM.need, hv, hm] at h; subst h; exact ⟨_, rfl, rfl⟩

theorem position_spec {s : State} {a m : Nat} {u : List Nat} {ap : App} (hap : s.apps a = some ap)
    (hU : AbsU ap.unit m u) (v : Nat) :
    position s a v = if m ≤ v then some (.exec .unitIndex) else if v ∈ u then none else some (.exec .notAlloc) := by
  simp only [position, hap, hU.1]
  by_cases hv : m ≤ v
  · simp [hv]
  · simp only [hv, if_false]
    by_cases hm : v ∈ u
    · simp [hm, (hU.2 v).mp hm]
    · simp [hm, absU_not_mem hU hm]

theorem ev_use {s : State} {a m : Nat} {u : List Nat} (hA : Abs s a m u) (v : Nat) :
    Refines a m u (.use v) (execEv a s (.use v)) := by
  obtain ⟨ap, hap, hU⟩ := hA
  simp only [execEv, position_spec hap hU]
  by_cases hv : m ≤ v
  · simp only [hv, if_true]
    constructor
    · intro u' h; simp [QM.step, QM.need, hv] at h
    · intro f h; simp [QM.step, QM.need, hv] at h; subst h; exact ⟨_, rfl, rfl⟩
  · simp only [hv, if_false]
    by_cases hm : v ∈ u
    · simp only [hm, if_true, stepF_set Q0 v hap, andThen]
      rw [stepF_loc (.q1 "h" Q0) (put_apps _ _ _)]
      simp only [State.loc, stepLoc, setReg_get]
      constructor
      · intro u' h
        simp [QM.step, QM.need, hv, hm] at h
        subst h
        exact ⟨rfl, _, put_apps _ _ _, hU⟩
      · intro f h; simp [QM.step, QM.need, hv, hm] at h
    · simp only [hm, if_false]
      constructor
      · intro u' h; simp [QM.step, QM.need, hv, hm] at h
      · intro f h; simp [QM.step, QM.need, hv, hm] at h; subst h; exact ⟨_, rfl, rfl⟩

theorem Q0_ne_Q1 : Q0 ≠ Q1 := by decide

theorem ev_use2 {s : State} {a m : Nat} {u : List Nat} (hA : Abs s a m u) (x y : Nat) :
    Refines a m u (.use2 x y) (execEv a s (.use2 x y)) := by
  obtain ⟨ap, hap, hU⟩ := hA
  simp only [execEv, position_spec hap hU]
  by_cases hx : m ≤ x
  · simp only [hx, if_true]
    constructor
    · intro u' h; simp [QM.step, QM.need, hx] at h
    · intro f h; simp [QM.step, QM.need, hx] at h; subst h; exact ⟨_, rfl, rfl⟩
  · simp only [hx, if_false]
    by_cases hmx : x ∈ u
    · simp only [hmx, if_true]
      by_cases hy : m ≤ y
      · simp only [hy, if_true]
        constructor
        · intro u' h; simp [QM.step, QM.need, hx, hmx, hy] at h
        · intro f h; simp [QM.step, QM.need, hx, hmx, hy] at h; subst h; exact ⟨_, rfl, rfl⟩
      · simp only [hy, if_false]
        by_cases hmy : y ∈ u
        · simp only [hmy, if_true, stepF_set Q0 x hap, andThen]
          rw [stepF_set Q1 y (put_apps _ _ _)]
          simp only
          rw [stepF_loc (.q2 "cnot" Q0 Q1) (put_apps _ _ _)]
          have h0 : ((ap.setReg Q0 (x : Int)).setReg Q1 (y : Int)).regs Q0 = some (x : Int) := by
            simp [App.setReg, upd, Q0_ne_Q1]
          simp only [State.loc, stepLoc, setReg_get, h0]
          constructor
          · intro u' h
            simp [QM.step, QM.need, hx, hmx, hy, hmy] at h
            subst h
            exact ⟨rfl, _, put_apps _ _ _, hU⟩
          · intro f h; simp [QM.step, QM.need, hx, hmx, hy, hmy] at h
        · simp only [hmy, if_false]
          constructor
          · intro u' h; simp [QM.step, QM.need, hx, hmx, hy, hmy] at h
          · intro f h; simp [QM.step, QM.need, hx, hmx, hy, hmy] at h; subst h; exact ⟨_, rfl, rfl⟩
    · simp only [hmx, if_false]
      constructor
      · intro u' h; simp [QM.step, QM.need, hx, hmx] at h
      · intro f h; simp [QM.step, QM.need, hx, hmx] at h; subst h; exact ⟨_, rfl, rfl⟩

theorem ev_deliver {s : State} {a m : Nat} {u : List Nat} (hA : Abs s a m u) (v : Nat) :
    Refines a m u (.deliver v) (execEv a s (.deliver v)) := by
  obtain ⟨ap, hap, hU⟩ := hA
  have hl := hU.1
  have hap1 : (reserveQ s).apps a = some ap := by simp [reserveQ, hap]
  simp only [execEv, hap1, hl]
  by_cases hm : v ∈ u
  · have hs := (hU.2 v).mp hm
    have hlt : v < m := by
      rcases Nat.lt_or_ge v m with h | h
      · exact h
      · rw [List.getElem?_eq_none (by omega)] at hs; simp at hs
    rw [if_pos ⟨hlt, hs⟩]
    constructor
    · intro u' h; simp [QM.step, hm] at h
    · intro f h; simp [QM.step, hm] at h; subst h; exact ⟨_, rfl, rfl⟩
  · have hn := absU_not_mem hU hm
    rw [if_neg (by simp [hn])]
    have hcond : ¬ (0 ≤ (v : Int) ∧ (v : Int) < (m : Nat) ∧ ((ap.unit[(v : Int).toNat]?.join).isSome = true)) := by
      simp [hn]
    simp only [keepResp, hap1, hl, hcond, if_false]
    by_cases hv : m ≤ v
    · have hge : ((v : Nat) : Int) ≥ (m : Nat) := by omega
      simp only [hge, if_true]
      constructor
      · intro u' h; simp [QM.step, hm, hv] at h
      · intro f h; simp [QM.step, hm, hv] at h; subst h; exact ⟨_, rfl, rfl⟩
    · have hge : ¬ ((v : Nat) : Int) ≥ (m : Nat) := by omega
      simp only [hge, if_false, pyIdx_nat (show v < m by omega), hn]
      constructor
      · intro u' h
        simp [QM.step, hm, hv] at h
        subst h
        exact ⟨rfl, { ap with unit := ap.unit.set v (some (firstUnused s.used)) }, by simp [upd],
          absU_set_some hU (by omega)⟩
      · intro f h; simp [QM.step, hm, hv] at h

/-- **event_step_refines_exec**: one event of C09's model is exactly the unit-module effect of the
corresponding executor instruction(s) / delivery: it succeeds iff the executor raises nothing, the
new id set is the abstraction of the new unit module, and an error is an executor fault of the
matching kind (`range` = outsideUnit/IndexError, `double` = already allocated, `notAlloc` = not
allocated, `blocked` = the delivery is deferred). -/
theorem event_step_refines_exec {s : State} {a m : Nat} {u : List Nat} (hI : Inv s) (hA : Abs s a m u)
    (e : QM.Ev) : Refines a m u e (execEv a s e) := by
  cases e with
  | alloc v => exact ev_alloc hA v
  | free v => exact ev_free hI hA v
  | use v => exact ev_use hA v
  | use2 x y => exact ev_use2 hA x y
  | deliver v => exact ev_deliver hA v

theorem mem_reserveQ (s : State) : firstUnused s.used ∈ (reserveQ s).reserved := by
  simp [reserveQ]

/-- C13's invariant of the controller survives every event -/
theorem inv_execEv {s : State} (a : Nat) (hI : Inv s) (e : QM.Ev) : Inv (execEv a s e).1 := by
  cases e with
  | alloc v =>
    simp only [execEv, andThen]
    split
    · exact inv_stepF _ _ (inv_stepF _ _ hI)
    · exact inv_stepF _ _ hI
  | free v =>
    simp only [execEv, andThen]
    split
    · exact inv_stepF _ _ (inv_stepF _ _ hI)
    · exact inv_stepF _ _ hI
  | use v =>
    simp only [execEv, andThen]
    split
    · exact hI
    · split
      · exact inv_stepF _ _ (inv_stepF _ _ hI)
      · exact inv_stepF _ _ hI
  | use2 x y =>
    simp only [execEv, andThen]
    split
    · exact hI
    · split
      · exact hI
      · split
        · exact inv_stepF _ _ (by split <;> first | exact inv_stepF _ _ (inv_stepF _ _ hI) | exact inv_stepF _ _ hI)
        · split <;> first | exact inv_stepF _ _ (inv_stepF _ _ hI) | exact inv_stepF _ _ hI
  | deliver v =>
    simp only [execEv]
    split
    · exact inv_reserveQ s hI
    · split
      · exact inv_reserveQ s hI
      · exact inv_keepResp _ a v _ (inv_reserveQ s hI) (mem_reserveQ s)

/-! ### runs -/

theorem run_safe_on_exec {a m : Nat} : ∀ (evs : List QM.Ev) (s : State) (u u' : List Nat),
    Inv s → Abs s a m u → QM.run m u evs = .ok u' →
    (execEvs a s evs).2 = none ∧ Abs (execEvs a s evs).1 a m u' ∧ Inv (execEvs a s evs).1 := by
  intro evs
  induction evs with
  | nil =>
    intro s u u' hI hA h
    simp only [QM.run, Except.ok.injEq] at h
    subst h
    exact ⟨rfl, hA, hI⟩
  | cons e es ih =>
    intro s u u' hI hA h
    simp only [QM.run] at h
    cases hs : QM.step m u e with
    | error f => rw [hs] at h; cases h
    | ok u1 =>
      rw [hs] at h
      obtain ⟨h2, hA1⟩ := (event_step_refines_exec hI hA e).1 u1 hs
      have hI1 := inv_execEv a hI e
      simp only [execEvs]
      generalize hr : execEv a s e = r at h2 hA1 hI1
      obtain ⟨s1, o⟩ := r
      simp only at h2 hA1 hI1
      subst h2
      exact ih s1 u1 u' hI1 hA1 h

theorem run_fault_on_exec {a m : Nat} : ∀ (evs : List QM.Ev) (s : State) (u : List Nat) (f : QM.Fault),
    Inv s → Abs s a m u → QM.run m u evs = .error f →
    ∃ x, (execEvs a s evs).2 = some x ∧ kind x = some f := by
  intro evs
  induction evs with
  | nil => intro s u f _ _ h; simp [QM.run] at h
  | cons e es ih =>
    intro s u f hI hA h
    simp only [QM.run] at h
    cases hs : QM.step m u e with
    | error g =>
      rw [hs] at h
      simp only [Except.error.injEq] at h
      subst h
      obtain ⟨x, hx, hk⟩ := (event_step_refines_exec hI hA e).2 g hs
      refine ⟨x, ?_, hk⟩
      simp only [execEvs]
      generalize hr : execEv a s e = r at hx
      obtain ⟨s1, o⟩ := r
      simp only at hx
      subst hx
      rfl
    | ok u1 =>
      rw [hs] at h
      obtain ⟨h2, hA1⟩ := (event_step_refines_exec hI hA e).1 u1 hs
      have hI1 := inv_execEv a hI e
      simp only [execEvs]
      generalize hr : execEv a s e = r at h2 hA1 hI1
      obtain ⟨s1, o⟩ := r
      simp only at h2 hA1 hI1
      subst h2
      exact ih s1 u1 f hI1 hA1 h

/-! ### flushes and histories -/

/-- the controller state `s` (application `a`) matches the model state: its unit module has the
model's size and allocated set, and C13's invariant holds -/
def Rel (c : QM.Cfg) (st : QM.St) (s : State) (a : Nat) : Prop :=
  Abs s a c.maxq st.unit ∧ Inv s

theorem flush_safe {c : QM.Cfg} {st : QM.St} {s : State} {a : Nat} (hi : QM.Inv c st) (hR : Rel c st s a) :
    (execEvs a s st.evs).2 = none ∧ Rel c (QM.flushSt c st).1 (execEvs a s st.evs).1 a := by
  obtain ⟨u, hu, _⟩ := hi.runs
  obtain ⟨h1, h2, h3⟩ := run_safe_on_exec st.evs s st.unit u hR.2 hR.1 hu
  refine ⟨h1, ?_, h3⟩
  simp only [QM.flushSt, hu]
  exact h2

/-- a history on model and executor side by side: host operations act on the model only; a flush
executes the pending events on the controller -/
def execHist (a : Nat) (c : QM.Cfg) : QM.St × State → List QM.Op → (QM.St × State) × Option XFault
  | x, [] => (x, none)
  | (st, s), op :: ops =>
    match op with
    | .flush =>
      match execEvs a s st.evs with
      | (s', none) => execHist a c ((QM.apply c st .flush).1, s') ops
      | (s', some f) => (((QM.apply c st .flush).1, s'), some f)
    | _ => execHist a c ((QM.apply c st op).1, s) ops

def noClose : List QM.Op → Bool
  | [] => true
  | .close :: _ => false
  | _ :: ops => noClose ops

theorem apply_unit (c : QM.Cfg) (st : QM.St) (op : QM.Op) (h1 : op ≠ .flush) (h2 : op ≠ .close) :
    (QM.apply c st op).1.unit = st.unit := by
  have hfu : ∀ st : QM.St, (QM.freeUp c st).unit = st.unit := by
    intro st; unfold QM.freeUp; split <;> rfl
  have hnv : ∀ (n : Nat) (st st' : QM.St) ids, QM.nvEnt st n = .ok (st', ids) → st'.unit = st.unit := by
    intro n
    induction n with
    | zero => intro st st' ids h; simp [QM.nvEnt] at h; rw [← h.1]
    | succ k ih =>
      intro st st' ids h
      simp only [QM.nvEnt] at h
      split at h
      · cases h; rfl
      · split at h
        · cases h
        · split at h
          · rename_i hr; cases h; have := ih _ _ _ hr; exact this
          · cases h
  have hnve : ∀ (n : Nat) (st st' : QM.St), QM.nvEnt st n = .error st' → st'.unit = st.unit := by
    intro n
    induction n with
    | zero => intro st st' h; simp [QM.nvEnt] at h
    | succ k ih =>
      intro st st' h
      simp only [QM.nvEnt] at h
      split at h
      · cases h
      · split at h
        · cases h; rfl
        · split at h
          · cases h
          · rename_i hr; cases h; have := ih _ _ hr; exact this
  have hgen : ∀ (n : Nat) (st : QM.St), (QM.genEnt st n).1.unit = st.unit := by
    intro n
    induction n with
    | zero => intro st; rfl
    | succ k ih => intro st; simp only [QM.genEnt]; exact ih _
  have hce : ∀ (st : QM.St) n sq, (∀ st' ids, QM.createEnt c st n sq = .ok (st', ids) → st'.unit = st.unit) ∧
      (∀ st', QM.createEnt c st n sq = .error st' → st'.unit = st.unit) := by
    intro st n sq
    unfold QM.createEnt
    constructor
    · intro st' ids h
      split at h
      · split at h
        · cases h; exact hfu st
        · rw [hnv _ _ _ _ h]; exact hfu st
      · split at h
        · cases h; rfl
        · injection h with h; have := hgen n st; rw [h] at this; exact this
    · intro st' h
      split at h
      · split at h
        · cases h
        · rw [hnve _ _ _ h]; exact hfu st
      · split at h <;> cases h
  cases op with
  | flush => exact absurd rfl h1
  | close => exact absurd rfl h2
  | new => rfl
  | gate h => simp only [QM.apply]; split <;> rfl
  | gate2 x y => simp only [QM.apply]; split <;> rfl
  | meas h ip =>
    simp only [QM.apply]
    split
    · split
      · simp only; split
        · exact hfu st
        · rfl
      · rfl
    · rfl
  | free h =>
    simp only [QM.apply]
    split
    · split <;> rfl
    · rfl
  | keep r n =>
    simp only [QM.apply]
    split
    · rfl
    · split
      · rename_i h; have := (hce st n false).2 _ h; exact this
      · rename_i h; have := (hce st n false).1 _ _ h; exact this
  | seq r n b =>
    simp only [QM.apply]
    split
    · rename_i h; have := (hce st n true).2 _ h; exact this
    · rename_i h; have := (hce st n true).1 _ _ h; exact this
  | postk r n b =>
    simp only [QM.apply]
    split
    · rfl
    · split
      · rename_i h; have := (hce st n _).2 _ h; exact this
      · rename_i h; have := (hce st n _).1 _ _ h; exact this
  | ctx r n sq b =>
    simp only [QM.apply]
    split
    · rfl
    · split
      · rename_i h; have := (hce st n _).2 _ h; exact this
      · rename_i h; have := (hce st n _).1 _ _ h; exact this
  | keepr r n f t =>
    simp only [QM.apply]
    split
    · rfl
    · split
      · rename_i h; have := (hce _ n false).2 _ h; rw [this]; exact hfu st
      · rename_i h; have := (hce _ n false).1 _ _ h; show _ = st.unit; rw [← hfu st]; exact this
  | seqr r n b f t =>
    simp only [QM.apply]
    split
    · rename_i h; have := (hce _ n true).2 _ h; rw [this]; exact hfu st
    · rename_i h; have := (hce _ n true).1 _ _ h; show _ = st.unit; rw [← hfu st]; exact this

theorem execHist_other (a : Nat) (c : QM.Cfg) (st : QM.St) (s : State) (op : QM.Op) (ops : List QM.Op)
    (h : op ≠ .flush) :
    execHist a c (st, s) (op :: ops) = execHist a c ((QM.apply c st op).1, s) ops := by
  cases op <;> first | rfl | exact absurd rfl h

theorem hist_safe {a : Nat} {c : QM.Cfg} : ∀ (ops : List QM.Op) (st : QM.St) (s : State),
    QM.Inv c st → Rel c st s a → QM.good c st ops = true → noClose ops = true →
    (execHist a c (st, s) ops).2 = none ∧
      Rel c (execHist a c (st, s) ops).1.1 (execHist a c (st, s) ops).1.2 a ∧
      QM.Inv c (execHist a c (st, s) ops).1.1 := by
  intro ops
  induction ops with
  | nil => intro st s hi hR _ _; exact ⟨rfl, hR, hi⟩
  | cons op ops ih =>
    intro st s hi hR hg hc
    simp only [QM.good, Bool.and_eq_true] at hg
    have hi' := (QM.inv_apply hi hg.1).1
    by_cases hf : op = .flush
    · subst hf
      obtain ⟨h1, h2⟩ := flush_safe hi hR
      simp only [execHist]
      generalize hr : execEvs a s st.evs = r at h1 h2
      obtain ⟨s', o⟩ := r
      simp only at h1 h2
      subst h1
      exact ih _ s' hi' h2 hg.2 (by simpa [noClose] using hc)
    · have hcl : op ≠ .close := by intro e; subst e; simp [noClose] at hc
      rw [execHist_other a c st s op ops hf]
      have hR' : Rel c (QM.apply c st op).1 s a := by
        refine ⟨?_, hR.2⟩
        rw [apply_unit c st op hf hcl]; exact hR.1
      refine ih _ s hi' hR' hg.2 ?_
      cases op <;> first | exact hc | exact absurd rfl hcl

/-- a freshly registered application is related to the initial model state -/
theorem rel_init (c : QM.Cfg) (s : State) (a : Nat) (hI : Inv s) (ha : a ∉ s.registry) :
    Rel c QM.St.init (initApp s a c.maxq).1 a := by
  refine ⟨⟨freshApp c.maxq, ?_, ?_, ?_⟩, inv_initApp' s a c.maxq hI⟩
  · simp [initApp, ha, upd]
  · simp [freshApp]
  · intro v
    simp only [QM.St.init, List.not_mem_nil, false_iff, freshApp]
    rcases Nat.lt_or_ge v c.maxq with h | h
    · simp [List.getElem?_replicate, h]
    · simp [List.getElem?_eq_none, h]

/-! ### instruction-level form (any register, any program counter, either mode) — what a
`QStepOk`-style hypothesis asks of `qalloc` / `qfree` -/

theorem loc_qalloc_ok (hw : Bool) (a : Nat) {l : Loc} {r : XReg} {v m : Nat} {u u' : List Nat} (pc : Int)
    (hr : l.ap.regs r = some (v : Int)) (hU : AbsU l.ap.unit m u) (h : QM.step m u (.alloc v) = .ok u') :
    ∃ l', stepLoc hw a (.qalloc r) l pc = .ok l' (pc + 1) ∧ AbsU l'.ap.unit m u' ∧
      l'.ap.regs = l.ap.regs := by
  have hl := hU.1
  by_cases hv : m ≤ v
  · simp [QM.step, hv] at h
  · by_cases hm : v ∈ u
    · simp [QM.step, hv, hm] at h
    · simp [QM.step, hv, hm] at h
      subst h
      have hge : ¬ ((v : Nat) : Int) ≥ (m : Nat) := by omega
      refine ⟨{ l with ap := { l.ap with unit := l.ap.unit.set v (some (firstUnused l.used)) },
                       used := sadd (firstUnused l.used) l.used }, ?_,
        absU_set_some (v := v) (q := firstUnused l.used) hU (by omega), rfl⟩
      simp only [stepLoc, hr, hl, hge, if_false, pyIdx_nat (show v < m by omega), absU_not_mem hU hm]

theorem loc_qfree_ok (hw : Bool) (a : Nat) {l : Loc} {r : XReg} {v m : Nat} {u u' : List Nat} (pc : Int)
    (hr : l.ap.regs r = some (v : Int)) (hU : AbsU l.ap.unit m u)
    (hused : ∀ q, l.ap.unit[v]?.join = some q → q ∈ l.used) (h : QM.step m u (.free v) = .ok u') :
    ∃ l', stepLoc hw a (.qfree r) l pc = .ok l' (pc + 1) ∧ AbsU l'.ap.unit m u' ∧
      l'.ap.regs = l.ap.regs := by
  have hl := hU.1
  by_cases hv : m ≤ v
  · simp [QM.step, QM.need, hv] at h
  · by_cases hm : v ∈ u
    · simp [QM.step, QM.need, hv, hm] at h
      subst h
      obtain ⟨q, hq⟩ := absU_mem hU hm
      refine ⟨{ l with ap := { l.ap with unit := l.ap.unit.set v none }, used := srem q l.used }, ?_,
        absU_set_none (v := v) hU (by omega), rfl⟩
      simp only [stepLoc, hr, hl, pyIdx_nat (show v < m by omega), hq, hused q hq, if_true]
    · simp [QM.step, QM.need, hv, hm] at h

end NQ.Bridge9
