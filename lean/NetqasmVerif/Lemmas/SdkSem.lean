/-
Label-level semantics (`ProtoExec`) of the proto-commands emitted by the SDK builder model, and the
control-flow / data-flow skeleton lemmas of C05.  Labels are no-ops, a branch to `L` continues after
`L`, literals evaluate to themselves.  (C03 proves that assembling preserves this semantics.)
-/
import NetqasmVerif.Model.SdkExec
set_option linter.unusedSimpArgs false
set_option linter.unusedVariables false
namespace NQ.Sdk

inductive Steps (p : List PCmd) : St × Nat → St × Nat → Prop
  | refl (c : St × Nat) : Steps p c c
  | next {c c' c'' : St × Nat} : step p c = some c' → Steps p c' c'' → Steps p c c''

theorem Steps.trans {p : List PCmd} {a b c : St × Nat} (h1 : Steps p a b) (h2 : Steps p b c) :
    Steps p a c := by
  induction h1 with
  | refl => exact h2
  | next hs _ ih => exact Steps.next hs (ih h2)

theorem Steps.one {p : List PCmd} {a b : St × Nat} (h : step p a = some b) : Steps p a b :=
  Steps.next h (Steps.refl _)

/-- the code segment of length `len` at offset `n` takes `s` to `s'` (and falls through its end) -/
def Runs (p : List PCmd) (n len : Nat) (s s' : St) : Prop := Steps p (s, n) (s', n + len)

/-! ## single steps -/

theorem step_label {p : List PCmd} {n : Nat} {l : Lbl} (s : St) (h : p[n]? = some (.label l)) :
    step p (s, n) = some (s, n + 1) := by simp [step, h]

theorem step_instr {p : List PCmd} {n : Nat} {mn : Mn} {ops : List POp} (s : St)
    (h : p[n]? = some (.instr mn ops)) : step p (s, n) = exec p s n mn ops := by simp [step, h]

/-- the condition of an `if` on operand values -/
def condHolds : Cond → Int → Int → Prop
  | .eq, a, b => a = b
  | .ne, a, b => a ≠ b
  | .lt, a, b => a < b
  | .ge, a, b => a ≥ b
  | .ez, a, _ => a = 0
  | .nz, a, _ => a ≠ 0

instance (c : Cond) (a b : Int) : Decidable (condHolds c a b) := by
  cases c <;> simp only [condHolds] <;> infer_instance

/-- operands of the branch that `_build_cmds_condition` emits -/
def branchOps (c : Cond) (oa ob : POp) (l : Lbl) : List POp :=
  if c.unary then [oa, .lab l] else [oa, ob, .lab l]

/-- the negated branch of an `if` falls through into the body iff the condition holds (all six
conditions, all operand values) -/
theorem branch_taken_iff (p : List PCmd) (s : St) (n t : Nat) (c : Cond) (oa ob : POp) (l : Lbl)
    (va vb : Int) (ha : opVal s oa = some va) (hb : c.unary = false → opVal s ob = some vb)
    (hl : findLabel p l = some t) :
    exec p s n (negBranch c) (branchOps c oa ob l)
      = some (s, if condHolds c va vb then n + 1 else t + 1) := by
  cases c <;> simp [Cond.unary] at hb <;>
    simp only [exec, negBranch, branchOps, Cond.unary, ha, hb, brTaken2, brTaken1, goto, hl, condHolds]
  · by_cases h : va = vb <;> simp [h, ha, hb, hl]
  · by_cases h : va = vb <;> simp [h, ha, hb, hl]
  · by_cases h : va < vb
    · have : ¬ va ≥ vb := by omega
      simp [h, this, ha, hb, hl]
    · have : va ≥ vb := by omega
      simp [h, this, ha, hb, hl]
  · by_cases h : va ≥ vb
    · have : ¬ va < vb := by omega
      simp [h, this, ha, hb, hl]
    · have : va < vb := by omega
      simp [h, this, ha, hb, hl]
  · by_cases h : va = 0 <;> simp [h, ha, hb, hl]
  · by_cases h : va = 0 <;> simp [h, ha, hb, hl]

/-! ## `if` -/

/-- the shape `_build_cmds_condition` emits, located at offset `n` of the subroutine: the negated
branch, a body of `lb` commands, the exit label -/
structure IfAt (p : List PCmd) (n lb : Nat) (c : Cond) (oa ob : POp) (l : Lbl) : Prop where
  hbr : p[n]? = some (.instr (negBranch c) (branchOps c oa ob l))
  hlab : p[n + 1 + lb]? = some (.label l)
  hfind : findLabel p l = some (n + 1 + lb)

theorem if_runs {p : List PCmd} {n lb : Nat} {c : Cond} {oa ob : POp} {l : Lbl}
    (I : IfAt p n lb c oa ob l) (s s' : St) (va vb : Int)
    (ha : opVal s oa = some va) (hb : c.unary = false → opVal s ob = some vb)
    (hc : condHolds c va vb) (hbody : Runs p (n + 1) lb s s') : Runs p n (lb + 2) s s' := by
  unfold Runs at *
  have h1 : step p (s, n) = some (s, n + 1) := by
    rw [step_instr s I.hbr, branch_taken_iff p s n _ c oa ob l va vb ha hb I.hfind, if_pos hc]
  have h2 : step p (s', n + 1 + lb) = some (s', n + 1 + lb + 1) := step_label s' I.hlab
  have e : n + (lb + 2) = n + 1 + lb + 1 := by omega
  rw [e]
  exact Steps.next h1 (Steps.trans hbody (Steps.one h2))

theorem if_skips {p : List PCmd} {n lb : Nat} {c : Cond} {oa ob : POp} {l : Lbl}
    (I : IfAt p n lb c oa ob l) (s : St) (va vb : Int)
    (ha : opVal s oa = some va) (hb : c.unary = false → opVal s ob = some vb)
    (hc : ¬ condHolds c va vb) : Runs p n (lb + 2) s s := by
  unfold Runs
  have h1 : step p (s, n) = some (s, n + 1 + lb + 1) := by
    rw [step_instr s I.hbr, branch_taken_iff p s n _ c oa ob l va vb ha hb I.hfind, if_neg hc]
  have e : n + (lb + 2) = n + 1 + lb + 1 := by omega
  rw [e]
  exact Steps.one h1

/-! ## counted loops -/

/-- the shape `_build_cmds_loop` emits at offset `n` around a body of `lb` commands -/
structure LoopAt (p : List PCmd) (n lb : Nat) (r : Reg) (start stop stp : Int) (le lx : Lbl) : Prop where
  h0 : p[n]? = some (.instr .set [.reg r, .lit start])
  h1 : p[n + 1]? = some (.label le)
  h2 : p[n + 2]? = some (.instr .beq [.reg r, .lit stop, .lab lx])
  h3 : p[n + 3 + lb]? = some (.instr .add [.reg r, .reg r, .lit stp])
  h4 : p[n + 4 + lb]? = some (.instr .jmp [.lab le])
  h5 : p[n + 5 + lb]? = some (.label lx)
  fle : findLabel p le = some (n + 1)
  flx : findLabel p lx = some (n + 5 + lb)

/-- "the index, stepping by `stp`, reaches `stop` after exactly `k` iterations starting from `i`" -/
def ReachesIn (stp stop : Int) : Nat → Int → Prop
  | 0, i => i = stop
  | k + 1, i => i ≠ stop ∧ ReachesIn stp stop k (i + stp)

/-- state after `k` iterations whose index starts at `i`: body with index `i`, then `r := i + stp`, … -/
def iterFrom (body : Int → St → St) (r : Reg) (stp : Int) : Nat → Int → St → St
  | 0, _, s => s
  | k + 1, i, s => iterFrom body r stp k (i + stp) ((body i s).setReg r (i + stp))

theorem loop_from_head {p : List PCmd} {n lb : Nat} {r : Reg} {start stop stp : Int} {le lx : Lbl}
    (L : LoopAt p n lb r start stop stp le lx) (body : Int → St → St)
    (hbody : ∀ i s, s.regs r = some i → Runs p (n + 3) lb s (body i s) ∧ (body i s).regs r = some i) :
    ∀ (k : Nat) (i : Int) (s : St), s.regs r = some i → ReachesIn stp stop k i →
      Steps p (s, n + 2) (iterFrom body r stp k i s, n + 6 + lb) := by
  intro k
  induction k with
  | zero =>
    intro i s hr hk
    simp only [ReachesIn] at hk
    have : step p (s, n + 2) = some (s, n + 5 + lb + 1) := by
      rw [step_instr s L.h2]
      simp [exec, hr, hk, brTaken2, goto, L.flx]
    simp only [iterFrom]
    have e : n + 6 + lb = n + 5 + lb + 1 := by omega
    rw [e]
    exact Steps.one this
  | succ k ih =>
    intro i s hr hk
    obtain ⟨hne, hk'⟩ := hk
    have s1 : step p (s, n + 2) = some (s, n + 3) := by
      rw [step_instr s L.h2]
      simp [exec, hr, hne, brTaken2, goto, L.flx]
    obtain ⟨hb, hbr⟩ := hbody i s hr
    have s2 : step p (body i s, n + 3 + lb) = some ((body i s).setReg r (i + stp), n + 3 + lb + 1) := by
      rw [step_instr _ L.h3]
      simp [exec, hbr]
    have s3 : step p ((body i s).setReg r (i + stp), n + 4 + lb)
        = some ((body i s).setReg r (i + stp), n + 1 + 1) := by
      rw [step_instr _ L.h4]
      simp [exec, goto, L.fle]
    have e1 : n + 3 + lb + 1 = n + 4 + lb := by omega
    rw [e1] at s2
    simp only [iterFrom]
    refine Steps.next s1 (Steps.trans hb (Steps.next s2 (Steps.next s3 ?_)))
    exact ih (i + stp) _ (by simp) hk'

/-! ## loop_until -/

/-- the shape `_build_cmds_loop_until` emits at offset `n`: entry, body (`lb` commands), the load(s)
of the exit operand (`lk` commands), the break branch, cleanup (`lc` commands), exit commands -/
structure UntilAt (p : List PCmd) (n lb lk lc : Nat) (r : Reg) (N : Int) (o : POp) (ev : Int)
    (le lx : Lbl) : Prop where
  h0 : p[n]? = some (.instr .set [.reg r, .lit 0])
  h1 : p[n + 1]? = some (.label le)
  h2 : p[n + 2]? = some (.instr .beq [.reg r, .lit N, .lab lx])
  hbrk : p[n + 3 + lb + lk]? = some (.instr .blt [o, .lit (ev + 1), .lab lx])
  h3 : p[n + 4 + lb + lk + lc]? = some (.instr .add [.reg r, .reg r, .lit 1])
  h4 : p[n + 5 + lb + lk + lc]? = some (.instr .jmp [.lab le])
  h5 : p[n + 6 + lb + lk + lc]? = some (.label lx)
  fle : findLabel p le = some (n + 1)
  flx : findLabel p lx = some (n + 6 + lb + lk + lc)

/-- the exit test of `loop_until` (after the F5 fix): taken iff the value is AT MOST the bound -/
theorem break_at_most (v ev : Int) : brTaken2 .blt v (ev + 1) = some (decide (v ≤ ev)) := by
  simp only [brTaken2]
  congr 1
  by_cases h : v ≤ ev
  · have : v < ev + 1 := by omega
    simp [h, this]
  · have : ¬ v < ev + 1 := by omega
    simp [h, this]

theorem until_max {p : List PCmd} {n lb lk lc : Nat} {r : Reg} {N : Int} {o : POp} {ev : Int} {le lx : Lbl}
    (U : UntilAt p n lb lk lc r N o ev le lx) (s : St) (hr : s.regs r = some N) :
    Steps p (s, n + 2) (s, n + 7 + lb + lk + lc) := by
  have : step p (s, n + 2) = some (s, n + 6 + lb + lk + lc + 1) := by
    rw [step_instr s U.h2]
    simp [exec, hr, brTaken2, goto, U.flx]
  have e : n + 7 + lb + lk + lc = n + 6 + lb + lk + lc + 1 := by omega
  rw [e]; exact Steps.one this

theorem until_exit {p : List PCmd} {n lb lk lc : Nat} {r : Reg} {N : Int} {o : POp} {ev : Int} {le lx : Lbl}
    (U : UntilAt p n lb lk lc r N o ev le lx) (s s1 s2 : St) (j v : Int)
    (hr : s.regs r = some j) (hj : j ≠ N)
    (hbody : Runs p (n + 3) lb s s1) (hload : Runs p (n + 3 + lb) lk s1 s2)
    (hv : opVal s2 o = some v) (hle : v ≤ ev) :
    Steps p (s, n + 2) (s2, n + 7 + lb + lk + lc) := by
  have s0 : step p (s, n + 2) = some (s, n + 3) := by
    rw [step_instr s U.h2]
    simp [exec, hr, hj, brTaken2, goto, U.flx]
  have sb : step p (s2, n + 3 + lb + lk) = some (s2, n + 6 + lb + lk + lc + 1) := by
    rw [step_instr s2 U.hbrk]
    simp [exec, hv, break_at_most, hle, goto, U.flx]
  have e : n + 7 + lb + lk + lc = n + 6 + lb + lk + lc + 1 := by omega
  rw [e]
  unfold Runs at hbody hload
  exact Steps.next s0 (Steps.trans hbody (Steps.trans hload (Steps.one sb)))

theorem until_continue {p : List PCmd} {n lb lk lc : Nat} {r : Reg} {N : Int} {o : POp} {ev : Int}
    {le lx : Lbl} (U : UntilAt p n lb lk lc r N o ev le lx) (s s1 s2 s3 : St) (j v : Int)
    (hr : s.regs r = some j) (hj : j ≠ N)
    (hbody : Runs p (n + 3) lb s s1) (hload : Runs p (n + 3 + lb) lk s1 s2)
    (hv : opVal s2 o = some v) (hgt : ¬ v ≤ ev)
    (hclean : Runs p (n + 4 + lb + lk) lc s2 s3) (hr3 : s3.regs r = some j) :
    Steps p (s, n + 2) (s3.setReg r (j + 1), n + 2) := by
  have s0 : step p (s, n + 2) = some (s, n + 3) := by
    rw [step_instr s U.h2]
    simp [exec, hr, hj, brTaken2, goto, U.flx]
  have sb : step p (s2, n + 3 + lb + lk) = some (s2, n + 3 + lb + lk + 1) := by
    rw [step_instr s2 U.hbrk]
    simp [exec, hv, break_at_most, hgt, goto, U.flx]
  have sa : step p (s3, n + 4 + lb + lk + lc) = some (s3.setReg r (j + 1), n + 4 + lb + lk + lc + 1) := by
    rw [step_instr s3 U.h3]
    simp [exec, hr3]
  have sj : step p (s3.setReg r (j + 1), n + 5 + lb + lk + lc) = some (s3.setReg r (j + 1), n + 1 + 1) := by
    rw [step_instr _ U.h4]
    simp [exec, goto, U.fle]
  unfold Runs at hbody hload hclean
  have e1 : n + 3 + lb + lk + 1 = n + 4 + lb + lk := by omega
  have e2 : n + 4 + lb + lk + lc + 1 = n + 5 + lb + lk + lc := by omega
  rw [e1] at sb; rw [e2] at sa
  exact Steps.next s0 (Steps.trans hbody (Steps.trans hload (Steps.next sb
    (Steps.trans hclean (Steps.next sa (Steps.one sj))))))

/-! ## data flow -/

/-- result of `add` / `addm` -/
def addRes (v w : Int) : Option Int → Int
  | none => v + w
  | some m => (v + w) % m

theorem exec_addInstr (p : List PCmd) (s : St) (pc : Nat) (r : Reg) (o : POp) (md : Option Int)
    (v w : Int) (hr : s.regs r = some v) (ho : opVal s o = some w) (hm : ∀ m, md = some m → 1 ≤ m) :
    (match addInstr r o md with
      | .instr mn ops => exec p s pc mn ops
      | .label _ => none) = some (s.setReg r (addRes v w md), pc + 1) := by
  cases md with
  | none => simp [addInstr, exec, hr, ho, addRes]
  | some m =>
    have : ¬ m < 1 := by have := hm m rfl; omega
    simp [addInstr, exec, hr, ho, addRes, this]

theorem step_addInstr {p : List PCmd} {n : Nat} (s : St) (r : Reg) (o : POp) (md : Option Int)
    (v w : Int) (h : p[n]? = some (addInstr r o md))
    (hr : s.regs r = some v) (ho : opVal s o = some w) (hm : ∀ m, md = some m → 1 ≤ m) :
    step p (s, n) = some (s.setReg r (addRes v w md), n + 1) := by
  have := exec_addInstr p s n r o md v w hr ho hm
  cases md with
  | none => simp [addInstr] at h this; rw [step_instr s h]; exact this
  | some m => simp [addInstr] at h this; rw [step_instr s h]; exact this

/-- `RegFuture.add(other, mod)` — one instruction on the handle's register -/
theorem addR_runs {p : List PCmd} {n : Nat} (s : St) (r : Reg) (o : POp) (md : Option Int) (v w : Int)
    (h : p[n]? = some (addInstr r o md))
    (hr : s.regs r = some v) (ho : opVal s o = some w) (hm : ∀ m, md = some m → 1 ≤ m) :
    Runs p n 1 s (s.setReg r (addRes v w md)) :=
  Steps.one (step_addInstr s r o md v w h hr ho hm)

/-- `Future.add(other, mod)` on an entry with a literal index: load, add, store -/
theorem addF_runs {p : List PCmd} {n : Nat} (s : St) (t : Reg) (a i : Nat) (o : POp) (md : Option Int)
    (l : List (Option Int)) (v w : Int)
    (h0 : p[n]? = some (.instr .load [.reg t, .entryL a i]))
    (h1 : p[n + 1]? = some (addInstr t o md))
    (h2 : p[n + 2]? = some (.instr .store [.reg t, .entryL a i]))
    (ha : s.arrs a = some l) (hv : l[i]? = some (some v))
    (ho : opVal (s.setReg t v) o = some w) (hm : ∀ m, md = some m → 1 ≤ m) :
    Runs p n 3 s (((s.setReg t v).setReg t (addRes v w md)).setArr a (l.set i (some (addRes v w md)))) := by
  have hi : i < l.length := by
    by_cases hi : i < l.length
    · exact hi
    · simp [List.getElem?_eq_none (Nat.le_of_not_lt hi)] at hv
  have s0 : step p (s, n) = some (s.setReg t v, n + 1) := by
    rw [step_instr s h0]; simp [exec, readEntry, entryLoc, ha, hv]
  have s1 := step_addInstr (s.setReg t v) t o md v w h1 (by simp) ho hm
  have s2 : step p ((s.setReg t v).setReg t (addRes v w md), n + 2)
      = some (((s.setReg t v).setReg t (addRes v w md)).setArr a (l.set i (some (addRes v w md))), n + 2 + 1) := by
    rw [step_instr _ h2]; simp [exec, writeEntry, entryLoc, ha, hi]
  exact Steps.next s0 (Steps.next s1 (Steps.one s2))

/-- a future-indexed Future: `load t @b[j]; load r @a[t]` reads `a[b[j]]` -/
theorem future_indexed_load_runs {p : List PCmd} {n : Nat} (s : St) (t r : Reg) (a b j : Nat)
    (lb la : List (Option Int)) (k v : Int)
    (h0 : p[n]? = some (.instr .load [.reg t, .entryL b j]))
    (h1 : p[n + 1]? = some (.instr .load [.reg r, .entryR a t]))
    (hb : s.arrs b = some lb) (hk : lb[j]? = some (some k)) (hk0 : 0 ≤ k)
    (ha : s.arrs a = some la) (hv : la[k.toNat]? = some (some v)) :
    Runs p n 2 s ((s.setReg t k).setReg r v) := by
  have s0 : step p (s, n) = some (s.setReg t k, n + 1) := by
    rw [step_instr s h0]; simp [exec, readEntry, entryLoc, hb, hk]
  have s1 : step p (s.setReg t k, n + 1) = some ((s.setReg t k).setReg r v, n + 1 + 1) := by
    rw [step_instr _ h1]; simp [exec, readEntry, entryLoc, hk0, ha, hv]
  exact Steps.next s0 (Steps.one s1)

/-- sequencing of code segments -/
theorem runs_seq {p : List PCmd} {n l1 l2 : Nat} {s s1 s2 : St}
    (h1 : Runs p n l1 s s1) (h2 : Runs p (n + l1) l2 s1 s2) : Runs p n (l1 + l2) s s2 := by
  unfold Runs at *
  rw [← Nat.add_assoc]
  exact Steps.trans h1 h2

/-- `ret_arr` / `ret_reg` publish the controller's value at the handle's location -/
theorem ret_arr_publishes {p : List PCmd} {n : Nat} (s : St) (a : Nat) (l : List (Option Int))
    (h : p[n]? = some (.instr .retArr [.addr a])) (ha : s.arrs a = some l) :
    ∃ s', step p (s, n) = some (s', n + 1) ∧ s'.shmArrs a = s'.arrs a ∧ s'.arrs = s.arrs ∧ s'.regs = s.regs := by
  refine ⟨{ s with shmArrs := fun x => if x = a then some l else s.shmArrs x }, ?_, ?_, rfl, rfl⟩
  · rw [step_instr s h]; simp [exec, ha]
  · simp [ha]

theorem ret_reg_publishes {p : List PCmd} {n : Nat} (s : St) (r : Reg) (v : Int)
    (h : p[n]? = some (.instr .retReg [.reg r])) (hr : s.regs r = some v) :
    ∃ s', step p (s, n) = some (s', n + 1) ∧ s'.shmRegs r = s'.regs r ∧ s'.arrs = s.arrs ∧ s'.regs = s.regs := by
  refine ⟨{ s with shmRegs := fun x => if x = r then some v else s.shmRegs x }, ?_, ?_, rfl, rfl⟩
  · rw [step_instr s h]; simp [exec, hr]
  · simp [hr]


/-! ## the shapes the builder model emits -/

/-- labels chosen by `_build_cmds_loop` -/
def loopLabels (m : Mem) : Lbl × Lbl := ((newLabel m 1).2, (newLabel (newLabel m 1).1 2).2)

def loopCode (r : Reg) (start stop stp : Int) (le lx : Lbl) (body : List PCmd) : List PCmd :=
  [.instr .set [.reg r, .lit start], .label le, .instr .beq [.reg r, .lit stop, .lab lx]]
    ++ body ++ [.instr .add [.reg r, .reg r, .lit stp], .instr .jmp [.lab le], .label lx]

theorem buildLoop_shape (m : Mem) (start stop stp : Int) (r : Reg) (body : List PCmd) (hb : body ≠ []) :
    (buildLoop m start stop stp r body).2
      = loopCode r start stop stp (loopLabels m).1 (loopLabels m).2 body := by
  have : body.isEmpty = false := by cases body <;> simp_all
  simp [buildLoop, this, loopCode, loopLabels]

theorem idx_mid (pre code post : List PCmd) (k : Nat) (hk : k < code.length) :
    (pre ++ code ++ post)[pre.length + k]? = code[k]? := by
  rw [List.append_assoc, List.getElem?_append_right (by omega)]
  simp [List.getElem?_append_left hk]

theorem idx_tail (A body C : List PCmd) (j : Nat) :
    (A ++ body ++ C)[A.length + body.length + j]? = C[j]? := by
  rw [List.getElem?_append_right (by simp)]
  try simp

theorem loopAt_of_layout (pre post body : List PCmd) (r : Reg) (start stop stp : Int) (le lx : Lbl)
    (hle : findLabel (pre ++ loopCode r start stop stp le lx body ++ post) le = some (pre.length + 1))
    (hlx : findLabel (pre ++ loopCode r start stop stp le lx body ++ post) lx
      = some (pre.length + 5 + body.length)) :
    LoopAt (pre ++ loopCode r start stop stp le lx body ++ post) pre.length body.length r start stop stp le lx := by
  have hlen : (loopCode r start stop stp le lx body).length = body.length + 6 := by
    simp [loopCode]
  have front : ∀ k, k < 3 → (loopCode r start stop stp le lx body)[k]?
      = [PCmd.instr .set [.reg r, .lit start], .label le, .instr .beq [.reg r, .lit stop, .lab lx]][k]? := by
    intro k hk
    unfold loopCode
    rw [List.append_assoc, List.getElem?_append_left (by simpa using hk)]
  have back : ∀ j, (loopCode r start stop stp le lx body)[3 + body.length + j]?
      = [PCmd.instr .add [.reg r, .reg r, .lit stp], .instr .jmp [.lab le], .label lx][j]? := by
    intro j
    unfold loopCode
    exact idx_tail _ _ _ j
  refine ⟨?_, ?_, ?_, ?_, ?_, ?_, hle, hlx⟩
  · have := idx_mid pre _ post 0 (by omega : 0 < (loopCode r start stop stp le lx body).length)
    rw [Nat.add_zero] at this; rw [this, front 0 (by omega)]; rfl
  · rw [idx_mid pre _ post 1 (by omega), front 1 (by omega)]; rfl
  · rw [idx_mid pre _ post 2 (by omega), front 2 (by omega)]; rfl
  · have e : pre.length + 3 + body.length = pre.length + (3 + body.length + 0) := by omega
    rw [e, idx_mid pre _ post _ (by omega), back 0]; rfl
  · have e : pre.length + 4 + body.length = pre.length + (3 + body.length + 1) := by omega
    rw [e, idx_mid pre _ post _ (by omega), back 1]; rfl
  · have e : pre.length + 5 + body.length = pre.length + (3 + body.length + 2) := by omega
    rw [e, idx_mid pre _ post _ (by omega), back 2]; rfl


/-- the code of `_build_cmds_condition` when both operands need no load (literal / RegFuture) -/
def ifCode (c : Cond) (oa ob : POp) (l : Lbl) (body : List PCmd) : List PCmd :=
  [.instr (negBranch c) (branchOps c oa ob l)] ++ body ++ [.label l]

theorem buildCondition_shape (m : Mem) (c : Cond) (a b : Val) (oa ob : POp) (body : List PCmd)
    (hb : body ≠ [])
    (ha : condOperand (newLabel m 0).1 a = .ok ((newLabel m 0).1, [], oa, none))
    (hbv : condOperand (newLabel m 0).1 b = .ok ((newLabel m 0).1, [], ob, none)) :
    buildCondition m c a b body = .ok ((newLabel m 0).1, ifCode c oa ob (newLabel m 0).2 body) := by
  have : body.isEmpty = false := by cases body <;> simp_all
  unfold buildCondition
  rw [this]
  simp only [Bool.false_eq_true, if_false]
  unfold branchCmds
  simp only
  by_cases hu : c.unary = true
  · simp [hu, ha, releaseOpt, ifCode, branchOps]
  · simp [hu, ha, hbv, releaseOpt, ifCode, branchOps]

theorem ifAt_of_layout (pre post body : List PCmd) (c : Cond) (oa ob : POp) (l : Lbl)
    (hl : findLabel (pre ++ ifCode c oa ob l body ++ post) l = some (pre.length + 1 + body.length)) :
    IfAt (pre ++ ifCode c oa ob l body ++ post) pre.length body.length c oa ob l := by
  have hlen : (ifCode c oa ob l body).length = body.length + 2 := by simp [ifCode]
  refine ⟨?_, ?_, hl⟩
  · have := idx_mid pre (ifCode c oa ob l body) post 0 (by omega)
    rw [Nat.add_zero] at this; rw [this]; simp [ifCode]
  · have e : pre.length + 1 + body.length = pre.length + (1 + body.length + 0) := by omega
    rw [e, idx_mid pre _ post _ (by omega)]
    unfold ifCode
    have := idx_tail [PCmd.instr (negBranch c) (branchOps c oa ob l)] body [PCmd.label l] 0
    simpa using this


end NQ.Sdk
