/-
Compiler correctness of the SDK builder model (C05), part 7: one flush —
`subrt_pop_pending_subroutine` + `_reset`: array initialisation, the pending commands of the segment,
`ret_arr` / `ret_reg`; the invariant between two flushes.
-/
import NetqasmVerif.Lemmas.SdkInv2
set_option linter.unusedSimpArgs false
set_option linter.unusedVariables false
namespace NQ.Sdk

/-! ## helpers on `Rel` -/

theorem Rel.congrT {H : List (Reg × Bool)} {L MH : List Nat} {act mu : List Bool} {hs : HSt} {ts ts' : St}
    (h : Rel H L MH act mu hs ts) (hr : ts'.regs = ts.regs) (ha : ts'.arrs = ts.arrs)
    (ht : ts'.trace = ts.trace) (ho : ts'.outcomes = ts.outcomes) : Rel H L MH act mu hs ts' :=
  ⟨ha.trans h.arrs, ht.trans h.trace, ho.trans h.outs,
   fun hh v hv => by
     obtain ⟨r, b, e1, e2, e3⟩ := h.regs hh v hv
     exact ⟨r, b, e1, by rw [hr]; exact e2, e3⟩,
   h.inj, h.lens, h.mh⟩

theorem clearAll_hregs : ∀ (l : List Nat) (s : HSt) (h : Nat),
    (clearAll s l).hregs h = if h ∈ l then none else s.hregs h
  | [], s, h => by simp [clearAll]
  | x :: xs, s, h => by
    simp only [clearAll]
    rw [clearAll_hregs xs]
    by_cases e : h = x
    · subst e; simp [HSt.clearH]
    · by_cases e2 : h ∈ xs <;> simp [HSt.clearH, e, e2]

theorem clearAll_other : ∀ (l : List Nat) (s : HSt),
    (clearAll s l).arrs = s.arrs ∧ (clearAll s l).trace = s.trace ∧ (clearAll s l).outcomes = s.outcomes
  | [], s => ⟨rfl, rfl, rfl⟩
  | x :: xs, s => by
    simp only [clearAll]
    have := clearAll_other xs (s.clearH x)
    exact ⟨this.1, this.2.1, this.2.2⟩

/-- at a flush the measurement registers are recycled and their handles die -/
theorem Rel.flushClear {H : List (Reg × Bool)} {L MH : List Nat} {act mu mu' : List Bool} {hs : HSt} {ts : St}
    (h : Rel H L MH act mu hs ts) : Rel H L [] act mu' (clearAll hs MH) ts := by
  have ho := clearAll_other MH hs
  have key : ∀ hh v, (clearAll hs MH).hregs hh = some v → hh ∉ MH ∧ hs.hregs hh = some v := by
    intro hh v hv
    rw [clearAll_hregs] at hv
    by_cases e : hh ∈ MH
    · simp [e] at hv
    · simp [e] at hv; exact ⟨e, hv⟩
  refine ⟨by rw [ho.1]; exact h.arrs, by rw [ho.2.1]; exact h.trace, by rw [ho.2.2]; exact h.outs, ?_, ?_, ?_, ?_⟩
  · intro hh v hv
    obtain ⟨hn, hv'⟩ := key hh v hv
    obtain ⟨r, b, e1, e2, e3⟩ := h.regs hh v hv'
    refine ⟨r, b, e1, e2, ?_⟩
    rcases e3 with e3 | e3
    · exact Or.inl e3
    · exact absurd (h.mh hh v r b hv' e1 e3.1) hn
  · intro h1 h2 v1 v2 r b1 b2 hv1 hv2
    exact h.inj h1 h2 v1 v2 r b1 b2 (key h1 v1 hv1).2 (key h2 v2 hv2).2
  · intro a n hn
    rw [ho.1]; exact h.lens a n hn
  · intro hh v r b hv hH hb
    obtain ⟨hn, hv'⟩ := key hh v hv
    exact absurd (h.mh hh v r b hv' hH hb) hn

/-! ## returning arrays and registers -/

def retArrCmds (ds : List ArrDecl) : List PCmd := ds.map (fun d => PCmd.instr .retArr [.addr d.addr])
def retRegCmds (rs : List Reg) : List PCmd := rs.map (fun r => PCmd.instr .retReg [.reg r])

theorem retArr_nolab : ∀ ds, labelsIn (retArrCmds ds) = []
  | [] => rfl
  | d :: ds => by simp [retArrCmds, labelsIn]; exact retArr_nolab ds

theorem retReg_nolab : ∀ rs, labelsIn (retRegCmds rs) = []
  | [] => rfl
  | r :: rs => by simp [retRegCmds, labelsIn]; exact retReg_nolab rs

/-- only the shared memory differs -/
structure ShmOnly (ts ts' : St) : Prop where
  regs : ts'.regs = ts.regs
  arrs : ts'.arrs = ts.arrs
  trace : ts'.trace = ts.trace
  outs : ts'.outcomes = ts.outcomes

theorem ShmOnly.refl (ts : St) : ShmOnly ts ts := ⟨rfl, rfl, rfl, rfl⟩
theorem ShmOnly.trans {a b c : St} (h1 : ShmOnly a b) (h2 : ShmOnly b c) : ShmOnly a c :=
  ⟨h2.regs.trans h1.regs, h2.arrs.trans h1.arrs, h2.trace.trans h1.trace, h2.outs.trans h1.outs⟩

theorem retArrs_sim : ∀ (ds : List ArrDecl) (p : List PCmd) (n : Nat) (ts : St),
    Placed p n (retArrCmds ds) → (∀ d ∈ ds, ∃ l, ts.arrs d.addr = some l) →
    ∃ ts', Runs p n (retArrCmds ds).length ts ts' ∧ ShmOnly ts ts' ∧ ts'.shmRegs = ts.shmRegs ∧
      (∀ d ∈ ds, ts'.shmArrs d.addr = ts.arrs d.addr) ∧
      (∀ a, (∀ d ∈ ds, d.addr ≠ a) → ts'.shmArrs a = ts.shmArrs a)
  | [], p, n, ts, _, _ => ⟨ts, Runs.refl _ _ _, ShmOnly.refl _, rfl, fun d hd => (by cases hd), fun _ _ => rfl⟩
  | d :: ds, p, n, ts, hpl, hex => by
    obtain ⟨l, hl⟩ := hex d (by simp)
    simp only [retArrCmds, List.map_cons] at hpl
    let ts1 : St := { ts with shmArrs := fun x => if x = d.addr then some l else ts.shmArrs x }
    have r0 : Runs p n 1 ts ts1 := runs_instr hpl.head (by simp [exec, hl, ts1])
    obtain ⟨ts', hr, hso, hsr, hin, hout⟩ := retArrs_sim ds p (n + 1) ts1 hpl.tail
      (fun d' hd' => hex d' (by simp [hd']))
    refine ⟨ts', runs_cast (runs_seq r0 hr) (by simp [retArrCmds]; omega),
      (⟨rfl, rfl, rfl, rfl⟩ : ShmOnly ts ts1).trans hso, hsr, ?_, ?_⟩
    · intro d' hd'
      simp only [List.mem_cons] at hd'
      by_cases hmem : d' ∈ ds
      · exact hin d' hmem
      · rcases hd' with rfl | hd'
        · by_cases hdup : ∃ x, x ∈ ds ∧ x.addr = d'.addr
          · obtain ⟨x, hx, hxa⟩ := hdup
            rw [← hxa]; exact hin x hx
          · have hnd : ∀ x ∈ ds, x.addr ≠ d'.addr := fun x hx e => hdup ⟨x, hx, e⟩
            rw [hout _ hnd]; simp [ts1, hl]
        · exact absurd hd' hmem
    · intro a ha
      rw [hout a (fun x hx => ha x (by simp [hx]))]
      have : a ≠ d.addr := fun e => ha d (by simp) e.symm
      simp [ts1, this]

theorem retRegs_sim : ∀ (rs : List Reg) (p : List PCmd) (n : Nat) (ts : St),
    Placed p n (retRegCmds rs) → (∀ r ∈ rs, ∃ v, ts.regs r = some v) →
    ∃ ts', Runs p n (retRegCmds rs).length ts ts' ∧ ShmOnly ts ts' ∧ ts'.shmArrs = ts.shmArrs ∧
      (∀ r ∈ rs, ts'.shmRegs r = ts.regs r)
  | [], p, n, ts, _, _ => ⟨ts, Runs.refl _ _ _, ShmOnly.refl _, rfl, fun r hr => (by cases hr)⟩
  | r :: rs, p, n, ts, hpl, hex => by
    obtain ⟨v, hv⟩ := hex r (by simp)
    simp only [retRegCmds, List.map_cons] at hpl
    let ts1 : St := { ts with shmRegs := fun x => if x = r then some v else ts.shmRegs x }
    have r0 : Runs p n 1 ts ts1 := runs_instr hpl.head (by simp [exec, hv, ts1])
    -- a general statement for the rest: registers already returned keep their value
    have gen : ∀ (rs : List Reg) (n : Nat) (ts1 : St), Placed p n (retRegCmds rs) →
        (∀ r ∈ rs, ∃ v, ts1.regs r = some v) →
        ∃ ts', Runs p n (retRegCmds rs).length ts1 ts' ∧ ShmOnly ts1 ts' ∧ ts'.shmArrs = ts1.shmArrs ∧
          (∀ r ∈ rs, ts'.shmRegs r = ts1.regs r) ∧ (∀ x, x ∉ rs → ts'.shmRegs x = ts1.shmRegs x) := by
      intro rs
      induction rs with
      | nil => intro n ts1 _ _; exact ⟨ts1, Runs.refl _ _ _, ShmOnly.refl _, rfl, fun r hr => (by cases hr), fun _ _ => rfl⟩
      | cons r0 rs ih =>
        intro n ts1 hpl hex
        obtain ⟨v0, hv0⟩ := hex r0 (by simp)
        simp only [retRegCmds, List.map_cons] at hpl
        let ts2 : St := { ts1 with shmRegs := fun x => if x = r0 then some v0 else ts1.shmRegs x }
        have r1 : Runs p n 1 ts1 ts2 := runs_instr hpl.head (by simp [exec, hv0, ts2])
        obtain ⟨ts', hr, hso, hsa, hin, hout⟩ := ih (n + 1) ts2 hpl.tail (fun r' hr' => hex r' (by simp [hr']))
        refine ⟨ts', runs_cast (runs_seq r1 hr) (by simp [retRegCmds]; omega),
          (⟨rfl, rfl, rfl, rfl⟩ : ShmOnly ts1 ts2).trans hso, hsa, ?_, ?_⟩
        · intro r' hr'
          by_cases hmem : r' ∈ rs
          · exact hin r' hmem
          · simp only [List.mem_cons] at hr'
            rcases hr' with rfl | hr'
            · rw [hout _ hmem]; simp [ts2, hv0]
            · exact absurd hr' hmem
        · intro x hx
          simp only [List.mem_cons, not_or] at hx
          rw [hout x hx.2]; simp [ts2, hx.1]
    obtain ⟨ts', hr, hso, hsa, hin, hout⟩ := gen rs (n + 1) ts1 hpl.tail (fun r' hr' => hex r' (by simp [hr']))
    refine ⟨ts', runs_cast (runs_seq r0 hr) (by simp [retRegCmds]; omega),
      (⟨rfl, rfl, rfl, rfl⟩ : ShmOnly ts ts1).trans hso, hsa, ?_⟩
    intro r' hr'
    by_cases hmem : r' ∈ rs
    · exact hin r' hmem
    · simp only [List.mem_cons] at hr'
      rcases hr' with rfl | hr'
      · rw [hout _ hmem]; simp [ts1, hv]
      · exact absurd hr' hmem

/-! ## initialisation -/

theorem applyDecls_at : ∀ (ds : List ArrDecl) (arrs : Arrs) (d : ArrDecl), (ds.map (·.addr)).Nodup → d ∈ ds →
    applyDecls arrs ds d.addr = some (initList d)
  | [], _, d, _, h => by cases h
  | x :: xs, arrs, d, hn, h => by
    simp only [List.map_cons, List.nodup_cons] at hn
    simp only [applyDecls]
    simp only [List.mem_cons] at h
    rcases h with rfl | h
    · rw [applyDecls_other]
      · simp [updArr]
      · intro d' hd' e
        exact hn.1 (by rw [← e]; exact List.mem_map_of_mem hd')
    · exact applyDecls_at xs _ d hn.2 h

theorem initList_length {d : ArrDecl} (h : DeclOK d) : (initList d).length = d.len := by
  unfold initList
  cases hi : d.init with
  | none => simp
  | some vs => simp [DeclOK, hi] at h; simp [h]

theorem initArray_sameL {m m' : Mem} {pend out : List PCmd} {d : ArrDecl}
    (h : initArray m pend d = .ok (m', out)) : SameButL m m' := by
  unfold initArray at h
  simp only at h
  split at h
  · cases h; exact SameButL.refl _
  · split at h
    · split at h
      · cases h
      · split at h
        · cases h
        · rename_i m1 h1
          split at h
          · cases h
          · rename_i m3 h3
            cases h
            exact ((activate_same h1).toL.trans (buildLoop_sameL _ _ _ _ _ _)).trans (release_same h3).toL
    · cases h; exact SameButL.refl _

theorem initArrays_sameL : ∀ (ds : List ArrDecl) (m m' : Mem) (pend out : List PCmd),
    initArrays m pend ds = .ok (m', out) → SameButL m m'
  | [], m, m', pend, out, h => by simp [initArrays] at h; rw [← h.1]; exact SameButL.refl _
  | d :: ds, m, m', pend, out, h => by
    simp only [initArrays] at h
    split at h
    · cases h
    · rename_i m1 p1 h1
      exact (initArray_sameL h1).trans (initArrays_sameL ds m1 m' p1 out h)

/-! ## the length table against the declarations -/

theorem lens_lookup {l0 : List Nat} {ds : List ArrDecl}
    (hadr : ds.map (·.addr) = List.range' l0.length ds.length) (a n : Nat)
    (h : (l0 ++ ds.map (·.len))[a]? = some n) :
    (a < l0.length ∧ l0[a]? = some n) ∨ (∃ d ∈ ds, d.addr = a ∧ d.len = n) := by
  by_cases ha : a < l0.length
  · left; rw [List.getElem?_append_left ha] at h; exact ⟨ha, h⟩
  · right
    rw [List.getElem?_append_right (Nat.le_of_not_lt ha)] at h
    rw [List.getElem?_map] at h
    cases hd : ds[a - l0.length]? with
    | none => rw [hd] at h; cases h
    | some d =>
      rw [hd] at h; simp at h
      have hk : a - l0.length < ds.length := by
        by_cases hk : a - l0.length < ds.length
        · exact hk
        · simp [List.getElem?_eq_none (Nat.le_of_not_lt hk)] at hd
      refine ⟨d, List.mem_of_getElem? hd, ?_, h⟩
      have := congrArg (fun l => l[a - l0.length]?) hadr
      simp only [List.getElem?_map, hd, Option.map_some] at this
      rw [List.getElem?_range' hk] at this
      simp at this
      omega

theorem lens_of_decl {l0 : List Nat} {ds : List ArrDecl}
    (hadr : ds.map (·.addr) = List.range' l0.length ds.length) {d : ArrDecl} (hd : d ∈ ds) :
    (l0 ++ ds.map (·.len))[d.addr]? = some d.len := by
  obtain ⟨k, hk, hkd⟩ := List.getElem_of_mem hd
  have hget : ds[k]? = some d := by rw [List.getElem?_eq_getElem hk, hkd]
  have := congrArg (fun l => l[k]?) hadr
  simp only [List.getElem?_map, hget, Option.map_some] at this
  rw [List.getElem?_range' hk] at this
  simp at this
  rw [this, List.getElem?_append_right (by omega)]
  simp [List.getElem?_map, hget]

/-! ## one flush -/

/-- the invariant between two flushes -/
structure SegInv (m : Mem) (hs : HSt) (ts : St) : Prop where
  rel : Rel m.handles m.arrLens [] m.active m.measUsed hs ts
  lbl : m.lbl.length = 5
  aret : m.arraysToReturn = []
  rret : m.regsToReturn = []

/-- what the host reads from shared memory after the flush: the arrays created in the segment and the
registers returned by it hold the controller's (= `HostSem`'s) values -/
structure ViewOK (m1 : Mem) (hs1 : HSt) (ts1 : St) : Prop where
  arrs : ∀ d ∈ m1.arraysToReturn, (hs1.arrs d.addr).isSome ∧ ts1.shmArrs d.addr = hs1.arrs d.addr
  regs : ∀ r ∈ m1.regsToReturn, ∃ (h : Nat) (b : Bool) (v : Int),
    m1.handles[h]? = some (r, b) ∧ hs1.hregs h = some v ∧ ts1.shmRegs r = some v

theorem segment_sim {m0 m1 m2 : Mem} {ops : List Host} {pend sub : List PCmd} {fuel : Nat}
    {hs0 hs1 : HSt} {ts0 : St} {nh1 na1 : Nat}
    (hinv : SegInv m0 hs0 ts0) (htop : ∀ op ∈ ops, TopOK op)
    (he : emitOps m0 ops = .ok (m1, pend)) (hf : flush m1 pend = .ok (m2, some sub))
    (hh : runSegment fuel m0.handles.length m0.arrLens.length ops hs0 = some (hs1, nh1, na1)) :
    ∃ ts1, Runs sub 0 sub.length ts0 ts1 ∧
      SegInv m2 (clearAll hs1 (segMHandles m0.handles.length ops)) ts1 ∧
      nh1 = m2.handles.length ∧ na1 = m2.arrLens.length ∧ ViewOK m1 hs1 ts1 := by
  unfold flush at hf
  split at hf
  · cases hf
  · rename_i m1' ini hini
    simp only at hf
    split at hf
    · cases hf
    · cases hf
      -- tables
      obtain ⟨⟨t, ht⟩, _, haret0⟩ := emitOps_tables ops m0 m1 pend he
      have haret : m1.arraysToReturn = segDecls m0.arrLens.length ops := by rw [haret0, hinv.aret]; simp
      have hlens := emitOps_lens ops m0 m1 pend he
      have hadr := segDecls_addr ops m0.arrLens.length
      have sL := initArrays_sameL _ _ _ _ _ hini
      have hact := emitOps_active ops m0 m1 pend htop he
      have hactI : m1'.active = m1.active := initArrays_active _ _ _ _ _ hini
      -- labels
      have fp := emitOps_fresh ops m0 m1 pend hinv.lbl he
      have fi := initArrays_fresh _ m1 m1 m1' [] ini (Fresh.nolabel fp.len rfl rfl) hini
      have hnd : (labelsIn (ini ++ pend ++ retArrCmds m1'.arraysToReturn ++ retRegCmds m1'.regsToReturn)).Nodup := by
        have f := fp.seq fi
        have hperm : (labelsIn (ini ++ pend ++ retArrCmds m1'.arraysToReturn ++ retRegCmds m1'.regsToReturn)).Perm
            (labelsIn (pend ++ ini)) := by
          simp only [labelsIn_append, retArr_nolab, retReg_nolab, List.append_nil]
          exact List.perm_append_comm
        exact hperm.nodup_iff.mpr f.nodup
      have hplW := Placed.whole _ hnd
      have plI : Placed _ 0 ini := hplW.left.left.left
      have plP := hplW.left.left.right
      have plA := hplW.left.right
      have plR := hplW.right
      -- 1. declarations and initial values
      have hpo := initArrays_sim m1.arraysToReturn m1 m1' [] ini [] hini (PendOK.nil _)
        (by rw [haret, List.nil_append, hadr]; exact List.nodup_range')
        (by rw [haret]; exact segDecls_ok ops _)
      obtain ⟨ts_a, hra, hqa, haa⟩ := hpo _ 0 ts0 plI
      rw [List.nil_append, haret] at haa
      have hdspec := initDecls_spec hs0 (segDecls m0.arrLens.length ops)
      have hrelInit : Rel m1.handles m1.arrLens [] m0.active m0.measUsed
          (initDecls hs0 (segDecls m0.arrLens.length ops)) ts_a := by
        have R0 := hinv.rel
        have hreg0 : ∀ hh v, (initDecls hs0 (segDecls m0.arrLens.length ops)).hregs hh = some v →
            hs0.hregs hh = some v := by intro hh v hv; rwa [hdspec.2.1] at hv
        refine ⟨?_, ?_, ?_, ?_, ?_, ?_, ?_⟩
        · rw [haa, hdspec.1, R0.arrs]
        · rw [hqa.trace, hdspec.2.2.1]; exact R0.trace
        · rw [hqa.outs, hdspec.2.2.2]; exact R0.outs
        · intro hh v hv
          obtain ⟨r, b, e1, e2, e3⟩ := R0.regs hh v (hreg0 hh v hv)
          refine ⟨r, b, by rw [ht]; exact prefix_get e1, ?_, e3⟩
          rw [hqa.regs r ?_]; exact e2
          intro hc
          exact e3.not_tmp (hc.sub hact.1 hact.2)
        · intro h1 h2 v1 v2 r b1 b2 hv1 hv2 hH1 hH2
          obtain ⟨r1, c1, e1, _, _⟩ := R0.regs h1 v1 (hreg0 h1 v1 hv1)
          obtain ⟨r2, c2, e2, _, _⟩ := R0.regs h2 v2 (hreg0 h2 v2 hv2)
          have e1' := prefix_get (t := t) e1
          have e2' := prefix_get (t := t) e2
          rw [← ht, hH1] at e1'
          rw [← ht, hH2] at e2'
          cases e1'; cases e2'
          exact R0.inj h1 h2 v1 v2 r b1 b2 (hreg0 h1 v1 hv1) (hreg0 h2 v2 hv2) e1 e2
        · intro a n hn
          rw [hdspec.1]
          rw [hlens] at hn
          rcases lens_lookup (by simpa using hadr) a n hn with ⟨hlt, hold⟩ | ⟨d, hd, hda, hdl⟩
          · obtain ⟨l, hl, hll⟩ := R0.lens a n hold
            refine ⟨l, ?_, hll⟩
            rw [applyDecls_other _ _ _ ?_]; exact hl
            intro d hd e
            have hmem : d.addr ∈ List.range' m0.arrLens.length (segDecls m0.arrLens.length ops).length := by
              rw [← hadr]; exact List.mem_map_of_mem hd
            rw [List.mem_range'_1] at hmem
            omega
          · subst hda
            refine ⟨initList d, applyDecls_at _ _ d (by rw [hadr]; exact List.nodup_range') hd, ?_⟩
            rw [initList_length (segDecls_ok ops _ d hd)]; exact hdl
        · intro hh v r b hv hH hb
          obtain ⟨r1, c1, e1, _, _⟩ := R0.regs hh v (hreg0 hh v hv)
          have e1' := prefix_get (t := t) e1
          rw [← ht, hH] at e1'
          cases e1'
          exact R0.mh hh v r b (hreg0 hh v hv) e1 hb
      -- 2. the operations of the segment
      unfold runSegment at hh
      obtain ⟨ts_b, hrb, hrelb, en, ea⟩ := ops_sim ops fuel m0 m1 pend htop he m1.handles m1.arrLens [] _ _
        _ hs1 ts_a nh1 na1 (Ext.refl _) (fun _ _ h => h) plP hrelInit hh
      simp only [List.nil_append] at hrelb
      -- 3. ret_arr
      have harrs_b : ∀ d ∈ m1'.arraysToReturn, ∃ l, ts_b.arrs d.addr = some l := by
        intro d hd
        rw [sL.aret, haret] at hd
        have := lens_of_decl (l0 := m0.arrLens) (by simpa using hadr) hd
        rw [← hlens] at this
        obtain ⟨l, hl, _⟩ := hrelb.lens _ _ this
        exact ⟨l, by rw [hrelb.arrs]; exact hl⟩
      obtain ⟨ts_c, hrc, hsoc, hsrc, hinc, _⟩ := retArrs_sim m1'.arraysToReturn _ _ ts_b plA harrs_b
      -- 4. ret_reg
      have hret : RetOK m1 hs1 := ops_ret ops fuel m0 m1 pend _ hs1 nh1 na1 htop he
        (by intro r hr; rw [hinv.rret] at hr; cases hr) hh
      have hregs_c : ∀ r ∈ m1'.regsToReturn, ∃ v, ts_c.regs r = some v := by
        intro r hr
        rw [sL.rret] at hr
        obtain ⟨h0, b, v, e1, e2⟩ := hret r hr
        exact ⟨v, by rw [hsoc.regs]; exact (hrelb.reg_val e2 e1).1⟩
      obtain ⟨ts_d, hrd, hsod, hsad, hind⟩ := retRegs_sim m1'.regsToReturn _ _ ts_c plR hregs_c
      have hso := hsoc.trans hsod
      refine ⟨ts_d, ?_, ?_, ?_, ?_, ?_⟩
      · have r1 := runs_seq' hra hrb (by simp)
        have r2 := runs_seq' r1 hrc (by simp)
        have r3 := runs_seq' r2 hrd (by simp [Nat.add_assoc])
        exact runs_cast r3 (by simp [retArrCmds, retRegCmds, Nat.add_assoc])
      · refine ⟨?_, fi.len, rfl, rfl⟩
        show Rel m1'.handles m1'.arrLens [] m1'.active (List.replicate 16 false) _ ts_d
        rw [sL.handles, sL.lens, hactI]
        exact (hrelb.congrT hso.regs hso.arrs hso.trace hso.outs).flushClear
      · show nh1 = m1'.handles.length
        rw [sL.handles]; exact en
      · show na1 = m1'.arrLens.length
        rw [sL.lens]; exact ea
      · constructor
        · intro d hd
          have hd' : d ∈ m1'.arraysToReturn := by rw [sL.aret]; exact hd
          obtain ⟨l, hl⟩ := harrs_b d hd'
          refine ⟨by rw [← hrelb.arrs, hl]; rfl, ?_⟩
          rw [hsad, hinc d hd', hrelb.arrs]
        · intro r hr
          obtain ⟨h0, b, v, e1, e2⟩ := hret r hr
          refine ⟨h0, b, v, e1, e2, ?_⟩
          rw [hind r (by rw [sL.rret]; exact hr), hsoc.regs]
          exact (hrelb.reg_val e2 e1).1


end NQ.Sdk
