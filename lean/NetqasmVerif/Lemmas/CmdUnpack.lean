import NetqasmVerif.Lemmas.CmdPack
namespace NQ.Cmd
open NQ NQ.Msg

theorem ofBytes_lt : ∀ (bs : List Nat), (∀ b ∈ bs, b < 256) → ofBytes bs < 256 ^ bs.length
  | [], _ => by simp [ofBytes]
  | b :: bs, h => by
    have hb := h b List.mem_cons_self
    have ih := ofBytes_lt bs (fun x hx => h x (List.mem_cons_of_mem _ hx))
    simp only [ofBytes, List.length_cons, Nat.pow_succ]
    omega

/-- reading at bit `8·|pre| + s` of `pre ++ rem` is reading at bit `s` of `rem` -/
theorem shift_read (pre rem : List Nat) (hpre : ∀ b ∈ pre, b < 256) (s : Nat) :
    ofBytes (pre ++ rem) / 2 ^ (8 * pre.length + s) = ofBytes rem / 2 ^ s := by
  rw [ofBytes_append, Nat.pow_add, ← pow256, ← Nat.div_div_eq_div_mul,
    Nat.add_mul_div_left _ _ (Nat.pow_pos (by decide)), Nat.div_eq_of_lt (ofBytes_lt pre hpre), Nat.zero_add]

theorem unreg_read (b R : Nat) :
    regOfParts (decVal ⟨"", 0, 2, false⟩ ((b + 256 * R) / 2 ^ 0 % 2 ^ 2))
      (decVal ⟨"", 0, 4, false⟩ ((b + 256 * R) / 2 ^ 2 % 2 ^ 4)) = unregByte b := by
  simp only [regOfParts, decVal, unregByte, Bool.false_and, Bool.false_eq_true, if_false, Int.toNat_natCast]
  norm_num
  constructor <;> omega

theorem i32_read (b0 b1 b2 b3 R : Nat) (h0 : b0 < 256) (h1 : b1 < 256) (h2 : b2 < 256) (h3 : b3 < 256) :
    decVal ⟨"", 0, 32, true⟩ ((b0 + 256 * (b1 + 256 * (b2 + 256 * (b3 + 256 * R)))) / 2 ^ 0 % 2 ^ 32)
      = unle32 b0 b1 b2 b3 := by
  have : (b0 + 256 * (b1 + 256 * (b2 + 256 * (b3 + 256 * R)))) / 2 ^ 0 % 2 ^ 32
      = b0 + 256 * b1 + 65536 * b2 + 16777216 * b3 := by norm_num; omega
  rw [this]
  simp only [decVal, unle32]
  norm_num

theorem decVal_name (nm : String) (st w : Nat) (sg : Bool) (u : Nat) :
    decVal ⟨nm, st, w, sg⟩ u = decVal ⟨"", 0, w, sg⟩ u := rfl

/-- the register whose byte is the head of `rem`, read through the generic field reader at byte
offset `|pre|` of `pre ++ rem` -/
theorem reg_at (pre : List Nat) (b : Nat) (r : List Nat) (hpre : ∀ x ∈ pre, x < 256) :
    regOfParts
      (decVal ⟨"", 8 * pre.length, 2, false⟩ (ofBytes (pre ++ b :: r) / 2 ^ (8 * pre.length) % 2 ^ 2))
      (decVal ⟨"", 8 * pre.length + 2, 4, false⟩ (ofBytes (pre ++ b :: r) / 2 ^ (8 * pre.length + 2) % 2 ^ 4))
      = unregByte b := by
  have h0 := shift_read pre (b :: r) hpre 0
  have h2 := shift_read pre (b :: r) hpre 2
  simp only [Nat.add_zero] at h0
  rw [h0, h2, decVal_name, decVal_name "" (8 * pre.length + 2)]
  exact unreg_read b (ofBytes r)

theorem i32_at (pre : List Nat) (b0 b1 b2 b3 : Nat) (r : List Nat) (hpre : ∀ x ∈ pre, x < 256)
    (h0 : b0 < 256) (h1 : b1 < 256) (h2 : b2 < 256) (h3 : b3 < 256) :
    decVal ⟨"", 8 * pre.length, 32, true⟩
      (ofBytes (pre ++ b0 :: b1 :: b2 :: b3 :: r) / 2 ^ (8 * pre.length) % 2 ^ 32) = unle32 b0 b1 b2 b3 := by
  have h := shift_read pre (b0 :: b1 :: b2 :: b3 :: r) hpre 0
  simp only [Nat.add_zero] at h
  rw [h, decVal_name]
  exact i32_read b0 b1 b2 b3 (ofBytes r) h0 h1 h2 h3

/-- one slot: the generic reader with the canonical group at byte `|pre|` returns what `decodeOp`
returns from the bytes `rem` that follow `pre` -/
theorem slot_read (pre rem : List Nat) (hpre : ∀ x ∈ pre, x < 256) (hrem : ∀ x ∈ rem, x < 256)
    (k : FieldKind) (op : Operand) (rest : List Nat) (h : decodeOp k rem = some (op, rest)) :
    buildOp k (canonGroup pre.length k)
      (readFields ((canonGroup pre.length k).map (·.1)) (ofBytes (pre ++ rem))) = op := by
  cases k
  · -- reg
    match rem, h with
    | b :: r, h =>
      simp only [decodeOp, Option.some.injEq, Prod.mk.injEq] at h
      obtain ⟨rfl, _⟩ := h
      simp only [buildOp, canonGroup, regGroup, List.map_cons, List.map_nil, readFields, lookupPart,
        reduceCtorEq, if_false, if_true]
      rw [← reg_at pre b r hpre]
  · match rem, h with
    | b :: r, h =>
      simp only [decodeOp, Option.some.injEq, Prod.mk.injEq] at h
      obtain ⟨rfl, _⟩ := h
      have hb := hrem b List.mem_cons_self
      have hs := shift_read pre (b :: r) hpre 0
      simp only [Nat.add_zero] at hs
      simp only [buildOp, canonGroup, List.map_cons, List.map_nil, readFields, lookupPart, if_true, hs,
        ofBytes, decVal]
      norm_num
      omega
  · match rem, h with
    | b0 :: b1 :: b2 :: b3 :: r, h =>
      simp only [decodeOp, Option.some.injEq, Prod.mk.injEq] at h
      obtain ⟨rfl, _⟩ := h
      simp only [buildOp, canonGroup, List.map_cons, List.map_nil, readFields, lookupPart, if_true]
      rw [i32_at pre b0 b1 b2 b3 r hpre (hrem _ (by simp)) (hrem _ (by simp)) (hrem _ (by simp))
        (hrem _ (by simp))]
  · match rem, h with
    | b0 :: b1 :: b2 :: b3 :: r, h =>
      simp only [decodeOp, Option.some.injEq, Prod.mk.injEq] at h
      obtain ⟨rfl, _⟩ := h
      simp only [buildOp, canonGroup, List.map_cons, List.map_nil, readFields, lookupPart, if_true]
      rw [i32_at pre b0 b1 b2 b3 r hpre (hrem _ (by simp)) (hrem _ (by simp)) (hrem _ (by simp))
        (hrem _ (by simp))]
  · match rem, h with
    | b0 :: b1 :: b2 :: b3 :: i :: r, h =>
      simp only [decodeOp, Option.some.injEq, Prod.mk.injEq] at h
      obtain ⟨rfl, _⟩ := h
      have hb : ∀ x ∈ pre ++ [b0, b1, b2, b3], x < 256 := by
        intro x hx
        rcases List.mem_append.1 hx with hx | hx
        · exact hpre x hx
        · exact hrem x (by simp at hx ⊢; tauto)
      have hreg := reg_at (pre ++ [b0, b1, b2, b3]) i r hb
      simp only [List.length_append, List.length_cons, List.length_nil, List.append_assoc, List.cons_append,
        List.nil_append] at hreg
      simp only [buildOp, canonGroup, regGroup, List.map_cons, List.map_nil, readFields, lookupPart,
        reduceCtorEq, if_false, if_true]
      rw [i32_at pre b0 b1 b2 b3 (i :: r) hpre (hrem _ (by simp)) (hrem _ (by simp)) (hrem _ (by simp))
        (hrem _ (by simp)), ← hreg]
  · match rem, h with
    | b0 :: b1 :: b2 :: b3 :: s :: e :: r, h =>
      simp only [decodeOp, Option.some.injEq, Prod.mk.injEq] at h
      obtain ⟨rfl, _⟩ := h
      have hb : ∀ x ∈ pre ++ [b0, b1, b2, b3], x < 256 := by
        intro x hx
        rcases List.mem_append.1 hx with hx | hx
        · exact hpre x hx
        · exact hrem x (by simp at hx ⊢; tauto)
      have hb5 : ∀ x ∈ pre ++ [b0, b1, b2, b3, s], x < 256 := by
        intro x hx
        rcases List.mem_append.1 hx with hx | hx
        · exact hpre x hx
        · exact hrem x (by simp at hx ⊢; tauto)
      have hs := reg_at (pre ++ [b0, b1, b2, b3]) s (e :: r) hb
      have he := reg_at (pre ++ [b0, b1, b2, b3, s]) e r hb5
      simp only [List.length_append, List.length_cons, List.length_nil, List.append_assoc, List.cons_append,
        List.nil_append] at hs he
      simp only [buildOp, canonGroup, regGroup, List.map_cons, List.map_nil, List.cons_append, List.nil_append,
        readFields, lookupPart, reduceCtorEq, if_false, if_true]
      rw [i32_at pre b0 b1 b2 b3 (s :: e :: r) hpre (hrem _ (by simp)) (hrem _ (by simp)) (hrem _ (by simp))
        (hrem _ (by simp)), ← hs, ← he]

theorem decodeOp_split (k : FieldKind) (rem : List Nat) (h : kindSize k ≤ rem.length) :
    ∃ op c rest, decodeOp k rem = some (op, rest) ∧ rem = c ++ rest ∧ c.length = kindSize k := by
  cases k <;> simp only [kindSize] at h
  · match rem, h with
    | b :: r, _ => exact ⟨_, [b], r, rfl, rfl, rfl⟩
  · match rem, h with
    | b :: r, _ => exact ⟨_, [b], r, rfl, rfl, rfl⟩
  · match rem, h with
    | b0 :: b1 :: b2 :: b3 :: r, _ => exact ⟨_, [b0, b1, b2, b3], r, rfl, rfl, rfl⟩
  · match rem, h with
    | b0 :: b1 :: b2 :: b3 :: r, _ => exact ⟨_, [b0, b1, b2, b3], r, rfl, rfl, rfl⟩
  · match rem, h with
    | b0 :: b1 :: b2 :: b3 :: i :: r, _ => exact ⟨_, [b0, b1, b2, b3, i], r, rfl, rfl, rfl⟩
  · match rem, h with
    | b0 :: b1 :: b2 :: b3 :: s :: e :: r, _ => exact ⟨_, [b0, b1, b2, b3, s, e], r, rfl, rfl, rfl⟩

theorem buildOps_canon : ∀ (ks : List FieldKind) (pre rem : List Nat), (∀ x ∈ pre, x < 256) →
    (∀ x ∈ rem, x < 256) → shapeSize ks ≤ rem.length →
    buildOps (ofBytes (pre ++ rem)) ks (canonGroups pre.length ks) = decodeOps ks rem
  | [], _, _, _, _, _ => by simp [buildOps, canonGroups, decodeOps]
  | k :: ks, pre, rem, hpre, hrem, hlen => by
    have hsz : shapeSize (k :: ks) = kindSize k + shapeSize ks := by simp [shapeSize]
    obtain ⟨op, c, rest, hd, hsplit, hc⟩ := decodeOp_split k rem (by omega)
    have hpre' : ∀ x ∈ pre ++ c, x < 256 := by
      intro x hx
      rcases List.mem_append.1 hx with hx | hx
      · exact hpre x hx
      · exact hrem x (by rw [hsplit]; exact List.mem_append_left _ hx)
    have hrest : ∀ x ∈ rest, x < 256 := fun x hx => hrem x (by rw [hsplit]; exact List.mem_append_right _ hx)
    have ih := buildOps_canon ks (pre ++ c) rest hpre' hrest (by
      have : rem.length = c.length + rest.length := by rw [hsplit]; simp
      omega)
    have hcat : pre ++ c ++ rest = pre ++ rem := by rw [hsplit]; simp
    rw [hcat, List.length_append, hc] at ih
    simp only [canonGroups, buildOps, decodeOps, ih, hd, slot_read pre rem hpre hrem k op rest hd]
    cases decodeOps ks rest <;> rfl

/-- **decode direction, canonical form**: reading a 7-byte command through the generic ctypes
struct model with the canonical layout gives the opcode byte and exactly the operands `decodeOps`
returns — for ALL byte strings. -/
theorem unpackCmd_canon (row : Row) (opb : Nat) (body : List Nat) (hfit : shapeSize row.shape ≤ 6)
    (hlen : body.length = 6) (hop : opb < 256) (hb : ∀ x ∈ body, x < 256) :
    unpackCmd (canonCmd row) row (opb :: body) = (decodeOps row.shape body).map (fun os => ((opb : Int), os)) := by
  have hpre : ∀ x ∈ [opb], x < 256 := by intro x hx; simp at hx; subst hx; exact hop
  have hb' := buildOps_canon row.shape [opb] body hpre hb (by omega)
  simp only [List.length_singleton, List.singleton_append] at hb'
  unfold unpackCmd
  simp only [canonCmd, COMMAND_BYTES, List.length_cons, hlen]
  rw [if_neg (by omega), List.take_of_length_le (by simp [hlen]), hb']
  have hid : decVal ⟨"", 0, 8, false⟩ (ofBytes (opb :: body) / 2 ^ 0 % 2 ^ 8) = (opb : Int) := by
    simp only [ofBytes, decVal]
    norm_num
    omega
  rw [hid]
  cases decodeOps row.shape body <;> rfl

theorem unpackCmd_of_canonical (L : CmdLayout) (row : Row) (h : isCanonical L row = true) (opb : Nat)
    (body : List Nat) (hlen : body.length = 6) (hop : opb < 256) (hb : ∀ x ∈ body, x < 256) :
    unpackCmd L row (opb :: body) = (decodeOps row.shape body).map (fun os => ((opb : Int), os)) := by
  simp only [isCanonical, Bool.and_eq_true, beq_iff_eq, decide_eq_true_eq] at h
  obtain ⟨⟨⟨⟨⟨h1, h2⟩, h3⟩, h4⟩, h5⟩, _⟩ := h
  rw [← unpackCmd_canon row opb body h5 hlen hop hb]
  simp only [unpackCmd, h1, h2, h3]
  rfl

end NQ.Cmd
