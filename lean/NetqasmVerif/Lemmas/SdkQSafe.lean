/-
`Bridge.QSafe` for the subroutines of the builder model.

The chain theorem of `Props/C05Chain.lean` assumes, per flush, that the executor passes every quantum /
allocation instruction (`Bridge.QSafe`): ProtoExec has no unit module.  For the one-qubit vocabulary
of the builder model this is provable: the quantum instructions come in closed straight-line blocks
(`Sdk.QClosed`, derived from the builder in `Lemmas/SdkEmitted.lean`)

    set Q0 0; qalloc Q0; init Q0; (set Q0 0; gate Q0)*; set Q0 0; meas Q0 M; qfree Q0

so, if the virtual qubit 0 is free (and the unit module non-empty) when the subroutine starts, then at
every reachable state of the source-level executor machine (`Asm.step (qMachine a) (tr sub)`)
* `Q0` holds 0 at every quantum instruction, * the virtual qubit 0 is free at `qalloc` and allocated
(with its physical qubit marked used) at `qfree`, and it is free again when the subroutine ends.
The proof is an abstract interpretation: `Sdk.qscan` of the prefix before the program counter describes
the state of the unit module (`QInv`), jumps only land behind labels, where the qubit is free.
-/
import NetqasmVerif.Lemmas.SdkEmitted
set_option linter.unusedSimpArgs false
set_option linter.unusedVariables false
namespace NQ.Bridge
open NQ NQ.Asm

/-! ## what `exec` does to the unit module -/

/-- virtual qubit 0 is free (`al = false`) / allocated to a physical qubit marked used (`al = true`) -/
structure UnitOK (m : XMem) (al : Bool) : Prop where
  len : 1 ≤ m.unit.length
  free : al = false → m.unit[0]?.join = none
  held : al = true → ∃ ph, m.unit[0]?.join = some ph ∧ ph ∈ m.used

theorem UnitOK.congr {m m' : XMem} {al : Bool} (h : UnitOK m al) (hu : m'.unit = m.unit) (hs : m'.used = m.used) :
    UnitOK m' al :=
  ⟨by rw [hu]; exact h.len, by rw [hu]; exact h.free, by rw [hu, hs]; exact h.held⟩

/-- `m'` has the unit module and the used set of `m`, and the instruction does not jump -/
def Quiet (m : XMem) (r : Res XMem) : Prop :=
  ∀ out m' j, r = .ok out m' j → m'.unit = m.unit ∧ m'.used = m.used ∧ j = false

/-- the same without the claim on the jump flag (branches) -/
def QuietJ (m : XMem) (r : Res XMem) : Prop :=
  ∀ out m' j, r = .ok out m' j → m'.unit = m.unit ∧ m'.used = m.used

theorem Quiet.toJ {m : XMem} {r : Res XMem} (h : Quiet m r) : QuietJ m r :=
  fun o m' j e => ⟨(h o m' j e).1, (h o m' j e).2.1⟩

theorem quiet_fault (m : XMem) (f : Exec.Fault) : Quiet m (xf f) := by
  intro o m' j e; simp [xf] at e

theorem quiet_ok (m : XMem) (o : Option Int) : Quiet m (.ok o m false) := by
  intro o' m' j e; cases e; exact ⟨rfl, rfl, rfl⟩

theorem quietJ_ok (m : XMem) (o : Option Int) (b : Bool) : QuietJ m (.ok o m b) := by
  intro o' m' j e; cases e; exact ⟨rfl, rfl⟩

theorem quiet_xLoad (a : Int) (i : Option Int) (m : XMem) : Quiet m (xLoad a i m) := by
  unfold xLoad
  split
  · exact quiet_fault _ _
  · split
    · exact quiet_fault _ _
    · split
      · exact quiet_fault _ _
      · split
        · exact quiet_fault _ _
        · exact quiet_ok _ _

theorem quiet_xStore (v : Option Int) (a : Int) (i : Option Int) (m : XMem) : Quiet m (xStore v a i m) := by
  unfold xStore
  split
  · exact quiet_fault _ _
  · split
    · exact quiet_fault _ _
    · split
      · exact quiet_fault _ _
      · split
        · exact quiet_fault _ _
        · intro o m' j e; cases e; exact ⟨rfl, rfl, rfl⟩

theorem quiet_xArray (n : Option Int) (a : Int) (m : XMem) : Quiet m (xArray n a m) := by
  unfold xArray
  split
  · exact quiet_fault _ _
  · intro o m' j e; cases e; exact ⟨rfl, rfl, rfl⟩

theorem quiet_xArith (x y : Option Int) (m : XMem) (f : Int → Int → Int) : Quiet m (xArith x y m f) := by
  unfold xArith
  split
  · exact quiet_ok _ _
  · exact quiet_fault _ _

theorem quiet_xArithm (x y d : Option Int) (m : XMem) (f : Int → Int → Int) : Quiet m (xArithm x y d m f) := by
  unfold xArithm
  split
  · split
    · exact quiet_fault _ _
    · split
      · exact quiet_ok _ _
      · exact quiet_fault _ _
  · exact quiet_fault _ _

theorem quiet_xRetReg (r : Reg) (v : Option Int) (m : XMem) : Quiet m (xRetReg r v m) := by
  unfold xRetReg
  split
  · exact quiet_fault _ _
  · split
    · intro o m' j e; cases e; exact ⟨rfl, rfl, rfl⟩
    · exact quiet_fault _ _

theorem quiet_xRetArr (a : Int) (m : XMem) : Quiet m (xRetArr a m) := by
  unfold xRetArr
  split
  · exact quiet_fault _ _
  · intro o m' j e; cases e; exact ⟨rfl, rfl, rfl⟩

theorem quietJ_xBrCmp (x y : Option Int) (m : XMem) (c : Int → Int → Bool) : QuietJ m (xBrCmp x y m c) := by
  unfold xBrCmp
  split
  · exact quietJ_ok _ _ _
  · exact (quiet_fault _ _).toJ


theorem qExec_std (a : Nat) {mn : String} (h1 : mn ≠ "meas") (h2 : mn ∉ q1Names) (vals : List Val) (m : XMem) :
    (qMachine a).exec mn vals m = xExec mn vals m := by
  show qExec a mn vals m = _
  simp [qExec, h1, h2]

/-- the classical instructions of the builder leave the unit module alone; only branches jump -/
theorem exec_nonQ (a : Nat) (mn : Sdk.Mn) (hq : Sdk.isQ mn = false) (vals : List Val) (m : XMem) :
    QuietJ m ((qMachine a).exec mn.name vals m) ∧
      (Sdk.isBranch mn = false → Quiet m ((qMachine a).exec mn.name vals m)) := by
  cases mn with
  | set =>
    rw [show (Sdk.Mn.set).name = "set" from rfl, qExec_std a (by decide) (by decide)]
    have : Quiet m (xExec "set" vals m) := by
      simp only [xExec]; simp
      split
      · exact quiet_ok _ _
      · exact quiet_fault _ _
    exact ⟨this.toJ, fun _ => this⟩
  | load =>
    rw [show (Sdk.Mn.load).name = "load" from rfl, qExec_std a (by decide) (by decide)]
    have : Quiet m (xExec "load" vals m) := by
      simp only [xExec]; simp
      split
      · exact quiet_xLoad _ _ _
      · exact quiet_fault _ _
    exact ⟨this.toJ, fun _ => this⟩
  | store =>
    rw [show (Sdk.Mn.store).name = "store" from rfl, qExec_std a (by decide) (by decide)]
    have : Quiet m (xExec "store" vals m) := by
      simp only [xExec]; simp
      split
      · exact quiet_xStore _ _ _ _
      · exact quiet_fault _ _
    exact ⟨this.toJ, fun _ => this⟩
  | array =>
    rw [show (Sdk.Mn.array).name = "array" from rfl, qExec_std a (by decide) (by decide)]
    have : Quiet m (xExec "array" vals m) := by
      simp only [xExec]; simp
      split
      · exact quiet_xArray _ _ _
      · exact quiet_fault _ _
    exact ⟨this.toJ, fun _ => this⟩
  | add =>
    rw [show (Sdk.Mn.add).name = "add" from rfl, qExec_std a (by decide) (by decide)]
    have : Quiet m (xExec "add" vals m) := by
      simp only [xExec]; simp
      split
      · exact quiet_xArith _ _ _ _
      · exact quiet_fault _ _
    exact ⟨this.toJ, fun _ => this⟩
  | addm =>
    rw [show (Sdk.Mn.addm).name = "addm" from rfl, qExec_std a (by decide) (by decide)]
    have : Quiet m (xExec "addm" vals m) := by
      simp only [xExec]; simp
      split
      · exact quiet_xArithm _ _ _ _ _
      · exact quiet_fault _ _
    exact ⟨this.toJ, fun _ => this⟩
  | retReg =>
    rw [show (Sdk.Mn.retReg).name = "ret_reg" from rfl, qExec_std a (by decide) (by decide)]
    have : Quiet m (xExec "ret_reg" vals m) := by
      simp only [xExec]; simp
      split
      · exact quiet_xRetReg _ _ _
      · exact quiet_fault _ _
    exact ⟨this.toJ, fun _ => this⟩
  | retArr =>
    rw [show (Sdk.Mn.retArr).name = "ret_arr" from rfl, qExec_std a (by decide) (by decide)]
    have : Quiet m (xExec "ret_arr" vals m) := by
      simp only [xExec]; simp
      split
      · exact quiet_xRetArr _ _
      · exact quiet_fault _ _
    exact ⟨this.toJ, fun _ => this⟩
  | jmp =>
    rw [show (Sdk.Mn.jmp).name = "jmp" from rfl, qExec_std a (by decide) (by decide)]
    refine ⟨?_, fun h => by simp [Sdk.isBranch] at h⟩
    simp only [xExec]; simp
    split
    · exact quietJ_ok _ _ _
    · exact (quiet_fault _ _).toJ
  | bez =>
    rw [show (Sdk.Mn.bez).name = "bez" from rfl, qExec_std a (by decide) (by decide)]
    refine ⟨?_, fun h => by simp [Sdk.isBranch] at h⟩
    simp only [xExec]; simp
    split
    · exact quietJ_ok _ _ _
    · exact (quiet_fault _ _).toJ
  | bnz =>
    rw [show (Sdk.Mn.bnz).name = "bnz" from rfl, qExec_std a (by decide) (by decide)]
    refine ⟨?_, fun h => by simp [Sdk.isBranch] at h⟩
    simp only [xExec]; simp
    split
    · exact quietJ_ok _ _ _
    · exact (quiet_fault _ _).toJ
  | beq =>
    rw [show (Sdk.Mn.beq).name = "beq" from rfl, qExec_std a (by decide) (by decide)]
    refine ⟨?_, fun h => by simp [Sdk.isBranch] at h⟩
    simp only [xExec]; simp
    split
    · exact quietJ_ok _ _ _
    · exact (quiet_fault _ _).toJ
  | bne =>
    rw [show (Sdk.Mn.bne).name = "bne" from rfl, qExec_std a (by decide) (by decide)]
    refine ⟨?_, fun h => by simp [Sdk.isBranch] at h⟩
    simp only [xExec]; simp
    split
    · exact quietJ_ok _ _ _
    · exact (quiet_fault _ _).toJ
  | blt =>
    rw [show (Sdk.Mn.blt).name = "blt" from rfl, qExec_std a (by decide) (by decide)]
    refine ⟨?_, fun h => by simp [Sdk.isBranch] at h⟩
    simp only [xExec]; simp
    split
    · exact quietJ_xBrCmp _ _ _ _
    · exact (quiet_fault _ _).toJ
  | bge =>
    rw [show (Sdk.Mn.bge).name = "bge" from rfl, qExec_std a (by decide) (by decide)]
    refine ⟨?_, fun h => by simp [Sdk.isBranch] at h⟩
    simp only [xExec]; simp
    split
    · exact quietJ_xBrCmp _ _ _ _
    · exact (quiet_fault _ _).toJ
  | qalloc => simp [Sdk.isQ] at hq
  | qfree => simp [Sdk.isQ] at hq
  | init => simp [Sdk.isQ] at hq
  | meas => simp [Sdk.isQ] at hq
  | gate g => simp [Sdk.isQ] at hq

/-! ## the quantum instructions on a unit module in the expected state -/

theorem pyIdx_zero {len : Nat} (h : 1 ≤ len) : Exec.pyIdx len 0 = some 0 := by
  have := pyIdx_nat len 0
  simpa [show 0 < len from h] using this

theorem xQalloc_free {m : XMem} (h : UnitOK m false) :
    ∃ m', xQalloc (some 0) m = .ok none m' false ∧ UnitOK m' true ∧ m'.arrays = m.arrays := by
  have hl := h.len
  have hge : ¬ ((0 : Int) ≥ (m.unit.length : Int)) := by omega
  refine ⟨{ m with unit := m.unit.set 0 (some (Exec.firstUnused m.used)),
                    used := Exec.sadd (Exec.firstUnused m.used) m.used }, ?_, ?_, rfl⟩
  · simp only [xQalloc, hge, if_false, pyIdx_zero hl, h.free rfl]
  · refine ⟨by simpa using hl, fun e => (by cases e), fun _ => ⟨Exec.firstUnused m.used, ?_, ?_⟩⟩
    · have : 0 < m.unit.length := hl
      simp [List.getElem?_set, this]
    · simp only [Exec.sadd]
      split
      · assumption
      · simp

theorem xQfree_held {m : XMem} (h : UnitOK m true) :
    ∃ m', xQfree (some 0) m = .ok none m' false ∧ UnitOK m' false := by
  obtain ⟨ph, h1, h2⟩ := h.held rfl
  have hl := h.len
  refine ⟨{ m with unit := m.unit.set 0 none, used := Exec.srem ph m.used }, ?_, ?_⟩
  · simp only [xQfree, pyIdx_zero hl, h1, h2, if_true]
  · refine ⟨by simpa using hl, fun _ => ?_, fun e => (by cases e)⟩
    have : 0 < m.unit.length := hl
    simp [List.getElem?_set, this]


/-! ## the invariant along a run of the source-level machine -/

/-- the qubit register as the assembler sees it -/
def Q0' : Reg := cvReg Sdk.Q0

/-- the abstract scan of the commands before `n` describes the unit module and `Q0` -/
def QInv (P : List Sdk.PCmd) (t : State XMem) (n : Nat) : Prop :=
  ∃ al q0, Sdk.qscan (false, false) (P.take n) = some (al, q0) ∧ UnitOK t.mem al ∧
    (q0 = true → t.regs Q0' = some 0)

theorem scan_split {P : List Sdk.PCmd} {st0 stE : Bool × Bool} (hP : Sdk.qscan st0 P = some stE)
    {n : Nat} {c : Sdk.PCmd} (hn : P[n]? = some c) :
    ∃ st st1, Sdk.qscan st0 (P.take n) = some st ∧ Sdk.qscan st [c] = some st1 ∧
      Sdk.qscan st0 (P.take (n + 1)) = some st1 := by
  have hP' : Sdk.qscan st0 (P.take (n + 1) ++ P.drop (n + 1)) = some stE := by
    rw [List.take_append_drop]; exact hP
  rw [Sdk.qscan_append] at hP'
  cases h1 : Sdk.qscan st0 (P.take (n + 1)) with
  | none => rw [h1] at hP'; cases hP'
  | some st1 =>
    have e2 : P.take (n + 1) = P.take n ++ [c] := by rw [List.take_add_one, hn]; rfl
    have h1' := h1
    rw [e2, Sdk.qscan_append] at h1'
    cases h2 : Sdk.qscan st0 (P.take n) with
    | none => rw [h2] at h1'; cases h1'
    | some st =>
      rw [h2] at h1'
      exact ⟨st, st1, rfl, h1', rfl⟩

theorem scan_label {al q0 : Bool} {l : Sdk.Lbl} {st1 : Bool × Bool}
    (h : Sdk.qscan (al, q0) [.label l] = some st1) : al = false ∧ st1 = (false, false) := by
  cases al <;> simp [Sdk.qscan] at h
  exact ⟨rfl, h.symm⟩

theorem scan_branch {al q0 : Bool} {mn : Sdk.Mn} {ops : List Sdk.POp} {st1 : Bool × Bool}
    (hb : Sdk.isBranch mn = true) (h : Sdk.qscan (al, q0) [.instr mn ops] = some st1) :
    al = false ∧ st1 = (false, false) := by
  cases al <;> cases mn <;> simp [Sdk.isBranch] at hb <;> simp [Sdk.qscan, Sdk.isBranch] at h <;>
    exact ⟨rfl, h.symm⟩

theorem scan_plain {al q0 : Bool} {mn : Sdk.Mn} {ops : List Sdk.POp} {st1 : Bool × Bool}
    (hq : Sdk.isQ mn = false) (hb : Sdk.isBranch mn = false) (hs : mn ≠ .set)
    (h : Sdk.qscan (al, q0) [.instr mn ops] = some st1) : st1 = (al, false) := by
  cases mn <;> simp [Sdk.isQ] at hq <;> simp [Sdk.isBranch] at hb <;> simp at hs <;>
    simp [Sdk.qscan, Sdk.isBranch] at h <;> exact h.symm

theorem scan_set {al q0 : Bool} {ops : List Sdk.POp} {st1 : Bool × Bool}
    (h : Sdk.qscan (al, q0) [.instr .set ops] = some st1) :
    st1 = (al, decide (ops = [.reg Sdk.Q0, .lit 0])) := by
  simp [Sdk.qscan] at h; exact h.symm

theorem tr_label_inv {P : List Sdk.PCmd} {k : Nat} {name : String} (h : (tr P)[k]? = some (.label name)) :
    ∃ l, P[k]? = some (.label l) := by
  rw [tr_get] at h
  cases hk : P[k]? with
  | none => rw [hk] at h; cases h
  | some c =>
    cases c with
    | label l => exact ⟨l, rfl⟩
    | instr mn ops => rw [hk] at h; simp [trCmd] at h

/-- a successful step of a quantum instruction, computed -/
theorem step_q_next (a : Nat) {Q : List PCmd} {t : State XMem} {n : Nat} {mn : String} {ops : List POperand}
    {rs : List Role} {vals : List Val} {out : Option Int} {m : XMem}
    (hg : Q[n]? = some (.instr mn [] ops)) (hr : (qMachine a).roles mn = some rs)
    (he : evalOps t.regs rs ops = some vals) (hx : (qMachine a).exec mn vals t.mem = .ok out m false) :
    step (qMachine a) Q t n = .next ⟨writeBack t.regs out (dstOf rs ops), m⟩ (n + 1) := by
  have := step_instr (mc := qMachine a) (s := t) hg hr (vals := vals) (by simpa [allOps] using he)
  rw [this, hx]
  simp [allOps]

theorem isQ_eq (mn : Sdk.Mn) : Sdk.Mn.isQ mn = Sdk.isQ mn := by cases mn <;> rfl

theorem cvReg_bank (r : Sdk.Reg) : (cvReg r).bank = r.bank := rfl

/-- **one step**: the machine passes the quantum instruction at `n`, and the invariant is kept -/
theorem qinv_step (a : Nat) {P : List Sdk.PCmd} {stE : Bool × Bool}
    (hP : Sdk.qscan (false, false) P = some stE) (hok : Sdk.AllOK P)
    {t : State XMem} {n : Nat} (hinv : QInv P t n) :
    QStepOk a P t n ∧ ∀ t' n', step (qMachine a) (tr P) t n = .next t' n' → QInv P t' n' := by
  obtain ⟨al, q0, hsc, hu, hq0⟩ := hinv
  cases hn : P[n]? with
  | none =>
    refine ⟨fun mn ops h => (by rw [hn] at h; cases h), fun t' n' hs => ?_⟩
    have : step (qMachine a) (tr P) t n = .halt :=
      step_halt_of_ge (by simpa [tr] using List.getElem?_eq_none_iff.1 hn)
    rw [this] at hs; cases hs
  | some c =>
    obtain ⟨st, st1, h1, h2, h3⟩ := scan_split hP hn
    rw [hsc] at h1; cases h1
    cases c with
    | label l =>
      obtain ⟨rfl, rfl⟩ := scan_label h2
      refine ⟨fun mn ops h => (by rw [hn] at h; cases h), fun t' n' hs => ?_⟩
      have hg : (tr P)[n]? = some (.label l.name) := by rw [tr_get, hn]; rfl
      rw [step_label hg] at hs
      cases hs
      exact ⟨false, false, h3, hu, fun e => by cases e⟩
    | instr mn ops =>
      by_cases hq : Sdk.isQ mn = true
      · -- quantum / allocation instructions: the scan fixes the operands and the abstract state
        cases mn with
        | qalloc =>
          simp [Sdk.qscan] at h2
          obtain ⟨⟨⟨rfl, rfl⟩, rfl⟩, rfl⟩ := h2
          have hg : (tr P)[n]? = some (.instr "qalloc" [] [.reg Q0']) := by rw [tr_get, hn]; rfl
          obtain ⟨m', hx, hu', _⟩ := xQalloc_free hu
          have hstep := step_q_next a (t := t) hg (rs := [.use]) (by show qRoles "qalloc" = _; decide)
            (vals := [.use (t.regs Q0')]) rfl (out := none) (m := m')
            (by rw [hq0 rfl, exec_qalloc_one]; exact hx)
          refine ⟨fun mn ops h _ => ⟨_, _, hstep⟩, fun t' n' hs => ?_⟩
          rw [hstep] at hs; cases hs
          exact ⟨true, true, h3, hu', fun _ => by simpa [writeBack] using hq0 rfl⟩
        | qfree =>
          simp [Sdk.qscan] at h2
          obtain ⟨⟨⟨rfl, rfl⟩, rfl⟩, rfl⟩ := h2
          have hg : (tr P)[n]? = some (.instr "qfree" [] [.reg Q0']) := by rw [tr_get, hn]; rfl
          obtain ⟨m', hx, hu'⟩ := xQfree_held hu
          have hstep := step_q_next a (t := t) hg (rs := [.use]) (by show qRoles "qfree" = _; decide)
            (vals := [.use (t.regs Q0')]) rfl (out := none) (m := m')
            (by rw [hq0 rfl, exec_qfree_one]; exact hx)
          refine ⟨fun mn ops h _ => ⟨_, _, hstep⟩, fun t' n' hs => ?_⟩
          rw [hstep] at hs; cases hs
          exact ⟨false, true, h3, hu', fun _ => by simpa [writeBack] using hq0 rfl⟩
        | init =>
          simp [Sdk.qscan] at h2
          obtain ⟨⟨rfl, rfl⟩, rfl⟩ := h2
          have hg : (tr P)[n]? = some (.instr "init" [] [.reg Q0']) := by rw [tr_get, hn]; rfl
          have hstep := step_q_next a (t := t) hg (rs := [.use]) (roles_q1 a (by decide))
            (vals := [.use (t.regs Q0')]) rfl (out := none)
            (m := { t.mem with trace := t.mem.trace ++ [⟨a, "init", [0]⟩] })
            (by rw [hq0 rfl, exec_gate_one a "init" (by decide)]; rfl)
          refine ⟨fun mn ops h _ => ⟨_, _, hstep⟩, fun t' n' hs => ?_⟩
          rw [hstep] at hs; cases hs
          exact ⟨al, true, h3, hu.congr rfl rfl, fun _ => by simpa [writeBack] using hq0 rfl⟩
        | gate g =>
          simp [Sdk.qscan] at h2
          obtain ⟨⟨rfl, rfl⟩, rfl⟩ := h2
          have hg : (tr P)[n]? = some (.instr (Sdk.Mn.gate g).name [] [.reg Q0']) := by rw [tr_get, hn]; rfl
          have hstep := step_q_next a (t := t) hg (rs := [.use]) (roles_q1 a (gate_name_mem g))
            (vals := [.use (t.regs Q0')]) rfl (out := none)
            (m := { t.mem with trace := t.mem.trace ++ [⟨a, (Sdk.Mn.gate g).name, [0]⟩] })
            (by rw [hq0 rfl, exec_gate_one a _ (gate_name_mem g)]; rfl)
          refine ⟨fun mn ops h _ => ⟨_, _, hstep⟩, fun t' n' hs => ?_⟩
          rw [hstep] at hs; cases hs
          exact ⟨al, true, h3, hu.congr rfl rfl, fun _ => by simpa [writeBack] using hq0 rfl⟩
        | meas =>
          simp only [Sdk.qscan] at h2
          split at h2
          · rename_i q r
            simp at h2
            obtain ⟨⟨⟨rfl, rfl⟩, hb⟩, rfl⟩ := h2
            have hg : (tr P)[n]? = some (.instr "meas" [] [.reg Q0', .reg (cvReg r)]) := by rw [tr_get, hn]; rfl
            have hstep := step_q_next a (t := t) hg (rs := [.use, .dst]) (by show qRoles "meas" = _; decide)
              (vals := [.use (t.regs Q0'), .dst]) rfl (out := some (t.mem.oracle.headD 0))
              (m := { t.mem with oracle := t.mem.oracle.tail, trace := t.mem.trace ++ [⟨a, "meas", [0]⟩] })
              (by rw [hq0 rfl]; simp [qMachine, qExec, qMeas])
            refine ⟨fun mn ops h _ => ⟨_, _, hstep⟩, fun t' n' hs => ?_⟩
            rw [hstep] at hs; cases hs
            refine ⟨al, true, h3, hu.congr rfl rfl, fun _ => ?_⟩
            have hne : Q0' ≠ cvReg r := by
              intro e
              have := congrArg Reg.bank e
              rw [cvReg_bank] at this
              simp [Q0', cvReg, Sdk.Q0] at this
              omega
            simp [writeBack, dstOf, upd, hne, hq0 rfl]
          · cases h2
        | _ => simp [Sdk.isQ] at hq
      · -- classical instructions
        have hq' : Sdk.isQ mn = false := by simpa using hq
        refine ⟨fun mn' ops' h hq'' => (by rw [hn] at h; cases h; rw [isQ_eq, hq'] at hq''; cases hq''), fun t' n' hs => ?_⟩
        rcases step_next_inv hs with ⟨l, hl, _⟩ | ⟨mn', args, ops', hg', ⟨rs, vals, out, m, jump, hr, he, hx, rfl, hj⟩⟩
        · rw [tr_get, hn] at hl; simp [trCmd] at hl
        · rw [tr_get, hn] at hg'
          simp only [Option.map_some, trCmd, Option.some.injEq, PCmd.instr.injEq] at hg'
          obtain ⟨rfl, rfl, rfl⟩ := hg'
          obtain ⟨hJ, hQ⟩ := exec_nonQ a mn hq' vals t.mem
          obtain ⟨hmu, hms⟩ := hJ out m jump hx
          by_cases hb : Sdk.isBranch mn = true
          · obtain ⟨rfl, rfl⟩ := scan_branch hb h2
            rcases hj with ⟨_, hjt⟩ | ⟨_, rfl⟩
            · -- a taken branch lands behind a label, where the qubit is free
              have hlt := Sdk.labelTargets_of_allOK a hok
              have hmem : PCmd.instr mn.name [] (ops.map trOp) ∈ tr P := by
                have : (tr P)[n]? = some (.instr mn.name [] (ops.map trOp)) := by rw [tr_get, hn]; rfl
                exact List.mem_of_getElem? this
              unfold jumpTarget at hjt
              split at hjt
              · rename_i name htg
                simp only [Option.map_eq_some_iff] at hjt
                obtain ⟨k, hk, rfl⟩ := hjt
                obtain ⟨l', hl'⟩ := tr_label_inv (labelIdx_spec hk)
                obtain ⟨st, st1, g1, g2, g3⟩ := scan_split hP hl'
                obtain ⟨_, rfl⟩ := scan_label g2
                exact ⟨false, false, g3, hu.congr hmu hms, fun e => by cases e⟩
              · rename_i v htg
                exact absurd htg (hlt _ _ _ _ v hmem hr)
              · cases hjt
            · exact ⟨false, false, h3, hu.congr hmu hms, fun e => by cases e⟩
          · have hb' : Sdk.isBranch mn = false := by simpa using hb
            have hjf : jump = false := (hQ hb' out m jump hx).2.2
            rcases hj with ⟨hjt, _⟩ | ⟨_, rfl⟩
            · rw [hjf] at hjt; cases hjt
            · by_cases hset : mn = .set
              · subst hset
                have := scan_set h2
                subst this
                refine ⟨al, _, h3, hu.congr hmu hms, fun hd => ?_⟩
                have hops : ops = [.reg Sdk.Q0, .lit 0] := by simpa using hd
                subst hops
                have hr' : (qMachine a).roles "set" = some [.dst, .imm] := by show qRoles "set" = _; decide
                rw [show (Sdk.Mn.set).name = "set" from rfl, hr'] at hr
                cases hr
                simp [allOps, trOp, evalOps, evalOp] at he
                subst he
                rw [show (Sdk.Mn.set).name = "set" from rfl, qExec_std a (by decide) (by decide)] at hx
                simp [xExec] at hx
                obtain ⟨rfl, _, _⟩ := hx
                simp [writeBack, dstOf, allOps, trOp, upd, Q0']
              · have := scan_plain hq' hb' hset h2
                subst this
                exact ⟨al, false, h3, hu.congr hmu hms, fun e => by cases e⟩


theorem qinv_steps (a : Nat) {P : List Sdk.PCmd} {stE : Bool × Bool}
    (hP : Sdk.qscan (false, false) P = some stE) (hok : Sdk.AllOK P) {c c' : State XMem × Nat}
    (h : Steps (qMachine a) (tr P) c c') : QInv P c.1 c.2 → QInv P c'.1 c'.2 := by
  induction h with
  | refl c => exact id
  | step hs _ ih => intro hinv; exact ih ((qinv_step a hP hok hinv).2 _ _ hs)

theorem qinv_start (P : List Sdk.PCmd) {t : State XMem} (hu : UnitOK t.mem false) : QInv P t 0 :=
  ⟨false, false, by simp [Sdk.qscan], hu, fun e => by cases e⟩

/-- **`QSafe` holds for the subroutines of the builder**: if the virtual qubit 0 is free in a non-empty
unit module when the subroutine starts, the executor passes every quantum / allocation instruction it
reaches -/
theorem qsafe_of_closed (a : Nat) {P : List Sdk.PCmd} (hc : Sdk.QClosed P) (hok : Sdk.AllOK P)
    {t : State XMem} (hu : UnitOK t.mem false) : QSafe a P t 0 := by
  obtain ⟨q', hP⟩ := hc false
  intro t1 n1 hsteps
  exact (qinv_step a hP hok (qinv_steps a hP hok hsteps (qinv_start P hu))).1

/-- … and the virtual qubit 0 is free again when the subroutine has run to its end -/
theorem unit_free_after (a : Nat) {P : List Sdk.PCmd} (hc : Sdk.QClosed P) (hok : Sdk.AllOK P)
    {t t' : State XMem} (hu : UnitOK t.mem false)
    (h : Steps (qMachine a) (tr P) (t, 0) (t', P.length)) : UnitOK t'.mem false := by
  obtain ⟨q', hP⟩ := hc false
  obtain ⟨al, q0, hsc, hu', _⟩ := qinv_steps a hP hok h (qinv_start P hu)
  simp only [List.take_length] at hsc
  rw [hP] at hsc
  cases hsc
  exact hu'

end NQ.Bridge
