/-
Running an instantiated expansion template under the concrete semantics `MQ`: it applies the
role reading of the template, renamed to the qubits the registers name.
-/
import NetqasmVerif.Lemmas.TranspileQ
namespace NQ.Tr
open NQ NQ.NV

theorem gnameOf_not_mov {c : String} {g : GName} (h : gnameOf c = some g) : (c == movCls) = false := by
  cases hc : c == movCls with
  | false => rfl
  | true =>
    have : c = movCls := by simpa using hc
    rw [this, fixedSingles_gname.2.2.1] at h
    cases h

/-- environment of a template instantiation: the registers substituted for `a`, `b`, `s` hold the
qubits `ρ` assigns to their roles -/
structure Env (rm : TOp → Option Nat) (ρ : Nat → Nat) (regs : Reg → Option Int) (a b s : Reg) : Prop where
  ha : ∀ k, rm .a = some k → readQ regs a = some (ρ k)
  hb : ∀ k, rm .b = some k → readQ regs b = some (ρ k)
  hs : ∀ k, rm .s = some k → readQ regs s = some (ρ k)
  hreg : ∀ top k, rm top = some k → top = .a ∨ top = .b ∨ top = .s

theorem Env.instOp {rm ρ regs a b s} (E : Env rm ρ regs a b s) (g : Instr) {top : TOp} {k : Nat}
    (h : rm top = some k) : ∃ x, instOp g a b s top = some (.reg x) ∧ readQ regs x = some (ρ k) := by
  rcases E.hreg top k h with rfl | rfl | rfl
  · exact ⟨a, rfl, E.ha k h⟩
  · exact ⟨b, rfl, E.hb k h⟩
  · exact ⟨s, rfl, E.hs k h⟩

theorem instOp_lit (g : Instr) (a b s : Reg) (v : Int) : instOp g a b s (.lit v) = some (.imm v) := rfl

/-- one instantiated template instruction denotes the renamed role gate -/
theorem giOf_inst {rm ρ regs a b s} (E : Env rm ρ regs a b s) (g : Instr) {t : TInstr} {gi : GI}
    {os : List Operand} (ht : tGI rm t = some gi) (hos : instOps g a b s t.ops = some os)
    (hinj : ∀ i j, (∃ top, rm top = some i) → (∃ top, rm top = some j) → ρ i = ρ j → i = j) :
    giOf regs ⟨t.cls, os⟩ = some (ren ρ gi) := by
  unfold tGI at ht
  split at ht
  · -- one-qubit rotation
    rename_i gn r n d hg hops
    split at ht
    · rename_i hk
      split at ht
      · rename_i q n' d' hq hn hd
        simp only [Option.some.injEq] at ht
        subst ht
        obtain ⟨x, hx, hrx⟩ := E.instOp g hq
        rw [hops] at hos
        simp only [instOps, hx, instOp_lit, Option.some.injEq] at hos
        subst hos
        simp [giOf, hg, hk, hrx, hn, hd, ren]
      · cases ht
    · cases ht
  · rename_i gn r0 r1 n d hg hops
    split at ht
    · rename_i hk
      split at ht
      · rename_i qa qb n' d' hqa hqb hn hd
        split at ht
        · cases ht
        · rename_i hne
          simp only [Option.some.injEq] at ht
          subst ht
          obtain ⟨x, hx, hrx⟩ := E.instOp g hqa
          obtain ⟨y, hy, hry⟩ := E.instOp g hqb
          rw [hops] at hos
          simp only [instOps, hx, hy, instOp_lit, Option.some.injEq] at hos
          subst hos
          have hne' : ρ qa ≠ ρ qb := fun e => hne (hinj _ _ ⟨_, hqa⟩ ⟨_, hqb⟩ e)
          simp [giOf, hg, hk, hrx, hry, hn, hd, ren, hne']
      · cases ht
    · cases ht
  · cases ht

theorem isDebug_mk (c : String) (os : List Operand) : isDebug ⟨c, os⟩ = isDebugCls c := rfl

/-- **running an instantiated template**: under `MQ`, the serialised instantiation of a template
body whose role reading is `seq` applies `seq` renamed by `ρ`, and changes nothing else -/
theorem run_body {C Q : Type} (A : QAction Q) (Mc : Sem (C × Q)) {rm ρ} {regs : Reg → Option Int}
    {a b s : Reg} (E : Env rm ρ regs a b s) (g : Instr)
    (hinj : ∀ i j, (∃ top, rm top = some i) → (∃ top, rm top = some j) → ρ i = ρ j → i = j) :
    ∀ (body : List TInstr) (l : List Instr) (seq : List GI) (c : C) (q : Q),
    instBody g a b s body = some l → roleSeq rm body = some seq →
    RunStraight (MQ A Mc) (serialise l) ⟨regs, (c, q)⟩ ⟨regs, (c, A.run (seq.map (ren ρ)) q)⟩ := by
  intro body
  induction body with
  | nil =>
    intro l seq c q hl hs
    simp only [instBody, Option.some.injEq] at hl
    simp only [roleSeq, Option.some.injEq] at hs
    subst hl; subst hs
    simp [serialise, RunStraight, QAction.run]
  | cons t ts ih =>
    intro l seq c q hl hs
    unfold instBody at hl
    cases hos : instOps g a b s t.ops with
    | none => rw [hos] at hl; simp at hl
    | some os =>
      cases hrest : instBody g a b s ts with
      | none => rw [hos, hrest] at hl; simp at hl
      | some l' =>
        rw [hos, hrest] at hl
        simp only [Option.some.injEq] at hl
        subst hl
        unfold roleSeq at hs
        by_cases hd : isDebugCls t.cls = true
        · simp only [hd, ↓reduceIte] at hs
          have : serialise (⟨t.cls, os⟩ :: l') = serialise l' := by
            simp [serialise, isDebug_mk, hd]
          rw [this]
          exact ih l' seq c q hrest hs
        · simp only [hd, Bool.false_eq_true, ↓reduceIte] at hs
          cases htg : tGI rm t with
          | none => rw [htg] at hs; simp at hs
          | some gi =>
            cases hrs : roleSeq rm ts with
            | none => rw [htg, hrs] at hs; simp at hs
            | some gs =>
              rw [htg, hrs] at hs
              simp only [Option.some.injEq] at hs
              subst hs
              have hser : serialise (⟨t.cls, os⟩ :: l') = ⟨t.cls, os⟩ :: serialise l' := by
                simp [serialise, isDebug_mk, hd]
              rw [hser]
              have hgi := giOf_inst E g htg hos hinj
              have hgn : ∃ gn, gnameOf t.cls = some gn := by
                unfold tGI at htg
                split at htg
                · exact ⟨_, by assumption⟩
                · exact ⟨_, by assumption⟩
                · cases htg
              obtain ⟨gn, hgn⟩ := hgn
              refine ⟨⟨regs, (c, A.act (ren ρ gi) q)⟩, ?_, ?_⟩
              · have hnm : ¬ t.cls = movCls := by simpa using gnameOf_not_mov hgn
                simp [MQ, hnm, hgn, hgi]
              · simpa [QAction.run] using ih l' gs c (A.act (ren ρ gi) q) hrest hrs

end NQ.Tr
