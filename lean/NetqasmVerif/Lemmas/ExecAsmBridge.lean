/-
Bridge between the fuel-indexed interpreter `Exec.run` and the relational closure `XSteps` over
`Exec.stepLoc` used by the assembler proofs (Lemmas/AsmExec.lean, C03).
-/
import NetqasmVerif.Lemmas.AsmExec
import NetqasmVerif.Lemmas.ExecRun
namespace NQ.Exec
open NQ.Asm

theorem loc_put (s : State) (a : Nat) (l : Loc) : (s.put a l).loc l.ap = l := rfl

theorem put_put (s : State) (a : Nat) (l l' : Loc) : (s.put a l).put a l' = s.put a l' := by
  simp only [State.put]
  congr 1
  funext b
  simp only [upd]
  split <;> rfl

theorem put_apps_self (s : State) (a : Nat) (l : Loc) : (s.put a l).apps a = some l.ap := by
  simp [State.put]

theorem put_inj {s : State} {a : Nat} {l l' : Loc} (h : s.put a l = s.put a l') : l = l' := by
  have h1 : l.ap = l'.ap := by
    have := congrArg (fun t => t.apps a) h
    simpa [State.put] using this
  have h2 : l.used = l'.used := congrArg State.used h
  have h3 : l.oracle = l'.oracle := congrArg State.oracle h
  have h4 : l.trace = l'.trace := congrArg State.trace h
  cases l; cases l'
  simp only [] at h1 h2 h3 h4
  subst h1 h2 h3 h4
  rfl

/-- what `run` reports when it stops for lack of fuel or because the end was reached -/
def restOut (X : List Instr) (pc : Int) : Outcome := if pc ≥ X.length then .halted else .outOfFuel

/-- relational → fuel: a sequence of successful `stepLoc` steps of application `a` is reproduced by
`run` with exactly that many units of fuel, on any controller state in which `a`'s view is the
starting `Loc`. -/
theorem run_of_xsteps {a : Nat} {X : List Instr} {c c' : Loc × Int} (h : XSteps a X c c') :
    ∀ (s : State), s.apps a = some c.1.ap → s.loc c.1.ap = c.1 →
    ∃ n, (run false a X n s c.2).s = s.put a c'.1 ∧ (run false a X n s c.2).pc = c'.2 ∧
      (run false a X n s c.2).out = restOut X c'.2 ∧ (∀ v ∈ (run false a X n s c.2).visited, 0 ≤ v) := by
  induction h with
  | refl c =>
    intro s hap hloc
    refine ⟨0, ?_, ?_, ?_, ?_⟩
    · rw [run_zero]; split <;> (simp only []; rw [← hloc, put_loc_self s a _ hap])
    · rw [run_zero]; split <;> rfl
    · rw [run_zero]; unfold restOut; split <;> rfl
    · rw [run_zero]; split <;> simp
  | @step l l' k pc' x c hx hs _ ih =>
    intro s hap hloc
    simp only at hap hloc
    have hstep : step false a x s (k : Int) = .ok (s.put a l') pc' := by
      apply step_ok_of_loc hap
      rw [hloc]; exact hs
    obtain ⟨n, h1, h2, h3, h4⟩ := ih (s.put a l') (put_apps_self s a l') (loc_put s a l')
    have hk : k < X.length := by
      rcases Nat.lt_or_ge k X.length with h | h
      · exact h
      · simp [List.getElem?_eq_none h] at hx
    have hge : ¬ ((k : Int) ≥ (X.length : Int)) := by omega
    have hpy : pyIdx X.length (k : Int) = some k := by
      rw [pyIdx_nonneg (by omega) (by omega)]; simp
    refine ⟨n + 1, ?_, ?_, ?_, ?_⟩
    all_goals
      simp only []
      unfold run
      simp only [hge, if_false, hpy, hx, hstep]
    · rw [h1, put_put]
    · exact h2
    · exact h3
    · intro v hv
      simp only [List.mem_cons] at hv
      rcases hv with hv | hv
      · omega
      · exact h4 v hv

/-- fuel → relational: a run that did not fault and only visited non-negative program counters
(no Python wrap-around of `commands[pc]`) is a sequence of successful `stepLoc` steps -/
theorem xsteps_of_run {a : Nat} {X : List Instr} (n : Nat) :
    ∀ (s : State) (pc : Int) (ap : App), s.apps a = some ap →
    ((run false a X n s pc).out = .halted ∨ (run false a X n s pc).out = .outOfFuel) →
    (∀ v ∈ (run false a X n s pc).visited, 0 ≤ v) →
    ∃ l', XSteps a X (s.loc ap, pc) (l', (run false a X n s pc).pc) ∧
      (run false a X n s pc).s = s.put a l' := by
  induction n with
  | zero =>
    intro s pc ap hap _ _
    refine ⟨s.loc ap, ?_, ?_⟩
    · rw [run_zero]; split <;> exact .refl _
    · rw [run_zero]; split <;> (simp only []; rw [put_loc_self s a ap hap])
  | succ n ih =>
    intro s pc ap hap hout hvis
    unfold run at hout hvis ⊢
    split
    · exact ⟨s.loc ap, .refl _, by simp only []; rw [put_loc_self s a ap hap]⟩
    · rename_i hge
      simp only [hge, if_false] at hout hvis
      split
      · rename_i hk; simp [hk] at hout
      · rename_i k hk
        simp only [hk] at hout hvis
        split
        · rename_i hi; simp [hi] at hout
        · rename_i i hi
          simp only [hi] at hout hvis
          rcases hl : stepLoc false a i (s.loc ap) pc with ⟨l1, pc1⟩ | ⟨l1, f⟩
          · have hstep := step_ok_of_loc hap hl
            simp only [hstep] at hout hvis ⊢
            have hpc0 : 0 ≤ pc := hvis pc (by simp)
            obtain ⟨l', hx, hs⟩ := ih (s.put a l1) pc1 l1.ap (put_apps_self s a l1) hout
              (fun v hv => hvis v (by simp [hv]))
            rw [loc_put] at hx
            have hlt : pc < X.length := by omega
            have hkk : k = pc.toNat := by
              have := pyIdx_nonneg hpc0 hlt
              rw [this] at hk; exact (Option.some.inj hk).symm
            have hpcn : pc = ((pc.toNat : Nat) : Int) := by omega
            refine ⟨l', ?_, by rw [hs, put_put]⟩
            rw [hpcn]
            refine .step (k := pc.toNat) (x := i) (l' := l1) (pc' := pc1) (by rw [← hkk]; exact hi) ?_ hx
            rw [← hpcn]; exact hl
          · have hstep := step_fault_of_loc hap hl
            simp [hstep] at hout

/-- **`run_iff_steps`**: for a registered application, `XSteps` (the relational closure used by the
assembler proofs, `Lemmas/AsmExec.lean`) and the fuel-indexed interpreter `Exec.run` describe the
same executions: `(l, pc) →* (l', pc')` iff some amount of fuel makes `run` stop (out of fuel, or
halted when `pc'` is past the end) in the state where `a`'s view is `l'`, at `pc'`, having visited
only non-negative program counters. -/
theorem run_iff_steps {a : Nat} {X : List Instr} (s : State) (ap : App) (hap : s.apps a = some ap)
    (pc pc' : Int) (l' : Loc) :
    XSteps a X (s.loc ap, pc) (l', pc') ↔
    ∃ n, (run false a X n s pc).s = s.put a l' ∧ (run false a X n s pc).pc = pc' ∧
      (run false a X n s pc).out = restOut X pc' ∧ (∀ v ∈ (run false a X n s pc).visited, 0 ≤ v) := by
  constructor
  · intro h
    exact run_of_xsteps h s hap rfl
  · rintro ⟨n, h1, h2, h3, h4⟩
    have hout : (run false a X n s pc).out = .halted ∨ (run false a X n s pc).out = .outOfFuel := by
      rw [h3]; unfold restOut; split <;> simp
    obtain ⟨l2, hx, hs⟩ := xsteps_of_run n s pc ap hap hout h4
    have : l2 = l' := put_inj (hs.symm.trans h1)
    rw [← this, ← h2]; exact hx
end NQ.Exec
