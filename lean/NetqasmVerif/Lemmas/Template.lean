/-
Helper lemmas for C06 (model `Model/Template.lean`).
-/
import NetqasmVerif.Model.Template
namespace NQ.Tpl

theorem map_inst_op (σ : String → Int) (ops : List Operand) :
    (ops.map TOperand.op).map (instOp σ) = ops := by
  induction ops with
  | nil => rfl
  | cons o os ih => simp only [List.map_cons, instOp, ih]

theorem instantiate_embed (σ : String → Int) (is : List Instr) :
    instantiate σ (is.map embed) = is := by
  induction is with
  | nil => rfl
  | cons i t ih =>
    simp only [List.map_cons, instantiate] at ih ⊢
    rw [ih]
    simp only [embed, map_inst_op]

/-- the assembler's constant replacement commutes with template substitution when the
templates sit at exception positions -/
theorem replOps_subst (exc : List (String × Nat)) (name : String) (σ : String → Int) :
    ∀ (os : List POp) (fresh : List String) (j : Nat), templatesExempt exc name j os = true →
      replOps exc name fresh j (os.map (substOp σ)) =
        ((replOps exc name fresh j os).1.map (substCmd σ), (replOps exc name fresh j os).2.map (substOp σ)) := by
  intro os
  induction os with
  | nil => intro fresh j _; simp [replOps]
  | cons o os ih =>
    intro fresh j h
    simp only [templatesExempt, Bool.and_eq_true] at h
    cases o with
    | int v =>
      cases fresh with
      | nil =>
        simp only [List.map_cons, substOp, replOps]
        rw [ih [] (j + 1) h.2]
      | cons r fresh' =>
        simp only [List.map_cons, substOp, replOps]
        by_cases he : exc.contains (name, j) = true
        · simp only [he, if_true]
          rw [ih (r :: fresh') (j + 1) h.2]
          simp [substOp]
        · simp only [he]
          rw [ih fresh' (j + 1) h.2]
          simp [substOp, substCmd]
    | tmpl n =>
      have he : exc.contains (name, j) = true := h.1
      cases fresh with
      | nil =>
        simp only [List.map_cons, substOp, replOps]
        rw [ih [] (j + 1) h.2]
      | cons r fresh' =>
        simp only [List.map_cons, substOp, replOps, he, if_true]
        rw [ih (r :: fresh') (j + 1) h.2]
    | txt s =>
      simp only [List.map_cons, substOp, replOps]
      rw [ih fresh (j + 1) h.2]

theorem replCmd_subst (exc : List (String × Nat)) (fresh : List String) (σ : String → Int) (c : PCmd)
    (h : templatesExempt exc c.name 0 c.ops = true) :
    replCmd exc fresh (substCmd σ c) = (replCmd exc fresh c).map (substCmd σ) := by
  simp only [replCmd, substCmd]
  rw [replOps_subst exc c.name σ c.ops fresh 0 h]
  simp [substCmd]

/-! ### bookkeeping -/

def substBk (σ : String → Int) (b : Bk) : Bk := { b with pending := b.pending.map (substCmd σ) }

theorem build_subst (σ : String → Int) (b : Bk) (op : BOp) :
    build (substBk σ b) (substBOp σ op) = substBk σ (build b op) := by
  cases op with
  | cmds cs => simp [build, substBk, substBOp]
  | newArray l => simp [build, substBk, substBOp]
  | newReg i cs => simp [build, substBk, substBOp]
  | meas m cs =>
    cases m with
    | array => simp [build, substBk, substBOp]
    | reg =>
      simp only [build, substBk, substBOp]
      cases firstUnused b.meas 0 with
      | none => rfl
      | some i => simp

theorem buildAll_subst (σ : String → Int) : ∀ (body : List BOp) (b : Bk),
    buildAll (substBk σ b) (body.map (substBOp σ)) = substBk σ (buildAll b body) := by
  intro body
  induction body with
  | nil => intro b; rfl
  | cons op ops ih =>
    intro b
    simp only [buildAll, List.map_cons, List.foldl_cons] at ih ⊢
    rw [build_subst, ih]

theorem substCmd_decl (σ : String → Int) (a : Arr) : substCmd σ (declCmd a) = declCmd a := rfl
theorem substCmd_retArr (σ : String → Int) (a : Arr) : substCmd σ (retArrCmd a) = retArrCmd a := rfl
theorem substCmd_retReg (σ : String → Int) (i : Nat) : substCmd σ (retRegCmd i) = retRegCmd i := rfl

theorem allCmds_subst (σ : String → Int) (b : Bk) :
    allCmds (substBk σ b) = (allCmds b).map (substCmd σ) := by
  simp only [allCmds, substBk, List.map_append, List.map_map]
  rfl

theorem popSub_subst (σ : String → Int) (b : Bk) :
    popSub (substBk σ b) = ((popSub b).1.map (fun cs => cs.map (substCmd σ)), (popSub b).2) := by
  simp only [popSub, allCmds_subst]
  cases h : allCmds b with
  | nil => simp [substBk]
  | cons c cs => simp [substBk]

theorem flushOp_subst (σ : String → Int) (b : Bk) :
    flushOp (substBk σ b) = ((flushOp b).1.map (fun cs => cs.map (substCmd σ)), (flushOp b).2) := by
  simp only [flushOp, popSub_subst]
  cases h : popSub b with
  | mk sub b' =>
    cases sub with
    | none => rfl
    | some cs => rfl

theorem flushOp_pending (b : Bk) : (flushOp b).2.pending = [] := by
  simp only [flushOp, popSub]
  cases allCmds b <;> rfl

theorem substBk_of_pending_nil (σ : String → Int) (b : Bk) (h : b.pending = []) : substBk σ b = b := by
  cases b; simp_all [substBk]

theorem compileOp_eq_flushOp (b : Bk) : compileOp b = flushOp b := rfl

theorem endSeg_pending (b : Bk) (t : Term) : (endSeg compileOp b t).2.pending = [] := by
  cases t with
  | flush => exact flushOp_pending b
  | pre σ =>
    simp only [endSeg, compileOp_eq_flushOp]
    exact flushOp_pending b

theorem endSeg_direct (b : Bk) (hb : b.pending = []) (s : Seg) :
    endSeg compileOp (buildAll b (directSeg s).body) (directSeg s).term =
      endSeg compileOp (buildAll b s.body) s.term := by
  cases s with
  | mk body term =>
    cases term with
    | flush => rfl
    | pre σ =>
      simp only [directSeg, endSeg, compileOp_eq_flushOp]
      conv => lhs; rw [← substBk_of_pending_nil σ b hb]
      rw [buildAll_subst, flushOp_subst]

theorem runSegs_direct : ∀ (segs : List Seg) (b : Bk), b.pending = [] →
    runSegs compileOp b (segs.map directSeg) = runSegs compileOp b segs := by
  intro segs
  induction segs with
  | nil => intro b _; rfl
  | cons s ss ih =>
    intro b hb
    simp only [List.map_cons, runSegs]
    rw [endSeg_direct b hb s]
    have hp := endSeg_pending (buildAll b s.body) s.term
    generalize endSeg compileOp (buildAll b s.body) s.term = r at hp
    obtain ⟨out, b2⟩ := r
    simp only at hp ⊢
    rw [ih b2 hp]

/-! ### histories -/

def substBk? (σ : Option (String → Int)) (b : Bk) : Bk :=
  match σ with
  | some f => substBk f b
  | none => b

theorem substBk?_of_pending_nil (σ : Option (String → Int)) (b : Bk) (h : b.pending = []) :
    substBk? σ b = b := by
  cases σ with
  | none => rfl
  | some f => exact substBk_of_pending_nil f b h

theorem build_subst? (σ : Option (String → Int)) (b : Bk) (op : BOp) :
    build (substBk? σ b) (substBOp? σ op) = substBk? σ (build b op) := by
  cases σ with
  | none => rfl
  | some f => exact build_subst f b op

/-- simulation: the direct program, started in the substituted bookkeeping with everything the
pre-compiled flow has sent or compiled so far already sent, ends in the same bookkeeping having
sent what the pre-compiled flow sent plus what it still holds compiled -/
theorem runH_direct : ∀ (es : List HEv) (s s' : HSt),
    runH false s es = some s' →
    runH false ⟨substBk? (nextσ es) s.bk, [], s.sent ++ s.queue⟩ (directH es) =
      some ⟨s'.bk, [], s'.sent ++ s'.queue⟩ := by
  intro es
  induction es with
  | nil =>
    intro s s' h
    simp only [runH, Option.some.injEq] at h
    subst h
    rfl
  | cons e es ih =>
    intro s s' h
    simp only [runH] at h
    cases hs : stepH false s e with
    | none => rw [hs] at h; cases h
    | some s1 =>
      rw [hs] at h
      have ih1 := ih s1 s' h
      cases e with
      | build op =>
        simp only [stepH, Option.some.injEq] at hs
        subst hs
        simp only [directH, nextσ, runH, stepH, build_subst?]
        exact ih1
      | commit =>
        simp only [stepH] at hs
        cases hq : s.queue with
        | nil => rw [hq] at hs; cases hs
        | cons c q =>
          rw [hq] at hs
          simp only [Bool.false_eq_true, if_false, Option.some.injEq] at hs
          subst hs
          simp only [directH, nextσ]
          simp only [List.append_assoc, List.singleton_append] at ih1
          exact ih1
      | flush =>
        simp only [stepH] at hs
        by_cases hq : s.queue.isEmpty = true
        · rw [if_pos hq] at hs
          have hq' : s.queue = [] := List.isEmpty_iff.mp hq
          simp only [directH, nextσ, substBk?, runH, stepH, List.isEmpty_nil, if_true]
          cases hf : flushOp s.bk with
          | mk sub b' =>
            rw [hf] at hs
            have hp : b'.pending = [] := by have := flushOp_pending s.bk; rw [hf] at this; exact this
            cases sub with
            | none =>
              simp only [Option.some.injEq] at hs
              subst hs
              simp only [substBk?_of_pending_nil _ b' hp] at ih1
              exact ih1
            | some cs =>
              simp only [Option.some.injEq] at hs
              subst hs
              simp only [substBk?_of_pending_nil _ b' hp, hq', List.append_nil] at ih1 ⊢
              exact ih1
        · rw [if_neg hq] at hs; cases hs
      | compile σ =>
        simp only [stepH, Bool.false_eq_true, if_false, compileOp_eq_flushOp] at hs
        simp only [directH, nextσ, substBk?, runH, stepH, List.isEmpty_nil, if_true, flushOp_subst]
        cases hf : flushOp s.bk with
        | mk sub b' =>
          rw [hf] at hs
          have hp : b'.pending = [] := by have := flushOp_pending s.bk; rw [hf] at this; exact this
          cases sub with
          | none =>
            simp only [Option.some.injEq] at hs
            subst hs
            simp only [substBk?_of_pending_nil _ b' hp] at ih1
            exact ih1
          | some cs =>
            simp only [Option.some.injEq] at hs
            subst hs
            simp only [substBk?_of_pending_nil _ b' hp, List.append_assoc] at ih1
            simp only [Option.map_some, List.append_assoc]
            exact ih1

/-! ### re-use -/

theorem instCalls_pure : ∀ (σs : List (String → Option Int)) (t : List TInstr),
    instCalls instCall t σs = (σs.map (fun σ => instantiate? σ t), t) := by
  intro σs
  induction σs with
  | nil => intro t; rfl
  | cons σ σs ih => intro t; simp only [instCalls, instCall, ih, List.map_cons]

theorem instOp?_total (σ : String → Int) (o : TOperand) :
    instOp? (fun n => some (σ n)) o = some (instOp σ o) := by
  cases o <;> rfl

theorem mapM_instOp?_total (σ : String → Int) : ∀ (os : List TOperand),
    os.mapM (instOp? (fun n => some (σ n))) = some (os.map (instOp σ)) := by
  intro os
  induction os with
  | nil => rfl
  | cons o os ih => simp [List.mapM_cons, instOp?_total, ih]

/-- with a complete σ the partial instantiation is the total one of `instantiate` -/
theorem instantiate?_total (σ : String → Int) : ∀ (t : List TInstr),
    instantiate? (fun n => some (σ n)) t = some (instantiate σ t) := by
  intro t
  induction t with
  | nil => rfl
  | cons i is ih =>
    simp only [instantiate?, List.mapM_cons, instInstr?, mapM_instOp?_total] at ih ⊢
    simp [ih, instantiate]

end NQ.Tpl
