import NetqasmVerif.Lemmas.Codec
namespace NQ

theorem lastBy_none_of_forall {p : Row → Bool} {T : Table} (h : ∀ r ∈ T, p r = false) :
    lastBy p T = none := by
  induction T with
  | nil => rfl
  | cons r rs ih =>
    simp only [lastBy]
    rw [ih (fun r' hr' => h r' (List.mem_cons_of_mem _ hr'))]
    simp [h r (List.mem_cons_self)]

theorem lastBy_some_mem {p : Row → Bool} {T : Table} {r : Row} (h : lastBy p T = some r) :
    r ∈ T ∧ p r = true := by
  induction T with
  | nil => simp [lastBy] at h
  | cons r' rs ih =>
    simp only [lastBy] at h
    split at h
    · rename_i r'' h''
      cases h
      exact ⟨List.mem_cons_of_mem _ (ih h'').1, (ih h'').2⟩
    · split at h
      · rename_i hp; cases h; exact ⟨List.mem_cons_self, hp⟩
      · cases h

/-- A row of the table whose opcode is in no clash pair is the row `id_map` returns. -/
theorem idMap_of_noClash {T : Table} {row : Row} (hm : row ∈ T)
    (hc : ∀ c ∈ opcodeClashes T, c.1 ≠ row.opcode) : idMap T row.opcode = some row := by
  unfold idMap
  induction T with
  | nil => cases hm
  | cons r rs ih =>
    simp only [opcodeClashes, List.mem_append, List.mem_map, List.mem_filter] at hc
    rcases List.mem_cons.1 hm with rfl | hm'
    · simp only [lastBy]
      have : lastBy (fun r => r.opcode == row.opcode) rs = none := by
        apply lastBy_none_of_forall
        intro r' hr'
        cases hne : (r'.opcode == row.opcode)
        · rfl
        · exact absurd rfl (hc (row.opcode, row.cls, r'.cls) (Or.inl ⟨r', ⟨hr', hne⟩, rfl⟩))
      simp [this]
    · simp only [lastBy]
      rw [ih hm' (fun c hcm => hc c (Or.inr hcm))]

theorem rowOf_some {T : Table} {cls : String} {row : Row} (h : rowOf T cls = some row) :
    row ∈ T ∧ row.cls = cls := by
  unfold rowOf at h
  have h1 := List.mem_of_find?_eq_some h
  have h2 := List.find?_some h
  simp at h2
  exact ⟨h1, h2⟩

theorem decodeInstr_encodeInstr (T : Table) (i : Instr) (bs : List Nat)
    (h : encodeInstr T i = some bs)
    (hc : ∀ row, rowOf T i.cls = some row → ∀ c ∈ opcodeClashes T, c.1 ≠ row.opcode) :
    decodeInstr T bs = some i := by
  unfold encodeInstr at h
  split at h
  · rename_i row hrow
    obtain ⟨body, hb, _, hl, rfl⟩ := encodeRow_some h
    obtain ⟨hm, hcls⟩ := rowOf_some hrow
    have hid := idMap_of_noClash hm (hc row hrow)
    simp only [decodeInstr]
    have hlen : (body ++ List.replicate (6 - body.length) 0).length = 6 := by simp; omega
    simp only [hlen, if_true, hid, decodeOps_encodeOps _ _ _ _ hb]
    cases i; simp at hcls ⊢; exact hcls
  · cases h

theorem encodeInstr_length {T i bs} (h : encodeInstr T i = some bs) : bs.length = 7 := by
  unfold encodeInstr at h
  split at h
  · exact encodeRow_length _ _ _ h
  · cases h

theorem list_len7 {l : List Nat} (h : l.length = 7) :
    ∃ b0 b1 b2 b3 b4 b5 b6, l = [b0, b1, b2, b3, b4, b5, b6] := by
  match l, h with
  | [b0, b1, b2, b3, b4, b5, b6], _ => exact ⟨_, _, _, _, _, _, _, rfl⟩

theorem decodeInstrs_encodeInstrs (T : Table) (is : List Instr) (bs : List Nat)
    (h : encodeInstrs T is = some bs)
    (hc : ∀ i ∈ is, ∀ row, rowOf T i.cls = some row → ∀ c ∈ opcodeClashes T, c.1 ≠ row.opcode) :
    decodeInstrs T bs = some is := by
  induction is generalizing bs with
  | nil => simp [encodeInstrs] at h; subst h; rfl
  | cons i is ih =>
    simp only [encodeInstrs] at h
    split at h
    · rename_i b bs' hb hbs'
      simp at h; subst h
      obtain ⟨b0, b1, b2, b3, b4, b5, b6, rfl⟩ := list_len7 (encodeInstr_length hb)
      simp only [List.cons_append, List.nil_append, decodeInstrs]
      rw [decodeInstr_encodeInstr T i _ hb (hc i List.mem_cons_self),
        ih bs' hbs' (fun j hj => hc j (List.mem_cons_of_mem _ hj))]
    · cases h

theorem decodeSub_encodeSub (T : Table) (s : Sub) (bs : List Nat)
    (h : encodeSub T s = some bs)
    (hc : ∀ i ∈ s.instrs, ∀ row, rowOf T i.cls = some row →
      ∀ c ∈ opcodeClashes T, c.1 ≠ row.opcode) :
    decodeSub T bs = some s := by
  unfold encodeSub at h
  split at h
  · rename_i hr
    split at h
    · rename_i body hb
      simp at h; subst h
      simp only [decodeSub, decodeInstrs_encodeInstrs T _ _ hb hc]
      obtain ⟨v0, v1, app, is⟩ := s
      simp at hr ⊢
      omega
    · cases h
  · cases h

end NQ
