/-
Lemmas about the transpiler pass (Model/Transpile.lean): the output is the concatenation of
per-instruction chunks; `index_changes` = serialised chunk starts; retargeting is a `map`.
-/
import NetqasmVerif.Model.Transpile
namespace NQ.Tr
open NQ

/-! ### serialisation -/

theorem serialise_append (a b : List Instr) : serialise (a ++ b) = serialise a ++ serialise b := by
  simp [serialise]

theorem slen_append (a b : List Instr) : slen (a ++ b) = slen a + slen b := by
  simp [slen, serialise_append]

theorem slen_nil : slen [] = 0 := rfl

theorem slen_add_debug (l : List Instr) : slen l + (l.filter isDebug).length = l.length := by
  induction l with
  | nil => rfl
  | cons x xs ih =>
    unfold slen serialise at *
    by_cases h : isDebug x <;> simp [h] <;> omega

theorem slen_le_length (l : List Instr) : slen l ≤ l.length := by
  have := slen_add_debug l; omega

/-! ### chunks -/

/-- `Chunks cfg rv used S cs`: running the loop from register knowledge `rv` and used set `used`
over `S` appends exactly the chunks `cs`, one per instruction. -/
inductive Chunks (cfg : Cfg) : List (Reg × Int) → List Reg → List Instr → List (List Instr) → Prop
  | nil (rv used) : Chunks cfg rv used [] []
  | cons {rv used i rest ex cs} (info : ClsInfo) (hi : infoOf cfg i.cls = some info)
      (hex : expandInstr cfg info (updRegVals info i rv) (used ++ topRegs i) i = .ok ex)
      (hrest : Chunks cfg (updRegVals info i rv) (used ++ topRegs i) rest cs) :
      Chunks cfg rv used (i :: rest) (ex :: cs)

theorem Chunks.length_eq {cfg rv used S cs} (h : Chunks cfg rv used S cs) : cs.length = S.length := by
  induction h with
  | nil => rfl
  | cons _ _ _ _ ih => simp [ih]

/-- serialised start positions of the chunks, counting from `base` -/
def starts (base : Nat) : List (List Instr) → List Nat
  | [] => []
  | c :: cs => base :: starts (base + slen c) cs

theorem starts_length (b : Nat) (cs : List (List Instr)) : (starts b cs).length = cs.length := by
  induction cs generalizing b with
  | nil => rfl
  | cons c cs ih => simp [starts, ih]

/-- serialised position at which chunk `i` starts -/
def tposS (cs : List (List Instr)) (i : Nat) : Nat := slen (cs.take i).flatten

theorem starts_getElem? (b : Nat) (cs : List (List Instr)) (i : Nat) (h : i < cs.length) :
    (starts b cs)[i]? = some (b + tposS cs i) := by
  induction cs generalizing b i with
  | nil => simp at h
  | cons c cs ih =>
    cases i with
    | zero => simp [starts, tposS, slen_nil]
    | succ k =>
      have hk : k < cs.length := by simpa using h
      simp only [starts, List.getElem?_cons_succ, ih _ _ hk, tposS, List.take_succ_cons,
        List.flatten_cons, slen_append]
      congr 1; omega

theorem tposS_mono (cs : List (List Instr)) {i j : Nat} (h : i ≤ j) : tposS cs i ≤ tposS cs j := by
  obtain ⟨d, rfl⟩ := Nat.exists_eq_add_of_le h
  unfold tposS
  rw [List.take_add, List.flatten_append, slen_append]
  omega

theorem tposS_zero (cs : List (List Instr)) : tposS cs 0 = 0 := by simp [tposS, slen_nil]

theorem tposS_all (cs : List (List Instr)) : tposS cs cs.length = slen cs.flatten := by
  simp [tposS]

/-- the loop appends the chunks and records their serialised starts -/
theorem passLoop_chunks (cfg : Cfg) : ∀ (S : List Instr) (st st' : PState),
    passLoop cfg st S = .ok st' → st.nDebug = (st.out.filter isDebug).length →
    ∃ cs, Chunks cfg st.regVals st.used S cs ∧ st'.out = st.out ++ cs.flatten ∧
      st'.idx = st.idx ++ starts (slen st.out) cs ∧
      st'.nDebug = (st'.out.filter isDebug).length := by
  intro S
  induction S with
  | nil =>
    intro st st' h hinv
    simp only [passLoop, Except.ok.injEq] at h
    subst h
    exact ⟨[], Chunks.nil _ _, by simp, by simp [starts], hinv⟩
  | cons i rest ih =>
    intro st st' h hinv
    unfold passLoop at h
    cases hs : passStep cfg st i with
    | error e => rw [hs] at h; cases h
    | ok st1 =>
      rw [hs] at h
      unfold passStep at hs
      cases hi : infoOf cfg i.cls with
      | none => rw [hi] at hs; cases hs
      | some info =>
        rw [hi] at hs
        simp only at hs
        cases hex : expandInstr cfg info (updRegVals info i st.regVals) (st.used ++ topRegs i) i with
        | error e => rw [hex] at hs; cases hs
        | ok ex =>
          rw [hex] at hs
          simp only [Except.ok.injEq] at hs
          subst hs
          have hinv1 : (st.nDebug + (ex.filter isDebug).length)
              = ((st.out ++ ex).filter isDebug).length := by
            simp [List.filter_append, hinv]
          obtain ⟨cs, hc, hout, hidx, hnd⟩ := ih _ st' h hinv1
          refine ⟨ex :: cs, Chunks.cons info hi hex hc, ?_, ?_, hnd⟩
          · simp [hout]
          · simp only [hidx, starts, slen_append, List.append_assoc, List.cons_append,
              List.nil_append]
            have := slen_add_debug st.out
            have h2 : st.out.length - st.nDebug = slen st.out := by omega
            rw [h2]

/-! ### splitting `Chunks` at a position -/

/-- the pass's (flow-insensitive) register knowledge after textually scanning `l` -/
def rvAfter (cfg : Cfg) (rv : List (Reg × Int)) : List Instr → List (Reg × Int)
  | [] => rv
  | i :: rest => rvAfter cfg (match infoOf cfg i.cls with
      | some info => updRegVals info i rv
      | none => rv) rest

theorem rvAfter_append (cfg : Cfg) (rv : List (Reg × Int)) (a b : List Instr) :
    rvAfter cfg rv (a ++ b) = rvAfter cfg (rvAfter cfg rv a) b := by
  induction a generalizing rv with
  | nil => rfl
  | cons x xs ih => simp [rvAfter, ih]

theorem Chunks.split {cfg : Cfg} : ∀ {A : List Instr} {rv used i B cs},
    Chunks cfg rv used (A ++ i :: B) cs →
    ∃ ca ex cb info, cs = ca ++ ex :: cb ∧ ca.length = A.length ∧ Chunks cfg rv used A ca ∧
      infoOf cfg i.cls = some info ∧
      expandInstr cfg info (rvAfter cfg rv (A ++ [i])) (used ++ (A ++ [i]).flatMap topRegs) i = .ok ex ∧
      Chunks cfg (rvAfter cfg rv (A ++ [i])) (used ++ (A ++ [i]).flatMap topRegs) B cb := by
  intro A
  induction A with
  | nil =>
    intro rv used i B cs h
    cases h with
    | cons info hi hex hrest =>
      refine ⟨[], _, _, info, rfl, rfl, Chunks.nil _ _, hi, ?_, ?_⟩
      · simpa [rvAfter, hi] using hex
      · simpa [rvAfter, hi] using hrest
  | cons a A ih =>
    intro rv used i B cs h
    cases h with
    | cons info hi hex hrest =>
      obtain ⟨ca, ex', cb, info', hcs, hlen, hca, hi', hex', hcb⟩ := ih hrest
      refine ⟨_ :: ca, ex', cb, info', by simp [hcs], by simp [hlen], Chunks.cons info hi hex hca, hi', ?_, ?_⟩
      · simpa [rvAfter, hi, List.append_assoc] using hex'
      · simpa [rvAfter, hi, List.append_assoc] using hcb

/-! ### retargeting is a map -/

/-- the instruction the retargeting loop leaves in place of `i` (when it does not raise) -/
def patchOne (cfg : Cfg) (n : Nat) (idx : List Nat) (endTgt : Nat) (i : Instr) : Instr :=
  match retargetOne cfg n idx endTgt i with
  | .ok (i', _) => i'
  | .error _ => i

theorem retargetOne_flag {cfg n idx e i i' f} (h : retargetOne cfg n idx e i = .ok (i', f)) :
    f = (lineOf cfg i == some (n : Int)) := by
  unfold retargetOne at h
  cases hl : lineOf cfg i with
  | none => rw [hl] at h; simp at h; simp [h.2.symm]
  | some v =>
    rw [hl] at h
    simp only at h
    by_cases hv : v = (n : Int)
    · simp [hv] at h; simp [hv, h.2.symm]
    · have : (v == (n : Int)) = false := by simp [hv]
      rw [this] at h
      simp only [Bool.false_eq_true, ↓reduceIte] at h
      split at h
      · cases h
      · split at h
        · simp at h; rw [h.2]; simp [hv]
        · cases h

theorem retargetAll_spec {cfg : Cfg} {n : Nat} {idx : List Nat} {e : Nat} :
    ∀ {l l' : List Instr} {f : Bool}, retargetAll cfg n idx e l = .ok (l', f) →
    l' = l.map (patchOne cfg n idx e) ∧ f = l.any (fun i => lineOf cfg i == some (n : Int)) := by
  intro l
  induction l with
  | nil => intro l' f h; simp [retargetAll] at h; obtain ⟨rfl, rfl⟩ := h; simp
  | cons x xs ih =>
    intro l' f h
    unfold retargetAll at h
    cases h1 : retargetOne cfg n idx e x with
    | error er => rw [h1] at h; cases h
    | ok p =>
      obtain ⟨x', fx⟩ := p
      rw [h1] at h
      simp only at h
      cases h2 : retargetAll cfg n idx e xs with
      | error er => rw [h2] at h; cases h
      | ok q =>
        obtain ⟨xs', fxs⟩ := q
        rw [h2] at h
        simp only [Except.ok.injEq, Prod.mk.injEq] at h
        obtain ⟨ih1, ih2⟩ := ih h2
        have hf := retargetOne_flag h1
        refine ⟨?_, ?_⟩
        · rw [← h.1, ih1]; simp [patchOne, h1]
        · rw [← h.2, ih2, hf]; simp

theorem patchOne_noLine {cfg n idx e i} (h : lineOf cfg i = none) : patchOne cfg n idx e i = i := by
  simp [patchOne, retargetOne, h]

theorem retargetAll_ok_of_mem {cfg : Cfg} {n : Nat} {idx : List Nat} {e : Nat} :
    ∀ {l l' : List Instr} {f : Bool}, retargetAll cfg n idx e l = .ok (l', f) →
    ∀ i ∈ l, ∃ i' fl, retargetOne cfg n idx e i = .ok (i', fl) := by
  intro l
  induction l with
  | nil => intro _ _ _ i hi; cases hi
  | cons x xs ih =>
    intro l' f h i hi
    unfold retargetAll at h
    cases h1 : retargetOne cfg n idx e x with
    | error er => rw [h1] at h; cases h
    | ok p =>
      rw [h1] at h
      simp only at h
      cases h2 : retargetAll cfg n idx e xs with
      | error er => rw [h2] at h; cases h
      | ok q =>
        rcases List.mem_cons.1 hi with rfl | hm
        · exact ⟨p.1, p.2, h1⟩
        · exact ih h2 i hm

end NQ.Tr
