import NetqasmVerif.Lemmas.TextLex
namespace NQ.Text
open NQ

variable {S : Syms}

theorem dropWhile_all_false {p : Char → Bool} {l : List Char} (h : ∀ c ∈ l, p c = false) :
    l.dropWhile p = l := by
  cases l with
  | nil => rfl
  | cons c cs => exact dropWhile_head (h c List.mem_cons_self)

theorem dropWhileEnd_all_false {p : Char → Bool} {l : List Char} (h : ∀ c ∈ l, p c = false) :
    dropWhileEnd p l = l := by
  unfold dropWhileEnd
  rw [dropWhile_all_false (fun c hc => h c (List.mem_reverse.1 hc)), List.reverse_reverse]

theorem parseTopVal_showInt (v : Int) : parseTopVal S (showInt v) = .ok (.lit v) := by
  simp [parseTopVal, parseConst_showInt]

theorem parseTopVal_showReg (hS : SOk S) (r : Reg) (hb : r.bank < S.banks.length) :
    parseTopVal S (showReg S r) = .ok (.reg r) := by
  simp only [parseTopVal, parseConst_showReg hS r hb, parseRegister_showReg hS r hb]
  simp [showReg]

theorem showInt_opChars (v : Int) : ∀ c ∈ showInt v, opChar S c = true :=
  fun c hc => numChar_opChar (showInt_chars v c hc)

/-- the base address part: `@` then the integer; everything up to an index bracket -/
theorem base_facts (hS : SOk S) (a : Int) :
    S.idxOpen ∉ S.addrStart :: showInt a ∧
    (S.addrStart :: showInt a).dropWhile (fun c => decide (c = S.addrStart)) = showInt a := by
  constructor
  · intro h
    rcases List.mem_cons.1 h with h | h
    · exact hS.oa h
    · exact notin_of_not_opChar (showInt_opChars a) hS.symO.1 h
  · have : (showInt a).dropWhile (fun c => decide (c = S.addrStart)) = showInt a :=
      dropWhile_all_false (fun c hc => by
        have := notin_of_not_opChar (S := S) (showInt_opChars a) hS.symA.1
        simp only [decide_eq_false_iff_not]
        intro h; subst h; exact this hc)
    simp [List.dropWhile, this]

theorem isBr_false (hS : SOk S) {c : Char} (h : opChar S c = true) :
    (decide (c = S.idxOpen) || decide (c = S.idxClose)) = false := by
  simp only [Bool.or_eq_false_iff, decide_eq_false_iff_not]
  constructor
  · intro hc; subst hc; simp [hS.symO.1] at h
  · intro hc; subst hc; simp [hS.symC.1] at h

theorem parseAddress_addr (hS : SOk S) (a : Int) :
    parseAddress S (S.addrStart :: showInt a) = .ok (.addr a) := by
  obtain ⟨h1, h2⟩ := base_facts hS a
  simp only [parseAddress, findChar_notin h1, h2, parseVal_showInt]
  simp

/-- inner part of an index: `[` R `]` ↦ R after stripping brackets and spaces -/
theorem inner_eq (hS : SOk S) (R : List Char) (hR : ∀ c ∈ R, opChar S c = true)
    (hne : R ≠ []) (hstrip : strip R = R) :
    strip (dropWhileEnd (fun c => decide (c = S.idxOpen) || decide (c = S.idxClose))
      ((S.idxOpen :: (R ++ [S.idxClose])).dropWhile
        (fun c => decide (c = S.idxOpen) || decide (c = S.idxClose)))) = R := by
  have hf : ∀ c ∈ R, (decide (c = S.idxOpen) || decide (c = S.idxClose)) = false :=
    fun c hc => isBr_false hS (hR c hc)
  have h1 : (S.idxOpen :: (R ++ [S.idxClose])).dropWhile
      (fun c => decide (c = S.idxOpen) || decide (c = S.idxClose)) = R ++ [S.idxClose] := by
    simp only [List.dropWhile, decide_true, Bool.true_or]
    cases R with
    | nil => exact absurd rfl hne
    | cons c cs => exact dropWhile_head (hf c List.mem_cons_self)
  rw [h1, dropWhileEnd_concat_true _ (by simp), dropWhileEnd_all_false hf, hstrip]

theorem parseAddress_entry (hS : SOk S) (a : Int) (i : Reg) (hb : i.bank < S.banks.length) :
    parseAddress S (showOperand S (.entry a i)) = .ok (.entry a (.reg i)) := by
  obtain ⟨h1, h2⟩ := base_facts hS a
  have hw : showOperand S (.entry a i)
      = (S.addrStart :: showInt a) ++ S.idxOpen :: (showReg S i ++ [S.idxClose]) := by
    simp [showOperand]
  have hlast : (showOperand S (.entry a i)).getLast? = some S.idxClose := by
    have : showOperand S (.entry a i)
        = ((S.addrStart :: showInt a) ++ S.idxOpen :: showReg S i) ++ [S.idxClose] := by
      simp [showOperand]
    rw [this, List.getLast?_concat]
  have hR := showReg_chars hS i hb
  have hnd : (showReg S i).contains S.sliceDelim = false := by
    simpa using notin_of_not_opChar hR hS.symD.1
  simp only [parseAddress, hlast]
  rw [hw, findChar_append h1]
  simp only [beq_self_eq_true, if_true, List.take_left' rfl, List.drop_left' rfl, h2,
    parseVal_showInt, List.isEmpty_cons, Bool.false_eq_true, if_false,
    inner_eq hS _ hR (by simp [showReg]) (strip_showReg hS i hb), hnd, parseVal_showReg hS i hb]

theorem parseAddress_slice (hS : SOk S) (a : Int) (s e : Reg) (hs : s.bank < S.banks.length)
    (he : e.bank < S.banks.length) :
    parseAddress S (showOperand S (.slice a s e)) = .ok (.slice a (.reg s) (.reg e)) := by
  obtain ⟨h1, h2⟩ := base_facts hS a
  let R := showReg S s ++ S.sliceDelim :: showReg S e
  have hw : showOperand S (.slice a s e)
      = (S.addrStart :: showInt a) ++ S.idxOpen :: (R ++ [S.idxClose]) := by
    simp [showOperand, R]
  have hlast : (showOperand S (.slice a s e)).getLast? = some S.idxClose := by
    have : showOperand S (.slice a s e)
        = ((S.addrStart :: showInt a) ++ S.idxOpen :: R) ++ [S.idxClose] := by
      simp [showOperand, R]
    rw [this, List.getLast?_concat]
  have hRs := showReg_chars hS s hs
  have hRe := showReg_chars hS e he
  have hns : S.sliceDelim ∉ showReg S s := notin_of_not_opChar hRs hS.symD.1
  have hne : S.sliceDelim ∉ showReg S e := notin_of_not_opChar hRe hS.symD.1
  -- R: brackets do not occur, it starts with a bank letter and ends with a digit
  have hbr : ∀ c ∈ R, (decide (c = S.idxOpen) || decide (c = S.idxClose)) = false := by
    intro c hc
    rcases List.mem_append.1 hc with hc | hc
    · exact isBr_false hS (hRs c hc)
    · rcases List.mem_cons.1 hc with rfl | hc
      · simp [hS.dO, hS.dC]
      · exact isBr_false hS (hRe c hc)
  have hstrip : strip R = R := by
    obtain ⟨l, c, hl, hc⟩ := showInt_last e.idx
    have : R = bankChar S s.bank :: ((showInt s.idx ++ S.sliceDelim :: bankChar S e.bank :: l) ++ [c]) := by
      simp [R, showReg, hl]
    rw [this]
    exact strip_of_ends (hS.bankCh _ (bankChar_mem hS hs)).2.2
      (opChar_not_space hS (numChar_opChar (by simp [numChar, hc])))
  have hinner : strip (dropWhileEnd (fun c => decide (c = S.idxOpen) || decide (c = S.idxClose))
      ((S.idxOpen :: (R ++ [S.idxClose])).dropWhile
        (fun c => decide (c = S.idxOpen) || decide (c = S.idxClose)))) = R := by
    have h1 : (S.idxOpen :: (R ++ [S.idxClose])).dropWhile
        (fun c => decide (c = S.idxOpen) || decide (c = S.idxClose)) = R ++ [S.idxClose] := by
      simp only [List.dropWhile, decide_true, Bool.true_or]
      have : R ++ [S.idxClose] = bankChar S s.bank :: (showInt s.idx ++ S.sliceDelim :: showReg S e ++ [S.idxClose]) := by
        simp [R, showReg]
      rw [this]
      exact dropWhile_head (hbr _ (by simp [R, showReg]))
    rw [h1, dropWhileEnd_concat_true _ (by simp), dropWhileEnd_all_false hbr, hstrip]
  have hcont : R.contains S.sliceDelim = true := by simp [R]
  have hsplit : splitOn S.sliceDelim R = [showReg S s, showReg S e] := by
    simp only [R]; rw [splitOn_append hns, splitOn_notin hne]
  simp only [parseAddress, hlast]
  rw [hw, findChar_append h1]
  simp only [beq_self_eq_true, if_true, List.take_left' rfl, List.drop_left' rfl, h2,
    parseVal_showInt, List.isEmpty_cons, Bool.false_eq_true, if_false, hinner, hcont, hsplit,
    strip_showReg hS s hs, strip_showReg hS e he, parseVal_showReg hS s hs, parseVal_showReg hS e he]

/-- **operand level**: parsing the printed form of any operand gives its token -/
theorem parseOperand_show (hS : SOk S) (o : Operand) (hb : banksOk S.banks.length o = true) :
    parseOperand S (showOperand S o) = .ok (opTok o) := by
  cases o with
  | reg r =>
    simp only [banksOk, decide_eq_true_eq] at hb
    have hne : ¬ (showReg S r).head? = some S.addrStart := by
      simp only [showReg, List.head?_cons, Option.some.injEq]
      intro h
      have := hS.symA.1
      rw [← h] at this
      simp [opChar, bankChar_mem hS hb] at this
    simp only [parseOperand, beq_iff_eq, showOperand, opTok]
    rw [if_neg hne]
    exact parseTopVal_showReg hS r hb
  | imm v =>
    have hne : ¬ (showInt v).head? = some S.addrStart := by
      cases h : showInt v with
      | nil => exact absurd h (showInt_ne_nil v)
      | cons c cs =>
        simp only [List.head?_cons, Option.some.injEq]
        intro hc
        have := showInt_opChars (S := S) v c (by rw [h]; exact List.mem_cons_self)
        rw [hc, hS.symA.1] at this; cases this
    simp only [parseOperand, beq_iff_eq, showOperand, opTok]
    rw [if_neg hne]
    exact parseTopVal_showInt v
  | addr a =>
    simp only [parseOperand, showOperand, List.head?_cons, beq_self_eq_true, if_true, opTok]
    exact parseAddress_addr hS a
  | entry a i =>
    simp only [banksOk, decide_eq_true_eq] at hb
    have : (showOperand S (.entry a i)).head? = some S.addrStart := by simp [showOperand]
    simp only [parseOperand, this, beq_self_eq_true, if_true, opTok]
    exact parseAddress_entry hS a i hb
  | slice a s e =>
    simp only [banksOk, Bool.and_eq_true, decide_eq_true_eq] at hb
    have : (showOperand S (.slice a s e)).head? = some S.addrStart := by simp [showOperand]
    simp only [parseOperand, this, beq_self_eq_true, if_true, opTok]
    exact parseAddress_slice hS a s e hb.1 hb.2

end NQ.Text
