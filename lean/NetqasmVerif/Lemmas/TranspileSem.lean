/-
Semantic side of C08: an abstract small-step semantics of subroutines, the window invariant that
makes the pass's flow-insensitive register knowledge exact on `QStatic` programs, and the
step-for-step simulation of a vanilla subroutine by its serialised NV transpilation.
-/
import NetqasmVerif.Lemmas.TranspileStruct
namespace NQ.Tr
open NQ

/-! ### abstract machine -/

/-- machine state: the register file and "everything else" (arrays, shared memory, the quantum
state up to global phase, the measurement-outcome stream …) -/
structure St (μ : Type) where
  regs : Reg → Option Int
  mem : μ

/-- instruction semantics, abstract: `exec` for non-control instructions (`none` = fault),
`cond` for branch/jump instructions -/
structure Sem (μ : Type) where
  exec : Instr → St μ → Option (St μ)
  cond : Instr → St μ → Option Bool

/-- what C08 needs of the instruction semantics (discharged against the executor model, C04):
an instruction writes only `writes_to()`, `set` is `set`, and behaviour depends only on the memory
and on the registers the instruction names; a branch condition does not depend on its target. -/
structure SemLocal {μ : Type} (M : Sem μ) (cfg : Cfg) : Prop where
  frame : ∀ i s s' r, M.exec i s = some s' → r ∉ writesOf cfg i → s'.regs r = s.regs r
  setSem : ∀ i r v s, setOf cfg i = some (r, v) →
    ∃ s', M.exec i s = some s' ∧ s'.mem = s.mem ∧ ∀ r', s'.regs r' = if r' = r then some v else s.regs r'
  loc : ∀ i s u s', s.mem = u.mem → (∀ r ∈ regsOf i, s.regs r = u.regs r) → M.exec i s = some s' →
    ∃ u', M.exec i u = some u' ∧ s'.mem = u'.mem ∧ ∀ r ∈ writesOf cfg i, s'.regs r = u'.regs r
  condLoc : ∀ i s u, s.mem = u.mem → (∀ r ∈ regsOf i, s.regs r = u.regs r) → M.cond i s = M.cond i u
  condLine : ∀ i v s, M.cond (setLine cfg i v) s = M.cond i s

/-- one step of subroutine `P` -/
inductive Step {μ : Type} (M : Sem μ) (cfg : Cfg) (P : List Instr) : Nat × St μ → Nat × St μ → Prop
  | exec {pc i s s'} : P[pc]? = some i → lineOf cfg i = none → M.exec i s = some s' →
      Step M cfg P (pc, s) (pc + 1, s')
  | taken {pc i s} {t : Int} : P[pc]? = some i → lineOf cfg i = some t → M.cond i s = some true → 0 ≤ t →
      Step M cfg P (pc, s) (t.toNat, s)
  | skip {pc i s} {t : Int} : P[pc]? = some i → lineOf cfg i = some t → M.cond i s = some false →
      Step M cfg P (pc, s) (pc + 1, s)

inductive Steps {μ : Type} (M : Sem μ) (cfg : Cfg) (P : List Instr) : Nat × St μ → Nat × St μ → Prop
  | refl (a) : Steps M cfg P a a
  | step {a b c} : Step M cfg P a b → Steps M cfg P b c → Steps M cfg P a c

theorem Steps.trans {μ : Type} {M : Sem μ} {cfg P} {a b c : Nat × St μ}
    (h1 : Steps M cfg P a b) (h2 : Steps M cfg P b c) : Steps M cfg P a c := by
  induction h1 with
  | refl => exact h2
  | step hs _ ih => exact Steps.step hs (ih h2)

/-- straight-line execution of a list of non-control instructions -/
def RunStraight {μ : Type} (M : Sem μ) : List Instr → St μ → St μ → Prop
  | [], u, u' => u' = u
  | i :: rest, u, u' => ∃ u1, M.exec i u = some u1 ∧ RunStraight M rest u1 u'

/-- a straight run of `mid` embedded in `pre ++ mid ++ post` -/
theorem steps_of_straight {μ : Type} {M : Sem μ} {cfg : Cfg} :
    ∀ (mid pre post : List Instr) (u u' : St μ), (∀ x ∈ mid, lineOf cfg x = none) →
    RunStraight M mid u u' →
    Steps M cfg (pre ++ mid ++ post) (pre.length, u) (pre.length + mid.length, u') := by
  intro mid
  induction mid with
  | nil => intro pre post u u' _ h; simp [RunStraight] at h; subst h; exact Steps.refl _
  | cons x xs ih =>
    intro pre post u u' hl h
    obtain ⟨u1, h1, h2⟩ := h
    have hx : (pre ++ (x :: xs) ++ post)[pre.length]? = some x := by
      simp
    have hstep := Step.exec (cfg := cfg) (P := pre ++ (x :: xs) ++ post) hx (hl x List.mem_cons_self) h1
    have ih' := ih (pre ++ [x]) post u1 u' (fun y hy => hl y (List.mem_cons_of_mem _ hy)) h2
    have e1 : pre ++ [x] ++ xs ++ post = pre ++ (x :: xs) ++ post := by simp
    have e2 : (pre ++ [x]).length = pre.length + 1 := by simp
    rw [e1, e2] at ih'
    have e3 : pre.length + 1 + xs.length = pre.length + (x :: xs).length := by simp; omega
    rw [e3] at ih'
    exact Steps.step hstep ih'

/-- **The C07 hypothesis**: every expansion the pass can emit for a gate `g` acts on the memory
(which includes the quantum state, up to global phase) as `g` itself does, provided the pass's
knowledge `rv` of the operand registers is what they hold and `used` contains the gate's own operand
registers (as it does when the pass reaches the gate), and it changes no register at all — except, for a
two-qubit gate, the one `get_unused_register` would hand out. -/
def ExpandSound {μ : Type} (M : Sem μ) (cfg : Cfg) : Prop :=
  ∀ (g : Instr) (info : ClsInfo) (rv : List (Reg × Int)) (used : List Reg) (ex : List Instr)
    (s u s' : St μ),
    infoOf cfg g.cls = some info → infoGate info = true →
    expandInstr cfg info rv used g = .ok ex →
    (∀ r ∈ topRegs g, r ∈ used) →
    (∀ r ∈ topRegs g, ∀ v, rv.lookup r = some v → s.regs r = some v) →
    (info.gate2 = true → (∀ r ∈ topRegs g, (rv.lookup r).isSome = true) ∨
      (info.tag = "mov" ∧ ∃ r0 rest, g.ops = .reg r0 :: rest ∧ s.regs r0 = some 0)) →
    s.mem = u.mem → (∀ r ∈ topRegs g, s.regs r = u.regs r) →
    M.exec g s = some s' →
    ∃ u', RunStraight M (serialise ex) u u' ∧ s'.mem = u'.mem ∧
      ∀ r, (info.gate2 = true → ∀ s0, getUnused used = .ok s0 → r ≠ s0) → u'.regs r = u.regs r

/-! ### windows: what is known about a register at a program point -/

/-- `K cfg S pc r = some v`: every execution of `S` that is at `pc` came straight from a `set r v`
(no write to `r`, no branch target in between) -/
def K (cfg : Cfg) (S : List Instr) (pc : Nat) (r : Reg) : Option Int :=
  win cfg (targets cfg S) r (S.take pc).reverse

theorem K_zero (cfg : Cfg) (S : List Instr) (r : Reg) : K cfg S 0 r = none := by
  simp [K, win]

theorem take_succ_of_get {α} {S : List α} {pc : Nat} {x : α} (hx : S[pc]? = some x) :
    S.take (pc + 1) = S.take pc ++ [x] := by
  rw [List.take_add_one, hx]; rfl

theorem K_succ {cfg : Cfg} {S : List Instr} {pc : Nat} {x : Instr} (hx : S[pc]? = some x) (r : Reg) :
    K cfg S (pc + 1) r =
      if (targets cfg S).contains ((pc + 1 : Nat) : Int) then none
      else match setOf cfg x with
        | some (r', v) => if r' = r then some v else K cfg S pc r
        | none => if (writesOf cfg x).contains r then none else K cfg S pc r := by
  have hpc : pc < S.length := (List.getElem?_eq_some_iff.1 hx).1
  unfold K
  rw [take_succ_of_get hx, List.reverse_append]
  simp only [List.reverse_cons, List.reverse_nil, List.nil_append, List.cons_append]
  have hl : (S.take pc).reverse.length = pc := by simp; omega
  conv => lhs; unfold win
  rw [hl]
  rfl

theorem K_target {cfg : Cfg} {S : List Instr} {t : Int} (ht : t ∈ targets cfg S) (h0 : 0 ≤ t)
    (hle : t.toNat ≤ S.length) (r : Reg) : K cfg S t.toNat r = none := by
  cases hk : t.toNat with
  | zero => exact K_zero cfg S r
  | succ k =>
    have hk' : k < S.length := by omega
    have hx : S[k]? = some S[k] := by simp [hk']
    rw [K_succ hx]
    have : ((k + 1 : Nat) : Int) = t := by omega
    rw [this]
    have hc : (targets cfg S).contains t = true := List.contains_iff_mem.2 ht
    rw [hc]; rfl

theorem qstaticFrom_at {cfg : Cfg} {tg : List Int} {sc : List Reg} : ∀ (post pre : List Instr),
    qstaticFrom cfg tg sc pre post = true → ∀ k x, post[k]? = some x →
    qstaticAt cfg tg sc ((post.take k).reverse ++ pre) x = true := by
  intro post
  induction post with
  | nil => intro pre _ k x hx; simp at hx
  | cons y ys ih =>
    intro pre h k x hx
    unfold qstaticFrom at h
    simp only [Bool.and_eq_true] at h
    cases k with
    | zero => simp at hx; subst hx; simpa using h.1
    | succ k =>
      simp only [List.getElem?_cons_succ] at hx
      have := ih (y :: pre) h.2 k x hx
      simpa [List.take_succ_cons, List.reverse_cons, List.append_assoc] using this

theorem qstatic_at {cfg : Cfg} {S : List Instr} (h : QStatic cfg S = true) {p : Nat} {x : Instr}
    (hx : S[p]? = some x) : qstaticAt cfg (targets cfg S) (scratchRegs cfg S) (S.take p).reverse x = true := by
  have := qstaticFrom_at S [] h p x hx
  simpa using this

/-- keys of the pass's register knowledge are Q registers -/
theorem rvAfter_bankQ (cfg : Cfg) : ∀ (l : List Instr) (rv : List (Reg × Int)),
    (∀ q ∈ rv, q.1.bank = bankQ) → ∀ q ∈ rvAfter cfg rv l, q.1.bank = bankQ := by
  intro l
  induction l with
  | nil => intro rv h; exact h
  | cons x xs ih =>
    intro rv h
    unfold rvAfter
    apply ih
    cases hi : infoOf cfg x.cls with
    | none => exact h
    | some info =>
      simp only
      unfold updRegVals
      split
      · split
        · split
          · rename_i r v hb
            intro q hq
            rcases List.mem_cons.1 hq with rfl | hm
            · simpa using hb
            · exact h q hm
          · exact h
        · exact h
      · exact h

theorem lookup_none_of_bank {rv : List (Reg × Int)} (h : ∀ q ∈ rv, q.1.bank = bankQ) {r : Reg}
    (hr : r.bank ≠ bankQ) : rv.lookup r = none := by
  rw [List.lookup_eq_none_iff]
  intro p hp
  have := h p hp
  simp only [bne_iff_ne, ne_eq]
  intro he; rw [he] at hr; exact hr this

/-- `updRegVals` in terms of `setOf` -/
theorem updRegVals_eq {cfg : Cfg} {x : Instr} {info : ClsInfo} (hi : infoOf cfg x.cls = some info)
    (rv : List (Reg × Int)) :
    updRegVals info x rv = match setOf cfg x with
      | some (r, v) => if r.bank == bankQ then (r, v) :: rv else rv
      | none => rv := by
  unfold updRegVals setOf
  rw [hi]
  simp only
  split
  · split <;> simp_all
  · rfl

theorem rvAfter_snoc (cfg : Cfg) (rv : List (Reg × Int)) (A : List Instr) (x : Instr) :
    rvAfter cfg rv (A ++ [x]) = match setOf cfg x with
      | some (r, v) => if r.bank == bankQ then (r, v) :: rvAfter cfg rv A else rvAfter cfg rv A
      | none => rvAfter cfg rv A := by
  rw [rvAfter_append]
  simp only [rvAfter]
  cases hi : infoOf cfg x.cls with
  | none => simp [setOf, hi]
  | some info => simp only; rw [updRegVals_eq hi]

/-- inside a window, the pass's flow-insensitive knowledge is the window's value -/
theorem win_lookup {cfg : Cfg} {tg : List Int} {r : Reg} (hr : r.bank = bankQ) : ∀ (pre : List Instr) (v : Int),
    win cfg tg r pre = some v → (rvAfter cfg [] pre.reverse).lookup r = some v := by
  intro pre
  induction pre with
  | nil => intro v h; simp [win] at h
  | cons x pre ih =>
    intro v h
    unfold win at h
    split at h
    · cases h
    · rw [List.reverse_cons, rvAfter_snoc]
      split at h
      · rename_i r' v' hs
        rw [hs]
        simp only
        by_cases he : r' = r
        · subst he
          simp only [↓reduceIte, Option.some.injEq] at h
          subst h
          have : (r'.bank == bankQ) = true := by simp [hr]
          simp [this]
        · simp only [he, ↓reduceIte] at h
          split
          · rw [List.lookup_cons]
            have : (r == r') = false := by
              simp only [beq_eq_false_iff_ne, ne_eq]; exact fun e => he e.symm
            rw [this]; exact ih v h
          · exact ih v h
      · rename_i hs
        rw [hs]
        simp only
        split at h
        · cases h
        · exact ih v h

end NQ.Tr
