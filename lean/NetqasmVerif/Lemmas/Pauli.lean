/-
Generic lemmas of the Pauli-conjugation calculus used by C20 (`parity_meas` for every number of
qubits): pull-back through the basis-change layer and through the CNOT fan-in.
-/
import NetqasmVerif.Model.Toolbox
set_option linter.unusedSimpArgs false
namespace NQ.TB
open NQ

/-! ### list helpers -/

theorem getD_mid {α} (front : List α) (p : α) (back : List α) (d : α) :
    (front ++ p :: back).getD front.length d = p := by
  induction front with
  | nil => rfl
  | cons x xs ih => simp [ih]

theorem set_mid {α} (front : List α) (p p' : α) (back : List α) :
    (front ++ p :: back).set front.length p' = front ++ p' :: back := by
  induction front with
  | nil => rfl
  | cons x xs ih => simp [ih]

/-! ### pull-back basics -/

theorem pullback_append (l1 l2 : List GI) (O : PStr) :
    pullback (l1 ++ l2) O = (pullback l2 O).bind (pullback l1) := by
  induction l1 with
  | nil => simp [pullback]
  | cons g l1 ih =>
    simp only [List.cons_append, pullback, ih]
    cases pullback l2 O <;> simp

/-- conjugation by the flip gate of basis `b` on a single Pauli -/
def flip1 (b p : P1) : Bool × P1 :=
  match b with
  | .X => (conj1 .h p).getD (false, p)
  | .Y => (conj1 .k p).getD (false, p)
  | _ => (false, p)

def flipPs : List P1 → List P1 → List P1
  | b :: bs, p :: ps => (flip1 b p).2 :: flipPs bs ps
  | _, ps => ps

def flipSign : List P1 → List P1 → Bool
  | b :: bs, p :: ps => xor (flip1 b p).1 (flipSign bs ps)
  | _, _ => false

theorem pullback_flipGate (b p : P1) (k : Nat) (s : Bool) (front back : List P1)
    (hk : front.length = k) :
    pullback (flipGate b k) ⟨s, front ++ p :: back⟩ =
      some ⟨xor s (flip1 b p).1, front ++ (flip1 b p).2 :: back⟩ := by
  subst hk
  have hlt : front.length < (front ++ p :: back).length := by simp
  cases b <;> cases p <;>
    simp [flipGate, pullback, conjGate, hlt, getD_mid, set_mid, conj1, flip1]

/-- the basis-change layer acts qubit by qubit -/
theorem pullback_basisChange (bs : List P1) :
    ∀ (k : Nat) (front back : List P1) (s : Bool), front.length = k → bs.length ≤ back.length →
      pullback (basisChangeFrom k bs) ⟨s, front ++ back⟩ =
        some ⟨xor s (flipSign bs back), front ++ flipPs bs back⟩ := by
  induction bs with
  | nil => intro k front back s _ _; simp [basisChangeFrom, pullback, flipSign, flipPs]
  | cons b bs ih =>
    intro k front back s hk hlen
    cases back with
    | nil => simp at hlen
    | cons p back' =>
      simp only [List.length_cons, Nat.add_le_add_iff_right] at hlen
      have h1 := ih (k + 1) (front ++ [p]) back' s (by simp [hk]) hlen
      simp only [List.append_assoc, List.singleton_append] at h1
      simp only [basisChangeFrom, pullback_append, h1, Option.bind_some]
      rw [pullback_flipGate b p k _ front _ hk]
      simp only [flipSign, flipPs]
      congr 2
      cases s <;> cases (flip1 b p).1 <;> cases flipSign bs back' <;> rfl

/-- support of a Pauli string: Z where the basis is not the identity -/
def supp (bs : List P1) : List P1 := bs.map fun b => if b = .I then .I else .Z

/-- the CNOT fan-in turns `Z` on the ancilla into `Z` on the ancilla and on every non-identity position -/
theorem pullback_cnots (bs : List P1) :
    ∀ (k : Nat) (front : List P1) (s : Bool) (anc : Nat), front.length = k → anc = k + bs.length →
      pullback (cnotsFrom k anc bs) ⟨s, front ++ (List.replicate bs.length .I ++ [.Z])⟩ =
        some ⟨s, front ++ (supp bs ++ [.Z])⟩ := by
  induction bs with
  | nil => intro k front s anc _ _; simp [cnotsFrom, pullback, supp]
  | cons b bs ih =>
    intro k front s anc hk hanc
    have h1 := ih (k + 1) (front ++ [.I]) s anc (by simp [hk]) (by simp at hanc; omega)
    simp only [List.append_assoc, List.singleton_append] at h1
    simp only [cnotsFrom, pullback_append, List.length_cons, List.replicate_succ, List.cons_append, h1,
      Option.bind_some]
    by_cases hb : b = .I
    · simp [hb, pullback, supp]
    · simp only [hb, if_false, pullback, Option.bind_some, supp, List.map_cons]
      -- one CNOT k → anc on ⟨s, front ++ I :: (supp bs ++ [Z])⟩
      have hlen : (front ++ P1.I :: (List.map (fun b => if b = P1.I then P1.I else P1.Z) bs ++ [P1.Z])).length
          = k + bs.length + 2 := by simp [hk]; omega
      have hget_c : (front ++ P1.I :: (List.map (fun b => if b = P1.I then P1.I else P1.Z) bs ++ [P1.Z])).getD k .I
          = .I := by rw [← hk]; exact getD_mid _ _ _ _
      have hanc' : anc = (front ++ P1.I :: List.map (fun b => if b = P1.I then P1.I else P1.Z) bs).length := by
        simp [hk]; simp at hanc; omega
      have hassoc : front ++ P1.I :: (List.map (fun b => if b = P1.I then P1.I else P1.Z) bs ++ [P1.Z])
          = (front ++ P1.I :: List.map (fun b => if b = P1.I then P1.I else P1.Z) bs) ++ P1.Z :: [] := by simp
      have hget_t : (front ++ P1.I :: (List.map (fun b => if b = P1.I then P1.I else P1.Z) bs ++ [P1.Z])).getD anc .I
          = .Z := by rw [hassoc, hanc']; exact getD_mid _ _ _ _
      have hne : k ≠ anc := by simp at hanc; omega
      have hkl : k < k + bs.length + 2 := by omega
      have hal : anc < k + bs.length + 2 := by simp at hanc; omega
      simp only [conjGate, hlen, hne, ne_eq, not_false_eq_true, hkl, hal, and_self, if_true, hget_c, hget_t,
        conjCnot, Bool.xor_false]
      congr 2
      have hset_c : (front ++ P1.I :: (List.map (fun b => if b = P1.I then P1.I else P1.Z) bs ++ [P1.Z])).set k .Z
          = front ++ P1.Z :: (List.map (fun b => if b = P1.I then P1.I else P1.Z) bs ++ [P1.Z]) := by
        rw [← hk]; exact set_mid _ _ _ _
      rw [hset_c]
      have hassoc2 : front ++ P1.Z :: (List.map (fun b => if b = P1.I then P1.I else P1.Z) bs ++ [P1.Z])
          = (front ++ P1.Z :: List.map (fun b => if b = P1.I then P1.I else P1.Z) bs) ++ P1.Z :: [] := by simp
      have hanc2 : anc = (front ++ P1.Z :: List.map (fun b => if b = P1.I then P1.I else P1.Z) bs).length := by
        simp [hk]; simp at hanc; omega
      rw [hassoc2, hanc2, set_mid]
      simp

/-- flipping the support of `bs` gives back `bs`, with no sign -/
theorem flip_supp (bs extra : List P1) :
    flipPs bs (supp bs ++ extra) = bs ++ extra ∧ flipSign bs (supp bs ++ extra) = false := by
  induction bs with
  | nil => simp [flipPs, flipSign, supp]
  | cons b bs ih =>
    have ih' := ih
    simp only [supp] at ih'
    cases b <;> simp [flipPs, flipSign, supp, flip1, conj1, ih'.1, ih'.2]

/-- the basis change is an involution on every Pauli string -/
theorem flip_flip (bs ps : List P1) :
    flipPs bs (flipPs bs ps) = ps ∧ flipSign bs (flipPs bs ps) = flipSign bs ps := by
  induction bs generalizing ps with
  | nil => simp [flipPs, flipSign]
  | cons b bs ih =>
    cases ps with
    | nil => simp [flipPs, flipSign]
    | cons p ps =>
      obtain ⟨h1, h2⟩ := ih ps
      cases b <;> cases p <;> simp [flipPs, flipSign, flip1, conj1, h1, h2]

theorem flipPs_length (bs ps : List P1) : (flipPs bs ps).length = ps.length := by
  induction bs generalizing ps with
  | nil => simp [flipPs]
  | cons b bs ih =>
    cases ps with
    | nil => simp [flipPs]
    | cons p ps => simp [flipPs, ih]

/-! ### shape of `bases` in the three branches -/

theorem nonId_nil (bs : List P1) : ∀ k, nonIdFrom k bs = [] → bs = List.replicate bs.length .I := by
  induction bs with
  | nil => intro k _; rfl
  | cons b bs ih =>
    intro k h
    unfold nonIdFrom at h
    by_cases hb : b = .I
    · simp only [hb, if_true] at h
      rw [List.length_cons, List.replicate_succ, ← ih (k + 1) h, hb]
    · simp [hb] at h

theorem nonId_single (bs : List P1) : ∀ k q, nonIdFrom k bs = [q] →
    ∃ i m b, q = k + i ∧ b ≠ P1.I ∧ bs = List.replicate i .I ++ b :: List.replicate m .I := by
  induction bs with
  | nil => intro k q h; simp [nonIdFrom] at h
  | cons b bs ih =>
    intro k q h
    unfold nonIdFrom at h
    by_cases hb : b = .I
    · simp only [hb, if_true] at h
      obtain ⟨i, m, b', hq, hb', hbs⟩ := ih (k + 1) q h
      refine ⟨i + 1, m, b', by omega, hb', ?_⟩
      rw [hb, hbs, List.replicate_succ, List.cons_append]
    · simp only [hb, if_false, List.cons.injEq] at h
      refine ⟨0, bs.length, b, by omega, hb, ?_⟩
      simp only [List.replicate_zero, List.nil_append]
      rw [← nonId_nil bs (k + 1) h.2]

theorem basisChange_replicate_I (m k : Nat) : basisChangeFrom k (List.replicate m .I) = [] := by
  induction m generalizing k with
  | zero => rfl
  | succ m ih => simp [List.replicate_succ, basisChangeFrom, flipGate, ih]

/-- with a single non-identity basis the basis-change layer is the single flip gate of the code -/
theorem basisChange_single (i m : Nat) (b : P1) (k : Nat) :
    basisChangeFrom k (List.replicate i .I ++ b :: List.replicate m .I) = flipGate b (k + i) := by
  induction i generalizing k with
  | zero => simp [basisChangeFrom, basisChange_replicate_I]
  | succ i ih =>
    simp only [List.replicate_succ, List.cons_append, basisChangeFrom, flipGate, List.nil_append]
    rw [ih (k + 1)]
    congr 1
    omega

end NQ.TB

/-! ### allocation state: a `parity_meas` call returns the controller to the state it found -/
namespace NQ.TB
open NQ

theorem runLive_append (l1 l2 : List TEv) (live : List Nat) :
    runLive live (l1 ++ l2) = (runLive live l1).bind fun l => runLive l l2 := by
  induction l1 generalizing live with
  | nil => simp [runLive]
  | cons e l1 ih =>
    simp only [List.cons_append, runLive]
    cases evLive live e <;> simp [ih]

/-- gates whose operands are all live leave the allocation state alone -/
theorem runLive_gates (gs : List GI) (live : List Nat)
    (h : ∀ g ∈ gs, ∀ q ∈ g.qs, q ∈ live) : runLive live (gs.map TEv.gate) = some live := by
  induction gs with
  | nil => rfl
  | cons g gs ih =>
    have hg : (g.qs.all fun q => live.contains q) = true := by
      rw [List.all_eq_true]; intro q hq; simpa using h g (by simp) q hq
    simp only [List.map_cons, runLive, evLive, hg, if_true, Option.bind_some]
    exact ih (fun g' hg' => h g' (by simp [hg']))

theorem flipGate_qs (b : P1) (k : Nat) : ∀ g ∈ flipGate b k, g.qs = [k] := by
  cases b <;> simp [flipGate]

theorem basisChange_qs (bs : List P1) : ∀ k, ∀ g ∈ basisChangeFrom k bs,
    ∃ q, g.qs = [q] ∧ k ≤ q ∧ q < k + bs.length := by
  induction bs with
  | nil => intro k g hg; simp [basisChangeFrom] at hg
  | cons b bs ih =>
    intro k g hg
    simp only [basisChangeFrom, List.mem_append] at hg
    rcases hg with hg | hg
    · exact ⟨k, flipGate_qs b k g hg, Nat.le_refl _, by simp⟩
    · obtain ⟨q, h1, h2, h3⟩ := ih (k + 1) g hg
      exact ⟨q, h1, by omega, by simp; omega⟩

theorem cnots_qs (bs : List P1) : ∀ k anc, ∀ g ∈ cnotsFrom k anc bs,
    ∃ c, g.qs = [c, anc] ∧ k ≤ c ∧ c < k + bs.length := by
  induction bs with
  | nil => intro k anc g hg; simp [cnotsFrom] at hg
  | cons b bs ih =>
    intro k anc g hg
    simp only [cnotsFrom, List.mem_append] at hg
    rcases hg with hg | hg
    · by_cases hb : b = .I
      · simp [hb] at hg
      · simp only [hb, if_false, List.mem_singleton] at hg
        exact ⟨k, by rw [hg], Nat.le_refl _, by simp⟩
    · obtain ⟨c, h1, h2, h3⟩ := ih (k + 1) anc g hg
      exact ⟨c, h1, by omega, by simp; omega⟩

end NQ.TB
