/-
C03, part 6: `_build_subroutine` is faithful (reading the instructions back gives the proto
commands), `NoArgs` through the passes, and the structure theorem (no drop / dup / reorder).
-/
import NetqasmVerif.Lemmas.AsmCompose
namespace NQ.Asm
open NQ

/-! ### `NoArgs` through the passes -/

theorem noArgs_rcAll {c : RcCfg} {P P1 : List PCmd} (hna : NoArgs P) (h1 : rcAll c P = .ok P1) : NoArgs P1 := by
  induction P generalizing P1 with
  | nil => simp only [rcAll, Except.ok.injEq] at h1; subst h1; intro mn a o hm; cases hm
  | cons y ys ih =>
    obtain ⟨cy, R, hc, h2, rfl⟩ := rcAll_cons h1
    have hR := ih (fun mn a o hm => hna mn a o (List.mem_cons_of_mem _ hm)) h2
    intro mn args ops hm
    rcases List.mem_append.1 hm with hm | hm
    · cases y with
      | label l => simp only [rcCmd, Except.ok.injEq] at hc; subst hc; simp at hm
      | instr mn' a' o' =>
        obtain ⟨sets, ops', tmp', _, rfl⟩ := rcCmd_instr_spec hc
        simp only [List.mem_append, List.mem_map, List.mem_singleton] at hm
        rcases hm with ⟨rv, _, hrv⟩ | hm
        · simp only [setCmd, PCmd.instr.injEq] at hrv; exact hrv.2.1.symm
        · simp only [PCmd.instr.injEq] at hm
          rw [hm.2.1]; exact hna mn' a' o' (by simp)
    · exact hR mn args ops hm

theorem noArgs_assign {P1 P2 : List PCmd} (hna : NoArgs P1) (h2 : assignBranchLabels P1 = .ok P2) : NoArgs P2 := by
  rw [assignBranchLabels_ok h2]
  intro mn args ops hm
  obtain ⟨c, hc, hp⟩ := List.mem_filterMap.1 hm
  cases c with
  | label l => simp [patchCmd] at hp
  | instr mn' a' o' =>
    simp only [patchCmd, Option.some.injEq, PCmd.instr.injEq] at hp
    rw [← hp.2.1]; exact hna mn' a' o' hc

theorem noArgs_assembleProto {exc : List (String × Nat)} {n : Nat} {P P2 : List PCmd} {reserved : List Reg}
    (h : assembleProto exc n P reserved = .ok P2) : NoArgs P2 := by
  obtain ⟨P1, h1, h2⟩ := assembleProto_inv h
  exact noArgs_assign (noArgs_rcAll (noArgs_makeArgs P) h1) h2

/-! ### `build` read back -/

/-- every row is found by its own class name (no two rows share a class) -/
def TableOk (T : Table) : Prop := ∀ row ∈ T, rowOf T row.cls = some row

theorem buildOp_embed {k : FieldKind} {o : POperand} {x : Operand} (h : buildOp k o = some x) :
    embedOp x = o := by
  cases k <;> cases o <;> simp only [buildOp] at h <;> try (cases h; rfl)
  all_goals first | (cases h) | skip
  · rename_i a i
    cases i with
    | reg r => simp only [buildRI, Option.some.injEq] at h; subst h; rfl
    | lit v => simp [buildRI] at h
  · rename_i a s e
    cases s <;> cases e <;> simp only [buildRI] at h <;> first | (cases h; rfl) | cases h

theorem buildOps_embed {ks : List FieldKind} {os : List POperand} {xs : List Operand}
    (h : buildOps ks os = some xs) : xs.map embedOp = os := by
  induction os generalizing ks xs with
  | nil => cases ks <;> simp only [buildOps] at h <;> cases h; rfl
  | cons o os ih =>
    cases ks with
    | nil => simp [buildOps] at h
    | cons k ks' =>
      simp only [buildOps] at h
      cases h1 : buildOp k o with
      | none => simp [h1] at h
      | some x =>
        cases h2 : buildOps ks' os with
        | none => simp [h1, h2] at h
        | some xs' =>
          simp only [h1, h2, Option.some.injEq] at h
          subst h
          simp [buildOp_embed h1, ih h2]

theorem build_embed {T : Table} (hT : TableOk T) {c : PCmd} {i : Instr}
    (hc : ∀ mn args ops, c = .instr mn args ops → args = []) (h : build T c = .ok i) : embed T i = c := by
  cases c with
  | label l => simp [build] at h
  | instr mn args ops =>
    have := hc mn args ops rfl
    subst this
    simp only [build] at h
    cases hn : nameMap T mn with
    | none => simp [hn] at h
    | some row =>
      simp only [hn] at h
      cases hb : buildOps row.shape ops with
      | none => simp [hb] at h
      | some os =>
        simp only [hb, Except.ok.injEq] at h
        subst h
        have hm := lastBy_some_mem hn
        have hmn : row.mn = mn := by simpa using hm.2
        simp only [embed, hT row hm.1, hmn, buildOps_embed hb]

theorem buildAll_embed {T : Table} (hT : TableOk T) {P2 : List PCmd} {A : List Instr}
    (hna : NoArgs P2) (h : buildAll T P2 = .ok A) : A.map (embed T) = P2 := by
  induction P2 generalizing A with
  | nil => simp only [buildAll, Except.ok.injEq] at h; subst h; rfl
  | cons c cs ih =>
    simp only [buildAll] at h
    cases h1 : build T c with
    | error e => simp [h1] at h
    | ok i =>
      simp only [h1] at h
      cases h2 : buildAll T cs with
      | error e => simp [h2] at h
      | ok is =>
        simp only [h2, Except.ok.injEq] at h
        subst h
        simp only [List.map_cons]
        rw [build_embed hT (fun mn a o e => hna mn a o (by simp [e])) h1,
          ih (fun mn a o hm => hna mn a o (List.mem_cons_of_mem _ hm)) h2]

theorem assemble_inv {T : Table} {exc : List (String × Nat)} {n : Nat} {P : List PCmd} {A : List Instr}
    (h : assemble T exc n P reserved = .ok A) :
    ∃ P2, assembleProto exc n P reserved = .ok P2 ∧ buildAll T P2 = .ok A := by
  simp only [assemble] at h
  cases h1 : assembleProto exc n P reserved with
  | error e => simp [h1] at h
  | ok P2 => simp only [h1] at h; exact ⟨P2, rfl, h⟩

theorem assemble_embed {T : Table} (hT : TableOk T) {exc : List (String × Nat)} {n : Nat} {P : List PCmd}
    {A : List Instr} {reserved : List Reg} (h : assemble T exc n P reserved = .ok A) :
    assembleProto exc n P reserved = .ok (A.map (embed T)) := by
  obtain ⟨P2, h1, h2⟩ := assemble_inv h
  rw [buildAll_embed hT (noArgs_assembleProto h1) h2]; exact h1

/-! ### structure of the output: nothing dropped, duplicated or reordered -/

/-- a source instruction and its image: same mnemonic, operands patched (literals that are not
immediates ↦ the scratch registers of `sets`, labels ↦ table entries) -/
def CmdPatched (exc : List (String × Nat)) (tbl : List (String × Nat)) (sets : List (Reg × Int))
    (c c' : PCmd) : Prop :=
  ∃ mn args ops ops1, c = .instr mn args ops ∧ OpsPatched exc mn sets 0 (allOps args ops) ops1 ∧
    c' = .instr mn [] (ops1.map (patchOp tbl))

/-- the instructions of a program, labels erased -/
def instrsOf (P : List PCmd) : List PCmd := P.filter (fun c => match c with | .label _ => false | .instr _ _ _ => true)

/-- element-wise relation between two lists of equal length -/
inductive Forall2 {α β : Type} (R : α → β → Prop) : List α → List β → Prop
  | nil : Forall2 R [] []
  | cons {a : α} {b : β} {as : List α} {bs : List β} : R a b → Forall2 R as bs → Forall2 R (a :: as) (b :: bs)

/-- one block of the output: the inserted assignments, then the image of the instruction -/
def blockCode (b : List (Reg × Int) × PCmd) : List PCmd := b.1.map setCmd ++ [b.2]

theorem patchCmd_setCmd (tbl : List (String × Nat)) (rv : Reg × Int) : patchCmd tbl (setCmd rv) = some (setCmd rv) := by
  simp [patchCmd, setCmd, patchOp]

theorem filterMap_setCmds (tbl : List (String × Nat)) (sets : List (Reg × Int)) :
    (sets.map setCmd).filterMap (patchCmd tbl) = sets.map setCmd := by
  induction sets with
  | nil => rfl
  | cons x xs ih => simp only [List.map_cons, List.filterMap_cons, patchCmd_setCmd, ih]

theorem structure_rcAll {c : RcCfg} (tbl : List (String × Nat)) {P P1 : List PCmd} (hna : NoArgs P)
    (h1 : rcAll c P = .ok P1) :
    ∃ blocks : List (List (Reg × Int) × PCmd),
      P1.filterMap (patchCmd tbl) = blocks.flatMap blockCode ∧
      Forall2 (fun src b => CmdPatched c.exc tbl b.1 src b.2 ∧ (∀ rv ∈ b.1, IsScratch c.nreg c.cur rv.1)
        ∧ (b.1.map Prod.fst).Nodup) (instrsOf P) blocks := by
  induction P generalizing P1 with
  | nil =>
    simp only [rcAll, Except.ok.injEq] at h1; subst h1
    exact ⟨[], rfl, by simpa [instrsOf] using Forall2.nil⟩
  | cons y ys ih =>
    obtain ⟨cy, R, hc, h2, rfl⟩ := rcAll_cons h1
    obtain ⟨blocks, hb, hf⟩ := ih (fun mn a o hm => hna mn a o (List.mem_cons_of_mem _ hm)) h2
    cases y with
    | label l =>
      simp only [rcCmd, Except.ok.injEq] at hc; subst hc
      refine ⟨blocks, ?_, ?_⟩
      · simp [List.filterMap_cons, patchCmd, hb]
      · simpa [instrsOf, List.filter_cons] using hf
    | instr mn a o =>
      have ha : a = [] := hna mn a o (by simp)
      subst ha
      obtain ⟨sets, ops', tmp', hro, rfl⟩ := rcCmd_instr_spec hc
      obtain ⟨hinv, hpat, _⟩ := rcOps_spec hro
      refine ⟨(sets, .instr mn [] (ops'.map (patchOp tbl))) :: blocks, ?_, ?_⟩
      · simp only [List.filterMap_append, filterMap_setCmds, List.filterMap_cons, patchCmd, List.filterMap_nil,
          hb, List.flatMap_cons, blockCode, List.append_assoc]
      · have hnd : (sets.map Prod.fst).Nodup := by
          have := hinv.nodup List.nodup_nil
          rw [hinv.tmp_eq] at this; simpa using this
        simp only [instrsOf, List.filter_cons] at hf ⊢
        exact Forall2.cons ⟨⟨mn, [], o, ops', rfl, by simpa [allOps] using hpat, rfl⟩, hinv.scratch, hnd⟩ hf

end NQ.Asm
