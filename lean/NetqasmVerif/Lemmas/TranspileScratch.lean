/-
scratch_ok, about the pass itself: every register an expansion chunk WRITES (its `set`s) is the
register `get_unused_register` returns for the `used` set at that very gate.
-/
import NetqasmVerif.Lemmas.TranspileSim
namespace NQ.Tr
open NQ

def isSetCls (cfg : Cfg) (c : String) : Bool :=
  match infoOf cfg c with
  | some i => i.isSet
  | none => false

def ccKeys : List String := ["cnot_cc", "cnot_cc@debug", "cphase_cc", "cphase_cc@debug"]

def isScratchSet (ops : List TOp) : Bool :=
  match ops with
  | [.s, .lit _] => true
  | _ => false

/-- table facts: an expansion template contains a `set` only in the carbon–carbon rows, and only
of the form `set s <literal>`; no gate class is named like a carbon–carbon row -/
def SetsOnlyScratch (cfg : Cfg) : Bool :=
  cfg.exps.all (fun r => r.body.all (fun t =>
    !isSetCls cfg t.cls || (ccKeys.contains r.key && isScratchSet t.ops)))
  && cfg.infos.all (fun i => !ccKeys.contains i.cls && !ccKeys.contains (i.cls ++ "@hw"))

theorem instBody_mem {g : Instr} {a b s : Reg} : ∀ {body : List TInstr} {l : List Instr},
    instBody g a b s body = some l → ∀ y ∈ l, ∃ t ∈ body, y.cls = t.cls ∧ instOps g a b s t.ops = some y.ops := by
  intro body
  induction body with
  | nil => intro l h y hy; simp [instBody] at h; subst h; cases hy
  | cons t ts ih =>
    intro l h y hy
    unfold instBody at h
    cases h1 : instOps g a b s t.ops with
    | none => rw [h1] at h; simp at h
    | some os =>
      cases h2 : instBody g a b s ts with
      | none => rw [h1, h2] at h; simp at h
      | some is =>
        rw [h1, h2] at h
        simp only [Option.some.injEq] at h
        subst h
        rcases List.mem_cons.1 hy with rfl | hm
        · exact ⟨t, List.mem_cons_self, rfl, h1⟩
        · obtain ⟨t', ht', hc⟩ := ih h2 y hm
          exact ⟨t', List.mem_cons_of_mem _ ht', hc⟩

theorem setOf_isSetCls {cfg : Cfg} {y : Instr} {r : Reg} {v : Int} (h : setOf cfg y = some (r, v)) :
    isSetCls cfg y.cls = true ∧ y.ops = [.reg r, .imm v] := by
  unfold setOf at h
  unfold isSetCls
  cases hi : infoOf cfg y.cls with
  | none => rw [hi] at h; cases h
  | some info =>
    rw [hi] at h
    simp only at h ⊢
    split at h
    · rename_i hs
      split at h
      · rename_i r1 v1 hops
        simp only [Option.some.injEq, Prod.mk.injEq] at h
        exact ⟨hs, by rw [hops, h.1, h.2]⟩
      · cases h
    · cases h

/-- a `set` inside an instantiated template: the row is a carbon–carbon row and the register is
the one substituted for `s` -/
theorem useTemplate_sets {cfg : Cfg} (hS : SetsOnlyScratch cfg = true) {key g a b s l}
    (h : useTemplate cfg key g a b s = .ok l) {y : Instr} (hy : y ∈ l) {r : Reg} {v : Int}
    (hset : setOf cfg y = some (r, v)) : ccKeys.contains key = true ∧ r = s := by
  unfold useTemplate at h
  cases he : expOf cfg key with
  | none => rw [he] at h; cases h
  | some body =>
    rw [he] at h
    simp only at h
    cases hb : instBody g a b s body with
    | none => rw [hb] at h; cases h
    | some l' =>
      rw [hb] at h
      simp only [Except.ok.injEq] at h
      subst h
      obtain ⟨t, ht, hc, hops⟩ := instBody_mem hb y hy
      obtain ⟨hcls, hyops⟩ := setOf_isSetCls hset
      unfold expOf at he
      cases hf : cfg.exps.find? (fun r => r.key == key) with
      | none => rw [hf] at he; cases he
      | some row =>
        rw [hf] at he
        simp only [Option.map_some, Option.some.injEq] at he
        have hr : row ∈ cfg.exps := List.mem_of_find?_eq_some hf
        have hk : row.key = key := by simpa using List.find?_some hf
        unfold SetsOnlyScratch at hS
        simp only [Bool.and_eq_true] at hS
        have h1 := (List.all_eq_true.1 hS.1) row hr
        rw [he] at h1
        have h2 := (List.all_eq_true.1 h1) t ht
        rw [← hc, hcls] at h2
        simp only [Bool.not_true, Bool.false_or, Bool.and_eq_true, hk] at h2
        refine ⟨h2.1, ?_⟩
        have h3 := h2.2
        unfold isScratchSet at h3
        split at h3
        · rename_i lv hto
          rw [hto] at hops
          simp only [instOps, instOp] at hops
          rw [hyops] at hops
          simp only [Option.some.injEq, List.cons.injEq, Operand.reg.injEq, Operand.imm.injEq,
            and_true] at hops
          exact hops.1.symm
        · cases h3

theorem sfx_cases (cfg : Cfg) : sfx cfg = "" ∨ sfx cfg = "@debug" := by
  unfold sfx; by_cases h : cfg.debug = true <;> simp [h]

theorem expandGate2_sets {cfg : Cfg} (hS : SetsOnlyScratch cfg = true) {info rv used g l}
    (h : expandGate2 cfg info rv used g = .ok l) {y : Instr} (hy : y ∈ l) {r : Reg} {v : Int}
    (hset : setOf cfg y = some (r, v)) : getUnused used = .ok r := by
  have hnc : ∀ (k : String), k ∈ ["cnot_ec", "cnot_ce", "cphase_ec", "mov_ec", "mov_ce"] →
      ccKeys.contains (k ++ sfx cfg) = false := by
    intro k hk
    rcases sfx_cases cfg with e | e <;> rw [e] <;> revert k <;> decide
  unfold expandGate2 at h
  repeat' split at h
  all_goals first
    | cases h
    | (rename_i sreg hgu
       have := (useTemplate_sets hS h hy hset).2
       rw [this]; exact hgu)
    | (have := (useTemplate_sets hS h hy hset).1
       rw [hnc _ (by simp)] at this
       cases this)

theorem expandInstr_sets {cfg : Cfg} (hS : SetsOnlyScratch cfg = true) {info rv used g l}
    (hi : infoOf cfg g.cls = some info) (hg : infoGate info = true)
    (h : expandInstr cfg info rv used g = .ok l) {y : Instr} (hy : y ∈ l) {r : Reg} {v : Int}
    (hset : setOf cfg y = some (r, v)) : getUnused used = .ok r := by
  unfold expandInstr at h
  split at h
  · -- one-qubit gates emit no `set`
    unfold expandGate1 at h
    split at h
    · have hk := (useTemplate_sets hS h hy hset).1
      obtain ⟨hm, hc⟩ := infoOf_cls hi
      unfold SetsOnlyScratch at hS
      simp only [Bool.and_eq_true] at hS
      have h2 := (List.all_eq_true.1 hS.2) info hm
      simp only [Bool.and_eq_true, Bool.not_eq_eq_eq_not, Bool.not_true, hc] at h2
      by_cases hhw : cfg.hw = true
      · simp only [hhw, ↓reduceIte] at hk; rw [h2.2] at hk; cases hk
      · simp only [hhw, Bool.false_eq_true, ↓reduceIte, String.append_empty] at hk; rw [h2.1] at hk; cases hk
    · cases h
  · split at h
    · exact expandGate2_sets hS h hy hset
    · unfold infoGate at hg; simp_all

end NQ.Tr
