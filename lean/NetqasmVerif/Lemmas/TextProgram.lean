import NetqasmVerif.Lemmas.TextLine
namespace NQ.Text
open NQ

variable {S : Syms}

/-- an instruction of table `T` whose printed line lexes back to its tokens -/
def Lexable (T : Table) (S : Syms) (generic : List String) (i : Instr) : Prop :=
  ∃ row, rowOf T i.cls = some row ∧ row.mn.toList ≠ [] ∧ (∀ c ∈ row.mn.toList, mnCharOk c = true) ∧
    generic.contains row.mn = true ∧ ∀ o ∈ i.ops, banksOk S.banks.length o = true

theorem parseLines_show (hS : SOk S) (T : Table) (generic : List String) (is : List Instr)
    (h : ∀ i ∈ is, Lexable T S generic i) :
    parseLines S generic (is.map (showLine T S)) = .ok (is.map (toksOf T)) := by
  induction is with
  | nil => rfl
  | cons i is ih =>
    obtain ⟨row, hr, hne, hmn, hg, hb⟩ := h i List.mem_cons_self
    have ih' := ih (fun j hj => h j (List.mem_cons_of_mem _ hj))
    obtain ⟨hall, ⟨c, cs, hc, hcm⟩, ⟨l, d, hl, hd⟩⟩ := line_facts hS row.mn.toList hne hmn i.ops hb
    have hline : showLine T S i = row.mn.toList ++ showOperands S i.ops := by
      simp [showLine, hr, showInstr]
    have hstrip : strip (showLine T S i) = showLine T S i := by
      rw [hline]
      unfold strip
      have h1 : (row.mn.toList ++ showOperands S i.ops).dropWhile isSpace
          = row.mn.toList ++ showOperands S i.ops := by
        rw [hc]; exact dropWhile_head (mnChar_not_space hcm)
      rw [h1, hl]
      exact dropWhileEnd_concat_false _ (lastOk_not_space hS hd)
    obtain ⟨k, ks, hk, hkc⟩ := hS.cmt
    have hnc : containsSub S.comment.toList (showLine T S i) = false := by
      rw [hline]
      exact containsSub_false hk (fun hin => by simp [hall k hin] at hkc)
    have hpre : ¬ (showLine T S i).head? = some S.preambleStart := by
      rw [hline, hc]
      simp only [List.head?_cons, Option.some.injEq]
      intro hp; rw [hp, hS.preamble] at hcm; cases hcm
    have hnemp : (showLine T S i).isEmpty = false := by rw [hline, hc]; rfl
    simp only [List.map_cons, parseLines, hstrip, hnemp, Bool.false_eq_true, if_false, hnc,
      Bool.or_false, beq_iff_eq, hpre]
    have htok : toksOf T i = printToks row.mn i.ops := by simp [toksOf, hr]
    have : showLine T S i = showInstr S row.mn i.ops := by simp [showLine, hr]
    rw [this, parseLine_show hS generic row.mn hne hmn hg i.ops hb, ih', htok]

theorem banksOk_of_inRange (n : Nat) (hn : 4 ≤ n) : ∀ (ks : List FieldKind) (ops : List Operand),
    InRangeOps ks ops = true → ∀ o ∈ ops, banksOk n o = true
  | [], [], _, o, ho => by cases ho
  | [], _ :: _, h, _, _ => by simp [InRangeOps] at h
  | _ :: _, [], h, _, _ => by simp [InRangeOps] at h
  | k :: ks, o :: os, h, o', ho' => by
    simp only [InRangeOps, Bool.and_eq_true] at h
    rcases List.mem_cons.1 ho' with rfl | hm
    · cases k <;> cases o' <;> simp [InRangeOp, okReg] at h <;> simp [banksOk] <;> omega
    · exact banksOk_of_inRange n hn ks os h.2 o' hm

/-- **Character level, whole programs**: the text printed for any list of instructions
with in-range operands parses back to exactly these instructions. -/
theorem parseText_show (T : Table) (S : Syms) (generic : List String) (exc : List (String × Nat))
    (hS : symsOk S = true) (hT : T.all (rowTextOk T exc generic) = true) (is : List Instr)
    (h : ∀ i ∈ is, ∃ row, rowOf T i.cls = some row ∧ InRangeOps row.shape i.ops = true) :
    parseText T S generic exc (is.map (showLine T S)) = .ok is := by
  have hS' := sok_of S hS
  have hlex : ∀ i ∈ is, Lexable T S generic i := by
    intro i hi
    obtain ⟨row, hr, hin⟩ := h i hi
    have hm := (rowOf_some hr).1
    have hrow := List.all_eq_true.1 hT row hm
    simp only [rowTextOk, Bool.and_eq_true, beq_iff_eq, Bool.not_eq_true', List.all_eq_true] at hrow
    refine ⟨row, hr, ?_, hrow.2, hrow.1.1.2, banksOk_of_inRange _ hS'.nbanks _ _ hin⟩
    intro hnil; simp [hnil] at hrow
  have hpr : ∀ i ∈ is, Printable T exc i := by
    intro i hi
    obtain ⟨row, hr, hin⟩ := h i hi
    exact printable_of_rowOk T exc generic hT i row hr (kindsOk_of_inRange _ _ hin)
  simp only [parseText, parseLines_show hS' T generic is hlex, assemble_print T S exc is hpr]

/-- the same with the row condition per instruction instead of for the whole table: in a table
where some class is shadowed (a later row re-uses its mnemonic, as a user flavour may do), every
instruction whose own row still satisfies `rowTextOk` — the row the name map resolves to — is
printed and parsed back unchanged -/
theorem parseText_show_rows (T : Table) (S : Syms) (generic : List String) (exc : List (String × Nat))
    (hS : symsOk S = true) (is : List Instr)
    (h : ∀ i ∈ is, ∃ row, rowOf T i.cls = some row ∧ rowTextOk T exc generic row = true ∧
      InRangeOps row.shape i.ops = true) :
    parseText T S generic exc (is.map (showLine T S)) = .ok is := by
  have hS' := sok_of S hS
  have hlex : ∀ i ∈ is, Lexable T S generic i := by
    intro i hi
    obtain ⟨row, hr, hrow, hin⟩ := h i hi
    simp only [rowTextOk, Bool.and_eq_true, beq_iff_eq, Bool.not_eq_true', List.all_eq_true] at hrow
    refine ⟨row, hr, ?_, hrow.2, hrow.1.1.2, banksOk_of_inRange _ hS'.nbanks _ _ hin⟩
    intro hnil; simp [hnil] at hrow
  have hpr : ∀ i ∈ is, Printable T exc i := by
    intro i hi
    obtain ⟨row, hr, hrow, hin⟩ := h i hi
    simp only [rowTextOk, Bool.and_eq_true, beq_iff_eq] at hrow
    exact ⟨row, hr, hrow.1.1.1.1.1, hrow.1.1.1.2, kindsOk_of_inRange _ _ hin⟩
  simp only [parseText, parseLines_show hS' T generic is hlex, assemble_print T S exc is hpr]

end NQ.Text
