/-
Lemmas lifting `stepLoc` facts to the controller state (`step`) and to `run`.
-/
import NetqasmVerif.Lemmas.ExecStep
namespace NQ.Exec

def Res.st : Res → State
  | .ok s _ => s
  | .fault s _ => s

def LRes.loc : LRes → Loc
  | .ok l _ => l
  | .fault l _ => l

theorem put_loc_self (s : State) (a : Nat) (ap : App) (h : s.apps a = some ap) :
    s.put a (s.loc ap) = s := by
  cases s
  simp only [State.put, State.loc] at *
  congr
  funext b
  unfold upd
  split
  · subst_vars; exact h.symm
  · rfl

/-- an instruction of application `a` never touches another application's state -/
theorem step_apps_other (hw : Bool) (a : Nat) (i : Instr) (s : State) (pc : Int) (b : Nat) (hb : b ≠ a) :
    (step hw a i s pc).st.apps b = s.apps b := by
  unfold step
  split
  · split <;> rfl
  · split <;> simp [Res.st, State.put, upd_other _ _ _ _ hb]

theorem step_reserved_registry (hw : Bool) (a : Nat) (i : Instr) (s : State) (pc : Int) :
    (step hw a i s pc).st.reserved = s.reserved ∧ (step hw a i s pc).st.registry = s.registry := by
  unfold step
  split
  · split <;> exact ⟨rfl, rfl⟩
  · split <;> exact ⟨rfl, rfl⟩

/-- shape of a step of a registered application -/
theorem step_ok_of_loc {hw a i s pc ap l pc'} (h : s.apps a = some ap)
    (hl : stepLoc hw a i (s.loc ap) pc = .ok l pc') : step hw a i s pc = .ok (s.put a l) pc' := by
  unfold step; simp [h, hl]

theorem step_fault_of_loc {hw a i s pc ap l f} (h : s.apps a = some ap)
    (hl : stepLoc hw a i (s.loc ap) pc = .fault l f) : step hw a i s pc = .fault (s.put a l) f := by
  unfold step; simp [h, hl]

theorem step_fault_atomic {hw a i s pc s' f} (h : step hw a i s pc = .fault s' f) (hk : f ≠ .usedKey) :
    s'.apps = s.apps ∧ s'.used = s.used ∧ s'.reserved = s.reserved ∧ s'.registry = s.registry := by
  unfold step at h
  split at h
  · split at h
    · cases h
    · cases h; exact ⟨rfl, rfl, rfl, rfl⟩
  · rename_i ap hap
    split at h
    · cases h
    · rename_i l f' hl
      cases h
      have := stepLoc_fault_atomic hl hk
      refine ⟨?_, this.2, rfl, rfl⟩
      simp only [State.put, State.loc] at *
      funext b
      unfold upd
      split
      · subst_vars; rw [this.1, hap]
      · rfl

/-- if moreover the instruction is not `meas` the whole state is unchanged -/
theorem stepLoc_fault_eq {hw a i l pc l' f} (h : stepLoc hw a i l pc = .fault l' f)
    (hk : f ≠ .usedKey) (hm : ∀ q c, i ≠ .meas q c) : l' = l := by
  cases i <;> simp only [stepLoc] at h
  all_goals first
    | (exact (wr_fault h).1)
    | (exact arith_fault h)
    | (exact arithm_fault h)
    | (exfalso; exact hm _ _ rfl)
    | skip
  all_goals
    repeat' split at h
  all_goals first
    | (cases h <;> (first | rfl | (exfalso; exact hk rfl)))
    | (exact (wr_fault h).1)
    | (simp only [br_ok] at h; cases h)

theorem step_fault_eq {hw a i s pc s' f} (h : step hw a i s pc = .fault s' f) (hk : f ≠ .usedKey)
    (hm : ∀ q c, i ≠ .meas q c) : s' = s := by
  unfold step at h
  split at h
  · split at h
    · cases h
    · cases h; rfl
  · rename_i ap hap
    split at h
    · cases h
    · rename_i l f' hl
      cases h
      have := stepLoc_fault_eq hl hk hm
      subst this
      exact put_loc_self s a ap hap

/-! ### run -/

theorem run_zero (hw a prog s pc) :
    run hw a prog 0 s pc = if pc ≥ prog.length then ⟨s, pc, .halted, []⟩ else ⟨s, pc, .outOfFuel, []⟩ := by
  simp [run]

/-- a reported line is the program counter at which execution stopped, and it is the last
instruction that was started -/
theorem run_fault_line (hw : Bool) (a : Nat) (prog : List Instr) (fuel : Nat) (s : State) (pc : Int)
    (f : Fault) (ln : Int) (h : (run hw a prog fuel s pc).out = .fault f (some ln)) :
    (run hw a prog fuel s pc).pc = ln ∧ (run hw a prog fuel s pc).visited.getLast? = some ln := by
  induction fuel generalizing s pc with
  | zero =>
    rw [run_zero] at h; split at h <;> simp at h
  | succ n ih =>
    unfold run at h ⊢
    split
    · simp_all
    · rename_i hge
      simp only [hge, if_false] at h
      split
      · simp_all
      · rename_i k hk
        simp only [hk] at h
        split
        · simp_all
        · rename_i i hi
          simp only [hi] at h
          split
          · rename_i s' pc' hs
            simp only [hs] at h
            have := ih s' pc' h
            refine ⟨this.1, ?_⟩
            have h2 := this.2
            simp only [List.getLast?_cons]
            rw [h2]; rfl
          · rename_i s' f' hs
            simp only [hs] at h
            cases h
            exact ⟨rfl, rfl⟩

/-- more fuel does not change a finished run -/
theorem run_fuel_mono (hw : Bool) (a : Nat) (prog : List Instr) (fuel k : Nat) (s : State) (pc : Int)
    (h : (run hw a prog fuel s pc).out ≠ .outOfFuel) :
    run hw a prog (fuel + k) s pc = run hw a prog fuel s pc := by
  induction fuel generalizing s pc with
  | zero =>
    rw [run_zero] at h ⊢
    split at h
    · rename_i hge
      cases k with
      | zero => simp [run, hge]
      | succ k => simp [run, hge]
    · simp at h
  | succ n ih =>
    have e : n + 1 + k = (n + k) + 1 := by omega
    rw [e]
    unfold run at h ⊢
    split
    · rfl
    · rename_i hge
      simp only [hge, if_false] at h
      split
      · rfl
      · rename_i kk hk
        simp only [hk] at h
        split
        · rfl
        · rename_i i hi
          simp only [hi] at h
          split
          · rename_i s' pc' hs
            simp only [hs] at h
            rw [ih s' pc' h]
          · rfl

/-- a whole subroutine of application `a` leaves every other application's state unchanged -/
theorem run_apps_other (hw : Bool) (a : Nat) (prog : List Instr) (fuel : Nat) (s : State) (pc : Int)
    (b : Nat) (hb : b ≠ a) : (run hw a prog fuel s pc).s.apps b = s.apps b := by
  induction fuel generalizing s pc with
  | zero => rw [run_zero]; split <;> rfl
  | succ n ih =>
    unfold run
    split
    · rfl
    · split
      · rfl
      · split
        · rfl
        · rename_i i _
          have := step_apps_other hw a i s pc b hb
          split
          · rename_i s' pc' hs
            rw [hs] at this
            simp only []
            rw [ih s' pc']; exact this
          · rename_i s' f hs
            rw [hs] at this
            exact this


/-! ### the driver's guarded run is `run` -/

/-- `run` with one more unit of fuel = one instruction, then the rest -/
theorem run_succ (hw : Bool) (a : Nat) (prog : List Instr) (n : Nat) (s : State) (pc : Int) :
    run hw a prog (n + 1) s pc =
      (match (run hw a prog 1 s pc).out with
       | .outOfFuel => { run hw a prog n (run hw a prog 1 s pc).s (run hw a prog 1 s pc).pc with
                         visited := (run hw a prog 1 s pc).visited ++
                           (run hw a prog n (run hw a prog 1 s pc).s (run hw a prog 1 s pc).pc).visited }
       | _ => run hw a prog 1 s pc) := by
  by_cases hge : pc ≥ prog.length
  · simp [run, hge]
  · rcases hk : pyIdx prog.length pc with _ | k
    · simp [run, hge, hk]
    · rcases hi : prog[k]? with _ | i
      · simp [run, hge, hk, hi]
      · rcases hs : step hw a i s pc with ⟨s', pc'⟩ | ⟨s', f⟩
        · by_cases hp : pc' ≥ prog.length
          · cases n <;> simp [run, hge, hk, hi, hs, hp]
          · simp [run, hge, hk, hi, hs, hp]
        · simp [run, hge, hk, hi, hs]

theorem runG_eq_run (hw : Bool) (a : Nat) (prog : List Instr) (n : Nat) (s : State) (pc : Int)
    (r : RunOut) (h : runG hw a prog n s pc = some r) : r = run hw a prog n s pc := by
  induction n generalizing s pc r with
  | zero => simp [runG] at h; exact h.symm
  | succ n ih =>
    unfold runG at h
    split at h
    · cases h
    · rw [run_succ]
      simp only [] at h
      split at h
      · rename_i ho
        simp only [ho]
        rcases hg : runG hw a prog n (run hw a prog 1 s pc).s (run hw a prog 1 s pc).pc with _ | r'
        · simp [hg] at h
        · simp only [hg, Option.map_some, Option.some.injEq] at h
          have := ih _ _ r' hg
          rw [← this, ← h]
      · rename_i ho
        cases h
        split
        · rename_i ho'; exact absurd ho' (by intro e; exact ho e)
        · rfl

end NQ.Exec
