/-
Meaning of the Boolean checks of Model/Gates: `equivUpToScalarV u v = true` really says
"u and v are proportional with non-zero factors".
-/
import NetqasmVerif.Model.Gates
namespace NQ

theorem firstNonzero_spec (l : List Cyc) (i p : Nat) (b : Cyc)
    (h : firstNonzero l i = some (p, b)) : b ≠ 0 ∧ i ≤ p ∧ l.getD (p - i) 0 = b := by
  induction l generalizing i with
  | nil => simp [firstNonzero] at h
  | cons x xs ih =>
    unfold firstNonzero at h
    split at h
    · obtain ⟨h1, h2, h3⟩ := ih (i + 1) h
      refine ⟨h1, by omega, ?_⟩
      have : p - i = (p - (i + 1)) + 1 := by omega
      rw [this]; simpa using h3
    · rename_i hx
      simp only [Option.some.injEq, Prod.mk.injEq] at h
      obtain ⟨rfl, rfl⟩ := h
      refine ⟨?_, Nat.le_refl _, by simp⟩
      intro h0
      apply hx
      rw [Cyc.isZero_iff]; exact h0

theorem allCross_spec (a b : Cyc) (u v : List Cyc) (h : allCross a b u v = true) :
    u.length = v.length ∧ ∀ i, u.getD i 0 * b = v.getD i 0 * a ∨ u.length ≤ i := by
  induction u generalizing v with
  | nil =>
    cases v with
    | nil => exact ⟨rfl, fun i => Or.inr (Nat.zero_le _)⟩
    | cons y ys => simp [allCross] at h
  | cons x xs ih =>
    cases v with
    | nil => simp [allCross] at h
    | cons y ys =>
      simp only [allCross, Bool.and_eq_true, beq_iff_eq] at h
      obtain ⟨hl, hi⟩ := ih ys h.2
      refine ⟨by simp [hl], ?_⟩
      intro i
      cases i with
      | zero => left; simpa using h.1
      | succ j =>
        rcases hi j with h' | h'
        · left; simpa using h'
        · right; simp; omega

/-- `equivUpToScalarV u v`: there are NON-ZERO `a b` with `uᵢ·b = vᵢ·a` for every index —
in the domain ℤ[ζ₈] ⊂ ℂ: `u = (a/b)·v`. -/
theorem equivUpToScalarV_sound (u v : Vec) (h : equivUpToScalarV u v = true) :
    ∃ a b : Cyc, a ≠ 0 ∧ b ≠ 0 ∧ u.length = v.length ∧
      ∀ i, i < u.length → u.getD i 0 * b = v.getD i 0 * a := by
  unfold equivUpToScalarV at h
  split at h
  · simp at h
  · rename_i p b hf
    simp only [Bool.and_eq_true, Bool.not_eq_true', ] at h
    obtain ⟨ha, hc⟩ := h
    obtain ⟨hb, _, _⟩ := firstNonzero_spec v 0 p b hf
    obtain ⟨hl, hi⟩ := allCross_spec _ _ _ _ hc
    refine ⟨u.getD p 0, b, ?_, hb, hl, ?_⟩
    · intro h0
      have : (u.getD p 0).isZero = true := by rw [Cyc.isZero_iff]; exact h0
      rw [this] at ha; cases ha
    · intro i hlt
      rcases hi i with h' | h'
      · exact h'
      · omega

end NQ
