/-
Lemmas (C10): the per-pair correction block *in context*.

`block_spec` talks about the block run as a program of its own. Here the block
sits inside an arbitrary surrounding command list `pre ++ block ++ rest`
(`rest` = the user's post routine, the move-to-memory code, the loop tail …):
as long as `pre` does not define one of the block's five labels, label lookup
(first definition wins, as in the assembler) sends the block's branches into the
block, and the block behaves exactly as on its own — whatever `rest` is.
-/
import NetqasmVerif.Lemmas.BellAlloc
namespace NQ.Bell

theorem findLabelFrom_append_pre {pre cs : List Cmd} {l : String} (h : Cmd.label l ∉ pre) (k : Nat) :
    findLabelFrom (pre ++ cs) l k = findLabelFrom cs l (k + pre.length) := by
  induction pre generalizing k with
  | nil => simp
  | cons c pre ih =>
    have hc : c ≠ Cmd.label l := fun e => h (by simp [e])
    have hp : Cmd.label l ∉ pre := fun e => h (by simp [e])
    have hstep : findLabelFrom (c :: (pre ++ cs)) l k = findLabelFrom (pre ++ cs) l (k + 1) := by
      cases c <;> simp [findLabelFrom]
      rename_i l'
      intro e
      exact absurd (by rw [e]) hc
    rw [List.cons_append, hstep, ih hp]
    congr 1
    simp [List.length_cons]; omega

theorem findLabelFrom_append_found {cs rest : List Cmd} {l : String} {k p : Nat}
    (h : findLabelFrom cs l k = some p) : findLabelFrom (cs ++ rest) l k = some p := by
  induction cs generalizing k with
  | nil => simp [findLabelFrom] at h
  | cons c cs ih =>
    cases c <;> simp only [findLabelFrom, List.cons_append] at h ⊢ <;> try exact ih h
    rename_i l'
    split
    · rename_i e; simpa [e] using h
    · rename_i e; simp only [e, if_false] at h; exact ih h

theorem findLabelFrom_offset (cs : List Cmd) (l : String) (k : Nat) :
    findLabelFrom cs l k = (findLabelFrom cs l 0).map (k + ·) := by
  induction cs generalizing k with
  | nil => simp [findLabelFrom]
  | cons c cs ih =>
    have aux : findLabelFrom cs l (k + 1) = (findLabelFrom cs l (0 + 1)).map (k + ·) := by
      rw [ih (k + 1), ih (0 + 1), Option.map_map]
      congr 1
      funext x
      simp only [Function.comp]; omega
    cases c <;> simp only [findLabelFrom] <;> try exact aux
    rename_i l'
    split
    · simp
    · exact aux

theorem findLabel_in_context {pre blk rest : List Cmd} {l : String} {p : Nat}
    (hpre : Cmd.label l ∉ pre) (h : findLabel blk l = some p) :
    findLabel (pre ++ (blk ++ rest)) l = some (pre.length + p) := by
  unfold findLabel at h ⊢
  rw [findLabelFrom_append_pre hpre]
  apply findLabelFrom_append_found
  rw [findLabelFrom_offset, h]
  simp

theorem getElem_in_context {pre blk rest : List Cmd} {j : Nat} {c : Cmd} (h : blk[j]? = some c) :
    (pre ++ (blk ++ rest))[pre.length + j]? = some c := by
  have hj : j < blk.length := by
    rcases List.getElem?_eq_some_iff.mp h with ⟨hj, _⟩
    exact hj
  rw [List.getElem?_append_right (by omega)]
  have : pre.length + j - pre.length = j := by omega
  rw [this, List.getElem?_append_left hj, h]

/-! ### the block at an arbitrary position of an arbitrary program -/

/-- the command between the raw-Bell-state code and the single-pair block -/
def Target.mid (t : Target) (q : Nat) (ids : Int) (L : Nat) : Cmd :=
  match t with | .loaded => Cmd.load q ids L | .setZero => Cmd.set q 0

/-- generic form of `block_spec`: `code` has the raw-Bell-state code at `o`, the target command at
`o + 9` and the single-pair block at `o + 10` -/
theorem block_at {code : List Cmd} {o : Nat} {t : Target} {ly : Layout} {sp : SinglePair} {q b L I J : Nat}
    {l1 l2 x1 x2 x3 : String} {ids res : Int} {mem : Mem}
    (hraw : RawBellAt code o ly b L I J l1 l2 res)
    (hmid : code[o + 9]? = some (t.mid q ids L))
    (hsing : SingleAt code (o + 10) sp b q x1 x2 x3)
    (hd : RegsDistinct q b L I J)
    (idv resv : List Int) (hmi : mem ids = some idv) (hmr : mem res = some resv)
    (i : Nat) (id bv : Int) (k : Nat)
    (hid : idv[i]? = some id) (hk : ly.idxBell + ly.len * (i : Int) = (k : Int)) (hbv : resv[k]? = some bv)
    (regs : Nat → Int) (tr : List Ev) (hL : regs L = (i : Int)) :
    ∃ regs', Reaches code mem ⟨o, regs, tr⟩ ⟨o + 10 + 10, regs', tr ++ corrEvents sp bv (t.pick id)⟩ ∧
      regs' L = (i : Int) ∧ (∀ x, x ≠ I → x ≠ J → x ≠ b → x ≠ q → regs' x = regs x) := by
  obtain ⟨r2, hr2, hb2, hL2, hfr2⟩ := rawBell_spec (mem := mem) hraw hd.IJ (Ne.symm hd.LI) (Ne.symm hd.LJ) hd.bL
    i resv k bv regs tr hL hmr hk hbv
  cases t with
  | loaded =>
    refine ⟨upd r2 q id, ?_, by simp [upd_other, Ne.symm hd.qL, hL2], ?_⟩
    · have hs := single_spec (mem := mem) hsing (upd r2 q id) tr
      have hb3 : (upd r2 q id) b = bv := by simp [upd_other, Ne.symm hd.qb, hb2]
      rw [hb3, upd_same] at hs
      exact Reaches.trans hr2 (Reaches.head (step_load hmid hmi hL2 hid) hs)
    · intro x hI hJ hb hq
      rw [upd_other _ _ _ _ hq, hfr2 x hI hJ hb]
  | setZero =>
    refine ⟨upd r2 q 0, ?_, by simp [upd_other, Ne.symm hd.qL, hL2], ?_⟩
    · have hs := single_spec (mem := mem) hsing (upd r2 q 0) tr
      have hb3 : (upd r2 q 0) b = bv := by simp [upd_other, Ne.symm hd.qb, hb2]
      rw [hb3, upd_same] at hs
      exact Reaches.trans hr2 (Reaches.head (step_set hmid) hs)
    · intro x hI hJ hb hq
      rw [upd_other _ _ _ _ hq, hfr2 x hI hJ hb]

/-- **The correction block inside any program.** `pre` defines none of the block's labels; `rest`
is arbitrary (post routine, move code, loop tail, …). Entered at its first command in iteration `i`
(`L = i`), the block applies exactly pair i's rotations to `t.pick (ids[i])`, keeps `L` and every
register other than its four scratch registers, and arrives at the first command of `rest`. -/
theorem block_in_context {t : Target} {ly : Layout} {sp : SinglePair} {q b L I J : Nat}
    {l1 l2 x1 x2 x3 : String} {ids res : Int} {mem : Mem} (pre rest : List Cmd)
    (hpre : ∀ l ∈ [l1, l2, x1, x2, x3], Cmd.label l ∉ pre)
    (hd : RegsDistinct q b L I J) (hl : [l1, l2, x1, x2, x3].Nodup)
    (idv resv : List Int) (hmi : mem ids = some idv) (hmr : mem res = some resv)
    (i : Nat) (id bv : Int) (k : Nat)
    (hid : idv[i]? = some id) (hk : ly.idxBell + ly.len * (i : Int) = (k : Int)) (hbv : resv[k]? = some bv)
    (regs : Nat → Int) (tr : List Ev) (hL : regs L = (i : Int)) :
    ∃ regs', Reaches (pre ++ (corrBlockCode t ly sp q b L I J l1 l2 x1 x2 x3 ids res ++ rest)) mem
        ⟨pre.length, regs, tr⟩ ⟨pre.length + 20, regs', tr ++ corrEvents sp bv (t.pick id)⟩ ∧
      regs' L = (i : Int) ∧ (∀ x, x ≠ I → x ≠ J → x ≠ b → x ≠ q → regs' x = regs x) := by
  obtain ⟨t1, t2, tx1, tx2, tx3⟩ := block_labels (t := t) (ly := ly) (sp := sp) (q := q) (b := b)
    (L := L) (I := I) (J := J) (ids := ids) (res := res) hl
  have p1 := hpre l1 (by simp)
  have p2 := hpre l2 (by simp)
  have p3 := hpre x1 (by simp)
  have p4 := hpre x2 (by simp)
  have p5 := hpre x3 (by simp)
  have g : ∀ (j : Nat) (c : Cmd), (corrBlockCode t ly sp q b L I J l1 l2 x1 x2 x3 ids res)[j]? = some c →
      (pre ++ (corrBlockCode t ly sp q b L I J l1 l2 x1 x2 x3 ids res ++ rest))[pre.length + j]? = some c :=
    fun j c h => getElem_in_context h
  have hraw : RawBellAt (pre ++ (corrBlockCode t ly sp q b L I J l1 l2 x1 x2 x3 ids res ++ rest)) pre.length
      ly b L I J l1 l2 res := by
    constructor
    · exact g 0 _ (by cases t <;> rfl)
    · exact g 1 _ (by cases t <;> rfl)
    · exact g 2 _ (by cases t <;> rfl)
    · exact g 3 _ (by cases t <;> rfl)
    · exact g 4 _ (by cases t <;> rfl)
    · exact g 5 _ (by cases t <;> rfl)
    · exact g 6 _ (by cases t <;> rfl)
    · exact g 7 _ (by cases t <;> rfl)
    · exact g 8 _ (by cases t <;> rfl)
    · exact findLabel_in_context p1 t1
    · exact findLabel_in_context p2 t2
  have hmid := g 9 (t.mid q ids L) (by cases t <;> rfl)
  have hsing : SingleAt (pre ++ (corrBlockCode t ly sp q b L I J l1 l2 x1 x2 x3 ids res ++ rest))
      (pre.length + 10) sp b q x1 x2 x3 := by
    constructor
    · exact g 10 _ (by cases t <;> rfl)
    · exact g 11 _ (by cases t <;> rfl)
    · exact g 12 _ (by cases t <;> rfl)
    · exact g 13 _ (by cases t <;> rfl)
    · exact g 14 _ (by cases t <;> rfl)
    · exact g 15 _ (by cases t <;> rfl)
    · exact g 16 _ (by cases t <;> rfl)
    · exact g 17 _ (by cases t <;> rfl)
    · exact g 18 _ (by cases t <;> rfl)
    · exact g 19 _ (by cases t <;> rfl)
    · exact findLabel_in_context p3 tx1
    · exact findLabel_in_context p4 tx2
    · exact findLabel_in_context p5 tx3
  exact block_at hraw hmid hsing hd idv resv hmi hmr i id bv k hid hk hbv regs tr hL

/-! ### the block inside the emitted per-pair loop, with an arbitrary post routine after it -/

theorem corrBlockCode_labels_inj {t : Target} {ly : Layout} {sp : SinglePair} {q b L I J I' J' : Nat}
    {l1 l2 x1 x2 x3 m1 m2 y1 y2 y3 : String} {ids res : Int}
    (h : corrBlockCode t ly sp q b L I' J' m1 m2 y1 y2 y3 ids res =
      corrBlockCode t ly sp q b L I J l1 l2 x1 x2 x3 ids res) :
    m1 = l1 ∧ m2 = l2 ∧ y1 = x1 ∧ y2 = x2 ∧ y3 = x3 := by
  cases t <;> simp [corrBlockCode, rawBellCode, singlePairCode] at h <;> simp [h]

/-- the block labels handed out by `seqCorr` are new with respect to `u4` and recorded in `u9` -/
theorem seqCorr_labels {d : Data} {c : Config} {mv : Bool} {a : SeqAlloc} {u4 u9 : List String}
    {I J : Nat} {l1 l2 x1 x2 x3 : String} (he : c.expect = true)
    (h : seqCorr d c mv a u4 = some (corrBlockCode (if mv then d.tMove else d.tPost) d.ly d.sp a.q a.b a.L I J
      l1 l2 x1 x2 x3 c.ids c.res, u9)) :
    (∀ l ∈ [l1, l2, x1, x2, x3], l ∉ u4) ∧ (∀ l ∈ [l1, l2, x1, x2, x3], l ∈ u9) ∧ (∀ l ∈ u4, l ∈ u9) := by
  simp only [seqCorr, he, Bool.not_true, Bool.false_eq_true, if_false, Option.bind_eq_some_iff] at h
  obtain ⟨I', _, J', _, p1, h1, p2, h2, p3, h3, p4, h4, p5, h5, heq⟩ := h
  simp only [Option.some.injEq, Prod.mk.injEq] at heq
  obtain ⟨hc, hu⟩ := heq
  -- the label names can be read off the block's code
  obtain ⟨e1, e2, e3, e4, e5⟩ := corrBlockCode_labels_inj hc
  obtain ⟨f1, g1⟩ := newLabel_fresh h1
  obtain ⟨f2, g2⟩ := newLabel_fresh h2
  obtain ⟨f3, g3⟩ := newLabel_fresh h3
  obtain ⟨f4, g4⟩ := newLabel_fresh h4
  obtain ⟨f5, g5⟩ := newLabel_fresh h5
  rw [g4] at f5; rw [g3] at f4 f5; rw [g2] at f3 f4 f5; rw [g1] at f2 f3 f4 f5
  simp only [List.mem_cons, not_or] at f2 f3 f4 f5
  have hu9 : u9 = x3 :: x2 :: x1 :: l2 :: l1 :: u4 := by
    rw [← hu, g5, g4, g3, g2, g1, e1, e2, e3, e4, e5]
  subst e1 e2 e3 e4 e5
  refine ⟨?_, ?_, ?_⟩
  · intro l hl
    simp only [List.mem_cons, List.not_mem_nil, or_false] at hl
    rcases hl with rfl | rfl | rfl | rfl | rfl
    · exact f1
    · exact f2.2
    · exact f3.2.2
    · exact f4.2.2.2
    · exact f5.2.2.2.2
  · intro l hl
    rw [hu9]
    simp only [List.mem_cons, List.not_mem_nil, or_false] at hl
    rcases hl with rfl | rfl | rfl | rfl | rfl <;> simp
  · intro l hl
    rw [hu9]; simp [hl]

end NQ.Bell
