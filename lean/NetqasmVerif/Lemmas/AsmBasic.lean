/-
Helper definitions and lemmas for C03, part 1: the position maps, the patch relations, multi-step
execution, and the structure of the output of `_replace_constants`.
-/
import NetqasmVerif.Model.Asm
namespace NQ.Asm
open NQ

/-! ### position maps (independent of whether the passes succeed) -/

def numMatRI : RI → Nat
  | .lit _ => 1
  | .reg _ => 0

/-- number of literals of one operand that are moved to a scratch register -/
def numMatOp (exc : List (String × Nat)) (mn : String) (j : Nat) : POperand → Nat
  | .lit _ => if exc.contains (mn, j) then 0 else 1
  | .entry _ i => numMatRI i
  | .slice _ s e => numMatRI s + numMatRI e
  | _ => 0

def numMat (exc : List (String × Nat)) (mn : String) : Nat → List POperand → Nat
  | _, [] => 0
  | j, o :: os => numMatOp exc mn j o + numMat exc mn (j + 1) os

/-- commands emitted by `_replace_constants` for one command -/
def len1 (exc : List (String × Nat)) : PCmd → Nat
  | .label _ => 1
  | .instr mn _ ops => numMat exc mn 0 ops + 1

/-- commands left by `_assign_branch_labels` for one command -/
def len2 : PCmd → Nat
  | .label _ => 0
  | .instr _ _ _ => 1

/-- instructions of the assembled subroutine emitted for one source command -/
def lenA (exc : List (String × Nat)) : PCmd → Nat
  | .label _ => 0
  | .instr mn args ops => numMat exc mn 0 (allOps args ops) + 1

def tpos1 (exc : List (String × Nat)) (P : List PCmd) (i : Nat) : Nat := ((P.take i).map (len1 exc)).sum
def tpos2 (P : List PCmd) (i : Nat) : Nat := ((P.take i).map len2).sum
/-- image of source position `i` in the assembled subroutine: the number of instructions emitted
for the first `i` source commands -/
def tpos (exc : List (String × Nat)) (P : List PCmd) (i : Nat) : Nat := ((P.take i).map (lenA exc)).sum

/-! ### scratch registers, agreement -/

def IsScratch (n : Nat) (cur : List Reg) (r : Reg) : Prop := ∃ i, i < n ∧ r = scratchReg i ∧ r ∉ cur

def applySets (l : List (Reg × Int)) (ρ : Regs) : Regs := l.foldl (fun ρ rv => upd ρ rv.1 (some rv.2)) ρ

/-- same memory, same registers except possibly the scratch candidates (the `R i`, `i < n`, that
the program does not name) -/
def Agree {M : Type} (n : Nat) (cur : List Reg) (s t : State M) : Prop :=
  s.mem = t.mem ∧ ∀ r, ¬ IsScratch n cur r → s.regs r = t.regs r

/-- a register occurs in a program (top level or inside brackets) -/
def NamedIn (P : List PCmd) (r : Reg) : Prop :=
  ∃ mn args ops op, PCmd.instr mn args ops ∈ P ∧ op ∈ ops ∧ r ∈ opRegs op

/-! ### the patch relations -/

inductive RIPatched (sets : List (Reg × Int)) : RI → RI → Prop
  | same (r : Reg) : RIPatched sets (.reg r) (.reg r)
  | mat (v : Int) (r : Reg) : (r, v) ∈ sets → RIPatched sets (.lit v) (.reg r)

/-- `keep`: the position is in the exception table -/
inductive OpPatched (sets : List (Reg × Int)) (keep : Bool) : POperand → POperand → Prop
  | reg (r : Reg) : OpPatched sets keep (.reg r) (.reg r)
  | litKeep (v : Int) : keep = true → OpPatched sets keep (.lit v) (.lit v)
  | litMat (v : Int) (r : Reg) : keep = false → (r, v) ∈ sets → OpPatched sets keep (.lit v) (.reg r)
  | lab (l : String) : OpPatched sets keep (.lab l) (.lab l)
  | tmpl (l : String) : OpPatched sets keep (.tmpl l) (.tmpl l)
  | addr (a : Int) : OpPatched sets keep (.addr a) (.addr a)
  | entry (a : Int) (i i' : RI) : RIPatched sets i i' → OpPatched sets keep (.entry a i) (.entry a i')
  | slice (a : Int) (s s' e e' : RI) : RIPatched sets s s' → RIPatched sets e e' →
      OpPatched sets keep (.slice a s e) (.slice a s' e')

inductive OpsPatched (exc : List (String × Nat)) (mn : String) (sets : List (Reg × Int)) :
    Nat → List POperand → List POperand → Prop
  | nil (j : Nat) : OpsPatched exc mn sets j [] []
  | cons {j : Nat} {o o' : POperand} {os os' : List POperand} :
      OpPatched sets (exc.contains (mn, j)) o o' → OpsPatched exc mn sets (j + 1) os os' →
      OpsPatched exc mn sets j (o :: os) (o' :: os')

theorem RIPatched.mono {s s' : List (Reg × Int)} {x y : RI} (h : RIPatched s x y)
    (hs : ∀ a ∈ s, a ∈ s') : RIPatched s' x y := by
  cases h with
  | same r => exact .same r
  | mat v r hm => exact .mat v r (hs _ hm)

theorem OpPatched.mono {s s' : List (Reg × Int)} {k : Bool} {x y : POperand} (h : OpPatched s k x y)
    (hs : ∀ a ∈ s, a ∈ s') : OpPatched s' k x y := by
  cases h with
  | reg r => exact .reg r
  | litKeep v hk => exact .litKeep v hk
  | litMat v r hk hm => exact .litMat v r hk (hs _ hm)
  | lab l => exact .lab l
  | tmpl l => exact .tmpl l
  | addr a => exact .addr a
  | entry a i i' hi => exact .entry a i i' (hi.mono hs)
  | slice a s1 s1' e e' h1 h2 => exact .slice a s1 s1' e e' (h1.mono hs) (h2.mono hs)

theorem OpsPatched.mono {exc mn} {s s' : List (Reg × Int)} {j : Nat} {xs ys : List POperand}
    (h : OpsPatched exc mn s j xs ys) (hs : ∀ a ∈ s, a ∈ s') : OpsPatched exc mn s' j xs ys := by
  induction h with
  | nil j => exact .nil j
  | cons h1 _ ih => exact .cons (h1.mono hs) ih

/-! ### multi-step execution -/

theorem Steps.trans {M : Type} {mc : Machine M} {P : List PCmd} {a b c : State M × Nat}
    (h1 : Steps mc P a b) (h2 : Steps mc P b c) : Steps mc P a c := by
  induction h1 with
  | refl _ => exact h2
  | step hs _ ih => exact .step hs (ih h2)

theorem Steps.single {M : Type} {mc : Machine M} {P : List PCmd} {s s' : State M} {pc pc' : Nat}
    (h : Asm.step mc P s pc = Outcome.next s' pc') : Steps mc P (s, pc) (s', pc') :=
  Steps.step h (Steps.refl _)

/-! ### `pickScratch` -/

theorem pickScratch_spec {n : Nat} {cur tmp : List Reg} {r : Reg} (h : pickScratch n cur tmp = some r) :
    IsScratch n cur r ∧ r ∉ tmp := by
  simp only [pickScratch, Option.map_eq_some_iff] at h
  obtain ⟨i, hf, rfl⟩ := h
  have hm := List.mem_of_find?_eq_some hf
  have hp := List.find?_some hf
  simp only [Bool.and_eq_true, Bool.not_eq_true', List.contains_eq_mem, decide_eq_false_iff_not] at hp
  exact ⟨⟨i, List.mem_range.1 hm, rfl, hp.1⟩, hp.2⟩

/-! ### `applySets` -/

theorem applySets_not_mem (l : List (Reg × Int)) (ρ : Regs) (r : Reg) (h : r ∉ l.map Prod.fst) :
    applySets l ρ r = ρ r := by
  induction l generalizing ρ with
  | nil => rfl
  | cons x xs ih =>
    simp only [List.map_cons, List.mem_cons, not_or] at h
    simp only [applySets, List.foldl_cons]
    have := ih (upd ρ x.1 (some x.2)) h.2
    simp only [applySets] at this
    rw [this]
    simp [upd, h.1]

theorem applySets_mem (l : List (Reg × Int)) (ρ : Regs) (r : Reg) (v : Int) (hm : (r, v) ∈ l)
    (hnd : (l.map Prod.fst).Nodup) : applySets l ρ r = some v := by
  induction l generalizing ρ with
  | nil => cases hm
  | cons x xs ih =>
    simp only [List.map_cons, List.nodup_cons] at hnd
    simp only [applySets, List.foldl_cons]
    rcases List.mem_cons.1 hm with rfl | hm'
    · have := applySets_not_mem xs (upd ρ r (some v)) r hnd.1
      simp only [applySets] at this
      rw [this]; simp [upd]
    · have := ih (upd ρ x.1 (some x.2)) hm' hnd.2
      simpa only [applySets] using this

theorem applySets_append (a b : List (Reg × Int)) (ρ : Regs) :
    applySets (a ++ b) ρ = applySets b (applySets a ρ) := by
  simp [applySets, List.foldl_append]

/-! ### structure of the result of `rcRI` / `rcOp` / `rcOps` -/

/-- what one call of the replacement functions guarantees -/
structure RcInv (n : Nat) (cur : List Reg) (tmp : List Reg) (s : List (Reg × Int)) (tmp' : List Reg) : Prop where
  tmp_eq : tmp' = tmp ++ s.map Prod.fst
  scratch : ∀ rv ∈ s, IsScratch n cur rv.1
  nodup : tmp.Nodup → tmp'.Nodup

theorem RcInv.nil (n : Nat) (cur tmp : List Reg) : RcInv n cur tmp [] tmp :=
  ⟨by simp, by simp, id⟩

theorem RcInv.one {n : Nat} {cur tmp : List Reg} {r : Reg} (v : Int) (h : pickScratch n cur tmp = some r) :
    RcInv n cur tmp [(r, v)] (tmp ++ [r]) := by
  have := pickScratch_spec h
  refine ⟨by simp, ?_, ?_⟩
  · intro rv hrv; simp at hrv; subst hrv; exact this.1
  · intro hnd
    rw [List.nodup_append]
    refine ⟨hnd, by simp, ?_⟩
    intro a ha b hb
    simp at hb; subst hb
    intro hab; subst hab; exact this.2 ha

theorem RcInv.append {n : Nat} {cur t0 t1 t2 : List Reg} {s1 s2 : List (Reg × Int)}
    (h1 : RcInv n cur t0 s1 t1) (h2 : RcInv n cur t1 s2 t2) : RcInv n cur t0 (s1 ++ s2) t2 := by
  refine ⟨?_, ?_, fun h => h2.nodup (h1.nodup h)⟩
  · rw [h2.tmp_eq, h1.tmp_eq]; simp
  · intro rv hrv
    rcases List.mem_append.1 hrv with h | h
    · exact h1.scratch rv h
    · exact h2.scratch rv h

theorem rcRI_spec {c : RcCfg} {x x' : RI} {tmp tmp' : List Reg} {s : List (Reg × Int)}
    (h : rcRI c x tmp = .ok (s, x', tmp')) :
    RcInv c.nreg c.cur tmp s tmp' ∧ RIPatched s x x' ∧ s.length = numMatRI x := by
  cases x with
  | reg r =>
    simp only [rcRI, Except.ok.injEq, Prod.mk.injEq] at h
    obtain ⟨rfl, rfl, rfl⟩ := h
    exact ⟨RcInv.nil _ _ _, .same r, rfl⟩
  | lit v =>
    simp only [rcRI] at h
    cases hp : pickScratch c.nreg c.cur tmp with
    | none => simp [hp] at h
    | some r =>
      simp only [hp, Except.ok.injEq, Prod.mk.injEq] at h
      obtain ⟨rfl, rfl, rfl⟩ := h
      exact ⟨RcInv.one v hp, .mat v r (by simp), rfl⟩

theorem rcOp_spec {c : RcCfg} {mn : String} {j : Nat} {op op' : POperand} {tmp tmp' : List Reg}
    {s : List (Reg × Int)} (h : rcOp c mn j op tmp = .ok (s, op', tmp')) :
    RcInv c.nreg c.cur tmp s tmp' ∧ OpPatched s (c.exc.contains (mn, j)) op op'
      ∧ s.length = numMatOp c.exc mn j op := by
  cases op with
  | reg r =>
    simp only [rcOp, Except.ok.injEq, Prod.mk.injEq] at h
    obtain ⟨rfl, rfl, rfl⟩ := h
    exact ⟨RcInv.nil _ _ _, .reg r, rfl⟩
  | lab l =>
    simp only [rcOp, Except.ok.injEq, Prod.mk.injEq] at h
    obtain ⟨rfl, rfl, rfl⟩ := h
    exact ⟨RcInv.nil _ _ _, .lab l, rfl⟩
  | tmpl l =>
    simp only [rcOp, Except.ok.injEq, Prod.mk.injEq] at h
    obtain ⟨rfl, rfl, rfl⟩ := h
    exact ⟨RcInv.nil _ _ _, .tmpl l, rfl⟩
  | addr a =>
    simp only [rcOp, Except.ok.injEq, Prod.mk.injEq] at h
    obtain ⟨rfl, rfl, rfl⟩ := h
    exact ⟨RcInv.nil _ _ _, .addr a, rfl⟩
  | lit v =>
    simp only [rcOp] at h
    cases hk : c.exc.contains (mn, j) with
    | true =>
      simp only [hk, if_true, Except.ok.injEq, Prod.mk.injEq] at h
      obtain ⟨rfl, rfl, rfl⟩ := h
      exact ⟨RcInv.nil _ _ _, .litKeep v rfl, by simp only [numMatOp, hk]; rfl⟩
    | false =>
      simp only [hk] at h
      cases hp : pickScratch c.nreg c.cur tmp with
      | none => simp [hp] at h
      | some r =>
        simp only [hp, Bool.false_eq_true, if_false, Except.ok.injEq, Prod.mk.injEq] at h
        obtain ⟨rfl, rfl, rfl⟩ := h
        exact ⟨RcInv.one v hp, .litMat v r rfl (by simp), by simp only [numMatOp, hk]; rfl⟩
  | entry a i =>
    simp only [rcOp] at h
    cases hr : rcRI c i tmp with
    | error e => simp [hr] at h
    | ok res =>
      obtain ⟨s1, i', t1⟩ := res
      simp only [hr, Except.ok.injEq, Prod.mk.injEq] at h
      obtain ⟨rfl, rfl, rfl⟩ := h
      have := rcRI_spec hr
      exact ⟨this.1, .entry a i i' this.2.1, this.2.2⟩
  | slice a st e =>
    simp only [rcOp] at h
    cases hr : rcRI c st tmp with
    | error e => simp [hr] at h
    | ok res =>
      obtain ⟨s1, st', t1⟩ := res
      simp only [hr] at h
      cases hr2 : rcRI c e t1 with
      | error e => simp [hr2] at h
      | ok res2 =>
        obtain ⟨s2, e', t2⟩ := res2
        simp only [hr2, Except.ok.injEq, Prod.mk.injEq] at h
        obtain ⟨rfl, rfl, rfl⟩ := h
        have h1 := rcRI_spec hr
        have h2 := rcRI_spec hr2
        refine ⟨h1.1.append h2.1, .slice a st st' e e' (h1.2.1.mono (by simp_all)) (h2.2.1.mono (by simp_all)), ?_⟩
        simp [numMatOp, h1.2.2, h2.2.2]

theorem rcOps_spec {c : RcCfg} {mn : String} {j : Nat} {ops ops' : List POperand} {tmp tmp' : List Reg}
    {s : List (Reg × Int)} (h : rcOps c mn j ops tmp = .ok (s, ops', tmp')) :
    RcInv c.nreg c.cur tmp s tmp' ∧ OpsPatched c.exc mn s j ops ops' ∧ s.length = numMat c.exc mn j ops := by
  induction ops generalizing j tmp tmp' s ops' with
  | nil =>
    simp only [rcOps, Except.ok.injEq, Prod.mk.injEq] at h
    obtain ⟨rfl, rfl, rfl⟩ := h
    exact ⟨RcInv.nil _ _ _, .nil j, rfl⟩
  | cons o os ih =>
    simp only [rcOps] at h
    cases h1 : rcOp c mn j o tmp with
    | error e => simp [h1] at h
    | ok res =>
      obtain ⟨s1, o', t1⟩ := res
      simp only [h1] at h
      cases h2 : rcOps c mn (j + 1) os t1 with
      | error e => simp [h2] at h
      | ok res2 =>
        obtain ⟨s2, os', t2⟩ := res2
        simp only [h2, Except.ok.injEq, Prod.mk.injEq] at h
        obtain ⟨rfl, rfl, rfl⟩ := h
        have a := rcOp_spec h1
        have b := ih h2
        refine ⟨a.1.append b.1, .cons (a.2.1.mono (by simp_all)) (b.2.1.mono (by simp_all)), ?_⟩
        simp [numMat, a.2.2, b.2.2]

end NQ.Asm
