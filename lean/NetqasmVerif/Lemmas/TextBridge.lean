/-
Bridge between the two line tokenisers: `Text.parseLine` (C17) splits a body line at single
spaces (`Text.splitOn ' '`), the assembler model (C03) uses the faithful model of
`group_by_word` (`AsmText.groupByWord`, bracket aware).  On lines without an argument
bracket they produce the same words, so the printed-line theorem of C17 and the source-text
theorems of C03 speak about one lexer.
-/
import NetqasmVerif.Model.AsmText
import NetqasmVerif.Lemmas.TextLine
namespace NQ.AsmText
open NQ

theorem findSub_single_notin (c : Char) : ∀ (l : List Char) (n : Nat), c ∉ l → findSub [c] l n = none
  | [], n, _ => by simp [findSub]
  | d :: rest, n, h => by
    simp only [List.mem_cons, not_or] at h
    have hne : (c == d) = false := by simpa using h.1
    simp [findSub, List.isPrefixOf, hne, findSub_single_notin c rest (n + 1) h.2]

theorem findSub_single_append (c : Char) : ∀ (w r : List Char) (n : Nat), c ∉ w →
    findSub [c] (w ++ c :: r) n = some (n + w.length)
  | [], r, n, _ => by simp [findSub, List.isPrefixOf]
  | d :: w, r, n, h => by
    simp only [List.mem_cons, not_or] at h
    have hne : (c == d) = false := by simpa using h.1
    simp [findSub, List.isPrefixOf, hne, findSub_single_append c w r (n + 1) h.2]
    omega

theorem first_space (x : List Char) :
    ' ' ∉ x ∨ ∃ w r, x = w ++ ' ' :: r ∧ ' ' ∉ w := by
  induction x with
  | nil => exact Or.inl (by simp)
  | cons c cs ih =>
    by_cases hc : c = ' '
    · exact Or.inr ⟨[], cs, by simp [hc], by simp⟩
    · rcases ih with h | ⟨w, r, rfl, hw⟩
      · exact Or.inl (by simp [List.mem_cons, Ne.symm hc, h])
      · exact Or.inr ⟨c :: w, r, rfl, by simp [List.mem_cons, Ne.symm hc, hw]⟩

/-- on a line without an opening argument bracket `group_by_word` is a split at single spaces -/
theorem groupAux_eq_splitOn (ob cb : Char) (hob : ob ≠ ' ') : ∀ (fuel : Nat) (x : List Char),
    x.length + 2 ≤ fuel → ob ∉ x → groupAux ob cb fuel (x ++ [' ']) = some (Text.splitOn ' ' x)
  | 0, x, h, _ => by omega
  | fuel + 1, x, h, hx => by
    have hopen : findSub [ob] (x ++ [' ']) 0 = none :=
      findSub_single_notin ob _ 0 (by simp [hx, hob])
    have hne : (x ++ [' ']).isEmpty = false := by cases x <;> rfl
    rcases first_space x with hs | ⟨w, r, rfl, hw⟩
    · have hsep : findSub [' '] (x ++ [' ']) 0 = some x.length := by
        simpa using findSub_single_append ' ' x [] 0 hs
      have hfuel : ∃ f, fuel = f + 1 := ⟨fuel - 1, by omega⟩
      obtain ⟨f, rfl⟩ := hfuel
      have hdrop : (x ++ [' ']).drop (x.length + 1) = [] := by simp
      simp only [groupAux, hne, Bool.false_eq_true, if_false, hopen, hsep, List.length_singleton,
        Nat.add_sub_cancel, List.take_left' rfl, hdrop]
      simp [Text.splitOn_notin hs]
    · have hline : (w ++ ' ' :: r) ++ [' '] = w ++ ' ' :: (r ++ [' ']) := by simp
      have hsep : findSub [' '] (w ++ ' ' :: (r ++ [' '])) 0 = some w.length := by
        simpa using findSub_single_append ' ' w (r ++ [' ']) 0 hw
      have hr : ob ∉ r := fun hh => hx (by simp [hh])
      have ih := groupAux_eq_splitOn ob cb hob fuel r (by simp at h; omega) hr
      have hdrop : (w ++ ' ' :: (r ++ [' '])).drop (w.length + 1) = r ++ [' '] := by
        have : w ++ ' ' :: (r ++ [' ']) = (w ++ [' ']) ++ (r ++ [' ']) := by simp
        rw [this]; exact List.drop_left' (by simp)
      rw [hline] at hopen hne ⊢
      simp only [groupAux, hne, Bool.false_eq_true, if_false, hopen, hsep, List.length_singleton,
        Nat.add_sub_cancel, List.take_left' rfl, hdrop, ih, Text.splitOn_append hw]

theorem groupByWord_eq_splitOn (ob cb : Char) (hob : ob ≠ ' ') (line : List Char)
    (h : ob ∉ strip line) :
    groupByWord ob cb line = some (Text.splitOn ' ' (strip line)) := by
  unfold groupByWord
  exact groupAux_eq_splitOn ob cb hob _ _ (by simp) h

theorem splitOfBracket_none (ob cb : Char) (w : List Char) (h : ob ∉ w) :
    splitOfBracket ob cb w = some (w, []) := by
  simp [splitOfBracket, findSub_single_notin ob w 0 h]

end NQ.AsmText

namespace NQ.Text
open NQ

variable {S : Syms}

theorem asm_strip_of_ends {c d : Char} {l : List Char} (hc : AsmText.isSpace c = false)
    (hd : AsmText.isSpace d = false) (h1 : ∃ cs, l = c :: cs) (h2 : ∃ l', l = l' ++ [d]) :
    AsmText.strip l = l := by
  obtain ⟨cs, h1⟩ := h1
  obtain ⟨l', h2⟩ := h2
  unfold AsmText.strip
  have e1 : l.dropWhile AsmText.isSpace = l := by rw [h1]; simp [List.dropWhile, hc]
  rw [e1]
  have e2 : l.reverse.dropWhile AsmText.isSpace = l.reverse := by
    rw [h2]; simp [List.dropWhile, hd]
  rw [e2, List.reverse_reverse]

theorem asm_not_space_of_lastOk {d : Char} (hC : AsmText.isSpace S.idxClose = false)
    (h : isDigit d = true ∨ d = S.idxClose ∨ mnCharOk d = true) : AsmText.isSpace d = false := by
  rcases h with h | h | h
  · cases hs : AsmText.isSpace d
    · rfl
    · simp only [AsmText.isSpace, Bool.or_eq_true, beq_iff_eq] at hs
      rcases hs with ((((rfl | rfl) | rfl) | rfl) | rfl) | rfl <;> simp [isDigit] at h
  · subst h; exact hC
  · cases hs : AsmText.isSpace d
    · rfl
    · simp only [AsmText.isSpace, Bool.or_eq_true, beq_iff_eq] at hs
      rcases hs with ((((rfl | rfl) | rfl) | rfl) | rfl) | rfl <;> simp [mnCharOk, isDigit] at h

/-- **printed lines through the assembler's tokeniser**: the faithful model of
`group_by_word(line, brackets="()")` cuts a printed instruction into its mnemonic and the
printed operands — the same words `parseLine` works on — and `_split_of_bracket` finds no
argument list on the mnemonic. -/
theorem printed_line_groupByWord (hS : SOk S) (hC : AsmText.isSpace S.idxClose = false) (cb : Char)
    (mn : String) (hne : mn.toList ≠ []) (hmn : ∀ c ∈ mn.toList, mnCharOk c = true)
    (ops : List Operand) (hb : ∀ o ∈ ops, banksOk S.banks.length o = true) :
    AsmText.groupByWord S.argOpen cb (showInstr S mn ops)
      = some (mn.toList :: ops.map (showOperand S)) ∧
    AsmText.splitOfBracket S.argOpen cb mn.toList = some (mn.toList, []) := by
  obtain ⟨hall, ⟨c, cs, hc, hcm⟩, ⟨l, d, hl, hd⟩⟩ := line_facts hS mn.toList hne hmn ops hb
  have hnotin : S.argOpen ∉ mn.toList ++ showOperands S ops :=
    fun h => by have := hall _ h; rw [hS.argOpen] at this; cases this
  have hob : S.argOpen ≠ ' ' := fun h => by
    have := hS.argOpen; rw [h] at this; simp [lineChar] at this
  have hsp : ' ' ∉ mn.toList := fun h => by
    have := mnChar_not_space (hmn _ h); simp [isSpace] at this
  have hstrip : AsmText.strip (mn.toList ++ showOperands S ops) = mn.toList ++ showOperands S ops :=
    asm_strip_of_ends (asm_not_space_of_lastOk hC (Or.inr (Or.inr hcm)))
      (asm_not_space_of_lastOk hC hd) ⟨cs, hc⟩ ⟨l, hl⟩
  refine ⟨?_, AsmText.splitOfBracket_none _ _ _ (fun h => hnotin (List.mem_append_left _ h))⟩
  unfold showInstr
  rw [AsmText.groupByWord_eq_splitOn _ _ hob _ (by rw [hstrip]; exact hnotin), hstrip,
    splitOn_words hS _ hsp ops hb]

end NQ.Text
