/-
The C13 invariant and its preservation by the elementary state changes.
-/
import NetqasmVerif.Lemmas.ExecRun
namespace NQ.Exec

def unitOf (s : State) (a : Nat) : Option (List (Option Nat)) := (s.apps a).map (·.unit)

def physU (ou : Option (List (Option Nat))) (v : Nat) : Option Nat :=
  match ou with
  | none => none
  | some u => u[v]?.join

/-- physical qubit mapped by virtual qubit `v` of application `a` -/
def phys (s : State) (a v : Nat) : Option Nat := physU (unitOf s a) v

structure Inv (s : State) : Prop where
  inj : ∀ a b va vb p, phys s a va = some p → phys s b vb = some p → a = b ∧ va = vb
  used_iff : ∀ p, p ∈ s.used ↔ (∃ a v, phys s a v = some p) ∨ p ∈ s.reserved
  disj : ∀ p a v, p ∈ s.reserved → phys s a v ≠ some p
  reg : ∀ a, unitOf s a ≠ none → a ∈ s.registry

theorem phys_upd {s s' : State} {a : Nat} {nu} (h : unitOf s' = upd (unitOf s) a nu) (b v : Nat) :
    phys s' b v = if b = a then physU nu v else phys s b v := by
  unfold phys; rw [h]; unfold upd; split <;> rfl

theorem set_join (u : List (Option Nat)) (p v : Nat) (x : Option Nat) (hp : p < u.length) :
    (u.set p x)[v]?.join = if v = p then x else u[v]?.join := by
  rw [List.getElem?_set]
  by_cases h : p = v
  · subst h; simp [hp]
  · have : ¬ v = p := fun e => h e.symm
    simp [h, this]

theorem physU_set (u : List (Option Nat)) (p v : Nat) (x : Option Nat) (hp : p < u.length) :
    physU (some (u.set p x)) v = if v = p then x else physU (some u) v := by
  simp [physU, set_join u p v x hp]

theorem inv_alloc {s s' : State} {a : Nat} {u : List (Option Nat)} {p q : Nat} (hI : Inv s)
    (hu : unitOf s a = some u) (hp : p < u.length) (hn : u[p]?.join = none) (hq : q ∉ s.used)
    (hu' : unitOf s' = upd (unitOf s) a (some (u.set p (some q))))
    (hused : ∀ x, x ∈ s'.used ↔ x = q ∨ x ∈ s.used)
    (hres : s'.reserved = s.reserved) (hreg : s'.registry = s.registry) : Inv s' := by
  have hqm : ∀ b v, phys s b v ≠ some q := fun b v h => hq ((hI.used_iff q).2 (Or.inl ⟨b, v, h⟩))
  have hqr : q ∉ s.reserved := fun h => hq ((hI.used_iff q).2 (Or.inr h))
  have hpa : ∀ v, phys s a v = physU (some u) v := fun v => by simp [phys, hu]
  have hpn : phys s a p = none := by rw [hpa]; simp [physU, hn]
  constructor
  · intro b c vb vc x h1 h2
    rw [phys_upd hu', physU_set _ _ _ _ hp] at h1 h2
    have := hI.inj b c vb vc x
    grind
  · intro x
    rw [hused, hres, hI.used_iff]
    constructor
    · rintro (h | ⟨b, v, h⟩ | h)
      · subst h; exact Or.inl ⟨a, p, by rw [phys_upd hu', physU_set _ _ _ _ hp]; simp⟩
      · refine Or.inl ⟨b, v, ?_⟩
        rw [phys_upd hu', physU_set _ _ _ _ hp]
        grind
      · exact Or.inr h
    · rintro (⟨b, v, h⟩ | h)
      · rw [phys_upd hu', physU_set _ _ _ _ hp] at h
        grind
      · exact Or.inr (Or.inr h)
  · intro x b v hx h
    rw [hres] at hx
    rw [phys_upd hu', physU_set _ _ _ _ hp] at h
    have := hI.disj x b v hx
    grind
  · intro b hb
    rw [hreg]
    apply hI.reg
    rw [hu'] at hb
    unfold upd at hb
    grind

/-- the invariant only looks at unit modules, `used`, `reserved`, `registry` -/
theorem inv_same {s s' : State} (hI : Inv s) (hu' : unitOf s' = unitOf s)
    (hused : ∀ x, x ∈ s'.used ↔ x ∈ s.used) (hres : s'.reserved = s.reserved)
    (hreg : s'.registry = s.registry) : Inv s' := by
  have hp : ∀ b v, phys s' b v = phys s b v := fun b v => by simp [phys, hu']
  constructor
  · intro b c vb vc x h1 h2
    rw [hp] at h1 h2
    exact hI.inj b c vb vc x h1 h2
  · intro x
    rw [hused, hres, hI.used_iff]
    simp [hp]
  · intro x b v hx h
    rw [hres] at hx; rw [hp] at h
    exact hI.disj x b v hx h
  · intro b hb
    rw [hreg]; rw [hu'] at hb
    exact hI.reg b hb

theorem inv_free {s s' : State} {a : Nat} {u : List (Option Nat)} {p q : Nat} (hI : Inv s)
    (hu : unitOf s a = some u) (hq : u[p]?.join = some q)
    (hu' : unitOf s' = upd (unitOf s) a (some (u.set p none)))
    (hused : ∀ x, x ∈ s'.used ↔ x ∈ s.used ∧ x ≠ q)
    (hres : s'.reserved = s.reserved) (hreg : s'.registry = s.registry) : Inv s' := by
  have hp : p < u.length := by
    rcases Nat.lt_or_ge p u.length with h | h
    · exact h
    · simp [List.getElem?_eq_none h] at hq
  have hpa : ∀ v, phys s a v = physU (some u) v := fun v => by simp [phys, hu]
  have hpq : phys s a p = some q := by rw [hpa]; simp [physU, hq]
  have hqr : q ∉ s.reserved := fun h => hI.disj q a p h hpq
  have hinj := hI.inj
  constructor
  · intro b c vb vc x h1 h2
    rw [phys_upd hu', physU_set _ _ _ _ hp] at h1 h2
    have := hI.inj b c vb vc x
    grind
  · intro x
    rw [hused, hres, hI.used_iff]
    constructor
    · rintro ⟨(⟨b, v, h⟩ | h), hne⟩
      · refine Or.inl ⟨b, v, ?_⟩
        rw [phys_upd hu', physU_set _ _ _ _ hp]
        have := hinj b a v p x
        grind
      · exact Or.inr h
    · rintro (⟨b, v, h⟩ | h)
      · rw [phys_upd hu', physU_set _ _ _ _ hp] at h
        have := hinj b a v p x
        grind
      · exact ⟨Or.inr h, fun e => hqr (e ▸ h)⟩
  · intro x b v hx h
    rw [hres] at hx
    rw [phys_upd hu', physU_set _ _ _ _ hp] at h
    have := hI.disj x b v hx
    grind
  · intro b hb
    rw [hreg]
    apply hI.reg
    rw [hu'] at hb
    unfold upd at hb
    grind

/-- delivery of a reserved physical qubit into a free virtual slot (keep-response) -/
theorem inv_deliver {s s' : State} {a : Nat} {u : List (Option Nat)} {k q : Nat} (hI : Inv s)
    (hu : unitOf s a = some u) (hk : k < u.length) (hn : u[k]?.join = none) (hq : q ∈ s.reserved)
    (hu' : unitOf s' = upd (unitOf s) a (some (u.set k (some q))))
    (hused : ∀ x, x ∈ s'.used ↔ x = q ∨ x ∈ s.used)
    (hres : ∀ x, x ∈ s'.reserved ↔ x ∈ s.reserved ∧ x ≠ q) (hreg : s'.registry = s.registry) :
    Inv s' := by
  have hqm : ∀ b v, phys s b v ≠ some q := fun b v => hI.disj q b v hq
  have hqu : q ∈ s.used := (hI.used_iff q).2 (Or.inr hq)
  have hpa : ∀ v, phys s a v = physU (some u) v := fun v => by simp [phys, hu]
  have hpn : phys s a k = none := by rw [hpa]; simp [physU, hn]
  constructor
  · intro b c vb vc x h1 h2
    rw [phys_upd hu', physU_set _ _ _ _ hk] at h1 h2
    have := hI.inj b c vb vc x
    grind
  · intro x
    rw [hused, hres, hI.used_iff]
    constructor
    · rintro (h | ⟨b, v, h⟩ | h)
      · subst h; exact Or.inl ⟨a, k, by rw [phys_upd hu', physU_set _ _ _ _ hk]; simp⟩
      · refine Or.inl ⟨b, v, ?_⟩
        rw [phys_upd hu', physU_set _ _ _ _ hk]
        grind
      · by_cases e : x = q
        · subst e; exact Or.inl ⟨a, k, by rw [phys_upd hu', physU_set _ _ _ _ hk]; simp⟩
        · exact Or.inr ⟨h, e⟩
    · rintro (⟨b, v, h⟩ | h)
      · rw [phys_upd hu', physU_set _ _ _ _ hk] at h
        grind
      · exact Or.inr (Or.inr h.1)
  · intro x b v hx h
    rw [hres] at hx
    rw [phys_upd hu', physU_set _ _ _ _ hk] at h
    have := hI.disj x b v hx.1
    grind
  · intro b hb
    rw [hreg]
    apply hI.reg
    rw [hu'] at hb
    unfold upd at hb
    grind

theorem inv_reserve {s s' : State} {q : Nat} (hI : Inv s) (hq : q ∉ s.used)
    (hu' : unitOf s' = unitOf s) (hused : ∀ x, x ∈ s'.used ↔ x = q ∨ x ∈ s.used)
    (hres : ∀ x, x ∈ s'.reserved ↔ x = q ∨ x ∈ s.reserved) (hreg : s'.registry = s.registry) :
    Inv s' := by
  have hp : ∀ b v, phys s' b v = phys s b v := fun b v => by simp [phys, hu']
  have hqm : ∀ b v, phys s b v ≠ some q := fun b v h => hq ((hI.used_iff q).2 (Or.inl ⟨b, v, h⟩))
  constructor
  · intro b c vb vc x h1 h2
    rw [hp] at h1 h2
    exact hI.inj b c vb vc x h1 h2
  · intro x
    rw [hused, hres, hI.used_iff]
    simp only [hp]
    grind
  · intro x b v hx h
    rw [hres] at hx; rw [hp] at h
    rcases hx with hx | hx
    · subst hx; exact hqm b v h
    · exact hI.disj x b v hx h
  · intro b hb
    rw [hreg]; rw [hu'] at hb
    exact hI.reg b hb

theorem physU_replicate (n v : Nat) : physU (some (List.replicate n none)) v = none := by
  simp only [physU]
  rcases Nat.lt_or_ge v n with h | h
  · simp [h]
  · simp [Nat.not_lt.2 h]

/-- registration of a fresh application (no virtual qubit mapped) -/
theorem inv_initApp {s s' : State} {a n : Nat} (hI : Inv s) (ha : a ∉ s.registry)
    (hu' : unitOf s' = upd (unitOf s) a (some (List.replicate n none)))
    (hused : s'.used = s.used) (hres : s'.reserved = s.reserved)
    (hreg : ∀ b, b ∈ s'.registry ↔ b = a ∨ b ∈ s.registry) : Inv s' := by
  have hnone : unitOf s a = none := by
    rcases h : unitOf s a with _ | u
    · rfl
    · exact absurd (hI.reg a (by simp [h])) ha
  have hpa : ∀ v, phys s a v = none := fun v => by simp [phys, hnone, physU]
  have hp : ∀ b v, phys s' b v = phys s b v := fun b v => by
    rw [phys_upd hu', physU_replicate]
    split
    · subst_vars; rw [hpa]
    · rfl
  constructor
  · intro b c vb vc x h1 h2
    rw [hp] at h1 h2
    exact hI.inj b c vb vc x h1 h2
  · intro x
    rw [hused, hres, hI.used_iff]
    simp [hp]
  · intro x b v hx h
    rw [hres] at hx; rw [hp] at h
    exact hI.disj x b v hx h
  · intro b hb
    rw [hreg]
    by_cases e : b = a
    · exact Or.inl e
    · right
      apply hI.reg
      rw [hu'] at hb
      simpa [upd, e] using hb

theorem mem_mapped {u : List (Option Nat)} {x : Nat} : x ∈ mapped u ↔ ∃ v : Nat, u[v]?.join = some x := by
  unfold mapped
  rw [List.mem_filterMap]
  constructor
  · rintro ⟨o, ho, h⟩
    obtain ⟨v, hv, e⟩ := List.getElem_of_mem ho
    refine ⟨v, ?_⟩
    simp only [id] at h
    simp [hv, e, h]
  · rintro ⟨v, h⟩
    rcases hv : u[v]? with _ | o
    · simp [hv] at h
    · simp [hv] at h
      exact ⟨o, List.mem_of_getElem? hv, by simpa using h⟩

/-- stopping an application: its unit module disappears, its physical qubits become unused -/
theorem inv_stopApp {s s' : State} {a : Nat} {u : List (Option Nat)} (hI : Inv s)
    (hu : unitOf s a = some u) (hu' : unitOf s' = upd (unitOf s) a none)
    (hused : ∀ x, x ∈ s'.used ↔ x ∈ s.used ∧ x ∉ mapped u)
    (hres : s'.reserved = s.reserved) (hreg : ∀ b, b ∈ s'.registry ↔ b ∈ s.registry ∧ b ≠ a) : Inv s' := by
  have hpa : ∀ v, phys s a v = u[v]?.join := fun v => by simp [phys, hu, physU]
  have hp : ∀ b v, phys s' b v = if b = a then none else phys s b v := fun b v => by
    rw [phys_upd hu']; rfl
  have hinj := hI.inj
  constructor
  · intro b c vb vc x h1 h2
    rw [hp] at h1 h2
    have := hI.inj b c vb vc x
    grind
  · intro x
    rw [hused, hres, hI.used_iff, mem_mapped]
    constructor
    · rintro ⟨(⟨b, v, h⟩ | h), hne⟩
      · refine Or.inl ⟨b, v, ?_⟩
        rw [hp]
        split
        · subst_vars; rw [hpa] at h; exact absurd ⟨v, h⟩ hne
        · exact h
      · exact Or.inr h
    · rintro (⟨b, v, h⟩ | h)
      · rw [hp] at h
        split at h
        · cases h
        · rename_i hne
          refine ⟨Or.inl ⟨b, v, h⟩, ?_⟩
          rintro ⟨w, hw⟩
          rw [← hpa] at hw
          exact hne (hinj b a v w x h hw).1
      · refine ⟨Or.inr h, ?_⟩
        rintro ⟨w, hw⟩
        rw [← hpa] at hw
        exact hI.disj x a w h hw
  · intro x b v hx h
    rw [hres] at hx
    rw [hp] at h
    have := hI.disj x b v hx
    grind
  · intro b hb
    rw [hreg]
    rw [hu'] at hb
    unfold upd at hb
    split at hb
    · exact absurd rfl hb
    · rename_i hne
      exact ⟨hI.reg b hb, hne⟩

end NQ.Exec
