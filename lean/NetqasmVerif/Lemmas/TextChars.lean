import NetqasmVerif.Lemmas.Text
namespace NQ.Text
open NQ

/-! ### Character level, part 1: decimal numbers -/

theorem digitChar_props (d : Nat) (h : d < 10) :
    isDigit (digitChar d) = true ∧ (digitChar d).toNat - 48 = d := by
  have : d = 0 ∨ d = 1 ∨ d = 2 ∨ d = 3 ∨ d = 4 ∨ d = 5 ∨ d = 6 ∨ d = 7 ∨ d = 8 ∨ d = 9 := by omega
  rcases this with rfl | rfl | rfl | rfl | rfl | rfl | rfl | rfl | rfl | rfl <;> decide

theorem parseNat_append (l : List Char) (c : Char) :
    parseNat (l ++ [c]) = 10 * parseNat l + (c.toNat - 48) := by
  simp [parseNat, List.foldl_append]

theorem showNatFuel_props : ∀ (f n : Nat), n < f →
    (∀ c ∈ showNatFuel f n, isDigit c = true) ∧ showNatFuel f n ≠ [] ∧ parseNat (showNatFuel f n) = n
  | 0, n, h => by omega
  | f + 1, n, h => by
    unfold showNatFuel
    split
    · rename_i hn
      obtain ⟨h1, h2⟩ := digitChar_props n hn
      refine ⟨by simpa using h1, by simp, ?_⟩
      simp [parseNat, h2]
    · rename_i hn
      obtain ⟨ih1, ih2, ih3⟩ := showNatFuel_props f (n / 10) (by omega)
      obtain ⟨h1, h2⟩ := digitChar_props (n % 10) (by omega)
      refine ⟨?_, by simp, ?_⟩
      · intro c hc
        rcases List.mem_append.1 hc with hc | hc
        · exact ih1 c hc
        · simp at hc; subst hc; exact h1
      · rw [parseNat_append, ih3, h2]; omega

theorem showNat_digits (n : Nat) : ∀ c ∈ showNat n, isDigit c = true :=
  (showNatFuel_props (n + 1) n (by omega)).1
theorem showNat_ne_nil (n : Nat) : showNat n ≠ [] := (showNatFuel_props (n + 1) n (by omega)).2.1
/-- `int(str(n)) = n` for every natural number -/
theorem parseNat_showNat (n : Nat) : parseNat (showNat n) = n :=
  (showNatFuel_props (n + 1) n (by omega)).2.2

theorem allDigits_showNat (n : Nat) : allDigits (showNat n) = true := by
  simp only [allDigits, Bool.and_eq_true, Bool.not_eq_true', List.all_eq_true]
  refine ⟨?_, showNat_digits n⟩
  cases h : showNat n with
  | nil => exact absurd h (showNat_ne_nil n)
  | cons => rfl

theorem parseConst_of_head_ne {c : Char} {cs : List Char} (h : c ≠ '-') :
    parseConst (c :: cs) = if allDigits (c :: cs) then some (parseNat (c :: cs) : Int) else none := by
  unfold parseConst
  split
  · rename_i heq; simp at heq; exact absurd heq.1 h
  · rfl

theorem isDigit_ne_minus {c : Char} (h : isDigit c = true) : c ≠ '-' := by
  intro hc; subst hc; simp [isDigit] at h

/-- **`int(str(v)) = v`** for every integer, through `is_number` -/
theorem parseConst_showInt (v : Int) : parseConst (showInt v) = some v := by
  unfold showInt
  split
  · rename_i hv
    simp only [parseConst, allDigits_showNat, if_true, parseNat_showNat]
    congr 1; omega
  · rename_i hv
    cases h : showNat v.toNat with
    | nil => exact absurd h (showNat_ne_nil _)
    | cons c cs =>
      have hd : isDigit c = true := showNat_digits v.toNat c (by rw [h]; exact List.mem_cons_self)
      rw [parseConst_of_head_ne (isDigit_ne_minus hd), ← h, allDigits_showNat, if_pos rfl,
        parseNat_showNat]
      congr 1; omega

/-- characters of a printed integer -/
def numChar (c : Char) : Bool := isDigit c || c = '-'

theorem showInt_chars (v : Int) : ∀ c ∈ showInt v, numChar c = true := by
  intro c hc
  unfold showInt at hc
  split at hc
  · rcases List.mem_cons.1 hc with rfl | hc
    · decide
    · simp [numChar, showNat_digits _ c hc]
  · simp [numChar, showNat_digits _ c hc]

theorem showInt_ne_nil (v : Int) : showInt v ≠ [] := by
  unfold showInt; split
  · simp
  · exact showNat_ne_nil _

theorem showInt_last (v : Int) : ∃ l c, showInt v = l ++ [c] ∧ isDigit c = true := by
  have hne := showNat_ne_nil (if v < 0 then (-v).toNat else v.toNat)
  obtain ⟨l, c, hl⟩ : ∃ l c, showNat (if v < 0 then (-v).toNat else v.toNat) = l ++ [c] := by
    have := List.eq_nil_or_concat (showNat (if v < 0 then (-v).toNat else v.toNat))
    rcases this with h | ⟨l, c, h⟩
    · exact absurd h hne
    · exact ⟨l, c, by simpa using h⟩
  have hc : isDigit c = true := showNat_digits _ c (by rw [hl]; simp)
  unfold showInt
  split
  · rename_i hv; simp only [hv, if_true] at hl; exact ⟨'-' :: l, c, by simp [hl], hc⟩
  · rename_i hv; simp only [hv, if_false] at hl; exact ⟨l, c, hl, hc⟩

end NQ.Text
