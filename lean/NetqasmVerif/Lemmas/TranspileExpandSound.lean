/-
`expandSound_of_C07`: the C07 hypothesis of the C08 simulation theorem, discharged for the concrete
semantics `MQ` and any configuration whose expansion table is tied to Gen/NvDecomp.
-/
import NetqasmVerif.Lemmas.TranspileC07
namespace NQ.Tr
open NQ NQ.NV

theorem readQ_of_regs {regs : Reg → Option Int} {r : Reg} {v : Int} {i : Nat}
    (h : regs r = some v) (hq : readQ regs r = some i) : v = (i : Int) := by
  simp only [readQ, h, Option.bind_some] at hq
  exact natOf_eq hq

/-- assembling the conclusion of `ExpandSound` when the registers are untouched -/
theorem finish_plain {C Q : Type} {A : QAction Q} {Mc : Sem (C × Q)} {ex : List Instr}
    {s u s' : St (C × Q)} {gi : GI} {used : List Reg}
    (hs' : s' = ⟨s.regs, (s.mem.1, A.act gi s.mem.2)⟩) (hmem : s.mem = u.mem)
    (hrun : RunStraight (MQ A Mc) (serialise ex) ⟨u.regs, (u.mem.1, u.mem.2)⟩
      ⟨u.regs, (u.mem.1, A.act gi u.mem.2)⟩) :
    ∃ u', RunStraight (MQ A Mc) (serialise ex) u u' ∧ s'.mem = u'.mem ∧
      ∀ r, (∀ s0, getUnused used = .ok s0 → r ≠ s0) → u'.regs r = u.regs r :=
  ⟨_, hrun, by rw [hs', hmem], fun _ _ => rfl⟩

theorem expandSound_of_C07 {C Q : Type} (A : QAction Q) (hA : QLawful A) (Mc : Sem (C × Q)) (cfg : Cfg)
    (hMc : SemLocal Mc cfg) (hTies : AllTies cfg = true) (hC : ClsTie cfg = true) :
    ExpandSound (MQ A Mc) cfg := by
  intro g info rv used ex s u s' hi hg hex hused hknow hall hmem hregs he
  obtain ⟨hmemI, hcls⟩ := infoOf_cls hi
  have hC' := hC
  unfold ClsTie at hC'
  simp only [Bool.and_eq_true] at hC'
  have hct := List.all_eq_true.1 hC'.1 info hmemI
  simp only [Bool.and_eq_true, Bool.or_eq_true, Bool.not_eq_eq_eq_not, Bool.not_true, beq_iff_eq, hcls] at hct
  obtain ⟨⟨⟨⟨_, c2⟩, _⟩, c4⟩, c5⟩ := hct
  -- the vanilla instruction is not `mov` (it has no semantics here)
  have hnm : ¬ g.cls = movCls := by
    intro e
    simp [MQ, e] at he
  have hTies' := hTies
  unfold AllTies at hTies'
  simp only [Bool.and_eq_true] at hTies'
  obtain ⟨⟨⟨⟨⟨⟨⟨tFix, tRot⟩, tCnotEC⟩, tCnotCE⟩, tCnotCC⟩, tCphEC⟩, tCphCE⟩, tCphCC⟩ := hTies'
  unfold infoGate at hg
  unfold expandInstr at hex
  by_cases hg1 : info.gate1 = true
  · -- one-qubit gates
    simp only [hg1, ↓reduceIte] at hex
    rcases c4 with (c4 | c4) | c4
    · rw [hg1] at c4; cases c4
    · -- fixed gate
      obtain ⟨e, hefix, hecls⟩ := List.any_eq_true.1 c4
      have hecls : e.1 = g.cls := by simpa using hecls
      have hfg := List.all_eq_true.1 fixedSingles_gname.1 e hefix
      simp only [Bool.and_eq_true, beq_iff_eq, bne_iff_ne, ne_eq] at hfg
      obtain ⟨⟨hgn, hk⟩, _⟩ := hfg
      rw [hecls] at hgn
      obtain ⟨gi, hgi, hs'⟩ := mq_exec_gate hgn he
      obtain ⟨r, q, hops, hrq, hgie⟩ := giOf_kind1 hgn hk hgi
      have hexp := hex
      unfold expandGate1 at hexp
      rw [hops] at hexp
      simp only at hexp
      have hr : r ∈ topRegs g := by simp [topRegs, hops, opReg?]
      have hrq' : readQ u.regs r = some q := by
        simp only [readQ, ← hregs r hr]; exact hrq
      have ht := List.all_eq_true.1 tFix e hefix
      simp only [Bool.and_eq_true, hecls] at ht
      have htie : singleTie cfg (g.cls ++ if cfg.hw = true then "@hw" else "") e.2 = true := by
        by_cases hhw : cfg.hw = true
        · simp only [hhw, ↓reduceIte]; exact ht.2
        · simp only [hhw, Bool.false_eq_true, ↓reduceIte, String.append_empty]; exact ht.1
      have hrun := single_sound A hA Mc e.2 hk htie g r ex hexp u.regs q hrq' u.mem.1 u.mem.2
      rw [← hgie] at hrun
      exact finish_plain hs' hmem hrun
    · -- rotation
      obtain ⟨e, herot, hecls⟩ := List.any_eq_true.1 c4
      have hecls : e.1 = g.cls := by simpa using hecls
      have hfg := List.all_eq_true.1 fixedSingles_gname.2.1 e herot
      simp only [Bool.and_eq_true, beq_iff_eq, bne_iff_ne, ne_eq] at hfg
      obtain ⟨⟨hgn, hk⟩, _⟩ := hfg
      rw [hecls] at hgn
      obtain ⟨gi, hgi, hs'⟩ := mq_exec_gate hgn he
      obtain ⟨r, n, d, q, n', d', hops, hrq, hn, hd, hgie⟩ := giOf_kind2 hgn hk hgi
      have hr : r ∈ topRegs g := by simp [topRegs, hops, opReg?]
      have hrq' : readQ u.regs r = some q := by
        simp only [readQ, ← hregs r hr]; exact hrq
      have ht := List.all_eq_true.1 tRot e herot
      rw [hecls] at ht
      have hrun := rot_sound A hA Mc e.2 hk g ht r n d hops ex hex u.regs q n' d' hrq' hn hd u.mem.1 u.mem.2
      rw [← hgie] at hrun
      exact finish_plain hs' hmem hrun
  · -- two-qubit gates
    have hg1f : info.gate1 = false := by simpa using hg1
    have hg2 : info.gate2 = true := by simpa [hg1f] using hg
    simp only [hg1, Bool.false_eq_true, ↓reduceIte, hg2] at hex
    have hgn : (info.tag = "cnot" ∧ gnameOf g.cls = some .cnot) ∨
        (info.tag = "cphase" ∧ gnameOf g.cls = some .cphase) := by
      rcases c5 with ((c5 | c5) | c5) | c5
      · rw [hg2] at c5; cases c5
      · exact Or.inl c5
      · exact Or.inr c5
      · exact absurd c5.2 hnm
    have hgn' : ∃ gn, gnameOf g.cls = some gn ∧ (gn = .cnot ∨ gn = .cphase) := by
      rcases hgn with h | h
      · exact ⟨_, h.2, Or.inl rfl⟩
      · exact ⟨_, h.2, Or.inr rfl⟩
    obtain ⟨gn, hgncls, hgnc⟩ := hgn'
    have hk : gkind gn = 3 := by rcases hgnc with rfl | rfl <;> rfl
    obtain ⟨gi, hgi, hs'⟩ := mq_exec_gate hgncls he
    obtain ⟨r0, r1, i0, i1, hops, hq0, hq1, hne, hgie⟩ := giOf_kind3 hgncls hk hgi
    have hr0 : r0 ∈ topRegs g := by simp [topRegs, hops, opReg?]
    have hr1 : r1 ∈ topRegs g := by simp [topRegs, hops, opReg?]
    have hq0' : readQ u.regs r0 = some i0 := by simp only [readQ, ← hregs r0 hr0]; exact hq0
    have hq1' : readQ u.regs r1 = some i1 := by simp only [readQ, ← hregs r1 hr1]; exact hq1
    obtain ⟨v0, hv0⟩ := Option.isSome_iff_exists.1 (hall hg2 r0 hr0)
    obtain ⟨v1, hv1⟩ := Option.isSome_iff_exists.1 (hall hg2 r1 hr1)
    have hv0e : v0 = (i0 : Int) := readQ_of_regs (hknow r0 hr0 v0 hv0) hq0
    have hv1e : v1 = (i1 : Int) := readQ_of_regs (hknow r1 hr1 v1 hv1) hq1
    unfold expandGate2 at hex
    rw [hops] at hex
    simp only [hv0, hv1] at hex
    have hvne : (v0 == v1) = false := by
      simp only [beq_eq_false_iff_ne, ne_eq, hv0e, hv1e]; omega
    simp only [hvne, Bool.false_eq_true, ↓reduceIte] at hex
    -- the three placements, for a gate `gn` whose keys are given
    have main : ∀ (kEC kCE kCC : String) (swapCE : Bool),
        twoTie cfg kEC gn .ec rmEC = true →
        (if swapCE then twoTie cfg kCE gn .ce rmEC else twoTie cfg kCE gn .ce rmCE) = true →
        twoTie cfg kCC gn .cc rmCC = true →
        (if (v0 == 0) = true then useTemplate cfg kEC g r0 r1 r0
          else if (v1 == 0) = true then
            (if swapCE then useTemplate cfg kCE g r1 r0 r0 else useTemplate cfg kCE g r0 r1 r0)
          else match getUnused used with
            | .ok s => useTemplate cfg kCC g r0 r1 s
            | .error e => .error e) = .ok ex →
        ∃ u', RunStraight (MQ A Mc) (serialise ex) u u' ∧ s'.mem = u'.mem ∧
          ∀ r, (∀ s0, getUnused used = .ok s0 → r ≠ s0) → u'.regs r = u.regs r := by
      intro kEC kCE kCC swapCE tEC tCE tCC hx
      by_cases h0 : (v0 == 0) = true
      · -- electron → carbon
        simp only [h0, ↓reduceIte] at hx
        have hi0 : i0 = 0 := by
          have : v0 = 0 := by simpa using h0
          omega
        have E : Env rmEC (fun k => if k = 0 then i0 else i1) u.regs r0 r1 r0 := by
          refine ⟨?_, ?_, ?_, ?_⟩
          · intro k hk'; simp only [rmEC, Option.some.injEq] at hk'; subst hk'; simpa using hq0'
          · intro k hk'; simp only [rmEC, Option.some.injEq] at hk'; subst hk'; simpa using hq1'
          · intro k hk'; simp [rmEC] at hk'
          · intro top k hk'; cases top <;> simp [rmEC] at hk' <;> simp
        have hrun := two_sound_plain A hA Mc gn hgnc .ec (by decide) rmEC tEC
          (by intro top k hk'; cases top <;> simp [rmEC] at hk' <;> simp [Placement.nq] <;> omega)
          g r0 r1 r0 ex hx (fun k => if k = 0 then i0 else i1)
          (by
            intro i j hi' hj' e
            simp only [Placement.nq] at hi' hj'
            by_cases hi0' : i = 0 <;> by_cases hj0 : j = 0 <;> simp [hi0', hj0] at e <;> omega)
          u.regs E u.mem.1 u.mem.2
        simp only [Placement.roles, ↓reduceIte, Nat.one_ne_zero] at hrun
        rw [← hgie] at hrun
        exact finish_plain hs' hmem hrun
      · simp only [h0, Bool.false_eq_true, ↓reduceIte] at hx
        by_cases h1 : (v1 == 0) = true
        · -- carbon → electron
          simp only [h1, ↓reduceIte] at hx
          have hinj : ∀ i j, i < Placement.ce.nq → j < Placement.ce.nq →
              (fun k => if k = 0 then i1 else i0) i = (fun k => if k = 0 then i1 else i0) j → i = j := by
            intro i j hi' hj' e
            simp only [Placement.nq] at hi' hj'
            by_cases hi0' : i = 0 <;> by_cases hj0 : j = 0 <;> simp [hi0', hj0] at e <;> omega
          cases swapCE with
          | true =>
            simp only [↓reduceIte] at hx tCE
            have E : Env rmEC (fun k => if k = 0 then i1 else i0) u.regs r1 r0 r0 := by
              refine ⟨?_, ?_, ?_, ?_⟩
              · intro k hk'; simp only [rmEC, Option.some.injEq] at hk'; subst hk'; simpa using hq1'
              · intro k hk'; simp only [rmEC, Option.some.injEq] at hk'; subst hk'; simpa using hq0'
              · intro k hk'; simp [rmEC] at hk'
              · intro top k hk'; cases top <;> simp [rmEC] at hk' <;> simp
            have hrun := two_sound_plain A hA Mc gn hgnc .ce (by decide) rmEC tCE
              (by intro top k hk'; cases top <;> simp [rmEC] at hk' <;> simp [Placement.nq] <;> omega)
              g r1 r0 r0 ex hx _ hinj u.regs E u.mem.1 u.mem.2
            simp only [Placement.roles, ↓reduceIte, Nat.one_ne_zero] at hrun
            rw [← hgie] at hrun
            exact finish_plain hs' hmem hrun
          | false =>
            simp only [Bool.false_eq_true, ↓reduceIte] at hx tCE
            have E : Env rmCE (fun k => if k = 0 then i1 else i0) u.regs r0 r1 r0 := by
              refine ⟨?_, ?_, ?_, ?_⟩
              · intro k hk'; simp only [rmCE, Option.some.injEq] at hk'; subst hk'; simpa using hq0'
              · intro k hk'; simp only [rmCE, Option.some.injEq] at hk'; subst hk'; simpa using hq1'
              · intro k hk'; simp [rmCE] at hk'
              · intro top k hk'; cases top <;> simp [rmCE] at hk' <;> simp
            have hrun := two_sound_plain A hA Mc gn hgnc .ce (by decide) rmCE tCE
              (by intro top k hk'; cases top <;> simp [rmCE] at hk' <;> simp [Placement.nq] <;> omega)
              g r0 r1 r0 ex hx _ hinj u.regs E u.mem.1 u.mem.2
            simp only [Placement.roles, ↓reduceIte, Nat.one_ne_zero] at hrun
            rw [← hgie] at hrun
            exact finish_plain hs' hmem hrun
        · -- carbon → carbon
          simp only [h1, Bool.false_eq_true, ↓reduceIte] at hx
          cases hgu : getUnused used with
          | error e => rw [hgu] at hx; cases hx
          | ok sreg =>
            rw [hgu] at hx
            simp only at hx
            have hfresh := (getUnused_fresh hgu).1
            have hna : r0 ≠ sreg := fun e => hfresh (e ▸ hused r0 hr0)
            have hnb : r1 ≠ sreg := fun e => hfresh (e ▸ hused r1 hr1)
            have hi0 : i0 ≠ 0 := by
              have : ¬ v0 = 0 := by simpa using h0
              omega
            have hi1 : i1 ≠ 0 := by
              have : ¬ v1 = 0 := by simpa using h1
              omega
            obtain ⟨u', hrun, hm', hr'⟩ := two_sound_cc A hA Mc hMc hC gn hgnc tCC g r0 r1 sreg ex hx
              (fun k => if k = 0 then 0 else if k = 1 then i0 else i1)
              (by
                intro i j hi' hj' e
                have : i = 0 ∨ i = 1 ∨ i = 2 := by omega
                have : j = 0 ∨ j = 1 ∨ j = 2 := by omega
                rcases ‹i = 0 ∨ i = 1 ∨ i = 2› with rfl | rfl | rfl <;>
                  rcases ‹j = 0 ∨ j = 1 ∨ j = 2› with rfl | rfl | rfl <;> simp at e <;> omega)
              (by simp) u (by simpa using hq0') (by simpa using hq1') hna hnb
            refine ⟨u', hrun, ?_, ?_⟩
            · rw [hm', hs', hgie, hmem]; simp
            · intro r hr
              exact hr' r (hr sreg rfl)
    rcases hgn with ⟨htag, hgc⟩ | ⟨htag, hgc⟩
    · have : gn = .cnot := by rw [hgncls] at hgc; simpa using hgc
      subst this
      simp only [htag, beq_self_eq_true, ↓reduceIte] at hex
      exact main _ _ _ false tCnotEC (by simpa using tCnotCE) tCnotCC
        (by simp only [Bool.false_eq_true, ↓reduceIte]; exact hex)
    · have : gn = .cphase := by rw [hgncls] at hgc; simpa using hgc
      subst this
      have hne' : ("cphase" == "cnot") = false := by decide
      simp only [htag, hne', Bool.false_eq_true, ↓reduceIte, beq_self_eq_true] at hex
      exact main _ _ _ true tCphEC (by simpa using tCphCE) tCphCC
        (by simp only [↓reduceIte]; exact hex)

end NQ.Tr

namespace NQ.Tr
open NQ NQ.NV

theorem writesOf_sub_regsOf (cfg : Cfg) (i : Instr) : ∀ r ∈ writesOf cfg i, r ∈ regsOf i := by
  intro r hr
  unfold writesOf at hr
  cases hi : infoOf cfg i.cls with
  | none => rw [hi] at hr; cases hr
  | some info =>
    rw [hi] at hr
    simp only at hr
    obtain ⟨p, _, hp⟩ := List.mem_filterMap.1 hr
    cases ho : i.ops[p]? with
    | none => rw [ho] at hp; cases hp
    | some o =>
      rw [ho] at hp
      simp only [Option.bind_some] at hp
      apply topRegs_sub_regsOf
      unfold topRegs
      exact List.mem_filterMap.2 ⟨o, List.mem_of_getElem? ho, hp⟩

theorem readQ_congr {r1 r2 : Reg → Option Int} {r : Reg} (h : r1 r = r2 r) : readQ r1 r = readQ r2 r := by
  simp [readQ, h]

theorem giOf_congr {s u : Reg → Option Int} {i : Instr} (h : ∀ r ∈ regsOf i, s r = u r) :
    giOf s i = giOf u i := by
  unfold giOf
  split
  · rename_i g r _ hops
    have : s r = u r := h r (by simp [regsOf, hops, regsOfOperand])
    simp [readQ, this]
  · rename_i g r n d _ hops
    have : s r = u r := h r (by simp [regsOf, hops, regsOfOperand])
    simp [readQ, this]
  · rename_i g r0 r1 _ hops
    have h0 : s r0 = u r0 := h r0 (by simp [regsOf, hops, regsOfOperand])
    have h1 : s r1 = u r1 := h r1 (by simp [regsOf, hops, regsOfOperand])
    simp [readQ, h0, h1]
  · rename_i g r0 r1 n d _ hops
    have h0 : s r0 = u r0 := h r0 (by simp [regsOf, hops, regsOfOperand])
    have h1 : s r1 = u r1 := h r1 (by simp [regsOf, hops, regsOfOperand])
    simp [readQ, h0, h1]
  · rfl

/-- the concrete semantics satisfies the locality/frame conditions whenever its classical part does -/
theorem semLocal_MQ {C Q : Type} (A : QAction Q) (Mc : Sem (C × Q)) (cfg : Cfg)
    (hMc : SemLocal Mc cfg) (hC : ClsTie cfg = true) : SemLocal (MQ A Mc) cfg := by
  have hsetcls : ∀ i r v, setOf cfg i = some (r, v) → i.cls = "core.SetInstruction" := by
    intro i r v hs
    unfold setOf at hs
    cases hi : infoOf cfg i.cls with
    | none => rw [hi] at hs; cases hs
    | some info =>
      rw [hi] at hs
      simp only at hs
      obtain ⟨hm, hc⟩ := infoOf_cls hi
      unfold ClsTie at hC
      simp only [Bool.and_eq_true] at hC
      have := List.all_eq_true.1 hC.1 info hm
      simp only [Bool.and_eq_true, Bool.or_eq_true, Bool.not_eq_eq_eq_not, Bool.not_true, beq_iff_eq] at this
      rcases this.1.1.1.1 with h | h
      · rw [h] at hs; simp at hs
      · rw [← hc]; exact h
  have hexec_cls : ∀ i s, i.cls = "core.SetInstruction" → (MQ A Mc).exec i s = Mc.exec i s := by
    intro i s hc
    have h1 : ¬ ("core.SetInstruction" = movCls) := by decide
    simp [MQ, hc, h1, fixedSingles_gname.2.2.2]
  constructor
  · intro i s s' r h hnw
    by_cases hm : i.cls = movCls
    · simp [MQ, hm] at h
    · cases hg : gnameOf i.cls with
      | some gn =>
        obtain ⟨gi, _, hs'⟩ := mq_exec_gate hg h
        rw [hs']
      | none =>
        have : (MQ A Mc).exec i s = Mc.exec i s := by simp [MQ, hm, hg]
        rw [this] at h
        exact hMc.frame i s s' r h hnw
  · intro i r v s hs
    rw [hexec_cls i s (hsetcls i r v hs)]
    exact hMc.setSem i r v s hs
  · intro i s u s' hmem hregs h
    by_cases hm : i.cls = movCls
    · simp [MQ, hm] at h
    · cases hg : gnameOf i.cls with
      | some gn =>
        obtain ⟨gi, hgi, hs'⟩ := mq_exec_gate hg h
        rw [giOf_congr hregs] at hgi
        refine ⟨⟨u.regs, (u.mem.1, A.act gi u.mem.2)⟩, ?_, ?_, ?_⟩
        · simp [MQ, hm, hg, hgi]
        · rw [hs', hmem]
        · intro r hr
          rw [hs']
          exact hregs r (writesOf_sub_regsOf cfg i r hr)
      | none =>
        have e1 : (MQ A Mc).exec i s = Mc.exec i s := by simp [MQ, hm, hg]
        have e2 : (MQ A Mc).exec i u = Mc.exec i u := by simp [MQ, hm, hg]
        rw [e1] at h
        rw [e2]
        exact hMc.loc i s u s' hmem hregs h
  · exact hMc.condLoc
  · exact hMc.condLine

end NQ.Tr
