/-
`expandSound_of_C07`: the C07 hypothesis of the C08 simulation theorem, discharged for the concrete
semantics `MQ` and any configuration whose expansion table is tied to Gen/NvDecomp.
-/
import NetqasmVerif.Lemmas.TranspileC07
namespace NQ.Tr
open NQ NQ.NV

theorem readQ_of_regs {regs : Reg → Option Int} {r : Reg} {v : Int} {i : Nat}
    (h : regs r = some v) (hq : readQ regs r = some i) : v = (i : Int) := by
  simp only [readQ, h, Option.bind_some] at hq
  exact natOf_eq hq

/-- assembling the conclusion of `ExpandSound` when the registers are untouched -/
theorem finish_plain {C Q : Type} {A : QAction Q} {Mc : Sem (C × Q)} {ex : List Instr}
    {s u s' : St (C × Q)} {gi : GI} {used : List Reg} {info : ClsInfo}
    (hs' : s' = ⟨s.regs, (s.mem.1, A.act gi s.mem.2)⟩) (hmem : s.mem = u.mem)
    (hrun : RunStraight (MQ A Mc) (serialise ex) ⟨u.regs, (u.mem.1, u.mem.2)⟩
      ⟨u.regs, (u.mem.1, A.act gi u.mem.2)⟩) :
    ∃ u', RunStraight (MQ A Mc) (serialise ex) u u' ∧ s'.mem = u'.mem ∧
      ∀ r, (info.gate2 = true → ∀ s0, getUnused used = .ok s0 → r ≠ s0) → u'.regs r = u.regs r :=
  ⟨_, hrun, by rw [hs', hmem], fun _ _ => rfl⟩

theorem movExec_some {C Q : Type} {A : QAction Q} {g : Instr} {s s' : St (C × Q)}
    (h : movExec A g s = some s') :
    ∃ r0 r1 a b q', g.ops = [.reg r0, .reg r1] ∧ readQ s.regs r0 = some a ∧ readQ s.regs r1 = some b ∧
      a ≠ b ∧ ((a = 0 ∧ A.transfer (movPhi true) a b s.mem.2 = some q') ∨
               (a ≠ 0 ∧ b = 0 ∧ A.transfer (movPhi false) a b s.mem.2 = some q')) ∧
      s' = ⟨s.regs, (s.mem.1, q')⟩ := by
  unfold movExec at h
  split at h
  · rename_i r0 r1 hops
    split at h
    · rename_i a b ha hb
      split at h
      · cases h
      · rename_i hne
        split at h
        · rename_i ha0
          obtain ⟨q', hq, hs⟩ := Option.map_eq_some_iff.1 h
          exact ⟨r0, r1, a, b, q', hops, ha, hb, hne, Or.inl ⟨ha0, hq⟩, hs.symm⟩
        · rename_i ha0
          split at h
          · rename_i hb0
            obtain ⟨q', hq, hs⟩ := Option.map_eq_some_iff.1 h
            exact ⟨r0, r1, a, b, q', hops, ha, hb, hne, Or.inr ⟨ha0, hb0, hq⟩, hs.symm⟩
          · cases h
    · cases h
  · cases h

/-- `ExpandSound`, the `mov` case: whichever template the pass picks (electron→carbon for known ids
or unknown registers, carbon→electron for known ids), it performs the transfer the vanilla `mov`
performs, wherever that is defined (target in |0⟩) -/
theorem expandSound_mov {C Q : Type} (A : QAction Q) (hA : QLawful A) (Mc : Sem (C × Q)) (cfg : Cfg)
    (hTies : AllTies cfg = true) (hC : ClsTie cfg = true)
    (g : Instr) (info : ClsInfo) (rv : List (Reg × Int)) (used : List Reg) (ex : List Instr)
    (s u s' : St (C × Q)) (hi : infoOf cfg g.cls = some info) (hg : infoGate info = true)
    (hex : expandInstr cfg info rv used g = .ok ex)
    (hknow : ∀ r ∈ topRegs g, ∀ v, rv.lookup r = some v → s.regs r = some v)
    (hall : info.gate2 = true → (∀ r ∈ topRegs g, (rv.lookup r).isSome = true) ∨
      (info.tag = "mov" ∧ ∃ r0 rest, g.ops = .reg r0 :: rest ∧ s.regs r0 = some 0))
    (hmem : s.mem = u.mem) (hregs : ∀ r ∈ topRegs g, s.regs r = u.regs r)
    (he : (MQ A Mc).exec g s = some s') (hm : g.cls = movCls) :
    ∃ u', RunStraight (MQ A Mc) (serialise ex) u u' ∧ s'.mem = u'.mem ∧
      ∀ r, (info.gate2 = true → ∀ s0, getUnused used = .ok s0 → r ≠ s0) → u'.regs r = u.regs r := by
  obtain ⟨hmemI, hcls⟩ := infoOf_cls hi
  have hC' := hC
  unfold ClsTie at hC'
  simp only [Bool.and_eq_true] at hC'
  have hct := List.all_eq_true.1 hC'.1 info hmemI
  simp only [Bool.and_eq_true, Bool.or_eq_true, Bool.not_eq_eq_eq_not, Bool.not_true, beq_iff_eq, hcls] at hct
  obtain ⟨⟨⟨⟨_, _⟩, _⟩, c4⟩, c5⟩ := hct
  have hnone : gnameOf g.cls = none := by rw [hm]; exact fixedSingles_gname.2.2.1
  -- class facts of `mov`
  have hg1 : info.gate1 = false := by
    rcases c4 with (c4 | c4) | c4
    · exact c4
    · obtain ⟨e, hefix, hecls⟩ := List.any_eq_true.1 c4
      have h1 := List.all_eq_true.1 fixedSingles_gname.1 e hefix
      have : e.1 = movCls := by rw [← hm]; simpa using hecls
      simp [this] at h1
    · obtain ⟨e, herot, hecls⟩ := List.any_eq_true.1 c4
      have h1 := List.all_eq_true.1 fixedSingles_gname.2.1 e herot
      have : e.1 = movCls := by rw [← hm]; simpa using hecls
      simp [this] at h1
  have hg2 : info.gate2 = true := by unfold infoGate at hg; simpa [hg1] using hg
  have htag : info.tag = "mov" := by
    rcases c5 with ((c5 | c5) | c5) | c5
    · rw [hg2] at c5; cases c5
    · rw [hnone] at c5; cases c5.2
    · rw [hnone] at c5; cases c5.2
    · exact c5.1
  have hTies' := hTies
  unfold AllTies at hTies'
  simp only [Bool.and_eq_true] at hTies'
  obtain ⟨⟨_, tEC⟩, tCE⟩ := hTies'
  -- the vanilla step
  have he' : movExec A g s = some s' := by simpa [MQ, hm] using he
  obtain ⟨r0, r1, i0, i1, q', hops, hq0, hq1, hne, hdir, hs'⟩ := movExec_some he'
  have hr0 : r0 ∈ topRegs g := by simp [topRegs, hops, opReg?]
  have hr1 : r1 ∈ topRegs g := by simp [topRegs, hops, opReg?]
  have hq0' : readQ u.regs r0 = some i0 := by simp only [readQ, ← hregs r0 hr0]; exact hq0
  have hq1' : readQ u.regs r1 = some i1 := by simp only [readQ, ← hregs r1 hr1]; exact hq1
  have hinj01 : ∀ (x y : Nat), x ≠ y → ∀ i j, i < 2 → j < 2 →
      (fun k => if k = 0 then x else y) i = (fun k => if k = 0 then x else y) j → i = j := by
    intro x y hxy i j hi' hj' e
    by_cases hi0 : i = 0 <;> by_cases hj0 : j = 0 <;> simp [hi0, hj0] at e <;> omega
  have hlt : ∀ (rm : TOp → Option Nat), (rm = rmEC ∨ rm = rmCE) → ∀ top k, rm top = some k → k < 2 := by
    intro rm hrm top k hk
    rcases hrm with rfl | rfl <;> cases top <;> simp [rmEC, rmCE] at hk <;> omega
  -- electron → carbon, shared by the known and the unknown path
  have caseEC : i0 = 0 → useTemplate cfg ("mov_ec" ++ sfx cfg) g r0 r1 r0 = .ok ex →
      ∃ u', RunStraight (MQ A Mc) (serialise ex) u u' ∧ s'.mem = u'.mem ∧
        ∀ r, (info.gate2 = true → ∀ s0, getUnused used = .ok s0 → r ≠ s0) → u'.regs r = u.regs r := by
    intro h0 hx
    have htr : A.transfer (movPhi true) i0 i1 u.mem.2 = some q' := by
      rcases hdir with ⟨_, h⟩ | ⟨hn, _, _⟩
      · rw [← hmem]; exact h
      · exact absurd h0 hn
    have E : Env rmEC (fun k => if k = 0 then i0 else i1) u.regs r0 r1 r0 := by
      refine ⟨?_, ?_, ?_, ?_⟩
      · intro k hk'; simp only [rmEC, Option.some.injEq] at hk'; subst hk'; simpa using hq0'
      · intro k hk'; simp only [rmEC, Option.some.injEq] at hk'; subst hk'; simpa using hq1'
      · intro k hk'; simp [rmEC] at hk'
      · intro top k hk'; cases top <;> simp [rmEC] at hk' <;> simp
    have hrun := mov_sound A hA Mc true rmEC tEC (hlt rmEC (Or.inl rfl)) g r0 r1 r0 ex hx
      (fun k => if k = 0 then i0 else i1) (hinj01 i0 i1 hne) u.regs E u.mem.1 u.mem.2 q'
      (by simpa [movDir] using htr)
    exact ⟨_, hrun, by rw [hs', hmem], fun _ _ => rfl⟩
  unfold expandInstr at hex
  simp only [hg1, Bool.false_eq_true, ↓reduceIte, hg2] at hex
  unfold expandGate2 at hex
  rw [hops] at hex
  simp only at hex
  have hnc : (info.tag == "cnot") = false := by rw [htag]; decide
  have hnp : (info.tag == "cphase") = false := by rw [htag]; decide
  have hmv : (info.tag == "mov") = true := by rw [htag]; decide
  cases hl0 : rv.lookup r0 with
  | none =>
    rw [hl0] at hex
    simp only [hmv, ↓reduceIte] at hex
    rcases hall hg2 with h | ⟨_, r0', rest, hops', h0⟩
    · have := h r0 hr0; rw [hl0] at this; cases this
    · rw [hops] at hops'
      simp only [List.cons.injEq, Operand.reg.injEq] at hops'
      rw [← hops'.1] at h0
      have : (0 : Int) = (i0 : Int) := readQ_of_regs h0 hq0
      exact caseEC (by omega) hex
  | some v0 =>
    cases hl1 : rv.lookup r1 with
    | none =>
      rw [hl0, hl1] at hex
      simp only [hmv, ↓reduceIte] at hex
      rcases hall hg2 with h | ⟨_, r0', rest, hops', h0⟩
      · have := h r1 hr1; rw [hl1] at this; cases this
      · rw [hops] at hops'
        simp only [List.cons.injEq, Operand.reg.injEq] at hops'
        rw [← hops'.1] at h0
        have : (0 : Int) = (i0 : Int) := readQ_of_regs h0 hq0
        exact caseEC (by omega) hex
    | some v1 =>
      rw [hl0, hl1] at hex
      have hv0e : v0 = (i0 : Int) := readQ_of_regs (hknow r0 hr0 v0 hl0) hq0
      have hv1e : v1 = (i1 : Int) := readQ_of_regs (hknow r1 hr1 v1 hl1) hq1
      have hvne : (v0 == v1) = false := by
        simp only [beq_eq_false_iff_ne, ne_eq, hv0e, hv1e]; omega
      simp only [hvne, Bool.false_eq_true, ↓reduceIte, hnc, hnp, hmv] at hex
      by_cases hA0 : (v0 == 0 && v1 != 0) = true
      · simp only [hA0, ↓reduceIte] at hex
        have : v0 = 0 := by
          simp only [Bool.and_eq_true, beq_iff_eq] at hA0; exact hA0.1
        exact caseEC (by omega) hex
      · simp only [hA0, Bool.false_eq_true, ↓reduceIte] at hex
        by_cases hB0 : (v0 != 0 && v1 == 0) = true
        · simp only [hB0, ↓reduceIte] at hex
          simp only [Bool.and_eq_true, bne_iff_ne, ne_eq, beq_iff_eq] at hB0
          have hi0 : i0 ≠ 0 := by omega
          have hi1 : i1 = 0 := by omega
          have htr : A.transfer (movPhi false) i0 i1 u.mem.2 = some q' := by
            rcases hdir with ⟨h, _⟩ | ⟨_, _, h⟩
            · exact absurd h hi0
            · rw [← hmem]; exact h
          have E : Env rmCE (fun k => if k = 0 then i1 else i0) u.regs r0 r1 r0 := by
            refine ⟨?_, ?_, ?_, ?_⟩
            · intro k hk'; simp only [rmCE, Option.some.injEq] at hk'; subst hk'; simpa using hq0'
            · intro k hk'; simp only [rmCE, Option.some.injEq] at hk'; subst hk'; simpa using hq1'
            · intro k hk'; simp [rmCE] at hk'
            · intro top k hk'; cases top <;> simp [rmCE] at hk' <;> simp
          have hrun := mov_sound A hA Mc false rmCE tCE (hlt rmCE (Or.inr rfl)) g r0 r1 r0 ex hex
            (fun k => if k = 0 then i1 else i0) (hinj01 i1 i0 (fun e => hne e.symm)) u.regs E u.mem.1 u.mem.2 q'
            (by simpa [movDir] using htr)
          exact ⟨_, hrun, by rw [hs', hmem], fun _ _ => rfl⟩
        · simp only [hB0, Bool.false_eq_true, ↓reduceIte] at hex
          cases hex

theorem expandSound_of_C07 {C Q : Type} (A : QAction Q) (hA : QLawful A) (Mc : Sem (C × Q)) (cfg : Cfg)
    (hMc : SemLocal Mc cfg) (hTies : AllTies cfg = true) (hC : ClsTie cfg = true) :
    ExpandSound (MQ A Mc) cfg := by
  intro g info rv used ex s u s' hi hg hex hused hknow hall hmem hregs he
  obtain ⟨hmemI, hcls⟩ := infoOf_cls hi
  have hC' := hC
  unfold ClsTie at hC'
  simp only [Bool.and_eq_true] at hC'
  have hct := List.all_eq_true.1 hC'.1 info hmemI
  simp only [Bool.and_eq_true, Bool.or_eq_true, Bool.not_eq_eq_eq_not, Bool.not_true, beq_iff_eq, hcls] at hct
  obtain ⟨⟨⟨⟨_, c2⟩, _⟩, c4⟩, c5⟩ := hct
  -- `mov` is the transfer: its own lemma
  by_cases hnm : g.cls = movCls
  · exact expandSound_mov A hA Mc cfg hTies hC g info rv used ex s u s' hi hg hex hknow hall hmem hregs he hnm
  have hTies' := hTies
  unfold AllTies at hTies'
  simp only [Bool.and_eq_true] at hTies'
  obtain ⟨⟨⟨⟨⟨⟨⟨⟨⟨tFix, tRot⟩, tCnotEC⟩, tCnotCE⟩, tCnotCC⟩, tCphEC⟩, tCphCE⟩, tCphCC⟩, _⟩, _⟩ := hTies'
  unfold infoGate at hg
  unfold expandInstr at hex
  by_cases hg1 : info.gate1 = true
  · -- one-qubit gates
    simp only [hg1, ↓reduceIte] at hex
    rcases c4 with (c4 | c4) | c4
    · rw [hg1] at c4; cases c4
    · -- fixed gate
      obtain ⟨e, hefix, hecls⟩ := List.any_eq_true.1 c4
      have hecls : e.1 = g.cls := by simpa using hecls
      have hfg := List.all_eq_true.1 fixedSingles_gname.1 e hefix
      simp only [Bool.and_eq_true, beq_iff_eq, bne_iff_ne, ne_eq] at hfg
      obtain ⟨⟨hgn, hk⟩, _⟩ := hfg
      rw [hecls] at hgn
      obtain ⟨gi, hgi, hs'⟩ := mq_exec_gate hgn he
      obtain ⟨r, q, hops, hrq, hgie⟩ := giOf_kind1 hgn hk hgi
      have hexp := hex
      unfold expandGate1 at hexp
      rw [hops] at hexp
      simp only at hexp
      have hr : r ∈ topRegs g := by simp [topRegs, hops, opReg?]
      have hrq' : readQ u.regs r = some q := by
        simp only [readQ, ← hregs r hr]; exact hrq
      have ht := List.all_eq_true.1 tFix e hefix
      simp only [Bool.and_eq_true, hecls] at ht
      have htie : singleTie cfg (g.cls ++ if cfg.hw = true then "@hw" else "") e.2 = true := by
        by_cases hhw : cfg.hw = true
        · simp only [hhw, ↓reduceIte]; exact ht.2
        · simp only [hhw, Bool.false_eq_true, ↓reduceIte, String.append_empty]; exact ht.1
      have hrun := single_sound A hA Mc e.2 hk htie g r ex hexp u.regs q hrq' u.mem.1 u.mem.2
      rw [← hgie] at hrun
      exact finish_plain hs' hmem hrun
    · -- rotation
      obtain ⟨e, herot, hecls⟩ := List.any_eq_true.1 c4
      have hecls : e.1 = g.cls := by simpa using hecls
      have hfg := List.all_eq_true.1 fixedSingles_gname.2.1 e herot
      simp only [Bool.and_eq_true, beq_iff_eq, bne_iff_ne, ne_eq] at hfg
      obtain ⟨⟨hgn, hk⟩, _⟩ := hfg
      rw [hecls] at hgn
      obtain ⟨gi, hgi, hs'⟩ := mq_exec_gate hgn he
      obtain ⟨r, n, d, q, n', d', hops, hrq, hn, hd, hgie⟩ := giOf_kind2 hgn hk hgi
      have hr : r ∈ topRegs g := by simp [topRegs, hops, opReg?]
      have hrq' : readQ u.regs r = some q := by
        simp only [readQ, ← hregs r hr]; exact hrq
      have ht := List.all_eq_true.1 tRot e herot
      rw [hecls] at ht
      have hrun := rot_sound A hA Mc e.2 hk g ht r n d hops ex hex u.regs q n' d' hrq' hn hd u.mem.1 u.mem.2
      rw [← hgie] at hrun
      exact finish_plain hs' hmem hrun
  · -- two-qubit gates
    have hg1f : info.gate1 = false := by simpa using hg1
    have hg2 : info.gate2 = true := by simpa [hg1f] using hg
    simp only [hg1, Bool.false_eq_true, ↓reduceIte, hg2] at hex
    have hgn : (info.tag = "cnot" ∧ gnameOf g.cls = some .cnot) ∨
        (info.tag = "cphase" ∧ gnameOf g.cls = some .cphase) := by
      rcases c5 with ((c5 | c5) | c5) | c5
      · rw [hg2] at c5; cases c5
      · exact Or.inl c5
      · exact Or.inr c5
      · exact absurd c5.2 hnm
    have hgn' : ∃ gn, gnameOf g.cls = some gn ∧ (gn = .cnot ∨ gn = .cphase) := by
      rcases hgn with h | h
      · exact ⟨_, h.2, Or.inl rfl⟩
      · exact ⟨_, h.2, Or.inr rfl⟩
    obtain ⟨gn, hgncls, hgnc⟩ := hgn'
    have hk : gkind gn = 3 := by rcases hgnc with rfl | rfl <;> rfl
    obtain ⟨gi, hgi, hs'⟩ := mq_exec_gate hgncls he
    obtain ⟨r0, r1, i0, i1, hops, hq0, hq1, hne, hgie⟩ := giOf_kind3 hgncls hk hgi
    have hr0 : r0 ∈ topRegs g := by simp [topRegs, hops, opReg?]
    have hr1 : r1 ∈ topRegs g := by simp [topRegs, hops, opReg?]
    have hq0' : readQ u.regs r0 = some i0 := by simp only [readQ, ← hregs r0 hr0]; exact hq0
    have hq1' : readQ u.regs r1 = some i1 := by simp only [readQ, ← hregs r1 hr1]; exact hq1
    have hallk : ∀ r ∈ topRegs g, (rv.lookup r).isSome = true := by
      rcases hall hg2 with h | ⟨ht, _⟩
      · exact h
      · rcases hgn with ⟨htag, _⟩ | ⟨htag, _⟩ <;> (rw [htag] at ht; exact absurd ht (by decide))
    obtain ⟨v0, hv0⟩ := Option.isSome_iff_exists.1 (hallk r0 hr0)
    obtain ⟨v1, hv1⟩ := Option.isSome_iff_exists.1 (hallk r1 hr1)
    have hv0e : v0 = (i0 : Int) := readQ_of_regs (hknow r0 hr0 v0 hv0) hq0
    have hv1e : v1 = (i1 : Int) := readQ_of_regs (hknow r1 hr1 v1 hv1) hq1
    unfold expandGate2 at hex
    rw [hops] at hex
    simp only [hv0, hv1] at hex
    have hvne : (v0 == v1) = false := by
      simp only [beq_eq_false_iff_ne, ne_eq, hv0e, hv1e]; omega
    simp only [hvne, Bool.false_eq_true, ↓reduceIte] at hex
    -- the three placements, for a gate `gn` whose keys are given
    have main : ∀ (kEC kCE kCC : String) (swapCE : Bool),
        twoTie cfg kEC gn .ec rmEC = true →
        (if swapCE then twoTie cfg kCE gn .ce rmEC else twoTie cfg kCE gn .ce rmCE) = true →
        twoTie cfg kCC gn .cc rmCC = true →
        (if (v0 == 0) = true then useTemplate cfg kEC g r0 r1 r0
          else if (v1 == 0) = true then
            (if swapCE then useTemplate cfg kCE g r1 r0 r0 else useTemplate cfg kCE g r0 r1 r0)
          else match getUnused used with
            | .ok s => useTemplate cfg kCC g r0 r1 s
            | .error e => .error e) = .ok ex →
        ∃ u', RunStraight (MQ A Mc) (serialise ex) u u' ∧ s'.mem = u'.mem ∧
          ∀ r, (info.gate2 = true → ∀ s0, getUnused used = .ok s0 → r ≠ s0) → u'.regs r = u.regs r := by
      intro kEC kCE kCC swapCE tEC tCE tCC hx
      by_cases h0 : (v0 == 0) = true
      · -- electron → carbon
        simp only [h0, ↓reduceIte] at hx
        have hi0 : i0 = 0 := by
          have : v0 = 0 := by simpa using h0
          omega
        have E : Env rmEC (fun k => if k = 0 then i0 else i1) u.regs r0 r1 r0 := by
          refine ⟨?_, ?_, ?_, ?_⟩
          · intro k hk'; simp only [rmEC, Option.some.injEq] at hk'; subst hk'; simpa using hq0'
          · intro k hk'; simp only [rmEC, Option.some.injEq] at hk'; subst hk'; simpa using hq1'
          · intro k hk'; simp [rmEC] at hk'
          · intro top k hk'; cases top <;> simp [rmEC] at hk' <;> simp
        have hrun := two_sound_plain A hA Mc gn hgnc .ec (by decide) rmEC tEC
          (by intro top k hk'; cases top <;> simp [rmEC] at hk' <;> simp [Placement.nq] <;> omega)
          g r0 r1 r0 ex hx (fun k => if k = 0 then i0 else i1)
          (by
            intro i j hi' hj' e
            simp only [Placement.nq] at hi' hj'
            by_cases hi0' : i = 0 <;> by_cases hj0 : j = 0 <;> simp [hi0', hj0] at e <;> omega)
          u.regs E u.mem.1 u.mem.2
        simp only [Placement.roles, ↓reduceIte, Nat.one_ne_zero] at hrun
        rw [← hgie] at hrun
        exact finish_plain hs' hmem hrun
      · simp only [h0, Bool.false_eq_true, ↓reduceIte] at hx
        by_cases h1 : (v1 == 0) = true
        · -- carbon → electron
          simp only [h1, ↓reduceIte] at hx
          have hinj : ∀ i j, i < Placement.ce.nq → j < Placement.ce.nq →
              (fun k => if k = 0 then i1 else i0) i = (fun k => if k = 0 then i1 else i0) j → i = j := by
            intro i j hi' hj' e
            simp only [Placement.nq] at hi' hj'
            by_cases hi0' : i = 0 <;> by_cases hj0 : j = 0 <;> simp [hi0', hj0] at e <;> omega
          cases swapCE with
          | true =>
            simp only [↓reduceIte] at hx tCE
            have E : Env rmEC (fun k => if k = 0 then i1 else i0) u.regs r1 r0 r0 := by
              refine ⟨?_, ?_, ?_, ?_⟩
              · intro k hk'; simp only [rmEC, Option.some.injEq] at hk'; subst hk'; simpa using hq1'
              · intro k hk'; simp only [rmEC, Option.some.injEq] at hk'; subst hk'; simpa using hq0'
              · intro k hk'; simp [rmEC] at hk'
              · intro top k hk'; cases top <;> simp [rmEC] at hk' <;> simp
            have hrun := two_sound_plain A hA Mc gn hgnc .ce (by decide) rmEC tCE
              (by intro top k hk'; cases top <;> simp [rmEC] at hk' <;> simp [Placement.nq] <;> omega)
              g r1 r0 r0 ex hx _ hinj u.regs E u.mem.1 u.mem.2
            simp only [Placement.roles, ↓reduceIte, Nat.one_ne_zero] at hrun
            rw [← hgie] at hrun
            exact finish_plain hs' hmem hrun
          | false =>
            simp only [Bool.false_eq_true, ↓reduceIte] at hx tCE
            have E : Env rmCE (fun k => if k = 0 then i1 else i0) u.regs r0 r1 r0 := by
              refine ⟨?_, ?_, ?_, ?_⟩
              · intro k hk'; simp only [rmCE, Option.some.injEq] at hk'; subst hk'; simpa using hq0'
              · intro k hk'; simp only [rmCE, Option.some.injEq] at hk'; subst hk'; simpa using hq1'
              · intro k hk'; simp [rmCE] at hk'
              · intro top k hk'; cases top <;> simp [rmCE] at hk' <;> simp
            have hrun := two_sound_plain A hA Mc gn hgnc .ce (by decide) rmCE tCE
              (by intro top k hk'; cases top <;> simp [rmCE] at hk' <;> simp [Placement.nq] <;> omega)
              g r0 r1 r0 ex hx _ hinj u.regs E u.mem.1 u.mem.2
            simp only [Placement.roles, ↓reduceIte, Nat.one_ne_zero] at hrun
            rw [← hgie] at hrun
            exact finish_plain hs' hmem hrun
        · -- carbon → carbon
          simp only [h1, Bool.false_eq_true, ↓reduceIte] at hx
          cases hgu : getUnused used with
          | error e => rw [hgu] at hx; cases hx
          | ok sreg =>
            rw [hgu] at hx
            simp only at hx
            have hfresh := (getUnused_fresh hgu).1
            have hna : r0 ≠ sreg := fun e => hfresh (e ▸ hused r0 hr0)
            have hnb : r1 ≠ sreg := fun e => hfresh (e ▸ hused r1 hr1)
            have hi0 : i0 ≠ 0 := by
              have : ¬ v0 = 0 := by simpa using h0
              omega
            have hi1 : i1 ≠ 0 := by
              have : ¬ v1 = 0 := by simpa using h1
              omega
            obtain ⟨u', hrun, hm', hr'⟩ := two_sound_cc A hA Mc hMc hC gn hgnc tCC g r0 r1 sreg ex hx
              (fun k => if k = 0 then 0 else if k = 1 then i0 else i1)
              (by
                intro i j hi' hj' e
                have : i = 0 ∨ i = 1 ∨ i = 2 := by omega
                have : j = 0 ∨ j = 1 ∨ j = 2 := by omega
                rcases ‹i = 0 ∨ i = 1 ∨ i = 2› with rfl | rfl | rfl <;>
                  rcases ‹j = 0 ∨ j = 1 ∨ j = 2› with rfl | rfl | rfl <;> simp at e <;> omega)
              (by simp) u (by simpa using hq0') (by simpa using hq1') hna hnb
            refine ⟨u', hrun, ?_, ?_⟩
            · rw [hm', hs', hgie, hmem]; simp
            · intro r hr
              exact hr' r (hr hg2 sreg rfl)
    rcases hgn with ⟨htag, hgc⟩ | ⟨htag, hgc⟩
    · have : gn = .cnot := by rw [hgncls] at hgc; simpa using hgc
      subst this
      simp only [htag, beq_self_eq_true, ↓reduceIte] at hex
      exact main _ _ _ false tCnotEC (by simpa using tCnotCE) tCnotCC
        (by simp only [Bool.false_eq_true, ↓reduceIte]; exact hex)
    · have : gn = .cphase := by rw [hgncls] at hgc; simpa using hgc
      subst this
      have hne' : ("cphase" == "cnot") = false := by decide
      simp only [htag, hne', Bool.false_eq_true, ↓reduceIte, beq_self_eq_true] at hex
      exact main _ _ _ true tCphEC (by simpa using tCphCE) tCphCC
        (by simp only [↓reduceIte]; exact hex)

end NQ.Tr

namespace NQ.Tr
open NQ NQ.NV

theorem writesOf_sub_regsOf (cfg : Cfg) (i : Instr) : ∀ r ∈ writesOf cfg i, r ∈ regsOf i := by
  intro r hr
  unfold writesOf at hr
  cases hi : infoOf cfg i.cls with
  | none => rw [hi] at hr; cases hr
  | some info =>
    rw [hi] at hr
    simp only at hr
    obtain ⟨p, _, hp⟩ := List.mem_filterMap.1 hr
    cases ho : i.ops[p]? with
    | none => rw [ho] at hp; cases hp
    | some o =>
      rw [ho] at hp
      simp only [Option.bind_some] at hp
      apply topRegs_sub_regsOf
      unfold topRegs
      exact List.mem_filterMap.2 ⟨o, List.mem_of_getElem? ho, hp⟩

theorem readQ_congr {r1 r2 : Reg → Option Int} {r : Reg} (h : r1 r = r2 r) : readQ r1 r = readQ r2 r := by
  simp [readQ, h]

theorem giOf_congr {s u : Reg → Option Int} {i : Instr} (h : ∀ r ∈ regsOf i, s r = u r) :
    giOf s i = giOf u i := by
  unfold giOf
  split
  · rename_i g r _ hops
    have : s r = u r := h r (by simp [regsOf, hops, regsOfOperand])
    simp [readQ, this]
  · rename_i g r n d _ hops
    have : s r = u r := h r (by simp [regsOf, hops, regsOfOperand])
    simp [readQ, this]
  · rename_i g r0 r1 _ hops
    have h0 : s r0 = u r0 := h r0 (by simp [regsOf, hops, regsOfOperand])
    have h1 : s r1 = u r1 := h r1 (by simp [regsOf, hops, regsOfOperand])
    simp [readQ, h0, h1]
  · rename_i g r0 r1 n d _ hops
    have h0 : s r0 = u r0 := h r0 (by simp [regsOf, hops, regsOfOperand])
    have h1 : s r1 = u r1 := h r1 (by simp [regsOf, hops, regsOfOperand])
    simp [readQ, h0, h1]
  · rfl

/-- the concrete semantics satisfies the locality/frame conditions whenever its classical part does -/
theorem semLocal_MQ {C Q : Type} (A : QAction Q) (Mc : Sem (C × Q)) (cfg : Cfg)
    (hMc : SemLocal Mc cfg) (hC : ClsTie cfg = true) : SemLocal (MQ A Mc) cfg := by
  have hsetcls : ∀ i r v, setOf cfg i = some (r, v) → i.cls = "core.SetInstruction" := by
    intro i r v hs
    unfold setOf at hs
    cases hi : infoOf cfg i.cls with
    | none => rw [hi] at hs; cases hs
    | some info =>
      rw [hi] at hs
      simp only at hs
      obtain ⟨hm, hc⟩ := infoOf_cls hi
      unfold ClsTie at hC
      simp only [Bool.and_eq_true] at hC
      have := List.all_eq_true.1 hC.1 info hm
      simp only [Bool.and_eq_true, Bool.or_eq_true, Bool.not_eq_eq_eq_not, Bool.not_true, beq_iff_eq] at this
      rcases this.1.1.1.1 with h | h
      · rw [h] at hs; simp at hs
      · rw [← hc]; exact h
  have hexec_cls : ∀ i s, i.cls = "core.SetInstruction" → (MQ A Mc).exec i s = Mc.exec i s := by
    intro i s hc
    have h1 : ¬ ("core.SetInstruction" = movCls) := by decide
    simp [MQ, hc, h1, fixedSingles_gname.2.2.2]
  constructor
  · intro i s s' r h hnw
    by_cases hm : i.cls = movCls
    · simp only [MQ, hm, beq_self_eq_true, ↓reduceIte] at h
      obtain ⟨_, _, _, _, _, _, _, _, _, _, hs'⟩ := movExec_some h
      rw [hs']
    · cases hg : gnameOf i.cls with
      | some gn =>
        obtain ⟨gi, _, hs'⟩ := mq_exec_gate hg h
        rw [hs']
      | none =>
        have : (MQ A Mc).exec i s = Mc.exec i s := by simp [MQ, hm, hg]
        rw [this] at h
        exact hMc.frame i s s' r h hnw
  · intro i r v s hs
    rw [hexec_cls i s (hsetcls i r v hs)]
    exact hMc.setSem i r v s hs
  · intro i s u s' hmem hregs h
    by_cases hm : i.cls = movCls
    · simp only [MQ, hm, beq_self_eq_true, ↓reduceIte] at h ⊢
      obtain ⟨r0, r1, a, b, q', hops, hq0, hq1, hne, hdir, hs'⟩ := movExec_some h
      have h0 : s.regs r0 = u.regs r0 := hregs r0 (by simp [regsOf, hops, regsOfOperand])
      have h1 : s.regs r1 = u.regs r1 := hregs r1 (by simp [regsOf, hops, regsOfOperand])
      have hq0' : readQ u.regs r0 = some a := by simp only [readQ, ← h0]; exact hq0
      have hq1' : readQ u.regs r1 = some b := by simp only [readQ, ← h1]; exact hq1
      refine ⟨⟨u.regs, (u.mem.1, q')⟩, ?_, by rw [hs', hmem], ?_⟩
      · rcases hdir with ⟨ha, ht⟩ | ⟨ha, hb, ht⟩
        · rw [hmem] at ht
          subst ha
          simp only [movExec, hops, hq0', hq1', hne, ↓reduceIte, ht, Option.map_some]
        · rw [hmem] at ht
          subst hb
          simp only [movExec, hops, hq0', hq1', hne, ↓reduceIte, ha, ht, Option.map_some]
      · intro r hr
        rw [hs']
        exact hregs r (writesOf_sub_regsOf cfg i r hr)
    · cases hg : gnameOf i.cls with
      | some gn =>
        obtain ⟨gi, hgi, hs'⟩ := mq_exec_gate hg h
        rw [giOf_congr hregs] at hgi
        refine ⟨⟨u.regs, (u.mem.1, A.act gi u.mem.2)⟩, ?_, ?_, ?_⟩
        · simp [MQ, hm, hg, hgi]
        · rw [hs', hmem]
        · intro r hr
          rw [hs']
          exact hregs r (writesOf_sub_regsOf cfg i r hr)
      | none =>
        have e1 : (MQ A Mc).exec i s = Mc.exec i s := by simp [MQ, hm, hg]
        have e2 : (MQ A Mc).exec i u = Mc.exec i u := by simp [MQ, hm, hg]
        rw [e1] at h
        rw [e2]
        exact hMc.loc i s u s' hmem hregs h
  · exact hMc.condLoc
  · exact hMc.condLine

end NQ.Tr
