/-
Source lines (C03's proto commands without label definition / args / macros / comments):
`parseLine` reads `mnemonic op₁ … opₙ` back for every SOURCE operand form — registers,
literals, label operands, `@a`, `@a[Rn]`, `@a[5]`, `@a[Rn:3]`, … — generalising the
printed-line theorem of C17; and the assembler's tokeniser `group_by_word` cuts the same words.
-/
import NetqasmVerif.Lemmas.TextBridge
import NetqasmVerif.Lemmas.AsmTextOperand
namespace NQ.Text
open NQ

variable {S : Syms}

/-- what source lines need beyond `symsOk`: the syntax symbols are no letters / underscore, so
they cannot be confused with a label operand -/
def srcSymsOk (S : Syms) : Bool :=
  let bad := fun c => isAlpha c || c = '_'
  !bad S.argOpen && !bad S.macroStart && !bad S.branchEnd && !bad S.addrStart
    && !AsmText.isSpace S.idxClose

def showSrcOps (S : Syms) : List Asm.POperand → List Char
  | [] => []
  | o :: os => ' ' :: showPOp S o ++ showSrcOps S os

/-- characters of a source operand -/
def srcChar (S : Syms) (c : Char) : Bool := wordChar S c || isAlpha c || c = '_'

theorem isVarName_chars {l : List Char} (h : isVarName l = true) :
    ∀ c ∈ l, (isAlpha c || isDigit c || c = '_') = true := by
  cases l with
  | nil => simp [isVarName] at h
  | cons d ds =>
    simp only [isVarName, Bool.and_eq_true, List.all_eq_true] at h
    exact h.2

theorem showPOp_chars (hS : SOk S) (o : Asm.POperand) (ho : pOpOk S o) :
    ∀ c ∈ showPOp S o, srcChar S c = true := by
  intro c hc
  have ow : ∀ {c}, opChar S c = true → srcChar S c = true := fun h => by simp [srcChar, wordChar, h]
  cases o with
  | reg r => exact ow (showReg_chars hS r ho c hc)
  | lit v => exact ow (showInt_opChars v c hc)
  | tmpl n => exact absurd ho (by simp [pOpOk])
  | lab l =>
    have := isVarName_chars ho.2.2.1 c hc
    simp only [Bool.or_eq_true, decide_eq_true_eq] at this
    rcases this with (h | h) | h
    · simp [srcChar, h]
    · exact ow (numChar_opChar (by simp [numChar, h]))
    · simp [srcChar, h]
  | addr a =>
    rcases List.mem_cons.1 hc with rfl | hc
    · simp [srcChar, wordChar]
    · exact ow (showInt_opChars a c hc)
  | entry a i =>
    have hform : showPOp S (.entry a i)
        = [S.addrStart] ++ showInt a ++ [S.idxOpen] ++ showVal S (valOfRI i) ++ [S.idxClose] := by
      simp [showPOp, showEntry]
    rw [hform] at hc
    simp only [List.mem_append, List.mem_singleton] at hc
    rcases hc with (((h | h) | h) | h) | h
    · subst h; simp [srcChar, wordChar]
    · exact ow (showInt_opChars a c h)
    · subst h; simp [srcChar, wordChar]
    · exact ow (showVal_chars hS _ ho c h)
    · subst h; simp [srcChar, wordChar]
  | slice a s e =>
    have hform : showPOp S (.slice a s e)
        = [S.addrStart] ++ showInt a ++ [S.idxOpen] ++ showVal S (valOfRI s) ++ [S.sliceDelim]
          ++ showVal S (valOfRI e) ++ [S.idxClose] := by
      simp [showPOp, showSlice]
    rw [hform] at hc
    simp only [List.mem_append, List.mem_singleton] at hc
    rcases hc with (((((h | h) | h) | h) | h) | h) | h
    · subst h; simp [srcChar, wordChar]
    · exact ow (showInt_opChars a c h)
    · subst h; simp [srcChar, wordChar]
    · exact ow (showVal_chars hS _ ho.1 c h)
    · subst h; simp [srcChar, wordChar]
    · exact ow (showVal_chars hS _ ho.2 c h)
    · subst h; simp [srcChar, wordChar]

theorem alpha_not_space {c : Char} (h : (isAlpha c || c = '_') = true) : isSpace c = false := by
  cases hc : isSpace c
  · rfl
  · simp only [isSpace, Bool.or_eq_true, decide_eq_true_eq] at hc
    rcases hc with ((rfl | rfl) | rfl) | rfl <;> simp [isAlpha] at h

theorem srcChar_not_space (hS : SOk S) {c : Char} (h : srcChar S c = true) : isSpace c = false := by
  simp only [srcChar, Bool.or_eq_true, decide_eq_true_eq] at h
  rcases h with (h | h) | h
  · exact wordChar_not_space hS h
  · exact alpha_not_space (by simp [h])
  · exact alpha_not_space (by simp [h])

/-- the last character of a source operand -/
def srcLast (S : Syms) (d : Char) : Prop :=
  isDigit d = true ∨ d = S.idxClose ∨ mnCharOk d = true ∨ (isAlpha d || d = '_') = true

theorem showPOp_last (o : Asm.POperand) (ho : pOpOk S o) :
    ∃ l d, showPOp S o = l ++ [d] ∧ srcLast S d := by
  cases o with
  | reg r =>
    obtain ⟨l, c, hl, hc⟩ := showInt_last r.idx
    exact ⟨bankChar S r.bank :: l, c, by simp [showPOp, showReg, hl], Or.inl hc⟩
  | lit v =>
    obtain ⟨l, c, hl, hc⟩ := showInt_last v
    exact ⟨l, c, by simp [showPOp, hl], Or.inl hc⟩
  | tmpl n => exact absurd ho (by simp [pOpOk])
  | lab l =>
    rcases List.eq_nil_or_concat l.toList with h | ⟨l', d, h⟩
    · exact absurd h ho.2.2.2.1
    · refine ⟨l', d, by simpa [showPOp] using h, ?_⟩
      have := isVarName_chars ho.2.2.1 d (by rw [h]; simp)
      simp only [Bool.or_eq_true, decide_eq_true_eq] at this
      rcases this with (h' | h') | h'
      · exact Or.inr (Or.inr (Or.inr (by simp [h'])))
      · exact Or.inl h'
      · exact Or.inr (Or.inr (Or.inr (by simp [h'])))
  | addr a =>
    obtain ⟨l, c, hl, hc⟩ := showInt_last a
    exact ⟨S.addrStart :: l, c, by simp [showPOp, hl], Or.inl hc⟩
  | entry a i =>
    exact ⟨S.addrStart :: showInt a ++ S.idxOpen :: showVal S (valOfRI i), S.idxClose,
      by simp [showPOp, showEntry], Or.inr (Or.inl rfl)⟩
  | slice a s e =>
    exact ⟨S.addrStart :: showInt a ++ S.idxOpen :: showVal S (valOfRI s) ++ S.sliceDelim ::
      showVal S (valOfRI e), S.idxClose, by simp [showPOp, showSlice], Or.inr (Or.inl rfl)⟩

theorem splitOn_src (hS : SOk S) (w : List Char) (hw : ' ' ∉ w) (ops : List Asm.POperand)
    (ho : ∀ o ∈ ops, pOpOk S o) :
    splitOn ' ' (w ++ showSrcOps S ops) = w :: ops.map (showPOp S) := by
  induction ops generalizing w with
  | nil => simp [showSrcOps, splitOn_notin hw]
  | cons o os ih =>
    have hsp : ' ' ∉ showPOp S o := fun h => by
      have := srcChar_not_space hS (showPOp_chars hS o (ho o List.mem_cons_self) _ h)
      simp [isSpace] at this
    simp only [showSrcOps, List.map_cons, List.cons_append]
    rw [splitOn_append hw, ih _ hsp (fun o' ho' => ho o' (List.mem_cons_of_mem _ ho'))]

theorem parseOperands_src (hS : SOk S) (ops : List Asm.POperand) (ho : ∀ o ∈ ops, pOpOk S o) :
    parseOperands S (ops.map (showPOp S)) = .ok (ops.map tokOfP) := by
  induction ops with
  | nil => rfl
  | cons o os ih =>
    have h := ho o List.mem_cons_self
    simp only [List.map_cons, parseOperands]
    rw [strip_of_all (fun c hc => srcChar_not_space hS (showPOp_chars hS o h c hc)),
      parseOperand_showPOp hS o h, ih (fun o' ho' => ho o' (List.mem_cons_of_mem _ ho'))]

theorem showSrcOps_last (o : Asm.POperand) (os : List Asm.POperand)
    (ho : ∀ o' ∈ o :: os, pOpOk S o') :
    ∃ l d, showSrcOps S (o :: os) = l ++ [d] ∧ srcLast S d := by
  induction os generalizing o with
  | nil =>
    obtain ⟨l, d, hl, hd⟩ := showPOp_last (S := S) o (ho o List.mem_cons_self)
    exact ⟨' ' :: l, d, by simp [showSrcOps, hl], hd⟩
  | cons o' os ih =>
    obtain ⟨l, d, hl, hd⟩ := ih o' (fun x hx => ho x (List.mem_cons_of_mem _ hx))
    refine ⟨' ' :: showPOp S o ++ l, d, ?_, hd⟩
    have : showSrcOps S (o :: o' :: os) = ' ' :: showPOp S o ++ showSrcOps S (o' :: os) := rfl
    rw [this, hl]; simp

/-- characters of a whole source line -/
def srcLineChar (S : Syms) (c : Char) : Bool := lineChar S c || isAlpha c || c = '_'

theorem showSrcOps_chars (hS : SOk S) (ops : List Asm.POperand) (ho : ∀ o ∈ ops, pOpOk S o) :
    ∀ c ∈ showSrcOps S ops, srcLineChar S c = true := by
  induction ops with
  | nil => intro c hc; simp [showSrcOps] at hc
  | cons o os ih =>
    intro c hc
    simp only [showSrcOps, List.cons_append, List.mem_cons, List.mem_append] at hc
    rcases hc with rfl | hc | hc
    · simp [srcLineChar, lineChar]
    · have := showPOp_chars hS o (ho o List.mem_cons_self) c hc
      simp only [srcChar, Bool.or_eq_true, decide_eq_true_eq] at this
      rcases this with (h | h) | h
      · simp [srcLineChar, wordChar_lineChar h]
      · simp [srcLineChar, h]
      · simp [srcLineChar, h]
    · exact ih (fun o' ho' => ho o' (List.mem_cons_of_mem _ ho')) c hc

theorem srcLine_chars (hS : SOk S) (mn : List Char) (hmn : ∀ c ∈ mn, mnCharOk c = true)
    (ops : List Asm.POperand) (ho : ∀ o ∈ ops, pOpOk S o) :
    ∀ c ∈ mn ++ showSrcOps S ops, srcLineChar S c = true := by
  intro c hc
  rcases List.mem_append.1 hc with hc | hc
  · simp [srcLineChar, mnChar_lineChar (S := S) (hmn c hc)]
  · exact showSrcOps_chars hS ops ho c hc

/-- **source line level**: for any mnemonic of `GenericInstr` and any source operands,
`parseLine` reads the line `mnemonic op₁ … opₙ` back as that command; the assembler's
`group_by_word` cuts the same words and `_split_of_bracket` finds no argument list. -/
theorem parseLine_source (hS : SOk S) (hX : srcSymsOk S = true) (generic : List String) (mn : String)
    (hne : mn.toList ≠ []) (hmn : ∀ c ∈ mn.toList, mnCharOk c = true)
    (hg : generic.contains mn = true) (ops : List Asm.POperand) (ho : ∀ o ∈ ops, pOpOk S o) (cb : Char) :
    parseLine S generic (mn.toList ++ showSrcOps S ops) = .ok ⟨mn, ops.map tokOfP⟩ ∧
    AsmText.groupByWord S.argOpen cb (mn.toList ++ showSrcOps S ops)
      = some (mn.toList :: ops.map (showPOp S)) := by
  simp only [srcSymsOk, Bool.and_eq_true, Bool.not_eq_true', Bool.or_eq_false_iff,
    decide_eq_false_iff_not] at hX
  obtain ⟨⟨⟨⟨hXa, hXm⟩, hXb⟩, _⟩, hXc⟩ := hX
  have hall := srcLine_chars hS mn.toList hmn ops ho
  have hnot : ∀ x, lineChar S x = false → isAlpha x = false → x ≠ '_' →
      x ∉ mn.toList ++ showSrcOps S ops := by
    intro x h1 h2 h3 hin
    have := hall x hin
    simp [srcLineChar, h1, h2, h3] at this
  have ha := hnot _ hS.argOpen hXa.1 hXa.2
  have hm := hnot _ hS.macroS hXm.1 hXm.2
  -- the last character
  have hlast : ∃ l d, mn.toList ++ showSrcOps S ops = l ++ [d] ∧ srcLast S d := by
    cases ops with
    | nil =>
      rcases List.eq_nil_or_concat mn.toList with h | ⟨l, d, h⟩
      · exact absurd h hne
      · exact ⟨l, d, by simp [showSrcOps, h], Or.inr (Or.inr (Or.inl (hmn d (by simp [h]))))⟩
    | cons o os =>
      obtain ⟨l, d, hl, hd⟩ := showSrcOps_last (S := S) o os ho
      exact ⟨mn.toList ++ l, d, by rw [hl]; simp, hd⟩
  obtain ⟨l, d, hl, hd⟩ := hlast
  have hbr : (mn.toList ++ showSrcOps S ops).getLast? ≠ some S.branchEnd := by
    rw [hl, List.getLast?_concat]
    intro h
    have h := Option.some.inj h
    rcases hd with hd | hd | hd | hd
    · rw [h, hS.branch.1] at hd; cases hd
    · exact hS.branch.2.1 (h ▸ hd)
    · rw [h, hS.branch.2.2] at hd; cases hd
    · rw [h] at hd
      simp only [Bool.or_eq_true, decide_eq_true_eq] at hd
      rcases hd with hd | hd
      · rw [hXb.1] at hd; cases hd
      · exact hXb.2 hd
  have hsp : ' ' ∉ mn.toList := fun h => by
    have := mnChar_not_space (hmn _ h); simp [isSpace] at this
  constructor
  · unfold parseLine
    rw [if_neg (by
      simp only [Bool.or_eq_true, beq_iff_eq, List.contains_iff_mem, ha, hm, or_false]; exact hbr)]
    rw [splitOn_src hS _ hsp ops ho]
    simp only [String.ofList_toList, hg, if_true, parseOperands_src hS ops ho]
  · have hob : S.argOpen ≠ ' ' := fun h => by
      have := hS.argOpen; rw [h] at this; simp [lineChar] at this
    obtain ⟨c, cs, hc⟩ : ∃ c cs, mn.toList = c :: cs := by
      cases h : mn.toList with
      | nil => exact absurd h hne
      | cons c cs => exact ⟨c, cs, rfl⟩
    have hcm := hmn c (by rw [hc]; exact List.mem_cons_self)
    have hdsp : AsmText.isSpace d = false := by
      rcases hd with hd | hd | hd | hd
      · exact asm_not_space_of_lastOk hXc (Or.inl hd)
      · exact asm_not_space_of_lastOk hXc (Or.inr (Or.inl hd))
      · exact asm_not_space_of_lastOk hXc (Or.inr (Or.inr hd))
      · cases hs : AsmText.isSpace d
        · rfl
        · simp only [AsmText.isSpace, Bool.or_eq_true, beq_iff_eq] at hs
          rcases hs with ((((rfl | rfl) | rfl) | rfl) | rfl) | rfl <;> simp [isAlpha] at hd
    have hstrip : AsmText.strip (mn.toList ++ showSrcOps S ops) = mn.toList ++ showSrcOps S ops :=
      asm_strip_of_ends (asm_not_space_of_lastOk hXc (Or.inr (Or.inr hcm))) hdsp
        ⟨cs ++ showSrcOps S ops, by rw [hc]; rfl⟩ ⟨l, hl⟩
    rw [AsmText.groupByWord_eq_splitOn _ _ hob _ (by rw [hstrip]; exact ha), hstrip,
      splitOn_src hS _ hsp ops ho]

end NQ.Text
