import NetqasmVerif.Lemmas.Msg
namespace NQ.Msg

structure WF (G : Tables) : Prop where
  layouts : ∀ M ∈ G.layouts, WFLayout M = true
  unique : ∀ M ∈ G.layouts, layoutOf G M.lay.cls = some M
  notVar : ∀ M ∈ G.layouts, M.lay.cls ≠ G.subroutineCls ∧ M.lay.cls ≠ G.retArrCls
  hdr : WFStruct G.retArrHeader = true
  hdr2 : G.retArrHeader.fields.length = 2
  opt : WFStruct G.optionalInt = true
  optShape : optShapeOk G = true
  tags : G.nullTag ≠ G.intTag
  clsNe : G.subroutineCls ≠ G.retArrCls
  host : dispatchOk G G.hostDispatch = true
  ret : dispatchOk G G.returnDispatch = true
  subDisp : lookup G.hostDispatch G.subroutineTy = some G.subroutineCls
  arrDisp : lookup G.returnDispatch G.retArrTy = some G.retArrCls

theorem wf_of (G : Tables) (h : WFTables G = true) : WF G := by
  simp only [WFTables, Bool.and_eq_true, List.all_eq_true, beq_iff_eq, bne_iff_ne, ne_eq,
    decide_eq_true_eq] at h
  obtain ⟨⟨⟨⟨⟨⟨⟨⟨⟨⟨⟨⟨⟨⟨h1, h2⟩, h3⟩, h4⟩, h5⟩, h6⟩, h7⟩, h8⟩, h9⟩, h10⟩, h11⟩, h12⟩, h13⟩, _⟩, _⟩ := h
  exact ⟨h1, h2, h3, h4, h5, h6, h7, h8, h9, h10, h11, h12, h13⟩

theorem lookup_of_dispatchOk {G : Tables} {d : List (Nat × String)} (h : dispatchOk G d = true)
    {t : Nat} {cls : String} (hm : (t, cls) ∈ d) : lookup d t = some cls := by
  simp only [dispatchOk, Bool.and_eq_true, List.all_eq_true] at h
  have := (h.1 (t, cls) hm).1
  simpa using this

theorem ty_of_dispatchOk {G : Tables} {d : List (Nat × String)} (h : dispatchOk G d = true)
    {t : Nat} {M : MLayout} (hu : layoutOf G M.lay.cls = some M)
    (hn : M.lay.cls ≠ G.subroutineCls ∧ M.lay.cls ≠ G.retArrCls)
    (hm : (t, M.lay.cls) ∈ d) : M.ty = t := by
  simp only [dispatchOk, Bool.and_eq_true, List.all_eq_true] at h
  have := (h.1 (t, M.lay.cls) hm).2
  simp only [beq_iff_eq, hn.1, hn.2, if_false, hu] at this
  exact this

theorem mem_of_lookup {d : List (Nat × String)} {t : Nat} {cls : String}
    (h : lookup d t = some cls) : (t, cls) ∈ d := by
  induction d with
  | nil => simp [lookup] at h
  | cons p r ih =>
    obtain ⟨k, c⟩ := p
    simp only [lookup] at h
    split at h
    · rename_i hk; simp at hk h; subst hk h; exact List.mem_cons_self
    · exact List.mem_cons_of_mem _ (ih h)

theorem eq_of_snd_eq_of_nodup : ∀ (d : List (Nat × String)) (p q : Nat × String),
    (d.map (·.2)).Nodup → p ∈ d → q ∈ d → p.2 = q.2 → p = q
  | [], _, _, _, hp, _, _ => by cases hp
  | a :: r, p, q, hn, hp, hq, he => by
    simp only [List.map_cons, List.nodup_cons, List.mem_map, not_exists, not_and] at hn
    rcases List.mem_cons.1 hp with rfl | hp' <;> rcases List.mem_cons.1 hq with rfl | hq'
    · rfl
    · exact absurd he.symm (hn.1 q hq')
    · exact absurd he (hn.1 p hp')
    · exact eq_of_snd_eq_of_nodup r p q hn.2 hp' hq' he

theorem two_of_length {α : Type} : ∀ (l : List α), l.length = 2 → ∃ a b, l = [a, b]
  | [a, b], _ => ⟨a, b, rfl⟩

/-- the type byte determines the class and the class determines the type byte -/
theorem dispatch_injective {G : Tables} {d : List (Nat × String)} (h : dispatchOk G d = true)
    {t t' : Nat} {cls : String} (h1 : lookup d t = some cls) (h2 : lookup d t' = some cls) :
    t = t' := by
  simp only [dispatchOk, Bool.and_eq_true, decide_eq_true_eq] at h
  have := eq_of_snd_eq_of_nodup d _ _ h.2 (mem_of_lookup h1) (mem_of_lookup h2) rfl
  exact (Prod.mk.inj this).1

/-- first byte of a serialized fixed message is its type byte -/
theorem packStruct_head (M : MLayout) (vs : List Int) (hwf : WFLayout M = true)
    (hin : allInWidth M.lay.fields ((M.ty : Int) :: vs) = true) :
    ∃ rest, packStruct M.lay ((M.ty : Int) :: vs) = M.ty :: rest := by
  simp only [WFLayout, Bool.and_eq_true] at hwf
  obtain ⟨hs, ht⟩ := hwf
  unfold typeFirst at ht
  split at ht
  · rename_i f fs hf
    simp only [Bool.and_eq_true, beq_iff_eq, Bool.not_eq_true', decide_eq_true_eq] at ht
    obtain ⟨⟨⟨⟨_, hst⟩, hw⟩, hsg⟩, hty⟩ := ht
    unfold WFStruct at hs
    split at hs
    · rename_i e he
      simp at hs
      rw [hf] at he
      obtain ⟨_, _, h3⟩ := sortedFrom_cons he
      obtain ⟨k, hk⟩ := packNat_dvd fs vs _ e h3
      have hmono : ∀ (gs : List SField) (lo e : Nat), sortedFrom lo gs = some e → lo ≤ e := by
        intro gs
        induction gs with
        | nil => intro lo e h; simp [sortedFrom] at h; omega
        | cons g gs ih =>
          intro lo e h
          obtain ⟨a, b, c⟩ := sortedFrom_cons h
          have := ih _ _ c; omega
      have he8 := hmono _ _ _ h3
      rw [hst, hw] at he8 hk
      have hsz : ∃ n, M.lay.size = n + 1 := ⟨M.lay.size - 1, by omega⟩
      obtain ⟨n, hn⟩ := hsz
      refine ⟨toBytes (packNat M.lay.fields ((M.ty : Int) :: vs) / 256) n, ?_⟩
      unfold packStruct
      rw [hn]
      simp only [toBytes]
      congr 1
      rw [hf]
      simp only [packNat, hk, hst]
      have henc : encVal f (M.ty : Int) = M.ty := by
        unfold encVal
        rw [hw]
        have : ((M.ty : Int) % ((2 ^ 8 : Nat) : Int)) = (M.ty : Int) :=
          Int.emod_eq_of_lt (by omega) (by norm_num; omega)
        rw [this]; simp
      rw [henc]
      norm_num
      omega
    · cases hs
  · cases ht

/-- **fixed messages**: every message class of the tables, every field valuation within
the declared widths, dispatched through table `d` -/
theorem fixed_roundtrip (G : Tables) (hG : WF G) (d : List (Nat × String))
    (hd : dispatchOk G d = true) (M : MLayout) (hM : M ∈ G.layouts)
    (hdisp : (M.ty, M.lay.cls) ∈ d) (vs : List Int)
    (hin : allInWidth M.lay.fields ((M.ty : Int) :: vs) = true) :
    ∃ bs, serialize G (.fixed M.lay.cls ((M.ty : Int) :: vs)) = some bs ∧
      deserializeWith G d bs = .ok (.fixed M.lay.cls ((M.ty : Int) :: vs)) := by
  have hu := hG.unique M hM
  have hn := hG.notVar M hM
  have hwf := hG.layouts M hM
  refine ⟨packStruct M.lay ((M.ty : Int) :: vs), by simp [serialize, hu], ?_⟩
  obtain ⟨rest, hr⟩ := packStruct_head M vs hwf hin
  have hrt := struct_roundtrip M.lay ((M.ty : Int) :: vs) []
    (by simp only [WFLayout, Bool.and_eq_true] at hwf; exact hwf.1) hin
  rw [List.append_nil] at hrt
  rw [hr] at hrt ⊢
  simp only [deserializeWith, lookup_of_dispatchOk hd hdisp]
  rw [if_neg (by simpa using hn.1), if_neg (by simpa using hn.2), hu]
  simp only [hrt]

/-! ### arrays -/

theorem packOpt_length (G : Tables) (v : Option Int) : (packOpt G v).length = G.optionalInt.size := by
  cases v <;> simp [packOpt, packStruct_length]

theorem packOpts_length (G : Tables) (vs : List (Option Int)) :
    (packOpts G vs).length = vs.length * G.optionalInt.size := by
  induction vs with
  | nil => simp [packOpts]
  | cons v vs ih => simp [packOpts, packOpt_length, ih]; ring

theorem optFields {G : Tables} (h : optShapeOk G = true) :
    ∃ ft fv, G.optionalInt.fields = [ft, fv] ∧ inWidth ft (G.nullTag : Int) = true ∧
      inWidth ft (G.intTag : Int) = true ∧ inWidth fv 0 = true := by
  unfold optShapeOk at h
  split at h
  · rename_i t v hf
    simp only [Bool.and_eq_true] at h
    exact ⟨t, v, hf, h.1.1, h.1.2, h.2⟩
  · cases h

theorem unpackOpts_packOpts (G : Tables) (hG : WF G) (fv : SField)
    (hfv : G.optionalInt.fields[1]? = some fv)
    (vs : List (Option Int)) (rest : List Nat)
    (hin : ∀ x, some x ∈ vs → inWidth fv x = true) :
    unpackOpts G vs.length (packOpts G vs ++ rest) = .ok vs := by
  obtain ⟨ft, fv', hf, hn, hi, h0⟩ := optFields hG.optShape
  rw [hf] at hfv
  simp at hfv; subst hfv
  induction vs with
  | nil => simp [unpackOpts]
  | cons v vs ih =>
    simp only [packOpts, List.length_cons, List.append_assoc, unpackOpts]
    have ih' := ih (fun x hx => hin x (List.mem_cons_of_mem _ hx))
    cases v with
    | none =>
      simp only [packOpt]
      rw [struct_roundtrip _ _ _ hG.opt (by rw [hf]; simp [allInWidth, hn, h0])]
      simp only [optValue, beq_self_eq_true, if_true]
      rw [List.drop_left' (packStruct_length _ _), ih']
    | some x =>
      simp only [packOpt]
      rw [struct_roundtrip _ _ _ hG.opt
        (by rw [hf]; simp [allInWidth, hi, hin x List.mem_cons_self])]
      have : ((G.intTag : Int) == (G.nullTag : Int)) = false := by
        simp; exact fun h => hG.tags (by omega)
      simp only [optValue, this, Bool.false_eq_true, if_false, beq_self_eq_true, if_true]
      rw [List.drop_left' (packStruct_length _ _), ih']

/-- **returned arrays**: any length the length field can hold, any pattern of undefined
entries, every defined value within the width of the value field -/
theorem array_roundtrip (G : Tables) (hG : WF G) (fa fl fv : SField)
    (hfa : G.retArrHeader.fields[0]? = some fa) (hfl : G.retArrHeader.fields[1]? = some fl)
    (hfv : G.optionalInt.fields[1]? = some fv)
    (addr : Int) (vs : List (Option Int))
    (ha : inWidth fa addr = true) (hl : inWidth fl (vs.length : Int) = true)
    (hin : ∀ x, some x ∈ vs → inWidth fv x = true) :
    ∃ bs, serialize G (.retArr addr vs) = some bs ∧
      deserializeReturn G bs = .ok (.retArr addr vs) := by
  refine ⟨_, rfl, ?_⟩
  have h2 := hG.hdr2
  obtain ⟨fa', fl', hf⟩ : ∃ a b, G.retArrHeader.fields = [a, b] := two_of_length _ h2
  rw [hf] at hfa hfl
  simp at hfa hfl; subst hfa hfl
  simp only [deserializeReturn, deserializeWith, hG.arrDisp]
  rw [if_neg (by simpa using fun h => hG.clsNe h.symm), if_pos (by simp)]
  simp only [deserializeRetArr]
  rw [struct_roundtrip _ _ _ hG.hdr (by rw [hf]; simp [allInWidth, ha, hl])]
  simp only [List.drop_left' (packStruct_length _ _), packOpts_length, Int.toNat_natCast]
  rw [if_neg (by omega), if_neg (by omega)]
  have := unpackOpts_packOpts G hG fv hfv vs [] hin
  rw [List.append_nil] at this
  rw [this]

theorem subroutine_roundtrip (G : Tables) (hG : WF G) (bs : List Nat) :
    ∃ raw, serialize G (.subroutine bs) = some raw ∧
      deserializeHost G raw = .ok (.subroutine bs) := by
  refine ⟨_, rfl, ?_⟩
  simp [deserializeHost, deserializeWith, hG.subDisp]

end NQ.Msg
