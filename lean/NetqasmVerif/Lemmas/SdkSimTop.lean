/-
Compiler correctness of the SDK builder model (C05), part 5: top-level operations (including the
creation of persistent register handles) and sequences of operations between two flushes.
-/
import NetqasmVerif.Lemmas.SdkSimEmit
set_option linter.unusedSimpArgs false
set_option linter.unusedVariables false
namespace NQ.Sdk

/-- what may stand at the top level of a host program: any `BodyOK` operation, `new_register()`,
`measure(store_array=False)` -/
def TopOK (op : Host) : Prop := BodyOK op ∨ (∃ v, op = .newReg v) ∨ (∃ g, op = .qop g .newReg)

theorem mHandlesOf_bodyOK : ∀ (op : Host) (nh : Nat), BodyOK op → mHandlesOf nh op = []
  | .skip, _, _ => rfl
  | .seq a b, nh, h => by simp [mHandlesOf, mHandlesOf_bodyOK a nh h.1, mHandlesOf_bodyOK b _ h.2]
  | .newArray _ _, _, _ => rfl
  | .newReg _, _, h => h.elim
  | .qop _ t, _, h => by cases t <;> simp [mHandlesOf] <;> exact absurd rfl h
  | .addF _ _ _, _, _ => rfl
  | .addR _ _ _, _, _ => rfl
  | .ifc _ _ _ _ body, nh, h => by simp [mHandlesOf, mHandlesOf_bodyOK body nh h]
  | .loop _ _ _ _ body, nh, h => by simp [mHandlesOf, mHandlesOf_bodyOK body _ h]
  | .loopBody _ _ _ _ body, nh, h => by simp [mHandlesOf, mHandlesOf_bodyOK body _ h]
  | .foreach _ _ body, nh, h => by simp [mHandlesOf, mHandlesOf_bodyOK body _ h]
  | .loopUntil _ body _ _ cl, nh, h => by
    simp [mHandlesOf, mHandlesOf_bodyOK body _ h.1, mHandlesOf_bodyOK cl _ h.2]
  | .tryUntil _ body, nh, h => by simp [mHandlesOf, mHandlesOf_bodyOK body nh h]
  | .epr _, _, h => h.elim

theorem Rel.weakenMH {H : List (Reg × Bool)} {L MH MH' : List Nat} {act mu : List Bool} {hs : HSt} {ts : St}
    (h : Rel H L MH act mu hs ts) (hm : ∀ x, x ∈ MH → x ∈ MH') : Rel H L MH' act mu hs ts :=
  ⟨h.arrs, h.trace, h.outs, h.regs, h.inj, h.lens, fun hh v r b hv hH hb => hm _ (h.mh hh v r b hv hH hb)⟩

/-- the commands of a measurement up to (not including) the placement of the outcome -/
theorem qop_head_sim {H : List (Reg × Bool)} {L MH : List Nat} {act mu : List Bool} {hs : HSt} {ts : St}
    {p : List PCmd} {n k : Nat} {g : List Nat}
    (hMk : ¬ Prot act mu (M k)) (hrel : Rel H L MH act mu hs ts) (hpl : Placed p n (qopHead g k)) :
    ∃ tsH, Runs p n (qopHead g k).length ts tsH ∧
      Rel H L MH act mu { hs with trace := hs.trace ++ ([Ev.qalloc, Ev.init] ++ gateEvs g ++
          [Ev.meas (hs.outcomes.headD 0), Ev.qfree]), outcomes := hs.outcomes.tail } tsH ∧
      tsH.regs (M k) = some (hs.outcomes.headD 0) := by
  have hQ0 : ¬ Prot act mu Q0 := by
    intro hp; rcases hp with hp | hp <;> simp [Q0] at hp
  unfold qopHead at hpl ⊢
  have pA := hpl.left.left
  have pG := hpl.left.right
  have pM := hpl.right
  let o := hs.outcomes.headD 0
  have r0 : Runs p n 1 ts (ts.setReg Q0 0) := runs_instr pA.head (by simp [exec])
  have r1 : Runs p (n + 1) 1 (ts.setReg Q0 0) ((ts.setReg Q0 0).emitEv .qalloc) :=
    runs_instr pA.tail.head (by simp [exec])
  have r2 : Runs p (n + 1 + 1) 1 ((ts.setReg Q0 0).emitEv .qalloc)
      (((ts.setReg Q0 0).emitEv .qalloc).emitEv .init) :=
    runs_instr pA.tail.tail.head (by simp [exec])
  let tsA := ((ts.setReg Q0 0).emitEv .qalloc).emitEv .init
  obtain ⟨tsG, rG, qG, tG, oG⟩ := gates_sim g k p (n + 3) tsA (by simpa using pG)
  let base := n + (([PCmd.instr .set [.reg Q0, .lit 0], PCmd.instr .qalloc [.reg Q0],
      PCmd.instr .init [.reg Q0]] : List PCmd) ++ gateCmds g).length
  have r3 : Runs p base 1 tsG (tsG.setReg Q0 0) := runs_instr pM.head (by simp [exec])
  let tsM : St := { ((tsG.setReg Q0 0).setReg (M k) o).emitEv (.meas o) with outcomes := tsG.outcomes.tail }
  have r4 : Runs p (base + 1) 1 (tsG.setReg Q0 0) tsM :=
    runs_instr pM.tail.head (by simp [exec, tsM, St.setReg, o, oG, tsA, St.emitEv, hrel.outs])
  have r5 : Runs p (base + 1 + 1) 1 tsM (tsM.emitEv .qfree) := runs_instr pM.tail.tail.head (by simp [exec])
  let tsH := tsM.emitEv .qfree
  have qH : QEq k ts tsH := by
    have q1 : QEq k ts tsA := (((QEq.refl k ts).setQ0 0).emitEv _).emitEv _
    have q2 : QEq k ts (tsG.setReg Q0 0) := (q1.trans qG).setQ0 0
    exact ⟨q2.arrs, q2.shmR, q2.shmA, fun x hx hx' => by
      show (((tsG.setReg Q0 0).setReg (M k) o)).regs x = ts.regs x
      rw [St.setReg_regs_ne _ _ hx']; exact q2.regs x hx hx'⟩
  refine ⟨tsH, ?_, ?_, ?_⟩
  · have r01 := runs_seq r0 r1
    have r012 := runs_seq' r01 r2 (by omega)
    have rG' := runs_seq' r012 rG (by omega)
    have r3' := runs_seq' rG' r3 (by simp [base]; omega)
    have r4' := runs_seq' r3' r4 (by simp [base]; omega)
    have r5' := runs_seq' r4' r5 (by simp [base]; omega)
    exact runs_cast r5' (by simp; omega)
  · refine ⟨?_, ?_, ?_, ?_, hrel.inj, hrel.lens, hrel.mh⟩
    · show tsH.arrs = hs.arrs
      rw [qH.arrs]; exact hrel.arrs
    · show (((tsG.trace) ++ [Ev.meas o]) ++ [Ev.qfree]) = hs.trace ++ ([Ev.qalloc, Ev.init] ++ gateEvs g ++ [Ev.meas o, Ev.qfree])
      rw [tG]
      show ((((ts.trace ++ [Ev.qalloc]) ++ [Ev.init]) ++ gateEvs g) ++ [Ev.meas o]) ++ [Ev.qfree] = _
      rw [hrel.trace]
      simp [List.append_assoc]
    · show tsG.outcomes.tail = hs.outcomes.tail
      rw [oG]; simp [tsA, St.emitEv, St.setReg, hrel.outs]
    · intro hh v hv
      obtain ⟨r, b, e1, e2, e3⟩ := hrel.regs hh v hv
      refine ⟨r, b, e1, ?_, e3⟩
      rw [qH.regs r (fun e => hQ0 (e ▸ e3)) (fun e => hMk (e ▸ e3))]; exact e2
  · show ((tsG.setReg Q0 0).setReg (M k) o).regs (M k) = some o
    simp

theorem sub_set_true (a : List Bool) (k : Nat) : Sub a (a.set k true) := Sub.set a k

/-- one top-level operation -/
theorem top_sim (op : Host) (fuel : Nat) (m m' : Mem) (cs : List PCmd) (htop : TopOK op)
    (h : emit m op = .ok (m', cs))
    (H : List (Reg × Bool)) (L MH : List Nat) (p : List PCmd) (n : Nat) (hs hs' : HSt) (ts : St)
    (hext : Ext m'.handles H) (hextL : ExtL m'.arrLens L) (hpl : Placed p n cs)
    (hrel : Rel H L MH m.active m.measUsed hs ts)
    (hh : hsem fuel m.handles.length m.arrLens.length op hs = some hs') :
    ∃ ts', Runs p n cs.length ts ts' ∧
      Rel H L (MH ++ mHandlesOf m.handles.length op) m'.active m'.measUsed hs' ts' := by
  rcases htop with hb | ⟨v, rfl⟩ | ⟨g, rfl⟩
  · obtain ⟨ts', hr, hrel'⟩ := emit_sim op fuel m m' cs hb h H L MH p n hs hs' ts hext hextL hpl hrel hh
    refine ⟨ts', hr, ?_⟩
    rw [emit_active op _ _ _ hb.completed h, ((emit_stat _ _ _ _ h).body hb).1, mHandlesOf_bodyOK op _ hb]
    simpa using hrel'
  · -- new_register
    simp only [emit] at h
    split at h
    · cases h
    · rename_i m1 i h1
      cases h
      have s1 := takeReg_spec h1
      have sm1 := takeReg_same h1
      cases fuel with
      | zero => simp [hsem] at hh
      | succ f =>
        simp [hsem] at hh; subst hh
        have hH : H[m.handles.length]? = some (R i, true) := by
          apply hext
          show (m1.handles ++ [(R i, true)])[m.handles.length]? = some (R i, true)
          rw [sm1.handles]; simp
        refine ⟨ts.setReg (R i) v, runs_instr hpl.head (by simp [exec]), ?_⟩
        show Rel H L (MH ++ mHandlesOf m.handles.length (.newReg v)) m1.active m1.measUsed _ _
        rw [s1.2.1, sm1.meas]
        exact hrel.bind hH (tmpIn_of_take h1).not_prot (prot_set_self s1.1)
          (fun x hx => hx.mono (Sub.set _ _)) v (fun x hx => by simp [hx]) (by intro hb; simp [R] at hb)
  · -- measure(store_array=False)
    simp only [emit] at h
    unfold emitQop at h
    simp only at h
    split at h
    · cases h
    · rename_i m1 k h1
      cases h
      obtain ⟨hk, rfl⟩ := firstUnusedMeas_spec h1
      have hMk : ¬ Prot m.active m.measUsed (M k) := by
        intro hp
        rcases hp with hp | hp
        · simp [M] at hp
        · have hl := getD_true_false_lt hk
          have h2' := hp.2
          simp [M, List.getD, List.getElem?_eq_getElem hl] at h2' hk
          rw [h2'] at hk; cases hk
      cases fuel with
      | zero => simp [hsem] at hh
      | succ f =>
        simp only [hsem] at hh
        cases hh
        have hH : H[m.handles.length]? = some (M k, true) := by
          apply hext
          simp [bindHandle]
        obtain ⟨tsH, hrun, hrelH, hreg⟩ := qop_head_sim (g := g) hMk hrel (by
          have : Placed p n (qopHead g k) := by unfold qopHead; exact hpl
          exact this)
        refine ⟨tsH, by unfold qopHead at hrun; exact hrun, ?_⟩
        have hprot : Prot m.active (m.measUsed.set k true) (M k) :=
          Or.inr ⟨rfl, getD_set_self (getD_true_false_lt hk) _ _⟩
        have := hrelH.bind (MH' := MH ++ mHandlesOf m.handles.length (.qop g .newReg)) hH hMk hprot
          (fun x hx => by
            rcases hx with hx | hx
            · exact Or.inl hx
            · exact Or.inr ⟨hx.1, active_mono_set hx.2⟩) (hs.outcomes.headD 0)
          (fun x hx => by simp [hx]) (fun _ => by simp [mHandlesOf])
        -- the register already holds the outcome
        have hsame : tsH.setReg (M k) (hs.outcomes.headD 0) = tsH := by
          cases tsH with
          | mk regs arrs shmRegs shmArrs trace outcomes =>
            simp only [St.setReg] at hreg ⊢
            congr 1
            funext x
            by_cases e : x = M k
            · subst e; simp [hreg]
            · simp [e]
        rw [hsame] at this
        exact this

/-- the operations between two flushes, compiled one after the other -/
def emitOps (m : Mem) : List Host → Except BuildError (Mem × List PCmd)
  | [] => .ok (m, [])
  | h :: hs =>
    match emit m h with
    | .error e => .error e
    | .ok (m1, cs) =>
      match emitOps m1 hs with
      | .error e => .error e
      | .ok (m2, cs2) => .ok (m2, cs ++ cs2)

theorem emitOps_tables : ∀ (ops : List Host) (m m' : Mem) (cs : List PCmd), emitOps m ops = .ok (m', cs) →
    (∃ t, m'.handles = m.handles ++ t) ∧ (∃ u, m'.arrLens = m.arrLens ++ u) ∧
    m'.arraysToReturn = m.arraysToReturn ++ segDecls m.arrLens.length ops
  | [], m, m', cs, h => by
    simp [emitOps] at h; obtain ⟨rfl, _⟩ := h
    exact ⟨⟨[], by simp⟩, ⟨[], by simp⟩, by simp [segDecls]⟩
  | op :: ops, m, m', cs, h => by
    simp only [emitOps] at h
    split at h
    · cases h
    · rename_i m1 c1 h1
      split at h
      · cases h
      · rename_i m2 c2 h2
        cases h
        have st := emit_stat _ _ _ _ h1
        obtain ⟨t, ht, _⟩ := st.handles
        obtain ⟨u, hu, hul⟩ := st.lens
        obtain ⟨⟨t2, ht2⟩, ⟨u2, hu2⟩, ha2⟩ := emitOps_tables ops m1 _ c2 h2
        refine ⟨⟨t ++ t2, by rw [ht2, ht]; simp⟩, ⟨u ++ u2, by rw [hu2, hu]; simp⟩, ?_⟩
        rw [ha2, st.aret, hu]
        simp [segDecls, hul]

theorem ops_sim : ∀ (ops : List Host) (fuel : Nat) (m m' : Mem) (cs : List PCmd),
    (∀ op ∈ ops, TopOK op) → emitOps m ops = .ok (m', cs) →
    ∀ (H : List (Reg × Bool)) (L MH : List Nat) (p : List PCmd) (n : Nat) (hs hs' : HSt) (ts : St) (nh' na' : Nat),
    Ext m'.handles H → ExtL m'.arrLens L → Placed p n cs →
    Rel H L MH m.active m.measUsed hs ts →
    runOps fuel m.handles.length m.arrLens.length ops hs = some (hs', nh', na') →
    ∃ ts', Runs p n cs.length ts ts' ∧
      Rel H L (MH ++ segMHandles m.handles.length ops) m'.active m'.measUsed hs' ts' ∧
      nh' = m'.handles.length ∧ na' = m'.arrLens.length
  | [], fuel, m, m', cs, _, h => by
    intro H L MH p n hs hs' ts nh' na' _ _ _ hrel hh
    simp [emitOps] at h; obtain ⟨rfl, rfl⟩ := h
    simp [runOps] at hh; obtain ⟨rfl, rfl, rfl⟩ := hh
    exact ⟨ts, Runs.refl _ _ _, by simpa [segMHandles] using hrel, rfl, rfl⟩
  | op :: ops, fuel, m, m', cs, htop, h => by
    intro H L MH p n hs hs' ts nh' na' hext hextL hpl hrel hh
    simp only [emitOps] at h
    split at h
    · cases h
    · rename_i m1 c1 h1
      split at h
      · cases h
      · rename_i m2 c2 h2
        cases h
        simp only [runOps] at hh
        split at hh
        · rename_i hs1 hh1
          have st := emit_stat _ _ _ _ h1
          obtain ⟨t, ht, htl⟩ := st.handles
          obtain ⟨u, hu, hul⟩ := st.lens
          obtain ⟨⟨t2, ht2⟩, ⟨u2, hu2⟩, _⟩ := emitOps_tables ops m1 _ c2 h2
          obtain ⟨ts1, hr1, hrel1⟩ := top_sim op fuel m m1 c1 (htop op (by simp)) h1 H L MH p n hs hs1 ts
            (by rw [ht2] at hext; exact hext.of_append) (by rw [hu2] at hextL; exact hextL.of_append)
            hpl.left hrel hh1
          have e1 : m.handles.length + hCount op = m1.handles.length := by rw [ht]; simp [htl]
          have e2 : m.arrLens.length + aCount op = m1.arrLens.length := by rw [hu]; simp [hul]
          rw [e1, e2] at hh
          obtain ⟨ts2, hr2, hrel2, en, ea⟩ := ops_sim ops fuel m1 _ c2 (fun o ho => htop o (by simp [ho])) h2
            H L _ p (n + c1.length) hs1 hs' ts1 nh' na' hext hextL hpl.right hrel1 hh
          refine ⟨ts2, runs_cast (runs_seq hr1 hr2) (by simp), ?_, en, ea⟩
          simpa [segMHandles, e1, List.append_assoc] using hrel2
        · cases hh


end NQ.Sdk
