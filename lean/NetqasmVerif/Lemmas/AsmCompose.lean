/-
C03, part 5: composition of the passes — the simulation theorem for `assembleProto`, the
structure theorem, and the read-back of built instructions.
-/
import NetqasmVerif.Lemmas.AsmSim2
import NetqasmVerif.Lemmas.Table
namespace NQ.Asm
open NQ

/-! ### registers named by a program -/

theorem currentRegisters_covers' {P : List PCmd} {r : Reg} (h : NamedIn P r) : r ∈ currentRegisters P := by
  obtain ⟨mn, args, ops, op, hm, ho, hr⟩ := h
  simp only [currentRegisters, List.mem_flatMap]
  exact ⟨_, hm, by simp only [cmdRegsWith, List.mem_flatMap]; exact ⟨op, ho, hr⟩⟩

theorem currentRegisters_makeArgs (P : List PCmd) :
    currentRegisters (makeArgsOperands P) = currentRegisters P := by
  induction P with
  | nil => rfl
  | cons y ys ih =>
    simp only [currentRegisters, makeArgsOperands, List.map_cons, List.flatMap_cons] at ih ⊢
    rw [ih]
    congr 1
    cases y with
    | label l => rfl
    | instr mn a o =>
      simp only [makeArgsCmd, cmdRegsWith, allOps, List.flatMap_append]
      have : List.flatMap opRegs (List.map POperand.lit a) = [] := by
        induction a with
        | nil => rfl
        | cons x xs ih => simp [List.flatMap_cons, opRegs, ih]
      rw [this]; rfl

/-! ### position maps compose -/

theorem tpos2_append_length (code R : List PCmd) (m : Nat) :
    tpos2 (code ++ R) (code.length + m) = (code.map len2).sum + tpos2 R m := by
  have e : (code ++ R).take (code.length + m) = code ++ R.take m := by
    rw [List.take_append, List.take_of_length_le (by omega)]
    congr 2; omega
  simp [tpos2, e]

theorem tpos2_mono (P : List PCmd) {a b : Nat} (h : a ≤ b) : tpos2 P a ≤ tpos2 P b := by
  induction P generalizing a b with
  | nil => simp [tpos2]
  | cons y ys ih =>
    cases a with
    | zero => simp [tpos2]
    | succ a' =>
      cases b with
      | zero => omega
      | succ b' =>
        rw [tpos2_cons_succ, tpos2_cons_succ]
        have := ih (a := a') (b := b') (by omega)
        omega

theorem len2_setCmds (sets : List (Reg × Int)) : ((sets.map setCmd).map len2).sum = sets.length := by
  induction sets with
  | nil => rfl
  | cons x xs ih =>
    show len2 (setCmd x) + ((xs.map setCmd).map len2).sum = xs.length + 1
    rw [ih]; simp [setCmd, len2]; omega

theorem len2_code {c : RcCfg} {x : PCmd} {code : List PCmd} (h : rcCmd c x = .ok code)
    (hx : ∀ mn args ops, x = .instr mn args ops → args = []) :
    (code.map len2).sum = lenA c.exc x := by
  cases x with
  | label l => simp only [rcCmd, Except.ok.injEq] at h; subst h; simp [len2, lenA]
  | instr mn args ops =>
    have := hx mn args ops rfl
    subst this
    obtain ⟨sets, ops', tmp', hro, rfl⟩ := rcCmd_instr_spec h
    have hl := (rcOps_spec hro).2.2
    simp only [List.map_append, List.sum_append, len2_setCmds, List.map_cons, List.map_nil, len2, lenA,
      allOps, List.nil_append, hl]
    simp

theorem tpos_compose {c : RcCfg} {P P1 : List PCmd} (hna : NoArgs P) (h1 : rcAll c P = .ok P1) (i : Nat) :
    tpos2 P1 (tpos1 c.exc P i) = tpos c.exc P i := by
  induction P generalizing i P1 with
  | nil =>
    simp only [rcAll, Except.ok.injEq] at h1; subst h1
    simp [tpos1, tpos2, tpos]
  | cons y ys ih =>
    obtain ⟨cy, R, hc, h2, rfl⟩ := rcAll_cons h1
    cases i with
    | zero => simp [tpos1, tpos2, tpos]
    | succ k =>
      rw [tpos1_cons_succ, tpos_cons_succ, ← rcCmd_length hc, tpos2_append_length,
        ih (fun mn a o hm => hna mn a o (List.mem_cons_of_mem _ hm)) h2,
        len2_code hc (fun mn a o e => hna mn a o (by simp [e]))]

theorem lenA_makeArgs (exc : List (String × Nat)) (x : PCmd) : lenA exc (makeArgsCmd x) = lenA exc x := by
  cases x with
  | label l => rfl
  | instr mn a o => simp [makeArgsCmd, lenA, allOps]

theorem tpos_makeArgs (exc : List (String × Nat)) (P : List PCmd) (i : Nat) :
    tpos exc (makeArgsOperands P) i = tpos exc P i := by
  simp only [tpos, makeArgsOperands, ← List.map_take, List.map_map]
  congr 1
  apply List.map_congr_left
  intro x _; exact lenA_makeArgs exc x

/-! ### multi-step versions -/

theorem sim2_steps {M : Type} {mc : Machine M} {P1 P2 : List PCmd} (hlt : LabelTargets mc P1)
    (h2 : assignBranchLabels P1 = .ok P2) {a b : State M × Nat} (h : Steps mc P1 a b) :
    Steps mc P2 (a.1, tpos2 P1 a.2) (b.1, tpos2 P1 b.2) := by
  induction h with
  | refl c => exact .refl _
  | step hs _ ih => exact Steps.trans (sim2_step hlt h2 hs) ih

/-- what `assembleProto` consists of -/
theorem assembleProto_inv {exc : List (String × Nat)} {n : Nat} {P P2 : List PCmd} {reserved : List Reg}
    (h : assembleProto exc n P reserved = .ok P2) :
    ∃ P1, rcAll ⟨exc, n, currentRegisters (makeArgsOperands P) ++ reserved⟩ (makeArgsOperands P) = .ok P1 ∧
      assignBranchLabels P1 = .ok P2 := by
  simp only [assembleProto, replaceConstants] at h
  cases h1 : rcAll ⟨exc, n, currentRegisters (makeArgsOperands P) ++ reserved⟩ (makeArgsOperands P) with
  | error e => simp [h1] at h
  | ok P1 => simp only [h1] at h; exact ⟨P1, rfl, h⟩

/-- the scratch set of a program: the `R i`, `i < n`, that the program does not name -/
abbrev AgreeOutsideScratch {M : Type} (n : Nat) (P : List PCmd) (s t : State M) (reserved : List Reg := []) :
    Prop :=
  Agree n (currentRegisters P ++ reserved) s t

section
variable {M : Type} {mc : Machine M} {exc : List (String × Nat)} {n : Nat} {P P2 : List PCmd} {reserved : List Reg}

theorem sim_step (hs : SetOk mc) (hcov : ExcCovers mc exc) (hlt : LabelTargets mc P)
    (hA : assembleProto exc n P reserved = .ok P2) {s s' t : State M} {i i' : Nat}
    (hstep : step mc P s i = .next s' i') (hag : AgreeOutsideScratch n P s t reserved) :
    ∃ t', Steps mc P2 (t, tpos exc P i) (t', tpos exc P i') ∧ AgreeOutsideScratch n P s' t' reserved := by
  obtain ⟨P1, h1, h2⟩ := assembleProto_inv hA
  have hna := noArgs_makeArgs P
  have hlt0 := labelTargets_makeArgs hlt
  have hstep0 : step mc (makeArgsOperands P) s i = .next s' i' := by rw [step_makeArgs]; exact hstep
  have hag0 : Agree n (currentRegisters (makeArgsOperands P) ++ reserved) s t := by
    rw [currentRegisters_makeArgs]; exact hag
  obtain ⟨t', hst, hag'⟩ := sim1_step (c := ⟨exc, n, currentRegisters (makeArgsOperands P) ++ reserved⟩) hs hcov hna hlt0
    (fun r hr => List.mem_append_left _ (currentRegisters_covers' hr)) h1 hstep0 hag0
  have hlt1 := labelTargets_rcAll hs hna hlt0 h1
  have := sim2_steps hlt1 h2 hst
  simp only [tpos_compose hna h1, tpos_makeArgs] at this
  refine ⟨t', this, ?_⟩
  rw [currentRegisters_makeArgs] at hag'; exact hag'

theorem sim_run (hs : SetOk mc) (hcov : ExcCovers mc exc) (hlt : LabelTargets mc P)
    (hA : assembleProto exc n P reserved = .ok P2) {a b : State M × Nat} (h : Steps mc P a b) :
    ∀ t, AgreeOutsideScratch n P a.1 t reserved →
      ∃ t', Steps mc P2 (t, tpos exc P a.2) (t', tpos exc P b.2) ∧ AgreeOutsideScratch n P b.1 t' reserved := by
  induction h with
  | refl c => intro t hag; exact ⟨t, .refl _, hag⟩
  | step hst _ ih =>
    intro t hag
    obtain ⟨t1, h1, hag1⟩ := sim_step hs hcov hlt hA hst hag
    obtain ⟨t2, h2, hag2⟩ := ih t1 hag1
    exact ⟨t2, Steps.trans h1 h2, hag2⟩

theorem sim_fault (hs : SetOk mc) (hcov : ExcCovers mc exc) (hlt : LabelTargets mc P)
    (hA : assembleProto exc n P reserved = .ok P2) {s t : State M} {i k : Nat}
    (hf : step mc P s i = .fault k) (hag : AgreeOutsideScratch n P s t reserved) :
    ∃ t' j, Steps mc P2 (t, tpos exc P i) (t', j) ∧ step mc P2 t' j = .fault k ∧
      tpos exc P i ≤ j ∧ j < tpos exc P (i + 1) ∧ AgreeOutsideScratch n P s t' reserved := by
  obtain ⟨P1, h1, h2⟩ := assembleProto_inv hA
  have hna := noArgs_makeArgs P
  have hlt0 := labelTargets_makeArgs hlt
  have hf0 : step mc (makeArgsOperands P) s i = .fault k := by rw [step_makeArgs]; exact hf
  have hag0 : Agree n (currentRegisters (makeArgsOperands P) ++ reserved) s t := by
    rw [currentRegisters_makeArgs]; exact hag
  obtain ⟨t', j, hst, hfj, hlo, hhi, hag'⟩ := sim1_fault (c := ⟨exc, n, currentRegisters (makeArgsOperands P) ++ reserved⟩)
    hs hcov hna (fun r hr => List.mem_append_left _ (currentRegisters_covers' hr)) h1 hf0 hag0
  have hlt1 := labelTargets_rcAll hs hna hlt0 h1
  have hst2 := sim2_steps hlt1 h2 hst
  simp only [tpos_compose hna h1, tpos_makeArgs] at hst2
  have hf2 := sim2_fault h2 hfj
  obtain ⟨mn, args, ops, rs, vals, hg, _, _, _⟩ := step_fault_inv hfj
  have hsucc := tpos2_succ hg
  simp only [len2] at hsucc
  have hm1 := tpos2_mono P1 hlo
  have hm2 := tpos2_mono P1 (show j + 1 ≤ _ from hhi)
  simp only [tpos_compose hna h1, tpos_makeArgs] at hm1 hm2
  refine ⟨t', tpos2 P1 j, hst2, hf2, hm1, by omega, ?_⟩
  rw [currentRegisters_makeArgs] at hag'; exact hag'

theorem sim_halt (hA : assembleProto exc n P reserved = .ok P2) {s t : State M} {i : Nat}
    (hh : step mc P s i = .halt) : step mc P2 t (tpos exc P i) = .halt := by
  obtain ⟨P1, h1, h2⟩ := assembleProto_inv hA
  have hna := noArgs_makeArgs P
  have hh0 : step mc (makeArgsOperands P) s i = .halt := by rw [step_makeArgs]; exact hh
  have a := sim1_halt (c := ⟨exc, n, currentRegisters (makeArgsOperands P) ++ reserved⟩) (t := t) h1 hh0
  have b := sim2_halt h2 a
  simp only [tpos_compose hna h1, tpos_makeArgs] at b
  exact b

end

end NQ.Asm
