import NetqasmVerif.Model.AsmText
import NetqasmVerif.Lemmas.AsmBuild
namespace NQ.Asm

theorem forall2_of_map {α β γ : Type} {R : β → γ → Prop} {f : α → β} {l : List α} {bs : List γ}
    (h : Forall2 R (l.map f) bs) : Forall2 (fun a b => R (f a) b) l bs := by
  induction l generalizing bs with
  | nil => cases h; exact .nil
  | cons x xs ih =>
    cases h with
    | cons h1 h2 => exact .cons h1 (ih h2)

theorem instrsOf_makeArgs (P : List PCmd) : instrsOf (makeArgsOperands P) = (instrsOf P).map makeArgsCmd := by
  induction P with
  | nil => rfl
  | cons y ys ih =>
    simp only [instrsOf, makeArgsOperands] at ih
    cases y <;> simp [instrsOf, makeArgsOperands, makeArgsCmd, List.filter_cons, ih]

/-- bounded execution, used only to exhibit concrete runs -/
def runN {M : Type} (mc : Machine M) (P : List PCmd) : Nat → State M × Nat → Option (State M × Nat)
  | 0, c => some c
  | n + 1, c =>
    match step mc P c.1 c.2 with
    | .next s' pc' => runN mc P n (s', pc')
    | _ => none

theorem steps_of_runN {M : Type} {mc : Machine M} {P : List PCmd} {n : Nat} {c c' : State M × Nat}
    (h : runN mc P n c = some c') : Steps mc P c c' := by
  induction n generalizing c with
  | zero => simp only [runN, Option.some.injEq] at h; subst h; exact .refl _
  | succ k ih =>
    simp only [runN] at h
    cases hs : step mc P c.1 c.2 with
    | next s' pc' =>
      simp only [hs] at h
      obtain ⟨s, pc⟩ := c
      exact .step hs (ih h)
    | fault k' => simp [hs] at h
    | halt => simp [hs] at h
    | stuck => simp [hs] at h

end NQ.Asm

namespace NQ.AsmText

/-! ### one macro pass of the fixed code = token-wise replacement of the uses of that key -/

/-- what one pass does to a token -/
def render1 (key val : List Char) : Tok → List Char
  | .text c => [c]
  | .use name => if name = key then val else '$' :: name

theorem reSubAux_drop (key val : List Char) (n : Nat) (s : List Char) :
    reSubAux key val n s = reSubAux key val 0 (s.drop n) := by
  induction s generalizing n with
  | nil => cases n <;> simp [reSubAux]
  | cons c rest ih =>
    cases n with
    | zero => simp
    | succ k => simp only [reSubAux, List.drop_succ_cons]; exact ih k

theorem tokenizeAux_drop (n : Nat) (s : List Char) : tokenizeAux n s = tokenizeAux 0 (s.drop n) := by
  induction s generalizing n with
  | nil => cases n <;> simp [tokenizeAux]
  | cons c rest ih =>
    cases n with
    | zero => simp
    | succ k => simp only [tokenizeAux, List.drop_succ_cons]; exact ih k

theorem isIdent_dollar : isIdent '$' = false := by decide

theorem matchAt_of_ne (key : List Char) (c : Char) (rest : List Char) (h : c ≠ '$') :
    matchAt key (c :: rest) = false := by
  simp [matchAt, h]

theorem drop_takeWhile_length (p : Char → Bool) (l : List Char) :
    l.drop (l.takeWhile p).length = l.dropWhile p := by
  induction l with
  | nil => rfl
  | cons c cs ih =>
    by_cases h : p c
    · simp [List.takeWhile_cons, List.dropWhile_cons, h, ih]
    · simp [List.takeWhile_cons, List.dropWhile_cons, h]

theorem takeWhile_append_dropWhile' (p : Char → Bool) (l : List Char) :
    l.takeWhile p ++ l.dropWhile p = l := by
  induction l with
  | nil => rfl
  | cons c cs ih =>
    by_cases h : p c
    · simp [List.takeWhile_cons, List.dropWhile_cons, h, ih]
    · simp [List.takeWhile_cons, List.dropWhile_cons, h]

theorem takeWhile_all (p : Char → Bool) (l : List Char) : ∀ c ∈ l.takeWhile p, p c = true := by
  induction l with
  | nil => simp
  | cons c cs ih =>
    by_cases h : p c
    · simp only [List.takeWhile_cons, h, if_true, List.mem_cons]
      intro d hd; rcases hd with rfl | hd
      · exact h
      · exact ih d hd
    · simp [List.takeWhile_cons, h]

theorem dropWhile_head (p : Char → Bool) (l : List Char) :
    match l.dropWhile p with
    | [] => True
    | d :: _ => p d = false := by
  induction l with
  | nil => simp
  | cons c cs ih =>
    by_cases h : p c
    · simpa [List.dropWhile_cons, h] using ih
    · simp [List.dropWhile_cons, h]

theorem takeWhile_prefix (p : Char → Bool) (a b : List Char) (ha : ∀ c ∈ a, p c = true)
    (hb : match b with | [] => True | d :: _ => p d = false) : (a ++ b).takeWhile p = a := by
  induction a with
  | nil =>
    cases b with
    | nil => rfl
    | cons d ds => simp only [List.nil_append, List.takeWhile_cons]; simp at hb; simp [hb]
  | cons c cs ih =>
    have hc := ha c (by simp)
    simp only [List.cons_append, List.takeWhile_cons, hc, if_true]
    rw [ih (fun d hd => ha d (by simp [hd]))]

/-- the regular expression matches at a `$` exactly when the macro use there is named `key` -/
theorem matchAt_iff (key rest : List Char) (hk : ∀ c ∈ key, isIdent c = true) :
    matchAt key ('$' :: rest) = true ↔ rest.takeWhile isIdent = key := by
  constructor
  · intro h
    simp only [matchAt, beq_self_eq_true, Bool.true_and, Bool.and_eq_true] at h
    obtain ⟨hp, hn⟩ := h
    obtain ⟨t, rfl⟩ := List.isPrefixOf_iff_prefix.1 hp
    apply takeWhile_prefix _ _ _ hk
    simp only [List.drop_left] at hn
    cases t with
    | nil => trivial
    | cons d ds => simpa using hn
  · intro h
    have hsplit := takeWhile_append_dropWhile' isIdent rest
    rw [h] at hsplit
    simp only [matchAt, beq_self_eq_true, Bool.true_and, Bool.and_eq_true]
    refine ⟨List.isPrefixOf_iff_prefix.2 ⟨_, hsplit⟩, ?_⟩
    have hd := dropWhile_head isIdent rest
    rw [← hsplit, List.drop_left]
    cases hdw : rest.dropWhile isIdent with
    | nil => rfl
    | cons d ds => rw [hdw] at hd; simp [hd]

theorem reSub_ident_prefix (key val name tail : List Char) (hn : ∀ c ∈ name, isIdent c = true) :
    reSubAux key val 0 (name ++ tail) = name ++ reSubAux key val 0 tail := by
  induction name with
  | nil => rfl
  | cons c cs ih =>
    have hc : c ≠ '$' := by
      intro e; have := hn c (by simp); rw [e, isIdent_dollar] at this; cases this
    simp only [List.cons_append, reSubAux, matchAt_of_ne key c _ hc, Bool.false_eq_true, if_false]
    rw [ih (fun d hd => hn d (by simp [hd]))]

/-- **one pass of the fixed `_apply_macros`** replaces exactly the macro uses named `key`
(maximal-munch tokens `$name`) and nothing else -/
theorem reSub_tokenwise (key val : List Char) (hk : ∀ c ∈ key, isIdent c = true) (s : List Char) :
    reSub key val s = (tokenize s).flatMap (render1 key val) := by
  unfold reSub tokenize
  generalize hn : s.length = n
  induction n using Nat.strongRecOn generalizing s with
  | _ n ih =>
    cases s with
    | nil => rfl
    | cons c rest =>
      by_cases hc : c = '$'
      · subst hc
        have hsplit := takeWhile_append_dropWhile' isIdent rest
        have hlen : (rest.dropWhile isIdent).length < n := by
          have : (rest.takeWhile isIdent ++ rest.dropWhile isIdent).length = rest.length := by rw [hsplit]
          simp only [List.length_append] at this
          simp only [List.length_cons] at hn
          omega
        have ihT := ih _ hlen (rest.dropWhile isIdent) rfl
        simp only [tokenizeAux, if_true, List.flatMap_cons, render1]
        rw [tokenizeAux_drop, drop_takeWhile_length, ← ihT]
        by_cases hname : rest.takeWhile isIdent = key
        · have hm := (matchAt_iff key rest hk).2 hname
          simp only [reSubAux, hm, if_true, hname]
          rw [reSubAux_drop, ← hname, drop_takeWhile_length]
        · have hm : matchAt key ('$' :: rest) = false := by
            cases h : matchAt key ('$' :: rest) with
            | false => rfl
            | true => exact absurd ((matchAt_iff key rest hk).1 h) hname
          simp only [reSubAux, hm, Bool.false_eq_true, if_false, hname]
          conv => lhs; rw [← hsplit]
          rw [reSub_ident_prefix key val _ _ (takeWhile_all isIdent rest)]
          simp
      · have hlen : rest.length < n := by simp only [List.length_cons] at hn; omega
        have ihT := ih _ hlen rest rfl
        simp only [reSubAux, matchAt_of_ne key c rest hc, Bool.false_eq_true, if_false, tokenizeAux, hc,
          List.flatMap_cons, render1, ihT]
        simp

end NQ.AsmText
