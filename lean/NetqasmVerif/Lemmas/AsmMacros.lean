import NetqasmVerif.Model.AsmText
import NetqasmVerif.Lemmas.AsmBuild
namespace NQ.Asm

theorem forall2_of_map {α β γ : Type} {R : β → γ → Prop} {f : α → β} {l : List α} {bs : List γ}
    (h : Forall2 R (l.map f) bs) : Forall2 (fun a b => R (f a) b) l bs := by
  induction l generalizing bs with
  | nil => cases h; exact .nil
  | cons x xs ih =>
    cases h with
    | cons h1 h2 => exact .cons h1 (ih h2)

theorem instrsOf_makeArgs (P : List PCmd) : instrsOf (makeArgsOperands P) = (instrsOf P).map makeArgsCmd := by
  induction P with
  | nil => rfl
  | cons y ys ih =>
    simp only [instrsOf, makeArgsOperands] at ih
    cases y <;> simp [instrsOf, makeArgsOperands, makeArgsCmd, List.filter_cons, ih]

/-- bounded execution, used only to exhibit concrete runs -/
def runN {M : Type} (mc : Machine M) (P : List PCmd) : Nat → State M × Nat → Option (State M × Nat)
  | 0, c => some c
  | n + 1, c =>
    match step mc P c.1 c.2 with
    | .next s' pc' => runN mc P n (s', pc')
    | _ => none

theorem steps_of_runN {M : Type} {mc : Machine M} {P : List PCmd} {n : Nat} {c c' : State M × Nat}
    (h : runN mc P n c = some c') : Steps mc P c c' := by
  induction n generalizing c with
  | zero => simp only [runN, Option.some.injEq] at h; subst h; exact .refl _
  | succ k ih =>
    simp only [runN] at h
    cases hs : step mc P c.1 c.2 with
    | next s' pc' =>
      simp only [hs] at h
      obtain ⟨s, pc⟩ := c
      exact .step hs (ih h)
    | fault k' => simp [hs] at h
    | halt => simp [hs] at h
    | stuck => simp [hs] at h

end NQ.Asm
