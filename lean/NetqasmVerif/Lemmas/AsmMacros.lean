import NetqasmVerif.Model.AsmText
import NetqasmVerif.Lemmas.AsmBuild
namespace NQ.Asm

theorem forall2_of_map {α β γ : Type} {R : β → γ → Prop} {f : α → β} {l : List α} {bs : List γ}
    (h : Forall2 R (l.map f) bs) : Forall2 (fun a b => R (f a) b) l bs := by
  induction l generalizing bs with
  | nil => cases h; exact .nil
  | cons x xs ih =>
    cases h with
    | cons h1 h2 => exact .cons h1 (ih h2)

theorem instrsOf_makeArgs (P : List PCmd) : instrsOf (makeArgsOperands P) = (instrsOf P).map makeArgsCmd := by
  induction P with
  | nil => rfl
  | cons y ys ih =>
    simp only [instrsOf, makeArgsOperands] at ih
    cases y <;> simp [instrsOf, makeArgsOperands, makeArgsCmd, List.filter_cons, ih]

/-- bounded execution, used only to exhibit concrete runs -/
def runN {M : Type} (mc : Machine M) (P : List PCmd) : Nat → State M × Nat → Option (State M × Nat)
  | 0, c => some c
  | n + 1, c =>
    match step mc P c.1 c.2 with
    | .next s' pc' => runN mc P n (s', pc')
    | _ => none

theorem steps_of_runN {M : Type} {mc : Machine M} {P : List PCmd} {n : Nat} {c c' : State M × Nat}
    (h : runN mc P n c = some c') : Steps mc P c c' := by
  induction n generalizing c with
  | zero => simp only [runN, Option.some.injEq] at h; subst h; exact .refl _
  | succ k ih =>
    simp only [runN] at h
    cases hs : step mc P c.1 c.2 with
    | next s' pc' =>
      simp only [hs] at h
      obtain ⟨s, pc⟩ := c
      exact .step hs (ih h)
    | fault k' => simp [hs] at h
    | halt => simp [hs] at h
    | stuck => simp [hs] at h

end NQ.Asm

namespace NQ.AsmText

/-! ### one macro pass of the fixed code = token-wise replacement of the uses of that key -/

/-- what one pass does to a token -/
def render1 (key val : List Char) : Tok → List Char
  | .text c => [c]
  | .use name => if name = key then val else '$' :: name

theorem reSubAux_drop (key val : List Char) (n : Nat) (s : List Char) :
    reSubAux key val n s = reSubAux key val 0 (s.drop n) := by
  induction s generalizing n with
  | nil => cases n <;> simp [reSubAux]
  | cons c rest ih =>
    cases n with
    | zero => simp
    | succ k => simp only [reSubAux, List.drop_succ_cons]; exact ih k

theorem tokenizeAux_drop (n : Nat) (s : List Char) : tokenizeAux n s = tokenizeAux 0 (s.drop n) := by
  induction s generalizing n with
  | nil => cases n <;> simp [tokenizeAux]
  | cons c rest ih =>
    cases n with
    | zero => simp
    | succ k => simp only [tokenizeAux, List.drop_succ_cons]; exact ih k

theorem isIdent_dollar : isIdent '$' = false := by decide

theorem matchAt_of_ne (key : List Char) (c : Char) (rest : List Char) (h : c ≠ '$') :
    matchAt key (c :: rest) = false := by
  simp [matchAt, h]

theorem drop_takeWhile_length (p : Char → Bool) (l : List Char) :
    l.drop (l.takeWhile p).length = l.dropWhile p := by
  induction l with
  | nil => rfl
  | cons c cs ih =>
    by_cases h : p c
    · simp [List.takeWhile_cons, List.dropWhile_cons, h, ih]
    · simp [List.takeWhile_cons, List.dropWhile_cons, h]

theorem takeWhile_append_dropWhile' (p : Char → Bool) (l : List Char) :
    l.takeWhile p ++ l.dropWhile p = l := by
  induction l with
  | nil => rfl
  | cons c cs ih =>
    by_cases h : p c
    · simp [List.takeWhile_cons, List.dropWhile_cons, h, ih]
    · simp [List.takeWhile_cons, List.dropWhile_cons, h]

theorem takeWhile_all (p : Char → Bool) (l : List Char) : ∀ c ∈ l.takeWhile p, p c = true := by
  induction l with
  | nil => simp
  | cons c cs ih =>
    by_cases h : p c
    · simp only [List.takeWhile_cons, h, if_true, List.mem_cons]
      intro d hd; rcases hd with rfl | hd
      · exact h
      · exact ih d hd
    · simp [List.takeWhile_cons, h]

theorem dropWhile_head (p : Char → Bool) (l : List Char) :
    match l.dropWhile p with
    | [] => True
    | d :: _ => p d = false := by
  induction l with
  | nil => simp
  | cons c cs ih =>
    by_cases h : p c
    · simpa [List.dropWhile_cons, h] using ih
    · simp [List.dropWhile_cons, h]

theorem takeWhile_prefix (p : Char → Bool) (a b : List Char) (ha : ∀ c ∈ a, p c = true)
    (hb : match b with | [] => True | d :: _ => p d = false) : (a ++ b).takeWhile p = a := by
  induction a with
  | nil =>
    cases b with
    | nil => rfl
    | cons d ds => simp only [List.nil_append, List.takeWhile_cons]; simp at hb; simp [hb]
  | cons c cs ih =>
    have hc := ha c (by simp)
    simp only [List.cons_append, List.takeWhile_cons, hc, if_true]
    rw [ih (fun d hd => ha d (by simp [hd]))]

/-- the regular expression matches at a `$` exactly when the macro use there is named `key` -/
theorem matchAt_iff (key rest : List Char) (hk : ∀ c ∈ key, isIdent c = true) :
    matchAt key ('$' :: rest) = true ↔ rest.takeWhile isIdent = key := by
  constructor
  · intro h
    simp only [matchAt, beq_self_eq_true, Bool.true_and, Bool.and_eq_true] at h
    obtain ⟨hp, hn⟩ := h
    obtain ⟨t, rfl⟩ := List.isPrefixOf_iff_prefix.1 hp
    apply takeWhile_prefix _ _ _ hk
    simp only [List.drop_left] at hn
    cases t with
    | nil => trivial
    | cons d ds => simpa using hn
  · intro h
    have hsplit := takeWhile_append_dropWhile' isIdent rest
    rw [h] at hsplit
    simp only [matchAt, beq_self_eq_true, Bool.true_and, Bool.and_eq_true]
    refine ⟨List.isPrefixOf_iff_prefix.2 ⟨_, hsplit⟩, ?_⟩
    have hd := dropWhile_head isIdent rest
    rw [← hsplit, List.drop_left]
    cases hdw : rest.dropWhile isIdent with
    | nil => rfl
    | cons d ds => rw [hdw] at hd; simp [hd]

theorem reSub_ident_prefix (key val name tail : List Char) (hn : ∀ c ∈ name, isIdent c = true) :
    reSubAux key val 0 (name ++ tail) = name ++ reSubAux key val 0 tail := by
  induction name with
  | nil => rfl
  | cons c cs ih =>
    have hc : c ≠ '$' := by
      intro e; have := hn c (by simp); rw [e, isIdent_dollar] at this; cases this
    simp only [List.cons_append, reSubAux, matchAt_of_ne key c _ hc, Bool.false_eq_true, if_false]
    rw [ih (fun d hd => hn d (by simp [hd]))]

/-- **one pass of the fixed `_apply_macros`** replaces exactly the macro uses named `key`
(maximal-munch tokens `$name`) and nothing else -/
theorem reSub_tokenwise (key val : List Char) (hk : ∀ c ∈ key, isIdent c = true) (s : List Char) :
    reSub key val s = (tokenize s).flatMap (render1 key val) := by
  unfold reSub tokenize
  generalize hn : s.length = n
  induction n using Nat.strongRecOn generalizing s with
  | _ n ih =>
    cases s with
    | nil => rfl
    | cons c rest =>
      by_cases hc : c = '$'
      · subst hc
        have hsplit := takeWhile_append_dropWhile' isIdent rest
        have hlen : (rest.dropWhile isIdent).length < n := by
          have : (rest.takeWhile isIdent ++ rest.dropWhile isIdent).length = rest.length := by rw [hsplit]
          simp only [List.length_append] at this
          simp only [List.length_cons] at hn
          omega
        have ihT := ih _ hlen (rest.dropWhile isIdent) rfl
        simp only [tokenizeAux, if_true, List.flatMap_cons, render1]
        rw [tokenizeAux_drop, drop_takeWhile_length, ← ihT]
        by_cases hname : rest.takeWhile isIdent = key
        · have hm := (matchAt_iff key rest hk).2 hname
          simp only [reSubAux, hm, if_true, hname]
          rw [reSubAux_drop, ← hname, drop_takeWhile_length]
        · have hm : matchAt key ('$' :: rest) = false := by
            cases h : matchAt key ('$' :: rest) with
            | false => rfl
            | true => exact absurd ((matchAt_iff key rest hk).1 h) hname
          simp only [reSubAux, hm, Bool.false_eq_true, if_false, hname]
          conv => lhs; rw [← hsplit]
          rw [reSub_ident_prefix key val _ _ (takeWhile_all isIdent rest)]
          simp
      · have hlen : rest.length < n := by simp only [List.length_cons] at hn; omega
        have ihT := ih _ hlen rest rfl
        simp only [reSubAux, matchAt_of_ne key c rest hc, Bool.false_eq_true, if_false, tokenizeAux, hc,
          List.flatMap_cons, render1, ihT]
        simp

/-! ### a whole macro list: sequential passes = simultaneous token-wise replacement -/

/-- what one pass does to a token, as tokens -/
def retok (key val : List Char) : Tok → List Tok
  | .text c => [.text c]
  | .use name => if name = key then val.map .text else [.use name]

/-- canonical token lists (what `tokenize` produces on a text in which no macro use is directly
followed by another `$`): text characters are not `$`, names consist of identifier characters,
and a use is followed by nothing or by a non-identifier text character -/
def Canon : List Tok → Prop
  | [] => True
  | .text c :: rest => c ≠ '$' ∧ Canon rest
  | .use name :: rest =>
    (∀ c ∈ name, isIdent c = true) ∧
    (match rest with
     | [] => True
     | .text d :: _ => isIdent d = false
     | .use _ :: _ => False) ∧ Canon rest

theorem tokenize_text_prefix (val R : List Char) (hv : ∀ c ∈ val, c ≠ '$') :
    tokenizeAux 0 (val ++ R) = val.map .text ++ tokenizeAux 0 R := by
  induction val with
  | nil => rfl
  | cons c cs ih =>
    have hc := hv c (by simp)
    simp only [List.cons_append, tokenizeAux, hc, if_false, List.map_cons]
    rw [ih (fun d hd => hv d (by simp [hd]))]

theorem flatMap_head_text (key val : List Char) (d : Char) (rest : List Tok) :
    ((Tok.text d :: rest).flatMap (render1 key val)) = d :: rest.flatMap (render1 key val) := by
  simp [List.flatMap_cons, render1]

/-- re-tokenising the result of one pass -/
theorem tokenize_render1 (key val : List Char) (hv : ∀ c ∈ val, c ≠ '$') (toks : List Tok) (hc : Canon toks) :
    tokenizeAux 0 (toks.flatMap (render1 key val)) = toks.flatMap (retok key val) := by
  induction toks with
  | nil => rfl
  | cons t rest ih =>
    cases t with
    | text c =>
      simp only [Canon] at hc
      simp only [List.flatMap_cons, render1, retok, List.cons_append, List.nil_append, tokenizeAux, hc.1,
        if_false]
      rw [ih hc.2]
    | use name =>
      simp only [Canon] at hc
      obtain ⟨hn, hnext, hrest⟩ := hc
      by_cases hk : name = key
      · simp only [List.flatMap_cons, render1, retok, hk, if_true]
        rw [tokenize_text_prefix _ _ hv, ih hrest]
      · simp only [List.flatMap_cons, render1, retok, hk, if_false, List.cons_append, List.nil_append,
          tokenizeAux, if_true]
        have htw : (name ++ rest.flatMap (render1 key val)).takeWhile isIdent = name := by
          apply takeWhile_prefix _ _ _ hn
          cases rest with
          | nil => simp
          | cons t' rest' =>
            cases t' with
            | text d => rw [flatMap_head_text]; simpa using hnext
            | use n' => exact absurd hnext (by simp)
        rw [htw, tokenizeAux_drop, List.drop_left, ih hrest]

theorem canon_text_prefix (val : List Char) (X : List Tok) (hv : ∀ c ∈ val, c ≠ '$') (hX : Canon X) :
    Canon (val.map .text ++ X) := by
  induction val with
  | nil => exact hX
  | cons c cs ih =>
    simp only [List.map_cons, List.cons_append, Canon]
    exact ⟨hv c (by simp), ih (fun d hd => hv d (by simp [hd]))⟩

theorem canon_retok (key val : List Char) (hv : ∀ c ∈ val, c ≠ '$') (toks : List Tok) (hc : Canon toks) :
    Canon (toks.flatMap (retok key val)) := by
  induction toks with
  | nil => trivial
  | cons t rest ih =>
    cases t with
    | text c =>
      simp only [Canon] at hc
      simp only [List.flatMap_cons, retok, List.cons_append, List.nil_append, Canon]
      exact ⟨hc.1, ih hc.2⟩
    | use name =>
      simp only [Canon] at hc
      obtain ⟨hn, hnext, hrest⟩ := hc
      by_cases hk : name = key
      · simp only [List.flatMap_cons, retok, hk, if_true]
        exact canon_text_prefix _ _ hv (ih hrest)
      · simp only [List.flatMap_cons, retok, hk, if_false, List.cons_append, List.nil_append, Canon]
        refine ⟨hn, ?_, ih hrest⟩
        cases rest with
        | nil => trivial
        | cons t' rest' =>
          cases t' with
          | text d => simpa [List.flatMap_cons, retok] using hnext
          | use n' => exact absurd hnext (by simp)

theorem flatMap_congr' {α β : Type} {f g : α → List β} {l : List α} (h : ∀ x ∈ l, f x = g x) :
    l.flatMap f = l.flatMap g := by
  induction l with
  | nil => rfl
  | cons x xs ih =>
    simp only [List.flatMap_cons, h x (by simp), ih (fun y hy => h y (by simp [hy]))]

theorem flatMap_text (f : Tok → List Char) (hf : ∀ c, f (.text c) = [c]) (val : List Char) :
    (val.map Tok.text).flatMap f = val := by
  induction val with
  | nil => rfl
  | cons c cs ih => simp [List.flatMap_cons, hf, ih]

/-- **sequential passes = simultaneous token-wise replacement**, for canonical bodies and
macro values without `$` -/
theorem substAll_tokenwise (macros : List (List Char × List Char))
    (hk : ∀ kv ∈ macros, ∀ c ∈ kv.1, isIdent c = true)
    (hv : ∀ kv ∈ macros, ∀ c ∈ stripBraces kv.2, c ≠ '$')
    (body : List Char) (hc : Canon (tokenize body)) :
    substAll reSub macros body = substTokenwise macros body := by
  induction macros generalizing body with
  | nil =>
    simp only [substAll, List.foldl_nil, substTokenwise]
    -- round trip: rendering the tokens of a text gives the text back
    have rt : ∀ n, ∀ s : List Char, s.length = n → (tokenizeAux 0 s).flatMap (renderTok []) = s := by
      intro n
      induction n using Nat.strongRecOn with
      | _ n ih =>
        intro s hn
        cases s with
        | nil => rfl
        | cons c rest =>
          by_cases hc' : c = '$'
          · subst hc'
            have hsplit := takeWhile_append_dropWhile' isIdent rest
            have hlen : (rest.dropWhile isIdent).length < n := by
              have : (rest.takeWhile isIdent ++ rest.dropWhile isIdent).length = rest.length := by rw [hsplit]
              simp only [List.length_append] at this
              simp only [List.length_cons] at hn
              omega
            simp only [tokenizeAux, if_true, List.flatMap_cons, renderTok, lookupMacro]
            rw [tokenizeAux_drop, drop_takeWhile_length, ih _ hlen _ rfl]
            simp [hsplit]
          · have hlen : rest.length < n := by simp only [List.length_cons] at hn; omega
            simp only [tokenizeAux, hc', if_false, List.flatMap_cons, renderTok, ih _ hlen rest rfl]
            simp
    exact (rt _ body rfl).symm
  | cons kv ms ih =>
    obtain ⟨k, v⟩ := kv
    have hk1 := hk (k, v) (by simp)
    have hv1 := hv (k, v) (by simp)
    simp only [substAll, List.foldl_cons] at ih ⊢
    have h1 := reSub_tokenwise k (stripBraces v) hk1 body
    have ht : tokenize (reSub k (stripBraces v) body) = (tokenize body).flatMap (retok k (stripBraces v)) := by
      rw [h1]; exact tokenize_render1 k (stripBraces v) hv1 _ hc
    have hc2 : Canon (tokenize (reSub k (stripBraces v) body)) := by
      rw [ht]; exact canon_retok k (stripBraces v) hv1 _ hc
    rw [ih (fun kv h => hk kv (by simp [h])) (fun kv h => hv kv (by simp [h])) _ hc2]
    simp only [substTokenwise, ht, List.flatMap_assoc]
    apply flatMap_congr'
    intro t _
    cases t with
    | text c => simp [retok, renderTok]
    | use name =>
      by_cases hkn : name = k
      · subst hkn
        simp only [retok, if_true, renderTok, lookupMacro]
        exact flatMap_text _ (fun c => rfl) _
      · have hkn' : ¬ k = name := fun e => hkn e.symm
        simp [retok, hkn, renderTok, lookupMacro, hkn']

/-- no macro use is directly followed by another `$` -/
def NoAdjacentUses : List Tok → Prop
  | [] => True
  | .text _ :: rest => NoAdjacentUses rest
  | .use _ :: rest =>
    (match rest with
     | .use _ :: _ => False
     | _ => True) ∧ NoAdjacentUses rest

/-- the tokens of a text are canonical as soon as no two uses are adjacent -/
theorem canon_tokenize (s : List Char) (h : NoAdjacentUses (tokenize s)) : Canon (tokenize s) := by
  unfold tokenize at h ⊢
  generalize hn : s.length = n
  induction n using Nat.strongRecOn generalizing s with
  | _ n ih =>
    cases s with
    | nil => trivial
    | cons c rest =>
      by_cases hc : c = '$'
      · subst hc
        have hsplit := takeWhile_append_dropWhile' isIdent rest
        have hlen : (rest.dropWhile isIdent).length < n := by
          have : (rest.takeWhile isIdent ++ rest.dropWhile isIdent).length = rest.length := by rw [hsplit]
          simp only [List.length_append] at this
          simp only [List.length_cons] at hn
          omega
        simp only [tokenizeAux, if_true] at h ⊢
        rw [tokenizeAux_drop, drop_takeWhile_length] at h ⊢
        simp only [NoAdjacentUses] at h
        simp only [Canon]
        refine ⟨takeWhile_all isIdent rest, ?_, ih _ hlen _ h.2 rfl⟩
        have hd := dropWhile_head isIdent rest
        cases hdw : rest.dropWhile isIdent with
        | nil => simp [tokenizeAux]
        | cons d ds =>
          rw [hdw] at hd h
          by_cases hd' : d = '$'
          · subst hd'
            simp [tokenizeAux] at h
          · simp only [tokenizeAux, hd', if_false]
            exact hd
      · have hlen : rest.length < n := by simp only [List.length_cons] at hn; omega
        simp only [tokenizeAux, hc, if_false] at h ⊢
        simp only [NoAdjacentUses] at h
        exact ⟨hc, ih _ hlen rest h rfl⟩

end NQ.AsmText
