/-
C03: label resolution is exact string equality — the value a label operand is patched with depends
only on the position of the FIRST definition with exactly that name; definitions of other names
(differing in case, prefixes, suffixes, …) play no role.
-/
import NetqasmVerif.Lemmas.AsmSim2
namespace NQ.Asm
open NQ

theorem labelIdx_none_iff {P : List PCmd} {l : String} : labelIdx P l = none ↔ PCmd.label l ∉ P := by
  induction P with
  | nil => simp [labelIdx]
  | cons x xs ih =>
    cases x with
    | label l' =>
      simp only [labelIdx, List.mem_cons, PCmd.label.injEq]
      by_cases e : l' = l
      · simp [e]
      · have : ¬ l = l' := fun h => e h.symm
        simp [e, this, ih]
    | instr mn a o => simp [labelIdx, ih]

/-- `labelIdx P l = some k` exactly when `k` is the first position holding the definition `l:` -/
theorem labelIdx_some_iff {P : List PCmd} {l : String} {k : Nat} :
    labelIdx P l = some k ↔ P[k]? = some (.label l) ∧ ∀ j, j < k → P[j]? ≠ some (.label l) := by
  induction P generalizing k with
  | nil => simp [labelIdx]
  | cons x xs ih =>
    cases x with
    | label l' =>
      simp only [labelIdx]
      by_cases e : l' = l
      · subst e
        simp only [if_true, Option.some.injEq]
        constructor
        · intro h; subst h; exact ⟨by simp, fun j hj => by omega⟩
        · rintro ⟨_, h2⟩
          cases k with
          | zero => rfl
          | succ k' => exact absurd (by simp) (h2 0 (by omega))
      · simp only [e, if_false, Option.map_eq_some_iff]
        constructor
        · rintro ⟨k', hk', rfl⟩
          obtain ⟨a, b⟩ := ih.1 hk'
          refine ⟨by simpa using a, fun j hj => ?_⟩
          cases j with
          | zero => simp [e]
          | succ j' => simpa using b j' (by omega)
        · rintro ⟨h1, h2⟩
          cases k with
          | zero => simp [e] at h1
          | succ k' =>
            exact ⟨k', ih.2 ⟨by simpa using h1, fun j hj => by simpa using h2 (j + 1) (by omega)⟩, rfl⟩
    | instr mn a o =>
      simp only [labelIdx, Option.map_eq_some_iff]
      constructor
      · rintro ⟨k', hk', rfl⟩
        obtain ⟨a', b⟩ := ih.1 hk'
        refine ⟨by simpa using a', fun j hj => ?_⟩
        cases j with
        | zero => simp
        | succ j' => simpa using b j' (by omega)
      · rintro ⟨h1, h2⟩
        cases k with
        | zero => simp at h1
        | succ k' =>
          exact ⟨k', ih.2 ⟨by simpa using h1, fun j hj => by simpa using h2 (j + 1) (by omega)⟩, rfl⟩

/-- **label resolution is exact**: the operand `l` is patched with the number of real commands in
front of the first definition of exactly the name `l`, and left alone when there is none -/
theorem patchOp_label_exact (P : List PCmd) (l : String) :
    (∀ k, (P[k]? = some (.label l) ∧ ∀ j, j < k → P[j]? ≠ some (.label l)) →
      patchOp (labelTable P 0) (.lab l) = .lit (tpos2 P k : Nat)) ∧
    (PCmd.label l ∉ P → patchOp (labelTable P 0) (.lab l) = .lab l) := by
  constructor
  · intro k hk
    have := labelIdx_some_iff.2 hk
    simp [patchOp, lookup_labelTable, this]
  · intro h
    simp [patchOp, lookup_labelTable, labelIdx_none_iff.2 h]

end NQ.Asm
