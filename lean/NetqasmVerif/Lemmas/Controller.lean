/-
Lemmas about the composed controller model (`Model/Controller.lean`): shape of the EPR instructions and
of one consumption, the bookkeeping invariants of C12 for controller runs (re-using the component-level
lemmas of `Lemmas/EprInv.lean`), the C13 invariant through `Exec.keepResp`.
-/
import NetqasmVerif.Model.Controller
import NetqasmVerif.Lemmas.EprExecBridge
namespace NQ.Ctl
open NQ NQ.Exec

/-! ### EPR instructions -/

/-- what a successful EPR / wait instruction does: the `Exec` state and the subroutine table are
untouched; the book is untouched (waits) or gains exactly one request at the back of one queue -/
theorem eprStep_ok {cfg : Cfg} {c c' : CState} {sub a : Nat} {pc pc' : Int} {ei : CInstr}
    (h : eprStep cfg c sub a pc ei = .ok c' pc') :
    pc' = pc + 1 ∧ (c' = c ∨ ∃ κ res q n, c' = enqueue c κ sub res q n) := by
  cases ei with
  | base i => simp [eprStep] at h
  | measBasis q cr i0 i1 i2 i3 => simp [eprStep] at h
  | createEpr r0 r1 r2 r3 r4 =>
    simp only [eprStep] at h
    split at h
    · cases h
    · rename_i ap _
      unfold createEpr at h
      split at h
      all_goals try dsimp only at h
      · split at h
        · cases h
        · split at h
          · cases h
          · split at h
            · split at h
              · injection h with h1 h2
                exact ⟨h2.symm, Or.inr ⟨_, _, _, _, h1.symm⟩⟩
              · cases h
            · cases h
      · cases h
  | recvEpr r0 r1 r2 r4 =>
    simp only [eprStep] at h
    split at h
    · cases h
    · unfold recvEpr at h
      split at h
      · split at h
        · cases h
        · injection h with h1 h2
          exact ⟨h2.symm, Or.inr ⟨_, _, _, _, h1.symm⟩⟩
      · cases h
  | waitAll ad lo hi =>
    simp only [eprStep] at h
    split at h
    · cases h
    · split at h
      · rename_i r _
        unfold ofCond at h
        split at h
        · cases h
        · injection h with h1 h2; exact ⟨h2.symm, Or.inl h1.symm⟩
        · cases h
      · cases h
  | waitAny ad lo hi =>
    simp only [eprStep] at h
    split at h
    · cases h
    · split at h
      · unfold ofCond at h
        split at h
        · cases h
        · injection h with h1 h2; exact ⟨h2.symm, Or.inl h1.symm⟩
        · cases h
      · cases h
  | waitSingle ad ix =>
    simp only [eprStep] at h
    split at h
    · cases h
    · unfold ofCond at h
      split at h
      · cases h
      · injection h with h1 h2; exact ⟨h2.symm, Or.inl h1.symm⟩
      · cases h

theorem enqueue_s (c : CState) (κ : Epr.Key) (sub : Nat) (res : Int) (q : Option Int) (n : Int) :
    (enqueue c κ sub res q n).s = c.s ∧ (enqueue c κ sub res q n).subs = c.subs := ⟨rfl, rfl⟩

/-! ### one consumption -/

/-- everything `tryHandle … = .yes c'` tells -/
theorem tryHandle_yes {cfg : Cfg} {c c' : CState} {r : Epr.Resp} (h : tryHandle cfg c r = .yes c') :
    ∃ (hd : Epr.Req) (rest : List Epr.Req) (app : Nat) (ap : App) (e' : Epr.State) (arr' : Epr.Arr)
      (ev : Epr.Event) (s1 : Exec.State) (ap1 : App),
      Epr.getQ c.book.queues (Epr.keyOf c.book.nodeId r) = hd :: rest ∧
      liveApp c hd.sub = some app ∧ c.s.apps app = some ap ∧
      ¬ (r.ty = .K ∧ r.phys < 0) ∧
      Epr.tryHandle cfg.okf (view c hd app ap) r = .yes e' ∧
      e'.log.getLast? = some ev ∧
      s1 = (match ev.vq with
            | some pos => (Exec.keepResp c.s app (pos : Int) r.phys.toNat).1
            | none => c.s) ∧
      s1.apps app = some ap1 ∧
      c' = commit c s1 app ap1 hd.resAddr arr' e' := by
  unfold tryHandle at h
  split at h
  · cases h
  · rename_i hd rest hq
    split at h
    · cases h
    · rename_i app hlive
      split at h
      · cases h
      · rename_i ap hap
        split at h
        · cases h
        · rename_i hneg
          split at h
          · cases h
          · cases h
          · rename_i e' hy
            split at h
            · rename_i arr' ev harr hev
              simp only at h
              split at h
              · cases h
              · rename_i ap1 hap1
                injection h with h
                exact ⟨hd, rest, app, ap, e', arr', ev, _, ap1, hq, hlive, hap, hneg, hy, hev, rfl, hap1, h.symm⟩
            · cases h

/-! ### bookkeeping invariants on the `Book` -/

def BookOnce (b : Book) : Prop :=
  (b.pending ++ b.log.map (·.resp)).Perm b.delivered ∧ b.delivered.map (·.id) = List.range b.nextResp

def BookPos (b : Book) : Prop := ∀ r ∈ b.issued, 1 ≤ r.tot

def BookQ (b : Book) : Prop := BookPos b → ∀ κ, Epr.QInvL b.issued b.log b.queues κ

theorem bookOnce_deliver {b : Book} (r : Epr.Resp) (hid : r.id = b.nextResp) (h : BookOnce b) :
    BookOnce { b with pending := b.pending ++ [r], nextResp := b.nextResp + 1, delivered := b.delivered ++ [r] } := by
  obtain ⟨hp, hids⟩ := h
  refine ⟨?_, ?_⟩
  · show ((b.pending ++ [r]) ++ b.log.map (·.resp)).Perm (b.delivered ++ [r])
    have h1 : ((b.pending ++ [r]) ++ b.log.map (·.resp)).Perm (r :: (b.pending ++ b.log.map (·.resp))) := by
      rw [List.append_assoc]
      exact List.perm_middle
    have h2 : (r :: (b.pending ++ b.log.map (·.resp))).Perm (r :: b.delivered) := List.Perm.cons r hp
    have h3 : (r :: b.delivered).Perm (b.delivered ++ [r]) := (List.perm_append_singleton r b.delivered).symm
    exact (h1.trans h2).trans h3
  · show (b.delivered ++ [r]).map (·.id) = List.range (b.nextResp + 1)
    rw [List.map_append, hids, List.range_succ]
    simp [hid]

/-- one consumption on a state whose book fields are those of `b` -/
theorem bookOnce_consume {okf : Nat} {b : Book} {e e' : Epr.State} {r : Epr.Resp} {pre rest : List Epr.Resp}
    (hb : Book.ofEpr e = b) (hc : Epr.Consumed okf e r e') (hpend : b.pending = pre ++ r :: rest)
    (h : BookOnce b) : BookOnce { Book.ofEpr e' with pending := pre ++ rest } := by
  obtain ⟨hp, hids⟩ := h
  obtain ⟨_, _, f3, _, f5, _, _, ev, f8, f9, _⟩ := hc.fields
  subst hb
  refine ⟨?_, ?_⟩
  · show ((pre ++ rest) ++ e'.log.map (·.resp)).Perm e'.delivered
    rw [f5, f8, List.map_append]
    simp only [List.map_cons, List.map_nil, f9]
    have hp' : ((pre ++ r :: rest) ++ e.log.map (·.resp)).Perm e.delivered := by
      have : (Book.ofEpr e).pending = e.pending := rfl
      rw [this] at hpend
      rw [← hpend]; exact hp
    have h1 : ((pre ++ rest) ++ (e.log.map (·.resp) ++ [r])).Perm
        (r :: ((pre ++ rest) ++ e.log.map (·.resp))) := by
      rw [← List.append_assoc]
      exact List.perm_append_singleton r _
    have h2 : ((pre ++ r :: rest) ++ e.log.map (·.resp)).Perm
        (r :: ((pre ++ rest) ++ e.log.map (·.resp))) := by
      rw [List.append_assoc, List.cons_append, List.append_assoc]
      exact List.perm_middle
    exact (h1.trans h2.symm).trans hp'
  · show e'.delivered.map (·.id) = List.range e'.nextResp
    rw [f5, f3]; exact hids

theorem bookQ_consume {okf : Nat} {b : Book} {e e' : Epr.State} {r : Epr.Resp} {pend : List Epr.Resp}
    (hb : Book.ofEpr e = b) (hc : Epr.Consumed okf e r e') (h : BookQ b) :
    BookQ { Book.ofEpr e' with pending := pend } := by
  subst hb
  obtain ⟨hd, rest, ev, hq, hk0, hek, her, hekk, _, _, hqs, hlog, hiss⟩ := hc.view
  intro hpos κ
  have hpos' : BookPos (Book.ofEpr e) := by
    intro x hx; apply hpos x; show x ∈ e'.issued; rw [hiss]; exact hx
  have := Epr.qinvL_consume ev hq hk0 hek her hekk (h hpos' κ)
  show Epr.QInvL e'.issued e'.log e'.queues κ
  rw [hiss, hlog, hqs]; exact this

theorem bookQ_enqueue {c : CState} (κ : Epr.Key) (sub : Nat) (res : Int) (q : Option Int) (n : Int)
    (h : BookQ c.book) : BookQ (enqueue c κ sub res q n).book := by
  intro hpos κ'
  have hn : 1 ≤ n := by
    have := hpos ⟨c.book.nextReq, κ, sub, res, q, n, n⟩ (by simp [enqueue])
    simpa using this
  have hposs : BookPos c.book := by
    intro r hr; exact hpos r (by simp [enqueue, hr])
  exact Epr.qinvL_enqueue ⟨c.book.nextReq, κ, sub, res, q, n, n⟩ rfl rfl hn (h hposs κ')

/-! ### reachable controller states -/

inductive Reach (cfg : Cfg) (node : Int) : CState → Prop
  | init : Reach cfg node (Ctl.init node)
  | step {c c' : CState} {a : CAction} : Reach cfg node c → Ctl.apply cfg c a = some c' → Reach cfg node c'

/-- a property of the book that survives enqueueing, delivery and consumption holds in every reachable
controller state -/
theorem book_induct {cfg : Cfg} {node : Int} (P : Book → Prop)
    (h0 : P (Ctl.init node).book)
    (henq : ∀ c κ sub res q n, P c.book → P (enqueue c κ sub res q n).book)
    (hdel : ∀ b r, P b → r.id = b.nextResp →
      P { b with pending := b.pending ++ [r], nextResp := b.nextResp + 1, delivered := b.delivered ++ [r] })
    (hcons : ∀ (b : Book) e e' r pre rest, P b → Book.ofEpr e = b → Epr.Consumed cfg.okf e r e' →
      b.pending = pre ++ r :: rest → P { Book.ofEpr e' with pending := pre ++ rest }) :
    ∀ c, Reach cfg node c → P c.book := by
  -- the pending loop
  have hscan : ∀ (c : CState) (l pre : List Epr.Resp) (c'' : CState), P c.book →
      c.book.pending = pre ++ l → scan cfg c pre l = .did c'' → P c''.book := by
    intro c l
    induction l with
    | nil => intro pre c'' _ _ h; simp [scan] at h
    | cons r rest ih =>
      intro pre c'' hP hpend h
      unfold scan at h
      split at h
      · cases h
      · exact ih (pre ++ [r]) c'' hP (by simp [hpend]) h
      · rename_i c' hy
        injection h with h
        subst h
        obtain ⟨hd, rest', app, ap, e', arr', ev, s1, ap1, _, _, _, _, hty, _, _, _, hc'⟩ := tryHandle_yes hy
        subst hc'
        exact hcons c.book (view c hd app ap) e' r pre rest hP rfl (Epr.tryHandle_yes hty) hpend
  have hfuel : ∀ (n : Nat) (c c' : CState), P c.book → handlePendingFuel cfg n c = some c' → P c'.book := by
    intro n
    induction n with
    | zero => intro c c' hP h; simp [handlePendingFuel] at h; subst h; exact hP
    | succ n ih =>
      intro c c' hP h
      unfold handlePendingFuel at h
      split at h
      · cases h
      · injection h with h; subst h; exact hP
      · rename_i c1 h1
        exact ih c1 c' (hscan c c.book.pending [] c1 hP rfl h1) h
  intro c hr
  induction hr with
  | init => exact h0
  | @step c c' a _ hs ih =>
    cases a with
    | base op => simp [Ctl.apply] at hs; subst hs; exact ih
    | spawn a prog => simp [Ctl.apply] at hs; subst hs; exact ih
    | stackFault i =>
      simp only [Ctl.apply, Option.some.injEq] at hs; subst hs
      unfold stackFault
      split
      · exact ih
      · split <;> exact ih
    | tick i =>
      simp only [Ctl.apply, Option.some.injEq] at hs; subst hs
      unfold tick
      split
      · exact ih
      · rename_i sb _
        split
        · exact ih
        · split
          · exact ih
          · split
            · exact ih
            · split <;> exact ih
            · rename_i ei _ hne
              split
              · exact ih
              · rename_i c1 pc1 he
                show P c1.book
                rcases (eprStep_ok he).2 with h | ⟨κ, res, q, n, h⟩
                · rw [h]; exact ih
                · rw [h]; exact henq c κ i res q n ih
              · exact ih
    | deliver ty remote purpose dir phys fields =>
      simp only [Ctl.apply, deliver, handlePending] at hs
      exact hfuel _ _ _ (hdel c.book _ ih rfl) hs
    | poll =>
      simp only [Ctl.apply, handlePending] at hs
      exact hfuel _ _ _ ih hs

end NQ.Ctl

namespace NQ.Ctl
open NQ NQ.Exec

/-- a successful pass of the pending loop: some response was handled and popped -/
theorem scan_did {cfg : Cfg} {c c'' : CState} : ∀ (l pre : List Epr.Resp), scan cfg c pre l = .did c'' →
    ∃ pre' r rest c', l = pre' ++ r :: rest ∧ tryHandle cfg c r = .yes c' ∧
      c'' = { c' with book := { c'.book with pending := pre ++ pre' ++ rest } } := by
  intro l
  induction l with
  | nil => intro pre h; simp [scan] at h
  | cons r rest ih =>
    intro pre h
    unfold scan at h
    split at h
    · cases h
    · obtain ⟨pre', r', rest', c', hl, hy, hc⟩ := ih (pre ++ [r]) h
      exact ⟨r :: pre', r', rest', c', by simp [hl], hy, by simpa using hc⟩
    · rename_i c' hy
      injection h with h
      exact ⟨[], r, rest, c', rfl, hy, by simpa using h.symm⟩

/-- `Exec.keepResp` takes at most the delivered qubit out of the reserved set -/
theorem keepResp_reserved (s : Exec.State) (a : Nat) (v : Int) (p q : Nat) (hq : q ∈ s.reserved) (hne : q ≠ p) :
    q ∈ (Exec.keepResp s a v p).1.reserved := by
  unfold Exec.keepResp
  split
  · exact hq
  · dsimp only
    split
    · exact hq
    · split
      · exact hq
      · split
        · exact hq
        · split
          · exact hq
          · simp only [List.mem_filter, bne_iff_ne, ne_eq]
            exact ⟨hq, hne⟩

/-- a unit-module position is recorded in the history only for keep responses -/
theorem vq_some_is_keep {okf : Nat} {e e' : Epr.State} {r : Epr.Resp} {ev : Epr.Event} {pos : Nat}
    (hc : Epr.Consumed okf e r e') (hev : e'.log.getLast? = some ev) (hvq : ev.vq = some pos) : r.ty = .K := by
  obtain ⟨hd2, rest2, app2, m2, m1, used1, vq, prev, arr, arr2, _, _, _, _, hM, _, hO, _, _, hs⟩ := hc.ex
  subst hs
  simp only [List.getLast?_append, List.getLast?_singleton, Option.some_or, Option.some.injEq] at hev
  subst hev
  cases hty' : r.ty with
  | K => rfl
  | M => have := (hM hty').2.2.1; simp only at hvq; rw [this] at hvq; cases hvq
  | other => exact absurd hty' hO

/-- the reserved set after a consumption: only the qubit of a consumed keep response leaves it -/
theorem tryHandle_yes_reserved {cfg : Cfg} {c c' : CState} {r : Epr.Resp} (h : tryHandle cfg c r = .yes c')
    (q : Nat) (hq : q ∈ c.s.reserved) (hne : r.ty = .K → q ≠ r.phys.toNat) : q ∈ c'.s.reserved := by
  obtain ⟨hd, rest, app, ap, e', arr', ev, s1, ap1, _, _, _, _, hty, hev, hs1, _, hc'⟩ := tryHandle_yes h
  rw [hc']
  show q ∈ s1.reserved
  rw [hs1]
  cases hvq : ev.vq with
  | none => exact hq
  | some pos =>
    simp only
    exact keepResp_reserved c.s app pos r.phys.toNat q hq (hne (vq_some_is_keep (Epr.tryHandle_yes hty) hev hvq))

end NQ.Ctl
