/-
More static invariants of `emit` needed at flush level: the array-length table against the
declarations, monotonicity of the active registers, label freshness for a whole flush segment and
for the array-initialisation code, registers to return against handles.
-/
import NetqasmVerif.Lemmas.SdkHostLemmas
set_option linter.unusedSimpArgs false
set_option linter.unusedVariables false
namespace NQ.Sdk

/-! ## declarations -/

theorem declsOf_length : ∀ (op : Host) (na : Nat), (declsOf na op).length = aCount op
  | .skip, _ => rfl
  | .seq a b, na => by simp [declsOf, aCount, declsOf_length a, declsOf_length b]
  | .newArray _ _, _ => rfl
  | .newReg _, _ => rfl
  | .qop _ t, _ => by cases t <;> rfl
  | .addF _ _ _, _ => rfl
  | .addR _ _ _, _ => rfl
  | .ifc _ _ _ _ body, na => by simp [declsOf, aCount, declsOf_length body]
  | .loop _ _ _ _ body, na => by simp [declsOf, aCount, declsOf_length body]
  | .loopBody _ _ _ _ body, na => by simp [declsOf, aCount, declsOf_length body]
  | .foreach _ _ body, na => by simp [declsOf, aCount, declsOf_length body]
  | .loopUntil _ body _ _ cl, na => by
    cases he : emits body <;> simp [declsOf, aCount, he, declsOf_length body, declsOf_length cl]
  | .tryUntil _ body, na => by simp [declsOf, aCount, declsOf_length body]
  | .epr _, _ => rfl

theorem declsOf_addr : ∀ (op : Host) (na : Nat), (declsOf na op).map (·.addr) = List.range' na (aCount op)
  | .skip, _ => rfl
  | .seq a b, na => by
    simp [declsOf, aCount, declsOf_addr a, declsOf_addr b, List.range'_append_1]
  | .newArray _ _, _ => rfl
  | .newReg _, _ => rfl
  | .qop _ t, _ => by cases t <;> rfl
  | .addF _ _ _, _ => rfl
  | .addR _ _ _, _ => rfl
  | .ifc _ _ _ _ body, na => by simp [declsOf, aCount, declsOf_addr body]
  | .loop _ _ _ _ body, na => by simp [declsOf, aCount, declsOf_addr body]
  | .loopBody _ _ _ _ body, na => by simp [declsOf, aCount, declsOf_addr body]
  | .foreach _ _ body, na => by simp [declsOf, aCount, declsOf_addr body]
  | .loopUntil _ body _ _ cl, na => by
    cases he : emits body <;>
      simp [declsOf, aCount, he, declsOf_addr body, declsOf_addr cl, List.range'_append_1]
  | .tryUntil _ body, na => by simp [declsOf, aCount, declsOf_addr body]
  | .epr _, _ => rfl

theorem declsOf_ok : ∀ (op : Host) (na : Nat), ∀ d ∈ declsOf na op, DeclOK d
  | .skip, _, d, h => by simp [declsOf] at h
  | .seq a b, na, d, h => by
    simp only [declsOf, List.mem_append] at h
    rcases h with h | h
    · exact declsOf_ok a _ d h
    · exact declsOf_ok b _ d h
  | .newArray len init, _, d, h => by
    simp [declsOf] at h; subst h
    cases init <;> simp [DeclOK]
  | .newReg _, _, d, h => by simp [declsOf] at h
  | .qop _ t, _, d, h => by
    cases t <;> simp [declsOf] at h
    subst h; simp [DeclOK]
  | .addF _ _ _, _, d, h => by simp [declsOf] at h
  | .addR _ _ _, _, d, h => by simp [declsOf] at h
  | .ifc _ _ _ _ body, na, d, h => declsOf_ok body na d (by simpa [declsOf] using h)
  | .loop _ _ _ _ body, na, d, h => declsOf_ok body na d (by simpa [declsOf] using h)
  | .loopBody _ _ _ _ body, na, d, h => declsOf_ok body na d (by simpa [declsOf] using h)
  | .foreach _ _ body, na, d, h => declsOf_ok body na d (by simpa [declsOf] using h)
  | .loopUntil _ body _ _ cl, na, d, h => by
    simp only [declsOf, List.mem_append] at h
    rcases h with h | h
    · exact declsOf_ok body _ d h
    · split at h
      · exact declsOf_ok cl _ d h
      · cases h
  | .tryUntil _ body, na, d, h => declsOf_ok body na d (by simpa [declsOf] using h)
  | .epr _, _, d, h => by simp [declsOf] at h

theorem segDecls_addr : ∀ (ops : List Host) (na : Nat),
    (segDecls na ops).map (·.addr) = List.range' na (segDecls na ops).length
  | [], _ => rfl
  | op :: ops, na => by
    simp only [segDecls, List.map_append, List.length_append]
    rw [declsOf_addr, segDecls_addr ops, declsOf_length, List.range'_append_1]

theorem segDecls_ok : ∀ (ops : List Host) (na : Nat), ∀ d ∈ segDecls na ops, DeclOK d
  | [], _, d, h => by simp [segDecls] at h
  | op :: ops, na, d, h => by
    simp only [segDecls, List.mem_append] at h
    rcases h with h | h
    · exact declsOf_ok op _ d h
    · exact segDecls_ok ops _ d h

/-- shared shape of `loop`, `loopBody`, `foreach` for the length table -/
theorem loopShape_lens {m m1 m2 m4 : Mem} {i : Nat} {s e d : Int} {cs : List PCmd} {b : Bool} {body : Host}
    {rg : Option Nat} (h1 : takeAt m rg = .ok (m1, i))
    (ih : m2.arrLens = (bindHandle m1 (R i) b).arrLens ++
      (declsOf (bindHandle m1 (R i) b).arrLens.length body).map (·.len))
    (h4 : release (buildLoop m2 s e d (R i) cs).1 i = .ok m4) :
    m4.arrLens = m.arrLens ++ (declsOf m.arrLens.length body).map (·.len) := by
  rw [(release_same h4).lens, (buildLoop_sameL _ _ _ _ _ _).lens, ih]
  simp [bindHandle, (takeAt_same h1).lens]

/-- the table of array lengths grows by the lengths of the declared arrays -/
theorem emit_lens : ∀ (op : Host) (m m' : Mem) (cs : List PCmd), emit m op = .ok (m', cs) →
    m'.arrLens = m.arrLens ++ (declsOf m.arrLens.length op).map (·.len) := by
  intro op
  induction op with
  | skip => intro m m' cs h; simp [emit] at h; rw [← h.1]; simp [declsOf]
  | seq a b iha ihb =>
    intro m m' cs h
    simp only [emit] at h
    split at h
    · cases h
    · rename_i m1 ca h1
      split at h
      · cases h
      · rename_i m2 cb h2
        cases h
        have ea := iha _ _ _ h1
        rw [ihb _ _ _ h2, ea]
        simp [declsOf, declsOf_length]
  | newArray len init =>
    intro m m' cs h
    simp only [emit] at h
    split at h <;> (split at h; cases h; cases h; simp [declsOf])
  | newReg v =>
    intro m m' cs h
    simp only [emit] at h
    split at h
    · cases h
    · rename_i m1 i h1
      cases h
      simp [bindHandle, (takeReg_same h1).lens, declsOf]
  | qop g t =>
    intro m m' cs h
    simp only [emit] at h
    unfold emitQop at h
    cases t with
    | newFut =>
      simp only at h
      split at h
      · cases h
      · rename_i m1 k h1
        split at h
        · cases h
        · rename_i m2 st h2
          cases h
          obtain ⟨_, rfl⟩ := firstUnusedMeas_spec h1
          simp [(accessCmds_same _ _ _ _ _ _ h2).lens, declsOf]
    | fut f =>
      simp only at h
      split at h
      · cases h
      · rename_i m1 k h1
        split at h
        · cases h
        · rename_i m2 st h2
          cases h
          obtain ⟨_, rfl⟩ := firstUnusedMeas_spec h1
          simp [(accessCmds_same _ _ _ _ _ _ h2).lens, declsOf]
    | newReg =>
      simp only at h
      split at h
      · cases h
      · rename_i m1 k h1
        cases h
        obtain ⟨_, rfl⟩ := firstUnusedMeas_spec h1
        simp [bindHandle, declsOf]
  | addF f o md => intro m m' cs h; simp only [emit] at h; simp [(emitAddF_same h).lens, declsOf]
  | addR hh o md => intro m m' cs h; simp only [emit] at h; simp [(emitAddR_same h).lens, declsOf]
  | ifc cb c a b body ih =>
    intro m m' cs h
    simp only [emit] at h
    split at h
    · cases h
    · rename_i m1 bc h1
      rw [(buildCondition_sameL h).lens, ih _ _ _ h1]; simp [declsOf]
  | loop rg s e d body ih =>
    intro m m' cs h
    simp only [emit] at h
    split at h
    · cases h
    · rename_i m1 i h1
      split at h
      · cases h
      · rename_i m2 bc h2
        split at h
        · cases h
        · rename_i m4 h4
          cases h
          simpa [declsOf] using loopShape_lens h1 (ih _ _ _ h2) h4
  | loopBody rg s e d body ih =>
    intro m m' cs h
    simp only [emit] at h
    split at h
    · cases h
    · rename_i m1 i h1
      split at h
      · cases h
      · rename_i m2 bc h2
        split at h
        · cases h
        · rename_i m4 h4
          cases h
          simpa [declsOf] using loopShape_lens h1 (ih _ _ _ h2) h4
  | foreach arr wi body ih =>
    intro m m' cs h
    simp only [emit] at h
    split at h
    · cases h
    · split at h
      · cases h
      · rename_i m1 i h1
        split at h
        · cases h
        · rename_i m2 bc h2
          split at h
          · cases h
          · rename_i m4 h4
            cases h
            simpa [declsOf] using loopShape_lens (rg := none) h1 (ih _ _ _ h2) h4
  | loopUntil n body ef ev cl ihb ihc =>
    intro m m' cs h
    simp only [emit] at h
    split at h
    · cases h
    · rename_i m1 i h1
      have sm1 := takeReg_same h1
      split at h
      · cases h
      · rename_i m2 bc h2
        have eb := ihb _ _ _ h2
        have st2 := emit_stat _ _ _ _ h2
        split at h
        · rename_i hemp
          have hbc : bc = [] := by cases bc <;> simp_all
          have hem : emits body = false := st2.empty.mp hbc
          split at h
          · cases h
          · rename_i m3 h3
            cases h
            rw [(release_same h3).lens, eb]
            simp [bindHandle, sm1.lens, declsOf, hem]
        · rename_i hemp
          have hbc : bc ≠ [] := by cases bc <;> simp_all
          have hem : emits body = true := by
            cases he : emits body with
            | true => rfl
            | false => exact absurd (st2.empty.mpr he) hbc
          split at h
          · cases h
          · rename_i m5 brk h5
            split at h
            · cases h
            · rename_i m6 clc h6
              split at h
              · cases h
              · rename_i m7 h7
                cases h
                have ec := ihc _ _ _ h6
                have e5 : m5.arrLens = m2.arrLens := (breakCmds_same h5).lens
                rw [(release_same h7).lens, ec, e5, eb]
                simp [bindHandle, sm1.lens, declsOf, hem, declsOf_length]
  | tryUntil n body ih =>
    intro m m' cs h
    simp only [emit] at h
    simpa [declsOf] using ih _ _ _ h
  | epr evs =>
    intro m m' cs h
    simp only [emit] at h
    split at h
    · cases h
    · rename_i m1 held' h1
      cases h
      simp [(emitEprH_same _ _ _ _ _ h1).lens, declsOf]

/-! ## a whole flush segment -/

theorem emitOps_lens : ∀ (ops : List Host) (m m' : Mem) (cs : List PCmd), emitOps m ops = .ok (m', cs) →
    m'.arrLens = m.arrLens ++ (segDecls m.arrLens.length ops).map (·.len)
  | [], m, m', cs, h => by simp [emitOps] at h; rw [← h.1]; simp [segDecls]
  | op :: ops, m, m', cs, h => by
    simp only [emitOps] at h
    split at h
    · cases h
    · rename_i m1 c1 h1
      split at h
      · cases h
      · rename_i m2 c2 h2
        cases h
        have e1 := emit_lens _ _ _ _ h1
        rw [emitOps_lens ops m1 _ c2 h2, e1]
        simp [segDecls, declsOf_length]

theorem top_active {op : Host} {m m' : Mem} {cs : List PCmd} (ht : TopOK op) (h : emit m op = .ok (m', cs)) :
    Sub m.active m'.active ∧ m'.active.length = m.active.length := by
  rcases ht with hb | ⟨v, rfl⟩ | ⟨g, rfl⟩
  · rw [emit_active op _ _ _ hb.completed h]; exact ⟨Sub.refl _, rfl⟩
  · obtain ⟨i, _, hi⟩ := emit_newReg_active h
    rw [hi]; exact ⟨Sub.set _ _, by simp⟩
  · simp only [emit] at h
    rw [emitQop_active h]; exact ⟨Sub.refl _, rfl⟩

theorem emitOps_active : ∀ (ops : List Host) (m m' : Mem) (cs : List PCmd), (∀ op ∈ ops, TopOK op) →
    emitOps m ops = .ok (m', cs) → Sub m.active m'.active ∧ m'.active.length = m.active.length
  | [], m, m', cs, _, h => by simp [emitOps] at h; rw [← h.1]; exact ⟨Sub.refl _, rfl⟩
  | op :: ops, m, m', cs, ht, h => by
    simp only [emitOps] at h
    split at h
    · cases h
    · rename_i m1 c1 h1
      split at h
      · cases h
      · rename_i m2 c2 h2
        cases h
        have a1 := top_active (ht op (by simp)) h1
        have a2 := emitOps_active ops m1 _ c2 (fun o ho => ht o (by simp [ho])) h2
        exact ⟨a1.1.trans a2.1, a2.2.trans a1.2⟩

theorem emitOps_fresh : ∀ (ops : List Host) (m m' : Mem) (cs : List PCmd), m.lbl.length = 5 →
    emitOps m ops = .ok (m', cs) → Fresh m m' cs
  | [], m, m', cs, hl, h => by
    simp [emitOps] at h; obtain ⟨rfl, rfl⟩ := h; exact Fresh.nolabel hl rfl rfl
  | op :: ops, m, m', cs, hl, h => by
    simp only [emitOps] at h
    split at h
    · cases h
    · rename_i m1 c1 h1
      split at h
      · cases h
      · rename_i m2 c2 h2
        cases h
        have f1 := emit_fresh op _ _ _ hl h1
        exact f1.seq (emitOps_fresh ops m1 _ c2 f1.len h2)

theorem storeInits_nolab (a : Nat) : ∀ (vs : List (Option Int)) (i : Nat), labelsIn (storeInits a i vs) = []
  | [], _ => rfl
  | none :: vs, i => by simp [storeInits, storeInits_nolab a vs]
  | some v :: vs, i => by simp [storeInits, labelsIn, storeInits_nolab a vs]

theorem initArray_fresh {m0 m m' : Mem} {pend out : List PCmd} {d : ArrDecl}
    (hp : Fresh m0 m pend) (h : initArray m pend d = .ok (m', out)) : Fresh m0 m' out := by
  unfold initArray at h
  simp only at h
  split at h
  · cases h
    exact hp.congr rfl (by simp [labelsIn_append, labelsIn])
  · split at h
    · split at h
      · cases h
      · rename_i i hi
        split at h
        · cases h
        · rename_i m1 h1
          split at h
          · cases h
          · rename_i m3 h3
            cases h
            have fb : Fresh m m1 [PCmd.instr .store [.lit ‹Int›, .entryR d.addr (R i)]] :=
              Fresh.nolabel hp.len (activate_same h1).lbl rfl
            have fl := buildLoop_fresh (0 : Int) (‹List (Option Int)›.length : Int) 1 (R i) fb
            have := hp.seq fl
            exact this.congr (release_same h3).lbl (by simp [labelsIn_append, labelsIn])
    · cases h
      exact hp.congr rfl (by simp [labelsIn_append, labelsIn, storeInits_nolab])

theorem initArrays_fresh : ∀ (ds : List ArrDecl) (m0 m m' : Mem) (pend out : List PCmd),
    Fresh m0 m pend → initArrays m pend ds = .ok (m', out) → Fresh m0 m' out
  | [], m0, m, m', pend, out, hp, h => by simp [initArrays] at h; obtain ⟨rfl, rfl⟩ := h; exact hp
  | d :: ds, m0, m, m', pend, out, hp, h => by
    simp only [initArrays] at h
    split at h
    · cases h
    · rename_i m1 p1 h1
      exact initArrays_fresh ds m0 m1 m' p1 out (initArray_fresh hp h1) h

/-! ## registers to return are registers of defined handles -/

def RetOK (m : Mem) (hs : HSt) : Prop :=
  ∀ r ∈ m.regsToReturn, ∃ (h : Nat) (b : Bool) (v : Int), m.handles[h]? = some (r, b) ∧ hs.hregs h = some v

theorem top_ret {op : Host} {fuel : Nat} {m m' : Mem} {cs : List PCmd} {hs hs' : HSt} (ht : TopOK op)
    (h : emit m op = .ok (m', cs)) (hr : RetOK m hs)
    (hh : hsem fuel m.handles.length m.arrLens.length op hs = some hs') : RetOK m' hs' := by
  have st := emit_stat _ _ _ _ h
  obtain ⟨t, ht', _⟩ := st.handles
  have hk := hsem_keeps _ _ _ _ _ _ hh
  have old : ∀ r ∈ m.regsToReturn, ∃ (h : Nat) (b : Bool) (v : Int), m'.handles[h]? = some (r, b) ∧ hs'.hregs h = some v := by
    intro r hr'
    obtain ⟨h0, b, v, e1, e2⟩ := hr r hr'
    have hlt : h0 < m.handles.length := by
      by_cases hl : h0 < m.handles.length
      · exact hl
      · simp [List.getElem?_eq_none (Nat.le_of_not_lt hl)] at e1
    have := hk h0 hlt (by simp [e2])
    obtain ⟨v', hv'⟩ := Option.isSome_iff_exists.mp this
    exact ⟨h0, b, v', by rw [ht']; exact prefix_get e1, hv'⟩
  rcases ht with hb | ⟨v, rfl⟩ | ⟨g, rfl⟩
  · intro r hr'
    rw [(st.body hb).2] at hr'
    exact old r hr'
  · simp only [emit] at h
    split at h
    · cases h
    · rename_i m1 i h1
      cases h
      cases fuel with
      | zero => simp [hsem] at hh
      | succ f =>
        simp only [hsem] at hh; cases hh
        intro r hr'
        simp only [bindHandle, List.mem_append, List.mem_singleton] at hr'
        rcases hr' with hr' | rfl
        · rw [(takeReg_same h1).rret] at hr'; exact old r hr'
        · exact ⟨m.handles.length, true, v, by simp [bindHandle, (takeReg_same h1).handles], by simp [HSt.setH]⟩
  · simp only [emit] at h
    unfold emitQop at h
    simp only at h
    split at h
    · cases h
    · rename_i m1 k h1
      cases h
      obtain ⟨_, rfl⟩ := firstUnusedMeas_spec h1
      cases fuel with
      | zero => simp [hsem] at hh
      | succ f =>
        simp only [hsem] at hh; cases hh
        intro r hr'
        simp only [bindHandle, List.mem_append, List.mem_singleton] at hr'
        rcases hr' with hr' | rfl
        · exact old r hr'
        · exact ⟨m.handles.length, true, hs.outcomes.headD 0, by simp [bindHandle], by simp [HSt.setH]⟩

theorem ops_ret : ∀ (ops : List Host) (fuel : Nat) (m m' : Mem) (cs : List PCmd) (hs hs' : HSt) (nh' na' : Nat),
    (∀ op ∈ ops, TopOK op) → emitOps m ops = .ok (m', cs) → RetOK m hs →
    runOps fuel m.handles.length m.arrLens.length ops hs = some (hs', nh', na') → RetOK m' hs'
  | [], fuel, m, m', cs, hs, hs', nh', na', _, h, hr, hh => by
    simp [emitOps] at h; obtain ⟨rfl, _⟩ := h
    simp [runOps] at hh; obtain ⟨rfl, _, _⟩ := hh
    exact hr
  | op :: ops, fuel, m, m', cs, hs, hs', nh', na', ht, h, hr, hh => by
    simp only [emitOps] at h
    split at h
    · cases h
    · rename_i m1 c1 h1
      split at h
      · cases h
      · rename_i m2 c2 h2
        cases h
        simp only [runOps] at hh
        split at hh
        · rename_i hs1 hh1
          have st := emit_stat _ _ _ _ h1
          obtain ⟨t, ht', htl⟩ := st.handles
          obtain ⟨u, hu, hul⟩ := st.lens
          have e1 : m.handles.length + hCount op = m1.handles.length := by rw [ht']; simp [htl]
          have e2 : m.arrLens.length + aCount op = m1.arrLens.length := by rw [hu]; simp [hul]
          rw [e1, e2] at hh
          exact ops_ret ops fuel m1 _ c2 hs1 hs' nh' na' (fun o ho => ht o (by simp [ho])) h2
            (top_ret (ht op (by simp)) h1 hr hh1) hh
        · cases hh


end NQ.Sdk
