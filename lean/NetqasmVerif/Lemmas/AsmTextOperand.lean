/-
C03 text level, operands: the character-level operand parser of C17 (`Text.parseOperand`, the
model of `_parse_operand` / `parse_address` / `_parse_value`) reads back every operand form of a
SOURCE (proto) program — in particular integer literals inside brackets (`@a[5]`, `@a[R1:3]`),
which printed assembled instructions never contain and C17 therefore does not cover.
Reuses the lexing lemmas of `Lemmas/TextOperand.lean`.
-/
import NetqasmVerif.Lemmas.TextOperand
import NetqasmVerif.Model.Asm
namespace NQ.Text
open NQ

variable {S : Syms}

/-- `str` of a bracket value (`Register.__str__` or `str(int)`) -/
def showVal (S : Syms) : PVal → List Char
  | .int v => showInt v
  | .reg r => showReg S r

def valOk (S : Syms) : PVal → Prop
  | .int _ => True
  | .reg r => r.bank < S.banks.length

theorem showVal_chars (hS : SOk S) (p : PVal) (hp : valOk S p) : ∀ c ∈ showVal S p, opChar S c = true := by
  cases p with
  | int v => exact showInt_opChars v
  | reg r => exact showReg_chars hS r hp

theorem parseVal_showVal (hS : SOk S) (p : PVal) (hp : valOk S p) : parseVal S (showVal S p) = .ok p := by
  cases p with
  | int v => exact parseVal_showInt v
  | reg r => exact parseVal_showReg hS r hp

theorem strip_showVal (hS : SOk S) (p : PVal) (hp : valOk S p) : strip (showVal S p) = showVal S p := by
  cases p with
  | int v => exact strip_showInt hS v
  | reg r => exact strip_showReg hS r hp

theorem showVal_ne_nil (p : PVal) : showVal S p ≠ [] := by
  cases p with
  | int v => exact showInt_ne_nil v
  | reg r => simp [showVal, showReg]

theorem showVal_last (p : PVal) : ∃ l c, showVal S p = l ++ [c] ∧ isDigit c = true := by
  cases p with
  | int v => exact showInt_last v
  | reg r =>
    obtain ⟨l, c, hl, hc⟩ := showInt_last r.idx
    exact ⟨bankChar S r.bank :: l, c, by simp [showVal, showReg, hl], hc⟩

def showEntry (S : Syms) (a : Int) (i : PVal) : List Char :=
  S.addrStart :: showInt a ++ S.idxOpen :: showVal S i ++ [S.idxClose]

def showSlice (S : Syms) (a : Int) (s e : PVal) : List Char :=
  S.addrStart :: showInt a ++ S.idxOpen :: showVal S s ++ S.sliceDelim :: showVal S e ++ [S.idxClose]

theorem parseAddress_entry_val (hS : SOk S) (a : Int) (i : PVal) (hi : valOk S i) :
    parseAddress S (showEntry S a i) = .ok (.entry a i) := by
  obtain ⟨h1, h2⟩ := base_facts hS a
  have hw : showEntry S a i = (S.addrStart :: showInt a) ++ S.idxOpen :: (showVal S i ++ [S.idxClose]) := by
    simp [showEntry]
  have hlast : (showEntry S a i).getLast? = some S.idxClose := by
    have : showEntry S a i = ((S.addrStart :: showInt a) ++ S.idxOpen :: showVal S i) ++ [S.idxClose] := by
      simp [showEntry]
    rw [this, List.getLast?_concat]
  have hR := showVal_chars hS i hi
  have hnd : (showVal S i).contains S.sliceDelim = false := by
    simpa using notin_of_not_opChar hR hS.symD.1
  simp only [parseAddress, hlast]
  rw [hw, findChar_append h1]
  simp only [beq_self_eq_true, if_true, List.take_left' rfl, List.drop_left' rfl, h2,
    parseVal_showInt, List.isEmpty_cons, Bool.false_eq_true, if_false,
    inner_eq hS _ hR (showVal_ne_nil i) (strip_showVal hS i hi), hnd, parseVal_showVal hS i hi]

theorem parseAddress_slice_val (hS : SOk S) (a : Int) (s e : PVal) (hs : valOk S s) (he : valOk S e) :
    parseAddress S (showSlice S a s e) = .ok (.slice a s e) := by
  obtain ⟨h1, h2⟩ := base_facts hS a
  let R := showVal S s ++ S.sliceDelim :: showVal S e
  have hw : showSlice S a s e = (S.addrStart :: showInt a) ++ S.idxOpen :: (R ++ [S.idxClose]) := by
    simp [showSlice, R]
  have hlast : (showSlice S a s e).getLast? = some S.idxClose := by
    have : showSlice S a s e = ((S.addrStart :: showInt a) ++ S.idxOpen :: R) ++ [S.idxClose] := by
      simp [showSlice, R]
    rw [this, List.getLast?_concat]
  have hRs := showVal_chars hS s hs
  have hRe := showVal_chars hS e he
  have hns : S.sliceDelim ∉ showVal S s := notin_of_not_opChar hRs hS.symD.1
  have hne : S.sliceDelim ∉ showVal S e := notin_of_not_opChar hRe hS.symD.1
  have hbr : ∀ c ∈ R, (decide (c = S.idxOpen) || decide (c = S.idxClose)) = false := by
    intro c hc
    rcases List.mem_append.1 hc with hc | hc
    · exact isBr_false hS (hRs c hc)
    · rcases List.mem_cons.1 hc with rfl | hc
      · simp [hS.dO, hS.dC]
      · exact isBr_false hS (hRe c hc)
  -- R = c0 :: (mid ++ [d]) with c0, d not spaces
  obtain ⟨l, d, hl, hd⟩ := showVal_last (S := S) e
  obtain ⟨c0, rest, hc0⟩ : ∃ c0 rest, showVal S s = c0 :: rest := by
    cases h : showVal S s with
    | nil => exact absurd h (showVal_ne_nil s)
    | cons c cs => exact ⟨c, cs, rfl⟩
  have hRform : R = c0 :: ((rest ++ S.sliceDelim :: l) ++ [d]) := by simp [R, hc0, hl]
  have hc0s : isSpace c0 = false := opChar_not_space hS (hRs c0 (by rw [hc0]; exact List.mem_cons_self))
  have hds : isSpace d = false := opChar_not_space hS (numChar_opChar (by simp [numChar, hd]))
  have hstrip : strip R = R := by rw [hRform]; exact strip_of_ends hc0s hds
  have hinner : strip (dropWhileEnd (fun c => decide (c = S.idxOpen) || decide (c = S.idxClose))
      ((S.idxOpen :: (R ++ [S.idxClose])).dropWhile
        (fun c => decide (c = S.idxOpen) || decide (c = S.idxClose)))) = R := by
    have h1' : (S.idxOpen :: (R ++ [S.idxClose])).dropWhile
        (fun c => decide (c = S.idxOpen) || decide (c = S.idxClose)) = R ++ [S.idxClose] := by
      simp only [List.dropWhile, decide_true, Bool.true_or]
      rw [hRform]
      exact dropWhile_head (hbr c0 (by rw [hRform]; exact List.mem_cons_self))
    rw [h1', dropWhileEnd_concat_true _ (by simp), dropWhileEnd_all_false hbr, hstrip]
  have hcont : R.contains S.sliceDelim = true := by simp [R]
  have hsplit : splitOn S.sliceDelim R = [showVal S s, showVal S e] := by
    simp only [R]; rw [splitOn_append hns, splitOn_notin hne]
  simp only [parseAddress, hlast]
  rw [hw, findChar_append h1]
  simp only [beq_self_eq_true, if_true, List.take_left' rfl, List.drop_left' rfl, h2,
    parseVal_showInt, List.isEmpty_cons, Bool.false_eq_true, if_false, hinner, hcont, hsplit,
    strip_showVal hS s hs, strip_showVal hS e he, parseVal_showVal hS s hs, parseVal_showVal hS e he]

/-! ### proto operands of the assembler model -/

def valOfRI : Asm.RI → PVal
  | .reg r => .reg r
  | .lit v => .int v

/-- token of a proto operand (labels and templates carry their name) -/
def tokOfP : Asm.POperand → POp
  | .reg r => .reg r
  | .lit v => .lit v
  | .lab l => .label l.toList
  | .tmpl n => .tmpl n.toList
  | .addr a => .addr a
  | .entry a i => .entry a (valOfRI i)
  | .slice a s e => .slice a (valOfRI s) (valOfRI e)

/-- how a source operand is written (`str` of the proto operand) -/
def showPOp (S : Syms) : Asm.POperand → List Char
  | .reg r => showReg S r
  | .lit v => showInt v
  | .lab l => l.toList
  | .tmpl n => '{' :: n.toList ++ ['}']
  | .addr a => S.addrStart :: showInt a
  | .entry a i => showEntry S a (valOfRI i)
  | .slice a s e => showSlice S a (valOfRI s) (valOfRI e)

/-- operands whose text form is covered: registers of an existing bank, and label names that are
variable names but neither numbers nor register names (a label called `R1` IS read as a register) -/
def pOpOk (S : Syms) : Asm.POperand → Prop
  | .reg r => r.bank < S.banks.length
  | .lit _ => True
  | .lab l => parseConst l.toList = none ∧ parseRegister S l.toList = none ∧ isVarName l.toList = true ∧
      l.toList ≠ [] ∧ l.toList.head? ≠ some S.addrStart
  | .tmpl _ => False
  | .addr _ => True
  | .entry _ i => valOk S (valOfRI i)
  | .slice _ s e => valOk S (valOfRI s) ∧ valOk S (valOfRI e)

/-- **source operand level**: the text of every proto operand form parses to its token -/
theorem parseOperand_showPOp (hS : SOk S) (o : Asm.POperand) (ho : pOpOk S o) :
    parseOperand S (showPOp S o) = .ok (tokOfP o) := by
  cases o with
  | reg r =>
    have hb : r.bank < S.banks.length := ho
    exact parseOperand_show hS (.reg r) (by simp [banksOk, hb])
  | lit v => exact parseOperand_show hS (.imm v) (by simp [banksOk])
  | addr a => exact parseOperand_show hS (.addr a) (by simp [banksOk])
  | tmpl n => exact absurd ho (by simp [pOpOk])
  | lab l =>
    obtain ⟨h1, h2, h3, h4, h5⟩ := ho
    simp only [parseOperand, showPOp, tokOfP, beq_iff_eq]
    rw [if_neg h5]
    simp [parseTopVal, h1, h2, h3, h4]
  | entry a i =>
    have : (showPOp S (.entry a i)).head? = some S.addrStart := by simp [showPOp, showEntry]
    simp only [parseOperand, this, beq_self_eq_true, if_true, tokOfP]
    exact parseAddress_entry_val hS a _ ho
  | slice a s e =>
    have : (showPOp S (.slice a s e)).head? = some S.addrStart := by simp [showPOp, showSlice]
    simp only [parseOperand, this, beq_self_eq_true, if_true, tokOfP]
    exact parseAddress_slice_val hS a _ _ ho.1 ho.2

end NQ.Text
