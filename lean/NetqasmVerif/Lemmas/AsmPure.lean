/-
C03: the assembler as a function of VALUES.

* `IR` / `deref`: a proto program as programs build it — commands, operand lists and bracket
  operands are objects that may be shared; its meaning is `deref ir`, the list of command values.
  `assembleIR` is what `assemble_subroutine` has to compute on such an IR.
* `assembleProto_final`: a program that is already in assembled form (no labels, every literal at
  an exempt position, registers inside brackets) is a fixed point of the three passes — so
  assembling the SAME ProtoSubroutine object a second time (the passes rewrite the IR in place, by
  design) gives the same subroutine.
-/
import NetqasmVerif.Lemmas.AsmBuild
namespace NQ.Asm
open NQ

/-! ### IR with shared objects -/

/-- object graph of a `ProtoSubroutine`: `cmds[i]` names a command object, a command object names
its operands-list object, a list object names operand objects -/
structure IR where
  order : List Nat                       -- the command objects in program order (an object may occur twice)
  cmdObj : Nat → Option (Sum String (String × List Int × Nat))   -- label | (mnemonic, args, operands-list object)
  listObj : Nat → List Nat               -- operands-list object ↦ operand objects
  opObj : Nat → POperand                 -- operand object ↦ its value

def IR.deref (ir : IR) : List PCmd :=
  ir.order.filterMap (fun c =>
    match ir.cmdObj c with
    | none => none
    | some (.inl l) => some (.label l)
    | some (.inr (mn, args, lst)) => some (.instr mn args ((ir.listObj lst).map ir.opObj)))

/-- what `assemble_subroutine` must return for an IR: the assembly of its values -/
def assembleIR (T : Table) (exc : List (String × Nat)) (n : Nat) (ir : IR) (reserved : List Reg := []) :
    Except Err (List Instr) :=
  assemble T exc n ir.deref reserved

/-! ### programs in assembled form are fixed points -/

def riFinal : RI → Bool
  | .reg _ => true
  | .lit _ => false

/-- an operand the constant replacement leaves alone (`keep`: the position is exempt) -/
def opFinal (keep : Bool) : POperand → Bool
  | .lit _ => keep
  | .entry _ i => riFinal i
  | .slice _ s e => riFinal s && riFinal e
  | _ => true

def opsFinal (exc : List (String × Nat)) (mn : String) : Nat → List POperand → Bool
  | _, [] => true
  | j, o :: os => opFinal (exc.contains (mn, j)) o && opsFinal exc mn (j + 1) os

def cmdFinal (exc : List (String × Nat)) : PCmd → Bool
  | .label _ => false
  | .instr mn _ ops => opsFinal exc mn 0 ops && ops.all (fun o => match o with | .lab _ => false | _ => true)

theorem rcRI_final {c : RcCfg} {x : RI} (h : riFinal x = true) (tmp : List Reg) : rcRI c x tmp = .ok ([], x, tmp) := by
  cases x with
  | reg r => rfl
  | lit v => cases h

theorem rcOp_final {c : RcCfg} {mn : String} {j : Nat} {o : POperand}
    (h : opFinal (c.exc.contains (mn, j)) o = true) (tmp : List Reg) : rcOp c mn j o tmp = .ok ([], o, tmp) := by
  cases o with
  | lit v => simp only [opFinal] at h; simp only [rcOp, h, if_true]
  | entry a i => simp only [opFinal] at h; simp [rcOp, rcRI_final h]
  | slice a s e =>
    simp only [opFinal, Bool.and_eq_true] at h
    simp [rcOp, rcRI_final h.1, rcRI_final h.2]
  | reg r => rfl
  | lab l => rfl
  | tmpl l => rfl
  | addr a => rfl

theorem rcOps_final {c : RcCfg} {mn : String} {j : Nat} {ops : List POperand}
    (h : opsFinal c.exc mn j ops = true) (tmp : List Reg) : rcOps c mn j ops tmp = .ok ([], ops, tmp) := by
  induction ops generalizing j with
  | nil => rfl
  | cons o os ih =>
    simp only [opsFinal, Bool.and_eq_true] at h
    simp [rcOps, rcOp_final h.1, ih h.2]

theorem rcAll_final {c : RcCfg} {P : List PCmd} (h : P.all (cmdFinal c.exc) = true) : rcAll c P = .ok P := by
  induction P with
  | nil => rfl
  | cons x xs ih =>
    simp only [List.all_cons, Bool.and_eq_true] at h
    cases x with
    | label l => simp [cmdFinal] at h
    | instr mn args ops =>
      have h1 := h.1
      simp only [cmdFinal, Bool.and_eq_true] at h1
      simp [rcAll, rcCmd, rcOps_final h1.1, ih h.2, setCmd]

theorem labelTable_final {exc : List (String × Nat)} {P : List PCmd} (h : P.all (cmdFinal exc) = true) (n : Nat) :
    labelTable P n = [] := by
  induction P generalizing n with
  | nil => rfl
  | cons x xs ih =>
    simp only [List.all_cons, Bool.and_eq_true] at h
    cases x with
    | label l => simp [cmdFinal] at h
    | instr mn args ops => simp [labelTable, ih h.2]

theorem patch_nil (o : POperand) : patchOp [] o = o := by
  cases o <;> simp [patchOp, lookupLabel]

theorem map_patch_nil (ops : List POperand) : ops.map (patchOp []) = ops := by
  induction ops with
  | nil => rfl
  | cons o os ih => simp [patch_nil, ih]

theorem filterMap_patch_final {exc : List (String × Nat)} {P : List PCmd} (h : P.all (cmdFinal exc) = true) :
    P.filterMap (patchCmd []) = P := by
  induction P with
  | nil => rfl
  | cons x xs ih =>
    simp only [List.all_cons, Bool.and_eq_true] at h
    cases x with
    | label l => simp [cmdFinal] at h
    | instr mn args ops =>
      have : ops.map (patchOp []) = ops := map_patch_nil ops
      simp [List.filterMap_cons, patchCmd, this, ih h.2]

theorem noArgs_makeArgs_id {P : List PCmd} (h : NoArgs P) : makeArgsOperands P = P := by
  induction P with
  | nil => rfl
  | cons x xs ih =>
    have := ih (fun mn a o hm => h mn a o (List.mem_cons_of_mem _ hm))
    cases x with
    | label l => simp only [makeArgsOperands, List.map_cons, makeArgsCmd] at this ⊢; rw [this]
    | instr mn a o =>
      have ha : a = [] := h mn a o (by simp)
      subst ha
      simp only [makeArgsOperands, List.map_cons, makeArgsCmd, allOps, List.map_nil, List.nil_append] at this ⊢
      rw [this]

/-- **a program in assembled form is a fixed point of the rewriting passes**, whatever the
reserved set -/
theorem assembleProto_final {exc : List (String × Nat)} {n : Nat} {P : List PCmd} (reserved : List Reg)
    (hna : NoArgs P) (h : P.all (cmdFinal exc) = true) : assembleProto exc n P reserved = .ok P := by
  simp only [assembleProto, replaceConstants, noArgs_makeArgs_id hna]
  rw [rcAll_final (c := ⟨exc, n, currentRegisters P ++ reserved⟩) h]
  simp [assignBranchLabels, labelTable_final h, hasDup, filterMap_patch_final h]

/-! ### what `build` accepts is in assembled form -/

def isImmKind : FieldKind → Bool
  | .imm8 | .int32 => true
  | _ => false

/-- decidable table condition: every immediate position of the row is exempt -/
def immExempt (exc : List (String × Nat)) (mn : String) : Nat → List FieldKind → Bool
  | _, [] => true
  | j, k :: ks => (!isImmKind k || exc.contains (mn, j)) && immExempt exc mn (j + 1) ks

theorem buildOps_final {exc : List (String × Nat)} {mn : String} {j : Nat} {ks : List FieldKind}
    {os : List POperand} {xs : List Operand} (hb : buildOps ks os = some xs) (he : immExempt exc mn j ks = true) :
    opsFinal exc mn j os = true ∧ os.all (fun o => match o with | .lab _ => false | _ => true) = true := by
  induction os generalizing ks j xs with
  | nil => exact ⟨rfl, rfl⟩
  | cons o os ih =>
    cases ks with
    | nil => simp [buildOps] at hb
    | cons k ks' =>
      simp only [buildOps] at hb
      cases h1 : buildOp k o with
      | none => simp [h1] at hb
      | some x =>
        cases h2 : buildOps ks' os with
        | none => simp [h1, h2] at hb
        | some xs' =>
          simp only [immExempt, Bool.and_eq_true] at he
          obtain ⟨a, b⟩ := ih h2 he.2
          refine ⟨?_, ?_⟩
          · simp only [opsFinal, a, Bool.and_true]
            cases k <;> cases o <;> simp only [buildOp] at h1 <;> try (cases h1)
            all_goals first
              | rfl
              | (simp only [opFinal]; simpa [isImmKind] using he.1)
              | skip
            · rename_i a' i
              cases i <;> simp [buildRI] at h1 <;> simp [opFinal, riFinal]
            · rename_i a' s e
              cases s <;> cases e <;> simp [buildRI] at h1 <;> simp [opFinal, riFinal]
          · simp only [List.all_cons, b, Bool.and_true]
            cases k <;> cases o <;> simp only [buildOp] at h1 <;> first | rfl | cases h1

theorem buildAll_final {T : Table} {exc : List (String × Nat)}
    (hE : T.all (fun r => immExempt exc r.mn 0 r.shape) = true) {P2 : List PCmd} {A : List Instr}
    (h : buildAll T P2 = .ok A) : P2.all (cmdFinal exc) = true := by
  induction P2 generalizing A with
  | nil => rfl
  | cons c cs ih =>
    simp only [buildAll] at h
    cases h1 : build T c with
    | error e => simp [h1] at h
    | ok i =>
      simp only [h1] at h
      cases h2 : buildAll T cs with
      | error e => simp [h2] at h
      | ok is =>
        simp only [List.all_cons, ih h2, Bool.and_true]
        cases c with
        | label l => simp [build] at h1
        | instr mn args ops =>
          simp only [build] at h1
          cases hn : nameMap T mn with
          | none => simp [hn] at h1
          | some row =>
            simp only [hn] at h1
            cases hb : buildOps row.shape ops with
            | none => simp [hb] at h1
            | some os =>
              have hm := lastBy_some_mem hn
              have hmn : row.mn = mn := by simpa using hm.2
              have he := (List.all_eq_true.1 hE) row hm.1
              rw [hmn] at he
              obtain ⟨a, b⟩ := buildOps_final hb he
              simp [cmdFinal, a, b]

/-- **assembling twice.**  After `assemble_subroutine` the IR holds the rewritten commands (the passes
work in place); assembling that IR again — with any reserved set — gives the same subroutine. -/
theorem assemble_twice {T : Table} (hT : TableOk T) {exc : List (String × Nat)}
    (hE : T.all (fun r => immExempt exc r.mn 0 r.shape) = true) {n : Nat} {P : List PCmd} {A : List Instr}
    {reserved : List Reg} (h : assemble T exc n P reserved = .ok A) (reserved' : List Reg) :
    assemble T exc n (A.map (embed T)) reserved' = .ok A := by
  obtain ⟨P2, h1, h2⟩ := assemble_inv h
  have hna := noArgs_assembleProto h1
  have hemb := buildAll_embed hT hna h2
  rw [hemb]
  have hfin := buildAll_final hE h2
  simp only [assemble, assembleProto_final reserved' hna hfin, h2]

/-- **`assemble_pure`**: the model has no object identity — two IRs with the same command VALUES,
however their objects are shared, assemble to the same subroutine -/
theorem assemble_pure (T : Table) (exc : List (String × Nat)) (n : Nat) (reserved : List Reg) (ir₁ ir₂ : IR)
    (h : ir₁.deref = ir₂.deref) : assembleIR T exc n ir₁ reserved = assembleIR T exc n ir₂ reserved := by
  simp only [assembleIR, h]

end NQ.Asm
