/-
Compiler correctness of the SDK builder model (C05), part 1: placement of code in a subroutine,
register frames, the simulation relation between `HostSem` states and controller states.
-/
import NetqasmVerif.Lemmas.SdkSem
import NetqasmVerif.Lemmas.SdkLabels
import NetqasmVerif.Lemmas.SdkWrites
set_option linter.unusedSimpArgs false
set_option linter.unusedVariables false
namespace NQ.Sdk

/-! ## code placed in a subroutine -/

/-- `cs` sits at offset `n` of the subroutine `p` and its label commands resolve to themselves -/
structure Placed (p : List PCmd) (n : Nat) (cs : List PCmd) : Prop where
  code : ∀ k, k < cs.length → p[n + k]? = cs[k]?
  labs : ∀ k l, cs[k]? = some (.label l) → findLabel p l = some (n + k)

theorem Placed.left {p : List PCmd} {n : Nat} {A B : List PCmd} (h : Placed p n (A ++ B)) : Placed p n A := by
  constructor
  · intro k hk
    rw [h.code k (by simp; omega), List.getElem?_append_left hk]
  · intro k l hl
    have hk : k < A.length := by
      by_cases hk : k < A.length
      · exact hk
      · simp [List.getElem?_eq_none (Nat.le_of_not_lt hk)] at hl
    exact h.labs k l (by rw [List.getElem?_append_left hk]; exact hl)

theorem Placed.right {p : List PCmd} {n : Nat} {A B : List PCmd} (h : Placed p n (A ++ B)) :
    Placed p (n + A.length) B := by
  constructor
  · intro k hk
    have := h.code (A.length + k) (by simp; omega)
    rw [List.getElem?_append_right (by omega)] at this
    simp only [Nat.add_sub_cancel_left] at this
    rw [← this, Nat.add_assoc]
  · intro k l hl
    have := h.labs (A.length + k) l (by
      rw [List.getElem?_append_right (by omega)]; simpa using hl)
    rw [this, Nat.add_assoc]

theorem Placed.mid {p : List PCmd} {n : Nat} {A B C : List PCmd} (h : Placed p n (A ++ B ++ C)) :
    Placed p (n + A.length) B := by
  rw [List.append_assoc] at h
  exact h.right.left

theorem Placed.head {p : List PCmd} {n : Nat} {c : PCmd} {cs : List PCmd} (h : Placed p n (c :: cs)) :
    p[n]? = some c := by
  have := h.code 0 (by simp)
  simpa using this

theorem Placed.tail {p : List PCmd} {n : Nat} {c : PCmd} {cs : List PCmd} (h : Placed p n (c :: cs)) :
    Placed p (n + 1) cs := by
  have : c :: cs = [c] ++ cs := rfl
  rw [this] at h
  exact h.right

theorem Placed.label {p : List PCmd} {n : Nat} {l : Lbl} {cs : List PCmd}
    (h : Placed p n (.label l :: cs)) : findLabel p l = some n := by
  have := h.labs 0 l (by simp)
  simpa using this

theorem Placed.nil (p : List PCmd) (n : Nat) : Placed p n [] :=
  ⟨fun k hk => by simp at hk, fun k l hl => by simp at hl⟩

/-- the whole subroutine, when its label commands are pairwise distinct -/
theorem Placed.whole (p : List PCmd) (h : (labelsIn p).Nodup) : Placed p 0 p :=
  ⟨fun k _ => by simp, fun k l hl => by simpa using findLabel_of_nodup p k l h hl⟩

/-! ## running single commands -/

theorem Runs.refl (p : List PCmd) (n : Nat) (s : St) : Runs p n 0 s s := Steps.refl _

theorem runs_one {p : List PCmd} {n : Nat} {s s' : St} (h : step p (s, n) = some (s', n + 1)) :
    Runs p n 1 s s' := Steps.one h

theorem runs_instr {p : List PCmd} {n : Nat} {mn : Mn} {ops : List POp} {s s' : St}
    (hp : p[n]? = some (.instr mn ops)) (he : exec p s n mn ops = some (s', n + 1)) : Runs p n 1 s s' := by
  apply runs_one; rw [step_instr s hp]; exact he

theorem runs_label {p : List PCmd} {n : Nat} {l : Lbl} (s : St) (hp : p[n]? = some (.label l)) :
    Runs p n 1 s s := runs_one (step_label s hp)

theorem runs_cons {p : List PCmd} {n len : Nat} {s s1 s2 : St}
    (h1 : Runs p n 1 s s1) (h2 : Runs p (n + 1) len s1 s2) : Runs p n (len + 1) s s2 := by
  have := runs_seq h1 h2
  rwa [Nat.add_comm] at this

theorem runs_cast {p : List PCmd} {n len len' : Nat} {s s' : St} (h : Runs p n len s s') (e : len = len') :
    Runs p n len' s s' := by subst e; exact h

/-! ## frames -/

/-- `ts'` differs from `ts` at most on R registers that are inactive in `a` (temporaries) -/
structure TmpEq (a : List Bool) (ts ts' : St) : Prop where
  arrs : ts'.arrs = ts.arrs
  trace : ts'.trace = ts.trace
  outs : ts'.outcomes = ts.outcomes
  shmR : ts'.shmRegs = ts.shmRegs
  shmA : ts'.shmArrs = ts.shmArrs
  regs : ∀ x, ¬ TmpIn a x → ts'.regs x = ts.regs x

theorem TmpEq.refl (a : List Bool) (ts : St) : TmpEq a ts ts := ⟨rfl, rfl, rfl, rfl, rfl, fun _ _ => rfl⟩

theorem TmpEq.trans {a : List Bool} {s1 s2 s3 : St} (h1 : TmpEq a s1 s2) (h2 : TmpEq a s2 s3) :
    TmpEq a s1 s3 :=
  ⟨h2.arrs.trans h1.arrs, h2.trace.trans h1.trace, h2.outs.trans h1.outs, h2.shmR.trans h1.shmR,
   h2.shmA.trans h1.shmA, fun x hx => (h2.regs x hx).trans (h1.regs x hx)⟩

theorem TmpEq.mono {a a' : List Bool} {s1 s2 : St} (h : TmpEq a' s1 s2)
    (ha : ∀ x, TmpIn a' x → TmpIn a x) : TmpEq a s1 s2 :=
  ⟨h.arrs, h.trace, h.outs, h.shmR, h.shmA, fun x hx => h.regs x (fun hc => hx (ha x hc))⟩

theorem TmpEq.of_set {a : List Bool} {t : Nat} {s1 s2 : St} (h : TmpEq (a.set t true) s1 s2) : TmpEq a s1 s2 :=
  h.mono (fun _ hx => hx.of_set)

theorem TmpEq.setReg {a : List Bool} {s1 s2 : St} {r : Reg} (h : TmpEq a s1 s2) (hr : TmpIn a r) (v : Int) :
    TmpEq a s1 (s2.setReg r v) :=
  ⟨h.arrs, h.trace, h.outs, h.shmR, h.shmA, fun x hx => by
    have : x ≠ r := by intro e; subst e; exact hx hr
    rw [St.setReg_regs_ne _ _ this]; exact h.regs x hx⟩

/-- a register that holds the value of a live handle: an active R register or a used M register -/
def Prot (act mu : List Bool) (r : Reg) : Prop :=
  (r.bank = 0 ∧ act.getD r.idx false = true) ∨ (r.bank = 3 ∧ mu.getD r.idx false = true)

theorem Prot.not_tmp {act mu : List Bool} {r : Reg} (h : Prot act mu r) : ¬ TmpIn act r := by
  intro ht
  rcases h with h | h
  · exact ht.not_active h.2
  · have := ht.1; omega

theorem TmpIn.not_prot {act mu : List Bool} {r : Reg} (h : TmpIn act r) : ¬ Prot act mu r :=
  fun hp => hp.not_tmp h

/-- pointwise inclusion of flag sets -/
def Sub (a a' : List Bool) : Prop := ∀ i, a.getD i false = true → a'.getD i false = true

theorem Sub.refl (a : List Bool) : Sub a a := fun _ h => h
theorem Sub.set (a : List Bool) (t : Nat) : Sub a (a.set t true) := fun _ h => active_mono_set h
theorem Sub.trans {a b c : List Bool} (h1 : Sub a b) (h2 : Sub b c) : Sub a c := fun i h => h2 i (h1 i h)

theorem Prot.mono {act act' mu : List Bool} {r : Reg} (h : Prot act mu r) (hs : Sub act act') : Prot act' mu r := by
  rcases h with h | h
  · exact Or.inl ⟨h.1, hs _ h.2⟩
  · exact Or.inr h

theorem TmpIn.sub {a a' : List Bool} {x : Reg} (h : TmpIn a' x) (hs : Sub a a') (hl : a'.length = a.length) :
    TmpIn a x := by
  refine ⟨h.1, ?_⟩
  have hlt := getD_true_false_lt h.2
  have hlt' : x.idx < a.length := by omega
  cases hv : a.getD x.idx true with
  | false => rfl
  | true =>
    have : a.getD x.idx false = true := by
      simp [List.getD, List.getElem?_eq_getElem hlt'] at hv ⊢; exact hv
    exact absurd (hs _ this) h.not_active

/-! ## the simulation relation -/

/-- `H`: the (final) handle table; `L`: the (final) table of array lengths; `act`/`mu`: the register
flags of the memory manager at this point of the compilation -/
structure Rel (H : List (Reg × Bool)) (L MH : List Nat) (act mu : List Bool) (hs : HSt) (ts : St) : Prop where
  arrs : ts.arrs = hs.arrs
  trace : ts.trace = hs.trace
  outs : ts.outcomes = hs.outcomes
  regs : ∀ h v, hs.hregs h = some v → ∃ r b, H[h]? = some (r, b) ∧ ts.regs r = some v ∧ Prot act mu r
  inj : ∀ h1 h2 v1 v2 r b1 b2, hs.hregs h1 = some v1 → hs.hregs h2 = some v2 →
    H[h1]? = some (r, b1) → H[h2]? = some (r, b2) → h1 = h2
  lens : ∀ a n, L[a]? = some n → ∃ l, hs.arrs a = some l ∧ l.length = n
  /-- the live handles that sit in measurement registers are the ones recorded in `MH` -/
  mh : ∀ h v r b, hs.hregs h = some v → H[h]? = some (r, b) → r.bank = 3 → h ∈ MH

theorem Rel.tmp {H : List (Reg × Bool)} {L MH : List Nat} {act mu : List Bool} {hs : HSt} {ts ts' : St}
    (h : Rel H L MH act mu hs ts) (ht : TmpEq act ts ts') : Rel H L MH act mu hs ts' :=
  ⟨ht.arrs.trans h.arrs, ht.trace.trans h.trace, ht.outs.trans h.outs,
   fun hh v hv => by
     obtain ⟨r, b, h1, h2, h3⟩ := h.regs hh v hv
     exact ⟨r, b, h1, (ht.regs r h3.not_tmp).trans h2, h3⟩,
   h.inj, h.lens, h.mh⟩

theorem Rel.reg_val {H : List (Reg × Bool)} {L MH : List Nat} {act mu : List Bool} {hs : HSt} {ts : St}
    (h : Rel H L MH act mu hs ts) {hh : Nat} {v : Int} {r : Reg} {b : Bool}
    (hv : hs.hregs hh = some v) (hH : H[hh]? = some (r, b)) : ts.regs r = some v ∧ Prot act mu r := by
  obtain ⟨r', b', h1, h2, h3⟩ := h.regs hh v hv
  rw [hH] at h1; cases h1
  exact ⟨h2, h3⟩

theorem Rel.setReg_unprot {H : List (Reg × Bool)} {L MH : List Nat} {act mu : List Bool} {hs : HSt} {ts : St}
    (h : Rel H L MH act mu hs ts) {r : Reg} (hr : ¬ Prot act mu r) (v : Int) : Rel H L MH act mu hs (ts.setReg r v) :=
  ⟨h.arrs, h.trace, h.outs,
   fun hh x hx => by
     obtain ⟨r', b, h1, h2, h3⟩ := h.regs hh x hx
     have : r' ≠ r := by intro e; subst e; exact hr h3
     exact ⟨r', b, h1, by rw [St.setReg_regs_ne _ _ this]; exact h2, h3⟩,
   h.inj, h.lens, h.mh⟩

theorem Rel.setArr {H : List (Reg × Bool)} {L MH : List Nat} {act mu : List Bool} {hs : HSt} {ts : St}
    (h : Rel H L MH act mu hs ts) {a : Nat} {l l' : List (Option Int)} (ha : hs.arrs a = some l)
    (hl : l'.length = l.length) : Rel H L MH act mu (hs.setArr a l') (ts.setArr a l') :=
  ⟨by simp [St.setArr, HSt.setArr, h.arrs], h.trace, h.outs, h.regs, h.inj,
   fun a' n hn => by
     obtain ⟨l0, h0, h1⟩ := h.lens a' n hn
     by_cases e : a' = a
     · subst e
       rw [ha] at h0; cases h0
       exact ⟨l', by simp [HSt.setArr], by rw [hl, h1]⟩
     · exact ⟨l0, by simp [HSt.setArr, e, h0], h1⟩,
   h.mh⟩

/-- binding a fresh handle to a register that nobody owns -/
theorem Rel.bind {H : List (Reg × Bool)} {L MH MH' : List Nat} {act act' mu mu' : List Bool} {hs : HSt} {ts : St}
    (h : Rel H L MH act mu hs ts) {nh : Nat} {r : Reg} {b : Bool} (hH : H[nh]? = some (r, b))
    (hr : ¬ Prot act mu r) (hp : Prot act' mu' r) (hsub : ∀ x, Prot act mu x → Prot act' mu' x) (v : Int)
    (hMH : ∀ x, x ∈ MH → x ∈ MH') (hnew : r.bank = 3 → nh ∈ MH') :
    Rel H L MH' act' mu' (hs.setH nh v) (ts.setReg r v) := by
  refine ⟨h.arrs, h.trace, h.outs, ?_, ?_, h.lens, ?_⟩
  rotate_left 2
  · intro hh x r0 b0 hx hH0 hb0
    by_cases e : hh = nh
    · subst e; rw [hH] at hH0; cases hH0; exact hnew hb0
    · simp [HSt.setH, e] at hx
      exact hMH _ (h.mh hh x r0 b0 hx hH0 hb0)
  · intro hh x hx
    by_cases e : hh = nh
    · subst e
      simp [HSt.setH] at hx; subst hx
      exact ⟨r, b, hH, by simp, hp⟩
    · simp [HSt.setH, e] at hx
      obtain ⟨r', b', h1, h2, h3⟩ := h.regs hh x hx
      have : r' ≠ r := by intro e'; subst e'; exact hr h3
      exact ⟨r', b', h1, by rw [St.setReg_regs_ne _ _ this]; exact h2, hsub _ h3⟩
  · intro h1 h2 v1 v2 r0 b1 b2 hv1 hv2 hH1 hH2
    by_cases e1 : h1 = nh
    · by_cases e2 : h2 = nh
      · rw [e1, e2]
      · exfalso
        subst e1
        simp [HSt.setH, e2] at hv2
        rw [hH] at hH1; cases hH1
        exact hr (h.reg_val hv2 hH2).2
    · by_cases e2 : h2 = nh
      · exfalso
        subst e2
        simp [HSt.setH, e1] at hv1
        rw [hH] at hH2; cases hH2
        exact hr (h.reg_val hv1 hH1).2
      · simp [HSt.setH, e1] at hv1
        simp [HSt.setH, e2] at hv2
        exact h.inj h1 h2 v1 v2 r0 b1 b2 hv1 hv2 hH1 hH2

/-- a handle dies and its register is given back -/
theorem Rel.unbind {H : List (Reg × Bool)} {L MH : List Nat} {act mu : List Bool} {hs : HSt} {ts : St}
    {i : Nat} (h : Rel H L MH (act.set i true) mu hs ts) {nh : Nat} {b : Bool} {v : Int}
    (hH : H[nh]? = some (R i, b)) (hv : hs.hregs nh = some v) :
    Rel H L MH act mu (hs.clearH nh) ts := by
  refine ⟨h.arrs, h.trace, h.outs, ?_, ?_, h.lens, ?_⟩
  rotate_left 2
  · intro hh x r0 b0 hx hH0 hb0
    by_cases e : hh = nh
    · subst e; simp [HSt.clearH] at hx
    · simp [HSt.clearH, e] at hx
      exact h.mh hh x r0 b0 hx hH0 hb0
  · intro hh x hx
    by_cases e : hh = nh
    · subst e; simp [HSt.clearH] at hx
    · simp [HSt.clearH, e] at hx
      obtain ⟨r', b', h1, h2, h3⟩ := h.regs hh x hx
      have hne : r' ≠ R i := by
        intro e'; subst e'
        exact e (h.inj hh nh x v (R i) b' b hx hv h1 hH)
      refine ⟨r', b', h1, h2, ?_⟩
      rcases h3 with h3 | h3
      · left
        refine ⟨h3.1, ?_⟩
        have : i ≠ r'.idx := by
          intro e'; apply hne
          cases r' with | mk bank idx => simp [R] at *; exact ⟨h3.1, e'.symm⟩
        rw [getD_set_ne this] at h3; exact h3.2
      · exact Or.inr h3
  · intro h1 h2 v1 v2 r0 b1 b2 hv1 hv2 hH1 hH2
    by_cases e1 : h1 = nh
    · subst e1; simp [HSt.clearH] at hv1
    · by_cases e2 : h2 = nh
      · subst e2; simp [HSt.clearH] at hv2
      · simp [HSt.clearH, e1] at hv1
        simp [HSt.clearH, e2] at hv2
        exact h.inj h1 h2 v1 v2 r0 b1 b2 hv1 hv2 hH1 hH2

/-- a live handle and its register are updated together -/
theorem Rel.setBoth {H : List (Reg × Bool)} {L MH : List Nat} {act mu : List Bool} {hs : HSt} {ts : St}
    (h : Rel H L MH act mu hs ts) {hh : Nat} {r : Reg} {b : Bool} {x : Int} (hv : hs.hregs hh = some x)
    (hH : H[hh]? = some (r, b)) (v : Int) : Rel H L MH act mu (hs.setH hh v) (ts.setReg r v) := by
  have hp := (h.reg_val hv hH).2
  refine ⟨h.arrs, h.trace, h.outs, ?_, ?_, h.lens, ?_⟩
  rotate_left 2
  · intro h' x' r0 b0 hx' hH0 hb0
    by_cases e : h' = hh
    · subst e; exact h.mh h' x r0 b0 hv hH0 hb0
    · simp [HSt.setH, e] at hx'
      exact h.mh h' x' r0 b0 hx' hH0 hb0
  · intro h' x' hx'
    by_cases e : h' = hh
    · subst e
      simp [HSt.setH] at hx'; subst hx'
      exact ⟨r, b, hH, by simp, hp⟩
    · simp [HSt.setH, e] at hx'
      obtain ⟨r', b', h1, h2, h3⟩ := h.regs h' x' hx'
      have : r' ≠ r := by
        intro e'; subst e'
        exact e (h.inj h' hh x' x r' b' b hx' hv h1 hH)
      exact ⟨r', b', h1, by rw [St.setReg_regs_ne _ _ this]; exact h2, h3⟩
  · intro h1 h2 v1 v2 r0 b1 b2 hv1 hv2 hH1 hH2
    have d1 : ∃ w, hs.hregs h1 = some w := by
      by_cases e : h1 = hh
      · subst e; exact ⟨x, hv⟩
      · simp [HSt.setH, e] at hv1; exact ⟨v1, hv1⟩
    have d2 : ∃ w, hs.hregs h2 = some w := by
      by_cases e : h2 = hh
      · subst e; exact ⟨x, hv⟩
      · simp [HSt.setH, e] at hv2; exact ⟨v2, hv2⟩
    obtain ⟨w1, hw1⟩ := d1
    obtain ⟨w2, hw2⟩ := d2
    exact h.inj h1 h2 w1 w2 r0 b1 b2 hw1 hw2 hH1 hH2

end NQ.Sdk
