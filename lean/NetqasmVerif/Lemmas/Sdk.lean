/-
Helper lemmas for C14: the register pool of the SDK memory manager.
-/
import NetqasmVerif.Model.Sdk
namespace NQ.Sdk

/-! ## flags -/

theorem firstFree_spec : ∀ (l : List Bool) (i : Nat), firstFree l = some i → l.getD i true = false
  | [], i, h => by simp [firstFree] at h
  | b :: bs, i, h => by
    unfold firstFree at h
    cases b with
    | false => simp at h; subst h; simp
    | true =>
      simp only [if_true] at h
      cases hf : firstFree bs with
      | none => simp [hf] at h
      | some j =>
        simp [hf] at h; subst h
        have := firstFree_spec bs j hf
        simpa using this

theorem getD_true_false_lt {l : List Bool} {i : Nat} (h : l.getD i true = false) : i < l.length := by
  by_cases hi : i < l.length
  · exact hi
  · simp [List.getD, List.getElem?_eq_none (Nat.le_of_not_lt hi)] at h

theorem getD_false_true_lt {l : List Bool} {i : Nat} (h : l.getD i false = true) : i < l.length := by
  by_cases hi : i < l.length
  · exact hi
  · simp [List.getD, List.getElem?_eq_none (Nat.le_of_not_lt hi)] at h

theorem set_same {l : List Bool} {i : Nat} {b : Bool} (h : l.getD i (!b) = b) : l.set i b = l := by
  apply List.ext_getElem
  · simp
  · intro j h1 h2
    by_cases hij : i = j
    · subst hij
      simp [List.getD, List.getElem?_eq_getElem (by simpa using h1)] at h
      simp [h]
    · simp [List.getElem_set, hij]

/-- take then give back: the flags are what they were -/
theorem set_restore {l : List Bool} {i : Nat} (h : l.getD i true = false) :
    (l.set i true).set i false = l := by
  rw [List.set_set]
  exact set_same (b := false) (by simpa using h)

theorem getD_set_self {l : List Bool} {i : Nat} (h : i < l.length) (b d : Bool) :
    (l.set i b).getD i d = b := by
  simp [List.getD, List.getElem?_set, h]

theorem getD_set_ne {l : List Bool} {i j : Nat} (h : i ≠ j) (b d : Bool) :
    (l.set i b).getD j d = l.getD j d := by
  simp [List.getD, List.getElem?_set, h]

/-! ## activate / release / takeReg -/

theorem getInactive_spec {m : Mem} {i : Nat} (h : getInactive m = .ok i) :
    m.active.getD i true = false := by
  unfold getInactive at h
  split at h
  · rename_i j hj
    cases h
    exact firstFree_spec _ _ hj
  · cases h

theorem activate_spec {m m' : Mem} {i : Nat} (h : activate m i = .ok m') :
    m.active.getD i true = false ∧ m'.active = m.active.set i true ∧
    m'.measUsed = m.measUsed ∧ m'.regsToReturn = m.regsToReturn ∧
    m'.arraysToReturn = m.arraysToReturn ∧ m'.arrLens = m.arrLens ∧ m'.lbl = m.lbl ∧
    m'.handles = m.handles := by
  unfold activate at h
  split at h
  · cases h
  · rename_i hf
    cases h
    simp at hf
    simp [hf]

theorem release_spec {m m' : Mem} {i : Nat} (h : release m i = .ok m') :
    m.active.getD i false = true ∧ m'.active = m.active.set i false ∧
    m'.measUsed = m.measUsed ∧ m'.regsToReturn = m.regsToReturn ∧
    m'.arraysToReturn = m.arraysToReturn ∧ m'.arrLens = m.arrLens ∧ m'.lbl = m.lbl ∧
    m'.handles = m.handles ∧ m'.peak = m.peak := by
  unfold release at h
  split at h
  · rename_i hf
    cases h
    exact ⟨hf, rfl, rfl, rfl, rfl, rfl, rfl, rfl, rfl⟩
  · cases h

theorem takeReg_spec {m m' : Mem} {i : Nat} (h : takeReg m = .ok (m', i)) :
    m.active.getD i true = false ∧ m'.active = m.active.set i true ∧ m'.handles = m.handles
    ∧ m'.arrLens = m.arrLens := by
  unfold takeReg at h
  split at h
  · cases h
  · rename_i j hj
    split at h
    · cases h
    · rename_i m1 hm1
      cases h
      have := activate_spec hm1
      exact ⟨this.1, this.2.1, this.2.2.2.2.2.2.2, this.2.2.2.2.2.1⟩

theorem takeAt_spec {m m' : Mem} {rg : Option Nat} {i : Nat} (h : takeAt m rg = .ok (m', i)) :
    m.active.getD i true = false ∧ m'.active = m.active.set i true ∧ m'.handles = m.handles
    ∧ m'.arrLens = m.arrLens := by
  cases rg with
  | none => exact takeReg_spec h
  | some j =>
    simp only [takeAt] at h
    split at h
    · cases h
    · rename_i m1 h1
      cases h
      have := activate_spec h1
      exact ⟨this.1, this.2.1, this.2.2.2.2.2.2.2, this.2.2.2.2.2.1⟩

/-- release of a register that was taken from `a` and is still flagged: back to `a` -/
theorem release_after_take {m m' : Mem} {a : List Bool} {i : Nat}
    (hfree : a.getD i true = false) (hact : m.active = a.set i true)
    (h : release m i = .ok m') : m'.active = a := by
  have := release_spec h
  rw [this.2.1, hact]
  exact set_restore hfree

/-- a release of a taken register cannot fail -/
theorem release_ok_of_taken {m : Mem} {a : List Bool} {i : Nat}
    (hfree : a.getD i true = false) (hact : m.active = a.set i true) :
    ∃ m', release m i = .ok m' := by
  unfold release
  have : m.active.getD i false = true := by
    rw [hact]; exact getD_set_self (getD_true_false_lt hfree) _ _
  rw [if_pos this]
  exact ⟨_, rfl⟩

theorem releaseOpt_none {m m' : Mem} (h : releaseOpt m none = .ok m') : m' = m := by
  simp [releaseOpt] at h; exact h.symm

/-- two temporaries taken one after the other and given back in the same order -/
theorem restore_two {a : List Bool} {t u : Nat} (ht : a.getD t true = false)
    (hu : (a.set t true).getD u true = false) :
    (((a.set t true).set u true).set t false).set u false = a := by
  have hne : t ≠ u := by
    intro e; subst e
    rw [getD_set_self (getD_true_false_lt ht)] at hu
    cases hu
  have hu' : a.getD u true = false := by rwa [getD_set_ne hne] at hu
  have htl := getD_true_false_lt ht
  have hul := getD_true_false_lt hu'
  have hat : a[t] = false := by simpa [List.getD, List.getElem?_eq_getElem htl] using ht
  have hau : a[u] = false := by simpa [List.getD, List.getElem?_eq_getElem hul] using hu'
  apply List.ext_getElem
  · simp
  · intro j h1 h2
    simp only [List.getElem_set]
    by_cases e1 : u = j
    · subst e1; simp [hau]
    · by_cases e2 : t = j
      · subst e2; simp [e1, hat]
      · simp [e1, e2]


/-! ## every builder helper gives back what it takes -/

theorem accessCmds_active : ∀ (f : Fut) (m : Mem) (st : Bool) (r : Reg) (m' : Mem) (cs : List PCmd),
    accessCmds m st r f = .ok (m', cs) → m'.active = m.active
  | .lit a i, m, st, r, m', cs, h => by
    simp [accessCmds] at h; rw [← h.1]
  | .reg a hh, m, st, r, m', cs, h => by
    unfold accessCmds at h
    split at h
    · cases h
    · cases h; rfl
  | .fut a f, m, st, r, m', cs, h => by
    unfold accessCmds at h
    split at h
    · cases h
    · rename_i t ht
      split at h
      · cases h
      · rename_i m1 h1
        split at h
        · cases h
        · rename_i m2 cs2 h2
          split at h
          · cases h
          · rename_i m3 h3
            cases h
            have ha := activate_spec h1
            have hb := accessCmds_active f m1 false (R t) m2 cs2 h2
            exact release_after_take ha.1 (by rw [hb, ha.2.1]) h3

/-- what a helper that hands a temporary to its caller leaves behind -/
def Took (m m1 : Mem) : Option Nat → Prop
  | none => m1.active = m.active
  | some t => m.active.getD t true = false ∧ m1.active = m.active.set t true

theorem releaseOpt_took {m m1 m2 : Mem} {t : Option Nat} (ht : Took m m1 t)
    (h : releaseOpt m1 t = .ok m2) : m2.active = m.active := by
  cases t with
  | none => simp [releaseOpt] at h; subst h; exact ht
  | some t => exact release_after_take ht.1 ht.2 h

theorem condOperand_took {m m1 : Mem} {v : Val} {cs : List PCmd} {o : POp} {t : Option Nat}
    (h : condOperand m v = .ok (m1, cs, o, t)) : Took m m1 t := by
  cases v with
  | lit x => simp [condOperand] at h; obtain ⟨rfl, _, _, rfl⟩ := h; rfl
  | reg hh =>
    simp only [condOperand] at h
    split at h
    · cases h
    · split at h
      · cases h; rfl
      · cases h
  | fut f =>
    simp only [condOperand] at h
    split at h
    · cases h
    · rename_i m' t' h1
      split at h
      · cases h
      · cases h
        have := takeReg_spec h1
        exact ⟨this.1, this.2.1⟩

theorem addOther_took {m m1 : Mem} {v : Val} {cs : List PCmd} {o : POp} {t : Option Nat}
    (h : addOther m v = .ok (m1, cs, o, t)) : Took m m1 t := by
  cases v with
  | lit x => simp [addOther] at h; obtain ⟨rfl, _, _, rfl⟩ := h; rfl
  | reg hh =>
    simp only [addOther] at h
    split at h
    · cases h
    · split at h
      · cases h
      · cases h; rfl
  | fut f =>
    simp only [addOther] at h
    split at h
    · cases h
    · rename_i m' t' h1
      split at h
      · cases h
      · rename_i m2 ld h2
        cases h
        have := takeReg_spec h1
        have hb := accessCmds_active _ _ _ _ _ _ h2
        exact ⟨this.1, by rw [hb, this.2.1]⟩

theorem newLabel_active (m : Mem) (k : Nat) : (newLabel m k).1.active = m.active := rfl

theorem branchCmds_active {m m' : Mem} {c : Cond} {a b : Val} {cs : List PCmd} {l : Lbl}
    (h : branchCmds m c a b = .ok (m', cs, l)) : m'.active = m.active := by
  unfold branchCmds at h
  simp only at h
  split at h
  · -- unary
    split at h
    · cases h
    · rename_i m1 cs1 oa ta h1
      split at h
      · cases h
      · rename_i m2 h2
        cases h
        have := releaseOpt_took (condOperand_took h1) h2
        rw [this]; rfl
  · split at h
    · cases h
    · rename_i m1 ca oa ta h1
      split at h
      · cases h
      · rename_i m2 cb ob tb h2
        split at h
        · cases h
        · rename_i m3 h3
          split at h
          · cases h
          · rename_i m4 h4
            cases h
            have t1 := condOperand_took h1
            have t2 := condOperand_took h2
            have t1 : Took m m1 ta := t1
            -- four shapes of (ta, tb)
            cases ta with
            | none =>
              simp [releaseOpt] at h3; subst h3
              have := releaseOpt_took t2 h4
              rw [this, t1]
            | some t =>
              cases tb with
              | none =>
                simp [releaseOpt] at h4; subst h4
                have r3 := release_spec h3
                rw [r3.2.1, t2, t1.2]
                exact set_restore t1.1
              | some u =>
                have r3 := release_spec h3
                have r4 := release_spec h4
                rw [r4.2.1, r3.2.1, t2.2, t1.2]
                exact restore_two t1.1 (by rw [← t1.2]; exact t2.1)

theorem buildCondition_active {m m' : Mem} {c : Cond} {a b : Val} {body cs : List PCmd}
    (h : buildCondition m c a b body = .ok (m', cs)) : m'.active = m.active := by
  unfold buildCondition at h
  split at h
  · cases h; rfl
  · split at h
    · cases h
    · rename_i m1 st l h1
      cases h
      exact branchCmds_active h1

theorem buildLoop_active (m : Mem) (s e d : Int) (r : Reg) (body : List PCmd) :
    (buildLoop m s e d r body).1.active = m.active := by
  unfold buildLoop
  split <;> rfl

theorem breakCmds_active {m m' : Mem} {ef : Val} {ev : Int} {lx : Lbl} {cs : List PCmd}
    (h : breakCmds m ef ev lx = .ok (m', cs)) : m'.active = m.active := by
  unfold breakCmds at h
  split at h
  · cases h
  · rename_i m1 cs1 o t h1
    split at h
    · cases h
    · rename_i m2 h2
      cases h
      exact releaseOpt_took (condOperand_took h1) h2

theorem emitAddF_active {m m' : Mem} {f : Fut} {o : Val} {md : Option Int} {cs : List PCmd}
    (h : emitAddF m f o md = .ok (m', cs)) : m'.active = m.active := by
  unfold emitAddF at h
  split at h
  · cases h
  · rename_i m1 t h1
    split at h
    · cases h
    · rename_i m2 ld h2
      split at h
      · cases h
      · rename_i m3 st h3
        split at h
        · cases h
        · rename_i m4 ld2 oo tmp2 h4
          split at h
          · cases h
          · rename_i m5 h5
            split at h
            · cases h
            · rename_i m6 h6
              cases h
              have s1 := takeReg_spec h1
              have a2 := accessCmds_active _ _ _ _ _ _ h2
              have a3 := accessCmds_active _ _ _ _ _ _ h3
              have t4 := addOther_took h4
              have r5 := release_spec h5
              have e3 : m3.active = m.active.set t true := by rw [a3, a2, s1.2.1]
              cases tmp2 with
              | none =>
                simp [releaseOpt] at h6; subst h6
                rw [r5.2.1, t4, e3]
                exact set_restore s1.1
              | some u =>
                have r6 := release_spec h6
                rw [r6.2.1, r5.2.1, t4.2, e3]
                exact restore_two s1.1 (by rw [← e3]; exact t4.1)

theorem emitAddR_active {m m' : Mem} {hh : Nat} {o : Val} {md : Option Int} {cs : List PCmd}
    (h : emitAddR m hh o md = .ok (m', cs)) : m'.active = m.active := by
  unfold emitAddR at h
  split at h
  · cases h
  · split at h
    · cases h
    · split at h
      · cases h
      · rename_i m1 ld2 oo tmp2 h1
        split at h
        · cases h
        · rename_i m2 h2
          cases h
          exact releaseOpt_took (addOther_took h1) h2

theorem firstUnusedMeas_active {m m' : Mem} {k : Nat} (h : firstUnusedMeas m = .ok (m', k)) :
    m'.active = m.active := by
  unfold firstUnusedMeas at h
  split at h
  · cases h; rfl
  · cases h

theorem emitQop_active {m m' : Mem} {g : List Nat} {tgt : MTgt} {cs : List PCmd}
    (h : emitQop m g tgt = .ok (m', cs)) : m'.active = m.active := by
  unfold emitQop at h
  cases tgt with
  | newFut =>
    simp only at h
    split at h
    · cases h
    · rename_i m1 k h1
      split at h
      · cases h
      · rename_i m2 st h2
        cases h
        have := firstUnusedMeas_active h1
        have a2 := accessCmds_active _ _ _ _ _ _ h2
        simp [a2, this]
  | fut f =>
    simp only at h
    split at h
    · cases h
    · rename_i m1 k h1
      split at h
      · cases h
      · rename_i m2 st h2
        cases h
        have := firstUnusedMeas_active h1
        have a2 := accessCmds_active _ _ _ _ _ _ h2
        simp [a2, this]
  | newReg =>
    simp only at h
    split at h
    · cases h
    · rename_i m1 k h1
      cases h
      have := firstUnusedMeas_active h1
      simp [bindHandle, this]


/-! ## EPR operations: replay of recorded register events -/

/-- number of registers held after the events, starting with `n` held (`none`: a release of a
register that is not held) -/
def heldLen : Nat → List EprEv → Option Nat
  | n, [] => some n
  | n, .take :: es => heldLen (n + 1) es
  | n, .rel p :: es => if p < n then heldLen (n - 1) es else none

/-- largest number of registers held at any point -/
def peakEvs : Nat → List EprEv → Nat
  | n, [] => n
  | n, .take :: es => max n (peakEvs (n + 1) es)
  | n, .rel _ :: es => max n (peakEvs (n - 1) es)

theorem getD_set_true_iff {a : List Bool} {i j : Nat} (hi : i < a.length) :
    (a.set i true).getD j false = true ↔ (j = i ∨ a.getD j false = true) := by
  by_cases e : i = j
  · subst e; rw [getD_set_self hi]; simp
  · rw [getD_set_ne e]
    constructor
    · intro h; exact Or.inr h
    · intro h; rcases h with h | h
      · exact absurd h.symm e
      · exact h

theorem getD_set_false_iff {a : List Bool} {i j : Nat} :
    (a.set i false).getD j false = true ↔ (j ≠ i ∧ a.getD j false = true) := by
  by_cases e : i = j
  · subst e
    constructor
    · intro h
      by_cases hl : i < a.length
      · rw [getD_set_self hl] at h; cases h
      · have : (a.set i false).length ≤ i := by simpa using Nat.le_of_not_lt hl
        simp [List.getD, List.getElem?_eq_none this] at h
    · intro h; exact absurd rfl h.1
  · rw [getD_set_ne e]
    constructor
    · intro h; exact ⟨fun e' => e e'.symm, h⟩
    · intro h; exact h.2

/-- the registers an EPR operation holds, on top of the pool `base` it started from -/
structure EprInv (base : List Bool) (held : List Nat) (m : Mem) : Prop where
  act : ∀ i, m.active.getD i false = true ↔ (base.getD i false = true ∨ i ∈ held)
  len : m.active.length = base.length
  disj : ∀ i ∈ held, base.getD i false = false
  nodup : held.Nodup

theorem getD_false_of_true_false {a : List Bool} {i : Nat} (h : a.getD i true = false) : a.getD i false = false := by
  have hl := getD_true_false_lt h
  simp [List.getD, List.getElem?_eq_getElem hl] at h ⊢; exact h

theorem emitEprH_inv {base : List Bool} : ∀ (evs : List EprEv) (m : Mem) (held : List Nat) (m' : Mem) (held' : List Nat),
    EprInv base held m → emitEprH m held evs = .ok (m', held') →
    EprInv base held' m' ∧ heldLen held.length evs = some held'.length
  | [], m, held, m', held', hinv, h => by
    simp [emitEprH] at h; obtain ⟨rfl, rfl⟩ := h; exact ⟨hinv, rfl⟩
  | .take :: es, m, held, m', held', hinv, h => by
    simp only [emitEprH] at h
    split at h
    · cases h
    · rename_i m1 i h1
      have s1 := takeReg_spec h1
      have hil := getD_true_false_lt s1.1
      have hif := getD_false_of_true_false s1.1
      have hnb : base.getD i false = false := by
        cases hb : base.getD i false with
        | false => rfl
        | true => have := (hinv.act i).mpr (Or.inl hb); rw [hif] at this; cases this
      have hnh : i ∉ held := by
        intro hm; have := (hinv.act i).mpr (Or.inr hm); rw [hif] at this; cases this
      have hinv1 : EprInv base (held ++ [i]) m1 := by
        refine ⟨?_, by rw [s1.2.1]; simpa using hinv.len, ?_, ?_⟩
        · intro j
          rw [s1.2.1, getD_set_true_iff hil, hinv.act j]
          simp only [List.mem_append, List.mem_singleton]
          constructor
          · rintro (h | h | h)
            · exact Or.inr (Or.inr h)
            · exact Or.inl h
            · exact Or.inr (Or.inl h)
          · rintro (h | h | h)
            · exact Or.inr (Or.inl h)
            · exact Or.inr (Or.inr h)
            · exact Or.inl h
        · intro j hj
          simp only [List.mem_append, List.mem_singleton] at hj
          rcases hj with hj | rfl
          · exact hinv.disj j hj
          · exact hnb
        · rw [List.nodup_append]
          refine ⟨hinv.nodup, by simp, ?_⟩
          intro a ha b hb e
          simp at hb; subst hb; subst e; exact hnh ha
      have := emitEprH_inv es m1 (held ++ [i]) m' held' hinv1 h
      refine ⟨this.1, ?_⟩
      simpa [heldLen] using this.2
  | .rel p :: es, m, held, m', held', hinv, h => by
    simp only [emitEprH] at h
    split at h
    · cases h
    · rename_i i hp
      split at h
      · cases h
      · rename_i m1 h1
        have r1 := release_spec h1
        have hmem : i ∈ held := List.mem_of_getElem? hp
        have hpl : p < held.length := by
          by_cases hpl : p < held.length
          · exact hpl
          · simp [List.getElem?_eq_none (Nat.le_of_not_lt hpl)] at hp
        have hinv1 : EprInv base (held.erase i) m1 := by
          refine ⟨?_, by rw [r1.2.1]; simpa using hinv.len, ?_, hinv.nodup.erase i⟩
          · intro j
            rw [r1.2.1, getD_set_false_iff, hinv.act j, hinv.nodup.mem_erase_iff]
            constructor
            · rintro ⟨hne, h | h⟩
              · exact Or.inl h
              · exact Or.inr ⟨hne, h⟩
            · rintro (hbj | ⟨hne, hjh⟩)
              · refine ⟨?_, Or.inl hbj⟩
                intro e
                rw [e, hinv.disj i hmem] at hbj; cases hbj
              · exact ⟨hne, Or.inr hjh⟩
          · intro j hj
            exact hinv.disj j (List.mem_of_mem_erase hj)
        have := emitEprH_inv es m1 (held.erase i) m' held' hinv1 h
        refine ⟨this.1, ?_⟩
        have hlen : (held.erase i).length = held.length - 1 := List.length_erase_of_mem hmem
        simp only [heldLen, hpl, if_true]
        rw [← hlen]; exact this.2

theorem eprInv_base (m : Mem) : EprInv m.active [] m :=
  ⟨fun i => (by simp), rfl, fun i hi => (by cases hi), List.nodup_nil⟩

theorem eprInv_nil_eq {base : List Bool} {m : Mem} (h : EprInv base [] m) : m.active = base := by
  apply List.ext_getElem h.len
  intro j h1 h2
  have := h.act j
  simp only [List.not_mem_nil, or_false] at this
  simp only [List.getD, List.getElem?_eq_getElem h1, List.getElem?_eq_getElem h2, Option.getD_some] at this
  cases ha : m.active[j] <;> cases hb : base[j] <;> simp_all

/-- a balanced EPR operation gives back every register it takes -/
theorem emitEprH_balanced {m m' : Mem} {held' : List Nat} {evs : List EprEv}
    (hb : heldLen 0 evs = some 0) (h : emitEprH m [] evs = .ok (m', held')) : m'.active = m.active := by
  obtain ⟨hinv, hl⟩ := emitEprH_inv evs m [] m' held' (eprInv_base m) h
  simp only [List.length_nil] at hl
  rw [hb] at hl
  have : held' = [] := by
    cases held' with
    | nil => rfl
    | cons x xs => simp at hl
  subst this
  exact eprInv_nil_eq hinv

/-! ## the invariant of C14 -/

/-- Operations that are *completed* when `emit` returns. The only host statement that is not is
`newReg` (`Builder.new_register`): it hands a register to the program for good. -/
def Completed : Host → Prop
  | .skip => True
  | .seq a b => Completed a ∧ Completed b
  | .newArray _ _ => True
  | .newReg _ => False
  | .qop _ _ => True
  | .addF _ _ _ => True
  | .addR _ _ _ => True
  | .ifc _ _ _ _ body => Completed body
  | .loop _ _ _ _ body => Completed body
  | .loopBody _ _ _ _ body => Completed body
  | .foreach _ _ body => Completed body
  | .loopUntil _ body _ _ cl => Completed body ∧ Completed cl
  | .tryUntil _ body => Completed body
  | .epr evs => heldLen 0 evs = some 0

theorem bindHandle_active (m : Mem) (r : Reg) (b : Bool) : (bindHandle m r b).active = m.active := rfl

/-- shared shape of `loop`, `loopBody`, `foreach`: take, body, labels, release -/
theorem loopShape_active {m m1 m2 m4 : Mem} {i : Nat} {s e d : Int} {r : Reg} {cs : List PCmd} {b : Bool}
    {rg : Option Nat}
    (h1 : takeAt m rg = .ok (m1, i)) (hb : m2.active = (bindHandle m1 (R i) b).active)
    (h4 : release (buildLoop m2 s e d r cs).1 i = .ok m4) : m4.active = m.active := by
  have s1 := takeAt_spec h1
  exact release_after_take s1.1 (by rw [buildLoop_active, hb, bindHandle_active, s1.2.1]) h4

theorem emit_active : ∀ (op : Host) (m m' : Mem) (cs : List PCmd),
    Completed op → emit m op = .ok (m', cs) → m'.active = m.active := by
  intro op
  induction op with
  | skip => intro m m' cs _ h; simp [emit] at h; rw [← h.1]
  | seq a b iha ihb =>
    intro m m' cs hc h
    simp only [emit] at h
    split at h
    · cases h
    · rename_i m1 ca h1
      split at h
      · cases h
      · rename_i m2 cb h2
        cases h
        rw [ihb _ _ _ hc.2 h2, iha _ _ _ hc.1 h1]
  | newArray len init =>
    intro m m' cs _ h
    simp only [emit] at h
    split at h
    · split at h
      · cases h
      · cases h; rfl
    · split at h
      · cases h
      · cases h; rfl
  | newReg v => intro m m' cs hc; exact hc.elim
  | qop g t => intro m m' cs _ h; simp only [emit] at h; exact emitQop_active h
  | addF f o md => intro m m' cs _ h; simp only [emit] at h; exact emitAddF_active h
  | addR hh o md => intro m m' cs _ h; simp only [emit] at h; exact emitAddR_active h
  | ifc cb c a b body ih =>
    intro m m' cs hc h
    simp only [emit] at h
    split at h
    · cases h
    · rename_i m1 bc h1
      rw [buildCondition_active h, ih _ _ _ hc h1]
  | loop rg s e d body ih =>
    intro m m' cs hc h
    simp only [emit] at h
    split at h
    · cases h
    · rename_i m1 i h1
      split at h
      · cases h
      · rename_i m2 bc h2
        split at h
        · cases h
        · rename_i m4 h4
          cases h
          exact loopShape_active h1 (ih _ _ _ hc h2) h4
  | loopBody rg s e d body ih =>
    intro m m' cs hc h
    simp only [emit] at h
    split at h
    · cases h
    · rename_i m1 i h1
      split at h
      · cases h
      · rename_i m2 bc h2
        split at h
        · cases h
        · rename_i m4 h4
          cases h
          exact loopShape_active h1 (ih _ _ _ hc h2) h4
  | foreach arr wi body ih =>
    intro m m' cs hc h
    simp only [emit] at h
    split at h
    · cases h
    · split at h
      · cases h
      · rename_i m1 i h1
        split at h
        · cases h
        · rename_i m2 bc h2
          split at h
          · cases h
          · rename_i m4 h4
            cases h
            exact loopShape_active (rg := none) h1 (ih _ _ _ hc h2) h4
  | loopUntil n body ef ev cl ihb ihc =>
    intro m m' cs hc h
    simp only [emit] at h
    split at h
    · cases h
    · rename_i m1 i h1
      have s1 := takeReg_spec h1
      split at h
      · cases h
      · rename_i m2 bc h2
        have e2 : m2.active = m.active.set i true := by
          rw [ihb _ _ _ hc.1 h2, bindHandle_active, s1.2.1]
        split at h
        · split at h
          · cases h
          · rename_i m3 h3
            cases h
            exact release_after_take s1.1 e2 h3
        · split at h
          · cases h
          · rename_i m5 brk h5
            split at h
            · cases h
            · rename_i m6 clc h6
              split at h
              · cases h
              · rename_i m7 h7
                cases h
                refine release_after_take s1.1 ?_ h7
                rw [ihc _ _ _ hc.2 h6, breakCmds_active h5]
                exact e2
  | tryUntil n body ih =>
    intro m m' cs hc h
    simp only [emit] at h
    exact ih _ _ _ hc h
  | epr evs =>
    intro m m' cs hc h
    simp only [emit] at h
    split at h
    · cases h
    · rename_i m1 held' h1
      cases h
      exact emitEprH_balanced hc h1

/-- `newReg` takes exactly one register out of the pool (and keeps it) -/
theorem emit_newReg_active {m m' : Mem} {v : Int} {cs : List PCmd}
    (h : emit m (.newReg v) = .ok (m', cs)) :
    ∃ i, m.active.getD i true = false ∧ m'.active = m.active.set i true := by
  simp only [emit] at h
  split at h
  · cases h
  · rename_i m1 i h1
    cases h
    have := takeReg_spec h1
    exact ⟨i, this.1, by simp [bindHandle, this.2.1]⟩

/-! ## flush -/

theorem initArray_active {m m' : Mem} {pend out : List PCmd} {d : ArrDecl}
    (h : initArray m pend d = .ok (m', out)) : m'.active = m.active := by
  unfold initArray at h
  simp only at h
  split at h
  · cases h; rfl
  · split at h
    · split at h
      · cases h
      · rename_i i hi
        split at h
        · cases h
        · rename_i m1 h1
          split at h
          · cases h
          · rename_i m3 h3
            cases h
            have a1 := activate_spec h1
            exact release_after_take a1.1 (by rw [buildLoop_active, a1.2.1]) h3
    · cases h; rfl

theorem initArrays_active : ∀ (ds : List ArrDecl) (m m' : Mem) (pend out : List PCmd),
    initArrays m pend ds = .ok (m', out) → m'.active = m.active
  | [], m, m', pend, out, h => by simp [initArrays] at h; rw [← h.1]
  | d :: ds, m, m', pend, out, h => by
    simp only [initArrays] at h
    split at h
    · cases h
    · rename_i m1 p1 h1
      rw [initArrays_active ds _ _ _ _ h, initArray_active h1]

theorem flush_active {m m' : Mem} {pend : List PCmd} {sub : Option (List PCmd)}
    (h : flush m pend = .ok (m', sub)) : m'.active = m.active := by
  unfold flush at h
  split at h
  · cases h
  · rename_i m1 ini h1
    simp only at h
    split at h
    · cases h; exact initArrays_active _ _ _ _ _ h1
    · cases h; exact (initArrays_active _ _ _ _ _ h1 : m1.active = m.active)


/-! ## how many registers an operation needs -/

/-- number of free registers -/
def free : List Bool → Nat
  | [] => 0
  | b :: bs => (if b then 0 else 1) + free bs

theorem firstFree_of_free : ∀ (l : List Bool), 0 < free l → ∃ i, firstFree l = some i
  | [], h => by simp [free] at h
  | b :: bs, h => by
    cases b with
    | false => exact ⟨0, by simp [firstFree]⟩
    | true =>
      simp [free] at h
      obtain ⟨i, hi⟩ := firstFree_of_free bs h
      exact ⟨i + 1, by simp [firstFree, hi]⟩

theorem free_set_true : ∀ (l : List Bool) (i : Nat), l.getD i true = false →
    free (l.set i true) + 1 = free l
  | [], i, h => by simp at h
  | b :: bs, 0, h => by
    simp at h; subst h; simp [free]; omega
  | b :: bs, i + 1, h => by
    have := free_set_true bs i (by simpa using h)
    simp [free, List.set]; omega

def Fut.depth : Fut → Nat
  | .lit _ _ => 0
  | .reg _ _ => 0
  | .fut _ f => f.depth + 1

/-- temporaries of a condition operand -/
def Val.tmp : Val → Nat
  | .fut _ => 1
  | _ => 0

/-- registers needed by the `other` operand of `add` -/
def Val.addNeed : Val → Nat
  | .fut g => g.depth + 1
  | _ => 0

def MTgt.need : MTgt → Nat
  | .fut f => f.depth
  | _ => 0

/-- registers an operation needs on top of those that are active when it starts -/
def need : Host → Nat
  | .skip => 0
  | .seq a b => max (need a) (need b)
  | .newArray _ _ => 0
  | .newReg _ => 1
  | .qop _ t => t.need
  | .addF f o _ => 1 + max f.depth o.addNeed
  | .addR _ o _ => o.addNeed
  | .ifc _ c a b body => max (need body) (if c.unary then a.tmp else a.tmp + b.tmp)
  | .loop _ _ _ _ body => 1 + need body
  | .loopBody _ _ _ _ body => 1 + need body
  | .foreach _ _ body => 1 + need body
  | .loopUntil _ body ef _ cl => 1 + max (need body) (max ef.tmp (need cl))
  | .tryUntil _ body => need body
  | .epr evs => peakEvs 0 evs

/-- "does not fail for lack of a register" -/
def NoReg {α : Type} (x : Except BuildError α) : Prop := ∀ e, x = .error e → e ≠ .noRegister

theorem NoReg.ok {α : Type} (a : α) : NoReg (Except.ok a : Except BuildError α) := by
  intro e h; cases h

theorem NoReg.err {α : Type} {e : BuildError} (h : e ≠ .noRegister) :
    NoReg (Except.error e : Except BuildError α) := by
  intro e' h'; cases h'; exact h

theorem getInactive_ok {m : Mem} (h : 0 < free m.active) : ∃ i, getInactive m = .ok i := by
  obtain ⟨i, hi⟩ := firstFree_of_free _ h
  exact ⟨i, by simp [getInactive, hi]⟩

theorem activate_ok {m : Mem} {i : Nat} (h : m.active.getD i true = false) :
    ∃ m', activate m i = .ok m' := by
  unfold activate
  rw [if_neg (by rw [h]; simp)]
  exact ⟨_, rfl⟩

theorem takeReg_ok {m : Mem} (h : 0 < free m.active) : ∃ m' i, takeReg m = .ok (m', i) := by
  obtain ⟨i, hi⟩ := getInactive_ok h
  obtain ⟨m', hm⟩ := activate_ok (getInactive_spec hi)
  exact ⟨m', i, by simp [takeReg, hi, hm]⟩

theorem release_noReg (m : Mem) (i : Nat) : NoReg (release m i) := by
  intro e h; unfold release at h; split at h <;> cases h; simp

theorem releaseOpt_noReg (m : Mem) (t : Option Nat) : NoReg (releaseOpt m t) := by
  cases t with
  | none => exact NoReg.ok _
  | some t => exact release_noReg m t

theorem activate_noReg (m : Mem) (i : Nat) : NoReg (activate m i) := by
  intro e h; unfold activate at h; split at h <;> cases h; simp

theorem handle_noReg (m : Mem) (h : Nat) : NoReg (handle m h) := by
  intro e he; unfold handle at he; split at he <;> cases he; simp

theorem free_after_take {m m1 : Mem} {i : Nat} (h : takeReg m = .ok (m1, i)) :
    free m1.active + 1 = free m.active := by
  have := takeReg_spec h
  rw [this.2.1]; exact free_set_true _ _ this.1

theorem free_after_takeAt {m m1 : Mem} {rg : Option Nat} {i : Nat} (h : takeAt m rg = .ok (m1, i)) :
    free m1.active + 1 = free m.active := by
  have := takeAt_spec h
  rw [this.2.1]; exact free_set_true _ _ this.1

theorem free_after_activate {m m1 : Mem} {i : Nat} (h : activate m i = .ok m1) :
    free m1.active + 1 = free m.active := by
  have := activate_spec h
  rw [this.2.1]; exact free_set_true _ _ this.1

theorem accessCmds_noReg : ∀ (f : Fut) (m : Mem) (st : Bool) (r : Reg),
    f.depth ≤ free m.active → NoReg (accessCmds m st r f)
  | .lit a i, m, st, r, _ => by simp only [accessCmds]; exact NoReg.ok _
  | .reg a hh, m, st, r, _ => by
    simp only [accessCmds]
    split
    · rename_i e he; exact NoReg.err (handle_noReg _ _ _ he)
    · exact NoReg.ok _
  | .fut a f, m, st, r, hf => by
    simp only [accessCmds]
    have hpos : 0 < free m.active := by simp [Fut.depth] at hf; omega
    obtain ⟨t, ht⟩ := getInactive_ok hpos
    rw [ht]; simp only
    obtain ⟨m1, h1⟩ := activate_ok (getInactive_spec ht)
    rw [h1]; simp only
    have f1 := free_after_activate h1
    have ih := accessCmds_noReg f m1 false (R t) (by simp [Fut.depth] at hf; omega)
    split
    · rename_i e he; exact NoReg.err (ih _ he)
    · split
      · rename_i e he; exact NoReg.err (release_noReg _ _ _ he)
      · exact NoReg.ok _

theorem addressEntry_noReg (m : Mem) (f : Fut) : NoReg (addressEntry m f) := by
  cases f with
  | lit a i => simp only [addressEntry]; exact NoReg.ok _
  | reg a hh =>
    simp only [addressEntry]
    split
    · rename_i e he; exact NoReg.err (handle_noReg _ _ _ he)
    · exact NoReg.ok _
  | fut a f => simp only [addressEntry]; exact NoReg.err (by simp)

theorem condOperand_noReg (m : Mem) (v : Val) (h : v.tmp ≤ free m.active) : NoReg (condOperand m v) := by
  cases v with
  | lit x => simp only [condOperand]; exact NoReg.ok _
  | reg hh =>
    simp only [condOperand]
    split
    · rename_i e he; exact NoReg.err (handle_noReg _ _ _ he)
    · split
      · exact NoReg.ok _
      · exact NoReg.err (by simp)
  | fut f =>
    simp only [condOperand]
    obtain ⟨m1, t, h1⟩ := takeReg_ok (m := m) (by simp [Val.tmp] at h; omega)
    rw [h1]; simp only
    split
    · rename_i e he; exact NoReg.err (addressEntry_noReg _ _ _ he)
    · exact NoReg.ok _

def optCount : Option Nat → Nat
  | none => 0
  | some _ => 1

/-- free registers after a helper handed a temporary to its caller -/
theorem free_took {m m1 : Mem} {t : Option Nat} (h : Took m m1 t) :
    free m1.active + optCount t = free m.active := by
  cases t with
  | none => simp [Took] at h; simp [h, optCount]
  | some t => obtain ⟨h1, h2⟩ := h; rw [h2]; exact free_set_true _ _ h1

theorem condOperand_tmp {m m1 : Mem} {v : Val} {cs : List PCmd} {o : POp} {t : Option Nat}
    (h : condOperand m v = .ok (m1, cs, o, t)) : free m1.active + v.tmp = free m.active := by
  have tk := free_took (condOperand_took h)
  cases v with
  | lit x => simp [condOperand] at h; obtain ⟨_, _, _, rfl⟩ := h; simpa [Val.tmp, optCount] using tk
  | reg hh =>
    simp only [condOperand] at h
    split at h
    · cases h
    · split at h
      · cases h; simpa [Val.tmp, optCount] using tk
      · cases h
  | fut f =>
    simp only [condOperand] at h
    split at h
    · cases h
    · split at h
      · cases h
      · cases h; simpa [Val.tmp, optCount] using tk

theorem branchCmds_noReg (m : Mem) (c : Cond) (a b : Val)
    (h : (if c.unary then a.tmp else a.tmp + b.tmp) ≤ free m.active) : NoReg (branchCmds m c a b) := by
  unfold branchCmds
  simp only
  split
  · rename_i hu
    rw [if_pos hu] at h
    split
    · rename_i e he
      exact NoReg.err (condOperand_noReg _ _ (by exact h) _ he)
    · split
      · rename_i e he; exact NoReg.err (releaseOpt_noReg _ _ _ he)
      · exact NoReg.ok _
  · rename_i hu
    rw [if_neg hu] at h
    split
    · rename_i e he
      exact NoReg.err (condOperand_noReg _ _ (by show a.tmp ≤ free m.active; omega) _ he)
    · rename_i m1 ca oa ta h1
      have f1 := condOperand_tmp h1
      have f1' : free m1.active + a.tmp = free m.active := f1
      split
      · rename_i e he
        exact NoReg.err (condOperand_noReg _ _ (by omega) _ he)
      · split
        · rename_i e he; exact NoReg.err (releaseOpt_noReg _ _ _ he)
        · split
          · rename_i e he; exact NoReg.err (releaseOpt_noReg _ _ _ he)
          · exact NoReg.ok _

theorem buildCondition_noReg (m : Mem) (c : Cond) (a b : Val) (body : List PCmd)
    (h : (if c.unary then a.tmp else a.tmp + b.tmp) ≤ free m.active) :
    NoReg (buildCondition m c a b body) := by
  unfold buildCondition
  split
  · exact NoReg.ok _
  · split
    · rename_i e he; exact NoReg.err (branchCmds_noReg _ _ _ _ h _ he)
    · exact NoReg.ok _

theorem breakCmds_noReg (m : Mem) (ef : Val) (ev : Int) (lx : Lbl) (h : ef.tmp ≤ free m.active) :
    NoReg (breakCmds m ef ev lx) := by
  unfold breakCmds
  split
  · rename_i e he; exact NoReg.err (condOperand_noReg _ _ h _ he)
  · split
    · rename_i e he; exact NoReg.err (releaseOpt_noReg _ _ _ he)
    · exact NoReg.ok _

theorem addOther_noReg (m : Mem) (v : Val) (h : v.addNeed ≤ free m.active) : NoReg (addOther m v) := by
  cases v with
  | lit x => simp only [addOther]; exact NoReg.ok _
  | reg hh =>
    simp only [addOther]
    split
    · rename_i e he; exact NoReg.err (handle_noReg _ _ _ he)
    · split
      · exact NoReg.err (by simp)
      · exact NoReg.ok _
  | fut g =>
    simp only [addOther]
    simp only [Val.addNeed] at h
    obtain ⟨m1, t, h1⟩ := takeReg_ok (m := m) (by omega)
    rw [h1]; simp only
    have f1 := free_after_take h1
    split
    · rename_i e he; exact NoReg.err (accessCmds_noReg _ _ _ _ (by omega) _ he)
    · exact NoReg.ok _

theorem emitAddF_noReg (m : Mem) (f : Fut) (o : Val) (md : Option Int)
    (h : 1 + max f.depth o.addNeed ≤ free m.active) : NoReg (emitAddF m f o md) := by
  unfold emitAddF
  obtain ⟨m1, t, h1⟩ := takeReg_ok (m := m) (by omega)
  rw [h1]; simp only
  have f1 := free_after_take h1
  split
  · rename_i e he; exact NoReg.err (accessCmds_noReg _ _ _ _ (by omega) _ he)
  · rename_i m2 ld h2
    have a2 := accessCmds_active _ _ _ _ _ _ h2
    split
    · rename_i e he; exact NoReg.err (accessCmds_noReg _ _ _ _ (by rw [a2]; omega) _ he)
    · rename_i m3 st h3
      have a3 := accessCmds_active _ _ _ _ _ _ h3
      split
      · rename_i e he; exact NoReg.err (addOther_noReg _ _ (by rw [a3, a2]; omega) _ he)
      · split
        · rename_i e he; exact NoReg.err (release_noReg _ _ _ he)
        · split
          · rename_i e he; exact NoReg.err (releaseOpt_noReg _ _ _ he)
          · exact NoReg.ok _

theorem emitAddR_noReg (m : Mem) (hh : Nat) (o : Val) (md : Option Int)
    (h : o.addNeed ≤ free m.active) : NoReg (emitAddR m hh o md) := by
  unfold emitAddR
  split
  · rename_i e he; exact NoReg.err (handle_noReg _ _ _ he)
  · split
    · exact NoReg.err (by simp)
    · split
      · rename_i e he; exact NoReg.err (addOther_noReg _ _ h _ he)
      · split
        · rename_i e he; exact NoReg.err (releaseOpt_noReg _ _ _ he)
        · exact NoReg.ok _

theorem firstUnusedMeas_noReg (m : Mem) : NoReg (firstUnusedMeas m) := by
  unfold firstUnusedMeas
  split
  · exact NoReg.ok _
  · exact NoReg.err (by simp)

theorem emitQop_noReg (m : Mem) (g : List Nat) (tgt : MTgt) (h : tgt.need ≤ free m.active) :
    NoReg (emitQop m g tgt) := by
  unfold emitQop
  cases tgt with
  | newFut =>
    simp only
    split
    · rename_i e he; exact NoReg.err (firstUnusedMeas_noReg _ _ he)
    · rename_i m1 k h1
      have a1 := firstUnusedMeas_active h1
      split
      · rename_i e he
        exact NoReg.err (accessCmds_noReg _ _ _ _ (by simp [Fut.depth]) _ he)
      · exact NoReg.ok _
  | fut f =>
    simp only
    split
    · rename_i e he; exact NoReg.err (firstUnusedMeas_noReg _ _ he)
    · rename_i m1 k h1
      have a1 := firstUnusedMeas_active h1
      split
      · rename_i e he
        exact NoReg.err (accessCmds_noReg _ _ _ _ (by rw [a1]; simpa [MTgt.need] using h) _ he)
      · exact NoReg.ok _
  | newReg =>
    simp only
    split
    · rename_i e he; exact NoReg.err (firstUnusedMeas_noReg _ _ he)
    · exact NoReg.ok _


theorem free_set_false : ∀ (l : List Bool) (i : Nat), l.getD i false = true →
    free (l.set i false) = free l + 1
  | [], i, h => by simp at h
  | b :: bs, 0, h => by simp at h; subst h; simp [free]; omega
  | b :: bs, i + 1, h => by
    have := free_set_false bs i (by simpa using h)
    simp [free, List.set]; omega

theorem emitEprH_noReg : ∀ (evs : List EprEv) (m : Mem) (held : List Nat),
    peakEvs held.length evs ≤ held.length + free m.active → NoReg (emitEprH m held evs)
  | [], m, held, _ => by simp only [emitEprH]; exact NoReg.ok _
  | .take :: es, m, held, h => by
    simp only [emitEprH]
    simp only [peakEvs] at h
    by_cases hf : 0 < free m.active
    · obtain ⟨m1, i, h1⟩ := takeReg_ok hf
      rw [h1]; simp only
      have f1 := free_after_take h1
      exact emitEprH_noReg es m1 (held ++ [i]) (by simp; omega)
    · -- the peak is at least one more than what is held
      have : held.length + 1 ≤ peakEvs (held.length + 1) es := by
        cases es with
        | nil => simp [peakEvs]
        | cons e es' => cases e <;> simp [peakEvs] <;> omega
      omega
  | .rel p :: es, m, held, h => by
    simp only [emitEprH]
    simp only [peakEvs] at h
    split
    · exact NoReg.err (by simp)
    · rename_i i hp
      split
      · rename_i e he; exact NoReg.err (release_noReg _ _ _ he)
      · rename_i m1 h1
        have r1 := release_spec h1
        have hmem : i ∈ held := List.mem_of_getElem? hp
        have hlen : (held.erase i).length = held.length - 1 := List.length_erase_of_mem hmem
        have hpos : 0 < held.length := List.length_pos_of_mem hmem
        refine emitEprH_noReg es m1 (held.erase i) ?_
        rw [hlen, r1.2.1, free_set_false _ _ r1.1]
        omega

theorem arrLen_noReg (m : Mem) (a : Nat) : NoReg (arrLen m a) := by
  intro e he; unfold arrLen at he; split at he <;> cases he; simp

theorem takeAt_noReg (m : Mem) (rg : Option Nat) (h : 0 < free m.active) : NoReg (takeAt m rg) := by
  cases rg with
  | none =>
    obtain ⟨m', i, hi⟩ := takeReg_ok h
    show NoReg (takeReg m)
    rw [hi]; exact NoReg.ok _
  | some j =>
    simp only [takeAt]
    split
    · rename_i e he; exact NoReg.err (activate_noReg _ _ _ he)
    · exact NoReg.ok _

/-- shared shape of `loop`, `loopBody`, `foreach` -/
theorem loopShape_noReg {m : Mem} {body : Host} {s e d : Int} {b : Bool} {rg : Option Nat}
    (ih : ∀ m, need body ≤ free m.active → NoReg (emit m body))
    (h : 1 + need body ≤ free m.active) :
    NoReg (match takeAt m rg with
      | .error e => (.error e : Except BuildError (Mem × List PCmd))
      | .ok (m1, i) =>
        match emit (bindHandle m1 (R i) b) body with
        | .error e => .error e
        | .ok (m2, cs) =>
          let (m3, out) := buildLoop m2 s e d (R i) cs
          match release m3 i with
          | .error e => .error e
          | .ok m4 => .ok (m4, out)) := by
  split
  · rename_i e he
    exact NoReg.err (takeAt_noReg m rg (by omega) _ he)
  · rename_i m1 i h1
    have f1 := free_after_takeAt h1
    split
    · rename_i e he
      exact NoReg.err (ih _ (by rw [bindHandle_active]; omega) _ he)
    · simp only
      split
      · rename_i e he; exact NoReg.err (release_noReg _ _ _ he)
      · exact NoReg.ok _

theorem emit_noReg : ∀ (op : Host) (m : Mem), Completed op → need op ≤ free m.active →
    NoReg (emit m op) := by
  intro op
  induction op with
  | skip => intro m _ _; simp only [emit]; exact NoReg.ok _
  | seq a b iha ihb =>
    intro m hc h
    simp only [need] at h
    simp only [emit]
    split
    · rename_i e he; exact NoReg.err (iha _ hc.1 (by omega) _ he)
    · rename_i m1 ca h1
      have a1 := emit_active _ _ _ _ hc.1 h1
      split
      · rename_i e he; exact NoReg.err (ihb _ hc.2 (by rw [a1]; omega) _ he)
      · exact NoReg.ok _
  | newArray len init =>
    intro m _ _
    simp only [emit]
    split <;> (split; exact NoReg.err (by simp); exact NoReg.ok _)
  | newReg v => intro m hc; exact hc.elim
  | qop g t => intro m _ h; simp only [emit]; exact emitQop_noReg _ _ _ h
  | addF f o md => intro m _ h; simp only [emit]; exact emitAddF_noReg _ _ _ _ h
  | addR hh o md => intro m _ h; simp only [emit]; exact emitAddR_noReg _ _ _ _ h
  | ifc cb c a b body ih =>
    intro m hc h
    simp only [need] at h
    simp only [emit]
    split
    · rename_i e he; exact NoReg.err (ih _ hc (by omega) _ he)
    · rename_i m1 cs h1
      have a1 := emit_active body _ _ _ hc h1
      exact buildCondition_noReg _ _ _ _ _ (by rw [a1]; omega)
  | loop rg s e d body ih =>
    intro m hc h
    simp only [emit]
    exact loopShape_noReg (fun m hm => ih m hc hm) h
  | loopBody rg s e d body ih =>
    intro m hc h
    simp only [emit]
    exact loopShape_noReg (fun m hm => ih m hc hm) h
  | foreach arr wi body ih =>
    intro m hc h
    simp only [emit]
    split
    · rename_i e he; exact NoReg.err (arrLen_noReg _ _ _ he)
    · exact loopShape_noReg (rg := none) (fun m hm => ih m hc hm) h
  | loopUntil n body ef ev cl ihb ihc =>
    intro m hc h
    simp only [need] at h
    simp only [emit]
    obtain ⟨m1, i, h1⟩ := takeReg_ok (m := m) (by omega)
    rw [h1]; simp only
    have f1 := free_after_take h1
    split
    · rename_i e he
      exact NoReg.err (ihb _ hc.1 (by rw [bindHandle_active]; omega) _ he)
    · rename_i m2 cs h2
      have a2 := emit_active _ _ _ _ hc.1 h2
      rw [bindHandle_active] at a2
      split
      · split
        · rename_i e he; exact NoReg.err (release_noReg _ _ _ he)
        · exact NoReg.ok _
      · split
        · rename_i e he
          refine NoReg.err (breakCmds_noReg _ _ _ _ ?_ _ he)
          show ef.tmp ≤ free m2.active
          rw [a2]; omega
        · rename_i m5 brk h5
          have a5 := breakCmds_active h5
          have a5' : m5.active = m2.active := a5
          split
          · rename_i e he
            exact NoReg.err (ihc _ hc.2 (by rw [a5', a2]; omega) _ he)
          · split
            · rename_i e he; exact NoReg.err (release_noReg _ _ _ he)
            · exact NoReg.ok _
  | tryUntil n body ih =>
    intro m hc h
    simp only [emit]
    exact ih _ hc h
  | epr evs =>
    intro m _ h
    simp only [need] at h
    simp only [emit]
    split
    · rename_i e he
      exact NoReg.err (emitEprH_noReg evs m [] (by simpa using h) _ he)
    · exact NoReg.ok _

/-! ### flush needs one register (the array-initialisation loop) -/

theorem initArray_noReg (m : Mem) (pend : List PCmd) (d : ArrDecl) (h : 0 < free m.active) :
    NoReg (initArray m pend d) := by
  unfold initArray
  simp only
  split
  · exact NoReg.ok _
  · split
    · obtain ⟨i, hi⟩ := getInactive_ok h
      rw [hi]; simp only
      split
      · rename_i e he; exact NoReg.err (activate_noReg _ _ _ he)
      · split
        · rename_i e he; exact NoReg.err (release_noReg _ _ _ he)
        · exact NoReg.ok _
    · exact NoReg.ok _

theorem initArrays_noReg : ∀ (ds : List ArrDecl) (m : Mem) (pend : List PCmd), 0 < free m.active →
    NoReg (initArrays m pend ds)
  | [], m, pend, _ => by simp only [initArrays]; exact NoReg.ok _
  | d :: ds, m, pend, h => by
    simp only [initArrays]
    split
    · rename_i e he; exact NoReg.err (initArray_noReg _ _ _ h _ he)
    · rename_i m1 p1 h1
      exact initArrays_noReg ds m1 p1 (by rw [initArray_active h1]; exact h)

theorem flush_noReg (m : Mem) (pend : List PCmd) (h : 0 < free m.active) : NoReg (flush m pend) := by
  unfold flush
  split
  · rename_i e he; exact NoReg.err (initArrays_noReg _ _ _ h _ he)
  · simp only
    split <;> exact NoReg.ok _

end NQ.Sdk
