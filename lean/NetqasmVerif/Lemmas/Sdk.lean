/-
Helper lemmas for C14: the register pool of the SDK memory manager.
-/
import NetqasmVerif.Model.Sdk
namespace NQ.Sdk

/-! ## flags -/

theorem firstFree_spec : ∀ (l : List Bool) (i : Nat), firstFree l = some i → l.getD i true = false
  | [], i, h => by simp [firstFree] at h
  | b :: bs, i, h => by
    unfold firstFree at h
    cases b with
    | false => simp at h; subst h; simp
    | true =>
      simp only [if_true] at h
      cases hf : firstFree bs with
      | none => simp [hf] at h
      | some j =>
        simp [hf] at h; subst h
        have := firstFree_spec bs j hf
        simpa using this

theorem getD_true_false_lt {l : List Bool} {i : Nat} (h : l.getD i true = false) : i < l.length := by
  by_cases hi : i < l.length
  · exact hi
  · simp [List.getD, List.getElem?_eq_none (Nat.le_of_not_lt hi)] at h

theorem getD_false_true_lt {l : List Bool} {i : Nat} (h : l.getD i false = true) : i < l.length := by
  by_cases hi : i < l.length
  · exact hi
  · simp [List.getD, List.getElem?_eq_none (Nat.le_of_not_lt hi)] at h

theorem set_same {l : List Bool} {i : Nat} {b : Bool} (h : l.getD i (!b) = b) : l.set i b = l := by
  apply List.ext_getElem
  · simp
  · intro j h1 h2
    by_cases hij : i = j
    · subst hij
      simp [List.getD, List.getElem?_eq_getElem (by simpa using h1)] at h
      simp [h]
    · simp [List.getElem_set, hij]

/-- take then give back: the flags are what they were -/
theorem set_restore {l : List Bool} {i : Nat} (h : l.getD i true = false) :
    (l.set i true).set i false = l := by
  rw [List.set_set]
  exact set_same (b := false) (by simpa using h)

theorem getD_set_self {l : List Bool} {i : Nat} (h : i < l.length) (b d : Bool) :
    (l.set i b).getD i d = b := by
  simp [List.getD, List.getElem?_set, h]

theorem getD_set_ne {l : List Bool} {i j : Nat} (h : i ≠ j) (b d : Bool) :
    (l.set i b).getD j d = l.getD j d := by
  simp [List.getD, List.getElem?_set, h]

/-! ## activate / release / takeReg -/

theorem getInactive_spec {m : Mem} {i : Nat} (h : getInactive m = .ok i) :
    m.active.getD i true = false := by
  unfold getInactive at h
  split at h
  · rename_i j hj
    cases h
    exact firstFree_spec _ _ hj
  · cases h

theorem activate_spec {m m' : Mem} {i : Nat} (h : activate m i = .ok m') :
    m.active.getD i true = false ∧ m'.active = m.active.set i true ∧
    m'.measUsed = m.measUsed ∧ m'.regsToReturn = m.regsToReturn ∧
    m'.arraysToReturn = m.arraysToReturn ∧ m'.arrLens = m.arrLens ∧ m'.lbl = m.lbl ∧
    m'.handles = m.handles := by
  unfold activate at h
  split at h
  · cases h
  · rename_i hf
    cases h
    simp at hf
    simp [hf]

theorem release_spec {m m' : Mem} {i : Nat} (h : release m i = .ok m') :
    m.active.getD i false = true ∧ m'.active = m.active.set i false ∧
    m'.measUsed = m.measUsed ∧ m'.regsToReturn = m.regsToReturn ∧
    m'.arraysToReturn = m.arraysToReturn ∧ m'.arrLens = m.arrLens ∧ m'.lbl = m.lbl ∧
    m'.handles = m.handles ∧ m'.peak = m.peak := by
  unfold release at h
  split at h
  · rename_i hf
    cases h
    exact ⟨hf, rfl, rfl, rfl, rfl, rfl, rfl, rfl, rfl⟩
  · cases h

theorem takeReg_spec {m m' : Mem} {i : Nat} (h : takeReg m = .ok (m', i)) :
    m.active.getD i true = false ∧ m'.active = m.active.set i true ∧ m'.handles = m.handles
    ∧ m'.arrLens = m.arrLens := by
  unfold takeReg at h
  split at h
  · cases h
  · rename_i j hj
    split at h
    · cases h
    · rename_i m1 hm1
      cases h
      have := activate_spec hm1
      exact ⟨this.1, this.2.1, this.2.2.2.2.2.2.2, this.2.2.2.2.2.1⟩

/-- release of a register that was taken from `a` and is still flagged: back to `a` -/
theorem release_after_take {m m' : Mem} {a : List Bool} {i : Nat}
    (hfree : a.getD i true = false) (hact : m.active = a.set i true)
    (h : release m i = .ok m') : m'.active = a := by
  have := release_spec h
  rw [this.2.1, hact]
  exact set_restore hfree

/-- a release of a taken register cannot fail -/
theorem release_ok_of_taken {m : Mem} {a : List Bool} {i : Nat}
    (hfree : a.getD i true = false) (hact : m.active = a.set i true) :
    ∃ m', release m i = .ok m' := by
  unfold release
  have : m.active.getD i false = true := by
    rw [hact]; exact getD_set_self (getD_true_false_lt hfree) _ _
  rw [if_pos this]
  exact ⟨_, rfl⟩

theorem releaseOpt_none {m m' : Mem} (h : releaseOpt m none = .ok m') : m' = m := by
  simp [releaseOpt] at h; exact h.symm

/-- two temporaries taken one after the other and given back in the same order -/
theorem restore_two {a : List Bool} {t u : Nat} (ht : a.getD t true = false)
    (hu : (a.set t true).getD u true = false) :
    (((a.set t true).set u true).set t false).set u false = a := by
  have hne : t ≠ u := by
    intro e; subst e
    rw [getD_set_self (getD_true_false_lt ht)] at hu
    cases hu
  have hu' : a.getD u true = false := by rwa [getD_set_ne hne] at hu
  have htl := getD_true_false_lt ht
  have hul := getD_true_false_lt hu'
  have hat : a[t] = false := by simpa [List.getD, List.getElem?_eq_getElem htl] using ht
  have hau : a[u] = false := by simpa [List.getD, List.getElem?_eq_getElem hul] using hu'
  apply List.ext_getElem
  · simp
  · intro j h1 h2
    simp only [List.getElem_set]
    by_cases e1 : u = j
    · subst e1; simp [hau]
    · by_cases e2 : t = j
      · subst e2; simp [e1, hat]
      · simp [e1, e2]


/-! ## every builder helper gives back what it takes -/

theorem accessCmds_active : ∀ (f : Fut) (m : Mem) (st : Bool) (r : Reg) (m' : Mem) (cs : List PCmd),
    accessCmds m st r f = .ok (m', cs) → m'.active = m.active
  | .lit a i, m, st, r, m', cs, h => by
    simp [accessCmds] at h; rw [← h.1]
  | .reg a hh, m, st, r, m', cs, h => by
    unfold accessCmds at h
    split at h
    · cases h
    · cases h; rfl
  | .fut a f, m, st, r, m', cs, h => by
    unfold accessCmds at h
    split at h
    · cases h
    · rename_i t ht
      split at h
      · cases h
      · rename_i m1 h1
        split at h
        · cases h
        · rename_i m2 cs2 h2
          split at h
          · cases h
          · rename_i m3 h3
            cases h
            have ha := activate_spec h1
            have hb := accessCmds_active f m1 false (R t) m2 cs2 h2
            exact release_after_take ha.1 (by rw [hb, ha.2.1]) h3

/-- what a helper that hands a temporary to its caller leaves behind -/
def Took (m m1 : Mem) : Option Nat → Prop
  | none => m1.active = m.active
  | some t => m.active.getD t true = false ∧ m1.active = m.active.set t true

theorem releaseOpt_took {m m1 m2 : Mem} {t : Option Nat} (ht : Took m m1 t)
    (h : releaseOpt m1 t = .ok m2) : m2.active = m.active := by
  cases t with
  | none => simp [releaseOpt] at h; subst h; exact ht
  | some t => exact release_after_take ht.1 ht.2 h

theorem condOperand_took {m m1 : Mem} {v : Val} {cs : List PCmd} {o : POp} {t : Option Nat}
    (h : condOperand m v = .ok (m1, cs, o, t)) : Took m m1 t := by
  cases v with
  | lit x => simp [condOperand] at h; obtain ⟨rfl, _, _, rfl⟩ := h; rfl
  | reg hh =>
    simp only [condOperand] at h
    split at h
    · cases h
    · split at h
      · cases h; rfl
      · cases h
  | fut f =>
    simp only [condOperand] at h
    split at h
    · cases h
    · rename_i m' t' h1
      split at h
      · cases h
      · cases h
        have := takeReg_spec h1
        exact ⟨this.1, this.2.1⟩

theorem addOther_took {m m1 : Mem} {v : Val} {cs : List PCmd} {o : POp} {t : Option Nat}
    (h : addOther m v = .ok (m1, cs, o, t)) : Took m m1 t := by
  cases v with
  | lit x => simp [addOther] at h; obtain ⟨rfl, _, _, rfl⟩ := h; rfl
  | reg hh =>
    simp only [addOther] at h
    split at h
    · cases h
    · split at h
      · cases h
      · cases h; rfl
  | fut f =>
    simp only [addOther] at h
    split at h
    · cases h
    · rename_i m' t' h1
      split at h
      · cases h
      · rename_i m2 ld h2
        cases h
        have := takeReg_spec h1
        have hb := accessCmds_active _ _ _ _ _ _ h2
        exact ⟨this.1, by rw [hb, this.2.1]⟩

theorem newLabel_active (m : Mem) (k : Nat) : (newLabel m k).1.active = m.active := rfl

theorem branchCmds_active {m m' : Mem} {c : Cond} {a b : Val} {cs : List PCmd} {l : Lbl}
    (h : branchCmds m c a b = .ok (m', cs, l)) : m'.active = m.active := by
  unfold branchCmds at h
  simp only at h
  split at h
  · -- unary
    split at h
    · cases h
    · rename_i m1 cs1 oa ta h1
      split at h
      · cases h
      · rename_i m2 h2
        cases h
        have := releaseOpt_took (condOperand_took h1) h2
        rw [this]; rfl
  · split at h
    · cases h
    · rename_i m1 ca oa ta h1
      split at h
      · cases h
      · rename_i m2 cb ob tb h2
        split at h
        · cases h
        · rename_i m3 h3
          split at h
          · cases h
          · rename_i m4 h4
            cases h
            have t1 := condOperand_took h1
            have t2 := condOperand_took h2
            have t1 : Took m m1 ta := t1
            -- four shapes of (ta, tb)
            cases ta with
            | none =>
              simp [releaseOpt] at h3; subst h3
              have := releaseOpt_took t2 h4
              rw [this, t1]
            | some t =>
              cases tb with
              | none =>
                simp [releaseOpt] at h4; subst h4
                have r3 := release_spec h3
                rw [r3.2.1, t2, t1.2]
                exact set_restore t1.1
              | some u =>
                have r3 := release_spec h3
                have r4 := release_spec h4
                rw [r4.2.1, r3.2.1, t2.2, t1.2]
                exact restore_two t1.1 (by rw [← t1.2]; exact t2.1)

theorem buildCondition_active {m m' : Mem} {c : Cond} {a b : Val} {body cs : List PCmd}
    (h : buildCondition m c a b body = .ok (m', cs)) : m'.active = m.active := by
  unfold buildCondition at h
  split at h
  · cases h; rfl
  · split at h
    · cases h
    · rename_i m1 st l h1
      cases h
      exact branchCmds_active h1

theorem buildLoop_active (m : Mem) (s e d : Int) (r : Reg) (body : List PCmd) :
    (buildLoop m s e d r body).1.active = m.active := by
  unfold buildLoop
  split <;> rfl

theorem breakCmds_active {m m' : Mem} {ef : Val} {ev : Int} {lx : Lbl} {cs : List PCmd}
    (h : breakCmds m ef ev lx = .ok (m', cs)) : m'.active = m.active := by
  unfold breakCmds at h
  split at h
  · cases h
  · rename_i m1 cs1 o t h1
    split at h
    · cases h
    · rename_i m2 h2
      cases h
      exact releaseOpt_took (condOperand_took h1) h2

theorem emitAddF_active {m m' : Mem} {f : Fut} {o : Val} {md : Option Int} {cs : List PCmd}
    (h : emitAddF m f o md = .ok (m', cs)) : m'.active = m.active := by
  unfold emitAddF at h
  split at h
  · cases h
  · rename_i m1 t h1
    split at h
    · cases h
    · rename_i m2 ld h2
      split at h
      · cases h
      · rename_i m3 st h3
        split at h
        · cases h
        · rename_i m4 ld2 oo tmp2 h4
          split at h
          · cases h
          · rename_i m5 h5
            split at h
            · cases h
            · rename_i m6 h6
              cases h
              have s1 := takeReg_spec h1
              have a2 := accessCmds_active _ _ _ _ _ _ h2
              have a3 := accessCmds_active _ _ _ _ _ _ h3
              have t4 := addOther_took h4
              have r5 := release_spec h5
              have e3 : m3.active = m.active.set t true := by rw [a3, a2, s1.2.1]
              cases tmp2 with
              | none =>
                simp [releaseOpt] at h6; subst h6
                rw [r5.2.1, t4, e3]
                exact set_restore s1.1
              | some u =>
                have r6 := release_spec h6
                rw [r6.2.1, r5.2.1, t4.2, e3]
                exact restore_two s1.1 (by rw [← e3]; exact t4.1)

theorem emitAddR_active {m m' : Mem} {hh : Nat} {o : Val} {md : Option Int} {cs : List PCmd}
    (h : emitAddR m hh o md = .ok (m', cs)) : m'.active = m.active := by
  unfold emitAddR at h
  split at h
  · cases h
  · split at h
    · cases h
    · split at h
      · cases h
      · rename_i m1 ld2 oo tmp2 h1
        split at h
        · cases h
        · rename_i m2 h2
          cases h
          exact releaseOpt_took (addOther_took h1) h2

theorem firstUnusedMeas_active {m m' : Mem} {k : Nat} (h : firstUnusedMeas m = .ok (m', k)) :
    m'.active = m.active := by
  unfold firstUnusedMeas at h
  split at h
  · cases h; rfl
  · cases h

theorem emitQop_active {m m' : Mem} {g : List Nat} {tgt : MTgt} {cs : List PCmd}
    (h : emitQop m g tgt = .ok (m', cs)) : m'.active = m.active := by
  unfold emitQop at h
  cases tgt with
  | newFut =>
    simp only at h
    split at h
    · cases h
    · rename_i m1 k h1
      split at h
      · cases h
      · rename_i m2 st h2
        cases h
        have := firstUnusedMeas_active h1
        have a2 := accessCmds_active _ _ _ _ _ _ h2
        simp [a2, this]
  | fut f =>
    simp only at h
    split at h
    · cases h
    · rename_i m1 k h1
      split at h
      · cases h
      · rename_i m2 st h2
        cases h
        have := firstUnusedMeas_active h1
        have a2 := accessCmds_active _ _ _ _ _ _ h2
        simp [a2, this]
  | newReg =>
    simp only at h
    split at h
    · cases h
    · rename_i m1 k h1
      cases h
      have := firstUnusedMeas_active h1
      simp [bindHandle, this]


/-! ## the invariant of C14 -/

/-- Operations that are *completed* when `emit` returns. The only host statement that is not is
`newReg` (`Builder.new_register`): it hands a register to the program for good. -/
def Completed : Host → Prop
  | .skip => True
  | .seq a b => Completed a ∧ Completed b
  | .newArray _ _ => True
  | .newReg _ => False
  | .qop _ _ => True
  | .addF _ _ _ => True
  | .addR _ _ _ => True
  | .ifc _ _ _ _ body => Completed body
  | .loop _ _ _ body => Completed body
  | .loopBody _ _ _ body => Completed body
  | .foreach _ _ body => Completed body
  | .loopUntil _ body _ _ cl => Completed body ∧ Completed cl
  | .tryUntil _ body => Completed body

theorem bindHandle_active (m : Mem) (r : Reg) (b : Bool) : (bindHandle m r b).active = m.active := rfl

/-- shared shape of `loop`, `loopBody`, `foreach`: take, body, labels, release -/
theorem loopShape_active {m m1 m2 m4 : Mem} {i : Nat} {s e d : Int} {r : Reg} {cs : List PCmd} {b : Bool}
    (h1 : takeReg m = .ok (m1, i)) (hb : m2.active = (bindHandle m1 (R i) b).active)
    (h4 : release (buildLoop m2 s e d r cs).1 i = .ok m4) : m4.active = m.active := by
  have s1 := takeReg_spec h1
  exact release_after_take s1.1 (by rw [buildLoop_active, hb, bindHandle_active, s1.2.1]) h4

theorem emit_active : ∀ (op : Host) (m m' : Mem) (cs : List PCmd),
    Completed op → emit m op = .ok (m', cs) → m'.active = m.active := by
  intro op
  induction op with
  | skip => intro m m' cs _ h; simp [emit] at h; rw [← h.1]
  | seq a b iha ihb =>
    intro m m' cs hc h
    simp only [emit] at h
    split at h
    · cases h
    · rename_i m1 ca h1
      split at h
      · cases h
      · rename_i m2 cb h2
        cases h
        rw [ihb _ _ _ hc.2 h2, iha _ _ _ hc.1 h1]
  | newArray len init =>
    intro m m' cs _ h
    simp only [emit] at h
    split at h
    · split at h
      · cases h
      · cases h; rfl
    · split at h
      · cases h
      · cases h; rfl
  | newReg v => intro m m' cs hc; exact hc.elim
  | qop g t => intro m m' cs _ h; simp only [emit] at h; exact emitQop_active h
  | addF f o md => intro m m' cs _ h; simp only [emit] at h; exact emitAddF_active h
  | addR hh o md => intro m m' cs _ h; simp only [emit] at h; exact emitAddR_active h
  | ifc cb c a b body ih =>
    intro m m' cs hc h
    simp only [emit] at h
    split at h
    · cases h
    · rename_i m1 bc h1
      rw [buildCondition_active h, ih _ _ _ hc h1]
  | loop s e d body ih =>
    intro m m' cs hc h
    simp only [emit] at h
    split at h
    · cases h
    · rename_i m1 i h1
      split at h
      · cases h
      · rename_i m2 bc h2
        split at h
        · cases h
        · rename_i m4 h4
          cases h
          exact loopShape_active h1 (ih _ _ _ hc h2) h4
  | loopBody s e d body ih =>
    intro m m' cs hc h
    simp only [emit] at h
    split at h
    · cases h
    · rename_i m1 i h1
      split at h
      · cases h
      · rename_i m2 bc h2
        split at h
        · cases h
        · rename_i m4 h4
          cases h
          exact loopShape_active h1 (ih _ _ _ hc h2) h4
  | foreach arr wi body ih =>
    intro m m' cs hc h
    simp only [emit] at h
    split at h
    · cases h
    · split at h
      · cases h
      · rename_i m1 i h1
        split at h
        · cases h
        · rename_i m2 bc h2
          split at h
          · cases h
          · rename_i m4 h4
            cases h
            exact loopShape_active h1 (ih _ _ _ hc h2) h4
  | loopUntil n body ef ev cl ihb ihc =>
    intro m m' cs hc h
    simp only [emit] at h
    split at h
    · cases h
    · rename_i m1 i h1
      have s1 := takeReg_spec h1
      split at h
      · cases h
      · rename_i m2 bc h2
        have e2 : m2.active = m.active.set i true := by
          rw [ihb _ _ _ hc.1 h2, bindHandle_active, s1.2.1]
        split at h
        · split at h
          · cases h
          · rename_i m3 h3
            cases h
            exact release_after_take s1.1 e2 h3
        · split at h
          · cases h
          · rename_i m5 brk h5
            split at h
            · cases h
            · rename_i m6 clc h6
              split at h
              · cases h
              · rename_i m7 h7
                cases h
                refine release_after_take s1.1 ?_ h7
                rw [ihc _ _ _ hc.2 h6, breakCmds_active h5]
                exact e2
  | tryUntil n body ih =>
    intro m m' cs hc h
    simp only [emit] at h
    exact ih _ _ _ hc h

/-- `newReg` takes exactly one register out of the pool (and keeps it) -/
theorem emit_newReg_active {m m' : Mem} {v : Int} {cs : List PCmd}
    (h : emit m (.newReg v) = .ok (m', cs)) :
    ∃ i, m.active.getD i true = false ∧ m'.active = m.active.set i true := by
  simp only [emit] at h
  split at h
  · cases h
  · rename_i m1 i h1
    cases h
    have := takeReg_spec h1
    exact ⟨i, this.1, by simp [bindHandle, this.2.1]⟩

/-! ## flush -/

theorem initArray_active {m m' : Mem} {pend out : List PCmd} {d : ArrDecl}
    (h : initArray m pend d = .ok (m', out)) : m'.active = m.active := by
  unfold initArray at h
  simp only at h
  split at h
  · cases h; rfl
  · split at h
    · split at h
      · cases h
      · rename_i i hi
        split at h
        · cases h
        · rename_i m1 h1
          split at h
          · cases h
          · rename_i m3 h3
            cases h
            have a1 := activate_spec h1
            exact release_after_take a1.1 (by rw [buildLoop_active, a1.2.1]) h3
    · cases h; rfl

theorem initArrays_active : ∀ (ds : List ArrDecl) (m m' : Mem) (pend out : List PCmd),
    initArrays m pend ds = .ok (m', out) → m'.active = m.active
  | [], m, m', pend, out, h => by simp [initArrays] at h; rw [← h.1]
  | d :: ds, m, m', pend, out, h => by
    simp only [initArrays] at h
    split at h
    · cases h
    · rename_i m1 p1 h1
      rw [initArrays_active ds _ _ _ _ h, initArray_active h1]

theorem flush_active {m m' : Mem} {pend : List PCmd} {sub : Option (List PCmd)}
    (h : flush m pend = .ok (m', sub)) : m'.active = m.active := by
  unfold flush at h
  split at h
  · cases h
  · rename_i m1 ini h1
    simp only at h
    split at h
    · cases h; exact initArrays_active _ _ _ _ _ h1
    · cases h; exact (initArrays_active _ _ _ _ _ h1 : m1.active = m.active)

end NQ.Sdk
