/-
Compiler correctness of the SDK builder model (C05), part 6: array declaration and initialisation at
the head of a subroutine (`_build_cmds_allocated_arrays` / `_build_cmds_init_array`), closed form:
after the initialisation code every array created since the last flush holds exactly its initial
values — for the plain store list and for the all-equal loop optimisation (including the
re-ordering of the pending commands that the loop variant performs).
-/
import NetqasmVerif.Lemmas.SdkSimTop
set_option linter.unusedSimpArgs false
set_option linter.unusedVariables false
namespace NQ.Sdk

abbrev Arrs := Nat → Option (List (Option Int))

def updArr (arrs : Arrs) (a : Nat) (l : List (Option Int)) : Arrs := fun x => if x = a then some l else arrs x

theorem updArr_upd (arrs : Arrs) (a : Nat) (l1 l2 : List (Option Int)) :
    updArr (updArr arrs a l1) a l2 = updArr arrs a l2 := by
  funext x; by_cases e : x = a <;> simp [updArr, e]

theorem updArr_self {arrs : Arrs} {a : Nat} {l : List (Option Int)} (h : arrs a = some l) :
    updArr arrs a l = arrs := by
  funext x; by_cases e : x = a
  · subst e; simp [updArr, h]
  · simp [updArr, e]

theorem updArr_comm (arrs : Arrs) {a b : Nat} (l1 l2 : List (Option Int)) (h : a ≠ b) :
    updArr (updArr arrs a l1) b l2 = updArr (updArr arrs b l2) a l1 := by
  funext x
  by_cases e1 : x = a
  · subst e1
    simp [updArr, h]
  · by_cases e2 : x = b
    · subst e2; simp [updArr, e1]
    · simp [updArr, e1, e2]

theorem setArr_arrs (s : St) (a : Nat) (l : List (Option Int)) : (s.setArr a l).arrs = updArr s.arrs a l := rfl

/-- the arrays after declaring and initialising `ds` in order -/
def applyDecls (arrs : Arrs) : List ArrDecl → Arrs
  | [] => arrs
  | d :: ds => applyDecls (updArr arrs d.addr (initList d)) ds

theorem applyDecls_append (arrs : Arrs) (a b : List ArrDecl) :
    applyDecls arrs (a ++ b) = applyDecls (applyDecls arrs a) b := by
  induction a generalizing arrs with
  | nil => rfl
  | cons d ds ih => simp [applyDecls, ih]

theorem applyDecls_other (arrs : Arrs) (ds : List ArrDecl) (a : Nat) (h : ∀ d ∈ ds, d.addr ≠ a) :
    applyDecls arrs ds a = arrs a := by
  induction ds generalizing arrs with
  | nil => rfl
  | cons d ds ih =>
    simp only [applyDecls]
    rw [ih _ (fun d' hd' => h d' (by simp [hd']))]
    have := h d (by simp)
    simp [updArr, Ne.symm this]

theorem applyDecls_upd_comm (arrs : Arrs) (ds : List ArrDecl) (a : Nat) (x y : List (Option Int))
    (h : ∀ d ∈ ds, d.addr ≠ a) :
    updArr (applyDecls (updArr arrs a x) ds) a y = updArr (applyDecls arrs ds) a y := by
  induction ds generalizing arrs with
  | nil => simp [applyDecls, updArr_upd]
  | cons d ds ih =>
    simp only [applyDecls]
    have hd := h d (by simp)
    rw [updArr_comm arrs x (initList d) (Ne.symm hd)]
    exact ih _ (fun d' hd' => h d' (by simp [hd']))

theorem initDecls_spec (s : HSt) (ds : List ArrDecl) :
    (initDecls s ds).arrs = applyDecls s.arrs ds ∧ (initDecls s ds).hregs = s.hregs ∧
    (initDecls s ds).trace = s.trace ∧ (initDecls s ds).outcomes = s.outcomes := by
  induction ds generalizing s with
  | nil => exact ⟨rfl, rfl, rfl, rfl⟩
  | cons d ds ih =>
    simp only [initDecls, applyDecls]
    have := ih (s.setArr d.addr (initList d))
    exact ⟨this.1, this.2.1, this.2.2.1, this.2.2.2⟩

/-- only arrays differ -/
structure ArrOnly (ts ts' : St) : Prop where
  regs : ts'.regs = ts.regs
  trace : ts'.trace = ts.trace
  outs : ts'.outcomes = ts.outcomes
  shmR : ts'.shmRegs = ts.shmRegs
  shmA : ts'.shmArrs = ts.shmArrs

theorem ArrOnly.refl (ts : St) : ArrOnly ts ts := ⟨rfl, rfl, rfl, rfl, rfl⟩
theorem ArrOnly.trans {a b c : St} (h1 : ArrOnly a b) (h2 : ArrOnly b c) : ArrOnly a c :=
  ⟨h2.regs.trans h1.regs, h2.trace.trans h1.trace, h2.outs.trans h1.outs, h2.shmR.trans h1.shmR,
   h2.shmA.trans h1.shmA⟩
theorem ArrOnly.setArr (ts : St) (a : Nat) (l : List (Option Int)) : ArrOnly ts (ts.setArr a l) :=
  ⟨rfl, rfl, rfl, rfl, rfl⟩

/-! ## the store list -/

def overlay : List (Option Int) → Nat → List (Option Int) → List (Option Int)
  | l, _, [] => l
  | l, i, none :: vs => overlay l (i + 1) vs
  | l, i, some v :: vs => overlay (l.set i (some v)) (i + 1) vs

theorem overlay_full : ∀ (vs pre : List (Option Int)),
    overlay (pre ++ List.replicate vs.length none) pre.length vs = pre ++ vs
  | [], pre => by simp [overlay]
  | none :: vs, pre => by
    simp only [overlay, List.length_cons, List.replicate_succ]
    have := overlay_full vs (pre ++ [none])
    simpa [List.append_assoc] using this
  | some v :: vs, pre => by
    simp only [overlay, List.length_cons, List.replicate_succ]
    have hset : (pre ++ none :: List.replicate vs.length none).set pre.length (some v)
        = pre ++ some v :: List.replicate vs.length none := by
      rw [List.set_append_right _ _ (Nat.le_refl _)]
      simp
    rw [hset]
    have := overlay_full vs (pre ++ [some v])
    simpa [List.append_assoc] using this

theorem overlay_length : ∀ (vs : List (Option Int)) (l : List (Option Int)) (i : Nat),
    (overlay l i vs).length = l.length
  | [], l, i => rfl
  | none :: vs, l, i => by simp [overlay, overlay_length vs]
  | some v :: vs, l, i => by simp [overlay, overlay_length vs]

theorem storeInits_sim (a : Nat) : ∀ (vs : List (Option Int)) (i : Nat) (l : List (Option Int)) (ts : St)
    (p : List PCmd) (n : Nat), Placed p n (storeInits a i vs) → ts.arrs a = some l → i + vs.length ≤ l.length →
    ∃ ts', Runs p n (storeInits a i vs).length ts ts' ∧ ArrOnly ts ts' ∧
      ts'.arrs = updArr ts.arrs a (overlay l i vs)
  | [], i, l, ts, p, n, _, ha, _ =>
    ⟨ts, Runs.refl _ _ _, ArrOnly.refl _, by simp [overlay, updArr_self ha]⟩
  | none :: vs, i, l, ts, p, n, hpl, ha, hi => by
    simp only [storeInits, overlay] at hpl ⊢
    exact storeInits_sim a vs (i + 1) l ts p n hpl ha (by simp at hi; omega)
  | some v :: vs, i, l, ts, p, n, hpl, ha, hi => by
    simp only [storeInits, overlay] at hpl ⊢
    have hil : i < l.length := by simp at hi; omega
    have r0 : Runs p n 1 ts (ts.setArr a (l.set i (some v))) :=
      runs_instr hpl.head (exec_store (by simp) (entryLoc_L _ _ _) ha hil)
    obtain ⟨ts', hr, ho, harr⟩ := storeInits_sim a vs (i + 1) (l.set i (some v)) (ts.setArr a (l.set i (some v)))
      p (n + 1) hpl.tail (by simp) (by simp at hi ⊢; omega)
    refine ⟨ts', ?_, (ArrOnly.setArr ts a _).trans ho, ?_⟩
    · exact runs_cast (runs_seq r0 hr) (by simp; omega)
    · rw [harr, setArr_arrs, updArr_upd]

/-! ## the all-equal loop -/

/-- only the arrays and one register differ -/
structure RegOnly (r : Reg) (ts ts' : St) : Prop where
  regs : ∀ x, x ≠ r → ts'.regs x = ts.regs x
  trace : ts'.trace = ts.trace
  outs : ts'.outcomes = ts.outcomes
  shmR : ts'.shmRegs = ts.shmRegs
  shmA : ts'.shmArrs = ts.shmArrs

theorem replicate_set_next (k j : Nat) (x : Option Int) :
    (List.replicate k x ++ List.replicate (j + 1) none).set k x
      = List.replicate (k + 1) x ++ List.replicate j none := by
  rw [List.set_append_right _ _ (by simp)]
  simp only [List.length_replicate, Nat.sub_self, List.replicate_succ, List.set_cons_zero]
  rw [← List.replicate_succ, List.replicate_succ', List.append_assoc]
  rfl

theorem fill_loop_sim {p : List PCmd} {n : Nat} {i a N : Nat} {v : Int} {le lx : Lbl}
    (Lp : LoopAt p n 1 (R i) 0 (N : Int) 1 le lx)
    (hst : p[n + 3]? = some (.instr .store [.lit v, .entryR a (R i)])) :
    ∀ (j k : Nat) (ts : St), k + j = N → ts.regs (R i) = some (k : Int) →
      ts.arrs a = some (List.replicate k (some v) ++ List.replicate j none) →
      ∃ ts', Steps p (ts, n + 2) (ts', n + 7) ∧
        ts'.arrs = updArr ts.arrs a (List.replicate N (some v)) ∧ RegOnly (R i) ts ts' := by
  intro j
  induction j with
  | zero =>
    intro k ts hk hr ha
    have hkN : k = N := by omega
    subst hkN
    have : step p (ts, n + 2) = some (ts, n + 5 + 1 + 1) := by
      rw [step_instr ts Lp.h2]
      simp [exec, hr, brTaken2, goto, Lp.flx]
    refine ⟨ts, Steps.one this, ?_, ⟨fun _ _ => rfl, rfl, rfl, rfl, rfl⟩⟩
    rw [updArr_self]; simpa using ha
  | succ j ih =>
    intro k ts hk hr ha
    have hne : (k : Int) ≠ (N : Int) := by omega
    have s1 : step p (ts, n + 2) = some (ts, n + 3) := by
      rw [step_instr ts Lp.h2]
      simp [exec, hr, hne, brTaken2, goto, Lp.flx]
    have hloc : entryLoc ts (.entryR a (R i)) = some (a, k) :=
      entryLoc_R hr (by simp [idxOf])
    have s2 : step p (ts, n + 3) = some (ts.setArr a ((List.replicate k (some v) ++ List.replicate (j + 1) none).set k (some v)), n + 3 + 1) := by
      rw [step_instr ts hst]
      exact exec_store (by simp) hloc ha (by simp)
    rw [replicate_set_next] at s2
    let ts1 := ts.setArr a (List.replicate (k + 1) (some v) ++ List.replicate j none)
    have s3 : step p (ts1, n + 3 + 1) = some (ts1.setReg (R i) ((k : Int) + 1), n + 3 + 1 + 1) := by
      rw [step_instr ts1 Lp.h3]
      simp [exec, ts1, hr]
    have s4 : step p (ts1.setReg (R i) ((k : Int) + 1), n + 4 + 1) = some (ts1.setReg (R i) ((k : Int) + 1), n + 1 + 1) := by
      rw [step_instr _ Lp.h4]
      simp [exec, goto, Lp.fle]
    obtain ⟨ts', hst', harr, hro⟩ := ih (k + 1) (ts1.setReg (R i) ((k : Int) + 1)) (by omega)
      (by simp) (by simp [ts1])
    refine ⟨ts', Steps.next s1 (Steps.next s2 (Steps.next s3 (Steps.next s4 hst'))), ?_, ?_⟩
    · rw [harr]
      show updArr (updArr ts.arrs a _) a _ = _
      rw [updArr_upd]
    · exact ⟨fun x hx => by rw [hro.regs x hx]; simp [ts1, St.setReg, hx], hro.trace, hro.outs, hro.shmR, hro.shmA⟩

/-! ## `_build_cmds_init_array` for all arrays of a flush -/

/-- registers agree except temporaries; trace, oracle and shared memory untouched (arrays may differ) -/
structure RegEq (a : List Bool) (ts ts' : St) : Prop where
  regs : ∀ x, ¬ TmpIn a x → ts'.regs x = ts.regs x
  trace : ts'.trace = ts.trace
  outs : ts'.outcomes = ts.outcomes
  shmR : ts'.shmRegs = ts.shmRegs
  shmA : ts'.shmArrs = ts.shmArrs

theorem RegEq.refl (a : List Bool) (ts : St) : RegEq a ts ts := ⟨fun _ _ => rfl, rfl, rfl, rfl, rfl⟩
theorem RegEq.trans {a : List Bool} {x y z : St} (h1 : RegEq a x y) (h2 : RegEq a y z) : RegEq a x z :=
  ⟨fun r hr => (h2.regs r hr).trans (h1.regs r hr), h2.trace.trans h1.trace, h2.outs.trans h1.outs,
   h2.shmR.trans h1.shmR, h2.shmA.trans h1.shmA⟩
theorem RegEq.of_arrOnly {a : List Bool} {x y : St} (h : ArrOnly x y) : RegEq a x y :=
  ⟨fun r _ => by rw [h.regs], h.trace, h.outs, h.shmR, h.shmA⟩
theorem RegEq.of_regOnly {a : List Bool} {x y : St} {r : Reg} (h : RegOnly r x y) (hr : TmpIn a r) : RegEq a x y :=
  ⟨fun z hz => h.regs z (fun e => hz (e ▸ hr)), h.trace, h.outs, h.shmR, h.shmA⟩

/-- the pending initialisation code `pend` realises the declarations `pd`, from any state -/
def PendOK (act : List Bool) (pend : List PCmd) (pd : List ArrDecl) : Prop :=
  ∀ (p : List PCmd) (n : Nat) (ts : St), Placed p n pend →
    ∃ ts', Runs p n pend.length ts ts' ∧ RegEq act ts ts' ∧ ts'.arrs = applyDecls ts.arrs pd

def DeclOK (d : ArrDecl) : Prop :=
  match d.init with
  | some vs => d.len = vs.length
  | none => True

theorem allEqualInit_spec : ∀ {vs : List (Option Int)} {v : Int}, allEqualInit vs = some v →
    vs = List.replicate vs.length (some v)
  | [], v, h => by simp [allEqualInit] at h
  | none :: rest, v, h => by simp [allEqualInit] at h
  | some w :: rest, v, h => by
    simp only [allEqualInit] at h
    split at h
    · rename_i hc
      cases h
      simp only [Bool.and_eq_true, List.all_eq_true, beq_iff_eq] at hc
      simp only [List.length_cons, List.replicate_succ]
      congr 1
      exact List.eq_replicate_iff.mpr ⟨rfl, hc.2⟩
    · cases h

theorem exec_array {p : List PCmd} {s : St} {n : Nat} (len a : Nat) :
    exec p s n .array [.lit (len : Int), .addr a] = some (s.setArr a (List.replicate len none), n + 1) := by
  simp [exec]

theorem initArray_sim {m m' : Mem} {pend out : List PCmd} {d : ArrDecl} {pd : List ArrDecl}
    (h : initArray m pend d = .ok (m', out)) (hp : PendOK m.active pend pd)
    (hne : ∀ d' ∈ pd, d'.addr ≠ d.addr) (hd : DeclOK d) : PendOK m.active out (pd ++ [d]) := by
  unfold initArray at h
  simp only at h
  split at h
  · -- no initial values
    rename_i hinit
    cases h
    intro p n ts hpl
    obtain ⟨ts1, hr1, he1, ha1⟩ := hp p n ts hpl.left
    refine ⟨ts1.setArr d.addr (List.replicate d.len none), ?_, he1.trans (RegEq.of_arrOnly (ArrOnly.setArr _ _ _)), ?_⟩
    · have r2 : Runs p (n + pend.length) 1 ts1 _ := runs_instr hpl.right.head (exec_array d.len d.addr)
      exact runs_cast (runs_seq hr1 r2) (by simp)
    · rw [setArr_arrs, ha1, applyDecls_append]
      simp [applyDecls, initList, hinit]
  · rename_i vs hinit
    have hlen : d.len = vs.length := by simp [DeclOK, hinit] at hd; exact hd
    split at h
    · -- all-equal loop
      rename_i v hall
      split at h
      · cases h
      · rename_i i hi
        split at h
        · cases h
        · rename_i m1 h1
          split at h
          · cases h
          · rename_i m3 h3
            cases h
            have htmp : TmpIn m.active (R i) := ⟨rfl, getInactive_spec hi⟩
            have hvs := allEqualInit_spec hall
            intro p n ts hpl
            rw [buildLoop_shape _ _ _ _ _ _ (by simp)] at hpl ⊢
            -- declaration
            let ts0 := ts.setArr d.addr (List.replicate d.len none)
            have r0 : Runs p n 1 ts ts0 := runs_instr hpl.head (exec_array d.len d.addr)
            -- the earlier arrays
            obtain ⟨ts1, hr1, he1, ha1⟩ := hp p (n + 1) ts0 hpl.tail.left
            have hplL := hpl.tail.right
            have Lp := loopAt_of_placed hplL
            have harr1 : ts1.arrs d.addr = some (List.replicate d.len none) := by
              rw [ha1, applyDecls_other _ _ _ hne]; simp [ts0]
            -- loop entry
            let n0 := n + 1 + pend.length
            have r2 : Runs p n0 1 ts1 (ts1.setReg (R i) 0) := runs_instr Lp.h0 (by simp [exec])
            have r3 : Runs p (n0 + 1) 1 (ts1.setReg (R i) 0) (ts1.setReg (R i) 0) := runs_label _ Lp.h1
            have hstore : p[n0 + 3]? = some (.instr .store [.lit v, .entryR d.addr (R i)]) := by
              have := hplL.code 3 (by simp [loopCode])
              simpa [loopCode] using this
            obtain ⟨ts2, hst2, ha2, hro2⟩ := fill_loop_sim (N := vs.length) Lp hstore vs.length 0
              (ts1.setReg (R i) 0) (by omega) (by simp) (by simp [harr1, hlen])
            refine ⟨ts2, ?_, ?_, ?_⟩
            · have r01 := runs_seq' r0 hr1 rfl
              have r012 := runs_seq' r01 r2 (by simp [n0]; omega)
              have r0123 := runs_seq' r012 r3 (by simp [n0]; omega)
              unfold Runs at r0123 ⊢
              have e : n + (PCmd.instr Mn.array [POp.lit (d.len : Int), POp.addr d.addr] ::
                  (pend ++ loopCode (R i) 0 (vs.length : Int) 1 (loopLabels m1).1 (loopLabels m1).2
                    [PCmd.instr Mn.store [POp.lit v, POp.entryR d.addr (R i)]])).length = n0 + 7 := by
                simp [loopCode, n0]; omega
              rw [e]
              have e2 : n + (1 + pend.length + 1 + 1) = n0 + 2 := by simp [n0]; omega
              rw [e2] at r0123
              exact Steps.trans r0123 hst2
            · have q0 : RegEq m.active ts ts0 := RegEq.of_arrOnly (ArrOnly.setArr _ _ _)
              have q2 : RegEq m.active ts1 (ts1.setReg (R i) 0) :=
                ⟨fun x hx => by
                  have : x ≠ R i := fun e => hx (e ▸ htmp)
                  simp [St.setReg, this], rfl, rfl, rfl, rfl⟩
              exact (q0.trans he1).trans (q2.trans (RegEq.of_regOnly hro2 htmp))
            · rw [ha2]
              show updArr ts1.arrs d.addr _ = _
              rw [ha1]
              show updArr (applyDecls (updArr ts.arrs d.addr (List.replicate d.len none)) pd) d.addr _ = _
              rw [applyDecls_upd_comm _ _ _ _ _ hne, applyDecls_append]
              simp only [applyDecls, initList, hinit]
              rw [← hvs]
    · -- store list
      rename_i hall
      cases h
      intro p n ts hpl
      obtain ⟨ts1, hr1, he1, ha1⟩ := hp p n ts hpl.left
      let ts2 := ts1.setArr d.addr (List.replicate d.len none)
      have r2 : Runs p (n + pend.length) 1 ts1 ts2 := runs_instr hpl.right.head (exec_array d.len d.addr)
      obtain ⟨ts3, hr3, ho3, ha3⟩ := storeInits_sim d.addr vs 0 (List.replicate d.len none) ts2 p
        (n + pend.length + 1) hpl.right.tail (by simp [ts2]) (by simp [hlen])
      refine ⟨ts3, ?_, ?_, ?_⟩
      · have r12 := runs_seq hr1 r2
        have := runs_seq' r12 hr3 (by omega)
        exact runs_cast this (by simp; omega)
      · exact he1.trans ((RegEq.of_arrOnly (ArrOnly.setArr _ _ _)).trans (RegEq.of_arrOnly ho3))
      · rw [ha3]
        show updArr (updArr ts1.arrs d.addr _) d.addr _ = _
        rw [updArr_upd, ha1, applyDecls_append]
        simp only [applyDecls, initList, hinit]
        have := overlay_full vs []
        simp only [List.nil_append, List.length_nil] at this
        rw [hlen, this]

theorem initArrays_sim : ∀ (ds : List ArrDecl) (m m' : Mem) (pend out : List PCmd) (pd : List ArrDecl),
    initArrays m pend ds = .ok (m', out) → PendOK m.active pend pd →
    ((pd ++ ds).map (·.addr)).Nodup → (∀ d ∈ ds, DeclOK d) → PendOK m.active out (pd ++ ds)
  | [], m, m', pend, out, pd, h, hp, _, _ => by
    simp [initArrays] at h; obtain ⟨_, rfl⟩ := h; simpa using hp
  | d :: ds, m, m', pend, out, pd, h, hp, hnd, hok => by
    simp only [initArrays] at h
    split at h
    · cases h
    · rename_i m1 p1 h1
      have hne : ∀ d' ∈ pd, d'.addr ≠ d.addr := by
        intro d' hd' e
        rw [List.map_append, List.nodup_append] at hnd
        exact hnd.2.2 _ (List.mem_map_of_mem hd') _ (List.mem_map_of_mem (List.mem_cons_self)) e
      have hp1 := initArray_sim h1 hp hne (hok d (by simp))
      rw [← initArray_active h1] at hp1
      have := initArrays_sim ds m1 m' p1 out (pd ++ [d]) h hp1 (by simpa [List.append_assoc] using hnd)
        (fun d' hd' => hok d' (by simp [hd']))
      rw [initArray_active h1] at this
      simpa [List.append_assoc] using this

theorem PendOK.nil (act : List Bool) : PendOK act [] [] :=
  fun p n ts _ => ⟨ts, Runs.refl _ _ _, RegEq.refl _ _, rfl⟩


end NQ.Sdk
