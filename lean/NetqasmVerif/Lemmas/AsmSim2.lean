/-
C03, part 4: `_assign_branch_labels` is a simulation (labels disappear, every branch lands on
the command that followed its label), and the faults / halting clauses of both passes.
-/
import NetqasmVerif.Lemmas.AsmSim1
namespace NQ.Asm
open NQ

theorem filterMap_patch_get {tbl : List (String × Nat)} {P : List PCmd} {i : Nat} {mn : String}
    {a : List Int} {ops : List POperand} (h : P[i]? = some (.instr mn a ops)) :
    (P.filterMap (patchCmd tbl))[tpos2 P i]? = some (.instr mn a (ops.map (patchOp tbl))) := by
  induction P generalizing i with
  | nil => simp at h
  | cons y ys ih =>
    cases i with
    | zero =>
      simp at h; subst h
      simp [tpos2, patchCmd]
    | succ k =>
      simp at h
      rw [tpos2_cons_succ]
      cases y with
      | label l =>
        have : List.filterMap (patchCmd tbl) (PCmd.label l :: ys) = List.filterMap (patchCmd tbl) ys := by
          simp [List.filterMap_cons, patchCmd]
        rw [this]; simpa [len2] using ih h
      | instr mn' a' o' =>
        simp only [List.filterMap_cons, patchCmd, len2]
        rw [Nat.add_comm, List.getElem?_cons_succ]
        exact ih h

theorem filterMap_patch_length (tbl : List (String × Nat)) (P : List PCmd) :
    (P.filterMap (patchCmd tbl)).length = tpos2 P P.length := by
  induction P with
  | nil => simp [tpos2]
  | cons y ys ih =>
    rw [List.length_cons, tpos2_cons_succ]
    cases y with
    | label l =>
      have : List.filterMap (patchCmd tbl) (PCmd.label l :: ys) = List.filterMap (patchCmd tbl) ys := by
        simp [List.filterMap_cons, patchCmd]
      rw [this]; simpa [len2] using ih
    | instr mn a o => simp only [List.filterMap_cons, patchCmd, len2, List.length_cons, ih]; omega

theorem tpos2_ge_length {P : List PCmd} {i : Nat} (h : P.length ≤ i) : tpos2 P i = tpos2 P P.length := by
  simp [tpos2, List.take_of_length_le h]

theorem tpos1_ge_length {exc : List (String × Nat)} {P : List PCmd} {i : Nat} (h : P.length ≤ i) :
    tpos1 exc P i = tpos1 exc P P.length := by
  simp [tpos1, List.take_of_length_le h]

/-- `labels_correct` (pass level): the table entry of a label is the number of real commands
before it -/
theorem lookup_labelTable (P : List PCmd) (n : Nat) (l : String) :
    lookupLabel (labelTable P n) l = (labelIdx P l).map (fun k => n + tpos2 P k) := by
  induction P generalizing n with
  | nil => simp [labelTable, lookupLabel, labelIdx]
  | cons y ys ih =>
    cases y with
    | label l' =>
      simp only [labelTable, lookupLabel, labelIdx]
      by_cases e : l' = l
      · simp [e, tpos2]
      · simp only [e, if_false, ih, Option.map_map]
        congr 1; funext k
        simp [tpos2_cons_succ, len2]
    | instr mn a o =>
      simp only [labelTable, labelIdx, ih, Option.map_map]
      congr 1; funext k
      simp [tpos2_cons_succ, len2]; omega

theorem evalOp_patchOp {tbl : List (String × Nat)} {ρ : Regs} {role : Role} {o : POperand} {v : Val}
    (h : evalOp ρ role o = some v) : evalOp ρ role (patchOp tbl o) = some v := by
  cases o with
  | lab l =>
    simp only [patchOp]
    cases lookupLabel tbl l with
    | none => exact h
    | some n => cases role <;> simp only [evalOp] at h ⊢ <;> first | exact h | cases h
  | _ => exact h

theorem evalOps_patchOp {tbl : List (String × Nat)} {ρ : Regs} {rs : List Role} {ops : List POperand}
    {vals : List Val} (h : evalOps ρ rs ops = some vals) :
    evalOps ρ rs (ops.map (patchOp tbl)) = some vals := by
  induction ops generalizing rs vals with
  | nil => simpa using h
  | cons o os ih =>
    cases rs with
    | nil => simp [evalOps] at h
    | cons r rs' =>
      simp only [evalOps, List.map_cons] at h ⊢
      cases e1 : evalOp ρ r o with
      | none => simp [e1] at h
      | some v =>
        cases e2 : evalOps ρ rs' os with
        | none => simp [e1, e2] at h
        | some vs =>
          simp only [e1, e2] at h
          simp only [evalOp_patchOp e1, ih e2, h]

theorem dstOf_patchOp (tbl : List (String × Nat)) (rs : List Role) (ops : List POperand) :
    dstOf rs (ops.map (patchOp tbl)) = dstOf rs ops := by
  induction ops generalizing rs with
  | nil => cases rs <;> simp [dstOf]
  | cons o os ih =>
    cases rs with
    | nil => simp [dstOf]
    | cons r rs' =>
      cases o with
      | lab l =>
        simp only [List.map_cons, patchOp]
        cases lookupLabel tbl l <;> cases r <;> simp only [dstOf, ih]
      | _ => cases r <;> simp only [List.map_cons, patchOp, dstOf, ih]

theorem tgtOf_patchOp (tbl : List (String × Nat)) (rs : List Role) (ops : List POperand) :
    tgtOf rs (ops.map (patchOp tbl)) = (tgtOf rs ops).map (patchOp tbl) := by
  induction ops generalizing rs with
  | nil => cases rs <;> simp [tgtOf]
  | cons o os ih =>
    cases rs with
    | nil => simp [tgtOf]
    | cons r rs' => cases r <;> simp only [List.map_cons, tgtOf, ih, Option.map_some]

theorem allOps_patchOp (tbl : List (String × Nat)) (args : List Int) (ops : List POperand) :
    allOps args (ops.map (patchOp tbl)) = (allOps args ops).map (patchOp tbl) := by
  simp only [allOps, List.map_append, List.map_map]
  rfl

theorem assignBranchLabels_ok {P1 P2 : List PCmd} (h : assignBranchLabels P1 = .ok P2) :
    P2 = P1.filterMap (patchCmd (labelTable P1 0)) := by
  simp only [assignBranchLabels] at h
  split at h
  · cases h
  · simp only [Except.ok.injEq] at h; exact h.symm

/-- one source step of a program with labels = at most one step of the label-free program -/
theorem sim2_step {M : Type} {mc : Machine M} {P1 P2 : List PCmd} (hlt : LabelTargets mc P1)
    (h2 : assignBranchLabels P1 = .ok P2) {s s' : State M} {i i' : Nat}
    (hstep : step mc P1 s i = .next s' i') :
    Steps mc P2 (s, tpos2 P1 i) (s', tpos2 P1 i') := by
  have hP2 := assignBranchLabels_ok h2
  rcases step_next_inv hstep with ⟨l, hg, rfl, rfl⟩ | ⟨mn, args, ops, hg, ⟨rs, vals, out, m, jump, hr, he, hx, rfl, hj⟩⟩
  · rw [tpos2_succ hg]; exact .refl _
  · have hg2 : P2[tpos2 P1 i]? = some (.instr mn args (ops.map (patchOp (labelTable P1 0)))) := by
      rw [hP2]; exact filterMap_patch_get hg
    have he2 : evalOps s.regs rs (allOps args (ops.map (patchOp (labelTable P1 0)))) = some vals := by
      rw [allOps_patchOp]; exact evalOps_patchOp he
    have hst := step_instr (mc := mc) (s := s) hg2 hr he2
    rw [hx] at hst
    simp only [allOps_patchOp, dstOf_patchOp] at hst
    apply Steps.single
    rcases hj with ⟨rfl, hjt⟩ | ⟨rfl, rfl⟩
    · simp only [if_true, jumpTarget, tgtOf_patchOp] at hst
      simp only [jumpTarget] at hjt
      cases htg : tgtOf rs (allOps args ops) with
      | none => simp [htg] at hjt
      | some o =>
        cases o with
        | lit v => exact absurd htg (hlt mn args ops rs v (List.mem_of_getElem? hg) hr)
        | lab l =>
          simp only [htg, Option.map_eq_some_iff] at hjt
          obtain ⟨k, hk, rfl⟩ := hjt
          have hlk : lookupLabel (labelTable P1 0) l = some (tpos2 P1 k) := by
            rw [lookup_labelTable, hk]; simp
          simp only [htg, Option.map_some, patchOp, hlk] at hst
          rw [hst, tpos2_succ (labelIdx_spec hk)]
          simp [len2]
        | reg r => simp [htg] at hjt
        | tmpl r => simp [htg] at hjt
        | addr r => simp [htg] at hjt
        | entry a r => simp [htg] at hjt
        | slice a r r' => simp [htg] at hjt
    · simp only [Bool.false_eq_true, if_false] at hst
      rw [hst, tpos2_succ hg]
      simp [len2]

theorem sim2_fault {M : Type} {mc : Machine M} {P1 P2 : List PCmd}
    (h2 : assignBranchLabels P1 = .ok P2) {s : State M} {i k : Nat}
    (hf : step mc P1 s i = .fault k) : step mc P2 s (tpos2 P1 i) = .fault k := by
  have hP2 := assignBranchLabels_ok h2
  obtain ⟨mn, args, ops, rs, vals, hg, hr, he, hx⟩ := step_fault_inv hf
  have hg2 : P2[tpos2 P1 i]? = some (.instr mn args (ops.map (patchOp (labelTable P1 0)))) := by
    rw [hP2]; exact filterMap_patch_get hg
  have he2 : evalOps s.regs rs (allOps args (ops.map (patchOp (labelTable P1 0)))) = some vals := by
    rw [allOps_patchOp]; exact evalOps_patchOp he
  rw [step_instr (mc := mc) (s := s) hg2 hr he2, hx]

theorem sim2_halt {M : Type} {mc : Machine M} {P1 P2 : List PCmd}
    (h2 : assignBranchLabels P1 = .ok P2) {s : State M} {i : Nat}
    (hh : step mc P1 s i = .halt) : step mc P2 s (tpos2 P1 i) = .halt := by
  have hP2 := assignBranchLabels_ok h2
  have hi : P1.length ≤ i := step_halt_inv hh
  have : P2[tpos2 P1 i]? = none := by
    apply List.getElem?_eq_none_iff.2
    rw [hP2, filterMap_patch_length, tpos2_ge_length hi]
    exact Nat.le_refl _
  simp only [step, this]

/-! ### faults and halting through `_replace_constants` -/

theorem sim1_fault {M : Type} {mc : Machine M} (hs : SetOk mc) {c : RcCfg} (hcov : ExcCovers mc c.exc)
    {P P1 : List PCmd} (hna : NoArgs P) (hcur : ∀ r, NamedIn P r → r ∈ c.cur)
    (h1 : rcAll c P = .ok P1) {s t : State M} {i k : Nat}
    (hf : step mc P s i = .fault k) (hag : Agree c.nreg c.cur s t) :
    ∃ t' j, Steps mc P1 (t, tpos1 c.exc P i) (t', j) ∧ step mc P1 t' j = .fault k ∧
      tpos1 c.exc P i ≤ j ∧ j < tpos1 c.exc P (i + 1) ∧ Agree c.nreg c.cur s t' := by
  obtain ⟨mn, args, ops, rs, vals, hg, hr, he, hx⟩ := step_fault_inv hf
  have hargs : args = [] := hna mn args ops (List.mem_of_getElem? hg)
  subst hargs
  simp only [allOps, List.map_nil, List.nil_append] at he
  obtain ⟨pre, code, post, rfl, hc, hl⟩ := rcAll_decomp h1 hg
  obtain ⟨sets, ops', tmp', hro, rfl⟩ := rcCmd_instr_spec hc
  obtain ⟨hinv, hpat, hlen⟩ := rcOps_spec hro
  have hnd : (sets.map Prod.fst).Nodup := by
    have := hinv.nodup List.nodup_nil
    rw [hinv.tmp_eq] at this; simpa using this
  have hreg : ∀ o ∈ ops, ∀ r ∈ opRegs o, s.regs r = t.regs r ∧ r ∉ sets.map Prod.fst := by
    intro o ho r hro'
    have hin : r ∈ c.cur := hcur r ⟨mn, [], ops, o, List.mem_of_getElem? hg, ho, hro'⟩
    have hns : ¬ IsScratch c.nreg c.cur r := fun ⟨_, _, _, h⟩ => h hin
    refine ⟨hag.2 r hns, fun hm => ?_⟩
    obtain ⟨rv, hrv, rfl⟩ := List.mem_map.1 hm
    exact hns (hinv.scratch rv hrv)
  have hrun := steps_sets hs (pre ++ (sets.map setCmd ++ [PCmd.instr mn [] ops']) ++ post) sets pre
    ([PCmd.instr mn [] ops'] ++ post) t (by simp)
  let tk : State M := ⟨applySets sets t.regs, t.mem⟩
  have hagk : Agree c.nreg c.cur s tk := agree_applySets hag hinv.scratch
  have hgk : (pre ++ (sets.map setCmd ++ [PCmd.instr mn [] ops']) ++ post)[pre.length + sets.length]?
      = some (PCmd.instr mn [] ops') := by
    simp
  have hek : evalOps tk.regs rs (allOps [] ops') = some vals := by
    simp only [allOps, List.map_nil, List.nil_append]
    exact evalOps_patched hpat hnd hreg (hcov mn rs hr) he
  have hstepk := step_instr (mc := mc) (s := tk) hgk hr hek
  have hmem : tk.mem = s.mem := hag.1.symm
  rw [hmem, hx] at hstepk
  refine ⟨tk, pre.length + sets.length, ?_, hstepk, ?_, ?_, hagk⟩
  · rw [← hl]; exact hrun
  · rw [← hl]; omega
  · rw [tpos1_succ hg, ← hl]; simp only [len1, hlen]; omega

theorem sim1_halt {M : Type} {mc : Machine M} {c : RcCfg} {P P1 : List PCmd}
    (h1 : rcAll c P = .ok P1) {s t : State M} {i : Nat}
    (hh : step mc P s i = .halt) : step mc P1 t (tpos1 c.exc P i) = .halt := by
  have hi := step_halt_inv hh
  apply step_halt_of_ge
  rw [rcAll_length h1, tpos1_ge_length hi]
  exact Nat.le_refl _

/-! ### `LabelTargets` and `NoArgs` through the passes -/

theorem labelTargets_rcAll {M : Type} {mc : Machine M} (hs : SetOk mc) {c : RcCfg} {P P1 : List PCmd}
    (hna : NoArgs P) (hlt : LabelTargets mc P) (h1 : rcAll c P = .ok P1) : LabelTargets mc P1 := by
  induction P generalizing P1 with
  | nil =>
    simp only [rcAll, Except.ok.injEq] at h1; subst h1
    intro mn args ops rs v hm; cases hm
  | cons y ys ih =>
    obtain ⟨cy, R, hc, h2, rfl⟩ := rcAll_cons h1
    have hR := ih (fun mn a o hm => hna mn a o (List.mem_cons_of_mem _ hm))
      (fun mn a o rs v hm => hlt mn a o rs v (List.mem_cons_of_mem _ hm)) h2
    intro mn args ops rs v hm hr
    rcases List.mem_append.1 hm with hm | hm
    · cases y with
      | label l =>
        simp only [rcCmd, Except.ok.injEq] at hc; subst hc
        simp at hm
      | instr mn' a' o' =>
        obtain ⟨sets, ops', tmp', hro, rfl⟩ := rcCmd_instr_spec hc
        have ha' : a' = [] := hna mn' a' o' (by simp)
        subst ha'
        simp only [List.mem_append, List.mem_map, List.mem_singleton] at hm
        rcases hm with ⟨rv, _, hrv⟩ | hm
        · simp only [setCmd, PCmd.instr.injEq] at hrv
          obtain ⟨rfl, rfl, rfl⟩ := hrv
          rw [hs.roles_set] at hr
          cases hr
          simp [allOps, tgtOf]
        · cases hm
          intro htg
          simp only [allOps, List.map_nil, List.nil_append] at htg
          have := tgtOf_patched_lit (rcOps_spec hro).2.1 htg
          exact hlt mn [] o' rs v (by simp) hr (by simpa [allOps] using this)
    · exact hR mn args ops rs v hm hr

theorem noArgs_makeArgs (P : List PCmd) : NoArgs (makeArgsOperands P) := by
  intro mn args ops hm
  simp only [makeArgsOperands, List.mem_map] at hm
  obtain ⟨c, _, hc⟩ := hm
  cases c with
  | label l => simp [makeArgsCmd] at hc
  | instr mn' a' o' => simp only [makeArgsCmd, PCmd.instr.injEq] at hc; exact hc.2.1.symm

theorem labelTargets_makeArgs {M : Type} {mc : Machine M} {P : List PCmd} (h : LabelTargets mc P) :
    LabelTargets mc (makeArgsOperands P) := by
  intro mn args ops rs v hm hr
  simp only [makeArgsOperands, List.mem_map] at hm
  obtain ⟨c, hcm, hc⟩ := hm
  cases c with
  | label l => simp [makeArgsCmd] at hc
  | instr mn' a' o' =>
    simp only [makeArgsCmd, PCmd.instr.injEq] at hc
    obtain ⟨rfl, rfl, rfl⟩ := hc
    have := h mn' a' o' rs v hcm hr
    simpa [allOps] using this

theorem labelIdx_makeArgs (P : List PCmd) (l : String) : labelIdx (makeArgsOperands P) l = labelIdx P l := by
  induction P with
  | nil => rfl
  | cons y ys ih =>
    cases y with
    | label l' => simp only [makeArgsOperands, List.map_cons, makeArgsCmd, labelIdx] at ih ⊢; rw [ih]
    | instr mn a o => simp only [makeArgsOperands, List.map_cons, makeArgsCmd, labelIdx] at ih ⊢; rw [ih]

/-- `instr(args) ops` means `instr args ops`: merging the brackets does not change a step -/
theorem step_makeArgs {M : Type} (mc : Machine M) (P : List PCmd) (s : State M) (pc : Nat) :
    step mc (makeArgsOperands P) s pc = step mc P s pc := by
  unfold step
  simp only [makeArgsOperands, List.getElem?_map]
  cases hg : P[pc]? with
  | none => rfl
  | some c =>
    cases c with
    | label l => rfl
    | instr mn a o =>
      have e : allOps [] (allOps a o) = allOps a o := by simp [allOps]
      have j : ∀ rs, jumpTarget (List.map makeArgsCmd P) rs (allOps a o) = jumpTarget P rs (allOps a o) := by
        intro rs
        have := labelIdx_makeArgs P
        simp only [makeArgsOperands] at this
        simp only [jumpTarget, this]
      simp only [Option.map_some, makeArgsCmd, e, j]

end NQ.Asm
