/-
C14 `temps_disjoint` lifted from the allocation level to the EMITTED COMMANDS: no command emitted
for an operation writes an R register that is active when the operation starts (i.e. a live loop /
condition register of an enclosing operation, or a `new_register()` register) — except a
`RegFuture.add`, which writes the register of its handle on purpose.
-/
import NetqasmVerif.Lemmas.SdkInv
set_option linter.unusedSimpArgs false
set_option linter.unusedVariables false
namespace NQ.Sdk

/-- the register a command writes -/
def writeOf : PCmd → Option Reg
  | .instr .set (.reg r :: _) => some r
  | .instr .load (.reg r :: _) => some r
  | .instr .add (.reg r :: _) => some r
  | .instr .addm (.reg r :: _) => some r
  | .instr .meas [_, .reg r] => some r
  | _ => none

/-- `x` is an R register that is inactive in `a` -/
def TmpIn (a : List Bool) (x : Reg) : Prop := x.bank = 0 ∧ a.getD x.idx true = false

theorem getD_of_set_true {a : List Bool} {t i : Nat} (h : (a.set t true).getD i true = false) :
    a.getD i true = false := by
  by_cases e : t = i
  · subst e
    by_cases hl : t < a.length
    · rw [getD_set_self hl] at h; cases h
    · have : (a.set t true).length ≤ t := by simpa using Nat.le_of_not_lt hl
      simp [List.getD, List.getElem?_eq_none this] at h
  · rwa [getD_set_ne e] at h

theorem TmpIn.of_set {a : List Bool} {t : Nat} {x : Reg} (h : TmpIn (a.set t true) x) : TmpIn a x :=
  ⟨h.1, getD_of_set_true h.2⟩

theorem TmpIn.not_active {a : List Bool} {x : Reg} (h : TmpIn a x) : ¬ a.getD x.idx false = true := by
  intro hc
  have hl := getD_false_true_lt hc
  have h2 := h.2
  simp [List.getD, List.getElem?_eq_getElem hl] at hc h2
  rw [hc] at h2; cases h2

/-- all writes of `cs` go to `dst` (when given) or to temporaries inactive in `a` -/
def WritesTmp (a : List Bool) (dst : Option Reg) (cs : List PCmd) : Prop :=
  ∀ c ∈ cs, ∀ x, writeOf c = some x → some x = dst ∨ TmpIn a x

theorem WritesTmp.nil (a : List Bool) (d : Option Reg) : WritesTmp a d [] := by intro c hc; cases hc

theorem WritesTmp.append {a : List Bool} {d : Option Reg} {x y : List PCmd}
    (hx : WritesTmp a d x) (hy : WritesTmp a d y) : WritesTmp a d (x ++ y) := by
  intro c hc
  rcases List.mem_append.mp hc with h | h
  · exact hx c h
  · exact hy c h

theorem WritesTmp.weaken {a : List Bool} {d d' : Option Reg} {x : List PCmd}
    (hx : WritesTmp a d x) (hd : ∀ r, d = some r → d' = some r ∨ TmpIn a r) : WritesTmp a d' x := by
  intro c hc r hr
  rcases hx c hc r hr with h | h
  · rcases hd r h.symm with h2 | h2
    · exact Or.inl h2.symm
    · exact Or.inr h2
  · exact Or.inr h

theorem WritesTmp.of_set {a : List Bool} {t : Nat} {d : Option Reg} {x : List PCmd}
    (hx : WritesTmp (a.set t true) d x) : WritesTmp a d x := by
  intro c hc r hr
  rcases hx c hc r hr with h | h
  · exact Or.inl h
  · exact Or.inr h.of_set

theorem accessCmds_writes : ∀ (f : Fut) (m : Mem) (st : Bool) (r : Reg) (m' : Mem) (cs : List PCmd),
    accessCmds m st r f = .ok (m', cs) →
    WritesTmp m.active (if st then none else some r) cs
  | .lit a i, m, st, r, m', cs, h => by
    simp [accessCmds] at h
    rw [← h.2]
    intro c hc x hx
    simp at hc; subst hc
    cases st <;> simp [accessMn, writeOf] at hx ⊢
    exact Or.inl hx.symm
  | .reg a hh, m, st, r, m', cs, h => by
    unfold accessCmds at h
    split at h
    · cases h
    · cases h
      intro c hc x hx
      simp at hc; subst hc
      cases st <;> simp [accessMn, writeOf] at hx ⊢
      exact Or.inl hx.symm
  | .fut a f, m, st, r, m', cs, h => by
    unfold accessCmds at h
    split at h
    · cases h
    · rename_i t ht
      split at h
      · cases h
      · rename_i m1 h1
        split at h
        · cases h
        · rename_i m2 cs2 h2
          split at h
          · cases h
          · cases h
            have a1 := activate_spec h1
            have ih := accessCmds_writes f m1 false (R t) m2 cs2 h2
            rw [a1.2.1] at ih
            have ht' : TmpIn m.active (R t) := ⟨rfl, a1.1⟩
            refine WritesTmp.append ?_ ?_
            · refine (ih.of_set).weaken ?_
              intro r' hr'
              simp at hr'; subst hr'
              exact Or.inr ht'
            · intro c hc x hx
              simp at hc; subst hc
              cases st <;> simp [accessMn, writeOf] at hx ⊢
              exact Or.inl hx.symm

/-- registers of the handles a `RegFuture.add` inside `op` targets -/
def addTargets : Host → List Nat
  | .seq a b => addTargets a ++ addTargets b
  | .addR h _ _ => [h]
  | .ifc _ _ _ _ body => addTargets body
  | .loop _ _ _ _ body => addTargets body
  | .loopBody _ _ _ _ body => addTargets body
  | .foreach _ _ body => addTargets body
  | .loopUntil _ body _ _ cl => addTargets body ++ addTargets cl
  | .tryUntil _ body => addTargets body
  | _ => []

/-- the property: a write to an R register active in `a` is the target of an `add` on a handle -/
def WritesOK (a : List Bool) (H : List (Reg × Bool)) (tg : List Nat) (cs : List PCmd) : Prop :=
  ∀ c ∈ cs, ∀ x, writeOf c = some x → x.bank = 0 → a.getD x.idx false = true →
    ∃ h ∈ tg, ∃ b, H[h]? = some (x, b)

theorem WritesOK.of_tmp {a : List Bool} {H : List (Reg × Bool)} {tg : List Nat} {cs : List PCmd}
    (h : WritesTmp a none cs) : WritesOK a H tg cs := by
  intro c hc x hx _ hact
  rcases h c hc x hx with h1 | h1
  · cases h1
  · exact absurd hact h1.not_active

theorem WritesOK.of_tmp_dst {a : List Bool} {H : List (Reg × Bool)} {tg : List Nat} {cs : List PCmd}
    {d : Reg} (h : WritesTmp a (some d) cs) (hd : d.bank ≠ 0 ∨ TmpIn a d) : WritesOK a H tg cs := by
  intro c hc x hx hb hact
  rcases h c hc x hx with h1 | h1
  · simp at h1; subst h1
    rcases hd with h2 | h2
    · exact absurd hb h2
    · exact absurd hact h2.not_active
  · exact absurd hact h1.not_active

theorem WritesOK.append {a : List Bool} {H : List (Reg × Bool)} {tg : List Nat} {x y : List PCmd}
    (hx : WritesOK a H tg x) (hy : WritesOK a H tg y) : WritesOK a H tg (x ++ y) := by
  intro c hc
  rcases List.mem_append.mp hc with h | h
  · exact hx c h
  · exact hy c h

theorem WritesOK.nowrite {a : List Bool} {H : List (Reg × Bool)} {tg : List Nat} {cs : List PCmd}
    (h : ∀ c ∈ cs, writeOf c = none) : WritesOK a H tg cs := by
  intro c hc x hx
  rw [h c hc] at hx; cases hx

theorem WritesOK.mono {a a' : List Bool} {H H' : List (Reg × Bool)} {tg tg' : List Nat} {cs : List PCmd}
    (h : WritesOK a' H tg cs) (ha : ∀ i, a.getD i false = true → a'.getD i false = true)
    (hH : ∀ (k : Nat) (v : Reg × Bool), H[k]? = some v → H'[k]? = some v) (ht : ∀ k ∈ tg, k ∈ tg') : WritesOK a H' tg' cs := by
  intro c hc x hx hb hact
  obtain ⟨k, hk, b, hkb⟩ := h c hc x hx hb (ha _ hact)
  exact ⟨k, ht k hk, b, hH k _ hkb⟩

theorem prefix_get {α : Type} {l t : List α} {k : Nat} {v : α} (h : l[k]? = some v) :
    (l ++ t)[k]? = some v := by
  have hl : k < l.length := by
    by_cases hl : k < l.length
    · exact hl
    · simp [List.getElem?_eq_none (Nat.le_of_not_lt hl)] at h
  rw [List.getElem?_append_left hl]; exact h

theorem active_mono_set {a : List Bool} {t i : Nat} (h : a.getD i false = true) :
    (a.set t true).getD i false = true := by
  by_cases e : t = i
  · subst e; exact getD_set_self (getD_false_true_lt h) _ _
  · rw [getD_set_ne e]; exact h

theorem WritesTmp.of_eq_set {a b : List Bool} {t : Nat} {d : Option Reg} {x : List PCmd}
    (hb : b = a.set t true) (hx : WritesTmp b d x) : WritesTmp a d x := by
  subst hb; exact hx.of_set

theorem WritesTmp.single {a : List Bool} {d : Option Reg} {c : PCmd}
    (h : ∀ x, writeOf c = some x → some x = d ∨ TmpIn a x) : WritesTmp a d [c] := by
  intro c' hc; simp at hc; subst hc; exact h

theorem WritesOK.of_bank {a : List Bool} {H : List (Reg × Bool)} {tg : List Nat} {cs : List PCmd}
    (h : ∀ c ∈ cs, ∀ x, writeOf c = some x → x.bank ≠ 0) : WritesOK a H tg cs := by
  intro c hc x hx hb
  exact absurd hb (h c hc x hx)

theorem condOperand_writes {m m1 : Mem} {v : Val} {cs : List PCmd} {o : POp} {t : Option Nat}
    (h : condOperand m v = .ok (m1, cs, o, t)) : WritesTmp m.active none cs := by
  cases v with
  | lit x => simp [condOperand] at h; rw [h.2.1]; exact WritesTmp.nil _ _
  | reg hh =>
    simp only [condOperand] at h
    split at h
    · cases h
    · split at h
      · cases h; exact WritesTmp.nil _ _
      · cases h
  | fut f =>
    simp only [condOperand] at h
    split at h
    · cases h
    · rename_i m' t' h1
      split at h
      · cases h
      · cases h
        have s1 := takeReg_spec h1
        refine WritesTmp.single ?_
        intro x hx
        simp [writeOf] at hx; subst hx
        exact Or.inr ⟨rfl, s1.1⟩

theorem addOther_writes {m m1 : Mem} {v : Val} {cs : List PCmd} {o : POp} {t : Option Nat}
    (h : addOther m v = .ok (m1, cs, o, t)) : WritesTmp m.active none cs := by
  cases v with
  | lit x => simp [addOther] at h; rw [h.2.1]; exact WritesTmp.nil _ _
  | reg hh =>
    simp only [addOther] at h
    split at h
    · cases h
    · split at h
      · cases h
      · cases h; exact WritesTmp.nil _ _
  | fut f =>
    simp only [addOther] at h
    split at h
    · cases h
    · rename_i m' t' h1
      split at h
      · cases h
      · rename_i m2 ld h2
        cases h
        have s1 := takeReg_spec h1
        have w := accessCmds_writes _ _ _ _ _ _ h2
        simp only [Bool.false_eq_true, if_false] at w
        refine (w.of_eq_set s1.2.1).weaken ?_
        intro r hr; simp at hr; subst hr
        exact Or.inr ⟨rfl, s1.1⟩

theorem branchCmds_writes {m m' : Mem} {c : Cond} {a b : Val} {cs : List PCmd} {l : Lbl}
    (h : branchCmds m c a b = .ok (m', cs, l)) : WritesTmp m.active none cs := by
  unfold branchCmds at h
  simp only at h
  split at h
  · split at h
    · cases h
    · rename_i m1 cs1 oa ta h1
      split at h
      · cases h
      · cases h
        have w1 : WritesTmp m.active none cs1 := (condOperand_writes h1 : WritesTmp (newLabel m 0).1.active none cs1)
        refine WritesTmp.append w1 (WritesTmp.single ?_)
        intro x hx
        cases c <;> simp [negBranch, writeOf] at hx
  · split at h
    · cases h
    · rename_i m1 ca oa ta h1
      split at h
      · cases h
      · rename_i m2 cb ob tb h2
        split at h
        · cases h
        · split at h
          · cases h
          · cases h
            have w1 : WritesTmp m.active none ca := (condOperand_writes h1 : WritesTmp (newLabel m 0).1.active none ca)
            have w2 := condOperand_writes h2
            have t1 : Took m m1 ta := (condOperand_took h1 : Took (newLabel m 0).1 m1 ta)
            have w2' : WritesTmp m.active none cb := by
              cases ta with
              | none => have e : m1.active = m.active := t1; rw [e] at w2; exact w2
              | some t => exact w2.of_eq_set t1.2
            refine WritesTmp.append (WritesTmp.append w1 w2') (WritesTmp.single ?_)
            intro x hx
            cases c <;> simp [negBranch, writeOf] at hx

theorem breakCmds_writes {m m' : Mem} {ef : Val} {ev : Int} {lx : Lbl} {cs : List PCmd}
    (h : breakCmds m ef ev lx = .ok (m', cs)) : WritesTmp m.active none cs := by
  unfold breakCmds at h
  split at h
  · cases h
  · rename_i m1 cs1 o t h1
    split at h
    · cases h
    · cases h
      refine WritesTmp.append (condOperand_writes h1) (WritesTmp.single ?_)
      intro x hx; simp [writeOf] at hx

theorem addInstr_write (r : Reg) (o : POp) (md : Option Int) : writeOf (addInstr r o md) = some r := by
  cases md <;> rfl

theorem emitAddF_writes {m m' : Mem} {f : Fut} {o : Val} {md : Option Int} {cs : List PCmd}
    (h : emitAddF m f o md = .ok (m', cs)) : WritesTmp m.active none cs := by
  unfold emitAddF at h
  split at h
  · cases h
  · rename_i m1 t h1
    split at h
    · cases h
    · rename_i m2 ld h2
      split at h
      · cases h
      · rename_i m3 st h3
        split at h
        · cases h
        · rename_i m4 ld2 oo tmp2 h4
          split at h
          · cases h
          · split at h
            · cases h
            · cases h
              have s1 := takeReg_spec h1
              have ht : TmpIn m.active (R t) := ⟨rfl, s1.1⟩
              have a2 := accessCmds_active _ _ _ _ _ _ h2
              have a3 := accessCmds_active _ _ _ _ _ _ h3
              have w2 := accessCmds_writes _ _ _ _ _ _ h2
              have w3 := accessCmds_writes _ _ _ _ _ _ h3
              have w4 := addOther_writes h4
              simp only [Bool.false_eq_true, if_false, if_true] at w2 w3
              have e3 : m3.active = m.active.set t true := by rw [a3, a2, s1.2.1]
              have e2 : m2.active = m.active.set t true := by rw [a2, s1.2.1]
              have fix : ∀ r, some (R t) = some r → (none : Option Reg) = some r ∨ TmpIn m.active r := by
                intro r hr; simp at hr; subst hr; exact Or.inr ht
              refine WritesTmp.append (WritesTmp.append (WritesTmp.append ?_ ?_) (WritesTmp.single ?_)) ?_
              · exact (w2.of_eq_set s1.2.1).weaken fix
              · exact w4.of_eq_set e3
              · intro x hx; rw [addInstr_write] at hx; simp at hx; subst hx; exact Or.inr ht
              · exact w3.of_eq_set e2

theorem emitQop_writes {m m' : Mem} {g : List Nat} {tgt : MTgt} {cs : List PCmd}
    {H : List (Reg × Bool)} {tg : List Nat}
    (h : emitQop m g tgt = .ok (m', cs)) : WritesOK m.active H tg cs := by
  have hg : ∀ gs, ∀ c ∈ gateCmds gs, ∀ x, writeOf c = some x → x.bank ≠ 0 := by
    intro gs
    induction gs with
    | nil => intro c hc; cases hc
    | cons g gs ih =>
      intro c hc x hx
      simp [gateCmds] at hc
      rcases hc with rfl | rfl | hc
      · simp [writeOf] at hx; subst hx; simp [Q0]
      · simp [writeOf] at hx
      · exact ih c hc x hx
  have hhead : ∀ k, ∀ c ∈ ([PCmd.instr .set [.reg Q0, .lit 0], .instr .qalloc [.reg Q0], .instr .init [.reg Q0]]
      ++ gateCmds g ++ [.instr .set [.reg Q0, .lit 0], .instr .meas [.reg Q0, .reg (M k)], .instr .qfree [.reg Q0]]),
      ∀ x, writeOf c = some x → x.bank ≠ 0 := by
    intro k c hc x hx
    simp only [List.mem_append] at hc
    rcases hc with (hc | hc) | hc
    · simp at hc
      rcases hc with rfl | rfl | rfl <;> simp [writeOf] at hx
      subst hx; simp [Q0]
    · exact hg g c hc x hx
    · simp at hc
      rcases hc with rfl | rfl | rfl <;> simp [writeOf] at hx
      · subst hx; simp [Q0]
      · subst hx; simp [M]
  unfold emitQop at h
  cases tgt with
  | newFut =>
    simp only at h
    split at h
    · cases h
    · rename_i m1 k h1
      split at h
      · cases h
      · rename_i m2 st h2
        cases h
        have w := accessCmds_writes _ _ _ _ _ _ h2
        simp only [if_true] at w
        rw [firstUnusedMeas_active h1] at w
        exact WritesOK.append (WritesOK.of_bank (hhead k)) (WritesOK.of_tmp w)
  | fut f =>
    simp only at h
    split at h
    · cases h
    · rename_i m1 k h1
      split at h
      · cases h
      · rename_i m2 st h2
        cases h
        have w := accessCmds_writes _ _ _ _ _ _ h2
        simp only [if_true] at w
        rw [firstUnusedMeas_active h1] at w
        exact WritesOK.append (WritesOK.of_bank (hhead k)) (WritesOK.of_tmp w)
  | newReg =>
    simp only at h
    split at h
    · cases h
    · rename_i m1 k h1
      cases h
      exact WritesOK.of_bank (hhead k)

theorem buildLoop_writes {a : List Bool} {H : List (Reg × Bool)} {tg : List Nat}
    (m : Mem) (s e d : Int) (i : Nat) (body : List PCmd)
    (hi : TmpIn a (R i)) (hb : WritesOK a H tg body) :
    WritesOK a H tg (buildLoop m s e d (R i) body).2 := by
  unfold buildLoop
  split
  · intro c hc; cases hc
  · have one : ∀ c : PCmd, (∀ x, writeOf c = some x → x = R i) → WritesOK a H tg [c] := by
      intro c hcw c' hc' x hx hb' hact
      simp at hc'; subst hc'
      have := hcw x hx; subst this
      exact absurd hact hi.not_active
    have front : WritesOK a H tg
        [PCmd.instr .set [.reg (R i), .lit s], .label (newLabel m 1).2,
         .instr .beq [.reg (R i), .lit e, .lab (newLabel (newLabel m 1).1 2).2]] := by
      intro c hc x hx hb' hact
      simp at hc
      rcases hc with rfl | rfl | rfl <;> simp [writeOf] at hx
      subst hx; exact absurd hact hi.not_active
    have back : WritesOK a H tg
        [PCmd.instr .add [.reg (R i), .reg (R i), .lit d], .instr .jmp [.lab (newLabel m 1).2],
         .label (newLabel (newLabel m 1).1 2).2] := by
      intro c hc x hx hb' hact
      simp at hc
      rcases hc with rfl | rfl | rfl <;> simp [writeOf] at hx
      subst hx; exact absurd hact hi.not_active
    exact WritesOK.append (WritesOK.append front hb) back

/-- shared shape of `loop`, `loopBody`, `foreach` -/
theorem loopShape_writes {m m1 m2 : Mem} {i : Nat} {s e d : Int} {cs : List PCmd} {b : Bool}
    {H : List (Reg × Bool)} {tg : List Nat}
    {rg : Option Nat} (h1 : takeAt m rg = .ok (m1, i))
    (ih : WritesOK (bindHandle m1 (R i) b).active H tg cs) :
    WritesOK m.active H tg (buildLoop m2 s e d (R i) cs).2 := by
  have s1 := takeAt_spec h1
  refine buildLoop_writes m2 s e d i cs ⟨rfl, s1.1⟩ ?_
  refine ih.mono ?_ (fun _ _ h => h) (fun _ h => h)
  intro j hj
  show m1.active.getD j false = true
  rw [s1.2.1]; exact active_mono_set hj

/-- **temps_disjoint on the emitted commands.** -/
theorem emit_writes : ∀ (op : Host) (m m' : Mem) (cs : List PCmd), Completed op →
    emit m op = .ok (m', cs) → WritesOK m.active m'.handles (addTargets op) cs := by
  intro op
  induction op with
  | skip => intro m m' cs _ h; simp [emit] at h; rw [h.2]; intro c hc; cases hc
  | seq a b iha ihb =>
    intro m m' cs hc h
    simp only [emit] at h
    split at h
    · cases h
    · rename_i m1 ca h1
      split at h
      · cases h
      · rename_i m2 cb h2
        cases h
        have wa := iha _ _ _ hc.1 h1
        have wb := ihb _ _ _ hc.2 h2
        rw [emit_active a _ _ _ hc.1 h1] at wb
        obtain ⟨t, ht, _⟩ := (emit_stat _ _ _ _ h2).handles
        refine WritesOK.append (wa.mono (fun _ h => h) ?_ ?_) (wb.mono (fun _ h => h) (fun _ _ h => h) ?_)
        · intro k v hk; rw [ht]; exact prefix_get hk
        · intro k hk; simp [addTargets, hk]
        · intro k hk; simp [addTargets, hk]
  | newArray len init =>
    intro m m' cs _ h
    simp only [emit] at h
    split at h <;> (split at h; cases h; cases h; intro c hc; cases hc)
  | newReg v => intro m m' cs hc; exact hc.elim
  | qop g t => intro m m' cs _ h; simp only [emit] at h; exact emitQop_writes h
  | addF f o md =>
    intro m m' cs _ h; simp only [emit] at h; exact WritesOK.of_tmp (emitAddF_writes h)
  | addR hh o md =>
    intro m m' cs _ h
    simp only [emit] at h
    have sm := emitAddR_same h
    unfold emitAddR at h
    split at h
    · cases h
    · rename_i r isRF hh1
      split at h
      · cases h
      · split at h
        · cases h
        · rename_i m1 ld2 oo tmp2 h1
          split at h
          · cases h
          · cases h
            refine WritesOK.append (WritesOK.of_tmp (addOther_writes h1)) ?_
            intro c hc x hx _ _
            simp at hc; subst hc
            rw [addInstr_write] at hx; simp at hx; subst hx
            refine ⟨hh, by simp [addTargets], isRF, ?_⟩
            rw [sm.handles]
            unfold handle at hh1
            split at hh1
            · rename_i y hy; cases hh1; exact hy
            · cases hh1
  | ifc cb c a b body ih =>
    intro m m' cs hc h
    simp only [emit] at h
    split at h
    · cases h
    · rename_i m1 bc h1
      have wb := ih _ _ _ hc h1
      have a1 := emit_active body _ _ _ hc h1
      have sl := buildCondition_sameL h
      rw [sl.handles]
      unfold buildCondition at h
      split at h
      · cases h; intro c hc'; cases hc'
      · split at h
        · cases h
        · rename_i m2 st l h2
          cases h
          have ws := branchCmds_writes h2
          rw [a1] at ws
          refine WritesOK.append (WritesOK.append (WritesOK.of_tmp ws) wb) ?_
          intro c hc' x hx; simp at hc'; subst hc'; simp [writeOf] at hx
  | loop rg s e d body ih =>
    intro m m' cs hc h
    simp only [emit] at h
    split at h
    · cases h
    · rename_i m1 i h1
      split at h
      · cases h
      · rename_i m2 bc h2
        split at h
        · cases h
        · rename_i m4 h4
          cases h
          rw [(release_same h4).handles, (buildLoop_sameL _ _ _ _ _ _).handles]
          exact loopShape_writes h1 (ih _ _ _ hc h2)
  | loopBody rg s e d body ih =>
    intro m m' cs hc h
    simp only [emit] at h
    split at h
    · cases h
    · rename_i m1 i h1
      split at h
      · cases h
      · rename_i m2 bc h2
        split at h
        · cases h
        · rename_i m4 h4
          cases h
          rw [(release_same h4).handles, (buildLoop_sameL _ _ _ _ _ _).handles]
          exact loopShape_writes h1 (ih _ _ _ hc h2)
  | foreach arr wi body ih =>
    intro m m' cs hc h
    simp only [emit] at h
    split at h
    · cases h
    · split at h
      · cases h
      · rename_i m1 i h1
        split at h
        · cases h
        · rename_i m2 bc h2
          split at h
          · cases h
          · rename_i m4 h4
            cases h
            rw [(release_same h4).handles, (buildLoop_sameL _ _ _ _ _ _).handles]
            exact loopShape_writes (rg := none) h1 (ih _ _ _ hc h2)
  | loopUntil n body ef ev cl ihb ihc =>
    intro m m' cs hc h
    simp only [emit] at h
    split at h
    · cases h
    · rename_i m1 i h1
      have s1 := takeReg_spec h1
      have hi : TmpIn m.active (R i) := ⟨rfl, s1.1⟩
      have up : ∀ j, m.active.getD j false = true → (bindHandle m1 (R i) true).active.getD j false = true := by
        intro j hj
        show m1.active.getD j false = true
        rw [s1.2.1]; exact active_mono_set hj
      split at h
      · cases h
      · rename_i m2 bc h2
        have wb := ihb _ _ _ hc.1 h2
        have a2 := emit_active body _ _ _ hc.1 h2
        split at h
        · split at h
          · cases h
          · cases h; intro c hc'; cases hc'
        · split at h
          · cases h
          · rename_i m5 brk h5
            split at h
            · cases h
            · rename_i m6 clc h6
              split at h
              · cases h
              · rename_i m7 h7
                cases h
                have wc := ihc _ _ _ hc.2 h6
                have wk := breakCmds_writes h5
                have a5 : m5.active = (bindHandle m1 (R i) true).active := by
                  rw [breakCmds_active h5]; exact a2
                have e4 : (newLabel (newLabel m2 3).1 4).1.active = (bindHandle m1 (R i) true).active := a2
                rw [e4] at wk
                rw [a5] at wc
                obtain ⟨t6, ht6, _⟩ := (emit_stat _ _ _ _ h6).handles
                have hm5 : m5.handles = m2.handles := (breakCmds_same h5).handles
                rw [(release_same h7).handles]
                have only : ∀ cs' : List PCmd, (∀ c ∈ cs', ∀ x, writeOf c = some x → x = R i) →
                    WritesOK m.active m6.handles (addTargets (Host.loopUntil n body ef ev cl)) cs' := by
                  intro cs' hcs c hc' x hx _ hact
                  have := hcs c hc' x hx; subst this
                  exact absurd hact hi.not_active
                refine WritesOK.append (WritesOK.append (WritesOK.append (WritesOK.append ?_ ?_) ?_) ?_) ?_
                · refine only _ ?_
                  intro c hc' x hx
                  simp [loopUntilEntry] at hc'
                  rcases hc' with rfl | rfl | rfl <;> simp [writeOf] at hx
                  exact hx.symm
                · refine wb.mono up ?_ ?_
                  · intro k v hk; rw [ht6, hm5]; exact prefix_get hk
                  · intro k hk; simp [addTargets, hk]
                · exact (WritesOK.of_tmp wk).mono up (fun _ _ h => h) (fun _ h => h)
                · exact wc.mono up (fun _ _ h => h) (by intro k hk; simp [addTargets, hk])
                · refine only _ ?_
                  intro c hc' x hx
                  simp [loopUntilExit] at hc'
                  rcases hc' with rfl | rfl | rfl <;> simp [writeOf] at hx
                  exact hx.symm
  | tryUntil n body ih =>
    intro m m' cs hc h
    simp only [emit] at h
    exact ih _ _ _ hc h
  | epr evs =>
    intro m m' cs _ h
    simp only [emit] at h
    split at h
    · cases h
    · cases h; intro c hc; cases hc


end NQ.Sdk
