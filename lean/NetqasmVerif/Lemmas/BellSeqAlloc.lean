/-
Lemmas (C10): what the allocation of the per-pair loop (`allocSeq`, `seqTail`) guarantees about its
registers and labels — the side conditions of `seq_loop_runs`, for every set of active registers and
every set of labels already handed out.
-/
import NetqasmVerif.Lemmas.BellSeqLoop
namespace NQ.Bell

theorem allocSeq_facts {act : List Nat} {used : List String} {a : SeqAlloc} {u4 : List String}
    (h : allocSeq act used = some (a, u4)) :
    (a.s ≠ a.J ∧ a.e ≠ a.J ∧ a.L ≠ a.s ∧ a.L ≠ a.t ∧ a.L ≠ a.e ∧ a.L ≠ a.J) ∧
    [a.a1, a.a2, a.b1, a.b2].Nodup ∧ (∀ l ∈ [a.a1, a.a2, a.b1, a.b2], l ∈ u4) := by
  simp only [allocSeq, Option.bind_eq_some_iff] at h
  obtain ⟨L, hL, q, hq, b, hb, s, hs, t, ht, e, he, J, hJ, p1, h1, p2, h2, p3, h3, p4, h4, hae⟩ := h
  simp only [Option.some.injEq, Prod.mk.injEq] at hae
  obtain ⟨rfl, rfl⟩ := hae
  have ns := getInactive_not_mem hs
  have nt := getInactive_not_mem ht
  have ne := getInactive_not_mem he
  have nJ := getInactive_not_mem hJ
  simp only [List.mem_cons, not_or] at ns nt ne nJ
  obtain ⟨f1, e1⟩ := newLabel_fresh h1
  obtain ⟨f2, e2⟩ := newLabel_fresh h2
  obtain ⟨f3, e3⟩ := newLabel_fresh h3
  obtain ⟨f4, e4⟩ := newLabel_fresh h4
  rw [e3] at f4; rw [e2] at f3 f4; rw [e1] at f2 f3 f4
  simp only [List.mem_cons, not_or] at f2 f3 f4
  refine ⟨⟨Ne.symm nJ.2.2.1, Ne.symm nJ.1, Ne.symm ns.2.2.1, Ne.symm nt.2.2.2.1,
    Ne.symm ne.2.2.2.2.1, Ne.symm nJ.2.2.2.2.2.1⟩, ?_, ?_⟩
  · simp only [List.nodup_cons, List.mem_cons, List.not_mem_nil, or_false, not_or, List.nodup_nil, and_true,
      not_false_eq_true]
    exact ⟨⟨Ne.symm f2.1, Ne.symm f3.2.1, Ne.symm f4.2.2.1⟩, ⟨Ne.symm f3.1, Ne.symm f4.2.1⟩, Ne.symm f4.1⟩
  · intro l hl
    rw [e4, e3, e2, e1]
    simp only [List.mem_cons, List.not_mem_nil, or_false] at hl
    rcases hl with rfl | rfl | rfl | rfl <;> simp

/-- the move code and its fresh registers / label (or nothing, for the post-routine path) -/
theorem seqTail_shape {c : Config} {mv : Bool} {a : SeqAlloc} {u9 u10 : List String} {t : List Cmd}
    (h : seqTail c mv a u9 = some (t, u10)) :
    (mv = false ∧ t = [] ∧ u10 = u9) ∨
    (mv = true ∧ ∃ r0 r1 x4, t = moveTailCode a.L r0 r1 (c.n : Int) x4 ∧ u10 = x4 :: u9 ∧ x4 ∉ u9 ∧
      r0 ≠ a.L ∧ r1 ≠ a.L ∧ r0 ≠ r1) := by
  unfold seqTail at h
  cases mv with
  | false =>
    simp only [Bool.not_false, if_true, Option.some.injEq, Prod.mk.injEq] at h
    exact Or.inl ⟨rfl, h.1.symm, h.2.symm⟩
  | true =>
    simp only [Bool.not_true, Bool.false_eq_true, if_false] at h
    cases h1 : getInactive (a.b :: a.q :: a.L :: c.act) with
    | none => simp [h1] at h
    | some r0 =>
      cases h2 : getInactive (r0 :: a.b :: a.q :: a.L :: c.act) with
      | none => simp [h1, h2] at h
      | some r1 =>
        cases h3 : newLabel u9 "IF_EXIT" with
        | none => simp [h1, h2, h3] at h
        | some p =>
          simp only [h1, h2, h3, Option.some.injEq, Prod.mk.injEq] at h
          obtain ⟨ht, hu⟩ := h
          have n0 := getInactive_not_mem h1
          have n1 := getInactive_not_mem h2
          simp only [List.mem_cons, not_or] at n0 n1
          obtain ⟨fx, ex⟩ := newLabel_fresh h3
          exact Or.inr ⟨rfl, r0, r1, p.1, ht.symm, by rw [← hu, ex], fx, n0.2.2.1, n1.2.2.2.1, Ne.symm n1.1⟩

theorem label_mem_corrBlock {t : Target} {ly : Layout} {sp : SinglePair} {q b L I J : Nat}
    {l1 l2 x1 x2 x3 : String} {ids res : Int} {l : String}
    (h : Cmd.label l ∈ corrBlockCode t ly sp q b L I J l1 l2 x1 x2 x3 ids res) : l ∈ [l1, l2, x1, x2, x3] := by
  cases t <;> simp [corrBlockCode, rawBellCode, singlePairCode] at h <;> simp [h]

theorem label_mem_waitBlock {ly : Layout} {L s t e J : Nat} {a1 a2 b1 b2 : String} {res : Int} {l : String}
    (h : Cmd.label l ∈ waitBlockCode ly L s t e J a1 a2 b1 b2 res) : l ∈ [a1, a2, b1, b2] := by
  simp [waitBlockCode] at h; simp [h]

theorem label_mem_moveTail {L r0 r1 : Nat} {n : Int} {x4 l : String}
    (h : Cmd.label l ∈ moveTailCode L r0 r1 n x4) : l = x4 := by
  simpa [moveTailCode] using h

end NQ.Bell
