/-
C03 ↔ C04: the executor model `Model/Exec.lean` (`Exec.stepLoc`, simulation mode) as an instance of
the parametric machine of `Model/Asm.lean`.

* `XMem` is an `Exec.Loc` without its register file; `conc` puts the two halves together
  (the refinement map: `Asm.State XMem → Exec.Loc`, registers restricted to the 4 × 16 file).
* `xExec` is the instruction semantics of `Exec.stepLoc` written on *evaluated* operands; it is
  not trusted: `exec_next` / `exec_fault` prove, instruction by instruction, that a step of the
  machine `xMachine` on the read-back of an `Exec` program IS the `Exec.stepLoc` step.
-/
import NetqasmVerif.Model.Exec
import NetqasmVerif.Lemmas.AsmBuild
namespace NQ.Asm
open NQ

/-! ### states -/

structure XMem where
  arrays : Int → Option (List Exec.Val)
  shmRegs : Exec.XReg → Exec.Val
  shmArrs : Int → Option Exec.ShmArr
  unit : List (Option Nat)
  used : List Nat
  oracle : List Int
  trace : List Exec.Ev

def ofX (x : Exec.XReg) : Reg := ⟨x.bank.val, (x.idx.val : Int)⟩

def toX? (r : Reg) : Option Exec.XReg :=
  if h : r.bank < 4 then
    (if h2 : 0 ≤ r.idx ∧ r.idx < 16 then some ⟨⟨r.bank, h⟩, ⟨r.idx.toNat, by omega⟩⟩ else none)
  else none

/-- the 4 × 16 register file seen by the executor -/
def absRegs (ρ : Regs) : Exec.XReg → Exec.Val := fun x => ρ (ofX x)

/-- refinement map: a machine state is an executor `Loc` -/
def conc (s : State XMem) : Exec.Loc :=
  ⟨⟨absRegs s.regs, s.mem.arrays, s.mem.shmRegs, s.mem.shmArrs, s.mem.unit⟩, s.mem.used, s.mem.oracle,
    s.mem.trace⟩

theorem ofX_inj {x y : Exec.XReg} (h : ofX x = ofX y) : x = y := by
  obtain ⟨⟨b, hb⟩, ⟨i, hi⟩⟩ := x
  obtain ⟨⟨b', hb'⟩, ⟨i', hi'⟩⟩ := y
  simp only [ofX, Reg.mk.injEq] at h
  obtain ⟨h1, h2⟩ := h
  have : i = i' := by omega
  subst h1; subst this; rfl

theorem toX_ofX (x : Exec.XReg) : toX? (ofX x) = some x := by
  obtain ⟨⟨b, hb⟩, ⟨i, hi⟩⟩ := x
  have h2 : (0 : Int) ≤ (i : Int) ∧ (i : Int) < 16 := by omega
  simp [toX?, ofX, hb, h2]

theorem absRegs_upd (ρ : Regs) (x : Exec.XReg) (v : Option Int) :
    absRegs (upd ρ (ofX x) v) = Exec.upd (absRegs ρ) x v := by
  funext y
  simp only [absRegs, upd, Exec.upd]
  by_cases h : y = x
  · simp [h]
  · have : ofX y ≠ ofX x := fun e => h (ofX_inj e)
    simp [h, this]

/-! ### fault kinds as numbers (the machine's faults are `Nat`) -/

def faultCode : Exec.Fault → Nat
  | .undefReg => 1 | .undefEntry => 2 | .badModulus => 3 | .doubleAlloc => 4 | .notAlloc => 5
  | .alreadyReg => 6 | .index => 7 | .noArray => 8 | .unitIndex => 9 | .outsideUnit => 10
  | .assertion => 11 | .typeError => 12 | .overflow => 13 | .noApp => 14 | .usedKey => 15 | .fetch => 16

theorem faultCode_inj {f g : Exec.Fault} (h : faultCode f = faultCode g) : f = g := by
  cases f <;> cases g <;> simp [faultCode] at h <;> rfl

def xf {M : Type} (f : Exec.Fault) : Res M := .fault (faultCode f)

/-! ### the instruction semantics of `Exec.stepLoc` (simulation mode) on evaluated operands -/

def xArith (x y : Option Int) (m : XMem) (f : Int → Int → Int) : Res XMem :=
  match x, y with
  | some a, some b => .ok (some (f a b)) m false
  | _, _ => xf .assertion

def xArithm (x y md : Option Int) (m : XMem) (f : Int → Int → Int) : Res XMem :=
  match md with
  | some mv =>
    if mv < 1 then xf .badModulus
    else match x, y with
      | some a, some b => .ok (some (f a b % mv)) m false
      | _, _ => xf .assertion
  | none => xf .assertion

def xLoad (a : Int) (i : Option Int) (m : XMem) : Res XMem :=
  match i with
  | none => xf .undefReg
  | some k =>
    match m.arrays a with
    | none => xf .undefEntry
    | some arr =>
      match Exec.pyIdx arr.length k with
      | none => xf .index
      | some p =>
        match arr[p]?.join with
        | none => xf .undefEntry
        | some v => .ok (some v) m false

def xStore (val : Option Int) (a : Int) (i : Option Int) (m : XMem) : Res XMem :=
  match val with
  | none => xf .undefReg
  | some v =>
    match i with
    | none => xf .undefReg
    | some k =>
      match m.arrays a with
      | none => xf .noArray
      | some arr =>
        match Exec.pyIdx arr.length k with
        | none => xf .index
        | some p => .ok none { m with arrays := Exec.upd m.arrays a (some (arr.set p (some v))) } false

def xUndef (a : Int) (i : Option Int) (m : XMem) : Res XMem :=
  match i with
  | none => xf .undefReg
  | some k =>
    match m.arrays a with
    | none => xf .noArray
    | some arr =>
      match Exec.pyIdx arr.length k with
      | none => xf .index
      | some p => .ok none { m with arrays := Exec.upd m.arrays a (some (arr.set p none)) } false

def xFreeze (m : XMem) (a : Int) : Option Exec.ShmArr :=
  match m.shmArrs a with
  | some .live => some (.frozen ((m.arrays a).getD []))
  | o => o

def xArray (n : Option Int) (a : Int) (m : XMem) : Res XMem :=
  match n with
  | none => xf .assertion
  | some k =>
    .ok none { m with arrays := Exec.upd m.arrays a (some (List.replicate k.toNat none)),
                      shmArrs := Exec.upd m.shmArrs a (xFreeze m a) } false

def xBrCmp (x y : Option Int) (m : XMem) (c : Int → Int → Bool) : Res XMem :=
  match x, y with
  | some u, some v => .ok none m (c u v)
  | _, _ => xf .typeError

def xRetReg (r : Reg) (v : Option Int) (m : XMem) : Res XMem :=
  match v with
  | none => xf .undefReg
  | some w =>
    match toX? r with
    | some x => .ok none { m with shmRegs := Exec.upd m.shmRegs x (some w) } false
    | none => xf .fetch

def xRetArr (a : Int) (m : XMem) : Res XMem :=
  match m.arrays a with
  | none => xf .noArray
  | some _ => .ok none { m with shmArrs := Exec.upd m.shmArrs a (some .live) } false

def xQalloc (q : Option Int) (m : XMem) : Res XMem :=
  match q with
  | none => xf .undefReg
  | some v =>
    if v ≥ m.unit.length then xf .outsideUnit
    else match Exec.pyIdx m.unit.length v with
      | none => xf .unitIndex
      | some p =>
        match m.unit[p]?.join with
        | some _ => xf .doubleAlloc
        | none =>
          .ok none { m with unit := m.unit.set p (some (Exec.firstUnused m.used)),
                            used := Exec.sadd (Exec.firstUnused m.used) m.used } false

def xQfree (q : Option Int) (m : XMem) : Res XMem :=
  match q with
  | none => xf .assertion
  | some v =>
    match Exec.pyIdx m.unit.length v with
    | none => xf .unitIndex
    | some p =>
      match m.unit[p]?.join with
      | none => xf .notAlloc
      | some ph =>
        if ph ∈ m.used then .ok none { m with unit := m.unit.set p none, used := Exec.srem ph m.used } false
        else xf .usedKey

def xExec (mn : String) (vals : List Val) (m : XMem) : Res XMem :=
  if mn = "set" then (match vals with | [.dst, .imm v] => .ok (some v) m false | _ => xf .fetch)
  else if mn = "lea" then (match vals with | [.dst, .addr a] => .ok (some a) m false | _ => xf .fetch)
  else if mn = "load" then (match vals with | [.dst, .entry a i] => xLoad a i m | _ => xf .fetch)
  else if mn = "store" then (match vals with | [.use v, .entry a i] => xStore v a i m | _ => xf .fetch)
  else if mn = "undef" then (match vals with | [.entry a i] => xUndef a i m | _ => xf .fetch)
  else if mn = "array" then (match vals with | [.use n, .addr a] => xArray n a m | _ => xf .fetch)
  else if mn = "add" then (match vals with | [.dst, .use x, .use y] => xArith x y m (· + ·) | _ => xf .fetch)
  else if mn = "sub" then (match vals with | [.dst, .use x, .use y] => xArith x y m (· - ·) | _ => xf .fetch)
  else if mn = "addm" then
    (match vals with | [.dst, .use x, .use y, .use d] => xArithm x y d m (· + ·) | _ => xf .fetch)
  else if mn = "subm" then
    (match vals with | [.dst, .use x, .use y, .use d] => xArithm x y d m (· - ·) | _ => xf .fetch)
  else if mn = "jmp" then (match vals with | [.tgt] => .ok none m true | _ => xf .fetch)
  else if mn = "bez" then (match vals with | [.use x, .tgt] => .ok none m (x == some 0) | _ => xf .fetch)
  else if mn = "bnz" then (match vals with | [.use x, .tgt] => .ok none m (x != some 0) | _ => xf .fetch)
  else if mn = "beq" then (match vals with | [.use x, .use y, .tgt] => .ok none m (x == y) | _ => xf .fetch)
  else if mn = "bne" then (match vals with | [.use x, .use y, .tgt] => .ok none m (x != y) | _ => xf .fetch)
  else if mn = "blt" then
    (match vals with | [.use x, .use y, .tgt] => xBrCmp x y m (fun u v => decide (u < v)) | _ => xf .fetch)
  else if mn = "bge" then
    (match vals with | [.use x, .use y, .tgt] => xBrCmp x y m (fun u v => decide (u ≥ v)) | _ => xf .fetch)
  else if mn = "ret_reg" then (match vals with | [.named r v] => xRetReg r v m | _ => xf .fetch)
  else if mn = "ret_arr" then (match vals with | [.addr a] => xRetArr a m | _ => xf .fetch)
  else if mn = "qalloc" then (match vals with | [.use q] => xQalloc q m | _ => xf .fetch)
  else if mn = "qfree" then (match vals with | [.use q] => xQfree q m | _ => xf .fetch)
  else xf .fetch

/-- the executor as a machine: the role table of the in-scope instructions + `xExec` -/
def xMachine : Machine XMem := ⟨stdRoles, xExec⟩

/-! ### reading an `Exec` program as a proto program -/

def rX (x : Exec.XReg) : POperand := .reg (ofX x)
def eX (a : Int) (i : Exec.XReg) : POperand := .entry a (.reg (ofX i))

/-- instructions outside the scope of C03 (quantum gates, measurement) read back as a command
without roles: the machine is stuck on them, so no claim is made -/
def ofExec : Exec.Instr → PCmd
  | .set r v => .instr "set" [] [rX r, .lit v]
  | .load r a i => .instr "load" [] [rX r, eX a i]
  | .store r a i => .instr "store" [] [rX r, eX a i]
  | .lea r a => .instr "lea" [] [rX r, .addr a]
  | .undef a i => .instr "undef" [] [eX a i]
  | .array n a => .instr "array" [] [rX n, .addr a]
  | .add d x y => .instr "add" [] [rX d, rX x, rX y]
  | .sub d x y => .instr "sub" [] [rX d, rX x, rX y]
  | .addm d x y m => .instr "addm" [] [rX d, rX x, rX y, rX m]
  | .subm d x y m => .instr "subm" [] [rX d, rX x, rX y, rX m]
  | .bez r t => .instr "bez" [] [rX r, .lit t]
  | .bnz r t => .instr "bnz" [] [rX r, .lit t]
  | .beq x y t => .instr "beq" [] [rX x, rX y, .lit t]
  | .bne x y t => .instr "bne" [] [rX x, rX y, .lit t]
  | .blt x y t => .instr "blt" [] [rX x, rX y, .lit t]
  | .bge x y t => .instr "bge" [] [rX x, rX y, .lit t]
  | .jmp t => .instr "jmp" [] [.lit t]
  | .retReg r => .instr "ret_reg" [] [rX r]
  | .retArr a => .instr "ret_arr" [] [.addr a]
  | .qalloc r => .instr "qalloc" [] [rX r]
  | .qfree r => .instr "qfree" [] [rX r]
  | _ => .instr "" [] []

/-- multi-step execution of the executor model itself (`Exec.stepLoc`, simulation mode) -/
inductive XSteps (a : Nat) (X : List Exec.Instr) : Exec.Loc × Int → Exec.Loc × Int → Prop
  | refl (c : Exec.Loc × Int) : XSteps a X c c
  | step {l l' : Exec.Loc} {k : Nat} {pc' : Int} {x : Exec.Instr} {c : Exec.Loc × Int} :
      X[k]? = some x → Exec.stepLoc false a x l (k : Int) = .ok l' pc' → XSteps a X (l', pc') c →
      XSteps a X (l, (k : Int)) c

theorem XSteps.trans {a : Nat} {X : List Exec.Instr} {c1 c2 c3 : Exec.Loc × Int}
    (h1 : XSteps a X c1 c2) (h2 : XSteps a X c2 c3) : XSteps a X c1 c3 := by
  induction h1 with
  | refl _ => exact h2
  | step hx hs _ ih => exact .step hx hs (ih h2)

/-! ### instruction by instruction: a machine step IS the `Exec.stepLoc` step -/

/-- the fault kind of an executor result -/
def lresKind : Exec.LRes → Option Nat
  | .fault _ g => some (faultCode g)
  | .ok _ _ => none

/-- what is proved for each instruction `x` at position `k` of a read-back program -/
def StepCorr (a : Nat) (x : Exec.Instr) (Q : List PCmd) (t : State XMem) (k : Nat) : Prop :=
  (∀ t' pc', step xMachine Q t k = .next t' pc' →
      Exec.stepLoc false a x (conc t) (k : Int) = .ok (conc t') (pc' : Int)) ∧
  (∀ f, step xMachine Q t k = .fault f → lresKind (Exec.stepLoc false a x (conc t) (k : Int)) = some f)

theorem roles_x (mn : String) (rs : List Role) (h : stdRoles mn = some rs) : xMachine.roles mn = some rs := h

theorem absRegs_apply (ρ : Regs) (x : Exec.XReg) : absRegs ρ x = ρ (ofX x) := rfl

macro "xprelude" hg:ident t:ident rl:term "," vs:term : tactic =>
  `(tactic| (
    simp only [ofExec] at $hg:ident
    have hs := step_instr (mc := xMachine) (s := $t) $hg (roles_x _ $rl (by decide)) (vals := $vs) rfl
    simp only [xMachine, xExec, allOps, List.map_nil, List.nil_append] at hs
    simp at hs
    change step xMachine _ _ _ = _ at hs
    unfold StepCorr
    rw [hs]))

macro "xs" : tactic =>
  `(tactic| simp [*, xf, lresKind, Exec.wr, Exec.fits, Exec.br, Exec.arith, Exec.arithm, dstOf, tgtOf, jumpTarget, rX, eX,
      writeBack, absRegs_upd, absRegs_apply, Exec.App.setReg, conc, xArith, xArithm, xBrCmp, Exec.stepLoc])


theorem corr_set (a : Nat) (r : Exec.XReg) (v : Int) (Q : List PCmd) (t : State XMem) (k : Nat)
    (hg : Q[k]? = some (ofExec (.set r v))) : StepCorr a (.set r v) Q t k := by
  xprelude hg t [.dst, .imm], [.dst, .imm v]
  xs

theorem corr_lea (a : Nat) (r : Exec.XReg) (ad : Int) (Q : List PCmd) (t : State XMem) (k : Nat)
    (hg : Q[k]? = some (ofExec (.lea r ad))) : StepCorr a (.lea r ad) Q t k := by
  xprelude hg t [.dst, .addr], [.dst, .addr ad]
  xs

theorem corr_add (a : Nat) (d x y : Exec.XReg) (Q : List PCmd) (t : State XMem) (k : Nat)
    (hg : Q[k]? = some (ofExec (.add d x y))) : StepCorr a (.add d x y) Q t k := by
  xprelude hg t [.dst, .use, .use], [.dst, .use (t.regs (ofX x)), .use (t.regs (ofX y))]
  cases hx : t.regs (ofX x) <;> cases hy : t.regs (ofX y) <;> xs

theorem corr_sub (a : Nat) (d x y : Exec.XReg) (Q : List PCmd) (t : State XMem) (k : Nat)
    (hg : Q[k]? = some (ofExec (.sub d x y))) : StepCorr a (.sub d x y) Q t k := by
  xprelude hg t [.dst, .use, .use], [.dst, .use (t.regs (ofX x)), .use (t.regs (ofX y))]
  cases hx : t.regs (ofX x) <;> cases hy : t.regs (ofX y) <;> xs

theorem corr_addm (a : Nat) (d x y m : Exec.XReg) (Q : List PCmd) (t : State XMem) (k : Nat)
    (hg : Q[k]? = some (ofExec (.addm d x y m))) : StepCorr a (.addm d x y m) Q t k := by
  xprelude hg t [.dst, .use, .use, .use], [.dst, .use (t.regs (ofX x)), .use (t.regs (ofX y)), .use (t.regs (ofX m))]
  cases hm : t.regs (ofX m) with
  | none => xs
  | some mv =>
    by_cases hlt : mv < 1
    · xs
    · cases hx : t.regs (ofX x) <;> cases hy : t.regs (ofX y) <;> xs

theorem corr_subm (a : Nat) (d x y m : Exec.XReg) (Q : List PCmd) (t : State XMem) (k : Nat)
    (hg : Q[k]? = some (ofExec (.subm d x y m))) : StepCorr a (.subm d x y m) Q t k := by
  xprelude hg t [.dst, .use, .use, .use], [.dst, .use (t.regs (ofX x)), .use (t.regs (ofX y)), .use (t.regs (ofX m))]
  cases hm : t.regs (ofX m) with
  | none => xs
  | some mv =>
    by_cases hlt : mv < 1
    · xs
    · cases hx : t.regs (ofX x) <;> cases hy : t.regs (ofX y) <;> xs

theorem corr_bez (a : Nat) (r : Exec.XReg) (tg : Int) (Q : List PCmd) (t : State XMem) (k : Nat)
    (hg : Q[k]? = some (ofExec (.bez r tg))) : StepCorr a (.bez r tg) Q t k := by
  xprelude hg t [.use, .tgt], [.use (t.regs (ofX r)), .tgt]
  xs
  by_cases h0 : 0 ≤ tg <;> simp [h0] <;> split <;> simp_all
  all_goals (try omega)

theorem corr_bnz (a : Nat) (r : Exec.XReg) (tg : Int) (Q : List PCmd) (t : State XMem) (k : Nat)
    (hg : Q[k]? = some (ofExec (.bnz r tg))) : StepCorr a (.bnz r tg) Q t k := by
  xprelude hg t [.use, .tgt], [.use (t.regs (ofX r)), .tgt]
  xs
  by_cases h0 : 0 ≤ tg <;> simp [h0] <;> split <;> simp_all
  all_goals (try omega)

theorem corr_beq (a : Nat) (x y : Exec.XReg) (tg : Int) (Q : List PCmd) (t : State XMem) (k : Nat)
    (hg : Q[k]? = some (ofExec (.beq x y tg))) : StepCorr a (.beq x y tg) Q t k := by
  xprelude hg t [.use, .use, .tgt], [.use (t.regs (ofX x)), .use (t.regs (ofX y)), .tgt]
  xs
  by_cases h0 : 0 ≤ tg <;> simp [h0] <;> split <;> simp_all
  all_goals (try omega)

theorem corr_bne (a : Nat) (x y : Exec.XReg) (tg : Int) (Q : List PCmd) (t : State XMem) (k : Nat)
    (hg : Q[k]? = some (ofExec (.bne x y tg))) : StepCorr a (.bne x y tg) Q t k := by
  xprelude hg t [.use, .use, .tgt], [.use (t.regs (ofX x)), .use (t.regs (ofX y)), .tgt]
  xs
  by_cases h0 : 0 ≤ tg <;> simp [h0] <;> split <;> simp_all
  all_goals (try omega)

theorem corr_blt (a : Nat) (x y : Exec.XReg) (tg : Int) (Q : List PCmd) (t : State XMem) (k : Nat)
    (hg : Q[k]? = some (ofExec (.blt x y tg))) : StepCorr a (.blt x y tg) Q t k := by
  xprelude hg t [.use, .use, .tgt], [.use (t.regs (ofX x)), .use (t.regs (ofX y)), .tgt]
  cases hx : t.regs (ofX x) <;> cases hy : t.regs (ofX y) <;> xs
  by_cases h0 : 0 ≤ tg <;> simp [h0] <;> split <;> simp_all
  all_goals (try omega)

theorem corr_bge (a : Nat) (x y : Exec.XReg) (tg : Int) (Q : List PCmd) (t : State XMem) (k : Nat)
    (hg : Q[k]? = some (ofExec (.bge x y tg))) : StepCorr a (.bge x y tg) Q t k := by
  xprelude hg t [.use, .use, .tgt], [.use (t.regs (ofX x)), .use (t.regs (ofX y)), .tgt]
  cases hx : t.regs (ofX x) <;> cases hy : t.regs (ofX y) <;> xs
  by_cases h0 : 0 ≤ tg <;> simp [h0] <;> split <;> simp_all
  all_goals (try omega)

theorem corr_jmp (a : Nat) (tg : Int) (Q : List PCmd) (t : State XMem) (k : Nat)
    (hg : Q[k]? = some (ofExec (.jmp tg))) : StepCorr a (.jmp tg) Q t k := by
  xprelude hg t [.tgt], [.tgt]
  xs
  by_cases h0 : 0 ≤ tg <;> simp [h0]
  all_goals (try omega)

theorem xFreeze_eq (t : State XMem) (ad : Int) :
    Exec.freeze ⟨absRegs t.regs, t.mem.arrays, t.mem.shmRegs, t.mem.shmArrs, t.mem.unit⟩ ad = xFreeze t.mem ad := by
  simp only [Exec.freeze, xFreeze]
  cases t.mem.shmArrs ad with
  | none => rfl
  | some v => cases v <;> rfl

macro "xm" : tactic =>
  `(tactic| simp [*, xf, lresKind, Exec.wr, Exec.fits, dstOf, rX, eX, writeBack, absRegs_upd, absRegs_apply,
      Exec.App.setReg, conc, xLoad, xStore, xUndef, xArray, xFreeze_eq, xRetReg, xRetArr, xQalloc, xQfree,
      Exec.stepLoc, toX_ofX])

theorem corr_load (a : Nat) (d i : Exec.XReg) (ad : Int) (Q : List PCmd) (t : State XMem) (k : Nat)
    (hg : Q[k]? = some (ofExec (.load d ad i))) : StepCorr a (.load d ad i) Q t k := by
  xprelude hg t [.dst, .entry], [.dst, .entry ad (t.regs (ofX i))]
  cases hx : t.regs (ofX i) with
  | none => xm
  | some kk =>
    cases ha : t.mem.arrays ad with
    | none => xm
    | some arr =>
      cases hp : Exec.pyIdx arr.length kk with
      | none => xm
      | some p =>
        cases hv : arr[p]?.join with
        | none => xm
        | some v => xm

theorem corr_store (a : Nat) (r i : Exec.XReg) (ad : Int) (Q : List PCmd) (t : State XMem) (k : Nat)
    (hg : Q[k]? = some (ofExec (.store r ad i))) : StepCorr a (.store r ad i) Q t k := by
  xprelude hg t [.use, .entry], [.use (t.regs (ofX r)), .entry ad (t.regs (ofX i))]
  cases hr : t.regs (ofX r) with
  | none => xm
  | some v =>
    cases hx : t.regs (ofX i) with
    | none => xm
    | some kk =>
      cases ha : t.mem.arrays ad with
      | none => xm
      | some arr =>
        cases hp : Exec.pyIdx arr.length kk with
        | none => xm
        | some p => xm

theorem corr_undef (a : Nat) (i : Exec.XReg) (ad : Int) (Q : List PCmd) (t : State XMem) (k : Nat)
    (hg : Q[k]? = some (ofExec (.undef ad i))) : StepCorr a (.undef ad i) Q t k := by
  xprelude hg t [.entry], [.entry ad (t.regs (ofX i))]
  cases hx : t.regs (ofX i) with
  | none => xm
  | some kk =>
    cases ha : t.mem.arrays ad with
    | none => xm
    | some arr =>
      cases hp : Exec.pyIdx arr.length kk with
      | none => xm
      | some p => xm

theorem corr_array (a : Nat) (n : Exec.XReg) (ad : Int) (Q : List PCmd) (t : State XMem) (k : Nat)
    (hg : Q[k]? = some (ofExec (.array n ad))) : StepCorr a (.array n ad) Q t k := by
  xprelude hg t [.use, .addr], [.use (t.regs (ofX n)), .addr ad]
  cases hx : t.regs (ofX n) with
  | none => xm
  | some kk => xm

theorem corr_retReg (a : Nat) (r : Exec.XReg) (Q : List PCmd) (t : State XMem) (k : Nat)
    (hg : Q[k]? = some (ofExec (.retReg r))) : StepCorr a (.retReg r) Q t k := by
  xprelude hg t [.named], [.named (ofX r) (t.regs (ofX r))]
  cases hx : t.regs (ofX r) with
  | none => xm
  | some v => xm

theorem corr_retArr (a : Nat) (ad : Int) (Q : List PCmd) (t : State XMem) (k : Nat)
    (hg : Q[k]? = some (ofExec (.retArr ad))) : StepCorr a (.retArr ad) Q t k := by
  xprelude hg t [.addr], [.addr ad]
  cases ha : t.mem.arrays ad with
  | none => xm
  | some arr => xm

theorem corr_qalloc (a : Nat) (r : Exec.XReg) (Q : List PCmd) (t : State XMem) (k : Nat)
    (hg : Q[k]? = some (ofExec (.qalloc r))) : StepCorr a (.qalloc r) Q t k := by
  xprelude hg t [.use], [.use (t.regs (ofX r))]
  cases hx : t.regs (ofX r) with
  | none => xm
  | some v =>
    by_cases hge : v ≥ (t.mem.unit.length : Int)
    · xm
    · cases hp : Exec.pyIdx t.mem.unit.length v with
      | none => xm
      | some p =>
        cases hu : t.mem.unit[p]?.join with
        | some ph => xm
        | none => xm

theorem corr_qfree (a : Nat) (r : Exec.XReg) (Q : List PCmd) (t : State XMem) (k : Nat)
    (hg : Q[k]? = some (ofExec (.qfree r))) : StepCorr a (.qfree r) Q t k := by
  xprelude hg t [.use], [.use (t.regs (ofX r))]
  cases hx : t.regs (ofX r) with
  | none => xm
  | some v =>
    cases hp : Exec.pyIdx t.mem.unit.length v with
    | none => xm
    | some p =>
      cases hu : t.mem.unit[p]?.join with
      | none => xm
      | some ph =>
        by_cases hin : ph ∈ t.mem.used
        · xm
        · xm

/-! ### whole programs -/

theorem roles_empty : xMachine.roles "" = none := by decide

theorem step_stuck_of_noroles {Q : List PCmd} {t : State XMem} {k : Nat} {args : List Int} {ops : List POperand}
    (hg : Q[k]? = some (.instr "" args ops)) : step xMachine Q t k = .stuck := by
  simp only [step, hg, roles_empty]

/-- **`Exec.stepLoc` is an instance of the machine.**  On the read-back `X.map ofExec` of any
executor program `X`, a successful machine step is the executor's step on the concretised state,
and a machine fault is an executor fault of the same kind. -/
theorem step_corr (a : Nat) (X : List Exec.Instr) (t : State XMem) (k : Nat) :
    (∀ t' pc', step xMachine (X.map ofExec) t k = .next t' pc' →
      ∃ x, X[k]? = some x ∧ Exec.stepLoc false a x (conc t) (k : Int) = .ok (conc t') (pc' : Int)) ∧
    (∀ f, step xMachine (X.map ofExec) t k = .fault f →
      ∃ x, X[k]? = some x ∧ lresKind (Exec.stepLoc false a x (conc t) (k : Int)) = some f) := by
  cases hx : X[k]? with
  | none =>
    have : (X.map ofExec)[k]? = none := by simp [hx]
    constructor <;> intros <;> simp_all [step]
  | some x =>
    have hg : (X.map ofExec)[k]? = some (ofExec x) := by simp [hx]
    have key : StepCorr a x (X.map ofExec) t k := by
      cases x with
      | set r v => exact corr_set a r v _ t k hg
      | load r ad i => exact corr_load a r i ad _ t k hg
      | store r ad i => exact corr_store a r i ad _ t k hg
      | lea r ad => exact corr_lea a r ad _ t k hg
      | undef ad i => exact corr_undef a i ad _ t k hg
      | array n ad => exact corr_array a n ad _ t k hg
      | add d x y => exact corr_add a d x y _ t k hg
      | sub d x y => exact corr_sub a d x y _ t k hg
      | addm d x y m => exact corr_addm a d x y m _ t k hg
      | subm d x y m => exact corr_subm a d x y m _ t k hg
      | bez r tg => exact corr_bez a r tg _ t k hg
      | bnz r tg => exact corr_bnz a r tg _ t k hg
      | beq x y tg => exact corr_beq a x y tg _ t k hg
      | bne x y tg => exact corr_bne a x y tg _ t k hg
      | blt x y tg => exact corr_blt a x y tg _ t k hg
      | bge x y tg => exact corr_bge a x y tg _ t k hg
      | jmp tg => exact corr_jmp a tg _ t k hg
      | retReg r => exact corr_retReg a r _ t k hg
      | retArr ad => exact corr_retArr a ad _ t k hg
      | qalloc r => exact corr_qalloc a r _ t k hg
      | qfree r => exact corr_qfree a r _ t k hg
      | meas q c => simp only [ofExec] at hg; simp [StepCorr, step_stuck_of_noroles hg]
      | q1 n r => simp only [ofExec] at hg; simp [StepCorr, step_stuck_of_noroles hg]
      | rot n r u v => simp only [ofExec] at hg; simp [StepCorr, step_stuck_of_noroles hg]
      | q2 n r0 r1 => simp only [ofExec] at hg; simp [StepCorr, step_stuck_of_noroles hg]
      | crot n r0 r1 u v => simp only [ofExec] at hg; simp [StepCorr, step_stuck_of_noroles hg]
    exact ⟨fun t' pc' h => ⟨x, rfl, key.1 t' pc' h⟩, fun f h => ⟨x, rfl, key.2 f h⟩⟩

/-- runs of the machine on the read-back are runs of the executor model -/
theorem xsteps_of_steps (a : Nat) (X : List Exec.Instr) {c c' : State XMem × Nat}
    (h : Steps xMachine (X.map ofExec) c c') : XSteps a X (conc c.1, (c.2 : Int)) (conc c'.1, (c'.2 : Int)) := by
  induction h with
  | refl c => exact .refl _
  | step hs _ ih =>
    obtain ⟨x, hx, hl⟩ := (step_corr a X _ _).1 _ _ hs
    exact .step hx hl ih

theorem xExec_set (v : Int) (m : XMem) : xExec "set" [.dst, .imm v] m = .ok (some v) m false := by
  simp [xExec]

end NQ.Asm
