import NetqasmVerif.Lemmas.TextChars
namespace NQ.Text
open NQ

/-! ### Character level, part 2: generic list facts -/

theorem findChar_notin {x : Char} {l : List Char} (h : x ∉ l) : findChar x l = none := by
  induction l with
  | nil => rfl
  | cons c cs ih =>
    simp only [List.mem_cons, not_or] at h
    simp [findChar, Ne.symm h.1, ih h.2]

theorem findChar_append {x : Char} {l r : List Char} (h : x ∉ l) :
    findChar x (l ++ x :: r) = some l.length := by
  induction l with
  | nil => simp [findChar]
  | cons c cs ih =>
    simp only [List.mem_cons, not_or] at h
    simp [findChar, Ne.symm h.1, ih h.2]

theorem splitOn_notin {x : Char} {l : List Char} (h : x ∉ l) : splitOn x l = [l] := by
  induction l with
  | nil => rfl
  | cons c cs ih =>
    simp only [List.mem_cons, not_or] at h
    simp [splitOn, Ne.symm h.1, ih h.2]

theorem splitOn_append {x : Char} {l r : List Char} (h : x ∉ l) :
    splitOn x (l ++ x :: r) = l :: splitOn x r := by
  induction l with
  | nil => simp [splitOn]
  | cons c cs ih =>
    simp only [List.mem_cons, not_or] at h
    simp [splitOn, Ne.symm h.1, ih h.2]

theorem dropWhile_head {p : Char → Bool} {c : Char} {cs : List Char} (h : p c = false) :
    (c :: cs).dropWhile p = c :: cs := by simp [List.dropWhile, h]

theorem dropWhileEnd_concat_false {p : Char → Bool} (l : List Char) {c : Char} (h : p c = false) :
    dropWhileEnd p (l ++ [c]) = l ++ [c] := by
  simp [dropWhileEnd, List.dropWhile, h]

theorem dropWhileEnd_concat_true {p : Char → Bool} (l : List Char) {c : Char} (h : p c = true) :
    dropWhileEnd p (l ++ [c]) = dropWhileEnd p l := by
  simp [dropWhileEnd, List.dropWhile, h]

theorem strip_of_ends {c d : Char} {l : List Char} (hc : isSpace c = false) (hd : isSpace d = false) :
    strip (c :: (l ++ [d])) = c :: (l ++ [d]) := by
  unfold strip
  rw [dropWhile_head hc]
  have : c :: (l ++ [d]) = (c :: l) ++ [d] := rfl
  rw [this, dropWhileEnd_concat_false _ hd]

theorem strip_single {c : Char} (hc : isSpace c = false) : strip [c] = [c] := by
  unfold strip
  rw [dropWhile_head hc]
  exact dropWhileEnd_concat_false [] hc

theorem containsSub_false {pat l : List Char} {c : Char} {ps : List Char} (hp : pat = c :: ps)
    (h : c ∉ l) : containsSub pat l = false := by
  subst hp
  induction l with
  | nil => rfl
  | cons d ds ih =>
    simp only [List.mem_cons, not_or] at h
    simp only [containsSub, ih h.2, Bool.or_false]
    simp [List.isPrefixOf, h.1]

/-! ### facts drawn from `symsOk` -/

structure SOk (S : Syms) : Prop where
  nbanks : 4 ≤ S.banks.length
  bankIdx : ∀ b, b < S.banks.length → findChar (bankChar S b) S.banks = some b
  bankCh : ∀ c ∈ S.banks, isDigit c = false ∧ c ≠ '-' ∧ isSpace c = false
  symA : opChar S S.addrStart = false ∧ isSpace S.addrStart = false
  symO : opChar S S.idxOpen = false ∧ isSpace S.idxOpen = false
  symC : opChar S S.idxClose = false ∧ isSpace S.idxClose = false
  symD : opChar S S.sliceDelim = false ∧ isSpace S.sliceDelim = false
  oa : S.idxOpen ≠ S.addrStart
  dO : S.sliceDelim ≠ S.idxOpen
  dC : S.sliceDelim ≠ S.idxClose
  argOpen : lineChar S S.argOpen = false
  macroS : lineChar S S.macroStart = false
  cmt : ∃ c cs, S.comment.toList = c :: cs ∧ lineChar S c = false
  preamble : mnCharOk S.preambleStart = false
  branch : isDigit S.branchEnd = false ∧ S.branchEnd ≠ S.idxClose ∧ mnCharOk S.branchEnd = false

theorem sok_of (S : Syms) (h : symsOk S = true) : SOk S := by
  simp only [symsOk, Bool.and_eq_true] at h
  obtain ⟨⟨⟨⟨⟨⟨⟨⟨⟨⟨⟨h1, h2⟩, h3⟩, h4⟩, h5⟩, h6⟩, h7⟩, h8⟩, h9⟩, h10⟩, h11⟩, h12⟩ := h
  have h4' : ∀ c ∈ [S.addrStart, S.idxOpen, S.idxClose, S.sliceDelim],
      opChar S c = false ∧ isSpace c = false := by
    intro c hc
    have := List.all_eq_true.1 h4 c hc
    simpa using this
  refine {
    nbanks := by simpa using h1
    bankIdx := fun b hb => by
      have := List.all_eq_true.1 h2 b (List.mem_range.2 hb)
      simpa using this
    bankCh := fun c hc => by
      have := List.all_eq_true.1 h3 c hc
      simpa [and_assoc] using this
    symA := h4' _ (by simp)
    symO := h4' _ (by simp)
    symC := h4' _ (by simp)
    symD := h4' _ (by simp)
    oa := by simpa using h5
    dO := by simpa using h6
    dC := by simpa using h7
    argOpen := by simpa using h8
    macroS := by simpa using h9
    cmt := ?_
    preamble := by simpa using h11
    branch := by simpa [and_assoc] using h12 }
  split at h10
  · rename_i c cs hc; exact ⟨c, cs, hc, by simpa using h10⟩
  · cases h10

variable {S : Syms}

theorem numChar_opChar {c : Char} (h : numChar c = true) : opChar S c = true := by
  simp only [numChar, Bool.or_eq_true, decide_eq_true_eq] at h
  simp only [opChar, Bool.or_eq_true, decide_eq_true_eq]
  rcases h with h | h
  · exact Or.inl (Or.inl h)
  · exact Or.inl (Or.inr h)

theorem bankChar_mem (hS : SOk S) {b : Nat} (hb : b < S.banks.length) : bankChar S b ∈ S.banks := by
  unfold bankChar
  have : ∀ (l : List Char) (b : Nat) (d : Char), b < l.length → l.getD b d ∈ l := by
    intro l
    induction l with
    | nil => intro b d h; simp at h
    | cons c cs ih =>
      intro b d h
      cases b with
      | zero => simp
      | succ b => simp at h ⊢; exact Or.inr (by simpa using ih b d h)
  exact this _ _ _ hb

theorem showReg_chars (hS : SOk S) (r : Reg) (hb : r.bank < S.banks.length) :
    ∀ c ∈ showReg S r, opChar S c = true := by
  intro c hc
  rcases List.mem_cons.1 hc with rfl | hc
  · simp [opChar, bankChar_mem hS hb]
  · exact numChar_opChar (showInt_chars _ c hc)

theorem notin_of_not_opChar {x : Char} {l : List Char} (hl : ∀ c ∈ l, opChar S c = true)
    (hx : opChar S x = false) : x ∉ l := fun h => by simp [hl x h] at hx

theorem opChar_not_space (hS : SOk S) {c : Char} (h : opChar S c = true) : isSpace c = false := by
  simp only [opChar, Bool.or_eq_true, decide_eq_true_eq, List.contains_iff_mem] at h
  rcases h with (h | h) | h
  · cases hc : isSpace c
    · rfl
    · simp only [isSpace, Bool.or_eq_true, decide_eq_true_eq] at hc
      rcases hc with ((rfl | rfl) | rfl) | rfl <;> simp [isDigit] at h
  · subst h; decide
  · exact (hS.bankCh c h).2.2

/-- `parse_register(str(r)) = r` -/
theorem parseRegister_showReg (hS : SOk S) (r : Reg) (hb : r.bank < S.banks.length) :
    parseRegister S (showReg S r) = some r := by
  simp only [showReg, parseRegister, hS.bankIdx r.bank hb, parseConst_showInt]

theorem parseConst_showReg (hS : SOk S) (r : Reg) (hb : r.bank < S.banks.length) :
    parseConst (showReg S r) = none := by
  have hm := hS.bankCh _ (bankChar_mem hS hb)
  unfold showReg
  rw [parseConst_of_head_ne hm.2.1]
  simp [allDigits, hm.1]

theorem parseVal_showInt (v : Int) : parseVal S (showInt v) = .ok (.int v) := by
  simp [parseVal, parseConst_showInt]

theorem parseVal_showReg (hS : SOk S) (r : Reg) (hb : r.bank < S.banks.length) :
    parseVal S (showReg S r) = .ok (.reg r) := by
  simp only [parseVal, parseConst_showReg hS r hb, parseRegister_showReg hS r hb]
  simp [showReg]

theorem strip_showReg (hS : SOk S) (r : Reg) (hb : r.bank < S.banks.length) :
    strip (showReg S r) = showReg S r := by
  obtain ⟨l, c, hl, hc⟩ := showInt_last r.idx
  unfold showReg
  rw [hl]
  apply strip_of_ends
  · exact (hS.bankCh _ (bankChar_mem hS hb)).2.2
  · exact opChar_not_space hS (numChar_opChar (by simp [numChar, hc]))

theorem strip_showInt (hS : SOk S) (v : Int) : strip (showInt v) = showInt v := by
  obtain ⟨l, c, hl, hc⟩ := showInt_last v
  have hcs : isSpace c = false := opChar_not_space hS (numChar_opChar (by simp [numChar, hc]))
  rw [hl]
  cases l with
  | nil => exact strip_single hcs
  | cons d ds =>
    have hd : d ∈ showInt v := by rw [hl]; simp
    exact strip_of_ends (opChar_not_space hS (numChar_opChar (showInt_chars v d hd))) hcs

end NQ.Text
