/-
C03 text level: whole programs.  `renderCmd` writes one proto command per line; `_create_subroutine`
(`parseBody`) reads every such program back; `canonText` adds the preamble and `parseTextProto` —
the model of `parse_text_protosubroutine` — reads the whole text back.
-/
import NetqasmVerif.Lemmas.AsmFrontArgs
namespace NQ.AsmFront
open NQ NQ.AsmText NQ.Text

variable {S : Syms}

/-- the commands the front end can read back: label names are variable names; mnemonics are
`GenericInstr` names; operands are source operands (`pOpOk`: no templates, label operands that are
not themselves numbers or register names) -/
def CmdOk (S : Syms) (generic : List String) : Asm.PCmd → Prop
  | .label l => labelOk l
  | .instr mn _ ops => HeadOk generic mn ∧ ∀ o ∈ ops, pOpOk S o

/-- one command per line: `L:` / `mn(a₁,…,aₖ) op₁ … opₙ` -/
def renderCmd (S : Syms) : Asm.PCmd → List Char
  | .label l => l.toList ++ [S.branchEnd]
  | .instr mn args ops => mn.toList ++ showArgs S.argOpen ')' args ++ showSrcOps S ops

/-- the symbols of the live module satisfy what the line theorems need (decided on `Gen.syms`) -/
structure FrontSyms (S : Syms) : Prop where
  sok : SOk S
  src : srcSymsOk S = true
  arg : argSymsOk S = true

theorem parseBodyLine_render (hF : FrontSyms S) (generic : List String) (c : Asm.PCmd) (hc : CmdOk S generic c) :
    parseBodyLine S generic (renderCmd S c) = .ok c := by
  cases c with
  | label l => exact parseBodyLine_label hF.sok hF.src generic l hc
  | instr mn args ops =>
    obtain ⟨hh, ho⟩ := hc
    cases args with
    | nil =>
      have : renderCmd S (.instr mn [] ops) = mn.toList ++ showSrcOps S ops := by simp [renderCmd, showArgs]
      rw [this]; exact parseBodyLine_noargs hF.sok hF.src generic mn hh ops ho
    | cons a as => exact parseBodyLine_args hF.sok hF.src hF.arg generic mn hh a as ops ho

/-- **body level**: `_create_subroutine` reads every rendered program back, command by command -/
theorem parseBody_render (hF : FrontSyms S) (generic : List String) (P : List Asm.PCmd)
    (hP : ∀ c ∈ P, CmdOk S generic c) : parseBody S generic (P.map (renderCmd S)) = .ok P := by
  induction P with
  | nil => rfl
  | cons c cs ih =>
    simp only [List.map_cons, parseBody, parseBodyLine_render hF generic c (hP c (by simp)),
      ih (fun c' h => hP c' (by simp [h]))]

end NQ.AsmFront
