/-
Static facts about every subroutine the builder model emits, derived from the builder model
(`Sdk.emit` / `Sdk.flush` / `Sdk.run`) instead of being assumed of the subroutine:

* `emitted_nameInj`      — the names of the labels of a subroutine separate them (`Bridge.NameInj`):
                           label kinds are `< 5`, the five prefixes are distinct and digit-free, the
                           counter is printed in decimal (`Nat.repr` is injective);
* `emitted_regsInRange`  — every register operand is in the 4 × 16 register file
                           (`Bridge.RegsInRange`): R registers come from the 16 `active` flags, M registers
                           from the 16 `measUsed` flags, `Q0`, and registers of handles, which are of
                           these kinds;
* `emitted_labelTargets` — the target operand of every branch is a label (`Asm.LabelTargets`);
* `emitted_qclosed`      — the quantum / allocation instructions come in closed straight-line blocks
                           `set Q0 0; qalloc Q0; init Q0; (set Q0 0; gate Q0)*; set Q0 0; meas Q0 M; qfree Q0`
                           (`QClosed`, the input of `Lemmas/SdkQSafe.lean`).

All four are consequences of one invariant of the builder (`MemOK`) and one predicate on emitted
commands (`cmdOK`, `QClosed`), proved by induction over `emit`.
-/
import NetqasmVerif.Lemmas.SdkAsmBridge
import NetqasmVerif.Lemmas.SdkSimRun
set_option linter.unusedSimpArgs false
set_option linter.unusedVariables false
namespace NQ.Sdk

/-! ## label names -/

/-- the decimal suffix of a label name -/
def sufL (n : Nat) : List Char := if n = 0 then [] else Nat.toDigits 10 n

theorem name_toList (l : Lbl) : l.name.toList = (Lbl.prefix l.kind).toList ++ sufL l.n := by
  unfold Lbl.name sufL
  by_cases h : l.n = 0
  · simp [h]
  · simp only [h, if_false, String.toList_append, Nat.toString_eq_repr, Nat.toList_repr]

theorem prefix_nodigit : ∀ k, ∀ c ∈ (Lbl.prefix k).toList, c.isDigit = false
  | 0 => by decide
  | 1 => by decide
  | 2 => by decide
  | 3 => by decide
  | n + 4 => by
    have : Lbl.prefix (n + 4) = "WHILE_EXIT" := by unfold Lbl.prefix; rfl
    rw [this]; decide

theorem prefix_inj : ∀ k < 5, ∀ k' < 5, (Lbl.prefix k).toList = (Lbl.prefix k').toList → k = k' := by
  decide

theorem sufL_digit (n : Nat) : ∀ c ∈ sufL n, c.isDigit = true := by
  intro c hc
  unfold sufL at hc
  by_cases h : n = 0
  · simp [h] at hc
  · simp only [h, if_false] at hc
    exact Nat.isDigit_of_mem_toDigits (by omega) (by omega) hc

theorem sufL_inj {n n' : Nat} (h : sufL n = sufL n') : n = n' := by
  unfold sufL at h
  by_cases h0 : n = 0
  · by_cases h1 : n' = 0
    · omega
    · simp only [h0, h1, if_true, if_false] at h
      exact absurd h.symm Nat.toDigits_ne_nil
  · by_cases h1 : n' = 0
    · simp only [h0, h1, if_true, if_false] at h
      exact absurd h Nat.toDigits_ne_nil
    · simp only [h0, h1, if_false] at h
      have := congrArg (fun l => Nat.ofDigitChars 10 l 0) h
      simpa [Nat.ofDigitChars_ten_toDigits] using this

/-- a digit-free prefix followed by digits splits in one way only -/
theorem split_digits : ∀ (p p' d d' : List Char), (∀ c ∈ p, c.isDigit = false) →
    (∀ c ∈ p', c.isDigit = false) → (∀ c ∈ d, c.isDigit = true) → (∀ c ∈ d', c.isDigit = true) →
    p ++ d = p' ++ d' → p = p' ∧ d = d'
  | [], [], d, d', _, _, _, _, e => ⟨rfl, by simpa using e⟩
  | [], c :: p', d, d', _, hp', hd, _, e => by
    exfalso
    simp only [List.nil_append, List.cons_append] at e
    have h1 : c.isDigit = true := hd c (by rw [e]; simp)
    have h2 : c.isDigit = false := hp' c (by simp)
    rw [h1] at h2; cases h2
  | c :: p, [], d, d', hp, _, _, hd', e => by
    exfalso
    simp only [List.nil_append, List.cons_append] at e
    have h1 : c.isDigit = true := hd' c (by rw [← e]; simp)
    have h2 : c.isDigit = false := hp c (by simp)
    rw [h1] at h2; cases h2
  | c :: p, c' :: p', d, d', hp, hp', hd, hd', e => by
    simp only [List.cons_append, List.cons.injEq] at e
    obtain ⟨rfl, e⟩ := e
    obtain ⟨rfl, rfl⟩ := split_digits p p' d d' (fun x hx => hp x (by simp [hx]))
      (fun x hx => hp' x (by simp [hx])) hd hd' e
    exact ⟨rfl, rfl⟩

/-- **label names are injective on the labels the builder generates** (kinds 0..4) -/
theorem Lbl.name_inj {l l' : Lbl} (hk : l.kind < 5) (hk' : l'.kind < 5) (e : l.name = l'.name) : l = l' := by
  have e' := congrArg String.toList e
  rw [name_toList, name_toList] at e'
  obtain ⟨e1, e2⟩ := split_digits _ _ _ _ (prefix_nodigit l.kind) (prefix_nodigit l'.kind)
    (sufL_digit l.n) (sufL_digit l'.n) e'
  have h1 := prefix_inj l.kind hk l'.kind hk' e1
  have h2 := sufL_inj e2
  cases l; cases l'; simp_all


/-! ## the predicate on emitted commands -/

def regOK (r : Reg) : Bool := decide (r.bank < 4) && decide (r.idx < 16)

def opOK : POp → Bool
  | .reg r => regOK r
  | .entryR _ r => regOK r
  | .lab l => decide (l.kind < 5)
  | _ => true

@[simp] theorem opOK_reg (r : Reg) : opOK (.reg r) = regOK r := rfl
@[simp] theorem opOK_entryR (a : Nat) (r : Reg) : opOK (.entryR a r) = regOK r := rfl
@[simp] theorem opOK_lab (l : Lbl) : opOK (.lab l) = decide (l.kind < 5) := rfl
@[simp] theorem opOK_lit (v : Int) : opOK (.lit v) = true := rfl
@[simp] theorem opOK_addr (a : Nat) : opOK (.addr a) = true := rfl
@[simp] theorem opOK_entryL (a i : Nat) : opOK (.entryL a i) = true := rfl

/-- the operand at position `n` is a label -/
def labAt (n : Nat) (ops : List POp) : Bool :=
  match ops[n]? with
  | some (.lab _) => true
  | _ => false

/-- the branch instructions carry their target, a label, where the assembler expects it -/
def shapeOK (mn : Mn) (ops : List POp) : Bool :=
  match mn with
  | .jmp => labAt 0 ops
  | .bez | .bnz => labAt 1 ops
  | .beq | .bne | .blt | .bge => labAt 2 ops
  | _ => true

def cmdOK : PCmd → Bool
  | .label l => decide (l.kind < 5)
  | .instr mn ops => ops.all opOK && shapeOK mn ops

def isQ : Mn → Bool
  | .qalloc | .init | .meas | .qfree | .gate _ => true
  | _ => false

def isBranch : Mn → Bool
  | .jmp | .bez | .bnz | .beq | .bne | .blt | .bge => true
  | _ => false

def isQCmd : PCmd → Bool
  | .label _ => false
  | .instr mn _ => isQ mn

def AllOK (cs : List PCmd) : Prop := ∀ c ∈ cs, cmdOK c = true
def NoQ (cs : List PCmd) : Prop := ∀ c ∈ cs, isQCmd c = false

theorem AllOK.nil : AllOK [] := by intro c hc; cases hc
theorem NoQ.nil : NoQ [] := by intro c hc; cases hc

theorem AllOK.append {a b : List PCmd} (ha : AllOK a) (hb : AllOK b) : AllOK (a ++ b) := by
  intro c hc
  rcases List.mem_append.1 hc with h | h
  · exact ha c h
  · exact hb c h

theorem NoQ.append {a b : List PCmd} (ha : NoQ a) (hb : NoQ b) : NoQ (a ++ b) := by
  intro c hc
  rcases List.mem_append.1 hc with h | h
  · exact ha c h
  · exact hb c h

theorem AllOK.single {c : PCmd} (h : cmdOK c = true) : AllOK [c] := by
  intro x hx; simp at hx; subst hx; exact h

theorem NoQ.single {c : PCmd} (h : isQCmd c = false) : NoQ [c] := by
  intro x hx; simp at hx; subst hx; exact h

theorem AllOK.cons {c : PCmd} {cs : List PCmd} (h : cmdOK c = true) (hs : AllOK cs) : AllOK (c :: cs) :=
  (AllOK.single h).append hs

theorem NoQ.cons {c : PCmd} {cs : List PCmd} (h : isQCmd c = false) (hs : NoQ cs) : NoQ (c :: cs) :=
  (NoQ.single h).append hs

theorem regOK_R {t : Nat} (h : t < 16) : regOK (R t) = true := by simp [regOK, R, h]
theorem regOK_M {t : Nat} (h : t < 16) : regOK (M t) = true := by simp [regOK, M, h]
theorem regOK_Q0 : regOK Q0 = true := by decide

/-! ## the closed blocks of quantum instructions: an abstract scan

State of the scan: (`al`: the qubit with virtual id 0 is allocated, `q0`: register `Q0` holds 0).
The scan fails (`none`) where the executor could refuse the instruction. -/

def qscan : Bool × Bool → List PCmd → Option (Bool × Bool)
  | st, [] => some st
  | (al, q0), .label _ :: cs => if al then none else qscan (false, false) cs
  | (al, q0), .instr mn ops :: cs =>
    match mn with
    | .set => qscan (al, decide (ops = [.reg Q0, .lit 0])) cs
    | .qalloc => if !al && q0 && decide (ops = [.reg Q0]) then qscan (true, true) cs else none
    | .init => if q0 && decide (ops = [.reg Q0]) then qscan (al, true) cs else none
    | .gate _ => if q0 && decide (ops = [.reg Q0]) then qscan (al, true) cs else none
    | .meas =>
      match ops with
      | [.reg q, .reg r] => if q0 && decide (q = Q0) && decide (r.bank = 3) then qscan (al, true) cs else none
      | _ => none
    | .qfree => if al && q0 && decide (ops = [.reg Q0]) then qscan (false, true) cs else none
    | mn => if isBranch mn && al then none else qscan (al, false) cs

/-- scanned from "qubit free", the code passes and ends with "qubit free" -/
def QClosed (cs : List PCmd) : Prop := ∀ q, ∃ q', qscan (false, q) cs = some (false, q')

theorem qscan_append : ∀ (a b : List PCmd) (st : Bool × Bool),
    qscan st (a ++ b) = (qscan st a).bind (fun st' => qscan st' b)
  | [], b, st => by simp [qscan]
  | .label l :: cs, b, (al, q0) => by
    simp only [List.cons_append, qscan]
    cases al
    · simp [qscan_append cs b]
    · simp
  | .instr mn ops :: cs, b, (al, q0) => by
    simp only [List.cons_append, qscan]
    cases mn <;> simp only [] <;>
      first
        | exact qscan_append cs b _
        | (split <;> first | exact qscan_append cs b _ | rfl)
        | (split <;> first | (split <;> first | exact qscan_append cs b _ | rfl) | rfl)

theorem QClosed.nil : QClosed [] := fun q => ⟨q, rfl⟩

theorem QClosed.append {a b : List PCmd} (ha : QClosed a) (hb : QClosed b) : QClosed (a ++ b) := by
  intro q
  obtain ⟨q1, h1⟩ := ha q
  obtain ⟨q2, h2⟩ := hb q1
  exact ⟨q2, by rw [qscan_append, h1]; exact h2⟩

theorem QClosed.of_noQ : ∀ {cs : List PCmd}, NoQ cs → QClosed cs
  | [], _ => QClosed.nil
  | .label l :: cs, h => by
    intro q
    have ih := QClosed.of_noQ (cs := cs) (fun c hc => h c (by simp [hc]))
    obtain ⟨q', hq⟩ := ih false
    exact ⟨q', by simpa [qscan] using hq⟩
  | .instr mn ops :: cs, h => by
    intro q
    have ih := QClosed.of_noQ (cs := cs) (fun c hc => h c (by simp [hc]))
    have hm : isQ mn = false := by simpa [isQCmd] using h (.instr mn ops) (by simp)
    cases mn <;> simp [isQ] at hm <;> simp only [qscan, isBranch, Bool.and_false, Bool.false_eq_true, if_false] <;>
      exact ih _


/-! ## the invariant of the memory manager -/

structure MemOK (m : Mem) : Prop where
  act : m.active.length = 16
  mu : m.measUsed.length = 16
  lbl : m.lbl.length = 5
  hnd : ∀ x ∈ m.handles, regOK x.1 = true
  rret : ∀ r ∈ m.regsToReturn, regOK r = true

theorem memOK_init : MemOK Mem.init :=
  ⟨by simp [Mem.init], by simp [Mem.init], rfl, by simp [Mem.init], by simp [Mem.init]⟩

theorem MemOK.of_same {m m' : Mem} (ok : MemOK m) (h : SameBut m m') (hl : m'.active.length = m.active.length) :
    MemOK m' :=
  ⟨by rw [hl]; exact ok.act, by rw [h.meas]; exact ok.mu, by rw [h.lbl]; exact ok.lbl,
   by rw [h.handles]; exact ok.hnd, by rw [h.rret]; exact ok.rret⟩

theorem MemOK.of_sameL {m m' : Mem} (ok : MemOK m) (h : SameButL m m') (hl : m'.active.length = m.active.length)
    (hb : m'.lbl.length = 5) : MemOK m' :=
  ⟨by rw [hl]; exact ok.act, by rw [h.meas]; exact ok.mu, hb,
   by rw [h.handles]; exact ok.hnd, by rw [h.rret]; exact ok.rret⟩

theorem MemOK.bind {m : Mem} (ok : MemOK m) {r : Reg} (hr : regOK r = true) (b : Bool) : MemOK (bindHandle m r b) :=
  ⟨ok.act, ok.mu, ok.lbl, by
    intro x hx
    simp only [bindHandle, List.mem_append, List.mem_singleton] at hx
    rcases hx with hx | hx
    · exact ok.hnd x hx
    · subst hx; exact hr, ok.rret⟩

theorem activate_len {m m' : Mem} {i : Nat} (h : activate m i = .ok m') : m'.active.length = m.active.length := by
  rw [(activate_spec h).2.1]; simp

theorem release_len {m m' : Mem} {i : Nat} (h : release m i = .ok m') : m'.active.length = m.active.length := by
  rw [(release_spec h).2.1]; simp

theorem releaseOpt_len {m m' : Mem} {t : Option Nat} (h : releaseOpt m t = .ok m') :
    m'.active.length = m.active.length := by
  cases t with
  | none => simp [releaseOpt] at h; subst h; rfl
  | some t => exact release_len h

theorem takeReg_len {m m' : Mem} {i : Nat} (h : takeReg m = .ok (m', i)) :
    m'.active.length = m.active.length ∧ i < m.active.length := by
  have := takeReg_spec h
  exact ⟨by rw [this.2.1]; simp, getD_true_false_lt this.1⟩

theorem takeAt_len {m m' : Mem} {rg : Option Nat} {i : Nat} (h : takeAt m rg = .ok (m', i)) :
    m'.active.length = m.active.length ∧ i < m.active.length := by
  have := takeAt_spec h
  exact ⟨by rw [this.2.1]; simp, getD_true_false_lt this.1⟩

theorem MemOK.activate {m m' : Mem} {i : Nat} (ok : MemOK m) (h : activate m i = .ok m') : MemOK m' :=
  ok.of_same (activate_same h) (activate_len h)
theorem MemOK.release {m m' : Mem} {i : Nat} (ok : MemOK m) (h : release m i = .ok m') : MemOK m' :=
  ok.of_same (release_same h) (release_len h)
theorem MemOK.releaseOpt {m m' : Mem} {t : Option Nat} (ok : MemOK m) (h : releaseOpt m t = .ok m') : MemOK m' :=
  ok.of_same (releaseOpt_same h) (releaseOpt_len h)
theorem MemOK.takeReg {m m' : Mem} {i : Nat} (ok : MemOK m) (h : takeReg m = .ok (m', i)) :
    MemOK m' ∧ i < 16 :=
  ⟨ok.of_same (takeReg_same h) (takeReg_len h).1, by have := (takeReg_len h).2; rw [ok.act] at this; exact this⟩
theorem MemOK.takeAt {m m' : Mem} {rg : Option Nat} {i : Nat} (ok : MemOK m) (h : takeAt m rg = .ok (m', i)) :
    MemOK m' ∧ i < 16 :=
  ⟨ok.of_same (takeAt_same h) (takeAt_len h).1, by have := (takeAt_len h).2; rw [ok.act] at this; exact this⟩

theorem MemOK.handle {m : Mem} (ok : MemOK m) {h : Nat} {r : Reg} {b : Bool} (hh : handle m h = .ok (r, b)) :
    regOK r = true := by
  unfold Sdk.handle at hh
  split at hh
  · rename_i x hx
    cases hh
    exact ok.hnd _ (List.mem_of_getElem? hx)
  · cases hh

theorem cmdOK_access (st : Bool) {r : Reg} (hr : regOK r = true) {e : POp} (he : opOK e = true) :
    cmdOK (.instr (accessMn st) [.reg r, e]) = true ∧ isQCmd (.instr (accessMn st) [.reg r, e]) = false := by
  cases st <;> simp [cmdOK, accessMn, hr, he, shapeOK, isQCmd, isQ]

/-! ## the helpers of the builder -/

theorem accessCmds_ok : ∀ (f : Fut) (m : Mem) (st : Bool) (r : Reg) (m' : Mem) (cs : List PCmd),
    MemOK m → regOK r = true → accessCmds m st r f = .ok (m', cs) → AllOK cs ∧ NoQ cs
  | .lit a i, m, st, r, m', cs, ok, hr, h => by
    simp [accessCmds] at h
    rw [← h.2]
    have := cmdOK_access st hr (e := .entryL a i) rfl
    exact ⟨AllOK.single this.1, NoQ.single this.2⟩
  | .reg a hh, m, st, r, m', cs, ok, hr, h => by
    unfold accessCmds at h
    split at h
    · cases h
    · rename_i ir b hir
      cases h
      have := cmdOK_access st hr (e := .entryR a ir) (by simpa [opOK] using ok.handle hir)
      exact ⟨AllOK.single this.1, NoQ.single this.2⟩
  | .fut a f, m, st, r, m', cs, ok, hr, h => by
    unfold accessCmds at h
    split at h
    · cases h
    · rename_i t ht
      split at h
      · cases h
      · rename_i m1 h1
        split at h
        · cases h
        · rename_i m2 cs2 h2
          split at h
          · cases h
          · rename_i m3 h3
            cases h
            have ht16 : t < 16 := by
              have := getD_true_false_lt (getInactive_spec ht); rw [ok.act] at this; exact this
            have ih := accessCmds_ok f m1 false (R t) m2 cs2 (ok.activate h1) (regOK_R ht16) h2
            have := cmdOK_access st hr (e := .entryR a (R t)) (by simpa [opOK] using regOK_R ht16)
            exact ⟨ih.1.append (AllOK.single this.1), ih.2.append (NoQ.single this.2)⟩

theorem MemOK.access {f : Fut} {m m' : Mem} {st : Bool} {r : Reg} {cs : List PCmd} (ok : MemOK m)
    (h : accessCmds m st r f = .ok (m', cs)) : MemOK m' :=
  ok.of_same (accessCmds_same _ _ _ _ _ _ h) (by rw [accessCmds_active _ _ _ _ _ _ h])

theorem addressEntry_ok {m : Mem} {f : Fut} {e : POp} (ok : MemOK m) (h : addressEntry m f = .ok e) :
    opOK e = true := by
  cases f with
  | lit a i => simp [addressEntry] at h; subst h; rfl
  | reg a hh =>
    simp only [addressEntry] at h
    split at h
    · cases h
    · rename_i ir b hir
      cases h
      simpa [opOK] using ok.handle hir
  | fut a f => simp [addressEntry] at h

theorem condOperand_ok {m m1 : Mem} {v : Val} {cs : List PCmd} {o : POp} {t : Option Nat} (ok : MemOK m)
    (h : condOperand m v = .ok (m1, cs, o, t)) : MemOK m1 ∧ AllOK cs ∧ NoQ cs ∧ opOK o = true := by
  have okm : MemOK m1 := ok.of_same (condOperand_same h) (by
    have := condOperand_took h
    cases t with
    | none => simp only [Took] at this; rw [this]
    | some t => simp only [Took] at this; rw [this.2]; simp)
  refine ⟨okm, ?_⟩
  cases v with
  | lit x =>
    simp [condOperand] at h
    obtain ⟨_, rfl, rfl, _⟩ := h
    exact ⟨AllOK.nil, NoQ.nil, rfl⟩
  | reg hh =>
    simp only [condOperand] at h
    split at h
    · cases h
    · rename_i r b hr
      split at h
      · cases h
        exact ⟨AllOK.nil, NoQ.nil, by simpa [opOK] using ok.handle hr⟩
      · cases h
  | fut f =>
    simp only [condOperand] at h
    split at h
    · cases h
    · rename_i m2 t2 h2
      split at h
      · cases h
      · rename_i ent hent
        cases h
        obtain ⟨ok2, ht⟩ := ok.takeReg h2
        have he := addressEntry_ok ok2 hent
        have hrt := regOK_R ht
        exact ⟨AllOK.single (by simp [cmdOK, hrt, he, shapeOK]), NoQ.single rfl, by simpa [opOK] using hrt⟩

theorem addOther_ok {m m1 : Mem} {v : Val} {cs : List PCmd} {o : POp} {t : Option Nat} (ok : MemOK m)
    (h : addOther m v = .ok (m1, cs, o, t)) : MemOK m1 ∧ AllOK cs ∧ NoQ cs ∧ opOK o = true := by
  have okm : MemOK m1 := ok.of_same (addOther_same h) (by
    have := addOther_took h
    cases t with
    | none => simp only [Took] at this; rw [this]
    | some t => simp only [Took] at this; rw [this.2]; simp)
  refine ⟨okm, ?_⟩
  cases v with
  | lit x =>
    simp [addOther] at h
    obtain ⟨_, rfl, rfl, _⟩ := h
    exact ⟨AllOK.nil, NoQ.nil, rfl⟩
  | reg hh =>
    simp only [addOther] at h
    split at h
    · cases h
    · rename_i r b hr
      split at h
      · cases h
      · cases h
        exact ⟨AllOK.nil, NoQ.nil, by simpa [opOK] using ok.handle hr⟩
  | fut g =>
    simp only [addOther] at h
    split at h
    · cases h
    · rename_i m2 t2 h2
      split at h
      · cases h
      · rename_i m3 ld h3
        cases h
        obtain ⟨ok2, ht⟩ := ok.takeReg h2
        have := accessCmds_ok g m2 false (R t2) _ _ ok2 (regOK_R ht) h3
        exact ⟨this.1, this.2, by simpa [opOK] using regOK_R ht⟩

theorem addInstr_ok {r : Reg} (hr : regOK r = true) {o : POp} (ho : opOK o = true) (md : Option Int) :
    cmdOK (addInstr r o md) = true ∧ isQCmd (addInstr r o md) = false := by
  cases md <;> simp [addInstr, cmdOK, hr, ho, shapeOK, isQCmd, isQ]

theorem emitAddF_ok {m m' : Mem} {f : Fut} {o : Val} {md : Option Int} {cs : List PCmd} (ok : MemOK m)
    (h : emitAddF m f o md = .ok (m', cs)) : MemOK m' ∧ AllOK cs ∧ NoQ cs := by
  refine ⟨ok.of_same (emitAddF_same h) (by rw [emitAddF_active h]), ?_⟩
  unfold emitAddF at h
  split at h
  · cases h
  · rename_i m1 t h1
    split at h
    · cases h
    · rename_i m2 ld h2
      split at h
      · cases h
      · rename_i m3 st h3
        split at h
        · cases h
        · rename_i m4 ld2 oo tmp2 h4
          split at h
          · cases h
          · rename_i m5 h5
            split at h
            · cases h
            · rename_i m6 h6
              cases h
              obtain ⟨ok1, ht⟩ := ok.takeReg h1
              have hrt := regOK_R ht
              have a2 := accessCmds_ok f m1 false (R t) _ _ ok1 hrt h2
              have ok2 := ok1.access h2
              have a3 := accessCmds_ok f m2 true (R t) _ _ ok2 hrt h3
              have ok3 := ok2.access h3
              obtain ⟨_, b1, b2, b3⟩ := addOther_ok ok3 h4
              have c := addInstr_ok hrt b3 md
              exact ⟨((a2.1.append b1).append (AllOK.single c.1)).append a3.1,
                ((a2.2.append b2).append (NoQ.single c.2)).append a3.2⟩

theorem emitAddR_ok {m m' : Mem} {hh : Nat} {o : Val} {md : Option Int} {cs : List PCmd} (ok : MemOK m)
    (h : emitAddR m hh o md = .ok (m', cs)) : MemOK m' ∧ AllOK cs ∧ NoQ cs := by
  refine ⟨ok.of_same (emitAddR_same h) (by rw [emitAddR_active h]), ?_⟩
  unfold emitAddR at h
  split at h
  · cases h
  · rename_i r b hr
    split at h
    · cases h
    · split at h
      · cases h
      · rename_i m1 ld2 oo tmp2 h1
        split at h
        · cases h
        · rename_i m2 h2
          cases h
          obtain ⟨_, b1, b2, b3⟩ := addOther_ok ok h1
          have c := addInstr_ok (ok.handle hr) b3 md
          exact ⟨b1.append (AllOK.single c.1), b2.append (NoQ.single c.2)⟩

theorem negBranch_shape1 {c : Cond} (hc : c.unary = true) (oa : POp) (l : Lbl) :
    shapeOK (negBranch c) [oa, .lab l] = true ∧ isQ (negBranch c) = false := by
  cases c <;> simp [Cond.unary] at hc <;> simp [negBranch, shapeOK, labAt, isQ]

theorem negBranch_shape2 {c : Cond} (hc : ¬ c.unary = true) (oa ob : POp) (l : Lbl) :
    shapeOK (negBranch c) [oa, ob, .lab l] = true ∧ isQ (negBranch c) = false := by
  cases c <;> simp [Cond.unary] at hc <;> simp [negBranch, shapeOK, labAt, isQ]

theorem branchCmds_ok {m m' : Mem} {c : Cond} {a b : Val} {cs : List PCmd} {l : Lbl} (ok : MemOK m)
    (h : branchCmds m c a b = .ok (m', cs, l)) : AllOK cs ∧ NoQ cs ∧ l.kind = 0 := by
  have hl : l.kind = 0 := by rw [(branchCmds_lbl h).2.1]; rfl
  have ok0 : MemOK (newLabel m 0).1 :=
    ok.of_sameL (newLabel_sameL m 0) rfl (by simp [newLabel, ok.lbl])
  unfold branchCmds at h
  simp only at h
  split at h
  · rename_i hu
    split at h
    · cases h
    · rename_i m1 cs1 oa ta h1
      split at h
      · cases h
      · rename_i m2 h2
        cases h
        obtain ⟨_, a1, a2, a3⟩ := condOperand_ok ok0 h1
        have sh := negBranch_shape1 hu oa (newLabel m 0).2
        refine ⟨a1.append (AllOK.single ?_), a2.append (NoQ.single (by simpa [isQCmd] using sh.2)), hl⟩
        simp [cmdOK, a3, sh.1, hl]
  · rename_i hu
    split at h
    · cases h
    · rename_i m1 ca oa ta h1
      split at h
      · cases h
      · rename_i m2 cb ob tb h2
        split at h
        · cases h
        · rename_i m3 h3
          split at h
          · cases h
          · rename_i m4 h4
            cases h
            obtain ⟨ok1, a1, a2, a3⟩ := condOperand_ok ok0 h1
            obtain ⟨_, b1, b2, b3⟩ := condOperand_ok ok1 h2
            have sh := negBranch_shape2 hu oa ob (newLabel m 0).2
            refine ⟨(a1.append b1).append (AllOK.single ?_),
              (a2.append b2).append (NoQ.single (by simpa [isQCmd] using sh.2)), hl⟩
            simp [cmdOK, a3, b3, sh.1, hl]

theorem QClosed.label (l : Lbl) : QClosed [.label l] := QClosed.of_noQ (NoQ.single rfl)

theorem buildCondition_ok {m m' : Mem} {c : Cond} {a b : Val} {body cs : List PCmd} (ok : MemOK m)
    (hb : AllOK body) (hq : QClosed body) (h : buildCondition m c a b body = .ok (m', cs)) :
    AllOK cs ∧ QClosed cs := by
  unfold buildCondition at h
  split at h
  · cases h; exact ⟨AllOK.nil, QClosed.nil⟩
  · split at h
    · cases h
    · rename_i m1 st l h1
      cases h
      obtain ⟨a1, a2, a3⟩ := branchCmds_ok ok h1
      exact ⟨(a1.append hb).append (AllOK.single (by simp [cmdOK, a3])),
        ((QClosed.of_noQ a2).append hq).append (QClosed.label l)⟩

theorem buildLoop_ok (m : Mem) (s e d : Int) {r : Reg} (hr : regOK r = true) {body : List PCmd}
    (hb : AllOK body) (hq : QClosed body) :
    AllOK (buildLoop m s e d r body).2 ∧ QClosed (buildLoop m s e d r body).2 := by
  unfold buildLoop
  split
  · exact ⟨AllOK.nil, QClosed.nil⟩
  · simp only
    constructor
    · refine (AllOK.append (AllOK.append ?_ hb) ?_)
      · intro c hc
        simp only [List.mem_cons, List.mem_nil_iff, or_false] at hc
        rcases hc with rfl | rfl | rfl <;> simp [cmdOK, hr, shapeOK, labAt, newLabel]
      · intro c hc
        simp only [List.mem_cons, List.mem_nil_iff, or_false] at hc
        rcases hc with rfl | rfl | rfl <;> simp [cmdOK, hr, shapeOK, labAt, newLabel]
    · refine (QClosed.append (QClosed.append (QClosed.of_noQ ?_) hq) (QClosed.of_noQ ?_))
      · intro c hc
        simp only [List.mem_cons, List.mem_nil_iff, or_false] at hc
        rcases hc with rfl | rfl | rfl <;> rfl
      · intro c hc
        simp only [List.mem_cons, List.mem_nil_iff, or_false] at hc
        rcases hc with rfl | rfl | rfl <;> rfl

theorem breakCmds_ok {m m' : Mem} {ef : Val} {ev : Int} {lx : Lbl} {cs : List PCmd} (ok : MemOK m)
    (hl : lx.kind < 5) (h : breakCmds m ef ev lx = .ok (m', cs)) : AllOK cs ∧ NoQ cs := by
  unfold breakCmds at h
  split at h
  · cases h
  · rename_i m1 cs1 o t h1
    split at h
    · cases h
    · cases h
      obtain ⟨_, a1, a2, a3⟩ := condOperand_ok ok h1
      exact ⟨a1.append (AllOK.single (by simp [cmdOK, a3, hl, shapeOK, labAt])), a2.append (NoQ.single rfl)⟩

/-! ## a measurement block -/

theorem gateCmds_ok : ∀ gs, AllOK (gateCmds gs)
  | [] => AllOK.nil
  | g :: gs => by
    simp only [gateCmds]
    refine AllOK.append ?_ (gateCmds_ok gs)
    intro c hc
    simp only [List.mem_cons, List.mem_nil_iff, or_false] at hc
    rcases hc with rfl | rfl <;> simp [cmdOK, regOK_Q0, shapeOK]

theorem gateCmds_scan : ∀ gs (al q : Bool), qscan (al, q) (gateCmds gs ++ [.instr .set [.reg Q0, .lit 0]]) = some (al, true)
  | [], al, q => by simp [gateCmds, qscan]
  | g :: gs, al, q => by
    simp only [gateCmds, List.cons_append, List.nil_append, qscan]
    simp only [decide_true, Bool.true_and, if_true]
    exact gateCmds_scan gs al true

/-- the commands of `Qubit(conn); gates; measure` up to the `qfree` -/
theorem qopHead_closed (gs : List Nat) {k : Nat} :
    QClosed ([.instr .set [.reg Q0, .lit 0], .instr .qalloc [.reg Q0], .instr .init [.reg Q0]] ++ gateCmds gs ++
      [.instr .set [.reg Q0, .lit 0], .instr .meas [.reg Q0, .reg (M k)], .instr .qfree [.reg Q0]]) := by
  intro q
  refine ⟨true, ?_⟩
  have e : ([PCmd.instr .set [.reg Q0, .lit 0], .instr .qalloc [.reg Q0], .instr .init [.reg Q0]] ++ gateCmds gs ++
      [.instr .set [.reg Q0, .lit 0], .instr .meas [.reg Q0, .reg (M k)], .instr .qfree [.reg Q0]]) =
      [PCmd.instr .set [.reg Q0, .lit 0], .instr .qalloc [.reg Q0], .instr .init [.reg Q0]] ++
        ((gateCmds gs ++ [.instr .set [.reg Q0, .lit 0]]) ++ [.instr .meas [.reg Q0, .reg (M k)], .instr .qfree [.reg Q0]]) := by
    simp
  rw [e, qscan_append]
  have h1 : qscan (false, q) [PCmd.instr .set [.reg Q0, .lit 0], .instr .qalloc [.reg Q0], .instr .init [.reg Q0]]
      = some (true, true) := by simp [qscan]
  rw [h1]
  simp only [Option.bind]
  rw [qscan_append, gateCmds_scan gs true true]
  simp [qscan, M]

theorem qopHead_ok (gs : List Nat) {k : Nat} (hk : k < 16) :
    AllOK ([.instr .set [.reg Q0, .lit 0], .instr .qalloc [.reg Q0], .instr .init [.reg Q0]] ++ gateCmds gs ++
      [.instr .set [.reg Q0, .lit 0], .instr .meas [.reg Q0, .reg (M k)], .instr .qfree [.reg Q0]]) := by
  refine AllOK.append (AllOK.append ?_ (gateCmds_ok gs)) ?_
  · intro c hc
    simp only [List.mem_cons, List.mem_nil_iff, or_false] at hc
    rcases hc with rfl | rfl | rfl <;> simp [cmdOK, regOK_Q0, shapeOK]
  · intro c hc
    simp only [List.mem_cons, List.mem_nil_iff, or_false] at hc
    rcases hc with rfl | rfl | rfl <;> simp [cmdOK, regOK_Q0, regOK_M hk, shapeOK]

theorem firstUnusedMeas_lt {m m' : Mem} {k : Nat} (ok : MemOK m) (h : firstUnusedMeas m = .ok (m', k)) : k < 16 := by
  have := getD_true_false_lt (firstUnusedMeas_spec h).1
  rw [ok.mu] at this; exact this

theorem MemOK.withArr {m : Mem} (ok : MemOK m) (l : List Nat) (d : List ArrDecl) :
    MemOK ({ m with arrLens := l, arraysToReturn := d } : Mem) := ⟨ok.act, ok.mu, ok.lbl, ok.hnd, ok.rret⟩

theorem MemOK.withRet {m : Mem} (ok : MemOK m) {r : Reg} (hr : regOK r = true) :
    MemOK ({ m with regsToReturn := m.regsToReturn ++ [r] } : Mem) :=
  ⟨ok.act, ok.mu, ok.lbl, ok.hnd, by
    intro x hx
    simp only [List.mem_append, List.mem_singleton] at hx
    rcases hx with hx | rfl
    · exact ok.rret x hx
    · exact hr⟩

theorem MemOK.firstUnusedMeas {m m' : Mem} {k : Nat} (ok : MemOK m) (h : firstUnusedMeas m = .ok (m', k)) :
    MemOK m' ∧ k < 16 := by
  have hk := firstUnusedMeas_lt ok h
  obtain ⟨_, rfl⟩ := firstUnusedMeas_spec h
  exact ⟨⟨ok.act, by simp [ok.mu], ok.lbl, ok.hnd, ok.rret⟩, hk⟩

theorem MemOK.clearMeas {m : Mem} (ok : MemOK m) (k : Nat) :
    MemOK ({ m with measUsed := m.measUsed.set k false } : Mem) :=
  ⟨ok.act, by simp [ok.mu], ok.lbl, ok.hnd, ok.rret⟩

theorem emitQop_ok {m m' : Mem} {g : List Nat} {tgt : MTgt} {cs : List PCmd} (ok : MemOK m)
    (h : emitQop m g tgt = .ok (m', cs)) : MemOK m' ∧ AllOK cs ∧ QClosed cs := by
  unfold emitQop at h
  cases tgt with
  | newFut =>
    simp only at h
    split at h
    · cases h
    · rename_i m1 k h1
      obtain ⟨ok1, hk⟩ := (ok.withArr _ _).firstUnusedMeas h1
      split at h
      · cases h
      · rename_i m2 st h2
        cases h
        have a := accessCmds_ok _ _ true (M k) _ _ ok1 (regOK_M hk) h2
        exact ⟨(ok1.access h2).clearMeas k, (qopHead_ok g hk).append a.1,
          (qopHead_closed g).append (QClosed.of_noQ a.2)⟩
  | fut f =>
    simp only at h
    split at h
    · cases h
    · rename_i m1 k h1
      obtain ⟨ok1, hk⟩ := ok.firstUnusedMeas h1
      split at h
      · cases h
      · rename_i m2 st h2
        cases h
        have a := accessCmds_ok _ _ true (M k) _ _ ok1 (regOK_M hk) h2
        exact ⟨(ok1.access h2).clearMeas k, (qopHead_ok g hk).append a.1,
          (qopHead_closed g).append (QClosed.of_noQ a.2)⟩
  | newReg =>
    simp only at h
    split at h
    · cases h
    · rename_i m1 k h1
      obtain ⟨ok1, hk⟩ := ok.firstUnusedMeas h1
      cases h
      refine ⟨?_, qopHead_ok g hk, qopHead_closed g⟩
      exact (ok1.withRet (regOK_M hk)).bind (regOK_M hk) true

theorem emitEprH_len : ∀ (evs : List EprEv) (m : Mem) (held : List Nat) (m' : Mem) (held' : List Nat),
    emitEprH m held evs = .ok (m', held') → m'.active.length = m.active.length
  | [], m, held, m', held', h => by simp [emitEprH] at h; rw [h.1]
  | .take :: es, m, held, m', held', h => by
    simp only [emitEprH] at h
    split at h
    · cases h
    · rename_i m1 i h1
      rw [emitEprH_len es _ _ _ _ h, (takeReg_len h1).1]
  | .rel p :: es, m, held, m', held', h => by
    simp only [emitEprH] at h
    split at h
    · cases h
    · rename_i i hi
      split at h
      · cases h
      · rename_i m1 h1
        rw [emitEprH_len es _ _ _ _ h, release_len h1]


/-! ## `emit` -/

/-- what is known of the commands of one operation (or one subroutine) -/
structure CodeOK (cs : List PCmd) : Prop where
  all : AllOK cs
  closed : QClosed cs

theorem CodeOK.nil : CodeOK [] := ⟨AllOK.nil, QClosed.nil⟩
theorem CodeOK.append {a b : List PCmd} (ha : CodeOK a) (hb : CodeOK b) : CodeOK (a ++ b) :=
  ⟨ha.all.append hb.all, ha.closed.append hb.closed⟩
theorem CodeOK.of_noQ {cs : List PCmd} (h : AllOK cs) (hq : NoQ cs) : CodeOK cs := ⟨h, QClosed.of_noQ hq⟩

theorem loopShape_ok {m2 m4 : Mem} {i : Nat} {s e d : Int} {cs : List PCmd}
    (ok2 : MemOK m2) (hi : i < 16) (hc : CodeOK cs)
    (h4 : release (buildLoop m2 s e d (R i) cs).1 i = .ok m4) :
    MemOK m4 ∧ CodeOK (buildLoop m2 s e d (R i) cs).2 := by
  have hb := buildLoop_ok m2 s e d (regOK_R hi) hc.all hc.closed
  have ok3 : MemOK (buildLoop m2 s e d (R i) cs).1 :=
    ok2.of_sameL (buildLoop_sameL m2 s e d (R i) cs) (by rw [buildLoop_active])
      (by unfold buildLoop; split <;> simp [newLabel, ok2.lbl])
  exact ⟨ok3.release h4, ⟨hb.1, hb.2⟩⟩

theorem emit_ok : ∀ (op : Host) (m m' : Mem) (cs : List PCmd), MemOK m →
    emit m op = .ok (m', cs) → MemOK m' ∧ CodeOK cs := by
  intro op
  induction op with
  | skip => intro m m' cs ok h; simp [emit] at h; obtain ⟨rfl, rfl⟩ := h; exact ⟨ok, CodeOK.nil⟩
  | seq a b iha ihb =>
    intro m m' cs ok h
    simp only [emit] at h
    split at h
    · cases h
    · rename_i m1 ca h1
      split at h
      · cases h
      · rename_i m2 cb h2
        cases h
        obtain ⟨ok1, c1⟩ := iha _ _ _ ok h1
        obtain ⟨ok2, c2⟩ := ihb _ _ _ ok1 h2
        exact ⟨ok2, c1.append c2⟩
  | newArray len init =>
    intro m m' cs ok h
    simp only [emit] at h
    split at h <;> (split at h; cases h; cases h; exact ⟨ok.withArr _ _, CodeOK.nil⟩)
  | newReg v =>
    intro m m' cs ok h
    simp only [emit] at h
    split at h
    · cases h
    · rename_i m1 i h1
      cases h
      obtain ⟨ok1, hi⟩ := ok.takeReg h1
      have hr := regOK_R hi
      exact ⟨(ok1.withRet hr).bind hr true,
        CodeOK.of_noQ (AllOK.single (by simp [cmdOK, hr, shapeOK])) (NoQ.single rfl)⟩
  | qop g t =>
    intro m m' cs ok h
    simp only [emit] at h
    obtain ⟨a, b, c⟩ := emitQop_ok ok h
    exact ⟨a, b, c⟩
  | addF f o md =>
    intro m m' cs ok h
    simp only [emit] at h
    obtain ⟨a, b, c⟩ := emitAddF_ok ok h
    exact ⟨a, CodeOK.of_noQ b c⟩
  | addR hh o md =>
    intro m m' cs ok h
    simp only [emit] at h
    obtain ⟨a, b, c⟩ := emitAddR_ok ok h
    exact ⟨a, CodeOK.of_noQ b c⟩
  | ifc cb c a b body ih =>
    intro m m' cs ok h
    simp only [emit] at h
    split at h
    · cases h
    · rename_i m1 bc h1
      obtain ⟨ok1, c1⟩ := ih _ _ _ ok h1
      have := buildCondition_ok ok1 c1.all c1.closed h
      refine ⟨ok1.of_sameL (buildCondition_sameL h) (by rw [buildCondition_active h]) ?_, ⟨this.1, this.2⟩⟩
      exact (buildCondition_fresh (emit_fresh _ _ _ _ ok.lbl h1) h).len
  | loop rg s e d body ih =>
    intro m m' cs ok h
    simp only [emit] at h
    split at h
    · cases h
    · rename_i m1 i h1
      split at h
      · cases h
      · rename_i m2 bc h2
        split at h
        · cases h
        · rename_i m4 h4
          cases h
          obtain ⟨ok1, hi⟩ := ok.takeAt h1
          obtain ⟨ok2, c2⟩ := ih _ _ _ (ok1.bind (regOK_R hi) false) h2
          exact loopShape_ok ok2 hi c2 h4
  | loopBody rg s e d body ih =>
    intro m m' cs ok h
    simp only [emit] at h
    split at h
    · cases h
    · rename_i m1 i h1
      split at h
      · cases h
      · rename_i m2 bc h2
        split at h
        · cases h
        · rename_i m4 h4
          cases h
          obtain ⟨ok1, hi⟩ := ok.takeAt h1
          obtain ⟨ok2, c2⟩ := ih _ _ _ (ok1.bind (regOK_R hi) true) h2
          exact loopShape_ok ok2 hi c2 h4
  | foreach arr wi body ih =>
    intro m m' cs ok h
    simp only [emit] at h
    split at h
    · cases h
    · split at h
      · cases h
      · rename_i m1 i h1
        split at h
        · cases h
        · rename_i m2 bc h2
          split at h
          · cases h
          · rename_i m4 h4
            cases h
            obtain ⟨ok1, hi⟩ := ok.takeReg h1
            obtain ⟨ok2, c2⟩ := ih _ _ _ (ok1.bind (regOK_R hi) false) h2
            exact loopShape_ok ok2 hi c2 h4
  | loopUntil n body ef ev cl ihb ihc =>
    intro m m' cs ok h
    simp only [emit] at h
    split at h
    · cases h
    · rename_i m1 i h1
      obtain ⟨ok1, hi⟩ := ok.takeReg h1
      have hr := regOK_R hi
      split at h
      · cases h
      · rename_i m2 bc h2
        obtain ⟨ok2, c2⟩ := ihb _ _ _ (ok1.bind hr true) h2
        split at h
        · split at h
          · cases h
          · rename_i m3 h3
            cases h
            exact ⟨ok2.release h3, CodeOK.nil⟩
        · split at h
          · cases h
          · rename_i m5 brk h5
            split at h
            · cases h
            · rename_i m6 clc h6
              split at h
              · cases h
              · rename_i m7 h7
                cases h
                have ok3 : MemOK (newLabel m2 3).1 :=
                  ok2.of_sameL (newLabel_sameL m2 3) rfl (by simp [newLabel, ok2.lbl])
                have ok4 : MemOK (newLabel (newLabel m2 3).1 4).1 :=
                  ok3.of_sameL (newLabel_sameL _ 4) rfl (by simp [newLabel, ok2.lbl])
                have b := breakCmds_ok (lx := (newLabel (newLabel m2 3).1 4).2) ok4 (by simp [newLabel]) h5
                have ok5 : MemOK m5 := ok4.of_same (breakCmds_same h5) (by rw [breakCmds_active h5])
                obtain ⟨ok6, c6⟩ := ihc _ _ _ ok5 h6
                refine ⟨ok6.release h7, ?_⟩
                have e1 : CodeOK (loopUntilEntry (R i) n (newLabel m2 3).2 (newLabel (newLabel m2 3).1 4).2) := by
                  refine CodeOK.of_noQ ?_ ?_
                  · intro c hc
                    simp only [loopUntilEntry, List.mem_cons, List.mem_nil_iff, or_false] at hc
                    rcases hc with rfl | rfl | rfl <;> simp [cmdOK, hr, shapeOK, labAt, newLabel]
                  · intro c hc
                    simp only [loopUntilEntry, List.mem_cons, List.mem_nil_iff, or_false] at hc
                    rcases hc with rfl | rfl | rfl <;> rfl
                have e2 : CodeOK (loopUntilExit (R i) (newLabel m2 3).2 (newLabel (newLabel m2 3).1 4).2) := by
                  refine CodeOK.of_noQ ?_ ?_
                  · intro c hc
                    simp only [loopUntilExit, List.mem_cons, List.mem_nil_iff, or_false] at hc
                    rcases hc with rfl | rfl | rfl <;> simp [cmdOK, hr, shapeOK, labAt, newLabel]
                  · intro c hc
                    simp only [loopUntilExit, List.mem_cons, List.mem_nil_iff, or_false] at hc
                    rcases hc with rfl | rfl | rfl <;> rfl
                exact (((e1.append c2).append (CodeOK.of_noQ b.1 b.2)).append c6).append e2
  | tryUntil n body ih =>
    intro m m' cs ok h
    simp only [emit] at h
    exact ih _ _ _ ok h
  | epr evs =>
    intro m m' cs ok h
    simp only [emit] at h
    split at h
    · cases h
    · rename_i m1 held' h1
      cases h
      exact ⟨ok.of_same (emitEprH_same _ _ _ _ _ h1) (emitEprH_len _ _ _ _ _ h1), CodeOK.nil⟩

theorem emitOps_ok : ∀ (ops : List Host) (m m' : Mem) (cs : List PCmd), MemOK m →
    emitOps m ops = .ok (m', cs) → MemOK m' ∧ CodeOK cs
  | [], m, m', cs, ok, h => by simp [emitOps] at h; obtain ⟨rfl, rfl⟩ := h; exact ⟨ok, CodeOK.nil⟩
  | op :: ops, m, m', cs, ok, h => by
    simp only [emitOps] at h
    split at h
    · cases h
    · rename_i m1 c1 h1
      split at h
      · cases h
      · rename_i m2 c2 h2
        cases h
        obtain ⟨ok1, a⟩ := emit_ok op _ _ _ ok h1
        obtain ⟨ok2, b⟩ := emitOps_ok ops _ _ _ ok1 h2
        exact ⟨ok2, a.append b⟩

/-! ## `flush` -/

theorem storeInits_ok (a : Nat) : ∀ (vs : List (Option Int)) (i : Nat),
    AllOK (storeInits a i vs) ∧ NoQ (storeInits a i vs)
  | [], i => ⟨AllOK.nil, NoQ.nil⟩
  | none :: vs, i => by simpa [storeInits] using storeInits_ok a vs (i + 1)
  | some v :: vs, i => by
    have := storeInits_ok a vs (i + 1)
    simp only [storeInits]
    exact ⟨AllOK.cons (by simp [cmdOK, shapeOK]) this.1, NoQ.cons rfl this.2⟩

theorem initArray_ok {m m' : Mem} {pend out : List PCmd} {d : ArrDecl} (ok : MemOK m)
    (hp : AllOK pend ∧ NoQ pend) (h : initArray m pend d = .ok (m', out)) :
    MemOK m' ∧ AllOK out ∧ NoQ out := by
  have hdecl : cmdOK (.instr .array [.lit d.len, .addr d.addr]) = true := by simp [cmdOK, shapeOK]
  unfold initArray at h
  simp only at h
  split at h
  · cases h
    exact ⟨ok, hp.1.append (AllOK.single hdecl), hp.2.append (NoQ.single rfl)⟩
  · rename_i vs hvs
    split at h
    · rename_i v hv
      split at h
      · cases h
      · rename_i i hi
        split at h
        · cases h
        · rename_i m1 h1
          split at h
          · cases h
          · rename_i m3 h3
            cases h
            have hi16 : i < 16 := by
              have := getD_true_false_lt (getInactive_spec hi); rw [ok.act] at this; exact this
            have hr := regOK_R hi16
            have ok1 := ok.activate h1
            have ok2 : MemOK (buildLoop m1 0 vs.length 1 (R i) [.instr .store [.lit v, .entryR d.addr (R i)]]).1 :=
              ok1.of_sameL (buildLoop_sameL _ _ _ _ _ _) (by rw [buildLoop_active])
                (by unfold buildLoop; split <;> simp [newLabel, ok1.lbl])
            refine ⟨ok2.release h3, ?_⟩
            have hloop : AllOK (buildLoop m1 0 vs.length 1 (R i) [.instr .store [.lit v, .entryR d.addr (R i)]]).2 ∧
                NoQ (buildLoop m1 0 vs.length 1 (R i) [.instr .store [.lit v, .entryR d.addr (R i)]]).2 := by
              unfold buildLoop
              simp only [List.isEmpty_cons, Bool.false_eq_true, if_false]
              constructor
              · intro c hc
                simp only [List.cons_append, List.nil_append, List.mem_cons, List.mem_nil_iff, or_false] at hc
                rcases hc with rfl | rfl | rfl | rfl | rfl | rfl | rfl <;> simp [cmdOK, hr, shapeOK, labAt, newLabel]
              · intro c hc
                simp only [List.cons_append, List.nil_append, List.mem_cons, List.mem_nil_iff, or_false] at hc
                rcases hc with rfl | rfl | rfl | rfl | rfl | rfl | rfl <;> rfl
            exact ⟨AllOK.cons hdecl (hp.1.append hloop.1), NoQ.cons rfl (hp.2.append hloop.2)⟩
    · cases h
      have := storeInits_ok d.addr vs 0
      exact ⟨ok, hp.1.append (AllOK.cons hdecl this.1), hp.2.append (NoQ.cons rfl this.2)⟩

theorem initArrays_ok : ∀ (ds : List ArrDecl) (m m' : Mem) (pend out : List PCmd), MemOK m →
    AllOK pend ∧ NoQ pend → initArrays m pend ds = .ok (m', out) → MemOK m' ∧ AllOK out ∧ NoQ out
  | [], m, m', pend, out, ok, hp, h => by simp [initArrays] at h; obtain ⟨rfl, rfl⟩ := h; exact ⟨ok, hp⟩
  | d :: ds, m, m', pend, out, ok, hp, h => by
    simp only [initArrays] at h
    split at h
    · cases h
    · rename_i m1 p1 h1
      obtain ⟨ok1, a, b⟩ := initArray_ok ok hp h1
      exact initArrays_ok ds _ _ _ _ ok1 ⟨a, b⟩ h

/-- **every subroutine a flush sends is well formed** -/
theorem flush_ok {m m' : Mem} {pend : List PCmd} {sub : Option (List PCmd)} (ok : MemOK m) (hp : CodeOK pend)
    (h : flush m pend = .ok (m', sub)) : MemOK m' ∧ ∀ s, sub = some s → CodeOK s := by
  unfold flush at h
  split at h
  · cases h
  · rename_i m1 ini h1
    obtain ⟨ok1, a, b⟩ := initArrays_ok _ _ _ _ _ ok ⟨AllOK.nil, NoQ.nil⟩ h1
    simp only at h
    split at h
    · cases h; exact ⟨ok1, fun s hs => by cases hs⟩
    · cases h
      refine ⟨⟨ok1.act, by simp, ok1.lbl, ok1.hnd, by simp⟩, ?_⟩
      intro s hs
      cases hs
      have hA : AllOK (m1.arraysToReturn.map (fun d => PCmd.instr .retArr [.addr d.addr])) ∧
          NoQ (m1.arraysToReturn.map (fun d => PCmd.instr .retArr [.addr d.addr])) := by
        constructor <;> intro c hc <;> obtain ⟨d, _, rfl⟩ := List.mem_map.1 hc
        · simp [cmdOK, shapeOK]
        · rfl
      have hR : AllOK (m1.regsToReturn.map (fun r => PCmd.instr .retReg [.reg r])) ∧
          NoQ (m1.regsToReturn.map (fun r => PCmd.instr .retReg [.reg r])) := by
        constructor <;> intro c hc <;> obtain ⟨r, hr, rfl⟩ := List.mem_map.1 hc
        · simp [cmdOK, shapeOK, ok1.rret r hr]
        · rfl
      exact (((CodeOK.of_noQ a b).append hp).append (CodeOK.of_noQ hA.1 hA.2)).append (CodeOK.of_noQ hR.1 hR.2)

/-! ## whole programs -/

/-- every subroutine `Sdk.run` emits, from any state of the builder that satisfies the invariant -/
theorem runProg_ok : ∀ (p : List Top) (m : Mem) (pend : List PCmd) (step : Nat) (acc : RunOut), MemOK m →
    CodeOK pend → (∀ s, some s ∈ acc.subs → CodeOK s) →
    ∀ s, some s ∈ (runProg m pend step acc p).subs → CodeOK s
  | [], m, pend, step, acc, ok, hp, ha => by simpa [runProg] using ha
  | .op h :: rest, m, pend, step, acc, ok, hp, ha => by
    simp only [runProg]
    split
    · simpa using ha
    · rename_i m1 cs h1
      obtain ⟨ok1, c⟩ := emit_ok h _ _ _ ok h1
      exact runProg_ok rest m1 _ _ _ ok1 (hp.append c) (by simpa using ha)
  | .flush :: rest, m, pend, step, acc, ok, hp, ha => by
    simp only [runProg]
    split
    · simpa using ha
    · rename_i m1 sub h1
      obtain ⟨ok1, c⟩ := flush_ok ok hp h1
      refine runProg_ok rest m1 [] _ _ ok1 CodeOK.nil ?_
      intro s hs
      simp only [List.mem_append, List.mem_singleton] at hs
      rcases hs with hs | hs
      · exact ha s hs
      · exact c s hs.symm

theorem run_ok (p : List Top) : ∀ s, some s ∈ (Sdk.run p).subs → CodeOK s :=
  runProg_ok p Mem.init [] 0 _ memOK_init CodeOK.nil (by simp)


/-! ## the three static hypotheses of the assembler / executor chain -/

theorem AllOK.label {P : List PCmd} (h : AllOK P) {l : Lbl} (hl : PCmd.label l ∈ P) : l.kind < 5 := by
  simpa [cmdOK] using h _ hl

theorem AllOK.op {P : List PCmd} (h : AllOK P) {mn : Mn} {ops : List POp} {o : POp}
    (hc : PCmd.instr mn ops ∈ P) (ho : o ∈ ops) : opOK o = true := by
  have := h _ hc
  simp only [cmdOK, Bool.and_eq_true, List.all_eq_true] at this
  exact this.1 o ho

theorem AllOK.shape {P : List PCmd} (h : AllOK P) {mn : Mn} {ops : List POp}
    (hc : PCmd.instr mn ops ∈ P) : shapeOK mn ops = true := by
  have := h _ hc
  simp only [cmdOK, Bool.and_eq_true] at this
  exact this.2

theorem nameInj_of_allOK {P : List PCmd} (h : AllOK P) : Bridge.NameInj P := by
  intro l' l mn ops hl' hc hl hn
  have h1 := h.label hl'
  have h2 : l.kind < 5 := by simpa using h.op hc hl
  exact Lbl.name_inj h1 h2 hn

theorem regsInRange_of_allOK {P : List PCmd} (h : AllOK P) : Bridge.RegsInRange P := by
  intro mn ops r hc hr
  have : regOK r = true := by
    rcases hr with hr | ⟨a, hr⟩
    · simpa using h.op hc hr
    · simpa using h.op hc hr
  simpa [regOK] using this

open NQ.Asm in
theorem tgtOf_notgt : ∀ (rs : List Role) (ops : List POperand), (∀ r ∈ rs, r ≠ Role.tgt) → tgtOf rs ops = none
  | [], ops, _ => by cases ops <;> rfl
  | r :: rs, [], _ => by cases r <;> rfl
  | r :: rs, o :: os, h => by
    have hr : r ≠ .tgt := h r (by simp)
    have ih := tgtOf_notgt rs os (fun x hx => h x (by simp [hx]))
    cases r <;> first | exact absurd rfl hr | (simp only [tgtOf]; exact ih)

theorem labAt_map {n : Nat} {ops : List POp} (h : labAt n ops = true) :
    ∃ l, (ops.map Bridge.trOp)[n]? = some (.lab l) := by
  unfold labAt at h
  split at h
  · rename_i l hl
    exact ⟨l.name, by simp [hl, Bridge.trOp]⟩
  · cases h

open NQ.Asm in
theorem tgtOf_0 {ops : List POperand} {o : POperand} (h : ops[0]? = some o) : tgtOf [.tgt] ops = some o := by
  match ops, h with
  | x :: _, h => simp at h; subst h; rfl

open NQ.Asm in
theorem tgtOf_1 {ops : List POperand} {o : POperand} (h : ops[1]? = some o) : tgtOf [.use, .tgt] ops = some o := by
  match ops, h with
  | _ :: x :: _, h => simp at h; subst h; rfl

open NQ.Asm in
theorem tgtOf_2 {ops : List POperand} {o : POperand} (h : ops[2]? = some o) :
    tgtOf [.use, .use, .tgt] ops = some o := by
  match ops, h with
  | _ :: _ :: x :: _, h => simp at h; subst h; rfl

open NQ.Asm in
theorem labelTargets_of_allOK (a : Nat) {P : List PCmd} (h : AllOK P) :
    LabelTargets (qMachine a) (Bridge.tr P) := by
  intro mn args ops rs v hc hr
  simp only [Bridge.tr, List.mem_map] at hc
  obtain ⟨c, hcP, hce⟩ := hc
  cases c with
  | label l => simp [Bridge.trCmd] at hce
  | instr mn0 ops0 =>
    simp only [Bridge.trCmd, Asm.PCmd.instr.injEq] at hce
    obtain ⟨rfl, rfl, rfl⟩ := hce
    have hs := h.shape hcP
    simp only [allOps, List.map_nil, List.nil_append]
    have hno : ∀ (rs0 : List Role), (qMachine a).roles mn0.name = some rs0 → (∀ r ∈ rs0, r ≠ Role.tgt) →
        tgtOf rs (ops0.map Bridge.trOp) ≠ some (.lit v) := by
      intro rs0 h0 hn
      rw [h0] at hr; cases hr
      rw [tgtOf_notgt _ _ hn]; simp
    cases mn0 with
    | set => exact hno [.dst, .imm] (by show qRoles "set" = _; decide) (by decide)
    | load => exact hno [.dst, .entry] (by show qRoles "load" = _; decide) (by decide)
    | store => exact hno [.use, .entry] (by show qRoles "store" = _; decide) (by decide)
    | array => exact hno [.use, .addr] (by show qRoles "array" = _; decide) (by decide)
    | add => exact hno [.dst, .use, .use] (by show qRoles "add" = _; decide) (by decide)
    | addm => exact hno [.dst, .use, .use, .use] (by show qRoles "addm" = _; decide) (by decide)
    | retReg => exact hno [.named] (by show qRoles "ret_reg" = _; decide) (by decide)
    | retArr => exact hno [.addr] (by show qRoles "ret_arr" = _; decide) (by decide)
    | qalloc => exact hno [.use] (by show qRoles "qalloc" = _; decide) (by decide)
    | qfree => exact hno [.use] (by show qRoles "qfree" = _; decide) (by decide)
    | init => exact hno [.use] (by show qRoles "init" = _; decide) (by decide)
    | meas => exact hno [.use, .dst] (by show qRoles "meas" = _; decide) (by decide)
    | gate g => exact hno [.use] (roles_q1 a (Bridge.gate_name_mem g)) (by decide)
    | jmp =>
      have h0 : (qMachine a).roles (Mn.jmp).name = some [.tgt] := by show qRoles "jmp" = _; decide
      rw [h0] at hr; cases hr
      obtain ⟨l, hl⟩ := labAt_map (by simpa [shapeOK] using hs)
      rw [tgtOf_0 hl]; simp
    | bez =>
      have h0 : (qMachine a).roles (Mn.bez).name = some [.use, .tgt] := by show qRoles "bez" = _; decide
      rw [h0] at hr; cases hr
      obtain ⟨l, hl⟩ := labAt_map (by simpa [shapeOK] using hs)
      rw [tgtOf_1 hl]; simp
    | bnz =>
      have h0 : (qMachine a).roles (Mn.bnz).name = some [.use, .tgt] := by show qRoles "bnz" = _; decide
      rw [h0] at hr; cases hr
      obtain ⟨l, hl⟩ := labAt_map (by simpa [shapeOK] using hs)
      rw [tgtOf_1 hl]; simp
    | beq =>
      have h0 : (qMachine a).roles (Mn.beq).name = some [.use, .use, .tgt] := by show qRoles "beq" = _; decide
      rw [h0] at hr; cases hr
      obtain ⟨l, hl⟩ := labAt_map (by simpa [shapeOK] using hs)
      rw [tgtOf_2 hl]; simp
    | bne =>
      have h0 : (qMachine a).roles (Mn.bne).name = some [.use, .use, .tgt] := by show qRoles "bne" = _; decide
      rw [h0] at hr; cases hr
      obtain ⟨l, hl⟩ := labAt_map (by simpa [shapeOK] using hs)
      rw [tgtOf_2 hl]; simp
    | blt =>
      have h0 : (qMachine a).roles (Mn.blt).name = some [.use, .use, .tgt] := by show qRoles "blt" = _; decide
      rw [h0] at hr; cases hr
      obtain ⟨l, hl⟩ := labAt_map (by simpa [shapeOK] using hs)
      rw [tgtOf_2 hl]; simp
    | bge =>
      have h0 : (qMachine a).roles (Mn.bge).name = some [.use, .use, .tgt] := by show qRoles "bge" = _; decide
      rw [h0] at hr; cases hr
      obtain ⟨l, hl⟩ := labAt_map (by simpa [shapeOK] using hs)
      rw [tgtOf_2 hl]; simp

/-- **`emitted_nameInj`**: in every subroutine `Sdk.run` emits, label names separate the labels -/
theorem emitted_nameInj (p : List Top) : ∀ s, some s ∈ (Sdk.run p).subs → Bridge.NameInj s :=
  fun s hs => nameInj_of_allOK (run_ok p s hs).all

/-- **`emitted_regsInRange`**: in every subroutine `Sdk.run` emits, registers are within 4 banks × 16 -/
theorem emitted_regsInRange (p : List Top) : ∀ s, some s ∈ (Sdk.run p).subs → Bridge.RegsInRange s :=
  fun s hs => regsInRange_of_allOK (run_ok p s hs).all

/-- **`emitted_labelTargets`**: in every subroutine `Sdk.run` emits, branch targets are labels -/
theorem emitted_labelTargets (a : Nat) (p : List Top) :
    ∀ s, some s ∈ (Sdk.run p).subs → Asm.LabelTargets (Asm.qMachine a) (Bridge.tr s) :=
  fun s hs => labelTargets_of_allOK a (run_ok p s hs).all

/-- **`emitted_qclosed`**: in every subroutine `Sdk.run` emits, quantum instructions come in closed blocks -/
theorem emitted_qclosed (p : List Top) : ∀ s, some s ∈ (Sdk.run p).subs → QClosed s :=
  fun s hs => (run_ok p s hs).closed

end NQ.Sdk
