import NetqasmVerif.Model.Msg
import Mathlib.Tactic.Ring
namespace NQ.Msg

/-! ### bytes <-> number -/

theorem toBytes_length (n k : Nat) : (toBytes n k).length = k := by
  induction k generalizing n with
  | zero => rfl
  | succ k ih => simp [toBytes, ih]

theorem ofBytes_toBytes (n k : Nat) : ofBytes (toBytes n k) = n % 256 ^ k := by
  induction k generalizing n with
  | zero => simp [toBytes, ofBytes, Nat.mod_one]
  | succ k ih =>
    simp only [toBytes, ofBytes, ih]
    rw [Nat.pow_succ, Nat.mul_comm (256 ^ k) 256, Nat.mod_mul]

/-! ### one field -/

theorem two_pow_pos (w : Nat) : 0 < 2 ^ w := Nat.two_pow_pos w

theorem encVal_lt (f : SField) (v : Int) : encVal f v < 2 ^ f.width := by
  unfold encVal
  have hp : (0 : Int) < ((2 ^ f.width : Nat) : Int) := by exact_mod_cast two_pow_pos f.width
  have h1 := Int.emod_nonneg v (ne_of_gt hp)
  have h2 := Int.emod_lt_of_pos v hp
  omega

theorem emod_small (v P : Int) (h0 : -P ≤ v) (h1 : v < P) :
    v % P = if v < 0 then v + P else v := by
  split
  · rw [← Int.add_emod_right]; exact Int.emod_eq_of_lt (by omega) (by omega)
  · exact Int.emod_eq_of_lt (by omega) h1

theorem decVal_encVal (f : SField) (v : Int) (hw : 0 < f.width) (h : inWidth f v = true) :
    decVal f (encVal f v) = v := by
  unfold decVal encVal
  unfold inWidth at h
  have hP : (2 ^ f.width : Nat) = 2 * 2 ^ (f.width - 1) := by
    rw [← Nat.pow_succ']; congr 1; omega
  have hH := two_pow_pos (f.width - 1)
  generalize 2 ^ (f.width - 1) = H at *
  generalize 2 ^ f.width = P at *
  subst hP
  cases hs : f.signed
  · simp [hs] at h ⊢
    rw [emod_small v _ (by omega) (by omega)]
    simp only [show ¬ v < 0 by omega, if_false]
    omega
  · simp [hs] at h ⊢
    rw [emod_small v _ (by push_cast; omega) (by push_cast; omega)]
    split <;> split <;> push_cast at * <;> omega

/-! ### all fields -/

theorem sortedFrom_cons {lo e : Nat} {f : SField} {fs : List SField}
    (h : sortedFrom lo (f :: fs) = some e) :
    lo ≤ f.start ∧ 0 < f.width ∧ sortedFrom (f.start + f.width) fs = some e := by
  simp only [sortedFrom] at h
  split at h
  · rename_i hc; exact ⟨hc.1, hc.2, h⟩
  · cases h

theorem pow_split {lo s : Nat} (h : lo ≤ s) : 2 ^ s = 2 ^ lo * 2 ^ (s - lo) := by
  rw [← Nat.pow_add]; congr 1; omega

theorem packNat_dvd (fs : List SField) (vs : List Int) (lo e : Nat)
    (h : sortedFrom lo fs = some e) : ∃ k, packNat fs vs = 2 ^ lo * k := by
  induction fs generalizing vs lo with
  | nil => exact ⟨0, by simp [packNat]⟩
  | cons f fs ih =>
    cases vs with
    | nil => exact ⟨0, by simp [packNat]⟩
    | cons v vs =>
      obtain ⟨h1, _, h3⟩ := sortedFrom_cons h
      obtain ⟨k, hk⟩ := ih vs _ h3
      refine ⟨encVal f v * 2 ^ (f.start - lo) + 2 ^ (f.start + f.width - lo) * k, ?_⟩
      simp only [packNat, hk]
      rw [pow_split h1, pow_split (show lo ≤ f.start + f.width by omega)]
      have : f.start + f.width - lo = (f.start - lo) + f.width := by omega
      rw [pow_split (Nat.le_refl lo)] at *
      ring

/-- reading every field out of `x + packNat fs vs`, where `x` is whatever lies below `lo` -/
theorem read_pack (fs : List SField) (vs : List Int) (lo e x : Nat)
    (h : sortedFrom lo fs = some e) (hx : x < 2 ^ lo) (hin : allInWidth fs vs = true) :
    fs.map (fun f => decVal f ((x + packNat fs vs) / 2 ^ f.start % 2 ^ f.width)) = vs
    ∧ x + packNat fs vs < 2 ^ e := by
  induction fs generalizing vs lo x with
  | nil =>
    cases vs with
    | nil => simp [sortedFrom] at h; subst h; simpa [packNat] using hx
    | cons v vs => simp [allInWidth] at hin
  | cons f fs ih =>
    cases vs with
    | nil => simp [allInWidth] at hin
    | cons v vs =>
      obtain ⟨h1, h2, h3⟩ := sortedFrom_cons h
      simp only [allInWidth, Bool.and_eq_true] at hin
      obtain ⟨k, hk⟩ := packNat_dvd fs vs _ e h3
      have hxs : x < 2 ^ f.start := Nat.lt_of_lt_of_le hx (Nat.pow_le_pow_right (by decide) h1)
      have henc := encVal_lt f v
      have hx' : x + encVal f v * 2 ^ f.start < 2 ^ (f.start + f.width) := by
        rw [Nat.pow_add]
        have : (encVal f v + 1) * 2 ^ f.start ≤ 2 ^ f.width * 2 ^ f.start :=
          Nat.mul_le_mul_right _ henc
        rw [Nat.mul_comm (2 ^ f.start)]
        have e1 : (encVal f v + 1) * 2 ^ f.start = encVal f v * 2 ^ f.start + 2 ^ f.start := by ring
        omega
      obtain ⟨ih1, ih2⟩ := ih vs _ _ h3 hx' hin.2
      have hassoc : x + packNat (f :: fs) (v :: vs) = (x + encVal f v * 2 ^ f.start) + packNat fs vs := by
        simp only [packNat]; omega
      refine ⟨?_, by rw [hassoc]; exact ih2⟩
      simp only [List.map_cons]
      congr 1
      · -- the head field
        have : x + packNat (f :: fs) (v :: vs)
            = x + 2 ^ f.start * (encVal f v + 2 ^ f.width * k) := by
          simp only [packNat, hk, Nat.pow_add]; ring
        rw [this, Nat.add_mul_div_left _ _ (two_pow_pos _), Nat.div_eq_of_lt hxs, Nat.zero_add,
          Nat.add_mul_mod_self_left, Nat.mod_eq_of_lt henc]
        exact decVal_encVal f v h2 hin.1
      · refine Eq.trans ?_ ih1
        apply List.map_congr_left
        intro g _
        rw [hassoc]

theorem pow256 (k : Nat) : 256 ^ k = 2 ^ (8 * k) := by
  rw [Nat.pow_mul]

/-- **struct round trip**: any well-formed struct layout, any values within the declared
widths, any trailing bytes -/
theorem struct_roundtrip (L : SLayout) (vs : List Int) (rest : List Nat)
    (hwf : WFStruct L = true) (hin : allInWidth L.fields vs = true) :
    unpackStruct L (packStruct L vs ++ rest) = some vs := by
  unfold WFStruct at hwf
  split at hwf
  · rename_i e he
    simp at hwf
    obtain ⟨h1, h2⟩ := read_pack L.fields vs 0 e 0 he (by simp) hin
    simp only [Nat.zero_add] at h1 h2
    unfold unpackStruct packStruct
    have hl := toBytes_length (packNat L.fields vs) L.size
    rw [if_neg (by simp [hl])]
    rw [List.take_left' hl, ofBytes_toBytes, pow256]
    have : packNat L.fields vs < 2 ^ (8 * L.size) :=
      Nat.lt_of_lt_of_le h2 (Nat.pow_le_pow_right (by decide) hwf)
    rw [Nat.mod_eq_of_lt this]
    simp only [readFields, h1]
  · cases hwf

theorem packStruct_length (L : SLayout) (vs : List Int) : (packStruct L vs).length = L.size :=
  toBytes_length _ _

end NQ.Msg
