/-
Static invariants of the builder model `emit` (Model/Sdk.lean) used by the compiler-correctness proof
of C05: which parts of the memory manager each helper leaves alone, how handle / array tables grow,
when an operation emits nothing, and freshness of the generated labels.
-/
import NetqasmVerif.Lemmas.Sdk
import NetqasmVerif.Model.SdkHost
set_option linter.unusedSimpArgs false
set_option linter.unusedVariables false
namespace NQ.Sdk

/-- everything but the register flags (and the ghost peak) is unchanged -/
structure SameBut (m m' : Mem) : Prop where
  meas : m'.measUsed = m.measUsed
  rret : m'.regsToReturn = m.regsToReturn
  aret : m'.arraysToReturn = m.arraysToReturn
  lens : m'.arrLens = m.arrLens
  lbl : m'.lbl = m.lbl
  handles : m'.handles = m.handles

theorem SameBut.refl (m : Mem) : SameBut m m := ⟨rfl, rfl, rfl, rfl, rfl, rfl⟩

theorem SameBut.trans {a b c : Mem} (h1 : SameBut a b) (h2 : SameBut b c) : SameBut a c :=
  ⟨h2.meas.trans h1.meas, h2.rret.trans h1.rret, h2.aret.trans h1.aret, h2.lens.trans h1.lens,
   h2.lbl.trans h1.lbl, h2.handles.trans h1.handles⟩

theorem activate_same {m m' : Mem} {i : Nat} (h : activate m i = .ok m') : SameBut m m' := by
  have := activate_spec h
  exact ⟨this.2.2.1, this.2.2.2.1, this.2.2.2.2.1, this.2.2.2.2.2.1, this.2.2.2.2.2.2.1, this.2.2.2.2.2.2.2⟩

theorem release_same {m m' : Mem} {i : Nat} (h : release m i = .ok m') : SameBut m m' := by
  have := release_spec h
  exact ⟨this.2.2.1, this.2.2.2.1, this.2.2.2.2.1, this.2.2.2.2.2.1, this.2.2.2.2.2.2.1, this.2.2.2.2.2.2.2.1⟩

theorem releaseOpt_same {m m' : Mem} {t : Option Nat} (h : releaseOpt m t = .ok m') : SameBut m m' := by
  cases t with
  | none => simp [releaseOpt] at h; subst h; exact SameBut.refl _
  | some t => exact release_same h

theorem takeReg_same {m m' : Mem} {i : Nat} (h : takeReg m = .ok (m', i)) : SameBut m m' := by
  unfold takeReg at h
  split at h
  · cases h
  · split at h
    · cases h
    · rename_i m1 h1
      cases h
      exact activate_same h1

theorem takeAt_same {m m' : Mem} {rg : Option Nat} {i : Nat} (h : takeAt m rg = .ok (m', i)) : SameBut m m' := by
  cases rg with
  | none => exact takeReg_same h
  | some j =>
    simp only [takeAt] at h
    split at h
    · cases h
    · rename_i m1 h1
      cases h
      exact activate_same h1

theorem accessCmds_same : ∀ (f : Fut) (m : Mem) (st : Bool) (r : Reg) (m' : Mem) (cs : List PCmd),
    accessCmds m st r f = .ok (m', cs) → SameBut m m'
  | .lit a i, m, st, r, m', cs, h => by
    simp [accessCmds] at h; rw [← h.1]; exact SameBut.refl _
  | .reg a hh, m, st, r, m', cs, h => by
    unfold accessCmds at h
    split at h
    · cases h
    · cases h; exact SameBut.refl _
  | .fut a f, m, st, r, m', cs, h => by
    unfold accessCmds at h
    split at h
    · cases h
    · split at h
      · cases h
      · rename_i m1 h1
        split at h
        · cases h
        · rename_i m2 cs2 h2
          split at h
          · cases h
          · rename_i m3 h3
            cases h
            exact (activate_same h1).trans ((accessCmds_same f _ _ _ _ _ h2).trans (release_same h3))

theorem condOperand_same {m m1 : Mem} {v : Val} {cs : List PCmd} {o : POp} {t : Option Nat}
    (h : condOperand m v = .ok (m1, cs, o, t)) : SameBut m m1 := by
  cases v with
  | lit x => simp [condOperand] at h; rw [← h.1]; exact SameBut.refl _
  | reg hh =>
    simp only [condOperand] at h
    split at h
    · cases h
    · split at h
      · cases h; exact SameBut.refl _
      · cases h
  | fut f =>
    simp only [condOperand] at h
    split at h
    · cases h
    · rename_i m' t' h1
      split at h
      · cases h
      · cases h; exact takeReg_same h1

theorem addOther_same {m m1 : Mem} {v : Val} {cs : List PCmd} {o : POp} {t : Option Nat}
    (h : addOther m v = .ok (m1, cs, o, t)) : SameBut m m1 := by
  cases v with
  | lit x => simp [addOther] at h; rw [← h.1]; exact SameBut.refl _
  | reg hh =>
    simp only [addOther] at h
    split at h
    · cases h
    · split at h
      · cases h
      · cases h; exact SameBut.refl _
  | fut f =>
    simp only [addOther] at h
    split at h
    · cases h
    · rename_i m' t' h1
      split at h
      · cases h
      · rename_i m2 ld h2
        cases h
        exact (takeReg_same h1).trans (accessCmds_same _ _ _ _ _ _ h2)

theorem emitAddF_same {m m' : Mem} {f : Fut} {o : Val} {md : Option Int} {cs : List PCmd}
    (h : emitAddF m f o md = .ok (m', cs)) : SameBut m m' := by
  unfold emitAddF at h
  split at h
  · cases h
  · rename_i m1 t h1
    split at h
    · cases h
    · rename_i m2 ld h2
      split at h
      · cases h
      · rename_i m3 st h3
        split at h
        · cases h
        · rename_i m4 ld2 oo tmp2 h4
          split at h
          · cases h
          · rename_i m5 h5
            split at h
            · cases h
            · rename_i m6 h6
              cases h
              exact (takeReg_same h1).trans ((accessCmds_same _ _ _ _ _ _ h2).trans
                ((accessCmds_same _ _ _ _ _ _ h3).trans ((addOther_same h4).trans
                ((release_same h5).trans (releaseOpt_same h6)))))

theorem emitAddR_same {m m' : Mem} {hh : Nat} {o : Val} {md : Option Int} {cs : List PCmd}
    (h : emitAddR m hh o md = .ok (m', cs)) : SameBut m m' := by
  unfold emitAddR at h
  split at h
  · cases h
  · split at h
    · cases h
    · split at h
      · cases h
      · rename_i m1 ld2 oo tmp2 h1
        split at h
        · cases h
        · rename_i m2 h2
          cases h
          exact (addOther_same h1).trans (releaseOpt_same h2)

theorem emitEprH_same : ∀ (evs : List EprEv) (m : Mem) (held : List Nat) (m' : Mem) (held' : List Nat),
    emitEprH m held evs = .ok (m', held') → SameBut m m'
  | [], m, held, m', held', h => by simp [emitEprH] at h; rw [← h.1]; exact SameBut.refl _
  | .take :: es, m, held, m', held', h => by
    simp only [emitEprH] at h
    split at h
    · cases h
    · rename_i m1 i h1
      exact (takeReg_same h1).trans (emitEprH_same es _ _ _ _ h)
  | .rel p :: es, m, held, m', held', h => by
    simp only [emitEprH] at h
    split at h
    · cases h
    · split at h
      · cases h
      · rename_i m1 h1
        exact (release_same h1).trans (emitEprH_same es _ _ _ _ h)

/-- everything but the register flags and the label counters is unchanged -/
structure SameButL (m m' : Mem) : Prop where
  meas : m'.measUsed = m.measUsed
  rret : m'.regsToReturn = m.regsToReturn
  aret : m'.arraysToReturn = m.arraysToReturn
  lens : m'.arrLens = m.arrLens
  handles : m'.handles = m.handles

theorem SameBut.toL {m m' : Mem} (h : SameBut m m') : SameButL m m' :=
  ⟨h.meas, h.rret, h.aret, h.lens, h.handles⟩

theorem SameButL.refl (m : Mem) : SameButL m m := ⟨rfl, rfl, rfl, rfl, rfl⟩

theorem SameButL.trans {a b c : Mem} (h1 : SameButL a b) (h2 : SameButL b c) : SameButL a c :=
  ⟨h2.meas.trans h1.meas, h2.rret.trans h1.rret, h2.aret.trans h1.aret, h2.lens.trans h1.lens,
   h2.handles.trans h1.handles⟩

theorem newLabel_sameL (m : Mem) (k : Nat) : SameButL m (newLabel m k).1 := ⟨rfl, rfl, rfl, rfl, rfl⟩

theorem branchCmds_sameL {m m' : Mem} {c : Cond} {a b : Val} {cs : List PCmd} {l : Lbl}
    (h : branchCmds m c a b = .ok (m', cs, l)) : SameButL m m' := by
  unfold branchCmds at h
  simp only at h
  split at h
  · split at h
    · cases h
    · rename_i m1 cs1 oa ta h1
      split at h
      · cases h
      · rename_i m2 h2
        cases h
        exact (newLabel_sameL m 0).trans ((condOperand_same h1).trans (releaseOpt_same h2)).toL
  · split at h
    · cases h
    · rename_i m1 ca oa ta h1
      split at h
      · cases h
      · rename_i m2 cb ob tb h2
        split at h
        · cases h
        · rename_i m3 h3
          split at h
          · cases h
          · rename_i m4 h4
            cases h
            exact (newLabel_sameL m 0).trans ((condOperand_same h1).trans ((condOperand_same h2).trans
              ((releaseOpt_same h3).trans (releaseOpt_same h4)))).toL

theorem buildCondition_sameL {m m' : Mem} {c : Cond} {a b : Val} {body cs : List PCmd}
    (h : buildCondition m c a b body = .ok (m', cs)) : SameButL m m' := by
  unfold buildCondition at h
  split at h
  · cases h; exact SameButL.refl _
  · split at h
    · cases h
    · rename_i m1 st l h1
      cases h
      exact branchCmds_sameL h1

theorem buildLoop_sameL (m : Mem) (s e d : Int) (r : Reg) (body : List PCmd) :
    SameButL m (buildLoop m s e d r body).1 := by
  unfold buildLoop
  split
  · exact SameButL.refl _
  · exact ⟨rfl, rfl, rfl, rfl, rfl⟩

theorem breakCmds_same {m m' : Mem} {ef : Val} {ev : Int} {lx : Lbl} {cs : List PCmd}
    (h : breakCmds m ef ev lx = .ok (m', cs)) : SameBut m m' := by
  unfold breakCmds at h
  split at h
  · cases h
  · rename_i m1 cs1 o t h1
    split at h
    · cases h
    · rename_i m2 h2
      cases h
      exact (condOperand_same h1).trans (releaseOpt_same h2)

/-! ## growth of the handle / array tables -/

/-- operations allowed inside bodies by the correctness theorem: no creation of a persistent register
handle (`new_register`, `measure(store_array=False)`) — those are top-level statements -/
def BodyOK : Host → Prop
  | .skip => True
  | .seq a b => BodyOK a ∧ BodyOK b
  | .newArray _ _ => True
  | .newReg _ => False
  | .qop _ t => t ≠ .newReg
  | .addF _ _ _ => True
  | .addR _ _ _ => True
  | .ifc _ _ _ _ body => BodyOK body
  | .loop _ _ _ _ body => BodyOK body
  | .loopBody _ _ _ _ body => BodyOK body
  | .foreach _ _ body => BodyOK body
  | .loopUntil _ body _ _ cl => BodyOK body ∧ BodyOK cl
  | .tryUntil _ body => BodyOK body
  | .epr _ => False

theorem BodyOK.completed : ∀ {op : Host}, BodyOK op → Completed op
  | .skip, _ => trivial
  | .seq a b, h => ⟨BodyOK.completed h.1, BodyOK.completed h.2⟩
  | .newArray _ _, _ => trivial
  | .newReg _, h => h.elim
  | .qop _ _, _ => trivial
  | .addF _ _ _, _ => trivial
  | .addR _ _ _, _ => trivial
  | .ifc _ _ _ _ body, h => BodyOK.completed (op := body) h
  | .loop _ _ _ _ body, h => BodyOK.completed (op := body) h
  | .loopBody _ _ _ _ body, h => BodyOK.completed (op := body) h
  | .foreach _ _ body, h => BodyOK.completed (op := body) h
  | .loopUntil _ body _ _ cl, h => ⟨BodyOK.completed h.1, BodyOK.completed h.2⟩
  | .tryUntil _ body, h => BodyOK.completed (op := body) h
  | .epr _, h => h.elim

/-- static effect of building `op` from `m` -/
structure Stat (m m' : Mem) (op : Host) (cs : List PCmd) : Prop where
  handles : ∃ t, m'.handles = m.handles ++ t ∧ t.length = hCount op
  lens : ∃ t, m'.arrLens = m.arrLens ++ t ∧ t.length = aCount op
  aret : m'.arraysToReturn = m.arraysToReturn ++ declsOf m.arrLens.length op
  empty : cs = [] ↔ emits op = false
  body : BodyOK op → m'.measUsed = m.measUsed ∧ m'.regsToReturn = m.regsToReturn

theorem Stat.of_same {m m' : Mem} {op : Host} {cs : List PCmd} (h : SameButL m m')
    (hh : hCount op = 0) (ha : aCount op = 0) (hd : ∀ n, declsOf n op = [])
    (he : cs = [] ↔ emits op = false) : Stat m m' op cs :=
  ⟨⟨[], by simp [h.handles], by simp [hh]⟩, ⟨[], by simp [h.lens], by simp [ha]⟩,
   by simp [h.aret, hd], he, fun _ => ⟨h.meas, h.rret⟩⟩

theorem firstUnusedMeas_spec {m m' : Mem} {k : Nat} (h : firstUnusedMeas m = .ok (m', k)) :
    m.measUsed.getD k true = false ∧ m' = { m with measUsed := m.measUsed.set k true } := by
  unfold firstUnusedMeas at h
  split at h
  · rename_i i hi
    cases h
    exact ⟨firstFree_spec _ _ hi, rfl⟩
  · cases h

theorem emitQop_stat {m m' : Mem} {g : List Nat} {tgt : MTgt} {cs : List PCmd}
    (h : emitQop m g tgt = .ok (m', cs)) : Stat m m' (.qop g tgt) cs := by
  unfold emitQop at h
  cases tgt with
  | newFut =>
    simp only at h
    split at h
    · cases h
    · rename_i m1 k h1
      split at h
      · cases h
      · rename_i m2 st h2
        cases h
        obtain ⟨hk, rfl⟩ := firstUnusedMeas_spec h1
        have s2 := accessCmds_same _ _ _ _ _ _ h2
        refine ⟨⟨[], by simp [s2.handles], rfl⟩, ⟨[1], by simp [s2.lens], rfl⟩, ?_, ?_, ?_⟩
        · simp [s2.aret, declsOf]
        · simp [emits]
        · intro _
          refine ⟨?_, by simp [s2.rret]⟩
          simp only [s2.meas]
          exact set_restore hk
  | fut f =>
    simp only at h
    split at h
    · cases h
    · rename_i m1 k h1
      split at h
      · cases h
      · rename_i m2 st h2
        cases h
        obtain ⟨hk, rfl⟩ := firstUnusedMeas_spec h1
        have s2 := accessCmds_same _ _ _ _ _ _ h2
        refine ⟨⟨[], by simp [s2.handles], rfl⟩, ⟨[], by simp [s2.lens], rfl⟩, ?_, ?_, ?_⟩
        · simp [s2.aret, declsOf]
        · simp [emits]
        · intro _
          refine ⟨?_, by simp [s2.rret]⟩
          simp only [s2.meas]
          exact set_restore hk
  | newReg =>
    simp only at h
    split at h
    · cases h
    · rename_i m1 k h1
      cases h
      obtain ⟨hk, rfl⟩ := firstUnusedMeas_spec h1
      refine ⟨⟨[(M k, true)], by simp [bindHandle], rfl⟩, ⟨[], by simp [bindHandle], rfl⟩, ?_, ?_, ?_⟩
      · simp [bindHandle, declsOf]
      · simp [emits]
      · intro hb; exact absurd rfl hb

theorem buildLoop_nil (m : Mem) (s e d : Int) (r : Reg) (body : List PCmd) :
    (buildLoop m s e d r body).2 = [] ↔ body = [] := by
  unfold buildLoop
  cases body with
  | nil => simp
  | cons c cs => simp

theorem buildCondition_nil {m m' : Mem} {c : Cond} {a b : Val} {body cs : List PCmd}
    (h : buildCondition m c a b body = .ok (m', cs)) : cs = [] ↔ body = [] := by
  unfold buildCondition at h
  cases body with
  | nil => simp at h; simp [h.2]
  | cons x xs =>
    simp at h
    split at h
    · cases h
    · cases h; simp

/-- shared shape of `loop`, `loopBody`, `foreach` -/
theorem loopShape_stat {m m1 m2 m4 : Mem} {i : Nat} {s e d : Int} {cs : List PCmd} {b : Bool}
    {body op : Host}
    {rg : Option Nat} (h1 : takeAt m rg = .ok (m1, i)) (ih : Stat (bindHandle m1 (R i) b) m2 body cs)
    (h4 : release (buildLoop m2 s e d (R i) cs).1 i = .ok m4)
    (hh : hCount op = 1 + hCount body) (ha : aCount op = aCount body)
    (hd : ∀ n, declsOf n op = declsOf n body) (he : emits op = emits body)
    (hb : BodyOK op → BodyOK body) :
    Stat m m4 op (buildLoop m2 s e d (R i) cs).2 := by
  have s1 := takeAt_same h1
  have sl := buildLoop_sameL m2 s e d (R i) cs
  have s4 := release_same h4
  obtain ⟨t, ht, htl⟩ := ih.handles
  obtain ⟨u, hu, hul⟩ := ih.lens
  refine ⟨⟨(R i, b) :: t, ?_, by simp [hh, htl]; omega⟩, ⟨u, ?_, by rw [ha, hul]⟩, ?_, ?_, ?_⟩
  · rw [s4.handles, sl.handles, ht]; simp [bindHandle, s1.handles]
  · rw [s4.lens, sl.lens, hu]; simp [bindHandle, s1.lens]
  · rw [s4.aret, sl.aret, ih.aret, hd]; simp [bindHandle, s1.aret, s1.lens]
  · rw [buildLoop_nil, ih.empty, he]
  · intro hbo
    have := ih.body (hb hbo)
    refine ⟨?_, ?_⟩
    · rw [s4.meas, sl.meas, this.1]; simp [bindHandle, s1.meas]
    · rw [s4.rret, sl.rret, this.2]; simp [bindHandle, s1.rret]

theorem emit_stat : ∀ (op : Host) (m m' : Mem) (cs : List PCmd),
    emit m op = .ok (m', cs) → Stat m m' op cs := by
  intro op
  induction op with
  | skip =>
    intro m m' cs h
    simp [emit] at h
    obtain ⟨rfl, rfl⟩ := h
    exact Stat.of_same (SameButL.refl _) rfl rfl (fun _ => rfl) (by simp [emits])
  | seq a b iha ihb =>
    intro m m' cs h
    simp only [emit] at h
    split at h
    · cases h
    · rename_i m1 ca h1
      split at h
      · cases h
      · rename_i m2 cb h2
        cases h
        have sa := iha _ _ _ h1
        have sb := ihb _ _ _ h2
        obtain ⟨t, ht, htl⟩ := sa.handles
        obtain ⟨t2, ht2, htl2⟩ := sb.handles
        obtain ⟨u, hu, hul⟩ := sa.lens
        obtain ⟨u2, hu2, hul2⟩ := sb.lens
        refine ⟨⟨t ++ t2, by rw [ht2, ht]; simp, by simp [hCount, htl, htl2]⟩,
          ⟨u ++ u2, by rw [hu2, hu]; simp, by simp [aCount, hul, hul2]⟩, ?_, ?_, ?_⟩
        · rw [sb.aret, sa.aret, hu]; simp [declsOf, hul]
        · simp [emits, sa.empty, sb.empty]
        · intro hb
          have x := sa.body hb.1
          have y := sb.body hb.2
          exact ⟨y.1.trans x.1, y.2.trans x.2⟩
  | newArray len init =>
    intro m m' cs h
    simp only [emit] at h
    split at h
    · split at h
      · cases h
      · cases h
        exact ⟨⟨[], by simp, rfl⟩, ⟨[_], rfl, rfl⟩, by simp [declsOf], by simp [emits], fun _ => ⟨rfl, rfl⟩⟩
    · split at h
      · cases h
      · cases h
        exact ⟨⟨[], by simp, rfl⟩, ⟨[_], rfl, rfl⟩, by simp [declsOf], by simp [emits], fun _ => ⟨rfl, rfl⟩⟩
  | newReg v =>
    intro m m' cs h
    simp only [emit] at h
    split at h
    · cases h
    · rename_i m1 i h1
      cases h
      have s1 := takeReg_same h1
      exact ⟨⟨[(R i, true)], by simp [bindHandle, s1.handles], rfl⟩, ⟨[], by simp [bindHandle, s1.lens], rfl⟩,
        by simp [bindHandle, s1.aret, declsOf], by simp [emits], fun hb => hb.elim⟩
  | qop g t => intro m m' cs h; simp only [emit] at h; exact emitQop_stat h
  | addF f o md =>
    intro m m' cs h
    simp only [emit] at h
    refine Stat.of_same (emitAddF_same h).toL rfl rfl (fun _ => rfl) ?_
    unfold emitAddF at h
    split at h
    · cases h
    · split at h
      · cases h
      · split at h
        · cases h
        · split at h
          · cases h
          · split at h
            · cases h
            · split at h
              · cases h
              · cases h; simp [emits]
  | addR hh o md =>
    intro m m' cs h
    simp only [emit] at h
    refine Stat.of_same (emitAddR_same h).toL rfl rfl (fun _ => rfl) ?_
    unfold emitAddR at h
    split at h
    · cases h
    · split at h
      · cases h
      · split at h
        · cases h
        · split at h
          · cases h
          · cases h; simp [emits]
  | ifc cb c a b body ih =>
    intro m m' cs h
    simp only [emit] at h
    split at h
    · cases h
    · rename_i m1 bc h1
      have sb := ih _ _ _ h1
      have sl := buildCondition_sameL h
      obtain ⟨t, ht, htl⟩ := sb.handles
      obtain ⟨u, hu, hul⟩ := sb.lens
      refine ⟨⟨t, by rw [sl.handles, ht], by simp [hCount, htl]⟩, ⟨u, by rw [sl.lens, hu], by simp [aCount, hul]⟩,
        by rw [sl.aret, sb.aret]; simp [declsOf], ?_, ?_⟩
      · rw [buildCondition_nil h, sb.empty]; simp [emits]
      · intro hb
        have := sb.body hb
        exact ⟨sl.meas.trans this.1, sl.rret.trans this.2⟩
  | loop rg s e d body ih =>
    intro m m' cs h
    simp only [emit] at h
    split at h
    · cases h
    · rename_i m1 i h1
      split at h
      · cases h
      · rename_i m2 bc h2
        split at h
        · cases h
        · rename_i m4 h4
          cases h
          exact loopShape_stat h1 (ih _ _ _ h2) h4 rfl rfl (fun _ => rfl) rfl id
  | loopBody rg s e d body ih =>
    intro m m' cs h
    simp only [emit] at h
    split at h
    · cases h
    · rename_i m1 i h1
      split at h
      · cases h
      · rename_i m2 bc h2
        split at h
        · cases h
        · rename_i m4 h4
          cases h
          exact loopShape_stat h1 (ih _ _ _ h2) h4 rfl rfl (fun _ => rfl) rfl id
  | foreach arr wi body ih =>
    intro m m' cs h
    simp only [emit] at h
    split at h
    · cases h
    · split at h
      · cases h
      · rename_i m1 i h1
        split at h
        · cases h
        · rename_i m2 bc h2
          split at h
          · cases h
          · rename_i m4 h4
            cases h
            exact loopShape_stat (rg := none) h1 (ih _ _ _ h2) h4 rfl rfl (fun _ => rfl) rfl id
  | loopUntil n body ef ev cl ihb ihc =>
    intro m m' cs h
    simp only [emit] at h
    split at h
    · cases h
    · rename_i m1 i h1
      have s1 := takeReg_same h1
      split at h
      · cases h
      · rename_i m2 bc h2
        have sb := ihb _ _ _ h2
        obtain ⟨t, ht, htl⟩ := sb.handles
        obtain ⟨u, hu, hul⟩ := sb.lens
        split at h
        · rename_i hemp
          have hbc : bc = [] := by cases bc <;> simp_all
          have hem : emits body = false := sb.empty.mp hbc
          split at h
          · cases h
          · rename_i m3 h3
            cases h
            have s3 := release_same h3
            refine ⟨⟨(R i, true) :: t, ?_, by simp [hCount, hem, htl]; omega⟩,
              ⟨u, ?_, by simp [aCount, hem, hul]⟩, ?_, ?_, ?_⟩
            · rw [s3.handles, ht]; simp [bindHandle, s1.handles]
            · rw [s3.lens, hu]; simp [bindHandle, s1.lens]
            · rw [s3.aret, sb.aret]; simp [bindHandle, s1.aret, s1.lens, declsOf, hem]
            · simp [emits, hem]
            · intro hb
              have := sb.body hb.1
              exact ⟨by rw [s3.meas, this.1]; simp [bindHandle, s1.meas],
                     by rw [s3.rret, this.2]; simp [bindHandle, s1.rret]⟩
        · rename_i hemp
          have hbc : bc ≠ [] := by cases bc <;> simp_all
          have hem : emits body = true := by
            cases he : emits body with
            | true => rfl
            | false => exact absurd (sb.empty.mpr he) hbc
          split at h
          · cases h
          · rename_i m5 brk h5
            split at h
            · cases h
            · rename_i m6 clc h6
              split at h
              · cases h
              · rename_i m7 h7
                cases h
                have s5 := breakCmds_same h5
                have sc := ihc _ _ _ h6
                have s7 := release_same h7
                obtain ⟨t2, ht2, htl2⟩ := sc.handles
                obtain ⟨u2, hu2, hul2⟩ := sc.lens
                have e4h : (newLabel (newLabel m2 3).1 4).1.handles = m2.handles := rfl
                have e4l : (newLabel (newLabel m2 3).1 4).1.arrLens = m2.arrLens := rfl
                have e4a : (newLabel (newLabel m2 3).1 4).1.arraysToReturn = m2.arraysToReturn := rfl
                have e4m : (newLabel (newLabel m2 3).1 4).1.measUsed = m2.measUsed := rfl
                have e4r : (newLabel (newLabel m2 3).1 4).1.regsToReturn = m2.regsToReturn := rfl
                refine ⟨⟨(R i, true) :: (t ++ t2), ?_, by simp [hCount, hem, htl, htl2]; omega⟩,
                  ⟨u ++ u2, ?_, by simp [aCount, hem, hul, hul2]⟩, ?_, ?_, ?_⟩
                · rw [s7.handles, ht2, s5.handles, e4h, ht]; simp [bindHandle, s1.handles]
                · rw [s7.lens, hu2, s5.lens, e4l, hu]; simp [bindHandle, s1.lens]
                · rw [s7.aret, sc.aret, s5.aret, s5.lens, e4a, e4l, sb.aret, hu]
                  simp [bindHandle, s1.aret, s1.lens, declsOf, hem, hul]
                · simp [emits, hem, loopUntilEntry]
                · intro hb
                  have x := sb.body hb.1
                  have y := sc.body hb.2
                  exact ⟨by rw [s7.meas, y.1, s5.meas, e4m, x.1]; simp [bindHandle, s1.meas],
                         by rw [s7.rret, y.2, s5.rret, e4r, x.2]; simp [bindHandle, s1.rret]⟩
  | tryUntil n body ih =>
    intro m m' cs h
    simp only [emit] at h
    have sb := ih _ _ _ h
    exact ⟨sb.handles, sb.lens, sb.aret, by rw [sb.empty]; simp [emits], sb.body⟩
  | epr evs =>
    intro m m' cs h
    simp only [emit] at h
    split at h
    · cases h
    · rename_i m1 held' h1
      cases h
      exact Stat.of_same (emitEprH_same _ _ _ _ _ h1).toL rfl rfl (fun _ => rfl) (by simp [emits])


end NQ.Sdk
