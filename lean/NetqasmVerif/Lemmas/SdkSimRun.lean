/-
Compiler correctness of the SDK builder model (C05), part 9: the segmented view (`compileSegs`,
`hrunSegs`) is what the driver-checked functions `Sdk.run` and `hrun` compute on a program whose
segments are each closed by a flush.
-/
import NetqasmVerif.Lemmas.SdkSimProg
set_option linter.unusedSimpArgs false
set_option linter.unusedVariables false
namespace NQ.Sdk

/-- the host program: every segment followed by a flush -/
def flat : List (List Host) → List Top
  | [] => []
  | ops :: rest => ops.map Top.op ++ Top.flush :: flat rest

/-! ## `Sdk.run` -/

theorem runProg_ops : ∀ (ops : List Host) (m : Mem) (pend : List PCmd) (step : Nat) (acc : RunOut) (rest : List Top),
    (∀ m1 cs, emitOps m ops = .ok (m1, cs) →
      ∃ acc', runProg m pend step acc (ops.map Top.op ++ rest) = runProg m1 (pend ++ cs) (step + ops.length) acc' rest ∧
        acc'.subs = acc.subs ∧ acc'.err = acc.err) ∧
    (∀ e, emitOps m ops = .error e → (runProg m pend step acc (ops.map Top.op ++ rest)).err ≠ none)
  | [], m, pend, step, acc, rest => by
    constructor
    · intro m1 cs h
      simp [emitOps] at h; obtain ⟨rfl, rfl⟩ := h
      exact ⟨acc, by simp, rfl, rfl⟩
    · intro e h; simp [emitOps] at h
  | op :: ops, m, pend, step, acc, rest => by
    constructor
    · intro m1 cs h
      simp only [emitOps] at h
      split at h
      · cases h
      · rename_i m' c1 h1
        split at h
        · cases h
        · rename_i m2 c2 h2
          cases h
          obtain ⟨acc', hrun, hs, he⟩ := (runProg_ops ops m' (pend ++ c1) (step + 1)
            { acc with snaps := acc.snaps ++ [m'.snap] } rest).1 m1 c2 h2
          refine ⟨acc', ?_, hs, he⟩
          simp only [List.map_cons, List.cons_append, runProg, h1]
          rw [hrun]
          simp [List.append_assoc, Nat.add_assoc, Nat.add_comm 1]
    · intro e h
      simp only [emitOps] at h
      split at h
      · rename_i e1 h1
        simp only [List.map_cons, List.cons_append, runProg, h1]
        simp
      · rename_i m' c1 h1
        split at h
        · rename_i e2 h2
          simp only [List.map_cons, List.cons_append, runProg, h1]
          exact (runProg_ops ops m' (pend ++ c1) (step + 1) _ rest).2 e2 h2
        · cases h

/-- if `Sdk.run` reports no build error then the segmented builder succeeds with the same subroutines -/
theorem run_segs : ∀ (segs : List (List Host)) (m : Mem) (step : Nat) (acc : RunOut),
    (runProg m [] step acc (flat segs)).err = none →
    ∃ m' subs, compileSegs m segs = .ok (m', subs) ∧
      (runProg m [] step acc (flat segs)).subs = acc.subs ++ subs ∧
      (runProg m [] step acc (flat segs)).mem = m'
  | [], m, step, acc, _ => ⟨m, [], rfl, by simp [flat, runProg], by simp [flat, runProg]⟩
  | ops :: rest, m, step, acc, herr => by
    simp only [flat] at herr ⊢
    cases he : emitOps m ops with
    | error e => exact absurd herr ((runProg_ops ops m [] step acc _).2 e he)
    | ok r =>
      obtain ⟨m1, pend⟩ := r
      obtain ⟨acc', hrun, hs, hee⟩ := (runProg_ops ops m [] step acc (Top.flush :: flat rest)).1 m1 pend he
      rw [hrun] at herr ⊢
      simp only [List.nil_append, runProg] at herr ⊢
      cases hf : flush m1 pend with
      | error e =>
        try rw [hf] at herr
        simp at herr
      | ok r2 =>
        obtain ⟨m2, sub⟩ := r2
        try rw [hf] at herr
        try rw [hf]
        simp only at herr ⊢
        obtain ⟨m', subs, hc, hsub, hmem⟩ := run_segs rest m2 _ _ herr
        refine ⟨m', sub :: subs, by simp [compileSegs, he, hf, hc], ?_, hmem⟩
        rw [hsub, hs]; simp

/-! ## `hrun` -/

theorem splitSeg_flat (ops : List Host) (rest : List Top) :
    splitSeg (ops.map Top.op ++ Top.flush :: rest) = (ops, some rest) := by
  induction ops with
  | nil => simp [splitSeg]
  | cons o os ih => simp [splitSeg, ih]

theorem hrunProg_segs (fuel : Nat) : ∀ (segs : List (List Host)) (g nh na : Nat) (s : HSt) (vs : List HView),
    segs.length < g →
    (hrunProg fuel g nh na s vs (flat segs)).final = (hrunSegs fuel nh na s segs).map (·.1)
  | [], g, nh, na, s, vs, hg => by
    cases g with
    | zero => omega
    | succ g => simp [flat, hrunProg, splitSeg, runSegment, segDecls, initDecls, runOps, hrunSegs]
  | ops :: rest, g, nh, na, s, vs, hg => by
    cases g with
    | zero => omega
    | succ g =>
      simp only [flat, hrunProg, splitSeg_flat, hrunSegs]
      cases hseg : runSegment fuel nh na ops s with
      | none => simp
      | some r =>
        obtain ⟨s1, nh1, na1⟩ := r
        simp only
        rw [hrunProg_segs fuel rest g nh1 na1 _ _ (by simp at hg; omega)]
        cases hrunSegs fuel nh1 na1 (clearAll s1 (segMHandles nh ops)) rest with
        | none => simp
        | some r2 => simp

theorem flat_length_ge : ∀ (segs : List (List Host)), segs.length ≤ (flat segs).length
  | [] => by simp [flat]
  | ops :: rest => by
    have := flat_length_ge rest
    simp [flat]; omega

end NQ.Sdk
