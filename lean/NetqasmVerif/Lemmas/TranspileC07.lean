/-
`ExpandSound` for the concrete semantics `MQ`, from the C07 theorems about Gen/NvDecomp and the
kernel-decided tie Gen/NvExpand = Gen/NvDecomp (`AllTies`).
-/
import NetqasmVerif.Lemmas.TranspileQSound
import NetqasmVerif.Props.C07
namespace NQ.Tr
open NQ NQ.NV

theorem run_single {Q : Type} (A : QAction Q) (g : GI) (q : Q) : A.run [g] q = A.act g q := rfl

/-- C07's operator identity for a two-qubit gate and placement, in the form `lift` consumes -/
theorem c07_two (gn : GName) (hgn : gn = .cnot ∨ gn = .cphase) (p : Placement) (seq : List GI)
    (hseq : repOf Gen.nvTwo gn p = some seq) :
    ∃ T, equivUpToScalar? (circuit p.nq seq) (some T) = true ∧
      equivUpToScalar? (circuit p.nq [⟨gn, [p.roles.1, p.roles.2], 0, 0⟩]) (some T) = true := by
  have hrep : repOk Gen.nvTwo gn p = true := by
    rcases hgn with rfl | rfl
    · exact C07.cnot_placements_eq p
    · exact C07.cphase_placements_eq p
  unfold repOk at hrep
  rw [hseq] at hrep
  simp only [twoOk] at hrep
  have hself := targets_self.2
  have hT : ∃ T, target2 gn p = some T := by
    rcases hgn with rfl | rfl <;> simp [target2]
  obtain ⟨T, hT⟩ := hT
  refine ⟨T, by rw [← hT]; exact hrep, ?_⟩
  rw [← hT]
  rcases hgn with rfl | rfl <;> cases p <;> simp_all

/-- plain placements (electron–carbon, carbon–electron): the instantiated template acts as the
gate on the qubits `ρ` assigns to the operand roles -/
theorem two_sound_plain {C Q : Type} (A : QAction Q) (hA : QLawful A) (Mc : Sem (C × Q)) {cfg : Cfg}
    {key : String} (gn : GName) (hgn : gn = .cnot ∨ gn = .cphase) (p : Placement) (hp : p ≠ .cc)
    (rm : TOp → Option Nat) (htie : twoTie cfg key gn p rm = true)
    (hlt : ∀ top k, rm top = some k → k < p.nq)
    (g : Instr) (ta tb ts : Reg) (ex : List Instr) (hex : useTemplate cfg key g ta tb ts = .ok ex)
    (ρ : Nat → Nat) (hinj : ∀ i j, i < p.nq → j < p.nq → ρ i = ρ j → i = j)
    (regs : Reg → Option Int) (E : Env rm ρ regs ta tb ts) (c : C) (q : Q) :
    RunStraight (MQ A Mc) (serialise ex) ⟨regs, (c, q)⟩
      ⟨regs, (c, A.act ⟨gn, [ρ p.roles.1, ρ p.roles.2], 0, 0⟩ q)⟩ := by
  unfold twoTie at htie
  unfold useTemplate at hex
  cases he : expOf cfg key with
  | none => rw [he] at htie; cases htie
  | some body =>
    rw [he] at htie hex
    simp only at htie hex
    have htie' : (roleSeq rm body).isSome = true ∧ roleSeq rm body = repOf Gen.nvTwo gn p := by
      cases p
      · simpa [Bool.and_eq_true] using htie
      · simpa [Bool.and_eq_true] using htie
      · exact absurd rfl hp
    obtain ⟨seq, hseq⟩ := Option.isSome_iff_exists.1 htie'.1
    cases hb : instBody g ta tb ts body with
    | none => rw [hb] at hex; cases hex
    | some l =>
      rw [hb] at hex
      simp only [Except.ok.injEq] at hex
      subst hex
      obtain ⟨T, h1, h2⟩ := c07_two gn hgn p seq (by rw [← htie'.2]; exact hseq)
      have hinj' : ∀ i j, (∃ top, rm top = some i) → (∃ top, rm top = some j) → ρ i = ρ j → i = j := by
        intro i j ⟨ti, hi⟩ ⟨tj, hj⟩ e
        exact hinj i j (hlt ti i hi) (hlt tj j hj) e
      have hrun := run_body A Mc E g hinj' body l seq c q hb hseq
      have hl := hA.lift p.nq seq [⟨gn, [p.roles.1, p.roles.2], 0, 0⟩] T ρ q hinj h1 h2
      rw [hl] at hrun
      simpa [run_single, ren] using hrun

theorem setOf_setInstr {cfg : Cfg} (hC : ClsTie cfg = true) (r : Reg) (v : Int) :
    setOf cfg ⟨"core.SetInstruction", [.reg r, .imm v]⟩ = some (r, v) := by
  unfold ClsTie at hC
  simp only [Bool.and_eq_true] at hC
  have h2 := hC.2
  unfold setOf
  cases hi : infoOf cfg "core.SetInstruction" with
  | none => rw [hi] at h2; cases h2
  | some info => rw [hi] at h2; simp only at h2 ⊢; simp [h2]

/-- carbon–carbon: `set s 0`, then the circuit over (electron, carbon, carbon) -/
theorem two_sound_cc {C Q : Type} (A : QAction Q) (hA : QLawful A) (Mc : Sem (C × Q)) {cfg : Cfg}
    (hMc : SemLocal Mc cfg) (hC : ClsTie cfg = true)
    {key : String} (gn : GName) (hgn : gn = .cnot ∨ gn = .cphase)
    (htie : twoTie cfg key gn .cc rmCC = true)
    (g : Instr) (ta tb ts : Reg) (ex : List Instr) (hex : useTemplate cfg key g ta tb ts = .ok ex)
    (ρ : Nat → Nat) (hinj : ∀ i j, i < 3 → j < 3 → ρ i = ρ j → i = j) (hρ0 : ρ 0 = 0)
    (u : St (C × Q)) (hta : readQ u.regs ta = some (ρ 1)) (htb : readQ u.regs tb = some (ρ 2))
    (hna : ta ≠ ts) (hnb : tb ≠ ts) :
    ∃ u', RunStraight (MQ A Mc) (serialise ex) u u' ∧
      u'.mem = (u.mem.1, A.act ⟨gn, [ρ 1, ρ 2], 0, 0⟩ u.mem.2) ∧
      ∀ r, r ≠ ts → u'.regs r = u.regs r := by
  unfold twoTie at htie
  unfold useTemplate at hex
  cases he : expOf cfg key with
  | none => rw [he] at htie; cases htie
  | some body =>
    rw [he] at htie hex
    simp only [Bool.and_eq_true, beq_iff_eq] at htie hex
    obtain ⟨⟨hhead, hsome⟩, heq⟩ := htie
    obtain ⟨seq, hseq⟩ := Option.isSome_iff_exists.1 hsome
    cases body with
    | nil => simp at hhead
    | cons t0 tail =>
      simp only [List.head?_cons, Option.some.injEq] at hhead
      subst hhead
      simp only [List.tail_cons] at hseq heq
      cases hb : instBody g ta tb ts (setS0 :: tail) with
      | none => rw [hb] at hex; cases hex
      | some l =>
        rw [hb] at hex
        simp only [Except.ok.injEq] at hex
        subst hex
        unfold instBody at hb
        simp only [setS0, instOps, instOp] at hb
        cases hb' : instBody g ta tb ts tail with
        | none => rw [hb'] at hb; simp at hb
        | some l' =>
          rw [hb'] at hb
          simp only [Option.some.injEq] at hb
          subst hb
          -- the `set s 0`
          obtain ⟨u1, hu1, hm1, hr1⟩ := hMc.setSem _ ts 0 u (setOf_setInstr hC ts 0)
          have hexec : (MQ A Mc).exec ⟨"core.SetInstruction", [.reg ts, .imm 0]⟩ u = some u1 := by
            have h1 : ("core.SetInstruction" == movCls) = false := by decide
            simp only [MQ, h1, Bool.false_eq_true, ↓reduceIte, fixedSingles_gname.2.2.2]
            exact hu1
          have hnd : isDebug ⟨"core.SetInstruction", [.reg ts, .imm 0]⟩ = false := by
            have : isDebugCls "core.SetInstruction" = false := by decide
            rw [isDebug_mk]; exact this
          have hser : serialise (⟨"core.SetInstruction", [.reg ts, .imm 0]⟩ :: l')
              = ⟨"core.SetInstruction", [.reg ts, .imm 0]⟩ :: serialise l' := by
            simp [serialise, hnd]
          rw [hser]
          have E : Env rmCC ρ u1.regs ta tb ts := by
            refine ⟨?_, ?_, ?_, ?_⟩
            · intro k hk
              simp only [rmCC, Option.some.injEq] at hk
              subst hk
              simp only [readQ, hr1 ta, hna, ↓reduceIte]; exact hta
            · intro k hk
              simp only [rmCC, Option.some.injEq] at hk
              subst hk
              simp only [readQ, hr1 tb, hnb, ↓reduceIte]; exact htb
            · intro k hk
              simp only [rmCC, Option.some.injEq] at hk
              subst hk
              simp [readQ, hr1 ts, natOf, hρ0]
            · intro top k hk
              cases top <;> simp [rmCC] at hk <;> simp
          obtain ⟨T, h1, h2⟩ := c07_two gn hgn .cc seq (by rw [← heq]; exact hseq)
          have hlt : ∀ top k, rmCC top = some k → k < 3 := by
            intro top k hk
            cases top <;> simp [rmCC] at hk <;> omega
          have hinj' : ∀ i j, (∃ top, rmCC top = some i) → (∃ top, rmCC top = some j) → ρ i = ρ j → i = j := by
            intro i j ⟨ti, hi⟩ ⟨tj, hj⟩ e
            exact hinj i j (hlt ti i hi) (hlt tj j hj) e
          have hrun := run_body A Mc E g hinj' tail l' seq u1.mem.1 u1.mem.2 hb' hseq
          have hl := hA.lift 3 seq [⟨gn, [1, 2], 0, 0⟩] T ρ u1.mem.2 hinj h1 h2
          rw [hl] at hrun
          refine ⟨_, ⟨u1, hexec, hrun⟩, ?_, ?_⟩
          · simp [run_single, ren, hm1]
          · intro r hr
            simp [hr1 r, hr]

/-! ### reading a vanilla gate instruction -/

theorem giOf_kind1 {regs : Reg → Option Int} {i : Instr} {gn : GName} {gi : GI}
    (hg : gnameOf i.cls = some gn) (hk : gkind gn = 1) (h : giOf regs i = some gi) :
    ∃ r q, i.ops = [.reg r] ∧ readQ regs r = some q ∧ gi = ⟨gn, [q], 0, 0⟩ := by
  unfold giOf at h
  rw [hg] at h
  split at h
  · rename_i g' r hg' hops
    simp only [Option.some.injEq] at hg'; subst hg'
    simp only [hk, ↓reduceIte, Option.map_eq_some_iff] at h
    obtain ⟨q, hq, rfl⟩ := h
    exact ⟨r, q, hops, hq, rfl⟩
  · rename_i g' _ _ _ hg' _; simp only [Option.some.injEq] at hg'; subst hg'; simp [hk] at h
  · rename_i g' _ _ hg' _; simp only [Option.some.injEq] at hg'; subst hg'; simp [hk] at h
  · rename_i g' _ _ _ _ hg' _; simp only [Option.some.injEq] at hg'; subst hg'; simp [hk] at h
  · cases h

theorem giOf_kind2 {regs : Reg → Option Int} {i : Instr} {gn : GName} {gi : GI}
    (hg : gnameOf i.cls = some gn) (hk : gkind gn = 2) (h : giOf regs i = some gi) :
    ∃ r n d q n' d', i.ops = [.reg r, .imm n, .imm d] ∧ readQ regs r = some q ∧ natOf n = some n' ∧
      natOf d = some d' ∧ gi = ⟨gn, [q], n', d'⟩ := by
  unfold giOf at h
  rw [hg] at h
  split at h
  · rename_i g' _ hg' _; simp only [Option.some.injEq] at hg'; subst hg'; simp [hk] at h
  · rename_i g' r n d hg' hops
    simp only [Option.some.injEq] at hg'; subst hg'
    simp only [hk, ↓reduceIte] at h
    split at h
    · rename_i q n' d' hq hn hd
      simp only [Option.some.injEq] at h
      exact ⟨r, n, d, q, n', d', hops, hq, hn, hd, h.symm⟩
    · cases h
  · rename_i g' _ _ hg' _; simp only [Option.some.injEq] at hg'; subst hg'; simp [hk] at h
  · rename_i g' _ _ _ _ hg' _; simp only [Option.some.injEq] at hg'; subst hg'; simp [hk] at h
  · cases h

theorem giOf_kind3 {regs : Reg → Option Int} {i : Instr} {gn : GName} {gi : GI}
    (hg : gnameOf i.cls = some gn) (hk : gkind gn = 3) (h : giOf regs i = some gi) :
    ∃ r0 r1 a b, i.ops = [.reg r0, .reg r1] ∧ readQ regs r0 = some a ∧ readQ regs r1 = some b ∧
      a ≠ b ∧ gi = ⟨gn, [a, b], 0, 0⟩ := by
  unfold giOf at h
  rw [hg] at h
  split at h
  · rename_i g' _ hg' _; simp only [Option.some.injEq] at hg'; subst hg'; simp [hk] at h
  · rename_i g' _ _ _ hg' _; simp only [Option.some.injEq] at hg'; subst hg'; simp [hk] at h
  · rename_i g' r0 r1 hg' hops
    simp only [Option.some.injEq] at hg'; subst hg'
    simp only [hk, ↓reduceIte] at h
    split at h
    · rename_i a b ha hb
      split at h
      · cases h
      · rename_i hne
        simp only [Option.some.injEq] at h
        exact ⟨r0, r1, a, b, hops, ha, hb, hne, h.symm⟩
    · cases h
  · rename_i g' _ _ _ _ hg' _; simp only [Option.some.injEq] at hg'; subst hg'; simp [hk] at h
  · cases h

theorem mq_exec_gate {C Q : Type} {A : QAction Q} {Mc : Sem (C × Q)} {g : Instr} {s s' : St (C × Q)}
    {gn : GName} (hg : gnameOf g.cls = some gn) (h : (MQ A Mc).exec g s = some s') :
    ∃ gi, giOf s.regs g = some gi ∧ s' = ⟨s.regs, (s.mem.1, A.act gi s.mem.2)⟩ := by
  have hnm : ¬ g.cls = movCls := by simpa using gnameOf_not_mov hg
  simp only [MQ, beq_iff_eq, hnm, ↓reduceIte, hg, Option.map_eq_some_iff] at h
  obtain ⟨gi, h1, h2⟩ := h
  exact ⟨gi, h1, h2.symm⟩

/-- fixed one-qubit gates: C07's `single_gates_eq` through the tie -/
theorem single_sound {C Q : Type} (A : QAction Q) (hA : QLawful A) (Mc : Sem (C × Q)) {cfg : Cfg}
    {key : String} (gn : GName) (hk : gkind gn = 1) (htie : singleTie cfg key gn = true)
    (g : Instr) (a : Reg) (ex : List Instr) (hex : useTemplate cfg key g a a a = .ok ex)
    (regs : Reg → Option Int) (x : Nat) (hx : readQ regs a = some x) (c : C) (q : Q) :
    RunStraight (MQ A Mc) (serialise ex) ⟨regs, (c, q)⟩ ⟨regs, (c, A.act ⟨gn, [x], 0, 0⟩ q)⟩ := by
  unfold singleTie at htie
  unfold useTemplate at hex
  cases he : expOf cfg key with
  | none => rw [he] at htie; cases htie
  | some body =>
    rw [he] at htie hex
    simp only at htie hex
    cases hseq : roleSeq rm1 body with
    | none => rw [hseq] at htie; cases htie
    | some seq =>
      rw [hseq] at htie
      simp only [List.any_eq_true, Bool.and_eq_true, beq_iff_eq] at htie
      obtain ⟨e, hmem, he1, he2⟩ := htie
      have hok := C07.single_gates_eq e hmem
      rw [he1, he2] at hok
      unfold singleOk at hok
      have hT : ∃ T, (target1 gn).map (embed1 1 0) = some T := by
        cases gn <;> simp [gkind] at hk <;> simp [target1]
      obtain ⟨T, hT⟩ := hT
      rw [hT] at hok
      have hself : equivUpToScalar? (circuit 1 [⟨gn, [0], 0, 0⟩]) (some T) = true := by
        have := List.all_eq_true.1 targets_self.1 gn (by cases gn <;> simp [gkind] at hk <;> simp)
        rw [← hT]; exact this
      cases hb : instBody g a a a body with
      | none => rw [hb] at hex; cases hex
      | some l =>
        rw [hb] at hex
        simp only [Except.ok.injEq] at hex
        subst hex
        have E : Env rm1 (fun _ => x) regs a a a := by
          refine ⟨fun _ _ => hx, ?_, ?_, ?_⟩
          · intro k hk'; simp [rm1] at hk'
          · intro k hk'; simp [rm1] at hk'
          · intro top k hk'; cases top <;> simp [rm1] at hk' <;> simp
        have hinj' : ∀ i j, (∃ top, rm1 top = some i) → (∃ top, rm1 top = some j) →
            (fun _ : Nat => x) i = (fun _ : Nat => x) j → i = j := by
          intro i j ⟨ti, hi⟩ ⟨tj, hj⟩ _
          cases ti <;> simp [rm1] at hi <;> cases tj <;> simp [rm1] at hj <;> omega
        have hrun := run_body A Mc E g hinj' body l seq c q hb hseq
        have hl := hA.lift 1 seq [⟨gn, [0], 0, 0⟩] T (fun _ => x) q (by intro i j hi hj _; omega) hok hself
        rw [hl] at hrun
        simpa [run_single, ren] using hrun

theorem natOf_cast (m : Nat) : natOf (m : Int) = some m := by simp [natOf]

theorem natOf_eq {n : Int} {m : Nat} (h : natOf n = some m) : n = (m : Int) := by
  unfold natOf at h
  split at h
  · simp only [Option.some.injEq] at h; omega
  · cases h

/-- rotations: the same rotation is emitted (simulation mode) or the same angle with
denominator 4 (hardware mode) -/
theorem rot_sound {C Q : Type} (A : QAction Q) (hA : QLawful A) (Mc : Sem (C × Q)) {cfg : Cfg}
    (gn : GName) (hk : gkind gn = 2) (g : Instr) (htie : rotTie cfg g.cls gn = true)
    (a : Reg) (n d : Int) (hops : g.ops = [.reg a, .imm n, .imm d]) (ex : List Instr)
    (hex : expandGate1 cfg g = .ok ex)
    (regs : Reg → Option Int) (x n' d' : Nat) (hx : readQ regs a = some x) (hn : natOf n = some n')
    (hd : natOf d = some d') (c : C) (q : Q) :
    RunStraight (MQ A Mc) (serialise ex) ⟨regs, (c, q)⟩ ⟨regs, (c, A.act ⟨gn, [x], n', d'⟩ q)⟩ := by
  unfold rotTie at htie
  simp only [Bool.and_eq_true] at htie
  obtain ⟨h1, h2⟩ := htie
  unfold expandGate1 at hex
  rw [hops] at hex
  simp only at hex
  unfold useTemplate at hex
  by_cases hhw : cfg.hw = true
  · simp only [hhw, ↓reduceIte] at hex
    split at h2
    · rename_i cN hexp
      rw [hexp] at hex
      simp only [Bool.and_eq_true, beq_iff_eq, Bool.not_eq_eq_eq_not, Bool.not_true] at h2
      obtain ⟨hg, hnd⟩ := h2
      have hdle : 0 ≤ d ∧ d ≤ 4 ∨ ¬ (0 ≤ d ∧ d ≤ 4) := Classical.em _
      rcases hdle with hdle | hdle
      · simp only [instBody, instOps, instOp, hwNumOf, hops, hdle, and_self, ↓reduceIte,
          Option.map_some] at hex
        simp only [Except.ok.injEq] at hex
        subst hex
        have hser : ∀ os, serialise [(⟨cN, os⟩ : Instr)] = [⟨cN, os⟩] := by
          intro os; simp [serialise, isDebug_mk, hnd]
        rw [hser]
        have hnm : ¬ cN = movCls := by simpa using gnameOf_not_mov hg
        have hnn := natOf_eq hn
        have hdd := natOf_eq hd
        have hd4 : d' ≤ 4 := by omega
        have hval : n * (2 : Int) ^ (4 - d).toNat = ((n' * 2 ^ (4 - d') : Nat) : Int) := by
          have : (4 - d).toNat = 4 - d' := by omega
          rw [this, hnn]; push_cast; rfl
        refine ⟨_, ?_, rfl⟩
        simp only [MQ, beq_iff_eq, hnm, ↓reduceIte, hg, giOf, hk, hx, hval, natOf_cast,
          show natOf (4 : Int) = some 4 from rfl, Option.map_some, Option.some.injEq]
        congr 2
        have hrot : GName.isRot gn = true := by cases gn <;> simp [gkind] at hk <;> rfl
        have := hA.angle gn x n' d' (n' * 2 ^ (4 - d')) 4 q hrot (by
          rw [Nat.mul_assoc, ← Nat.pow_add]; congr 2; omega)
        rw [this]
      · simp only [instBody, instOps, instOp, hwNumOf, hops, hdle, ↓reduceIte, Option.map_none] at hex
        cases hex
    · cases h2
  · simp only [hhw, Bool.false_eq_true, ↓reduceIte, String.append_empty] at hex
    split at h1
    · rename_i cN hexp
      rw [hexp] at hex
      simp only [Bool.and_eq_true, beq_iff_eq, Bool.not_eq_eq_eq_not, Bool.not_true] at h1
      obtain ⟨hg, hnd⟩ := h1
      simp only [instBody, instOps, instOp, hops, List.getElem?_cons_succ, List.getElem?_cons_zero] at hex
      simp only [Except.ok.injEq] at hex
      subst hex
      have hser : ∀ os, serialise [(⟨cN, os⟩ : Instr)] = [⟨cN, os⟩] := by
        intro os; simp [serialise, isDebug_mk, hnd]
      rw [hser]
      have hnm : ¬ cN = movCls := by simpa using gnameOf_not_mov hg
      refine ⟨_, ?_, rfl⟩
      simp [MQ, hnm, hg, giOf, hk, hx, hn, hd]
    · cases h1

/-! ### MOV -/

/-- C07's `mov_transfer` for the representative move circuit of a direction, in the form
`transferLaw` consumes; the `φ` it leaves on the source is `movPhi` -/
theorem c07_mov (ec : Bool) (seq : List GI) (h : movRep ec = some seq) :
    ∃ U, circuit 2 seq = some U ∧ isTransfer (movDir ec).1 (movDir ec).2 U = true ∧
      movPhi ec = phiOf (movDir ec).1 (movDir ec).2 U := by
  unfold movRep at h
  cases hf : Gen.nvMov.find? (fun e => if ec then e.1 == 0 else e.2.1 == 0) with
  | none => rw [hf] at h; cases h
  | some e =>
    rw [hf] at h
    simp only [Option.map_some, Option.some.injEq] at h
    have hmem : e ∈ Gen.nvMov := List.mem_of_find?_eq_some hf
    have hp := List.find?_some hf
    have hok := C07.mov_transfer e hmem
    rw [h] at hok
    unfold movOk at hok
    have hroles : movRoles e.1 e.2.1 = some (movDir ec) ∨ movRoles e.1 e.2.1 = none := by
      unfold movRoles movDir
      cases ec with
      | true =>
        have h1 : e.1 = 0 := by simpa using hp
        by_cases h2 : e.2.1 = 0 <;> simp [h1, h2]
      | false =>
        have h2 : e.2.1 = 0 := by simpa using hp
        by_cases h1 : e.1 = 0 <;> simp [h1, h2]
    rcases hroles with hr | hr
    · rw [hr] at hok
      cases hc : circuit 2 seq with
      | none => rw [hc] at hok; simp at hok
      | some U =>
        rw [hc] at hok
        refine ⟨U, rfl, by simpa using hok, ?_⟩
        unfold movPhi movRep
        rw [hf]
        simp [h, hc]
    · rw [hr] at hok; simp at hok

/-- the instantiated move template performs the transfer, wherever the transfer is defined -/
theorem mov_sound {C Q : Type} (A : QAction Q) (hA : QLawful A) (Mc : Sem (C × Q)) {cfg : Cfg}
    {key : String} (ec : Bool) (rm : TOp → Option Nat) (htie : movTie cfg key ec rm = true)
    (hlt : ∀ top k, rm top = some k → k < 2)
    (g : Instr) (ta tb ts : Reg) (ex : List Instr) (hex : useTemplate cfg key g ta tb ts = .ok ex)
    (ρ : Nat → Nat) (hinj : ∀ i j, i < 2 → j < 2 → ρ i = ρ j → i = j)
    (regs : Reg → Option Int) (E : Env rm ρ regs ta tb ts) (c : C) (q q' : Q)
    (htr : A.transfer (movPhi ec) (ρ (movDir ec).1) (ρ (movDir ec).2) q = some q') :
    RunStraight (MQ A Mc) (serialise ex) ⟨regs, (c, q)⟩ ⟨regs, (c, q')⟩ := by
  unfold movTie at htie
  unfold useTemplate at hex
  cases he : expOf cfg key with
  | none => rw [he] at htie; cases htie
  | some body =>
    rw [he] at htie hex
    simp only [Bool.and_eq_true, beq_iff_eq] at htie hex
    obtain ⟨seq, hseq⟩ := Option.isSome_iff_exists.1 htie.1
    cases hb : instBody g ta tb ts body with
    | none => rw [hb] at hex; cases hex
    | some l =>
      rw [hb] at hex
      simp only [Except.ok.injEq] at hex
      subst hex
      obtain ⟨U, hU, hT, hphi⟩ := c07_mov ec seq (by rw [← htie.2]; exact hseq)
      have hinj' : ∀ i j, (∃ top, rm top = some i) → (∃ top, rm top = some j) → ρ i = ρ j → i = j := by
        intro i j ⟨ti, hi⟩ ⟨tj, hj⟩ e
        exact hinj i j (hlt ti i hi) (hlt tj j hj) e
      have hrun := run_body A Mc E g hinj' body l seq c q hb hseq
      rw [hphi] at htr
      rw [hA.transferLaw seq U _ _ ρ q q' hinj hU hT htr] at hrun
      exact hrun

end NQ.Tr
