import NetqasmVerif.Model.Text
import NetqasmVerif.Lemmas.Table
namespace NQ.Text
open NQ

/-! ### Token level: assembling the tokens of a printed instruction gives the instruction -/

theorem replOps_print (S : Syms) (exc : List (String × Nat)) (name : String) (cur : List Reg) :
    ∀ (ks : List FieldKind) (ops : List Operand) (j : Nat) (tmp : List Reg),
      kindsOk ks ops = true → exemptFrom exc name j ks = true →
      replOps S exc name cur j (ops.map opTok) tmp = .ok ([], ops.map opTok)
  | [], [], _, _, _, _ => by simp [replOps]
  | [], _ :: _, _, _, h, _ => by simp [kindsOk] at h
  | _ :: _, [], _, _, h, _ => by simp [kindsOk] at h
  | k :: ks, o :: os, j, tmp, h, he => by
    simp only [kindsOk, Bool.and_eq_true] at h
    simp only [exemptFrom, Bool.and_eq_true] at he
    have ih := replOps_print S exc name cur ks os (j + 1) tmp h.2 he.2
    cases o with
    | reg r => simp only [List.map_cons, opTok, replOps, ih]
    | addr a => simp only [List.map_cons, opTok, replOps, ih]
    | entry a i => simp only [List.map_cons, opTok, replOps, replVal, ih, List.nil_append]
    | slice a s e => simp only [List.map_cons, opTok, replOps, replVal, ih, List.nil_append]
    | imm v =>
      have hk : isImm k = true := by cases k <;> simp [kindOk] at h <;> rfl
      have hx : exc.contains (name, j) = true := by
        have := he.1; simp only [hk, Bool.not_true, Bool.false_or] at this; exact this
      simp only [List.map_cons, opTok, replOps, hx, if_true, ih]

theorem fromOperands_print :
    ∀ (ks : List FieldKind) (ops : List Operand), kindsOk ks ops = true →
      fromOperands ks (ops.map opTok) = .ok ops
  | [], [], _ => by simp [fromOperands]
  | [], _ :: _, h => by simp [kindsOk] at h
  | _ :: _, [], h => by simp [kindsOk] at h
  | k :: ks, o :: os, h => by
    simp only [kindsOk, Bool.and_eq_true] at h
    have ih := fromOperands_print ks os h.2
    cases k <;> cases o <;> simp [kindOk] at h <;>
      simp only [List.map_cons, opTok, fromOperands, fromOperand, ih]

theorem kindsOk_length : ∀ (ks : List FieldKind) (ops : List Operand), kindsOk ks ops = true →
    ops.length = ks.length
  | [], [], _ => rfl
  | [], _ :: _, h => by simp [kindsOk] at h
  | _ :: _, [], h => by simp [kindsOk] at h
  | _ :: ks, _ :: os, h => by
    simp only [kindsOk, Bool.and_eq_true] at h
    simp [kindsOk_length ks os h.2]

/-- in-range operands in particular have the right constructors -/
theorem kindsOk_of_inRange : ∀ (ks : List FieldKind) (ops : List Operand),
    InRangeOps ks ops = true → kindsOk ks ops = true
  | [], [], _ => rfl
  | [], _ :: _, h => by simp [InRangeOps] at h
  | _ :: _, [], h => by simp [InRangeOps] at h
  | k :: ks, o :: os, h => by
    simp only [InRangeOps, Bool.and_eq_true] at h
    have := kindsOk_of_inRange ks os h.2
    cases k <;> cases o <;> simp [InRangeOp] at h <;> simp [kindsOk, kindOk, this]

/-- an instruction of table `T` that can be printed and parsed back -/
def Printable (T : Table) (exc : List (String × Nat)) (i : Instr) : Prop :=
  ∃ row, rowOf T i.cls = some row ∧ nameMap T row.mn = some row ∧
    exemptFrom exc row.mn 0 row.shape = true ∧ kindsOk row.shape i.ops = true

theorem replCmds_print (T : Table) (S : Syms) (exc : List (String × Nat)) (cur : List Reg)
    (is : List Instr) (h : ∀ i ∈ is, Printable T exc i) :
    replCmds S exc cur (is.map (toksOf T)) = .ok (is.map (toksOf T)) := by
  induction is with
  | nil => rfl
  | cons i is ih =>
    obtain ⟨row, hr, _, he, hk⟩ := h i List.mem_cons_self
    have ih' := ih (fun j hj => h j (List.mem_cons_of_mem _ hj))
    simp only [List.map_cons, replCmds]
    have : toksOf T i = ⟨row.mn, i.ops.map opTok⟩ := by simp [toksOf, hr, printToks]
    rw [this]
    simp only [replOps_print S exc row.mn cur row.shape i.ops 0 [] hk he, ih', List.nil_append]

theorem buildCmds_print (T : Table) (exc : List (String × Nat)) (is : List Instr)
    (h : ∀ i ∈ is, Printable T exc i) : buildCmds T (is.map (toksOf T)) = .ok is := by
  induction is with
  | nil => rfl
  | cons i is ih =>
    obtain ⟨row, hr, hn, _, hk⟩ := h i List.mem_cons_self
    have ih' := ih (fun j hj => h j (List.mem_cons_of_mem _ hj))
    have : toksOf T i = ⟨row.mn, i.ops.map opTok⟩ := by simp [toksOf, hr, printToks]
    simp only [List.map_cons, buildCmds, this, buildCmd, hn, List.length_map,
      kindsOk_length _ _ hk, bne_self_eq_false, Bool.false_eq_true, if_false,
      fromOperands_print _ _ hk, ih']
    obtain ⟨hm, hc⟩ := rowOf_some hr
    cases i; simp at hc ⊢; exact hc

/-- **token level**: assembling the tokens of any list of printed instructions gives
exactly these instructions (no `set` is inserted, every mnemonic finds its class) -/
theorem assemble_print (T : Table) (S : Syms) (exc : List (String × Nat)) (is : List Instr)
    (h : ∀ i ∈ is, Printable T exc i) : assemble T S exc (is.map (toksOf T)) = .ok is := by
  simp only [assemble, replaceConstants, replCmds_print T S exc _ is h, buildCmds_print T exc is h]

theorem printable_of_rowOk (T : Table) (exc : List (String × Nat)) (generic : List String)
    (hT : T.all (rowTextOk T exc generic) = true) (i : Instr) (row : Row)
    (hr : rowOf T i.cls = some row) (hk : kindsOk row.shape i.ops = true) : Printable T exc i := by
  have hm := (rowOf_some hr).1
  have := List.all_eq_true.1 hT row hm
  simp only [rowTextOk, Bool.and_eq_true, beq_iff_eq] at this
  exact ⟨row, hr, this.1.1.1.1.1, this.1.1.1.2, hk⟩

end NQ.Text
